(* Theory/StateSpaceThm.v — what the state-space model of Model/StateSpace.v computes.
   Part 1 (pure matrix algebra): whenever [state_space_matrices] answers Ok (A, B, C, D) and the stored
     capacitances / inductances are non-zero,
        A_tilde * C = DQ * (Lambda * A)        A_tilde * D = DQ * (Lambda * B) + QS
        DQ^T * C = I                           DQ^T * D = 0
     ([ss_augmented_mat]); for all x, u: z = C x + D u and w = Lambda (A x + B u) satisfy
        A_tilde z = DQ w + QS u   and   DQ^T z = x                              ([ss_augmented]).
   Part 2 (reading the rows on the w = 0 network): the model's own output rows for potentials, voltages and currents
     give, for every state x and input u, a solution of Kirchhoff's laws in which capacitor k carries C_k (A x + B u)_k
     under the voltage x_k, inductor k carries x_(nC+k) under the voltage L_k (A x + B u)_(nC+k), every ideal source
     carries its input, every other branch obeys Ohm's law ([ss_laws]).
   Generic in the field. *)
From Coq Require Import List Bool NArith Arith Lia Field Ring Permutation.
From CC Require Import Theory.Field Theory.Labels Model.Network Model.StateSpace Theory.Spec Theory.Mna
  Theory.MnaComplete Theory.Api Theory.Gauss Theory.Matrix Theory.Tellegen.
Import ListNotations.

Section SSThm.
Variable K : fops.
Hypothesis KOK : fops_ok K.
Add Field Kss : (Kth K KOK).
Notation "0" := (f0 K). Notation "1" := (f1 K).
Infix "+" := (fadd K). Infix "*" := (fmul K). Infix "-" := (fsub K). Notation "- x" := (fopp K x).
Infix "/" := (fdiv K).
Notation "x == y" := (feqb K x y) (at level 70).
Notation mat := (list (list K)).
Ltac feq x y := destruct (feqb_spec KOK x y).
Ltac leq a b := destruct (label_eqb_spec a b).

Variable n : network K.
Variables cvals lvals : list (label * K).
Notation bs := (branches n).
Notation ns := (node_index n).
Notation vs := (vs_index n).
Notation cs := (cs_index n).
Notation ck := (ckeys K cvals).
Notation lk := (lkeys K lvals).
Notation N := (ss_N K n).
Notation M := (ss_M K n).
Notation dim := (ss_dim K n).
Notation nC := (ss_nC K cvals).
Notation nL := (ss_nL K lvals).
Notation nst := (ss_nst K cvals lvals).
Notation nS := (ss_nS K n lvals).
Notation cols := (columns K n).
Notation srcs := (sources K n lvals).
Notation Lam := (Lambda K cvals lvals).
Notation iLam := (invLambda K cvals lvals).
Notation QSm := (QS K n lvals).

Definition Pm : mat := mna_matrix n.
Definition Delta_mat : mat := map (fun id => map (delta_ent K n id) ns ++ map (fun _ => 0) vs) ck.
Definition QL_mat : mat := select_cols K (map (lindex cols) lk) (Qmat K n).
Definition DQm : mat := DQ_of K n Delta_mat QL_mat.
Definition DQt : mat := transpose nst DQm.

(* ---------------- shapes ---------------- *)
Lemma len_ck : length ck = nC. Proof. apply map_length. Qed.
Lemma len_lk : length lk = nL. Proof. apply map_length. Qed.
Lemma len_lam : length (lam K cvals lvals) = nst.
Proof. unfold lam, ss_nst, ss_nC, ss_nL. rewrite app_length, !map_length. reflexivity. Qed.

Lemma W_P : wfm dim dim Pm.
Proof. exact (mna_square K n). Qed.

Lemma W_Delta : wfm nC dim Delta_mat.
Proof. split; [unfold Delta_mat; rewrite map_length; apply len_ck|].
  intros row Hr. unfold Delta_mat in Hr. apply in_map_iff in Hr. destruct Hr as [id [<- _]].
  rewrite app_length, !map_length. reflexivity. Qed.

Lemma W_Q : wfm dim (length cs + M) (Qmat K n).
Proof. split.
  - unfold Qmat. rewrite app_length, !map_length, seq_length. reflexivity.
  - intros row Hr. unfold Qmat in Hr. apply in_app_or in Hr. destruct Hr as [Hr|Hr];
      apply in_map_iff in Hr; destruct Hr as [i [<- _]]; rewrite app_length, !map_length.
    + reflexivity.
    + rewrite (unit_vec_length K). reflexivity. Qed.

Lemma W_QL : wfm dim nL QL_mat.
Proof. unfold QL_mat. rewrite <- len_lk, <- (map_length (lindex cols) lk).
  apply (wfm_select K dim (length cs + M)), W_Q. Qed.

Lemma W_QS : wfm dim nS QSm.
Proof. apply (wfm_select K dim (length cs + M)), W_Q. Qed.

Lemma W_DQ : wfm dim nst DQm.
Proof. unfold DQm, DQ_of, ss_nst. apply (wfm_hstack K dim nC nL); [|exact W_QL].
  apply (wfm_transpose K nC dim), W_Delta. Qed.

Lemma W_DQt : wfm nst dim DQt.
Proof. apply (wfm_transpose K dim nst), W_DQ. Qed.

Lemma W_Lam : wfm nst nst Lam.
Proof. unfold Lambda. rewrite <- len_lam. apply wfm_diag. Qed.

Lemma W_iLam : wfm nst nst iLam.
Proof. unfold invLambda. rewrite <- len_lam, <- (map_length (fun x => 1 / x) (lam K cvals lvals)). apply wfm_diag. Qed.

(* ---------------- the MNA matrix is symmetric ---------------- *)
Lemma between_sym (i j : label) (b : branch K) : between i j b = between j i b.
Proof. unfold between.
  destruct (label_eqb (node1 b) i), (label_eqb (node1 b) j), (label_eqb (node2 b) i), (label_eqb (node2 b) j),
    (label_eqb i (node1 b)), (label_eqb i (node2 b)), (label_eqb j (node1 b)), (label_eqb j (node2 b)); reflexivity. Qed.

Lemma Yent_sym (i j : label) : Yent n i j = Yent n j i.
Proof. unfold Yent. rewrite (label_eqb_sym j i). leq i j; [subst; reflexivity|].
  unfold admittance_between. f_equal. f_equal. f_equal. apply filter_ext. intros b. apply between_sym. Qed.

Lemma ent_P (i j : nat) : i < dim -> j < dim ->
  ent Pm i j =
  if Nat.ltb i N then (if Nat.ltb j N then Yent n (nth i ns []) (nth j ns []) else Bent n (nth i ns []) (nth (j - N) vs []))
  else (if Nat.ltb j N then Bent n (nth j ns []) (nth (i - N) vs []) else 0).
Proof. intros Hi Hj. unfold ss_dim, ss_N, ss_M in *. unfold ent, Pm, mna_matrix, entry.
  destruct (Nat.ltb_spec i (length ns)) as [Hi'|Hi'].
  - rewrite app_nth1 by (rewrite map_length; exact Hi').
    rewrite (nth_map_lt (fun i => map (Yent n i) ns ++ map (Bent n i) vs) ns i [] [] Hi').
    destruct (Nat.ltb_spec j (length ns)) as [Hj'|Hj'].
    + rewrite app_nth1 by (rewrite map_length; exact Hj'). apply (nth_map_lt _ ns j [] 0 Hj').
    + rewrite app_nth2 by (rewrite map_length; exact Hj'). rewrite map_length.
      apply (nth_map_lt _ vs (j - length ns) [] 0). lia.
  - rewrite app_nth2 by (rewrite map_length; exact Hi'). rewrite map_length.
    rewrite (nth_map_lt (fun v => map (fun i => Bent n i v) ns ++ map (fun _ => 0) vs) vs (i - length ns) [] []) by lia.
    destruct (Nat.ltb_spec j (length ns)) as [Hj'|Hj'].
    + rewrite app_nth1 by (rewrite map_length; exact Hj').
      apply (nth_map_lt (fun i0 => Bent n i0 (nth (i - length ns) vs [])) ns j [] 0 Hj').
    + rewrite app_nth2 by (rewrite map_length; exact Hj'). apply (nth_map_zero K). Qed.

Lemma P_symmetric : symmetric dim Pm.
Proof. unfold symmetric. apply (mat_ext K dim dim); [apply (wfm_transpose K dim dim), W_P|exact W_P|].
  intros i j Hi Hj. rewrite (ent_transpose K) by exact Hi. rewrite !ent_P by assumption.
  destruct (Nat.ltb i N), (Nat.ltb j N); try reflexivity. apply Yent_sym. Qed.

(* ---------------- unfolding a successful run ---------------- *)
Definition Tm (Pi : mat) : mat := mat_mul dim DQt Pi.
Definition Sm (Pi : mat) : mat := mat_mul nst (Tm Pi) DQm.

Lemma ssm_inv (m : ssm K) : state_space_matrices K n cvals lvals = Ok m ->
  exists Pi Mx, inverse Pm = Some Pi /\ inverse (Sm Pi) = Some Mx
    /\ ss_A m = mat_mul nst iLam Mx
    /\ ss_C m = mat_mul nst (transpose dim (Tm Pi)) Mx
    /\ ss_B m = mat_mul nS (mat_mul dim (mat_opp K iLam) (transpose nst (ss_C m))) QSm
    /\ ss_D m = mat_mul nS (mat_sub K Pi (mat_mul dim (transpose dim (Tm Pi)) (transpose nst (ss_C m)))) QSm.
Proof. unfold state_space_matrices, element_incidence_matrix, QL.
  destruct (negb (Nat.eqb N 0) && negb (forallb (has_branch K n) ck)); [discriminate|]. simpl.
  destruct (forallb (fun l => lmem l cols) lk); [|discriminate]. simpl.
  fold Delta_mat. fold QL_mat. fold DQm. fold DQt. fold Pm.
  destruct (inverse Pm) as [Pi|] eqn:EP; [|discriminate].
  fold (Tm Pi). fold (Sm Pi).
  destruct (inverse (Sm Pi)) as [Mx|] eqn:ES; [|discriminate].
  intros H. injection H as <-. exists Pi, Mx. simpl. repeat split; assumption || reflexivity. Qed.

Lemma add_opp_l r c (X Y : mat) : wfm r c X -> wfm r c Y -> mat_add (mat_opp K X) Y = mat_sub K Y X.
Proof. intros WX WY. apply (mat_ext K r c); [apply wfm_add; [apply wfm_opp|]; assumption|apply wfm_sub; assumption|].
  intros i j Hi Hj. rewrite (ent_add K KOK r c) by (try apply wfm_opp; assumption).
  rewrite (ent_opp K KOK r c), (ent_sub K KOK r c) by assumption. ring. Qed.

Ltac wf := repeat first [ eassumption | apply (wfm_opp K) | apply (wfm_sub K) | apply (wfm_add K) | eapply (wfm_mul K)
                        | apply (wfm_transpose K) | apply (wfm_ident K) | apply (wfm_zero_mat K) ].

(* ---------------- the matrix identities ---------------- *)
Hypothesis lam_nz : forall k, k < nst -> nth k (lam K cvals lvals) 0 <> 0.

Lemma Lam_iLam : mat_mul nst Lam iLam = @ident K nst.
Proof. unfold Lambda, invLambda. rewrite <- len_lam. apply (diag_inv K KOK). rewrite len_lam. exact lam_nz. Qed.

Theorem ss_augmented_mat (m : ssm K) : state_space_matrices K n cvals lvals = Ok m ->
  wfm nst nst (ss_A m) /\ wfm nst nS (ss_B m) /\ wfm dim nst (ss_C m) /\ wfm dim nS (ss_D m)
  /\ mat_mul nst Pm (ss_C m) = mat_mul nst DQm (mat_mul nst Lam (ss_A m))
  /\ mat_mul nS Pm (ss_D m) = mat_add (mat_mul nS DQm (mat_mul nS Lam (ss_B m))) QSm
  /\ mat_mul nst DQt (ss_C m) = @ident K nst
  /\ mat_mul nS DQt (ss_D m) = zero_mat nst nS.
Proof. intros Hm. destruct (ssm_inv m Hm) as [Pi [Mx [HPi [HMx [EA [EC [EB ED]]]]]]].
  pose proof W_P as WP. pose proof W_DQ as WDQ. pose proof W_DQt as WDQt. pose proof W_Lam as WL. pose proof W_iLam as WiL.
  destruct (inverse_two_sided K KOK dim Pm Pi WP HPi) as [WPi [PPi PiP]].
  pose proof (inverse_symmetric K KOK dim Pm Pi WP P_symmetric HPi) as SPi. unfold symmetric in SPi.
  assert (WT : wfm nst dim (Tm Pi)) by (apply (wfm_mul K nst dim), WDQt).
  assert (WS : wfm nst nst (Sm Pi)) by (apply (wfm_mul K nst dim), WT).
  destruct (inverse_two_sided K KOK nst (Sm Pi) Mx WS HMx) as [WMx [SMx MxS]].
  (* T^T = Pi DQ *)
  assert (ETt : transpose dim (Tm Pi) = mat_mul nst Pi DQm).
  { unfold Tm. rewrite (transpose_mul K KOK nst dim dim DQt Pi WDQt WPi), SPi. unfold DQt.
    rewrite (transpose_transpose K dim nst DQm WDQ). reflexivity. }
  assert (WTt : wfm dim nst (transpose dim (Tm Pi))) by (apply (wfm_transpose K nst dim), WT).
  (* S = DQ^T (Pi DQ), symmetric *)
  assert (ES : Sm Pi = mat_mul nst DQt (mat_mul nst Pi DQm)).
  { unfold Sm, Tm. apply (mul_assoc K KOK nst dim dim nst); assumption. }
  assert (SS : symmetric nst (Sm Pi)).
  { unfold symmetric. unfold Sm at 1. rewrite (transpose_mul K KOK nst dim nst (Tm Pi) DQm WT WDQ).
    fold DQt. rewrite ETt. symmetry. exact ES. }
  pose proof (inverse_symmetric K KOK nst (Sm Pi) Mx WS SS HMx) as SMxs. unfold symmetric in SMxs.
  (* C and C^T *)
  assert (WC : wfm dim nst (ss_C m)) by (rewrite EC; apply (wfm_mul K dim nst), WTt).
  assert (ECt : transpose nst (ss_C m) = mat_mul dim Mx (Tm Pi)).
  { rewrite EC. rewrite (transpose_mul K KOK dim nst nst _ Mx WTt WMx), SMxs.
    rewrite (transpose_transpose K nst dim (Tm Pi) WT). reflexivity. }
  assert (WCt : wfm nst dim (transpose nst (ss_C m))) by (apply (wfm_transpose K dim nst), WC).
  pose proof W_QS as WQS.
  set (Ct := transpose nst (ss_C m)) in *.
  set (Tt := transpose dim (Tm Pi)) in *.
  set (G := mat_mul nS Ct QSm).
  assert (WA : wfm nst nst (ss_A m)) by (rewrite EA; wf).
  assert (WG : wfm nst nS G) by (unfold G; wf).
  assert (WB : wfm nst nS (ss_B m)) by (rewrite EB; wf).
  assert (WE : wfm dim dim (mat_sub K Pi (mat_mul dim Tt Ct))) by wf.
  assert (WD : wfm dim nS (ss_D m)) by (rewrite ED; wf).
  assert (PTt : mat_mul nst Pm Tt = DQm).
  { rewrite ETt. rewrite <- (mul_assoc K KOK dim dim dim nst Pm Pi DQm) by wf. rewrite PPi.
    apply (mul_ident_l K KOK dim nst DQm WDQ). }
  assert (LA : mat_mul nst Lam (ss_A m) = Mx).
  { rewrite EA. rewrite <- (mul_assoc K KOK nst nst nst nst Lam iLam Mx) by wf. rewrite Lam_iLam.
    apply (mul_ident_l K KOK nst nst Mx WMx). }
  assert (LB : mat_mul nS Lam (ss_B m) = mat_opp K G).
  { rewrite EB.
    rewrite (mul_opp_l K KOK nst nst dim iLam Ct) by wf.
    rewrite (mul_opp_l K KOK nst dim nS (mat_mul dim iLam Ct) QSm) by wf.
    rewrite (mul_opp_r K KOK nst nst nS Lam (mat_mul nS (mat_mul dim iLam Ct) QSm)) by wf.
    f_equal.
    rewrite (mul_assoc K KOK nst nst dim nS iLam Ct QSm) by wf. fold G.
    rewrite <- (mul_assoc K KOK nst nst nst nS Lam iLam G) by wf. rewrite Lam_iLam.
    apply (mul_ident_l K KOK nst nS G WG). }
  assert (DTt : mat_mul nst DQt Tt = Sm Pi) by (rewrite ETt; symmetry; exact ES).
  split; [exact WA|]. split; [exact WB|]. split; [exact WC|]. split; [exact WD|].
  split; [|split; [|split]].
  - (* A_tilde C = DQ Lambda A *)
    rewrite LA, EC. rewrite <- (mul_assoc K KOK dim dim nst nst Pm Tt Mx) by wf. rewrite PTt. reflexivity.
  - (* A_tilde D = DQ Lambda B + QS *)
    rewrite LB, ED.
    rewrite <- (mul_assoc K KOK dim dim dim nS Pm (mat_sub K Pi (mat_mul dim Tt Ct)) QSm) by wf.
    rewrite (mul_sub_r K KOK dim dim dim Pm Pi (mat_mul dim Tt Ct)) by wf.
    rewrite PPi. rewrite <- (mul_assoc K KOK dim dim nst dim Pm Tt Ct) by wf. rewrite PTt.
    rewrite (mul_sub_l K KOK dim dim nS (@ident K dim) (mat_mul dim DQm Ct) QSm) by wf.
    rewrite (mul_ident_l K KOK dim nS QSm WQS).
    rewrite (mul_assoc K KOK dim nst dim nS DQm Ct QSm) by wf. fold G.
    rewrite (mul_opp_r K KOK dim nst nS DQm G) by wf.
    symmetry. apply (add_opp_l dim nS); wf.
  - (* DQ^T C = I *)
    rewrite EC. rewrite <- (mul_assoc K KOK nst dim nst nst DQt Tt Mx) by wf. rewrite DTt. exact SMx.
  - (* DQ^T D = 0 *)
    rewrite ED.
    rewrite <- (mul_assoc K KOK nst dim dim nS DQt (mat_sub K Pi (mat_mul dim Tt Ct)) QSm) by wf.
    rewrite (mul_sub_r K KOK nst dim dim DQt Pi (mat_mul dim Tt Ct)) by wf.
    rewrite <- (mul_assoc K KOK nst dim nst dim DQt Tt Ct) by wf. rewrite DTt.
    rewrite ECt.
    rewrite <- (mul_assoc K KOK nst nst nst dim (Sm Pi) Mx (Tm Pi)) by wf. rewrite SMx.
    rewrite (mul_ident_l K KOK nst dim (Tm Pi) WT). fold (Tm Pi).
    rewrite (mat_sub_self K KOK nst dim (Tm Pi) WT). apply (mul_zero_l K KOK).
Qed.

(* the same for vectors: z = C x + D u, w = Lambda (A x + B u) *)
Definition ss_z (m : ssm K) (x u : list K) : list K := vadd (mat_vec (ss_C m) x) (mat_vec (ss_D m) u).
Definition ss_xdot (m : ssm K) (x u : list K) : list K := vadd (mat_vec (ss_A m) x) (mat_vec (ss_B m) u).
Definition ss_w (m : ssm K) (x u : list K) : list K := mat_vec Lam (ss_xdot m x u).

Theorem ss_augmented (m : ssm K) (x u : list K) : state_space_matrices K n cvals lvals = Ok m ->
  length x = nst -> length u = nS ->
  length (ss_z m x u) = dim /\ length (ss_xdot m x u) = nst /\ length (ss_w m x u) = nst
  /\ mat_vec Pm (ss_z m x u) = vadd (mat_vec DQm (ss_w m x u)) (mat_vec QSm u)
  /\ mat_vec DQt (ss_z m x u) = x.
Proof. intros Hm Lx Lu.
  destruct (ss_augmented_mat m Hm) as [WA [WB [WC [WD [I1 [I2 [I3 I4]]]]]]].
  pose proof W_P as WP. pose proof W_DQ as WDQ. pose proof W_DQt as WDQt. pose proof W_Lam as WL. pose proof W_QS as WQS.
  assert (LCx : length (mat_vec (ss_C m) x) = dim) by (rewrite mat_vec_length; apply WC).
  assert (LDu : length (mat_vec (ss_D m) u) = dim) by (rewrite mat_vec_length; apply WD).
  assert (LAx : length (mat_vec (ss_A m) x) = nst) by (rewrite mat_vec_length; apply WA).
  assert (LBu : length (mat_vec (ss_B m) u) = nst) by (rewrite mat_vec_length; apply WB).
  assert (Lz : length (ss_z m x u) = dim) by (unfold ss_z; rewrite (vadd_length K); lia).
  assert (Lxd : length (ss_xdot m x u) = nst) by (unfold ss_xdot; rewrite (vadd_length K); lia).
  assert (Lw : length (ss_w m x u) = nst) by (unfold ss_w; rewrite mat_vec_length; apply WL).
  split; [exact Lz|]. split; [exact Lxd|]. split; [exact Lw|]. split.
  - unfold ss_z. rewrite (mat_vec_vadd K KOK) by lia.
    rewrite <- !(mat_vec_mul K KOK dim dim _ Pm) by wf. rewrite I1, I2.
    rewrite (mat_vec_add K KOK dim nS) by wf.
    unfold ss_w, ss_xdot. rewrite (mat_vec_vadd K KOK Lam) by lia.
    rewrite (mat_vec_vadd K KOK DQm) by (rewrite !mat_vec_length; reflexivity).
    rewrite !(mat_vec_mul K KOK dim nst _ DQm) by wf.
    rewrite !(mat_vec_mul K KOK nst nst _ Lam) by wf.
    symmetry. apply (vadd_assoc K KOK); rewrite !mat_vec_length; [reflexivity|].
    destruct WDQ as [H1 _]. destruct WQS as [H2 _]. lia.
  - unfold ss_z. rewrite (mat_vec_vadd K KOK) by lia.
    rewrite <- !(mat_vec_mul K KOK nst dim _ DQt) by wf. rewrite I3, I4.
    rewrite (mat_vec_ident K KOK nst x Lx), (mat_vec_zero_mat K KOK).
    apply (vadd_zero_r K KOK). rewrite seq_length. lia.
Qed.

(* ================= Part 2: reading the rows on the w = 0 network ================= *)

(* ---------------- labels and sums ---------------- *)
Lemma lindex_app_l (l1 l2 : list label) x : In x l1 -> lindex (l1 ++ l2) x = lindex l1 x.
Proof. induction l1 as [|a l1 IH]; simpl; [tauto|]. intros H. leq a x; [reflexivity|]. f_equal. apply IH.
  destruct H; [congruence|assumption]. Qed.

Lemma lindex_app_r (l1 l2 : list label) x : ~ In x l1 -> lindex (l1 ++ l2) x = (length l1 + lindex l2 x)%nat.
Proof. induction l1 as [|a l1 IH]; simpl; [reflexivity|]. intros H. leq a x; [exfalso; apply H; left; assumption|].
  f_equal. apply IH. tauto. Qed.

Lemma nth_map_lindex {B} (f : label -> B) ls l d : In l ls -> nth (lindex ls l) (map f ls) d = f l.
Proof. intros H. rewrite (nth_map_lt f ls (lindex ls l) [] d) by (apply lindex_lt, H).
  rewrite nth_lindex by exact H. reflexivity. Qed.

Lemma lindex_inj ls a b : In a ls -> In b ls -> lindex ls a = lindex ls b -> a = b.
Proof. intros Ha Hb E. rewrite <- (nth_lindex ls a [] Ha), <- (nth_lindex ls b [] Hb), E. reflexivity. Qed.

Lemma sum_labels_branches (g : label -> K) (labs : list label) : NoDup (map bid bs) -> NoDup labs ->
  (forall l, In l labs -> In l (map bid bs)) ->
  sumF g labs = sumF (fun b => if lmem (bid b) labs then g (bid b) else 0) bs.
Proof. intros NDb ND Hsub.
  assert (P : Permutation labs (filter (fun l => lmem l labs) (map bid bs))).
  { apply NoDup_Permutation; [exact ND|apply filter_NoDup, NDb|]. intros l. rewrite filter_In, lmem_spec.
    split; [intros H; split; [apply Hsub, H|exact H]|tauto]. }
  rewrite (sumF_perm KOK g _ _ P), (sumF_filter KOK), sumF_map. reflexivity. Qed.

Lemma filter_map_comm {A B} (f : B -> bool) (g : A -> B) l : filter f (map g l) = map g (filter (fun x => f (g x)) l).
Proof. induction l as [|a l IH]; simpl; [reflexivity|]. destruct (f (g a)); simpl; rewrite IH; reflexivity. Qed.

Lemma filter_idx (f : label -> bool) (l : list label) :
  map (fun p => nth p l []) (filter (fun p => f (nth p l [])) (seq 0 (length l))) = filter f l.
Proof. induction l as [|a l IH]; [reflexivity|]. simpl length. simpl seq. rewrite <- seq_shift.
  simpl filter. rewrite filter_map_comm. destruct (f a); simpl; rewrite map_map; simpl; rewrite IH; reflexivity. Qed.

Lemma filter_all {A} (f : A -> bool) l : (forall x, In x l -> f x = true) -> filter f l = l.
Proof. induction l as [|a l IH]; simpl; intros H; [reflexivity|]. rewrite (H a) by auto. f_equal. apply IH. auto. Qed.

(* ---------------- the class of networks: w = 0 image of an R/L/C/ideal-source circuit ---------------- *)
Record rlc_dc : Prop := {
  rd_wf : wf n;
  rd_ck : NoDup ck;
  rd_lk : NoDup lk;
  rd_cap : forall id, In id ck -> exists b, In b bs /\ bid b = id /\ is_open_circuit (el b) = true;
  rd_ind : forall id, In id lk -> exists b, In b bs /\ bid b = id /\ is_short_circuit (el b) = true;
  rd_cs : forall b, In b bs -> is_current_source (el b) = true -> is_ideal_current_source (el b) = true
}.
Hypothesis RD : rlc_dc.
Let WF : wf n := rd_wf RD.

Lemma isz_some (o : option K) : isz o = true -> o = Some 0.
Proof. destruct o as [x|]; simpl; [|discriminate]. feq x 0; [subst; reflexivity|discriminate]. Qed.

Lemma open_facts (e : elem K) : is_open_circuit e = true ->
  eY e = Some 0 /\ opt0 (eI e) = 0 /\ is_ideal_voltage_source e = false /\ is_current_source e = false.
Proof. unfold is_open_circuit. intros H. apply andb_true_iff in H. destruct H as [H1 H2].
  apply isz_some in H1. apply isz_some in H2.
  split; [exact H2|]. split; [rewrite H1; reflexivity|]. split.
  - rewrite (ivs_noY K KOK), H2. reflexivity.
  - unfold is_current_source. rewrite H1. simpl. rewrite (feqb_refl KOK). reflexivity. Qed.

Lemma short_facts (e : elem K) : is_short_circuit e = true -> is_ideal_voltage_source e = true.
Proof. unfold is_short_circuit, is_ideal_voltage_source. intros H. apply andb_true_iff in H. destruct H as [H1 H2].
  apply isz_some in H1. rewrite H1, H2. reflexivity. Qed.

Lemma ics_facts (e : elem K) : is_ideal_current_source e = true -> eY e = Some 0 /\ is_ideal_voltage_source e = false.
Proof. unfold is_ideal_current_source. intros H. apply andb_true_iff in H. destruct H as [_ H2].
  apply isz_some in H2. split; [exact H2|]. rewrite (ivs_noY K KOK), H2. reflexivity. Qed.

Lemma ivs_not_cs (e : elem K) : is_ideal_voltage_source e = true -> is_current_source e = false.
Proof. rewrite (ivs_noY K KOK). unfold is_current_source. destruct e as [nm k z v|nm k y i]; simpl.
  - feq z 0; simpl; [reflexivity|discriminate].
  - discriminate. Qed.

Lemma vs_In id : In id vs <-> exists b, In b bs /\ bid b = id /\ is_ideal_voltage_source (el b) = true.
Proof. split.
  - intros H. apply (Permutation_in _ (vss_perm K n)) in H. apply in_map_iff in H. destruct H as [b [E Hb]].
    apply filter_In in Hb. exists b. tauto.
  - intros [b [Hb [E Hi]]]. apply (Permutation_in _ (Permutation_sym (vss_perm K n))). apply in_map_iff.
    exists b. split; [exact E|]. apply filter_In. tauto. Qed.

Lemma cs_In id : In id cs <-> exists b, In b bs /\ bid b = id /\ is_current_source (el b) = true.
Proof. split.
  - intros H. apply (Permutation_in _ (cs_perm K n)) in H. apply in_map_iff in H. destruct H as [b [E Hb]].
    apply filter_In in Hb. exists b. tauto.
  - intros [b [Hb [E Hi]]]. apply (Permutation_in _ (Permutation_sym (cs_perm K n))). apply in_map_iff.
    exists b. split; [exact E|]. apply filter_In. tauto. Qed.

Lemma branch_unique b b' : In b bs -> In b' bs -> bid b = bid b' -> b = b'.
Proof. intros H1 H2 E. pose proof (get_branch_In K bs b (ids_nodup K n WF) H1) as G1.
  pose proof (get_branch_In K bs b' (ids_nodup K n WF) H2) as G2. rewrite E in G1. congruence. Qed.

Lemma lmem_vs b : In b bs -> lmem (bid b) vs = is_ideal_voltage_source (el b).
Proof. intros Hb. destruct (is_ideal_voltage_source (el b)) eqn:E.
  - apply lmem_spec, vs_In. exists b. auto.
  - apply lmem_false. intros H. apply vs_In in H. destruct H as [b' [Hb' [E' Hi]]].
    rewrite (branch_unique b' b Hb' Hb E') in Hi. congruence. Qed.

Lemma lmem_cs b : In b bs -> lmem (bid b) cs = is_current_source (el b).
Proof. intros Hb. destruct (is_current_source (el b)) eqn:E.
  - apply lmem_spec, cs_In. exists b. auto.
  - apply lmem_false. intros H. apply cs_In in H. destruct H as [b' [Hb' [E' Hi]]].
    rewrite (branch_unique b' b Hb' Hb E') in Hi. congruence. Qed.

Lemma cs_NoDup : NoDup cs.
Proof. apply lsort_NoDup, NoDup_map_filter, (ids_nodup K n WF). Qed.

Lemma cs_vs_disjoint id : In id cs -> In id vs -> False.
Proof. intros Hc Hv. apply cs_In in Hc. apply vs_In in Hv. destruct Hc as [b [Hb [E Hc]]]. destruct Hv as [b' [Hb' [E' Hv]]].
  rewrite (branch_unique b' b Hb' Hb (eq_trans E' (eq_sym E))) in Hv. rewrite (ivs_not_cs _ Hv) in Hc. discriminate. Qed.

Lemma NoDup_app_intro {A} (l1 l2 : list A) : NoDup l1 -> NoDup l2 -> (forall x, In x l1 -> ~ In x l2) -> NoDup (l1 ++ l2).
Proof. induction l1 as [|a l1 IH]; simpl; intros N1 N2 H; [exact N2|]. inversion N1 as [|? ? Ha N1']; subst.
  constructor.
  - intros Hin. apply in_app_or in Hin. destruct Hin as [Hin|Hin]; [contradiction|]. exact (H a (or_introl eq_refl) Hin).
  - apply IH; [exact N1'|exact N2|]. intros x Hx. apply H. right. exact Hx. Qed.

Lemma cols_NoDup : NoDup cols.
Proof. unfold columns. apply NoDup_app_intro; [exact cs_NoDup|exact (vss_NoDup K n WF)|].
  intros x Hc Hv. exact (cs_vs_disjoint x Hc Hv). Qed.

Lemma cap_branch b : In b bs -> lmem (bid b) ck = true -> is_open_circuit (el b) = true.
Proof. intros Hb H. apply lmem_spec in H. destruct (rd_cap RD _ H) as [b' [Hb' [E Ho]]].
  rewrite (branch_unique b' b Hb' Hb E) in Ho. exact Ho. Qed.

Lemma ind_branch b : In b bs -> lmem (bid b) lk = true -> is_short_circuit (el b) = true.
Proof. intros Hb H. apply lmem_spec in H. destruct (rd_ind RD _ H) as [b' [Hb' [E Ho]]].
  rewrite (branch_unique b' b Hb' Hb E) in Ho. exact Ho. Qed.

Lemma lk_vs id : In id lk -> In id vs.
Proof. intros H. destruct (rd_ind RD _ H) as [b [Hb [E Hs]]]. apply vs_In. exists b. split; [exact Hb|].
  split; [exact E|]. apply short_facts, Hs. Qed.

Lemma lk_not_cs id : In id lk -> ~ In id cs.
Proof. intros H Hc. exact (cs_vs_disjoint id Hc (lk_vs id H)). Qed.

Lemma ck_bs id : In id ck -> In id (map bid bs).
Proof. intros H. destruct (rd_cap RD _ H) as [b [Hb [E _]]]. apply in_map_iff. exists b. auto. Qed.

Lemma ck_not_vs id : In id ck -> ~ In id vs.
Proof. intros H Hv. destruct (rd_cap RD _ H) as [b [Hb [E Ho]]]. apply vs_In in Hv. destruct Hv as [b' [Hb' [E' Hv]]].
  rewrite (branch_unique b' b Hb' Hb (eq_trans E' (eq_sym E))) in Hv.
  destruct (open_facts _ Ho) as [_ [_ [H3 _]]]. congruence. Qed.

Lemma ck_not_cs id : In id ck -> ~ In id cs.
Proof. intros H Hv. destruct (rd_cap RD _ H) as [b [Hb [E Ho]]]. apply cs_In in Hv. destruct Hv as [b' [Hb' [E' Hv]]].
  rewrite (branch_unique b' b Hb' Hb (eq_trans E' (eq_sym E))) in Hv.
  destruct (open_facts _ Ho) as [_ [_ [_ H4]]]. congruence. Qed.

(* ---------------- the input columns follow [sources] ---------------- *)
Lemma srcs_filter : srcs = filter (fun l => negb (lmem l lk)) cols.
Proof. unfold sources, columns. rewrite filter_app. f_equal. symmetry. apply filter_all.
  intros x Hx. apply negb_true_iff, lmem_false. intros H. exact (lk_not_cs x H Hx). Qed.

Theorem QS_idx_srcs : QS_idx K n lvals = map (lindex cols) srcs.
Proof. rewrite srcs_filter. unfold QS_idx.
  rewrite <- (filter_idx (fun l => negb (lmem l lk)) cols). rewrite map_map.
  rewrite <- (map_id (filter _ (seq 0 (length cols)))) at 1. apply map_ext_in.
  intros p Hp. apply filter_In in Hp. destruct Hp as [Hp _]. apply in_seq in Hp.
  symmetry. apply lindex_nth; [exact cols_NoDup|lia]. Qed.

Theorem nS_srcs : nS = length srcs.
Proof. unfold ss_nS. rewrite QS_idx_srcs. apply map_length. Qed.

Lemma srcs_NoDup : NoDup srcs.
Proof. rewrite srcs_filter. apply filter_NoDup, cols_NoDup. Qed.

Lemma srcs_cases l : In l srcs -> In l cs \/ (In l vs /\ ~ In l cs /\ ~ In l lk).
Proof. unfold sources. intros H. apply in_app_or in H. destruct H as [H|H]; [left; exact H|right].
  apply filter_In in H. destruct H as [Hv Hl]. split; [exact Hv|]. split.
  - intros Hc. exact (cs_vs_disjoint l Hc Hv).
  - apply lmem_false. apply negb_true_iff. exact Hl. Qed.

(* ---------------- columns of Q selected by label ---------------- *)
Definition Qsel (labs : list label) : mat := select_cols K (map (lindex cols) labs) (Qmat K n).

Lemma QS_Qsel : QSm = Qsel srcs.
Proof. unfold QS, Qsel. rewrite QS_idx_srcs. reflexivity. Qed.

Lemma Qsel_rows labs : Qsel labs =
  map (fun i => map (fun l => entry (map (Qent n i) cs ++ map (fun _ => 0) vs) (lindex cols l)) labs) ns
  ++ map (fun q => map (fun l => entry (map (fun _ => 0) cs ++ unit_vec M q) (lindex cols l)) labs) (seq 0 M).
Proof. unfold Qsel, select_cols, Qmat. rewrite map_app, !map_map.
  f_equal; apply map_ext; intros a; rewrite map_map; reflexivity. Qed.

Lemma Qnode_entry i l :
  entry (map (Qent n i) cs ++ map (fun _ : label => 0) vs) (lindex cols l) = if lmem l cs then Qent n i l else 0.
Proof. unfold entry, columns. destruct (lmem l cs) eqn:E.
  - apply lmem_spec in E. rewrite lindex_app_l by exact E.
    rewrite app_nth1 by (rewrite map_length; apply lindex_lt, E). apply nth_map_lindex, E.
  - apply lmem_false in E. rewrite lindex_app_r by exact E. rewrite app_nth2 by (rewrite map_length; lia).
    apply (nth_map_zero K). Qed.

Lemma Qvs_entry q l : In l vs -> ~ In l cs ->
  entry (map (fun _ : label => 0) cs ++ unit_vec M q) (lindex cols l) = if Nat.eqb (lindex vs l) q then 1 else 0.
Proof. intros Hv Hc. unfold entry, columns. rewrite lindex_app_r by exact Hc.
  rewrite app_nth2 by (rewrite map_length; lia). rewrite map_length.
  replace (length cs + lindex vs l - length cs)%nat with (lindex vs l) by lia.
  unfold unit_vec. apply (nth_map_seq (fun j => if Nat.eqb j q then 1 else 0)). apply lindex_lt, Hv. Qed.

Lemma Qvs_entry_cs q l : In l cs -> entry (map (fun _ : label => 0) cs ++ unit_vec M q) (lindex cols l) = 0.
Proof. intros Hc. unfold entry, columns. rewrite lindex_app_l by exact Hc.
  rewrite app_nth1 by (rewrite map_length; apply lindex_lt, Hc). apply (nth_map_zero K). Qed.

Lemma Qsel_node labs w i : NoDup labs -> In i ns ->
  nth (lindex ns i) (mat_vec (Qsel labs) w) 0
  = sumF (fun l => (if lmem l cs then Qent n i l else 0) * nth (lindex labs l) w 0) labs.
Proof. intros ND Hi. rewrite Qsel_rows. unfold mat_vec. rewrite map_app, !map_map.
  rewrite app_nth1 by (rewrite map_length; apply lindex_lt, Hi).
  rewrite (nth_map_lindex (fun i0 => dot (map (fun l => entry (map (Qent n i0) cs ++ map (fun _ => 0) vs) (lindex cols l)) labs) w) ns i 0 Hi).
  rewrite (dot_map_lindex K KOK _ labs w ND). apply sumF_ext. intros l. rewrite Qnode_entry. reflexivity. Qed.

Lemma Qsel_vs labs w v : NoDup labs -> In v vs -> (forall l, In l labs -> In l cs \/ (In l vs /\ ~ In l cs)) ->
  nth (N + lindex vs v) (mat_vec (Qsel labs) w) 0 = if lmem v labs then nth (lindex labs v) w 0 else 0.
Proof. intros ND Hv Hsub. pose proof (lindex_lt vs v Hv) as Hq. rewrite Qsel_rows. unfold mat_vec. rewrite map_app, !map_map.
  rewrite app_nth2 by (rewrite map_length; unfold ss_N; lia). rewrite map_length.
  replace (N + lindex vs v - length ns)%nat with (lindex vs v) by (unfold ss_N; lia).
  rewrite (nth_map_seq (fun q => dot (map (fun l => entry (map (fun _ => 0) cs ++ unit_vec M q) (lindex cols l)) labs) w))
    by exact Hq.
  rewrite (dot_map_lindex K KOK _ labs w ND).
  rewrite (sumF_ext_in _ (fun l => if label_eqb l v then (fun l => nth (lindex labs l) w 0) l else 0)).
  - rewrite (sumF_indicator KOK label_eqb label_eqb_spec (fun l => nth (lindex labs l) w 0) v labs ND). reflexivity.
  - intros l Hl. destruct (Hsub l Hl) as [Hc|[Hv' Hc]].
    + rewrite Qvs_entry_cs by exact Hc. leq l v; [subst; exfalso; exact (cs_vs_disjoint v Hc Hv)|ring].
    + rewrite Qvs_entry by assumption.
      destruct (Nat.eqb_spec (lindex vs l) (lindex vs v)) as [E|E]; destruct (label_eqb_spec l v) as [Elv|Nlv]; try ring.
      * exfalso. apply Nlv. exact (lindex_inj vs l v Hv' Hv E).
      * exfalso. apply E. subst. reflexivity. Qed.

(* ---------------- DQ = [Delta^T | QL] applied to a vector ---------------- *)
Lemma mat_vec_hstack r c1 c2 (A B : mat) (w : list K) : wfm r c1 A -> wfm r c2 B -> c1 <= length w ->
  mat_vec (hstack K A B) w = vadd (mat_vec A (firstn c1 w)) (mat_vec B (skipn c1 w)).
Proof. intros WA WB Hw. pose proof (wfm_len K _ _ _ WA) as LA. pose proof (wfm_len K _ _ _ WB) as LB.
  pose proof (wfm_len K _ _ _ (wfm_hstack K r c1 c2 A B WA WB)) as LH.
  apply (vec_ext K).
  - rewrite mat_vec_length, (vadd_length K) by (rewrite !mat_vec_length; lia). rewrite mat_vec_length. lia.
  - intros i Hi. rewrite mat_vec_length, LH in Hi.
    rewrite (nth_vadd K KOK) by (rewrite !mat_vec_length; lia).
    rewrite !(nth_mat_vec_dot K) by lia.
    unfold hstack. rewrite (nth_map_lt _ (combine A B) i ([], []) []) by (rewrite combine_length; lia).
    rewrite combine_nth by lia. simpl.
    rewrite <- (firstn_skipn c1 w) at 1. apply (dot_app KOK).
    rewrite firstn_length, (wfm_row K r c1 A i WA Hi). lia. Qed.

Lemma DQ_vec (w : list K) : length w = nst ->
  mat_vec DQm w = vadd (mat_vec (transpose dim Delta_mat) (firstn nC w)) (mat_vec QL_mat (skipn nC w)).
Proof. intros Lw. unfold DQm, DQ_of. apply (mat_vec_hstack dim nC nL).
  - apply (wfm_transpose K nC dim), W_Delta.
  - exact W_QL.
  - unfold ss_nst in Lw. lia. Qed.

Lemma Delta_col_node i : In i ns -> col Delta_mat (lindex ns i) = map (fun id => delta_ent K n id i) ck.
Proof. intros Hi. unfold col, Delta_mat. rewrite map_map. apply map_ext. intros id. unfold entry.
  rewrite app_nth1 by (rewrite map_length; apply lindex_lt, Hi). apply nth_map_lindex, Hi. Qed.

Lemma Delta_col_vs q : col Delta_mat (N + q) = map (fun _ => 0) ck.
Proof. unfold col, Delta_mat. rewrite map_map. apply map_ext. intros id. unfold entry.
  rewrite app_nth2 by (rewrite map_length; unfold ss_N; lia). apply (nth_map_zero K). Qed.

Lemma DeltaT_node (wC : list K) i : In i ns ->
  nth (lindex ns i) (mat_vec (transpose dim Delta_mat) wC) 0
  = sumF (fun id => delta_ent K n id i * nth (lindex ck id) wC 0) ck.
Proof. intros Hi. pose proof (lindex_lt ns i Hi) as Hp.
  assert (Hd : lindex ns i < dim) by (unfold ss_dim, ss_N; lia).
  rewrite (nth_mat_vec_dot K) by (unfold transpose; rewrite map_length, seq_length; exact Hd).
  unfold transpose. rewrite (nth_map_seq (col Delta_mat)) by exact Hd.
  rewrite Delta_col_node by exact Hi. apply (dot_map_lindex K KOK), (rd_ck RD). Qed.

Lemma DeltaT_vs (wC : list K) q : q < M -> nth (N + q) (mat_vec (transpose dim Delta_mat) wC) 0 = 0.
Proof. intros Hq. assert (Hd : (N + q)%nat < dim) by (unfold ss_dim; lia).
  rewrite (nth_mat_vec_dot K) by (unfold transpose; rewrite map_length, seq_length; exact Hd).
  unfold transpose. rewrite (nth_map_seq (col Delta_mat)) by exact Hd.
  rewrite Delta_col_vs. apply (dot_zero_l K KOK). Qed.

Lemma lk_sub l : In l lk -> In l cs \/ (In l vs /\ ~ In l cs).
Proof. intros H. right. split; [apply lk_vs, H|apply lk_not_cs, H]. Qed.

Lemma srcs_sub l : In l srcs -> In l cs \/ (In l vs /\ ~ In l cs).
Proof. intros H. destruct (srcs_cases l H) as [Hc|[Hv [Hc _]]]; [left; exact Hc|right; split; assumption]. Qed.

(* right-hand side  DQ w + QS u  at a node row *)
Lemma rhs_node (w u : list K) i : length w = nst -> length u = nS -> In i ns ->
  nth (lindex ns i) (vadd (mat_vec DQm w) (mat_vec QSm u)) 0
  = sumF (fun id => delta_ent K n id i * nth (lindex ck id) w 0) ck
    + sumF (fun c => Qent n i c * nth (lindex srcs c) u 0) cs.
Proof. intros Lw Lu Hi.
  assert (LDQ : length (mat_vec DQm w) = dim) by (rewrite mat_vec_length; apply W_DQ).
  assert (LQS : length (mat_vec QSm u) = dim) by (rewrite mat_vec_length; apply W_QS).
  rewrite (nth_vadd K KOK) by lia. rewrite (DQ_vec w Lw).
  rewrite (nth_vadd K KOK).
  2:{ rewrite !mat_vec_length. unfold transpose. rewrite map_length, seq_length. symmetry. apply W_QL. }
  rewrite DeltaT_node by exact Hi.
  change QL_mat with (Qsel lk). rewrite (Qsel_node lk _ i (rd_lk RD) Hi).
  rewrite QS_Qsel, (Qsel_node srcs u i srcs_NoDup Hi).
  rewrite (sumF_zero_in KOK (fun l => (if lmem l cs then Qent n i l else 0) * _) lk).
  2:{ intros l Hl. rewrite (proj2 (lmem_false l cs) (lk_not_cs l Hl)). ring. }
  set (g := fun l : label => (if lmem l cs then Qent n i l else 0) * nth (lindex srcs l) u 0).
  assert (E0 : sumF g srcs = sumF g cs + sumF g (filter (fun v => negb (lmem v lk)) vs))
    by (unfold sources; apply (sumF_app KOK)).
  rewrite E0. clear E0.
  rewrite (sumF_zero_in KOK g (filter (fun v => negb (lmem v lk)) vs)).
  2:{ intros l Hl. apply filter_In in Hl. destruct Hl as [Hv _]. unfold g.
      rewrite (proj2 (lmem_false l cs) (fun Hc => cs_vs_disjoint l Hc Hv)). ring. }
  unfold g. clear g.
  assert (E1 : sumF (fun id => delta_ent K n id i * nth (lindex ck id) (firstn nC w) 0) ck
             = sumF (fun id => delta_ent K n id i * nth (lindex ck id) w 0) ck).
  { apply sumF_ext_in. intros id Hid. rewrite nth_firstn_lt; [reflexivity|]. rewrite <- len_ck. apply lindex_lt, Hid. }
  assert (E2 : sumF (fun l => (if lmem l cs then Qent n i l else 0) * nth (lindex srcs l) u 0) cs
             = sumF (fun c => Qent n i c * nth (lindex srcs c) u 0) cs).
  { apply sumF_ext_in. intros c Hc. rewrite (proj2 (lmem_spec c cs) Hc). reflexivity. }
  rewrite E1, E2. ring. Qed.

(* right-hand side at the row of an ideal voltage source / inductor *)
Lemma rhs_vs (w u : list K) v : length w = nst -> length u = nS -> In v vs ->
  nth (N + lindex vs v) (vadd (mat_vec DQm w) (mat_vec QSm u)) 0
  = (if lmem v lk then nth (nC + lindex lk v) w 0 else 0) + (if lmem v srcs then nth (lindex srcs v) u 0 else 0).
Proof. intros Lw Lu Hv. pose proof (lindex_lt vs v Hv) as Hq.
  assert (LDQ : length (mat_vec DQm w) = dim) by (rewrite mat_vec_length; apply W_DQ).
  assert (LQS : length (mat_vec QSm u) = dim) by (rewrite mat_vec_length; apply W_QS).
  rewrite (nth_vadd K KOK) by lia. rewrite (DQ_vec w Lw).
  rewrite (nth_vadd K KOK).
  2:{ rewrite !mat_vec_length. unfold transpose. rewrite map_length, seq_length. symmetry. apply W_QL. }
  rewrite DeltaT_vs by exact Hq.
  change QL_mat with (Qsel lk). rewrite (Qsel_vs lk _ v (rd_lk RD) Hv lk_sub).
  rewrite QS_Qsel, (Qsel_vs srcs u v srcs_NoDup Hv srcs_sub).
  rewrite nth_skipn. ring. Qed.

(* ---------------- left-hand side  A_tilde z ---------------- *)
Lemma P_node (z : list K) i : In i ns -> nth (lindex ns i) (mat_vec Pm z) 0 = dot (row_top n i) z.
Proof. intros Hi. change Pm with (map (row_top n) ns ++ map (row_bot n) vs). unfold mat_vec. rewrite map_app, !map_map.
  rewrite app_nth1 by (rewrite map_length; apply lindex_lt, Hi).
  apply (nth_map_lindex (fun i0 => dot (row_top n i0) z) ns i 0 Hi). Qed.

Lemma P_vs (z : list K) v : In v vs -> nth (N + lindex vs v) (mat_vec Pm z) 0 = dot (row_bot n v) z.
Proof. intros Hv. change Pm with (map (row_top n) ns ++ map (row_bot n) vs). unfold mat_vec. rewrite map_app, !map_map.
  rewrite app_nth2 by (rewrite map_length; unfold ss_N; lia). rewrite map_length.
  replace (N + lindex vs v - length ns)%nat with (lindex vs v) by (unfold ss_N; lia).
  apply (nth_map_lindex (fun v0 => dot (row_bot n v0) z) vs v 0 Hv). Qed.

Lemma row_top_sum (z : list K) i : In i ns -> length z = dim ->
  dot (row_top n i) z = sumF (fun b => sgn i b * (flow_of n z b - opt0 (eI (el b)))) bs.
Proof. intros Hi Lz. pose proof (mna_row_is_kcl K KOK n WF z i Hi Lz) as H.
  rewrite (rhs_block K KOK n WF i) in H. rewrite (kcl_sum_sgn K KOK) in H.
  rewrite (sumF_ext _ (fun b => sgn i b * flow_of n z b - sgn i b * opt0 (eI (el b)))) by (intros b; ring).
  rewrite (sumF_sub KOK (fun b => sgn i b * flow_of n z b) (fun b => sgn i b * opt0 (eI (el b)))).
  rewrite <- H. ring. Qed.

Lemma delta_sgn b i : In b bs -> delta_ent K n (bid b) i = sgn i b.
Proof. intros Hb. unfold delta_ent. rewrite (get_branch_In K bs b (ids_nodup K n WF) Hb). unfold sgn.
  pose proof (noloop K n WF b Hb). leq (node1 b) i; leq (node2 b) i; try ring. congruence. Qed.

(* ---------------- DQ^T z ---------------- *)
Lemma col_hstack r c1 c2 (A B : mat) k : wfm r c1 A -> wfm r c2 B ->
  col (hstack K A B) k = if Nat.ltb k c1 then col A k else col B (k - c1).
Proof. intros WA WB. pose proof (wfm_len K _ _ _ WA) as LA. pose proof (wfm_len K _ _ _ WB) as LB.
  pose proof (wfm_len K _ _ _ (wfm_hstack K r c1 c2 A B WA WB)) as LH.
  apply (vec_ext K).
  - rewrite (col_length K), LH. destruct (Nat.ltb k c1); rewrite (col_length K); lia.
  - intros p Hp. rewrite (col_length K), LH in Hp. rewrite (col_nth K), (ent_hstack K r c1 c2) by assumption.
    destruct (Nat.ltb k c1); rewrite (col_nth K); reflexivity. Qed.

Lemma col_transpose r c (A : mat) k : wfm r c A -> k < r -> col (transpose c A) k = nth k A [].
Proof. intros WA Hk. apply (vec_ext K).
  - rewrite (col_length K). unfold transpose. rewrite map_length, seq_length. symmetry. apply (wfm_row K r c A k WA Hk).
  - intros p Hp. rewrite (col_length K) in Hp. unfold transpose in Hp. rewrite map_length, seq_length in Hp.
    rewrite (col_nth K), (ent_transpose K) by exact Hp. reflexivity. Qed.

Lemma DQt_row k : k < nst -> nth k DQt [] = col DQm k.
Proof. intros Hk. unfold DQt, transpose. apply (nth_map_seq (col DQm)). exact Hk. Qed.

Lemma DQt_cap (z : list K) k : length z = dim -> k < nC ->
  nth k (mat_vec DQt z) 0 = sumF (fun i => delta_ent K n (nth k ck []) i * nth (lindex ns i) z 0) ns.
Proof. intros Lz Hk. assert (Hk' : k < nst) by (unfold ss_nst; lia).
  rewrite (nth_mat_vec_dot K) by (rewrite (wfm_len K _ _ _ W_DQt); exact Hk').
  rewrite DQt_row by exact Hk'. unfold DQm, DQ_of.
  rewrite (col_hstack dim nC nL) by (exact W_QL || apply (wfm_transpose K nC dim), W_Delta).
  destruct (Nat.ltb_spec k nC) as [_|Hge]; [|lia].
  rewrite (col_transpose nC dim Delta_mat k W_Delta Hk). unfold Delta_mat.
  rewrite (nth_map_lt (fun id => map (delta_ent K n id) ns ++ map (fun _ => 0) vs) ck k [] []) by (rewrite len_ck; exact Hk).
  rewrite (dot_two_maps K KOK) by (apply ns_NoDup || apply (vss_NoDup K n WF) || (unfold ss_dim, ss_N in Lz; lia)).
  rewrite (sumF_zero_in KOK (fun v => 0 * _) vs) by (intros; ring). ring. Qed.

Lemma QL_col k : k < nL -> col QL_mat k = map (fun _ => 0) ns ++ unit_vec M (lindex vs (nth k lk [])).
Proof. intros Hk. set (l := nth k lk []).
  assert (Hl : In l lk) by (apply nth_In; rewrite len_lk; exact Hk).
  change QL_mat with (Qsel lk). rewrite Qsel_rows. unfold col. rewrite map_app, !map_map. f_equal.
  - apply map_ext. intros i. unfold entry at 1.
    rewrite (nth_map_lt _ lk k [] 0) by (rewrite len_lk; exact Hk). fold l.
    rewrite Qnode_entry. rewrite (proj2 (lmem_false l cs) (lk_not_cs l Hl)). reflexivity.
  - change (unit_vec M (lindex vs l)) with (map (fun j => if Nat.eqb j (lindex vs l) then 1 else 0) (seq 0 M)).
    apply map_ext. intros q. unfold entry at 1.
    rewrite (nth_map_lt _ lk k [] 0) by (rewrite len_lk; exact Hk). fold l.
    rewrite (Qvs_entry q l (lk_vs l Hl) (lk_not_cs l Hl)). rewrite Nat.eqb_sym. reflexivity. Qed.

Lemma dot_zeros_unit (z : list K) t : t < M -> length z = dim ->
  dot (map (fun _ : label => 0) ns ++ unit_vec M t) z = nth (N + t) z 0.
Proof. intros Ht Lz. rewrite <- (firstn_skipn N z) at 1.
  rewrite (dot_app KOK) by (rewrite map_length, firstn_length; unfold ss_dim, ss_N in *; lia).
  rewrite (dot_zero_l K KOK), (dot_unit_l K KOK) by exact Ht. rewrite nth_skipn. ring. Qed.

Lemma DQt_ind (z : list K) k : length z = dim -> k < nL ->
  nth (nC + k) (mat_vec DQt z) 0 = nth (N + lindex vs (nth k lk [])) z 0.
Proof. intros Lz Hk. assert (Hk' : (nC + k)%nat < nst) by (unfold ss_nst; lia).
  rewrite (nth_mat_vec_dot K) by (rewrite (wfm_len K _ _ _ W_DQt); exact Hk').
  rewrite DQt_row by exact Hk'. unfold DQm, DQ_of.
  rewrite (col_hstack dim nC nL) by (exact W_QL || apply (wfm_transpose K nC dim), W_Delta).
  destruct (Nat.ltb_spec (nC + k) nC) as [Hlt|_]; [lia|].
  replace (nC + k - nC)%nat with k by lia. rewrite (QL_col k Hk).
  apply dot_zeros_unit; [|exact Lz]. apply lindex_lt, lk_vs, nth_In. rewrite len_lk. exact Hk. Qed.

(* ---------------- the outputs of the model ---------------- *)
(* TransientSolution.get_*:  c_row @ x + d_row @ u  (per sample) *)
Definition out (rc rd : res (list K)) (x u : list K) : res K :=
  bind rc (fun c => bind rd (fun d => Ok (dot c x + dot d u))).
Definition out_potential (m : ssm K) (node : label) (x u : list K) : res K :=
  out (c_row_for_potential K n cvals lvals m node) (d_row_for_potential K n lvals m node) x u.
Definition out_voltage (m : ssm K) (id : label) (x u : list K) : res K :=
  out (c_row_voltage K n cvals lvals m id) (d_row_voltage K n lvals m id) x u.
Definition out_current (m : ssm K) (id : label) (x u : list K) : res K :=
  out (c_row_current K n cvals lvals m id) (d_row_current K n cvals lvals m id) x u.

Lemma row_pot_ok ncols (Mx : mat) node : wfm dim ncols Mx -> (node = zero n \/ In node ns) ->
  exists r, row_for_potential K n node ncols Mx = Ok r /\ length r = ncols
            /\ forall v, dot r v = phi_of n (mat_vec Mx v) node.
Proof. intros WM H. unfold row_for_potential, phi_of. leq node (zero n).
  - exists (zero_row K ncols). split; [reflexivity|]. split; [apply zero_row_length|].
    intros v. unfold zero_row. apply (dot_zero_l K KOK).
  - destruct H as [H|H]; [contradiction|]. rewrite (proj2 (lmem_spec node ns) H).
    pose proof (lindex_lt ns node H) as Hp.
    assert (Hd : lindex ns node < dim) by (unfold ss_dim, ss_N; lia).
    exists (nth (lindex ns node) Mx []). split; [reflexivity|]. split; [apply (wfm_row K dim ncols Mx _ WM Hd)|].
    intros v. symmetry. apply (nth_mat_vec_dot K). rewrite (wfm_len K _ _ _ WM). exact Hd. Qed.

Lemma row_volt_ok ncols (Mx : mat) b : wfm dim ncols Mx -> In b bs ->
  exists r, row_voltage K n (bid b) ncols Mx = Ok r /\ length r = ncols
            /\ forall v, dot r v = bvolt (phi_of n (mat_vec Mx v)) b.
Proof. intros WM Hb. unfold row_voltage. rewrite (get_branch_In K bs b (ids_nodup K n WF) Hb).
  destruct (endpoint_cases K n b Hb) as [E1 E2].
  destruct (row_pot_ok ncols Mx (node1 b) WM E1) as [r1 [R1 [L1 D1]]].
  destruct (row_pot_ok ncols Mx (node2 b) WM E2) as [r2 [R2 [L2 D2]]].
  rewrite R1, R2. simpl. exists (row_minus K r1 r2). split; [reflexivity|].
  split; [rewrite (row_minus_length K) by lia; exact L1|].
  intros v. rewrite (dot_row_minus_l K KOK) by lia. rewrite D1, D2. reflexivity. Qed.

Lemma phi_of_vadd (a b : list K) l : length a = length b ->
  phi_of n (vadd a b) l = phi_of n a l + phi_of n b l.
Proof. intros H. unfold phi_of. leq l (zero n); [ring|]. apply (nth_vadd K KOK), H. Qed.

Lemma bvolt_vadd (a b : list K) br : length a = length b ->
  bvolt (phi_of n (vadd a b)) br = bvolt (phi_of n a) br + bvolt (phi_of n b) br.
Proof. intros H. unfold bvolt. rewrite !phi_of_vadd by exact H. ring. Qed.

Lemma vlookup_nth (l : list (label * K)) id : In id (map fst l) ->
  vlookup K l id = snd (nth (lindex (map fst l) id) l ([], 0)).
Proof. induction l as [|[k v] l IH]; simpl; [tauto|]. intros H. leq k id; [reflexivity|].
  apply IH. destruct H; [contradiction|assumption]. Qed.

Lemma row_over_Z_dot (r v : list K) (e : elem K) : is_ideal_voltage_source e = false ->
  dot (row_over_Z K r e) v = opt0 (eY e) * dot r v.
Proof. intros H. unfold row_over_Z. destruct e as [nm k z v0|nm k y i]; simpl in *.
  - unfold is_ideal_voltage_source in H. simpl in H. feq z 0; [discriminate|]. simpl.
    rewrite (dot_map_div_l K KOK z r v) by assumption. field. assumption.
  - feq y 0; simpl.
    + rewrite (dot_zero_l K KOK). subst y. ring.
    + rewrite (dot_map_div_l K KOK (1 / y) r v) by (apply (inv_nz K KOK); assumption).
      field. split; [assumption|]. apply (f1_neq_0 KOK). Qed.

Section Laws.
Variable m : ssm K.
Hypothesis Hm : state_space_matrices K n cvals lvals = Ok m.
Variables x u : list K.
Hypothesis Lx : length x = nst.
Hypothesis Lu : length u = nS.
Notation z := (ss_z m x u).
Notation xd := (ss_xdot m x u).
Notation w := (ss_w m x u).

Let WA : wfm nst nst (ss_A m) := proj1 (ss_augmented_mat m Hm).
Let WB : wfm nst nS (ss_B m) := proj1 (proj2 (ss_augmented_mat m Hm)).
Let WC : wfm dim nst (ss_C m) := proj1 (proj2 (proj2 (ss_augmented_mat m Hm))).
Let WD : wfm dim nS (ss_D m) := proj1 (proj2 (proj2 (proj2 (ss_augmented_mat m Hm)))).

Lemma Lz : length z = dim. Proof. exact (proj1 (ss_augmented m x u Hm Lx Lu)). Qed.
Lemma Lxd : length xd = nst. Proof. exact (proj1 (proj2 (ss_augmented m x u Hm Lx Lu))). Qed.
Lemma Lw : length w = nst. Proof. exact (proj1 (proj2 (proj2 (ss_augmented m x u Hm Lx Lu)))). Qed.
Lemma Eq1 : mat_vec Pm z = vadd (mat_vec DQm w) (mat_vec QSm u).
Proof. exact (proj1 (proj2 (proj2 (proj2 (ss_augmented m x u Hm Lx Lu))))). Qed.
Lemma Eq2 : mat_vec DQt z = x.
Proof. exact (proj2 (proj2 (proj2 (proj2 (ss_augmented m x u Hm Lx Lu))))). Qed.

Lemma LCx : length (mat_vec (ss_C m) x) = length (mat_vec (ss_D m) u).
Proof. rewrite !mat_vec_length. rewrite (wfm_len K _ _ _ WC), (wfm_len K _ _ _ WD). reflexivity. Qed.

Theorem out_potential_ok node : node = zero n \/ In node ns -> out_potential m node x u = Ok (phi_of n z node).
Proof. intros H. unfold out_potential, out, c_row_for_potential, d_row_for_potential.
  destruct (row_pot_ok nst (ss_C m) node WC H) as [rc [Rc [_ Dc]]].
  destruct (row_pot_ok nS (ss_D m) node WD H) as [rd [Rd [_ Dd]]].
  rewrite Rc, Rd. simpl. rewrite Dc, Dd. unfold ss_z. rewrite (phi_of_vadd _ _ _ LCx). reflexivity. Qed.

Theorem out_voltage_ok b : In b bs -> out_voltage m (bid b) x u = Ok (bvolt (phi_of n z) b).
Proof. intros Hb. unfold out_voltage, out, c_row_voltage, d_row_voltage.
  destruct (row_volt_ok nst (ss_C m) b WC Hb) as [rc [Rc [_ Dc]]].
  destruct (row_volt_ok nS (ss_D m) b WD Hb) as [rd [Rd [_ Dd]]].
  rewrite Rc, Rd. simpl. rewrite Dc, Dd. unfold ss_z. rewrite (bvolt_vadd _ _ _ LCx). reflexivity. Qed.

(* the current the model reports for branch b *)
Definition jout (b : branch K) : K :=
  if lmem (bid b) ck then vlookup K cvals (bid b) * nth (lindex ck (bid b)) xd 0
  else if lmem (bid b) vs then nth (N + lindex vs (bid b)) z 0
  else if lmem (bid b) cs then nth (lindex cs (bid b)) u 0
  else finY b * bvolt (phi_of n z) b.

Lemma len_cs_nS : length cs <= nS.
Proof. rewrite nS_srcs. unfold sources. rewrite app_length. lia. Qed.

Theorem out_current_ok b : In b bs -> out_current m (bid b) x u = Ok (jout b).
Proof. intros Hb. unfold out_current, out, c_row_current, d_row_current, jout.
  destruct (lmem (bid b) ck) eqn:Ec.
  - simpl. rewrite !(dot_row_scale_l K KOK).
    assert (Hk : lindex ck (bid b) < nst).
    { apply lmem_spec in Ec. pose proof (lindex_lt ck _ Ec). rewrite len_ck in H. unfold ss_nst. lia. }
    rewrite <- !(nth_mat_vec_dot K) by (rewrite ?(wfm_len K _ _ _ WA), ?(wfm_len K _ _ _ WB); exact Hk).
    unfold ss_xdot. rewrite (nth_vadd K KOK).
    2:{ rewrite !mat_vec_length, (wfm_len K _ _ _ WA), (wfm_len K _ _ _ WB). reflexivity. }
    f_equal. ring.
  - destruct (lmem (bid b) vs) eqn:Ev.
    + simpl. apply lmem_spec in Ev. pose proof (lindex_lt vs _ Ev) as Hq.
      assert (Hd : (lindex vs (bid b) + N)%nat < dim) by (unfold ss_dim, ss_M; lia).
      rewrite <- !(nth_mat_vec_dot K) by (rewrite ?(wfm_len K _ _ _ WC), ?(wfm_len K _ _ _ WD); exact Hd).
      unfold ss_z. rewrite (nth_vadd K KOK) by exact LCx. rewrite (Nat.add_comm N). reflexivity.
    + destruct (lmem (bid b) cs) eqn:Es.
      * simpl. apply lmem_spec in Es. pose proof (lindex_lt cs _ Es) as Hq. pose proof len_cs_nS.
        unfold zero_row. rewrite (dot_zero_l K KOK), (dot_unit_l K KOK) by lia. f_equal. ring.
      * rewrite (get_branch_In K bs b (ids_nodup K n WF) Hb).
        destruct (row_volt_ok nst (ss_C m) b WC Hb) as [rc [Rc [_ Dc]]].
        destruct (row_volt_ok nS (ss_D m) b WD Hb) as [rd [Rd [_ Dd]]].
        rewrite Rc, Rd. simpl.
        assert (Hi : is_ideal_voltage_source (el b) = false) by (rewrite <- (lmem_vs b Hb); exact Ev).
        rewrite !row_over_Z_dot by exact Hi. rewrite Dc, Dd. unfold ss_z. rewrite (bvolt_vadd _ _ _ LCx).
        f_equal. unfold finY, opt0. ring. Qed.

Lemma lam_cap k : k < nC -> nth k (lam K cvals lvals) 0 = - snd (nth k cvals ([], 0)).
Proof. intros Hk. unfold lam. rewrite app_nth1 by (rewrite map_length; exact Hk).
  apply (nth_map_lt (fun p : label * K => - snd p) cvals k ([], 0) 0 Hk). Qed.

Lemma lam_ind k : k < nL -> nth (nC + k) (lam K cvals lvals) 0 = snd (nth k lvals ([], 0)).
Proof. intros Hk. unfold lam. rewrite app_nth2 by (rewrite map_length; unfold ss_nC; lia). rewrite map_length.
  replace (nC + k - length cvals)%nat with k by (unfold ss_nC; lia).
  apply (nth_map_lt (fun p : label * K => snd p) lvals k ([], 0) 0 Hk). Qed.

Lemma w_nth k : k < nst -> nth k w 0 = nth k (lam K cvals lvals) 0 * nth k xd 0.
Proof. intros Hk. unfold ss_w, Lambda. apply (mat_vec_diag K KOK). rewrite len_lam. exact Hk. Qed.

Lemma cs_bs l : In l cs -> In l (map bid bs).
Proof. intros H. apply cs_In in H. destruct H as [b [Hb [E _]]]. apply in_map_iff. exists b. auto. Qed.

Lemma kcl_node i : In i ns -> sumF (fun b => sgn i b * jout b) bs = 0.
Proof. intros Hi.
  pose proof (f_equal (fun v => nth (lindex ns i) v 0) Eq1) as E. cbv beta in E.
  rewrite (P_node z i Hi), (row_top_sum z i Hi Lz) in E.
  rewrite (rhs_node w u i Lw Lu Hi) in E.
  rewrite (sum_labels_branches (fun id => delta_ent K n id i * nth (lindex ck id) w 0) ck
             (ids_nodup K n WF) (rd_ck RD) ck_bs) in E.
  rewrite (sum_labels_branches (fun c => Qent n i c * nth (lindex srcs c) u 0) cs
             (ids_nodup K n WF) cs_NoDup cs_bs) in E.
  set (T1 := fun b : branch K => sgn i b * (flow_of n z b - opt0 (eI (el b)))) in *.
  set (T2 := fun b : branch K => if lmem (bid b) ck then delta_ent K n (bid b) i * nth (lindex ck (bid b)) w 0 else 0) in *.
  set (T3 := fun b : branch K => if lmem (bid b) cs then Qent n i (bid b) * nth (lindex srcs (bid b)) u 0 else 0) in *.
  rewrite (sumF_ext_in (fun b => sgn i b * jout b) (fun b => T1 b - (T2 b + T3 b))).
  - rewrite (sumF_sub KOK T1), (sumF_add KOK T2 T3), E. ring.
  - intros b Hb. unfold T1, T2, T3, jout. destruct (lmem (bid b) ck) eqn:Ec.
    + destruct (open_facts _ (cap_branch b Hb Ec)) as [EY [EI [Hiv Hcs]]].
      rewrite (lmem_cs b Hb), Hcs. unfold flow_of. rewrite Hiv, EI. unfold finY. rewrite EY.
      rewrite (delta_sgn b i Hb).
      apply lmem_spec in Ec. pose proof (lindex_lt ck _ Ec) as Hk. rewrite len_ck in Hk.
      rewrite w_nth by (unfold ss_nst; lia). rewrite (lam_cap _ Hk).
      unfold ckeys in Ec |- *. rewrite (vlookup_nth cvals (bid b) Ec). ring.
    + rewrite (lmem_vs b Hb), (lmem_cs b Hb). destruct (is_ideal_voltage_source (el b)) eqn:Hiv.
      * rewrite (ivs_not_cs _ Hiv). unfold flow_of. rewrite Hiv. rewrite (ivs_I0 K KOK _ Hiv).
        change (length ns) with N. ring.
      * destruct (is_current_source (el b)) eqn:Hcs.
        -- destruct (ics_facts _ (rd_cs RD b Hb Hcs)) as [EY _].
           unfold flow_of. rewrite Hiv. unfold finY. rewrite EY.
           rewrite (Qent_sgn K KOK n WF i b Hb).
           assert (Hc : In (bid b) cs) by (apply cs_In; exists b; auto).
           unfold sources. rewrite (lindex_app_l cs _ (bid b) Hc). ring.
        -- unfold flow_of. rewrite Hiv. ring. Qed.

Theorem kcl_all node : kcl_sum bs jout node = 0.
Proof. assert (Hk : forall i, In i ns -> kcl_sum bs jout i = 0)
    by (intros i Hi; rewrite (kcl_sum_sgn K KOK); apply kcl_node, Hi).
  destruct (in_dec (list_eq_dec BinNat.N.eq_dec) node (endpoints n)) as [Hi|Hi]; [|apply (kcl_untouched K KOK n), Hi].
  leq node (zero n); [|apply Hk, (ns_In K n); auto]. subst node.
  assert (T : kcl_sum bs jout (zero n) + sumF (kcl_sum bs jout) ns = 0).
  { apply (kcl_total K KOK n jout (zero n :: ns)).
    - constructor; [apply (ns_not_zero K n)|apply ns_NoDup].
    - intros l Hl. leq l (zero n); [left; auto|right; apply (ns_In K n); auto]. }
  rewrite (sumF_zero_in KOK _ ns Hk) in T. rewrite <- T. ring. Qed.

Theorem cap_law b : In b bs -> lmem (bid b) ck = true ->
  bvolt (phi_of n z) b = nth (lindex ck (bid b)) x 0
  /\ jout b = vlookup K cvals (bid b) * nth (lindex ck (bid b)) xd 0.
Proof. intros Hb Ec. split; [|unfold jout; rewrite Ec; reflexivity].
  apply lmem_spec in Ec. pose proof (lindex_lt ck _ Ec) as Hk. rewrite len_ck in Hk.
  pose proof (f_equal (fun v => nth (lindex ck (bid b)) v 0) Eq2) as E. cbv beta in E. rewrite <- E.
  rewrite (DQt_cap z _ Lz Hk). rewrite (nth_lindex ck (bid b) [] Ec).
  rewrite <- (sgn_sum_phi K KOK n z b Hb). apply sumF_ext_in. intros i Hi.
  rewrite (delta_sgn b i Hb), (phi_ns K n z i Hi). reflexivity. Qed.

Theorem ind_law b : In b bs -> lmem (bid b) lk = true ->
  jout b = nth (nC + lindex lk (bid b)) x 0
  /\ bvolt (phi_of n z) b = vlookup K lvals (bid b) * nth (nC + lindex lk (bid b)) xd 0.
Proof. intros Hb El. apply lmem_spec in El. pose proof (lk_vs _ El) as Hv.
  pose proof (lindex_lt lk _ El) as Hk. rewrite len_lk in Hk. split.
  - unfold jout. rewrite (proj2 (lmem_false (bid b) ck) (fun H => ck_not_vs _ H Hv)).
    rewrite (proj2 (lmem_spec (bid b) vs) Hv).
    pose proof (f_equal (fun v => nth (nC + lindex lk (bid b)) v 0) Eq2) as E. cbv beta in E. rewrite <- E.
    rewrite (DQt_ind z _ Lz Hk). rewrite (nth_lindex lk (bid b) [] El). reflexivity.
  - pose proof (f_equal (fun v => nth (N + lindex vs (bid b)) v 0) Eq1) as E. cbv beta in E.
    rewrite (P_vs z _ Hv) in E. rewrite (mna_row_is_source_voltage K KOK n WF z b Hb Lz) in E.
    rewrite (rhs_vs w u _ Lw Lu Hv) in E. rewrite (proj2 (lmem_spec (bid b) lk) El) in E.
    assert (Es : lmem (bid b) srcs = false).
    { apply lmem_false. intros H. destruct (srcs_cases _ H) as [Hc|[_ [_ Hn]]]; [exact (cs_vs_disjoint _ Hc Hv)|exact (Hn El)]. }
    rewrite Es in E. rewrite E.
    rewrite w_nth by (unfold ss_nst; lia). rewrite (lam_ind _ Hk).
    unfold lkeys in El |- *. rewrite (vlookup_nth lvals (bid b) El). ring. Qed.

Theorem vs_law b : In b bs -> is_ideal_voltage_source (el b) = true -> lmem (bid b) lk = false ->
  bvolt (phi_of n z) b = nth (lindex srcs (bid b)) u 0.
Proof. intros Hb Hiv El. assert (Hv : In (bid b) vs) by (apply vs_In; exists b; auto).
  pose proof (f_equal (fun v => nth (N + lindex vs (bid b)) v 0) Eq1) as E. cbv beta in E.
  rewrite (P_vs z _ Hv) in E. rewrite (mna_row_is_source_voltage K KOK n WF z b Hb Lz) in E.
  rewrite (rhs_vs w u _ Lw Lu Hv) in E. rewrite El in E.
  assert (Es : lmem (bid b) srcs = true).
  { apply lmem_spec. unfold sources. apply in_or_app. right. apply filter_In. split; [exact Hv|]. rewrite El. reflexivity. }
  rewrite Es in E. rewrite E. ring. Qed.

Theorem cs_law b : In b bs -> is_current_source (el b) = true -> jout b = nth (lindex srcs (bid b)) u 0.
Proof. intros Hb Hcs. assert (Hc : In (bid b) cs) by (apply cs_In; exists b; auto).
  unfold jout. rewrite (proj2 (lmem_false (bid b) ck) (fun H => ck_not_cs _ H Hc)).
  rewrite (proj2 (lmem_false (bid b) vs) (fun H => cs_vs_disjoint _ Hc H)).
  rewrite (proj2 (lmem_spec (bid b) cs) Hc). unfold sources. rewrite (lindex_app_l cs _ (bid b) Hc). reflexivity. Qed.

Theorem ohm_law b : In b bs -> lmem (bid b) ck = false -> is_ideal_voltage_source (el b) = false ->
  is_current_source (el b) = false -> jout b = finY b * bvolt (phi_of n z) b.
Proof. intros Hb Ec Hiv Hcs. unfold jout. rewrite Ec, (lmem_vs b Hb), Hiv, (lmem_cs b Hb), Hcs. reflexivity. Qed.

(* the states are the capacitor voltages and the inductor currents, as reported by the model's own output rows *)
Theorem state_cap b : In b bs -> lmem (bid b) ck = true ->
  out_voltage m (bid b) x u = Ok (nth (lindex ck (bid b)) x 0).
Proof. intros Hb Ec. rewrite (out_voltage_ok b Hb). f_equal. apply (cap_law b Hb Ec). Qed.

Theorem state_ind b : In b bs -> lmem (bid b) lk = true ->
  out_current m (bid b) x u = Ok (nth (nC + lindex lk (bid b)) x 0).
Proof. intros Hb El. rewrite (out_current_ok b Hb). f_equal. apply (ind_law b Hb El). Qed.

(* all laws at once: the outputs for (x, u) are a solution of the circuit in which capacitor k carries
   C_k * (A x + B u)_k and inductor k stands under L_k * (A x + B u)_(nC+k) *)
Theorem ss_laws : exists (phi : label -> K) (j : branch K -> K),
     (forall node, node = zero n \/ In node ns -> out_potential m node x u = Ok (phi node))
  /\ (forall b, In b bs -> out_voltage m (bid b) x u = Ok (bvolt phi b) /\ out_current m (bid b) x u = Ok (j b))
  /\ phi (zero n) = 0
  /\ (forall node, kcl_sum bs j node = 0)
  /\ (forall b, In b bs -> lmem (bid b) ck = true ->
        bvolt phi b = nth (lindex ck (bid b)) x 0
        /\ j b = vlookup K cvals (bid b) * nth (lindex ck (bid b)) xd 0)
  /\ (forall b, In b bs -> lmem (bid b) lk = true ->
        j b = nth (nC + lindex lk (bid b)) x 0
        /\ bvolt phi b = vlookup K lvals (bid b) * nth (nC + lindex lk (bid b)) xd 0)
  /\ (forall b, In b bs -> is_ideal_voltage_source (el b) = true -> lmem (bid b) lk = false ->
        bvolt phi b = nth (lindex srcs (bid b)) u 0)
  /\ (forall b, In b bs -> is_current_source (el b) = true -> j b = nth (lindex srcs (bid b)) u 0)
  /\ (forall b, In b bs -> lmem (bid b) ck = false -> is_ideal_voltage_source (el b) = false ->
        is_current_source (el b) = false -> j b = finY b * bvolt phi b).
Proof. exists (phi_of n z), jout.
  split; [exact out_potential_ok|].
  split; [intros b Hb; split; [exact (out_voltage_ok b Hb)|exact (out_current_ok b Hb)]|].
  split; [apply (phi_zero K n)|].
  split; [exact kcl_all|].
  split; [exact cap_law|].
  split; [exact ind_law|].
  split; [exact vs_law|].
  split; [exact cs_law|exact ohm_law]. Qed.

(* transfer function: if s x = A x + B u (x = (sI - A)^-1 B u when that inverse exists), the outputs C x + D u
   satisfy the phasor equations at s: capacitor i = (s C) v, inductor v = (s L) i, sources = u, Ohm, KCL *)
Theorem ss_phasor (s : K) : (forall k, k < nst -> nth k xd 0 = s * nth k x 0) ->
  exists (phi : label -> K) (j : branch K -> K),
     (forall node, node = zero n \/ In node ns -> out_potential m node x u = Ok (phi node))
  /\ (forall b, In b bs -> out_voltage m (bid b) x u = Ok (bvolt phi b) /\ out_current m (bid b) x u = Ok (j b))
  /\ phi (zero n) = 0
  /\ (forall node, kcl_sum bs j node = 0)
  /\ (forall b, In b bs -> lmem (bid b) ck = true -> j b = (s * vlookup K cvals (bid b)) * bvolt phi b)
  /\ (forall b, In b bs -> lmem (bid b) lk = true -> bvolt phi b = (s * vlookup K lvals (bid b)) * j b)
  /\ (forall b, In b bs -> is_ideal_voltage_source (el b) = true -> lmem (bid b) lk = false ->
        bvolt phi b = nth (lindex srcs (bid b)) u 0)
  /\ (forall b, In b bs -> is_current_source (el b) = true -> j b = nth (lindex srcs (bid b)) u 0)
  /\ (forall b, In b bs -> lmem (bid b) ck = false -> is_ideal_voltage_source (el b) = false ->
        is_current_source (el b) = false -> j b = finY b * bvolt phi b).
Proof. intros Hs. exists (phi_of n z), jout.
  split; [exact out_potential_ok|].
  split; [intros b Hb; split; [exact (out_voltage_ok b Hb)|exact (out_current_ok b Hb)]|].
  split; [apply (phi_zero K n)|].
  split; [exact kcl_all|].
  split; [|split; [|split; [exact vs_law|split; [exact cs_law|exact ohm_law]]]].
  - intros b Hb Ec. destruct (cap_law b Hb Ec) as [E1 E2]. rewrite E1, E2.
    apply lmem_spec in Ec. pose proof (lindex_lt ck _ Ec) as Hk. rewrite len_ck in Hk.
    rewrite Hs by (unfold ss_nst; lia). ring.
  - intros b Hb El. destruct (ind_law b Hb El) as [E1 E2]. rewrite E1, E2.
    apply lmem_spec in El. pose proof (lindex_lt lk _ El) as Hk. rewrite len_lk in Hk.
    rewrite Hs by (unfold ss_nst; lia). ring. Qed.

(* DC gain: a stationary state (A x + B u = 0) gives the DC solution: no capacitor current, no inductor voltage *)
Theorem ss_dc_gain : (forall k, k < nst -> nth k xd 0 = 0) ->
  exists (phi : label -> K) (j : branch K -> K),
     (forall node, node = zero n \/ In node ns -> out_potential m node x u = Ok (phi node))
  /\ (forall b, In b bs -> out_voltage m (bid b) x u = Ok (bvolt phi b) /\ out_current m (bid b) x u = Ok (j b))
  /\ phi (zero n) = 0
  /\ (forall node, kcl_sum bs j node = 0)
  /\ (forall b, In b bs -> lmem (bid b) ck = true -> j b = 0)
  /\ (forall b, In b bs -> lmem (bid b) lk = true -> bvolt phi b = 0)
  /\ (forall b, In b bs -> is_ideal_voltage_source (el b) = true -> lmem (bid b) lk = false ->
        bvolt phi b = nth (lindex srcs (bid b)) u 0)
  /\ (forall b, In b bs -> is_current_source (el b) = true -> j b = nth (lindex srcs (bid b)) u 0)
  /\ (forall b, In b bs -> lmem (bid b) ck = false -> is_ideal_voltage_source (el b) = false ->
        is_current_source (el b) = false -> j b = finY b * bvolt phi b).
Proof. intros H0.
  assert (Hs : forall k, k < nst -> nth k xd 0 = 0 * nth k x 0) by (intros k Hk; rewrite (H0 k Hk); ring).
  destruct (ss_phasor 0 Hs) as [phi [j [P1 [P2 [P3 [P4 [P5 [P6 [P7 [P8 P9]]]]]]]]]].
  exists phi, j. repeat (split; [assumption|]). split; [|split; [|repeat (split; [assumption|]); assumption]].
  - intros b Hb Ec. rewrite (P5 b Hb Ec). ring.
  - intros b Hb El. rewrite (P6 b Hb El). ring. Qed.

End Laws.
(* ---------------- dimensions, order of the input columns ---------------- *)
Theorem ss_dims (m : ssm K) : state_space_matrices K n cvals lvals = Ok m ->
  wfm nst nst (ss_A m) /\ wfm nst nS (ss_B m) /\ wfm dim nst (ss_C m) /\ wfm dim nS (ss_D m)
  /\ nst = (length cvals + length lvals)%nat /\ nS = length srcs.
Proof. intros Hm. destruct (ss_augmented_mat m Hm) as [WA [WB [WC [WD _]]]].
  repeat (split; [assumption|]). split; [reflexivity|exact nS_srcs]. Qed.

Lemma map_const_len {A B} (l1 : list A) (l2 : list B) (c : K) : length l1 = length l2 ->
  map (fun _ => c) l1 = map (fun _ => c) l2.
Proof. revert l2. induction l1 as [|a l1 IH]; intros [|b l2] H; simpl in *; try discriminate; [reflexivity|].
  f_equal. apply IH. lia. Qed.

Lemma col_select (idx : list nat) (Q : mat) k : k < length idx -> col (select_cols K idx Q) k = col Q (nth k idx O).
Proof. intros Hk. unfold col, select_cols. rewrite map_map. apply map_ext. intros r. unfold entry at 1.
  apply (nth_map_lt (fun p => entry r p) idx k O 0 Hk). Qed.

Lemma Qmat_col l : col (Qmat K n) (lindex cols l)
  = map (fun i => entry (map (Qent n i) cs ++ map (fun _ => 0) vs) (lindex cols l)) ns
    ++ map (fun q => entry (map (fun _ => 0) cs ++ unit_vec M q) (lindex cols l)) (seq 0 M).
Proof. unfold col, Qmat. rewrite map_app, !map_map. reflexivity. Qed.

Theorem sources_order (m : ssm K) : state_space_matrices K n cvals lvals = Ok m ->
  srcs = cs ++ filter (fun v => negb (lmem v lk)) vs
  /\ nS = length srcs
  /\ (forall k, k < nS -> In (nth k srcs []) cs ->
        col QSm k = map (fun i => Qent n i (nth k srcs [])) ns ++ map (fun _ => 0) vs)
  /\ (forall k, k < nS -> In (nth k srcs []) vs ->
        col QSm k = map (fun _ => 0) ns ++ unit_vec M (lindex vs (nth k srcs [])))
  /\ exists BX DX, wfm nst dim BX /\ wfm dim dim DX /\ ss_B m = mat_mul nS BX QSm /\ ss_D m = mat_mul nS DX QSm.
Proof. intros Hm. split; [reflexivity|]. split; [exact nS_srcs|].
  assert (Hcol : forall k, k < nS -> col QSm k = col (Qmat K n) (lindex cols (nth k srcs []))).
  { intros k Hk. unfold QS. rewrite col_select by exact Hk. f_equal. rewrite QS_idx_srcs.
    apply (nth_map_lt (lindex cols) srcs k [] O). rewrite <- nS_srcs. exact Hk. }
  split; [|split].
  - intros k Hk Hc. rewrite (Hcol k Hk), Qmat_col. f_equal.
    + apply map_ext. intros i. rewrite Qnode_entry. rewrite (proj2 (lmem_spec _ cs) Hc). reflexivity.
    + assert (E : forall q, entry (map (fun _ : label => 0) cs ++ unit_vec M q) (lindex cols (nth k srcs [])) = 0)
        by (intros q; apply Qvs_entry_cs, Hc).
      rewrite (map_ext _ (fun _ => 0) E). apply map_const_len. rewrite seq_length. reflexivity.
  - intros k Hk Hv.
    assert (Hc : ~ In (nth k srcs []) cs) by (intros Hc; exact (cs_vs_disjoint _ Hc Hv)).
    rewrite (Hcol k Hk), Qmat_col. f_equal.
    + apply map_ext. intros i. rewrite Qnode_entry. rewrite (proj2 (lmem_false _ cs) Hc). reflexivity.
    + change (unit_vec M (lindex vs (nth k srcs [])))
        with (map (fun j => if Nat.eqb j (lindex vs (nth k srcs [])) then 1 else 0) (seq 0 M)).
      apply map_ext. intros q. rewrite (Qvs_entry q _ Hv Hc). rewrite Nat.eqb_sym. reflexivity.
  - destruct (ssm_inv m Hm) as [Pi [Mx [HPi [HMx [EA [EC [EB ED]]]]]]].
    destruct (ss_augmented_mat m Hm) as [WA [WB [WC [WD _]]]].
    destruct (inverse_two_sided K KOK dim Pm Pi W_P HPi) as [WPi _].
    pose proof W_iLam as WiL. pose proof W_DQt as WDQt.
    exists (mat_mul dim (mat_opp K iLam) (transpose nst (ss_C m))),
           (mat_sub K Pi (mat_mul dim (transpose dim (Tm Pi)) (transpose nst (ss_C m)))).
    split; [wf|]. split; [|split; assumption].
    apply (wfm_sub K); [exact WPi|]. apply (wfm_mul K dim nst). apply (wfm_transpose K nst dim).
    apply (wfm_mul K nst dim), WDQt. Qed.

(* ---------------- TransientSolution: what the solver receives ---------------- *)
Section Transient.
Variables T sig : Type.
Variable sim : ssm K -> list sig -> T -> list K -> list sig.
Variable input : label -> T -> sig.

Theorem transient_call (m : ssm K) (tin : T) :
  transient_states K n cvals lvals T sig sim input m tin
  = sim {| ss_A := ss_A m; ss_B := ss_B m; ss_C := ident nst; ss_D := map (fun _ => zero_row K nS) (seq 0 nst) |}
        (map (fun id => input id tin) srcs) tin (zero_row K nst).
Proof. reflexivity. Qed.

Theorem transient_rest : length (transient_x0 K cvals lvals) = nst /\ forall k, nth k (transient_x0 K cvals lvals) 0 = 0.
Proof. split; [apply zero_row_length|]. intros k. apply nth_zero_row. Qed.

Theorem transient_input_order (tin : T) :
  length (transient_u K n lvals T sig input tin) = length srcs
  /\ forall k, k < length srcs -> nth_error (transient_u K n lvals T sig input tin) k = Some (input (nth k srcs []) tin).
Proof. unfold transient_u. split; [apply map_length|]. intros k Hk.
  rewrite nth_error_map. rewrite (nth_error_nth' srcs [] Hk). reflexivity. Qed.
End Transient.

(* ---------------- energy balance of the autonomous system (u = 0): Lyapunov identity ---------------- *)
Lemma sum_lindex (g : nat -> K) (labs : list label) : NoDup labs ->
  sumF (fun l => g (lindex labs l)) labs = sumF g (seq 0 (length labs)).
Proof. revert g. induction labs as [|a labs IH]; intros g ND; [reflexivity|].
  inversion ND as [|? ? Ha ND']; subst. simpl length. simpl seq. rewrite <- seq_shift. simpl sumF.
  rewrite label_eqb_refl. f_equal. rewrite sumF_map. rewrite <- (IH (fun k => g (S k)) ND').
  apply sumF_ext_in. intros l Hl. leq a l; [subst; contradiction|reflexivity]. Qed.

Section Energy.
Variable m : ssm K.
Hypothesis Hm : state_space_matrices K n cvals lvals = Ok m.
Variable x : list K.
Hypothesis Lx : length x = nst.
Notation u0 := (zero_row K nS).
Notation z0 := (ss_z m x u0).
Notation xd0 := (ss_xdot m x u0).
Notation j0 := (jout m x u0).

Lemma Lu0 : length u0 = nS. Proof. apply zero_row_length. Qed.

(* W = diag(C..., L...) *)
Definition Wd : list K := map snd cvals ++ map snd lvals.
Definition resb (b : branch K) : bool :=
  negb (lmem (bid b) ck) && negb (is_ideal_voltage_source (el b)) && negb (is_current_source (el b)).

Lemma Wd_cap k : k < nC -> nth k Wd 0 = snd (nth k cvals ([], 0)).
Proof. intros Hk. unfold Wd. rewrite app_nth1 by (rewrite map_length; exact Hk).
  apply (nth_map_lt (fun p : label * K => snd p) cvals k ([], 0) 0 Hk). Qed.

Lemma Wd_ind k : k < nL -> nth (nC + k) Wd 0 = snd (nth k lvals ([], 0)).
Proof. intros Hk. unfold Wd. rewrite app_nth2 by (rewrite map_length; unfold ss_nC; lia). rewrite map_length.
  replace (nC + k - length cvals)%nat with k by (unfold ss_nC; lia).
  apply (nth_map_lt (fun p : label * K => snd p) lvals k ([], 0) 0 Hk). Qed.

Lemma xd0_A k : nth k xd0 0 = nth k (mat_vec (ss_A m) x) 0.
Proof. destruct (ss_augmented_mat m Hm) as [WA [WB _]]. unfold ss_xdot.
  rewrite (nth_vadd K KOK) by (rewrite !mat_vec_length, (wfm_len K _ _ _ WA), (wfm_len K _ _ _ WB); reflexivity).
  unfold zero_row. rewrite (mat_vec_zero K KOK), (nth_map_zero K). ring. Qed.

Definition eC (b : branch K) : K :=
  if lmem (bid b) ck then (fun k => nth k Wd 0 * nth k x 0 * nth k xd0 0) (lindex ck (bid b)) else 0.
Definition eL (b : branch K) : K :=
  if lmem (bid b) lk then (fun k => nth (nC + k) Wd 0 * nth (nC + k) x 0 * nth (nC + k) xd0 0) (lindex lk (bid b)) else 0.
Definition eR (b : branch K) : K :=
  if resb b then finY b * (bvolt (phi_of n z0) b * bvolt (phi_of n z0) b) else 0.

Lemma power_split b : In b bs -> bvolt (phi_of n z0) b * j0 b = eC b + eL b + eR b.
Proof. intros Hb. unfold eC, eL, eR, resb.
  destruct (lmem (bid b) ck) eqn:Ec.
  - destruct (cap_law m Hm x u0 Lx Lu0 b Hb Ec) as [E1 E2]. rewrite E1, E2.
    pose proof Ec as Ec'. apply lmem_spec in Ec'. pose proof (lindex_lt ck _ Ec') as Hk. rewrite len_ck in Hk.
    rewrite (proj2 (lmem_false (bid b) lk) (fun H => ck_not_vs _ Ec' (lk_vs _ H))).
    rewrite (Wd_cap _ Hk). unfold ckeys in Ec' |- *. rewrite (vlookup_nth cvals (bid b) Ec'). simpl. ring.
  - destruct (lmem (bid b) lk) eqn:El.
    + destruct (ind_law m Hm x u0 Lx Lu0 b Hb El) as [E1 E2]. rewrite E1, E2.
      pose proof El as El'. apply lmem_spec in El'. pose proof (lindex_lt lk _ El') as Hk. rewrite len_lk in Hk.
      rewrite <- (lmem_vs b Hb). rewrite (proj2 (lmem_spec (bid b) vs) (lk_vs _ El')).
      rewrite (Wd_ind _ Hk). unfold lkeys in El' |- *. rewrite (vlookup_nth lvals (bid b) El'). simpl. ring.
    + destruct (is_ideal_voltage_source (el b)) eqn:Hiv.
      * rewrite (vs_law m Hm x u0 Lx Lu0 b Hb Hiv El). rewrite nth_zero_row. simpl. ring.
      * destruct (is_current_source (el b)) eqn:Hcs.
        -- rewrite (cs_law m x u0 b Hb Hcs). rewrite nth_zero_row. simpl. ring.
        -- rewrite (ohm_law m x u0 b Hb Ec Hiv Hcs). simpl. ring. Qed.

Lemma lk_bs id : In id lk -> In id (map bid bs).
Proof. intros H. destruct (rd_ind RD _ H) as [b [Hb [E _]]]. apply in_map_iff. exists b. auto. Qed.

(* x^T W (A x) = - sum over the resistive branches of Y v^2 *)
Theorem lyapunov_identity :
  sumF (fun k => nth k Wd 0 * nth k x 0 * nth k (mat_vec (ss_A m) x) 0) (seq 0 nst) = - sumF eR bs.
Proof.
  pose proof (tellegen_plain K KOK bs (phi_of n z0) j0 (kcl_all m Hm x u0 Lx Lu0)) as T.
  rewrite (sumF_ext_in _ (fun b => eC b + eL b + eR b) bs power_split) in T.
  rewrite (sumF_add KOK (fun b => eC b + eL b) eR), (sumF_add KOK eC eL) in T.
  assert (EC : sumF eC bs = sumF (fun k => nth k Wd 0 * nth k x 0 * nth k xd0 0) (seq 0 nC)).
  { pose (g := fun k => nth k Wd 0 * nth k x 0 * nth k xd0 0).
    transitivity (sumF (fun id => g (lindex ck id)) ck).
    - symmetry. apply (sum_labels_branches (fun id => g (lindex ck id)) ck (ids_nodup K n WF) (rd_ck RD) ck_bs).
    - rewrite (sum_lindex g ck (rd_ck RD)), len_ck. reflexivity. }
  assert (EL : sumF eL bs = sumF (fun k => nth (nC + k) Wd 0 * nth (nC + k) x 0 * nth (nC + k) xd0 0) (seq 0 nL)).
  { pose (g := fun k => nth (nC + k) Wd 0 * nth (nC + k) x 0 * nth (nC + k) xd0 0).
    transitivity (sumF (fun id => g (lindex lk id)) lk).
    - symmetry. apply (sum_labels_branches (fun id => g (lindex lk id)) lk (ids_nodup K n WF) (rd_lk RD) lk_bs).
    - rewrite (sum_lindex g lk (rd_lk RD)), len_lk. reflexivity. }
  rewrite EC, EL in T.
  rewrite (sumF_ext (fun k => nth k Wd 0 * nth k x 0 * nth k (mat_vec (ss_A m) x) 0)
             (fun k => nth k Wd 0 * nth k x 0 * nth k xd0 0)) by (intros k; rewrite xd0_A; reflexivity).
  unfold ss_nst. rewrite seq_app, (sumF_app KOK). change (0 + nC)%nat with nC.
  assert (SH : forall a len, seq a len = map (fun k => (a + k)%nat) (seq 0 len)).
  { intros a len. revert a. induction len as [|len IH]; intros a; [reflexivity|]. simpl.
    rewrite Nat.add_0_r. f_equal. rewrite (IH (S a)). rewrite <- seq_shift, map_map. apply map_ext. intros k. lia. }
  rewrite (SH nC nL), sumF_map.
  match goal with |- ?a + ?b = - ?c => replace (a + b) with ((a + b + c) - c) by ring end.
  rewrite T. ring. Qed.

End Energy.

End SSThm.

(* ---------------- boolean checkers of the hypotheses, for concrete examples ---------------- *)
Definition rlc_dcb {K : fops} (n : network K) (cvals lvals : list (label * K)) : bool :=
  wfb n
  && Nat.eqb (length (ldedup (ckeys K cvals))) (length (ckeys K cvals))
  && Nat.eqb (length (ldedup (lkeys K lvals))) (length (lkeys K lvals))
  && forallb (fun id => existsb (fun b => label_eqb (bid b) id && is_open_circuit (el b)) (branches n)) (ckeys K cvals)
  && forallb (fun id => existsb (fun b => label_eqb (bid b) id && is_short_circuit (el b)) (branches n)) (lkeys K lvals)
  && forallb (fun b => negb (is_current_source (el b)) || is_ideal_current_source (el b)) (branches n).

Lemma rlc_dcb_ok {K : fops} (n : network K) (cvals lvals : list (label * K)) :
  rlc_dcb n cvals lvals = true -> rlc_dc K n cvals lvals.
Proof. unfold rlc_dcb. intros H.
  apply andb_true_iff in H. destruct H as [H H6]. apply andb_true_iff in H. destruct H as [H H5].
  apply andb_true_iff in H. destruct H as [H H4]. apply andb_true_iff in H. destruct H as [H H3].
  apply andb_true_iff in H. destruct H as [H1 H2].
  assert (EX : forall (p : elem K -> bool) ids,
             forallb (fun id => existsb (fun b => label_eqb (bid b) id && p (el b)) (branches n)) ids = true ->
             forall id, In id ids -> exists b, In b (branches n) /\ bid b = id /\ p (el b) = true).
  { intros p ids Hf id Hid. rewrite forallb_forall in Hf. specialize (Hf id Hid). apply existsb_exists in Hf.
    destruct Hf as [b [Hb Hp]]. apply andb_true_iff in Hp. destruct Hp as [Hp1 Hp2]. exists b. split; [exact Hb|].
    split; [|exact Hp2]. destruct (label_eqb_spec (bid b) id); [assumption|discriminate]. }
  constructor.
  - exact (proj1 (wfb_ok n H1)).
  - apply ldedup_length_NoDup, Nat.eqb_eq, H2.
  - apply ldedup_length_NoDup, Nat.eqb_eq, H3.
  - exact (EX _ _ H4).
  - exact (EX _ _ H5).
  - intros b Hb Hc. rewrite forallb_forall in H6. specialize (H6 b Hb). rewrite Hc in H6. exact H6. Qed.

Definition lam_nzb {K : fops} (cvals lvals : list (label * K)) : bool :=
  forallb (fun x => negb (feqb K x (f0 K))) (lam K cvals lvals).

Lemma lam_nzb_ok {K : fops} (KOK : fops_ok K) (cvals lvals : list (label * K)) : lam_nzb cvals lvals = true ->
  forall k, k < ss_nst K cvals lvals -> nth k (lam K cvals lvals) (f0 K) <> f0 K.
Proof. unfold lam_nzb. intros H k Hk. rewrite forallb_forall in H.
  assert (Hin : In (nth k (lam K cvals lvals) (f0 K)) (lam K cvals lvals)) by (apply nth_In; rewrite (len_lam K); exact Hk).
  specialize (H _ Hin). apply negb_true_iff in H. intros E. rewrite E in H. rewrite (feqb_refl KOK) in H. discriminate. Qed.
