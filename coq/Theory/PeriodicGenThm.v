(* Theory/PeriodicGenThm.v — the generic methods of AbstractHarmonicCoefficients and periodic_function as REGENERATED from
   SignalProcessing/periodic_functions.py (Gen/Periodic.v: abstract_amplitude, abstract_phase, abstract_a, abstract_b,
   abstract_c, lookup_periodic_function; tools/gen_periodic.py) against the hand-written model Model/Harmonics.v.
   Generic in the record of real operations: no law of the operations is used, every equality is by case analysis on the
   tests the two texts share.  The scripts do not depend on whether the source writes `if n < 0: return .. / return ..` or
   binds `harmonic = -n if n < 0 else n` first, nor on whether periodic_function filters and takes element 0 or loops and
   returns the first match. *)
From Coq Require Import ZArith NArith List Bool.
From CC Require Import Model.Network Model.Rops Gen.Periodic Model.Harmonics.
Import ListNotations.

Section Generic.
Variable O : rops.
Variable h : harmonics O.
Notation fa := (amp_coeff O h).
Notation fp := (ph_coeff O h).

Lemma eq_amplitude (n : Z) : abstract_amplitude O fa fp n = amplitude O h n.
Proof. unfold abstract_amplitude, amplitude. cbv zeta. destruct (Z.ltb n 0); reflexivity. Qed.

Lemma eq_phase (n : Z) : abstract_phase O fa fp n = phase O h n.
Proof. unfold abstract_phase, phase. cbv zeta. destruct (Z.ltb n 0); reflexivity. Qed.

Lemma eq_a (n : Z) : abstract_a O fa fp n = coef_a O h n.
Proof. unfold abstract_a, coef_a. cbv zeta. rewrite ?eq_amplitude, ?eq_phase. reflexivity. Qed.

Lemma eq_b (n : Z) : abstract_b O fa fp n = coef_b O h n.
Proof. unfold abstract_b, coef_b. cbv zeta. rewrite ?eq_amplitude, ?eq_phase. reflexivity. Qed.

Lemma eq_c (n : Z) : abstract_c O fa fp n = coef_c O h n.
Proof.
  unfold abstract_c, coef_c, cscal, cis. cbv zeta. cbn [fst snd].
  destruct (Z.ltb n 0); cbv iota; rewrite ?eq_amplitude, ?eq_phase; reflexivity.
Qed.
End Generic.

(* ---------------------------------------------------------------- periodic_function *)
Definition codes_UnknownWavetype : label := [85; 110; 107; 110; 111; 119; 110; 87; 97; 118; 101; 116; 121; 112; 101]%N.
Definition codes_TransformationError : label :=
  [84; 114; 97; 110; 115; 102; 111; 114; 109; 97; 116; 105; 111; 110; 69; 114; 114; 111; 114]%N.
(* the Python class a model error stands for *)
Definition perr_name (e : perr) : label :=
  match e with EUnknownWavetype => codes_UnknownWavetype | ETransformationError => codes_TransformationError end.
Definition lookup_result (r : pres N) : N + label :=
  match r with
  | POk i => inl i
  | PErr EUnknownWavetype => inr codes_UnknownWavetype
  | PErr ETransformationError => inr codes_TransformationError
  end.

Lemma class_attr_in_eq (l : list (label * N)) (i : N) : class_attr_in l i = wavetype_of_in l i.
Proof. induction l as [|[w k] r IH]; simpl; [reflexivity|]. rewrite IH. reflexivity. Qed.
Lemma class_wavetype_eq (i : N) : class_wavetype i = wavetype_of i.
Proof. apply class_attr_in_eq. Qed.

(* the first match of a loop with early return is the head of the filtered list *)
Lemma find_filter_head {A} (p : A -> bool) (l : list A) :
  find p l = match filter p l with x :: _ => Some x | [] => None end.
Proof. induction l as [|a l IH]; simpl; [reflexivity|]. destruct (p a); [reflexivity|exact IH]. Qed.

Lemma eq_periodic_function (name : label) : lookup_periodic_function name = lookup_result (periodic_function name).
Proof.
  unfold lookup_periodic_function, periodic_function, lookup_result. rewrite ?find_filter_head.
  match goal with |- context [filter ?p periodic_functions] =>
    rewrite (filter_ext p (fun i => match wavetype_of i with Some w => label_eqb w name | None => false end))
      by (intros i; rewrite class_wavetype_eq; reflexivity) end.
  destruct (filter _ periodic_functions); reflexivity.
Qed.
