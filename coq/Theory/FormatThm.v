(* Theory/FormatThm.v — facts about the rendering model Model/Format.v: digit counting, half-even
   rounding, exponent/mantissa accuracy and range, text assembly and its parser. *)
From Coq Require Import List Bool ZArith NArith QArith Qabs Qpower PosExtra Lia Psatz.
From CC Require Import Model.Network Theory.Labels Model.Format.
Import ListNotations.
Open Scope Z_scope.

(* ---------- powers of ten ---------- *)
Lemma p10_pos k : 0 <= k -> 0 < 10 ^ k.
Proof. intros H. apply Z.pow_pos_nonneg; lia. Qed.
Lemma p10_add a b : 0 <= a -> 0 <= b -> 10 ^ (a + b) = 10 ^ a * 10 ^ b.
Proof. intros. apply Z.pow_add_r; lia. Qed.
Lemma p10_S a : 0 <= a -> 10 ^ (a + 1) = 10 * 10 ^ a.
Proof. intros. rewrite p10_add by lia. change (10 ^ 1) with 10. lia. Qed.
Lemma p10_le a b : 0 <= a <= b -> 10 ^ a <= 10 ^ b.
Proof. intros. apply Z.pow_le_mono_r; lia. Qed.
Lemma p10_lt a b : 0 <= a < b -> 10 ^ a < 10 ^ b.
Proof. intros. apply Z.pow_lt_mono_r; lia. Qed.
Lemma p10_ge1 k : 0 <= k -> 1 <= 10 ^ k.
Proof. intros H. pose proof (p10_pos k H). lia. Qed.

(* ---------- ndigits ---------- *)
Lemma ndig_aux_spec f : forall n, 1 <= n -> n < 2 ^ Z.of_nat f ->
  1 <= ndig_aux f n /\ 10 ^ (ndig_aux f n - 1) <= n < 10 ^ ndig_aux f n.
Proof.
  induction f as [|f IH]; intros n H1 H2.
  - simpl in H2. lia.
  - cbn [ndig_aux]. destruct (n <? 10) eqn:E.
    + apply Z.ltb_lt in E. change (10 ^ (1 - 1)) with 1. change (10 ^ 1) with 10. lia.
    + apply Z.ltb_ge in E.
      assert (P2 : 2 ^ Z.of_nat (S f) = 2 * 2 ^ Z.of_nat f).
      { rewrite Nat2Z.inj_succ, Z.pow_succ_r by lia. reflexivity. }
      pose proof (Z.div_mod n 10 ltac:(lia)) as DM. pose proof (Z.mod_pos_bound n 10 ltac:(lia)) as MB.
      assert (Q1 : 1 <= n / 10) by lia.
      assert (Q2 : n / 10 < 2 ^ Z.of_nat f) by lia.
      destruct (IH (n / 10) Q1 Q2) as [K1 [K2 K3]].
      set (k := ndig_aux f (n / 10)) in *.
      replace (1 + k - 1) with ((k - 1) + 1) by lia. rewrite p10_S by lia.
      replace (1 + k) with (k + 1) by lia. rewrite p10_S by lia. lia.
Qed.

Lemma ndigits_spec n : 1 <= n -> 1 <= ndigits n /\ 10 ^ (ndigits n - 1) <= n < 10 ^ ndigits n.
Proof.
  intros H. unfold ndigits. apply ndig_aux_spec; [exact H|].
  pose proof (Z.log2_nonneg n) as L. pose proof (Z.log2_spec n ltac:(lia)) as S.
  rewrite Nat2Z.inj_succ, Z2Nat.id by lia. lia.
Qed.

Lemma ndigits_unique n k : 1 <= k -> 10 ^ (k - 1) <= n < 10 ^ k -> ndigits n = k.
Proof.
  intros K [L U]. assert (N1 : 1 <= n) by (pose proof (p10_pos (k - 1) ltac:(lia)); lia).
  destruct (ndigits_spec n N1) as [J [JL JU]]. set (j := ndigits n) in *.
  destruct (Z.lt_trichotomy j k) as [C|[C|C]]; [|exact C|].
  - pose proof (p10_le j (k - 1) ltac:(lia)). lia.
  - pose proof (p10_le k (j - 1) ltac:(lia)). lia.
Qed.

Lemma ndigits_p10 k : 0 <= k -> ndigits (10 ^ k) = k + 1.
Proof. intros K. apply ndigits_unique; [lia|]. replace (k + 1 - 1) with k by lia.
  pose proof (p10_lt k (k + 1) ltac:(lia)). lia. Qed.

(* ---------- half-even rounding ---------- *)
Lemma rhe_cases n d : 0 < d ->
  let q := n / d in let r := n mod d in
  n = d * q + r /\ 0 <= r < d /\
  ((2 * r < d /\ rhe n d = q) \/ (d < 2 * r /\ rhe n d = q + 1) \/
   (2 * r = d /\ rhe n d = if Z.even q then q else q + 1)).
Proof.
  intros D q r. split; [apply Z.div_mod; lia|]. split; [apply Z.mod_pos_bound; lia|].
  unfold rhe. fold q r. destruct (Z.compare_spec (2 * r) d) as [E|E|E]; auto.
Qed.

(* the rounded value is within half a unit *)
Lemma rhe_spec n d : 0 < d -> 2 * Z.abs (rhe n d * d - n) <= d.
Proof.
  intros D. destruct (rhe_cases n d D) as [E [B C]]. cbv zeta in *.
  set (q := n / d) in *. set (r := n mod d) in *.
  destruct C as [[C1 ->]|[[C1 ->]|[C1 ->]]]; [| |destruct (Z.even q)]; nia.
Qed.

Lemma rhe_ge n d L : 0 < d -> L * d <= n -> L <= rhe n d.
Proof.
  intros D H. destruct (rhe_cases n d D) as [E [B C]]. cbv zeta in *.
  set (q := n / d) in *. set (r := n mod d) in *.
  assert (L <= q) by nia.
  destruct C as [[C1 ->]|[[C1 ->]|[C1 ->]]]; [| |destruct (Z.even q)]; lia.
Qed.

Lemma rhe_le n d U : 0 < d -> n <= U * d -> rhe n d <= U.
Proof.
  intros D H. destruct (rhe_cases n d D) as [E [B C]]. cbv zeta in *.
  set (q := n / d) in *. set (r := n mod d) in *.
  assert (q <= U) by nia.
  assert (q = U -> r = 0) by nia.
  destruct C as [[C1 ->]|[[C1 ->]|[C1 ->]]]; [| |destruct (Z.even q)]; lia.
Qed.

(* strictly above the tie below L rounds up to at least L *)
Lemma rhe_ge_strict n d L : 0 < d -> (2 * L - 1) * d < 2 * n -> L <= rhe n d.
Proof.
  intros D H. destruct (rhe_cases n d D) as [E [B C]]. cbv zeta in *.
  set (q := n / d) in *. set (r := n mod d) in *.
  assert (L - 1 <= q) by nia.
  destruct C as [[C1 ->]|[[C1 ->]|[C1 ->]]]; [| |destruct (Z.even q)]; nia.
Qed.

Lemma rhe_exact q d : 0 < d -> rhe (q * d) d = q.
Proof.
  intros D. apply Z.le_antisymm; [apply rhe_le|apply rhe_ge]; lia.
Qed.

Lemma rhe_opp n d : 0 < d -> rhe (- n) d = - rhe n d.
Proof.
  intros D. destruct (rhe_cases n d D) as [E [B C]]. destruct (rhe_cases (- n) d D) as [E' [B' C']].
  cbv zeta in *.
  set (q := n / d) in *. set (r := n mod d) in *. set (q' := (- n) / d) in *. set (r' := (- n) mod d) in *.
  assert (Q0 : q + q' = 0 \/ q + q' = -1) by nia.
  assert (Q : (r = 0 /\ r' = 0 /\ q' = - q) \/ (0 < r /\ r' = d - r /\ q' = - q - 1)).
  { destruct Q0 as [Q0|Q0]; [left|right]; nia. }
  destruct Q as [[R0 [R0' Q']]|[R0 [R' Q']]].
  - destruct C as [[C1 ->]|[[C1 ->]|[C1 ->]]]; destruct C' as [[C1' ->]|[[C1' ->]|[C1' ->]]]; try lia.
  - destruct C as [[C1 ->]|[[C1 ->]|[C1 ->]]]; destruct C' as [[C1' ->]|[[C1' ->]|[C1' ->]]]; try lia.
    rewrite Q'. replace (- q - 1) with (- (q + 1)) by lia. rewrite Z.even_opp.
    replace (q + 1) with (Z.succ q) by lia. rewrite Z.even_succ, <- Z.negb_even.
    destruct (Z.even q); simpl; lia.
Qed.

Lemma rhe_abs n d : 0 < d -> Z.abs (rhe n d) = rhe (Z.abs n) d.
Proof.
  intros D. destruct (Z.abs_spec n) as [[H ->]|[H ->]].
  - pose proof (rhe_ge n d 0 D ltac:(lia)). lia.
  - rewrite rhe_opp by exact D. pose proof (rhe_le n d 0 D ltac:(lia)). lia.
Qed.

Lemma rhe_sign_nonneg n d : 0 < d -> 0 <= n -> 0 <= rhe n d.
Proof. intros D H. apply rhe_ge; lia. Qed.
Lemma rhe_sign_nonpos n d : 0 < d -> n <= 0 -> rhe n d <= 0.
Proof. intros D H. apply rhe_le; lia. Qed.

(* ---------- zeros after the decimal point ---------- *)
Lemma zeros_spec a b : 0 < a < b ->
  0 <= zeros a b /\ 10 ^ zeros a b * a < b <= 10 ^ (zeros a b + 1) * a.
Proof.
  intros [A B]. unfold zeros.
  pose proof (Z.div_mod (b - 1) a ltac:(lia)) as DM. pose proof (Z.mod_pos_bound (b - 1) a ltac:(lia)) as MB.
  assert (C1 : 1 <= (b - 1) / a) by nia.
  destruct (ndigits_spec _ C1) as [K [KL KU]]. set (k := ndigits ((b - 1) / a)) in *.
  replace (k - 1 + 1) with k by lia. split; [lia|]. nia.
Qed.

Lemma zeros_unique a b k : 0 < a < b -> 0 <= k -> 10 ^ k * a < b <= 10 ^ (k + 1) * a -> zeros a b = k.
Proof.
  intros AB K [L U]. destruct (zeros_spec a b AB) as [Z0 [ZL ZU]]. set (z := zeros a b) in *.
  destruct (Z.lt_trichotomy z k) as [C|[C|C]]; [|exact C|].
  - pose proof (p10_le (z + 1) k ltac:(lia)). nia.
  - pose proof (p10_le (k + 1) z ltac:(lia)). nia.
Qed.

Lemma rhe_tie_up n d L : 0 < d -> 2 * n = (2 * L - 1) * d -> Z.even L = true -> rhe n d = L.
Proof.
  intros D H EV. destruct (rhe_cases n d D) as [E [B C]]. cbv zeta in *.
  set (q := n / d) in *. set (r := n mod d) in *.
  assert (Q : q = L - 1) by nia.
  assert (EQ : Z.even q = false).
  { rewrite Q. replace (L - 1) with (Z.pred L) by lia. rewrite Z.even_pred, <- Z.negb_even, EV. reflexivity. }
  destruct C as [[C1 ->]|[[C1 ->]|[C1 ->]]]; [nia|nia|rewrite EQ; lia].
Qed.

Lemma even_p10 p : 1 <= p -> Z.even (10 ^ p) = true.
Proof. intros P. rewrite Z.even_pow by lia. reflexivity. Qed.

(* ---------- exponent ---------- *)
(* the region where the coded double step exits with exponent 0: 1 - 10^-p / 2 <= a/b < 1 *)
Definition carry_region (a b p : Z) : Prop := a < b /\ (2 * 10 ^ p - 1) * b <= 2 * 10 ^ p * a.

Lemma exponent_ge1 a b p : 0 < b -> b <= a ->
  exponent_ab a b p = ndigits (a / b) - p /\
  1 <= ndigits (a / b) /\ 10 ^ (ndigits (a / b) - 1) * b <= a < 10 ^ ndigits (a / b) * b.
Proof.
  intros B AB. unfold exponent_ab.
  destruct (a =? 0) eqn:E0; [apply Z.eqb_eq in E0; lia|].
  destruct (b <=? a) eqn:E1; [|apply Z.leb_gt in E1; lia].
  split; [reflexivity|].
  pose proof (Z.div_mod a b ltac:(lia)) as DM. pose proof (Z.mod_pos_bound a b ltac:(lia)) as MB.
  assert (C1 : 1 <= a / b) by nia.
  destruct (ndigits_spec _ C1) as [K [KL KU]]. split; [exact K|]. nia.
Qed.

Lemma exponent_lt1 a b p : 0 < a -> a < b -> 1 <= p ->
  let z := zeros a b in let R := rhe (a * 10 ^ (z + p)) b in
  0 <= z /\ 10 ^ z * a < b <= 10 ^ (z + 1) * a /\ 10 ^ (p - 1) <= R <= 10 ^ p /\
  ((R = 10 ^ p /\ z = 0 /\ exponent_ab a b p = 0) \/
   (R = 10 ^ p /\ 0 < z /\ exponent_ab a b p = - (z - 1 + p)) \/
   (R < 10 ^ p /\ exponent_ab a b p = - (z + p))).
Proof.
  intros A AB P z R. destruct (zeros_spec a b (conj A AB)) as [Z0 [ZL ZU]]. fold z in Z0, ZL, ZU.
  split; [exact Z0|]. split; [split; assumption|].
  assert (B : 0 < b) by lia.
  pose proof (p10_pos z Z0) as Pz. pose proof (p10_pos p ltac:(lia)) as Pp.
  pose proof (p10_pos (p - 1) ltac:(lia)) as Pp1.
  assert (Ep : 10 ^ p = 10 * 10 ^ (p - 1)).
  { replace p with ((p - 1) + 1) at 1 by lia. apply p10_S. lia. }
  assert (Ezp : 10 ^ (z + p) = 10 ^ z * 10 ^ p) by (apply p10_add; lia).
  assert (Ez1 : 10 ^ (z + 1) = 10 * 10 ^ z) by (apply p10_S; lia).
  assert (RL : 10 ^ (p - 1) <= R).
  { apply rhe_ge; [exact B|]. rewrite Ezp. nia. }
  assert (RU : R <= 10 ^ p).
  { apply rhe_le; [exact B|]. rewrite Ezp. nia. }
  split; [lia|].
  unfold exponent_ab.
  destruct (a =? 0) eqn:E0; [apply Z.eqb_eq in E0; lia|].
  destruct (b <=? a) eqn:E1; [apply Z.leb_le in E1; lia|].
  fold z. cbv zeta. fold R.
  pose proof (p10_pos (z + p) ltac:(lia)) as Pzp.
  destruct (Z.eq_dec R (10 ^ p)) as [ER|NR].
  - destruct (Z.eq_dec z 0) as [EZ|NZ].
    + left. split; [exact ER|]. split; [exact EZ|].
      rewrite ER, EZ. replace (0 + p) with p by lia. rewrite Z.mod_same by lia. reflexivity.
    + right; left. split; [exact ER|]. split; [lia|].
      assert (LT : 10 ^ p < 10 ^ (z + p)) by (apply p10_lt; lia).
      rewrite Z.mod_small by lia.
      destruct (R =? 0) eqn:ER0; [apply Z.eqb_eq in ER0; lia|].
      rewrite (zeros_unique R (10 ^ (z + p)) (z - 1)); [lia|lia|lia|].
      rewrite ER. replace (z - 1 + 1) with z by lia. rewrite Ezp.
      assert (Ez : 10 ^ z = 10 * 10 ^ (z - 1)).
      { replace z with ((z - 1) + 1) at 1 by lia. apply p10_S. lia. }
      pose proof (p10_pos (z - 1) ltac:(lia)). nia.
  - right; right. split; [lia|].
    assert (LE : 10 ^ p <= 10 ^ (z + p)) by (apply p10_le; lia).
    rewrite Z.mod_small by lia.
    destruct (R =? 0) eqn:ER0; [apply Z.eqb_eq in ER0; lia|].
    rewrite (zeros_unique R (10 ^ (z + p)) z); [lia|lia|lia|].
    rewrite Ez1, Ezp. nia.
Qed.

(* inside the carry region (any p >= 1) the exit "rounded_post_decimal == '0'" is taken: exponent 0 *)
Lemma exponent_carry a b p : 0 < a -> 1 <= p -> carry_region a b p ->
  zeros a b = 0 /\ rhe (a * 10 ^ (0 + p)) b = 10 ^ p /\ exponent_ab a b p = 0.
Proof.
  intros A P [AB CR]. pose proof (p10_pos p ltac:(lia)) as Pp.
  assert (Ep : 10 ^ p = 10 * 10 ^ (p - 1)).
  { replace p with ((p - 1) + 1) at 1 by lia. apply p10_S. lia. }
  pose proof (p10_pos (p - 1) ltac:(lia)) as Pp1.
  assert (Z0 : zeros a b = 0).
  { apply zeros_unique; [lia|lia|]. change (10 ^ 0) with 1. change (10 ^ (0 + 1)) with 10. nia. }
  assert (RR : rhe (a * 10 ^ (0 + p)) b = 10 ^ p).
  { replace (0 + p) with p by lia.
    destruct (Z.eq_dec ((2 * 10 ^ p - 1) * b) (2 * 10 ^ p * a)) as [T|T].
    - apply rhe_tie_up; [lia|lia|apply even_p10; exact P].
    - apply Z.le_antisymm; [apply rhe_le; nia|apply rhe_ge_strict; nia]. }
  split; [exact Z0|]. split; [exact RR|].
  destruct (exponent_lt1 a b p A AB P) as [_ [_ [_ C]]]. cbv zeta in C. rewrite Z0 in C.
  destruct C as [[_ [_ C]]|[[_ [C _]]|[C _]]]; [exact C|lia|lia].
Qed.

(* conversely the exponent-0 exit is only taken inside the carry region *)
Lemma exponent_lt1_zero a b p : 0 < a -> a < b -> 1 <= p ->
  zeros a b = 0 -> rhe (a * 10 ^ (0 + p)) b = 10 ^ p -> carry_region a b p.
Proof.
  intros A AB P Z0 RR. split; [exact AB|].
  replace (0 + p) with p in RR by lia.
  pose proof (rhe_spec (a * 10 ^ p) b ltac:(lia)) as S. rewrite RR in S. lia.
Qed.

(* ---------- mantissa ---------- *)
Definition mant_abs (a b e : Z) : Z := if e <? 0 then rhe (a * 10 ^ (- e)) b else rhe a (b * 10 ^ e).

Lemma mantissa_e_abs x e : Z.abs (mantissa_e x e) = mant_abs (Z.abs (Qnum x)) (Zpos (Qden x)) e.
Proof.
  unfold mantissa_e, mant_abs. destruct (e <? 0) eqn:E.
  - apply Z.ltb_lt in E. rewrite rhe_abs by lia. f_equal.
    pose proof (p10_pos (- e) ltac:(lia)). rewrite Z.abs_mul. f_equal. lia.
  - apply Z.ltb_ge in E. pose proof (p10_pos e E). apply rhe_abs. nia.
Qed.

Lemma mantissa_e_sign x e : (0 <= Qnum x -> 0 <= mantissa_e x e) /\ (Qnum x <= 0 -> mantissa_e x e <= 0).
Proof.
  unfold mantissa_e. destruct (e <? 0) eqn:E.
  - apply Z.ltb_lt in E. pose proof (p10_pos (- e) ltac:(lia)).
    split; intros H0; [apply rhe_sign_nonneg|apply rhe_sign_nonpos]; nia.
  - apply Z.ltb_ge in E. pose proof (p10_pos e E).
    split; intros H0; [apply rhe_sign_nonneg|apply rhe_sign_nonpos]; nia.
Qed.

(* accuracy of the mantissa for ANY exponent: it is the nearest integer to x / 10^e *)
Lemma mantissa_e_accurate x e :
  let n := Qnum x in let d := Zpos (Qden x) in let m := mantissa_e x e in
  if e <? 0 then 2 * Z.abs (m * d - n * 10 ^ (- e)) <= d
  else 2 * Z.abs (m * (d * 10 ^ e) - n) <= d * 10 ^ e.
Proof.
  cbv zeta. unfold mantissa_e. destruct (e <? 0) eqn:E.
  - apply rhe_spec. lia.
  - apply Z.ltb_ge in E. pose proof (p10_pos e E). apply rhe_spec. nia.
Qed.

Lemma mant_range_ge1 a b p : 0 < b -> b <= a -> 1 <= p ->
  10 ^ (p - 1) <= mant_abs a b (exponent_ab a b p) <= 10 ^ p.
Proof.
  intros B AB P. destruct (exponent_ge1 a b p B AB) as [-> [K [KL KU]]].
  set (N := ndigits (a / b)) in *.
  pose proof (p10_pos p ltac:(lia)) as Pp. pose proof (p10_pos (p - 1) ltac:(lia)) as Pp1.
  pose proof (p10_pos (N - 1) ltac:(lia)) as PN1.
  unfold mant_abs. destruct (N - p <? 0) eqn:E.
  - apply Z.ltb_lt in E. replace (- (N - p)) with (p - N) by lia.
    pose proof (p10_pos (p - N) ltac:(lia)) as PpN.
    assert (E1 : 10 ^ (p - 1) = 10 ^ (N - 1) * 10 ^ (p - N)).
    { rewrite <- p10_add by lia. f_equal. lia. }
    assert (E2 : 10 ^ p = 10 ^ N * 10 ^ (p - N)).
    { rewrite <- p10_add by lia. f_equal. lia. }
    split; [apply rhe_ge; [exact B|] | apply rhe_le; [exact B|]].
    + rewrite E1. nia.
    + rewrite E2. nia.
  - apply Z.ltb_ge in E. pose proof (p10_pos (N - p) ltac:(lia)) as PNp.
    assert (E1 : 10 ^ (N - 1) = 10 ^ (p - 1) * 10 ^ (N - p)).
    { rewrite <- p10_add by lia. f_equal. lia. }
    assert (E2 : 10 ^ N = 10 ^ p * 10 ^ (N - p)).
    { rewrite <- p10_add by lia. f_equal. lia. }
    split; [apply rhe_ge; [nia|] | apply rhe_le; [nia|]].
    + rewrite E1 in KL. nia.
    + rewrite E2 in KU. nia.
Qed.

Lemma mant_range_lt1 a b p : 0 < a -> a < b -> 1 <= p -> ~ (2 <= p /\ carry_region a b p) ->
  10 ^ (p - 1) <= mant_abs a b (exponent_ab a b p) <= 10 ^ p.
Proof.
  intros A AB P ND. destruct (exponent_lt1 a b p A AB P) as [Z0 [[ZL ZU] [[RL RU] C]]]. cbv zeta in *.
  set (z := zeros a b) in *. set (R := rhe (a * 10 ^ (z + p)) b) in *.
  assert (B : 0 < b) by lia.
  pose proof (p10_pos z Z0) as Pz. pose proof (p10_pos p ltac:(lia)) as Pp.
  pose proof (p10_pos (p - 1) ltac:(lia)) as Pp1.
  assert (Ep : 10 ^ p = 10 * 10 ^ (p - 1)).
  { replace p with ((p - 1) + 1) at 1 by lia. apply p10_S. lia. }
  assert (Ezp : 10 ^ (z + p) = 10 ^ z * 10 ^ p) by (apply p10_add; lia).
  unfold mant_abs.
  destruct C as [[ER [EZ ->]]|[[ER [NZ ->]]|[LR ->]]].
  - (* exponent-0 exit: only harmless for p = 1 *)
    assert (CR : carry_region a b p).
    { apply exponent_lt1_zero; try assumption. unfold R in ER. rewrite EZ in ER. exact ER. }
    assert (P1 : p = 1) by (destruct (Z.eq_dec p 1); [assumption|exfalso; apply ND; split; [lia|exact CR]]).
    subst p. change (10 ^ (1 - 1)) with 1. change (10 ^ 1) with 10 in *. simpl (0 <? 0).
    change (10 ^ 0) with 1. destruct CR as [_ CR].
    split; [apply rhe_ge_strict; lia|]. apply Z.le_trans with 1; [apply rhe_le; lia|lia].
  - destruct (- (z - 1 + p) <? 0) eqn:E; [|apply Z.ltb_ge in E; lia].
    replace (- - (z - 1 + p)) with (z - 1 + p) by lia.
    assert (Ez : 10 ^ z = 10 * 10 ^ (z - 1)).
    { replace z with ((z - 1) + 1) at 1 by lia. apply p10_S. lia. }
    pose proof (p10_pos (z - 1) ltac:(lia)) as Pz1.
    assert (Ezp1 : 10 ^ (z - 1 + p) = 10 ^ (z - 1) * 10 ^ p) by (apply p10_add; lia).
    pose proof (rhe_spec (a * 10 ^ (z + p)) b B) as S. fold R in S. rewrite ER, Ezp in S.
    split.
    + apply rhe_ge_strict; [exact B|]. rewrite Ezp1. nia.
    + apply Z.le_trans with (10 ^ (p - 1)); [|lia]. apply rhe_le; [exact B|]. rewrite Ezp1. nia.
  - destruct (- (z + p) <? 0) eqn:E; [|apply Z.ltb_ge in E; lia].
    replace (- - (z + p)) with (z + p) by lia. fold R. lia.
Qed.

Lemma mant_carry a b p : 0 < a -> 1 <= p -> carry_region a b p ->
  exponent_ab a b p = 0 /\ mant_abs a b 0 = 1.
Proof.
  intros A P CR. destruct (exponent_carry a b p A P CR) as [_ [_ E]]. split; [exact E|].
  destruct CR as [AB CR]. pose proof (p10_pos p ltac:(lia)) as Pp.
  assert (Ep : 10 ^ p = 10 * 10 ^ (p - 1)).
  { replace p with ((p - 1) + 1) at 1 by lia. apply p10_S. lia. }
  pose proof (p10_pos (p - 1) ltac:(lia)) as Pp1.
  unfold mant_abs. simpl (0 <? 0). change (10 ^ 0) with 1.
  apply Z.le_antisymm; [apply rhe_le; lia|apply rhe_ge_strict; nia].
Qed.

(* ---------- statements over Q ---------- *)
(* 10^e as a rational, e any integer *)
Definition Qpow10 (e : Z) : Q := if e <? 0 then 1 # Z.to_pos (10 ^ (- e)) else inject_Z (10 ^ e).

Lemma Qpow10_Qpower e : (Qpow10 e == (10 # 1) ^ e)%Q.
Proof.
  unfold Qpow10. destruct (e <? 0) eqn:E.
  - apply Z.ltb_lt in E. destruct e as [|q|q]; try lia.
    change (- Z.neg q) with (Z.pos q). simpl Qpower. rewrite Qpower_decomp_positive.
    rewrite PosExtra.Pos_pow_1_r. pose proof (p10_pos (Z.pos q) ltac:(lia)) as H.
    destruct (10 ^ Z.pos q) as [|a|a]; try lia. reflexivity.
  - apply Z.ltb_ge in E. apply (Zpower_Qpower 10 e E).
Qed.

Lemma Qpow10_pos e : (0 < Qpow10 e)%Q.
Proof.
  unfold Qpow10. destruct (e <? 0) eqn:E.
  - reflexivity.
  - apply Z.ltb_ge in E. pose proof (p10_pos e E). unfold Qlt; simpl. lia.
Qed.

Lemma acc_Q (m e : Z) (x : Q) :
  (if e <? 0 then 2 * Z.abs (m * Zpos (Qden x) - Qnum x * 10 ^ (- e)) <= Zpos (Qden x)
   else 2 * Z.abs (m * (Zpos (Qden x) * 10 ^ e) - Qnum x) <= Zpos (Qden x) * 10 ^ e) ->
  (Qabs (inject_Z m * Qpow10 e - x) <= Qpow10 e / 2)%Q.
Proof.
  destruct x as [n d]. unfold Qpow10. simpl Qnum. simpl Qden. destruct (e <? 0) eqn:E; intros H.
  - apply Z.ltb_lt in E. pose proof (p10_pos (- e) ltac:(lia)) as PT.
    set (T := 10 ^ (- e)) in *.
    apply Qabs_Qle_condition. unfold Qle, Qminus, Qplus, Qopp, Qmult, Qdiv, Qinv, inject_Z. simpl.
    rewrite !Pos2Z.inj_mul, !Z2Pos.id by lia. split; nia.
  - apply Z.ltb_ge in E. pose proof (p10_pos e E) as PT. set (T := 10 ^ e) in *.
    apply Qabs_Qle_condition. unfold Qle, Qminus, Qplus, Qopp, Qmult, Qdiv, Qinv, inject_Z. simpl.
    rewrite ?Pos2Z.inj_mul. split; nia.
Qed.

(* the region 1 - 10^-p / 2 <= |x| < 1 *)
Definition carry_region_Q (x : Q) (p : Z) : Prop := (1 - Qpow10 (- p) / 2 <= Qabs x)%Q /\ (Qabs x < 1)%Q.

Lemma carry_region_Q_iff x p : 1 <= p ->
  carry_region_Q x p <-> carry_region (Z.abs (Qnum x)) (Zpos (Qden x)) p.
Proof.
  intros P. destruct x as [n d]. unfold carry_region_Q, carry_region, Qpow10. simpl Qnum. simpl Qden.
  destruct (- p <? 0) eqn:E; [|apply Z.ltb_ge in E; lia].
  replace (- - p) with p by lia. pose proof (p10_pos p ltac:(lia)) as PT.
  assert (HT : Z.pos (Z.to_pos (10 ^ p)) = 10 ^ p) by (apply Z2Pos.id; lia).
  set (t := Z.to_pos (10 ^ p)) in *. rewrite <- HT. clearbody t.
  unfold Qle, Qlt, Qminus, Qplus, Qopp, Qdiv, Qinv, Qabs, inject_Z. cbn [Qnum Qden Qmult].
  rewrite ?Pos2Z.inj_mul. split; intros [H1 H2]; split; nia.
Qed.

Lemma Qnum_zero x : ~ (x == 0)%Q -> 0 < Z.abs (Qnum x).
Proof. destruct x as [n d]. unfold Qeq. simpl. lia. Qed.

Theorem exponent_mantissa_accurate x p :
  (Qabs (inject_Z (mantissa x p) * Qpow10 (exponent x p) - x) <= Qpow10 (exponent x p) / 2)%Q.
Proof. apply acc_Q. apply (mantissa_e_accurate x (exponent x p)). Qed.

Theorem mantissa_range x p : ~ (x == 0)%Q -> 1 <= p -> ~ (2 <= p /\ carry_region_Q x p) ->
  10 ^ (p - 1) <= Z.abs (mantissa x p) <= 10 ^ p.
Proof.
  intros X P ND. unfold mantissa. rewrite mantissa_e_abs. unfold exponent.
  pose proof (Qnum_zero x X) as A. set (a := Z.abs (Qnum x)) in *.
  assert (B : 0 < Zpos (Qden x)) by lia.
  assert (ND' : ~ (2 <= p /\ carry_region a (Zpos (Qden x)) p)).
  { intros [P2 CR]. apply ND. split; [exact P2|]. apply carry_region_Q_iff; assumption. }
  destruct (Z_le_gt_dec (Zpos (Qden x)) a) as [C|C].
  - apply mant_range_ge1; lia.
  - apply mant_range_lt1; [lia|lia|lia|exact ND'].
Qed.

Theorem mantissa_sign x p : ~ (x == 0)%Q -> 1 <= p -> ~ (2 <= p /\ carry_region_Q x p) ->
  ((0 < x)%Q -> 0 < mantissa x p) /\ ((x < 0)%Q -> mantissa x p < 0).
Proof.
  intros X P ND. pose proof (mantissa_range x p X P ND) as [L _].
  pose proof (p10_pos (p - 1) ltac:(lia)) as P1.
  destruct (mantissa_e_sign x (exponent x p)) as [S1 S2]. fold (mantissa x p) in S1, S2.
  destruct x as [n d]. unfold Qlt. simpl in *. split; intros H; lia.
Qed.

(* inside the region, for every p >= 1: exponent 0 and a one-digit mantissa *)
Theorem carry_defect x p : 1 <= p -> carry_region_Q x p ->
  exponent x p = 0 /\ Z.abs (mantissa x p) = 1.
Proof.
  intros P CR. apply carry_region_Q_iff in CR; [|exact P].
  assert (A : 0 < Z.abs (Qnum x)).
  { destruct CR as [C1 C2]. pose proof (p10_pos p ltac:(lia)). nia. }
  destruct (mant_carry _ _ p A P CR) as [E M]. unfold mantissa. rewrite mantissa_e_abs.
  unfold exponent. rewrite E. split; [reflexivity|exact M].
Qed.
