(* Theory/SaveLoadThm.v — facts about Model/SaveLoad.v (the statements collected in Properties/C15.v). *)
From Coq Require Import List Bool NArith ZArith Arith String Lia Field Ring.
From CC Require Import Theory.Field Theory.Complex Theory.Labels Model.Network Model.Circuit Model.Loaders Theory.LoadersThm
  Model.SaveLoad.
Import ListNotations.

Section SaveLoadThm.
Variable R : fops.
Hypothesis ROK : fops_ok R.
Variable pi : R.
Add Field RfieldSL : (Kth R ROK).
Notation C := (Cx R).
Notation jv := (jval R).
Notation kwargs := (dict (jval R)).
Notation symbol := (symbol R).
Notation tcomp := (tcomp R).

(* ---------- dictionaries ---------- *)
Lemma dget_update {A} (v : dict A) : forall (d : dict A) k,
  dget (update d v) k = match dget (rev v) k with Some x => Some x | None => dget d k end.
Proof.
  unfold update. induction v as [|[a b] v IH]; intros d k; [reflexivity|].
  cbn [fold_left fst snd rev]. rewrite IH, dget_app, dget_dset. cbn [dget].
  destruct (dget (rev v) k); [reflexivity|]. destruct (label_eqb a k); reflexivity.
Qed.

Lemma dget_nodup {A} (l : dict A) k v : NoDup (map fst l) -> In (k, v) l -> dget l k = Some v.
Proof.
  induction l as [|[a b] l IH]; intros ND H; [contradiction|]. cbn [dget]. cbn [map fst] in ND.
  inversion ND as [|? ? NI ND']; subst. destruct H as [H|H].
  - inversion H; subst. rewrite label_eqb_refl. reflexivity.
  - destruct (label_eqb_spec a k) as [->|N]; [|apply IH; assumption].
    exfalso. apply NI. change k with (fst (k, v)). apply in_map. exact H.
Qed.

Lemma flag_clear_deg (k : kwargs) : flag R (clear_flags R k) q_deg = Ok false.
Proof.
  unfold clear_flags, clear_flag, flag, dhas.
  destruct (dget k q_deg) eqn:E1.
  - destruct (dget (dset k q_deg (JBool false)) q_sin) eqn:E2.
    + rewrite dget_dset. change (label_eqb q_sin q_deg) with false. cbv iota. rewrite dget_dset.
      change (label_eqb q_deg q_deg) with true. reflexivity.
    + rewrite dget_dset. change (label_eqb q_deg q_deg) with true. reflexivity.
  - destruct (dget k q_sin) eqn:E2.
    + rewrite dget_dset. change (label_eqb q_sin q_deg) with false. cbv iota. rewrite E1. reflexivity.
    + rewrite E1. reflexivity.
Qed.
Lemma flag_clear_sin (k : kwargs) : flag R (clear_flags R k) q_sin = Ok false.
Proof.
  unfold clear_flags, clear_flag, flag, dhas.
  destruct (dget k q_deg) eqn:E1.
  - destruct (dget (dset k q_deg (JBool false)) q_sin) eqn:E2.
    + rewrite dget_dset. change (label_eqb q_sin q_sin) with true. reflexivity.
    + rewrite E2. reflexivity.
  - destruct (dget k q_sin) eqn:E2.
    + rewrite dget_dset. change (label_eqb q_sin q_sin) with true. reflexivity.
    + rewrite E2. reflexivity.
Qed.
Lemma dget_clear_other (k : kwargs) x : label_eqb q_deg x = false -> label_eqb q_sin x = false ->
  dget (clear_flags R k) x = dget k x.
Proof.
  intros H1 H2. unfold clear_flags, clear_flag.
  destruct (dhas k q_deg); destruct (dhas _ q_sin); rewrite ?dget_dset, ?H1, ?H2; reflexivity.
Qed.

(* ---------- negation twice ---------- *)
Lemma opp_opp (x : R) : fopp R (fopp R x) = x.
Proof. ring. Qed.
Lemma copp_copp (z : C) : fopp C (fopp C z) = z.
Proof. destruct z as [a b]. cbn. unfold cxopp. cbn. f_equal; ring. Qed.

Definition cls_ok (c : scls) : Prop := match c with COther _ => False | _ => True end.

Arguments update : simpl never.
Arguments dset : simpl never.
Arguments ddel : simpl never.
Arguments clear_flags : simpl never.
Arguments ser_dict : simpl never.
Arguments mk_user : simpl never.

(* take a successful translation apart: every attribute it read is there and has the right shape *)
Ltac crack H :=
  repeat (cbn [bind] in H;
    match type of H with
    | context [match dget ?d ?k with _ => _ end] =>
        let E := fresh "EA" in destruct (dget d k) eqn:E; [|discriminate H]
    | context [match as_num R ?v with _ => _ end] =>
        let E := fresh "EN" in destruct (as_num R v) eqn:E; [|discriminate H]
    | context [match ?j with JNull => _ | _ => _ end] => is_var j; destruct j; try discriminate H
    end).
Ltac kwget := repeat (rewrite ?dget_update, ?dget_ddel, ?dget_dset; cbn).
Ltac unf_tr := unfold translate, passive, phase_of, getattr, mk, cplx, num, truth, plain_nodes, src_nodes, sgn, sgnc in *.

Lemma load_save_symbol cd (s : symbol) :
  cls_ok (s_cls s) ->
  (forall c, translate R pi s = Ok (Some c) -> dget cd (pname R s) = Some (t_vals c)) ->
  (translate R pi s = Ok None -> dget cd (pname R s) = None) ->
  (exists r, translate R pi s = Ok r) ->
  exists s', load_symbol R pi true cd (save_symbol R s) = Ok s' /\ view_of R pi s' = view_of R pi s.
Proof.
  destruct s as [c nm rv at_ u ps pe]. intros OK H1 H2 [r Hr]. rewrite Hr in H1, H2.
  destruct c; try contradiction; unf_tr; cbn [s_cls s_attr s_name s_reverse s_start s_end pname] in *.
  (* passive one-value classes *)
  1,2,5,6: crack Hr; injection Hr as <-; specialize (H1 _ eq_refl); cbn [t_vals] in H1; clear H2;
    unfold load_symbol, save_symbol; cbn; rewrite H1; cbn;
    unfold construct, flag, ctor_name, str_req, attrs_of, one_attr, arg; kwget;
    eexists; (split; [reflexivity|]);
    unfold view_of; unf_tr; cbn; rewrite <- !surjective_pairing;
    repeat match goal with E : dget _ _ = Some _ |- _ => rewrite E end; reflexivity.
  (* admittance: not translatable *)
  2: discriminate Hr.
  (* lines and generic elements: no component *)
  11,12: injection Hr as <-; specialize (H2 eq_refl); clear H1;
    unfold load_symbol, save_symbol; cbn; rewrite H2; cbn;
    unfold construct, flag, ctor_name, str_or, attrs_of; kwget;
    eexists; (split; [reflexivity|]); unfold view_of; unf_tr; cbn; rewrite <- !surjective_pairing; reflexivity.
  all: crack Hr; injection Hr as <-; specialize (H1 _ eq_refl); cbn [t_vals] in H1; clear H2;
    unfold load_symbol, save_symbol; cbn; rewrite H1; cbn.
  all: unfold SaveLoad.combine; kwget;
    unfold construct, ctor_name, str_req, str_or, attrs_of, one_attr, amp_attr, src_attrs, arg;
    rewrite ?flag_clear_sin, ?flag_clear_deg; unfold flag; rewrite ?dget_clear_other by reflexivity; kwget.
  all: destruct rv; cbn; eexists; (split; [reflexivity|]);
    unfold view_of; unf_tr; cbn; rewrite <- ?surjective_pairing;
    repeat (match goal with E : _ = Some _ |- _ => rewrite E end; cbn);
    cbn; rewrite ?opp_opp, ?copp_copp; try reflexivity.
Qed.

Lemma translate_id (s : symbol) c : translate R pi s = Ok (Some c) -> t_id c = pname R s /\ s_cls s <> CLine.
Proof.
  destruct s as [cl nm rv at_ u ps pe]. intros H.
  destruct cl; unf_tr; cbn [s_cls s_attr s_name s_reverse s_start s_end pname] in *;
    try discriminate H; crack H; injection H as <-; split; try reflexivity; discriminate.
Qed.

(* ---------- whole drawings ---------- *)
Notation view := (view R).
Fixpoint comps_of_views (vs : list view) : res (list tcomp) :=
  match vs with
  | [] => Ok []
  | v :: r => bind (v_comp R v) (fun c => bind (comps_of_views r) (fun cs =>
              Ok (match c with Some x => x :: cs | None => cs end)))
  end.
Lemma components_views (d : list symbol) : components R pi d = comps_of_views (map (view_of R pi) d).
Proof. induction d as [|s d IH]; [reflexivity|]. cbn [components map comps_of_views view_of v_comp]. rewrite IH. reflexivity. Qed.

(* the drawings the round-trip statement is about, as a condition on what is compared *)
Definition good (vs : list view) : Prop :=
  Forall (fun v => cls_ok (v_cls R v)) vs /\
  exists cs, comps_of_views vs = Ok cs /\ NoDup (map t_id cs) /\
    Forall (fun v => v_comp R v = Ok None -> ~ In (v_name R v) (map t_id cs)) vs.


Lemma good_iff (vs : list view) :
  good vs <->
  (Forall (fun v => match v_cls R v with COther _ => False | _ => True end) vs /\
   exists cs, comps_of_views vs = Ok cs /\ NoDup (map t_id cs) /\
     Forall (fun v => v_comp R v = Ok None -> ~ In (v_name R v) (map t_id cs)) vs).
Proof. reflexivity. Qed.
Lemma cycle_unfold (d : list symbol) : cycle R pi d = bind (save R pi d) (load R pi).
Proof. reflexivity. Qed.

Definition pairs_of (cs : list tcomp) : dict kwargs := map (fun c => (t_id c, t_vals c)) cs.

Lemma read_save_comps (cs : list tcomp) : mapR (read_comp R) (map (save_comp R) cs) = Ok (pairs_of cs).
Proof. induction cs as [|c cs IH]; [reflexivity|]. cbn [map mapR]. unfold read_comp at 1, save_comp at 1. cbn.
  rewrite IH. reflexivity. Qed.

Lemma cd_hit (cs : list tcomp) c : NoDup (map t_id cs) -> In c cs ->
  dget (update [] (pairs_of cs)) (t_id c) = Some (t_vals c).
Proof.
  intros ND H. rewrite dget_update.
  rewrite (dget_nodup (rev (pairs_of cs)) (t_id c) (t_vals c)); [reflexivity| |].
  - rewrite map_rev. apply NoDup_rev. unfold pairs_of. rewrite map_map. exact ND.
  - apply -> in_rev. unfold pairs_of. apply (in_map (fun c => (t_id c, t_vals c))). exact H.
Qed.
Lemma cd_miss (cs : list tcomp) k : ~ In k (map t_id cs) -> dget (update [] (pairs_of cs)) k = None.
Proof.
  intros H. rewrite dget_update. cbn [dget].
  destruct (dget (rev (pairs_of cs)) k) eqn:E; [|reflexivity]. exfalso. apply H.
  apply dget_Some_In in E. apply in_rev in E. unfold pairs_of in E. apply in_map_iff in E.
  destruct E as [c [E1 E2]]. inversion E1; subst. apply in_map. exact E2.
Qed.

Lemma comps_in (vs : list view) cs : comps_of_views vs = Ok cs ->
  forall v, In v vs -> (exists r, v_comp R v = Ok r) /\ (forall c, v_comp R v = Ok (Some c) -> In c cs).
Proof.
  revert cs. induction vs as [|v0 vs IH]; intros cs H v HI; [contradiction|].
  cbn [comps_of_views] in H. destruct (v_comp R v0) as [r0|] eqn:E0; [|discriminate]. cbn [bind] in H.
  destruct (comps_of_views vs) as [cs0|] eqn:E1; [|discriminate]. cbn [bind] in H. injection H as <-.
  destruct HI as [->|HI].
  - split; [eexists; exact E0|]. intros c Hc. rewrite E0 in Hc. injection Hc as ->. left. reflexivity.
  - destruct (IH cs0 eq_refl v HI) as [A B]. split; [exact A|]. intros c Hc. specialize (B c Hc).
    destruct r0; [right|]; exact B.
Qed.

Theorem cycle_preserves (d : list symbol) : good (map (view_of R pi) d) ->
  exists d', cycle R pi d = Ok d' /\ map (view_of R pi) d' = map (view_of R pi) d.
Proof.
  intros [CL [cs [HC [ND MISS]]]].
  unfold cycle, save. rewrite components_views, HC. cbn [bind].
  unfold load, load_gen, circuit_dict. cbn. rewrite read_save_comps. cbn [bind].
  set (cd := update [] (pairs_of cs)).
  assert (G : forall l : list symbol, (forall s, In s l -> In (view_of R pi s) (map (view_of R pi) d)) ->
              exists l', mapR (load_symbol R pi true cd) (map (save_symbol R) l) = Ok l' /\
                         map (view_of R pi) l' = map (view_of R pi) l).
  { induction l as [|s l IH]; intros HL; [exists []; split; reflexivity|].
    assert (HS := HL s (or_introl eq_refl)).
    destruct (comps_in _ _ HC _ HS) as [[r Hr] HIn].
    destruct (load_save_symbol cd s) as [s' [E1 E2]].
    - rewrite Forall_forall in CL. exact (CL _ HS).
    - intros c Hc. destruct (translate_id s c Hc) as [Hid _]. rewrite <- Hid. apply cd_hit; [exact ND|].
      apply HIn. exact Hc.
    - intros Hn. apply cd_miss. rewrite Forall_forall in MISS. exact (MISS _ HS Hn).
    - exists r. exact Hr.
    - destruct IH as [l' [F1 F2]]. { intros x Hx. apply HL. right. exact Hx. }
      exists (s' :: l'). cbn [map mapR]. rewrite E1, F1. split; [reflexivity|]. cbn [map]. rewrite E2, F2. reflexivity. }
  destruct (G d) as [d' [E1 E2]]. { intros s Hs. apply in_map. exact Hs. }
  exists d'. split; [exact E1|exact E2].
Qed.

Theorem cycles_preserve (n : nat) : forall d : list symbol, good (map (view_of R pi) d) ->
  exists d', cycles R pi n d = Ok d' /\ map (view_of R pi) d' = map (view_of R pi) d.
Proof.
  induction n as [|n IH]; intros d G.
  - exists d. split; reflexivity.
  - destruct (cycle_preserves d G) as [d1 [E1 V1]]. cbn [cycles]. rewrite E1. cbn [bind].
    destruct (IH d1) as [d2 [E2 V2]]. { rewrite V1. exact G. }
    exists d2. split; [exact E2|]. rewrite V2. exact V1.
Qed.

(* ---------- a class the loader table does not know ---------- *)
Definition not_in_table (t : option label) : Prop := match t with Some x => tlook element_types x = None | None => True end.

Lemma unknown_kind_generic (fixed : bool) cd (s s' : symbol) t :
  s_cls s = COther t -> not_in_table t ->
  load_symbol R pi fixed cd (save_symbol R s) = Ok s' -> s_cls s' = CElement /\ translate R pi s' = Ok None.
Proof.
  destruct s as [c nm rv at_ u ps pe]. cbn [s_cls]. intros -> NT H.
  unfold load_symbol, save_symbol in H. cbn in H.
  assert (E : match jopt R t with
              | JStr t0 => match tlook element_types t0 with Some c => c | None => CElement end
              | _ => CElement end = CElement).
  { destruct t as [x|]; cbn in *; [rewrite NT|]; reflexivity. }
  cbn in E. rewrite E in H. cbn [pre_ctor bind] in H. unfold construct in H.
  repeat match type of H with bind ?m _ = _ => destruct m; cbn [bind] in H; [|discriminate H] end.
  injection H as <-. split; reflexivity.
Qed.
Lemma unknown_kind_loads (fixed : bool) cd (s : symbol) t :
  s_cls s = COther t -> not_in_table t -> dget cd (s_name s) = None ->
  exists s', load_symbol R pi fixed cd (save_symbol R s) = Ok s'.
Proof.
  destruct s as [c nm rv at_ u ps pe]. cbn [s_cls s_name]. intros -> NT H.
  unfold load_symbol, save_symbol. cbn. rewrite H.
  assert (E : match jopt R t with
              | JStr t0 => match tlook element_types t0 with Some c => c | None => CElement end
              | _ => CElement end = CElement).
  { destruct t as [x|]; cbn in *; [rewrite NT|]; reflexivity. }
  cbn in E. rewrite E. cbn. unfold construct, flag, ctor_name, str_or, attrs_of. kwget. eexists. reflexivity.
Qed.

(* ---------- a checker for [good] ---------- *)
Definition cls_okb (c : scls) : bool := match c with COther _ => false | _ => true end.
Definition goodb (vs : list view) : bool :=
  forallb (fun v => cls_okb (v_cls R v)) vs &&
  match comps_of_views vs with
  | Ok cs => negb (has_dup (map t_id cs)) &&
             forallb (fun v => match v_comp R v with Ok None => negb (lmem (v_name R v) (map t_id cs)) | _ => true end) vs
  | Err _ => false
  end.
Lemma goodb_ok (vs : list view) : goodb vs = true -> good vs.
Proof.
  unfold goodb, good. intros H. apply andb_true_iff in H. destruct H as [H1 H2]. split.
  - apply Forall_forall. intros v Hv. rewrite forallb_forall in H1. specialize (H1 v Hv).
    destruct (v_cls R v); try exact I. discriminate H1.
  - destruct (comps_of_views vs) as [cs|]; [|discriminate H2]. exists cs. split; [reflexivity|].
    apply andb_true_iff in H2. destruct H2 as [H2 H3]. split.
    + apply has_dup_false. destruct (has_dup (map t_id cs)); [discriminate H2|reflexivity].
    + apply Forall_forall. intros v Hv E. rewrite forallb_forall in H3. specialize (H3 v Hv). rewrite E in H3.
      apply lmem_false. destruct (lmem (v_name R v) (map t_id cs)); [discriminate H3|reflexivity].
Qed.

(* ================= declarative = programmatic ================= *)
Notation placed := (placed R).
Notation delem := (delem R).
Notation pview := (pview R).

Definition nonlayout (k : label) : Prop := lmem k layout_keys = false.

Lemma dget_entry (e : delem) k : nonlayout k -> dget (entry_dict R e) k = dget (e_vals R e) k.
Proof.
  unfold nonlayout, layout_keys. cbn [lmem existsb]. intros H.
  apply orb_false_iff in H. destruct H as [H1 H]. apply orb_false_iff in H. destruct H as [H2 H].
  apply orb_false_iff in H. destruct H as [H3 H]. apply orb_false_iff in H. destruct H as [H4 _].
  unfold entry_dict. cbn [dget]. rewrite (label_eqb_sym q_type k), H1. rewrite !dget_app.
  destruct (dget (e_vals R e) k); [reflexivity|].
  destruct (e_dir R e); cbn [dget]; rewrite ?(label_eqb_sym q_direction k), ?H2;
  destruct (e_len R e); cbn [dget]; rewrite ?(label_eqb_sym q_length k), ?H3;
  destruct (e_after R e); cbn [dget]; rewrite ?(label_eqb_sym q_place_after k), ?H4; reflexivity.
Qed.

Lemma with_defaults_ext (d d' : kwargs) : (forall k, nonlayout k -> dget d k = dget d' k) ->
  forall k, nonlayout k -> dget (with_defaults R d) k = dget (with_defaults R d') k.
Proof.
  intros H k Hk. unfold with_defaults, dhas.
  assert (N1 : nonlayout q_name) by reflexivity. assert (N2 : nonlayout q_reverse) by reflexivity.
  rewrite <- (H q_name N1).
  destruct (dget d q_name) eqn:E1.
  - rewrite <- (H q_reverse N2). destruct (dget d q_reverse) eqn:E2; [apply H; exact Hk|].
    rewrite !dget_dset. destruct (label_eqb q_reverse k); [reflexivity|apply H; exact Hk].
  - rewrite !dget_dset. change (label_eqb q_name q_reverse) with false. cbv iota. rewrite <- (H q_reverse N2).
    destruct (dget d q_reverse) eqn:E2.
    + rewrite !dget_dset. destruct (label_eqb q_name k); [reflexivity|apply H; exact Hk].
    + rewrite !dget_dset. destruct (label_eqb q_reverse k); [reflexivity|].
      destruct (label_eqb q_name k); [reflexivity|apply H; exact Hk].
Qed.

Lemma attrs_of_ext (c : scls) (kw kw' : kwargs) rev : (forall k, nonlayout k -> dget kw k = dget kw' k) ->
  attrs_of R pi c kw rev = attrs_of R pi c kw' rev.
Proof.
  intros H. destruct c; unfold attrs_of, one_attr, amp_attr, src_attrs, arg, flag;
    rewrite ?(H q_R eq_refl), ?(H q_G eq_refl), ?(H q_C eq_refl), ?(H q_L eq_refl), ?(H q_Z eq_refl), ?(H q_Y eq_refl),
            ?(H q_V eq_refl), ?(H q_I eq_refl), ?(H q_w eq_refl), ?(H q_phi eq_refl), ?(H q_sin eq_refl), ?(H q_deg eq_refl);
    reflexivity.
Qed.

Lemma new_pview (c : scls) (e : delem) (a b : point R) :
  pview_of R pi {| pl_cls := c; pl_kw := with_defaults R (entry_dict R e); pl_start := a; pl_end := b |}
  = pview_of R pi {| pl_cls := c; pl_kw := with_defaults R (e_vals R e); pl_start := a; pl_end := b |}.
Proof.
  assert (H : forall k, nonlayout k -> dget (with_defaults R (entry_dict R e)) k = dget (with_defaults R (e_vals R e)) k).
  { apply with_defaults_ext. intros k Hk. apply dget_entry. exact Hk. }
  unfold pview_of, pl_name, kw_name, flag. cbn [pl_cls pl_kw pl_start pl_end].
  rewrite (H q_name eq_refl), (H q_reverse eq_refl).
  destruct (dget (with_defaults R (e_vals R e)) q_reverse) as [[]|]; cbn [bind]; try reflexivity;
    rewrite (attrs_of_ext c _ _ _ H); reflexivity.
Qed.

Lemma find_placed_index (done : list placed) a :
  find_placed R done a = match index_name (map (pl_name R) done) a with Some i => nth_error done i | None => None end.
Proof.
  induction done as [|p done IH]; [reflexivity|]. cbn [find_placed map index_name].
  destruct (label_eqb (pl_name R p) a); [reflexivity|]. rewrite IH.
  destruct (index_name (map (pl_name R) done) a); reflexivity.
Qed.

Lemma views_names (d1 d2 : list placed) : map (pview_of R pi) d1 = map (pview_of R pi) d2 ->
  map (pl_name R) d1 = map (pl_name R) d2 /\ map (pl_end R) d1 = map (pl_end R) d2.
Proof.
  intros H. split.
  - assert (E : forall d, map (pl_name R) d = map (pv_name R) (map (pview_of R pi) d)).
    { intros d. rewrite map_map. reflexivity. }
    rewrite !E, H. reflexivity.
  - assert (E : forall d, map (pl_end R) d = map (pv_end R) (map (pview_of R pi) d)).
    { intros d. rewrite map_map. reflexivity. }
    rewrite !E, H. reflexivity.
Qed.

Lemma nth_views (d1 d2 : list placed) i p : map (pview_of R pi) d1 = map (pview_of R pi) d2 ->
  nth_error d1 i = Some p -> exists p', nth_error d2 i = Some p' /\ pl_end R p' = pl_end R p.
Proof.
  intros H Hp. assert (E := map_nth_error (pview_of R pi) i d1 Hp). rewrite H in E.
  rewrite nth_error_map in E. destruct (nth_error d2 i) as [p'|]; [|discriminate E]. cbn in E.
  exists p'. split; [reflexivity|].
  apply (f_equal (fun o => match o with Some v => pv_end R v | None => pl_end R p end)) in E. cbn in E. exact E.
Qed.

Theorem declarative_is_programmatic (unit_ : R) (origin : point R) : forall (es : list delem) (done_d done_p rd : list placed),
  map (pview_of R pi) done_d = map (pview_of R pi) done_p ->
  build_decl R unit_ origin done_d es = Ok rd ->
  exists ss rp, equivalent_program R unit_ (map (pl_name R) done_p) es = Ok ss /\
    build_prog R origin done_p ss = Ok rp /\ map (pview_of R pi) rd = map (pview_of R pi) rp.
Proof.
  induction es as [|e es IH]; intros done_d done_p rd V H.
  - cbn in H. injection H as <-. exists [], done_p. split; [reflexivity|]. split; [reflexivity|exact V].
  - cbn [build_decl] in H. destruct (place_decl R unit_ origin done_d e) as [p|] eqn:EP; [|discriminate H].
    cbn [bind] in H. unfold place_decl in EP.
    destruct (views_names _ _ V) as [VN VE].
    cbn [equivalent_program]. unfold equivalent_step.
    destruct (element_handlers R (e_type R e) (e_vals R e)) as [c|] eqn:EH; [|discriminate EP].
    set (len := fmul R match e_len R e with Some l => l | None => f1 R end unit_) in *.
    (* the start point *)
    assert (ST : exists start at_,
              match e_after R e with
              | None => Ok (last_end R done_d origin)
              | Some a => match find_placed R done_d a with Some p => Ok (pl_end R p) | None => Err EValue end
              end = Ok start /\
              match e_after R e with
              | None => Ok None
              | Some a => match index_name (map (pl_name R) done_p) a with Some i => Ok (Some i) | None => Err EValue end
              end = Ok at_ /\
              match at_ with
              | None => Ok (last_end R done_p origin)
              | Some i => match nth_error done_p i with Some p => Ok (pl_end R p) | None => Err EIndex end
              end = Ok start).
    { destruct (e_after R e) as [a|].
      - rewrite find_placed_index, VN in *.
        destruct (index_name (map (pl_name R) done_p) a) as [i|]; [|discriminate EP].
        destruct (nth_error done_d i) as [q|] eqn:EQ; [|discriminate EP].
        destruct (nth_views _ _ _ _ V EQ) as [q' [E1 E2]].
        exists (pl_end R q), (Some i). rewrite E1, E2. repeat split.
      - exists (last_end R done_d origin), None. repeat split. unfold last_end. rewrite VE. reflexivity. }
    destruct ST as [start [at_ [S1 [S2 S3]]]]. rewrite S1 in EP. cbn [bind] in EP. injection EP as <-.
    rewrite S2. cbn [bind].
    set (pd := {| pl_cls := c; pl_kw := with_defaults R (entry_dict R e); pl_start := start; pl_end := move R start (e_dir R e) len |}) in *.
    set (pp := {| pl_cls := c; pl_kw := with_defaults R (e_vals R e); pl_start := start; pl_end := move R start (e_dir R e) len |}).
    assert (NV : pview_of R pi pd = pview_of R pi pp) by apply new_pview.
    destruct (IH (done_d ++ [pd]) (done_p ++ [pp]) rd) as [ss [rp [Q1 [Q2 Q3]]]].
    { rewrite !map_app. cbn [map]. rewrite V, NV. reflexivity. }
    { exact H. }
    assert (EN : entry_name R e = pl_name R pp). { unfold entry_name. rewrite EH. reflexivity. }
    rewrite map_app in Q1. cbn [map] in Q1. rewrite <- EN in Q1. rewrite Q1. cbn [bind].
    eexists. exists rp. split; [reflexivity|]. split; [|exact Q3].
    cbn [build_prog]. unfold place_prog. cbn [p_at p_cls p_kw p_dir p_len]. rewrite S3. cbn [bind]. exact Q2.
Qed.

Lemma declarative_from_empty (unit_ : R) (origin : point R) (es : list delem) (rd : list placed) :
  build_decl R unit_ origin [] es = Ok rd ->
  exists ss rp, equivalent_program R unit_ [] es = Ok ss /\
    build_prog R origin [] ss = Ok rp /\ map (pview_of R pi) rd = map (pview_of R pi) rp.
Proof. intros H. exact (declarative_is_programmatic unit_ origin es [] [] rd eq_refl H). Qed.

End SaveLoadThm.
