(* Theory/FourierWaves.v — the translated coefficient functions of Gen/Periodic.v, instantiated at R, are the
   Fourier coefficients of the translated time functions (C08).  All wave-specific steps end in field/lra/lia so
   that an algebraically equivalent reformulation of the Python source still passes, while a changed constant,
   sign, parity test or phase breaks the proof. *)
From Coq Require Import Reals ZArith Lra Lia.
From Coquelicot Require Import Coquelicot.
From CC Require Import Model.Rops Theory.RopsR Gen.Periodic Theory.Fourier.
Open Scope R_scope.

Ltac unfold_gen :=
  cbv beta iota zeta delta [const_time const_amplitude const_phase cos_time cos_amplitude cos_phase
    sin_time sin_amplitude sin_phase rect_time rect_amplitude rect_phase tri_time tri_amplitude tri_phase
    saw_time saw_amplitude saw_phase
    ROps RT radd rsub rmul rdiv ropp rofZ rpi rcos rsin rmod rltb rltbR];
  (* integer sub-expressions such as n*n coerced as a whole: push the coercion to the leaves *)
  repeat (rewrite mult_IZR || rewrite plus_IZR || rewrite minus_IZR || rewrite opp_IZR).

(* [field], closing its non-zero side conditions from the context / pi <> 0 / linear arithmetic *)
Ltac fsolve := field; repeat split; first [assumption | apply PI_neq0 | lra].

(* all coefficients of one waveform: mean value, and for n >= 1 the cosine and sine integrals *)
Definition fourier_coefficients (T : R) (f : R -> R) (amp ph : Z -> R) : Prop :=
  is_RInt f 0 T (T * amp 0%Z) /\
  forall n : Z, (1 <= n)%Z ->
    is_RInt (fun t => f t * cos (IZR n * (2 * PI / T) * t)) 0 T (T / 2 * amp n * cos (ph n)) /\
    is_RInt (fun t => f t * sin (IZR n * (2 * PI / T) * t)) 0 T (- T / 2 * amp n * sin (ph n)).

Lemma fourier_coefficients_intro (T : R) (f : R -> R) (amp ph : Z -> R) : 0 < T ->
  mean_of T f (amp 0%Z) -> (forall n, (1 <= n)%Z -> harmonic_of T f n (amp n) (ph n)) ->
  fourier_coefficients T f amp ph.
Proof.
  intros HT Hm Hh. split; [exact Hm|]. intros n Hn. split.
  - exact (harmonic_of_cos T f n _ _ (Hh n Hn)).
  - exact (harmonic_of_sin T f n _ _ (Hh n Hn)).
Qed.

(* ---------------------------------------------------------------- waves of the form G (rmod (t + t0) T) *)
Section PWWave.
Variable T : R.
Hypothesis HT : 0 < T.
Variables (G : R -> R) (al1 be1 al2 be2 t0 : R) (f : R -> R).
Hypothesis G1 : forall u, 0 < u < T / 2 -> G u = al1 + be1 * u.
Hypothesis G2 : forall u, T / 2 < u < T -> G u = al2 + be2 * u.
Hypothesis Ef : forall t, f t = G (rmodR (t + t0) T).

Let g (x : R) : R := G (rmodR x T).

Lemma pw_g_periodic : periodic T g.
Proof. intros x. unfold g. rewrite rmodR_period by exact HT. reflexivity. Qed.

Lemma pw_wave_harmonic (n : Z) (amp ph : R) : (1 <= n)%Z ->
  (forall psi,
     sin psi / (IZR n * w0 T) * ((al1 + be1 * (T / 2)) * sgnZ n - al1 + (al2 + be2 * T) - (al2 + be2 * (T / 2)) * sgnZ n)
     + cos psi / (IZR n * w0 T * (IZR n * w0 T)) * (be1 * sgnZ n - be1 + be2 - be2 * sgnZ n)
     = T / 2 * amp * cos (ph - IZR n * w0 T * t0 - psi)) ->
  harmonic_of T f n amp ph.
Proof.
  intros Hn Hv.
  assert (B : harmonic_of T g n amp (ph - IZR n * w0 T * t0)).
  { intros psi. rewrite <- Hv.
    apply (pw_affine_int T HT g al1 be1 al2 be2); [| |exact Hn].
    - intros x Hx. unfold g. rewrite rmodR_small by lra. apply G1. exact Hx.
    - intros x Hx. unfold g. rewrite rmodR_small by lra. apply G2. exact Hx. }
  apply (harmonic_of_eq T (fun t => g (t + t0)) f n amp amp (ph - IZR n * w0 T * t0 + IZR n * w0 T * t0) ph).
  - apply harmonic_shift; [exact HT|exact pw_g_periodic|exact B].
  - intros t. rewrite Ef. reflexivity.
  - reflexivity.
  - ring.
Qed.

Lemma pw_wave_mean (m : R) :
  al1 * (T / 2) + be1 * T * T / 8 + al2 * (T / 2) + 3 * be2 * T * T / 8 = T * m -> mean_of T f m.
Proof.
  intros Hv. unfold mean_of. rewrite <- Hv.
  apply (is_RInt_extR (fun t => g (t + t0))).
  - intros t. rewrite Ef. reflexivity.
  - apply RInt_periodic_translate; [exact HT|exact pw_g_periodic|].
    apply (pw_affine_mean T HT g al1 be1 al2 be2).
    + intros x Hx. unfold g. rewrite rmodR_small by lra. apply G1. exact Hx.
    + intros x Hx. unfold g. rewrite rmodR_small by lra. apply G2. exact Hx.
Qed.
End PWWave.

Lemma cos_mPI2_minus (x : R) : cos (- (PI / 2) - x) = - sin x.
Proof. replace (- (PI / 2) - x) with (- (x + PI / 2)) by ring. rewrite cos_neg, cos_plus, cos_PI2, sin_PI2. ring. Qed.

Lemma IZR_ge1_neq0 (n : Z) : (1 <= n)%Z -> IZR n <> 0.
Proof. intros H E. apply eq_IZR in E. lia. Qed.

(* ---------------------------------------------------------------- rect *)
Section Rect.
Variables T A phi off : R.
Hypothesis HT : 0 < T.

Let t0c : R := phi / (2 * PI) * T.
Let G (u : R) : R := if Rlt_dec u (T / 2) then A + off else - A + off.

Lemma rect_time_canon (t : R) : rect_time ROps T A phi off t = G (rmodR (t + t0c) T).
Proof.
  unfold_gen. unfold G.
  match goal with |- context [rmodR (t + ?e) T] =>
    assert (E : e = t0c) by (unfold t0c; fsolve); try rewrite E; clear E end.
  destruct (Rlt_dec (rmodR (t + t0c) T) (T / IZR 2)) as [L1|L1];
    destruct (Rlt_dec (rmodR (t + t0c) T) (T / 2)) as [L2|L2]; lra.
Qed.

Lemma rect_harmonic (n : Z) : (1 <= n)%Z ->
  harmonic_of T (rect_time ROps T A phi off) n (rect_amplitude ROps A phi off n) (rect_phase ROps A phi off n).
Proof.
  intros Hn. pose proof (IZR_ge1_neq0 n Hn) as Hn0. pose proof PI_neq0 as Hpi.
  apply (pw_wave_harmonic T HT G (A + off) 0 (- A + off) 0 t0c _); [| |exact rect_time_canon|exact Hn|].
  - intros u Hu. unfold G. destruct (Rlt_dec u (T / 2)); lra.
  - intros u Hu. unfold G. destruct (Rlt_dec u (T / 2)); lra.
  - intros psi. unfold_gen. rewrite Zmod2_even. unfold sgnZ, w0, t0c.
    destruct (Z.eqb_spec n 0) as [E0|_]; [lia|].
    destruct (Z.even n).
    + fsolve.
    + match goal with |- context [cos (?p - ?q - psi)] =>
        replace (p - q - psi) with (- (PI / 2) - psi) by fsolve end.
      rewrite cos_mPI2_minus. fsolve.
Qed.

Lemma rect_mean : mean_of T (rect_time ROps T A phi off) (rect_amplitude ROps A phi off 0%Z).
Proof.
  apply (pw_wave_mean T HT G (A + off) 0 (- A + off) 0 t0c _); [| |exact rect_time_canon|].
  - intros u Hu. unfold G. destruct (Rlt_dec u (T / 2)); lra.
  - intros u Hu. unfold G. destruct (Rlt_dec u (T / 2)); lra.
  - unfold_gen. simpl. field.
Qed.
End Rect.

(* ---------------------------------------------------------------- saw *)
Section Saw.
Variables T A phi off : R.
Hypothesis HT : 0 < T.

Let t0c : R := phi / (2 * PI) * T.
Let G (u : R) : R := (- A + off) + 2 * A / T * u.

Lemma saw_time_canon (t : R) : saw_time ROps T A phi off t = G (rmodR (t + t0c) T).
Proof.
  unfold_gen. unfold G.
  match goal with |- context [rmodR (t + ?e) T] =>
    assert (E : e = t0c) by (unfold t0c; fsolve); try rewrite E; clear E end.
  fsolve.
Qed.

Lemma saw_harmonic (n : Z) : (1 <= n)%Z ->
  harmonic_of T (saw_time ROps T A phi off) n (saw_amplitude ROps A phi off n) (saw_phase ROps A phi off n).
Proof.
  intros Hn. pose proof (IZR_ge1_neq0 n Hn) as Hn0. pose proof PI_neq0 as Hpi.
  apply (pw_wave_harmonic T HT G (- A + off) (2 * A / T) (- A + off) (2 * A / T) t0c _);
    [reflexivity|reflexivity|exact saw_time_canon|exact Hn|].
  intros psi. unfold_gen. unfold w0, t0c.
  destruct (Z.eqb_spec n 0) as [E0|_]; [lia|].
  match goal with |- context [cos (?p - ?q - psi)] =>
    replace (p - q - psi) with (- (PI / 2) - psi) by fsolve end.
  rewrite cos_mPI2_minus. fsolve.
Qed.

Lemma saw_mean : mean_of T (saw_time ROps T A phi off) (saw_amplitude ROps A phi off 0%Z).
Proof.
  apply (pw_wave_mean T HT G (- A + off) (2 * A / T) (- A + off) (2 * A / T) t0c _);
    [reflexivity|reflexivity|exact saw_time_canon|].
  unfold_gen. simpl. fsolve.
Qed.
End Saw.

(* ---------------------------------------------------------------- tri *)
Section Tri.
Variables T A phi off : R.
Hypothesis HT : 0 < T.

Let t0c : R := phi / (2 * PI) * T.
Let G (u : R) : R := if Rlt_dec u (T / 2) then (A + off) + (- 4 * A / T) * u else (- 3 * A + off) + 4 * A / T * u.

Lemma tri_time_canon (t : R) : tri_time ROps T A phi off t = G (rmodR (t + t0c) T).
Proof.
  unfold_gen. unfold G.
  match goal with |- context [rmodR (t + ?e) T] =>
    assert (E : e = t0c) by (unfold t0c; fsolve); try rewrite E; clear E end.
  destruct (Rlt_dec (rmodR (t + t0c) T) (T / IZR 2)) as [L1|L1];
    destruct (Rlt_dec (rmodR (t + t0c) T) (T / 2)) as [L2|L2]; try lra; fsolve.
Qed.

Lemma tri_harmonic (n : Z) : (1 <= n)%Z ->
  harmonic_of T (tri_time ROps T A phi off) n (tri_amplitude ROps A phi off n) (tri_phase ROps A phi off n).
Proof.
  intros Hn. pose proof (IZR_ge1_neq0 n Hn) as Hn0. pose proof PI_neq0 as Hpi.
  apply (pw_wave_harmonic T HT G (A + off) (- 4 * A / T) (- 3 * A + off) (4 * A / T) t0c _);
    [| |exact tri_time_canon|exact Hn|].
  - intros u Hu. unfold G. destruct (Rlt_dec u (T / 2)); lra.
  - intros u Hu. unfold G. destruct (Rlt_dec u (T / 2)); lra.
  - intros psi. unfold_gen. rewrite Zmod2_even. unfold sgnZ, w0, t0c.
    destruct (Z.eqb_spec n 0) as [E0|_]; [lia|].
    destruct (Z.even n).
    + fsolve.
    + match goal with |- context [cos (?p - ?q - psi)] =>
        replace (p - q - psi) with (- psi) by fsolve end.
      rewrite cos_neg. fsolve.
Qed.

Lemma tri_mean : mean_of T (tri_time ROps T A phi off) (tri_amplitude ROps A phi off 0%Z).
Proof.
  apply (pw_wave_mean T HT G (A + off) (- 4 * A / T) (- 3 * A + off) (4 * A / T) t0c _);
    [| |exact tri_time_canon|].
  - intros u Hu. unfold G. destruct (Rlt_dec u (T / 2)); lra.
  - intros u Hu. unfold G. destruct (Rlt_dec u (T / 2)); lra.
  - unfold_gen. simpl. fsolve.
Qed.
End Tri.

(* ---------------------------------------------------------------- cos, sin, const *)
Section Pure.
Variables T A phi off : R.
Hypothesis HT : 0 < T.

Lemma cos_time_canon (t : R) : cos_time ROps T A phi off t = A * cos (w0 T * t + phi) + off.
Proof.
  unfold_gen.
  match goal with |- context [cos ?x] =>
    assert (E : x = w0 T * t + phi) by (unfold w0; fsolve); try rewrite E; clear E end.
  reflexivity.
Qed.

Lemma cos_harmonic (n : Z) : (1 <= n)%Z ->
  harmonic_of T (cos_time ROps T A phi off) n (cos_amplitude ROps A phi off n) (cos_phase ROps A phi off n).
Proof.
  intros Hn.
  apply (harmonic_of_eq T _ _ n _ _ _ _
           (cos_wave_harmonic T HT (cos_time ROps T A phi off) A phi off n cos_time_canon Hn)).
  - reflexivity.
  - unfold_gen. destruct (Z.eqb_spec n 0) as [E0|_]; [lia|]. destruct (Z.eqb_spec n 1); lra.
  - unfold_gen. destruct (Z.eqb_spec n 1); lra.
Qed.

Lemma cos_mean : mean_of T (cos_time ROps T A phi off) (cos_amplitude ROps A phi off 0%Z).
Proof.
  unfold mean_of. apply (is_RInt_val _ _ _ _ _ (cos_wave_mean T HT _ A phi off cos_time_canon)).
  unfold_gen. simpl. lra.
Qed.

Lemma sin_time_canon (t : R) : sin_time ROps T A phi off t = A * cos (w0 T * t + (phi - PI / 2)) + off.
Proof.
  unfold_gen.
  match goal with |- context [sin ?x] =>
    rewrite <- (cos_shift_PI2 x);
    assert (E : x - PI / 2 = w0 T * t + (phi - PI / 2)) by (unfold w0; fsolve); try rewrite E; clear E end.
  reflexivity.
Qed.

Lemma sin_harmonic (n : Z) : (1 <= n)%Z ->
  harmonic_of T (sin_time ROps T A phi off) n (sin_amplitude ROps A phi off n) (sin_phase ROps A phi off n).
Proof.
  intros Hn.
  apply (harmonic_of_eq T _ _ n _ _ _ _
           (cos_wave_harmonic T HT (sin_time ROps T A phi off) A (phi - PI / 2) off n sin_time_canon Hn)).
  - reflexivity.
  - unfold_gen. destruct (Z.eqb_spec n 0) as [E0|_]; [lia|]. destruct (Z.eqb_spec n 1); lra.
  - unfold_gen. destruct (Z.eqb_spec n 1); lra.
Qed.

Lemma sin_mean : mean_of T (sin_time ROps T A phi off) (sin_amplitude ROps A phi off 0%Z).
Proof.
  unfold mean_of. apply (is_RInt_val _ _ _ _ _ (cos_wave_mean T HT _ A (phi - PI / 2) off sin_time_canon)).
  unfold_gen. simpl. lra.
Qed.

(* ConstantFunction.time_function ignores [offset]; its harmonics use amplitude0 for n = 0: consistent *)
Lemma const_time_canon (t : R) : const_time ROps T A phi off t = 0 * cos (w0 T * t + 0) + A.
Proof. unfold_gen. lra. Qed.

Lemma const_harmonic (n : Z) : (1 <= n)%Z ->
  harmonic_of T (const_time ROps T A phi off) n (const_amplitude ROps A phi off n) (const_phase ROps A phi off n).
Proof.
  intros Hn.
  apply (harmonic_of_eq T _ _ n _ _ _ _
           (cos_wave_harmonic T HT (const_time ROps T A phi off) 0 0 A n const_time_canon Hn)).
  - reflexivity.
  - unfold_gen. destruct (Z.eqb_spec n 0) as [E0|_]; [lia|]. destruct (Z.eqb_spec n 1); lra.
  - unfold_gen. destruct (Z.eqb_spec n 1); lra.
Qed.

Lemma const_mean : mean_of T (const_time ROps T A phi off) (const_amplitude ROps A phi off 0%Z).
Proof.
  unfold mean_of. apply (is_RInt_val _ _ _ _ _ (cos_wave_mean T HT _ 0 0 A const_time_canon)).
  unfold_gen. simpl. lra.
Qed.
End Pure.

(* ---------------------------------------------------------------- summary per waveform *)
Theorem const_fourier (T A phi off : R) : 0 < T ->
  fourier_coefficients T (const_time ROps T A phi off) (const_amplitude ROps A phi off) (const_phase ROps A phi off).
Proof. intros HT. apply fourier_coefficients_intro; [exact HT|apply const_mean; exact HT|apply const_harmonic; exact HT]. Qed.
Theorem cos_fourier (T A phi off : R) : 0 < T ->
  fourier_coefficients T (cos_time ROps T A phi off) (cos_amplitude ROps A phi off) (cos_phase ROps A phi off).
Proof. intros HT. apply fourier_coefficients_intro; [exact HT|apply cos_mean; exact HT|apply cos_harmonic; exact HT]. Qed.
Theorem sin_fourier (T A phi off : R) : 0 < T ->
  fourier_coefficients T (sin_time ROps T A phi off) (sin_amplitude ROps A phi off) (sin_phase ROps A phi off).
Proof. intros HT. apply fourier_coefficients_intro; [exact HT|apply sin_mean; exact HT|apply sin_harmonic; exact HT]. Qed.
Theorem rect_fourier (T A phi off : R) : 0 < T ->
  fourier_coefficients T (rect_time ROps T A phi off) (rect_amplitude ROps A phi off) (rect_phase ROps A phi off).
Proof. intros HT. apply fourier_coefficients_intro; [exact HT|apply rect_mean; exact HT|apply rect_harmonic; exact HT]. Qed.
Theorem tri_fourier (T A phi off : R) : 0 < T ->
  fourier_coefficients T (tri_time ROps T A phi off) (tri_amplitude ROps A phi off) (tri_phase ROps A phi off).
Proof. intros HT. apply fourier_coefficients_intro; [exact HT|apply tri_mean; exact HT|apply tri_harmonic; exact HT]. Qed.
Theorem saw_fourier (T A phi off : R) : 0 < T ->
  fourier_coefficients T (saw_time ROps T A phi off) (saw_amplitude ROps A phi off) (saw_phase ROps A phi off).
Proof. intros HT. apply fourier_coefficients_intro; [exact HT|apply saw_mean; exact HT|apply saw_harmonic; exact HT]. Qed.
