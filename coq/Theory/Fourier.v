(* Theory/Fourier.v — Fourier integrals over one period, generic lemmas (Coquelicot Riemann integral).
   [harmonic_of T f n amp ph] says that [amp * cos (n w0 t + ph)] is the n-th harmonic of [f]:
   for every test phase psi,  int_0^T f t cos (n w0 t + psi) dt = T/2 * amp * cos (ph - psi);
   psi = 0 and psi = -pi/2 give the cosine and the sine coefficient. *)
From Coq Require Import Reals ZArith Lra Lia.
From Coquelicot Require Import Coquelicot.
From CC Require Import Model.Rops Theory.RopsR.
Open Scope R_scope.

(* ---------------------------------------------------------------- trigonometry at integer multiples *)
Lemma cos_period_Z (x : R) (k : Z) : cos (x + 2 * IZR k * PI) = cos x.
Proof.
  destruct (Z_le_gt_dec 0 k) as [H|H].
  - rewrite <- (Z2Nat.id k H), <- INR_IZR_INZ. apply cos_period.
  - rewrite <- (cos_period (x + 2 * IZR k * PI) (Z.to_nat (- k))). f_equal.
    rewrite INR_IZR_INZ, Z2Nat.id by lia. rewrite opp_IZR. ring.
Qed.

Lemma sin_period_Z (x : R) (k : Z) : sin (x + 2 * IZR k * PI) = sin x.
Proof.
  destruct (Z_le_gt_dec 0 k) as [H|H].
  - rewrite <- (Z2Nat.id k H), <- INR_IZR_INZ. apply sin_period.
  - rewrite <- (sin_period (x + 2 * IZR k * PI) (Z.to_nat (- k))). f_equal.
    rewrite INR_IZR_INZ, Z2Nat.id by lia. rewrite opp_IZR. ring.
Qed.

Definition sgnZ (n : Z) : R := if Z.even n then 1 else -1.

Lemma Z_even_odd_form (n : Z) :
  (Z.even n = true /\ exists m, n = 2 * m)%Z \/ (Z.even n = false /\ exists m, n = 2 * m + 1)%Z.
Proof.
  destruct (Z.even n) eqn:E.
  - left. split; [reflexivity|]. apply Z.even_spec in E. exact E.
  - right. split; [reflexivity|]. rewrite <- Z.negb_odd in E. apply Bool.negb_false_iff in E.
    apply Z.odd_spec in E. exact E.
Qed.

Lemma cos_Zpi_plus (n : Z) (x : R) : cos (IZR n * PI + x) = sgnZ n * cos x.
Proof.
  unfold sgnZ. destruct (Z_even_odd_form n) as [[E [m Hm]]|[E [m Hm]]]; rewrite E, Hm.
  - rewrite mult_IZR. replace (2 * IZR m * PI + x) with (x + 2 * IZR m * PI) by ring.
    rewrite cos_period_Z. ring.
  - rewrite plus_IZR, mult_IZR. replace ((2 * IZR m + 1) * PI + x) with ((x + PI) + 2 * IZR m * PI) by ring.
    rewrite cos_period_Z, neg_cos. ring.
Qed.

Lemma sin_Zpi_plus (n : Z) (x : R) : sin (IZR n * PI + x) = sgnZ n * sin x.
Proof.
  unfold sgnZ. destruct (Z_even_odd_form n) as [[E [m Hm]]|[E [m Hm]]]; rewrite E, Hm.
  - rewrite mult_IZR. replace (2 * IZR m * PI + x) with (x + 2 * IZR m * PI) by ring.
    rewrite sin_period_Z. ring.
  - rewrite plus_IZR, mult_IZR. replace ((2 * IZR m + 1) * PI + x) with ((x + PI) + 2 * IZR m * PI) by ring.
    rewrite sin_period_Z, neg_sin. ring.
Qed.

Lemma cos_shift_PI2 (x : R) : cos (x - PI / 2) = sin x.
Proof. rewrite cos_minus, cos_PI2, sin_PI2. ring. Qed.

Lemma Zmod2_even (n : Z) : ((n mod 2 =? 0) = Z.even n)%Z.
Proof. rewrite Zmod_even. destruct (Z.even n); reflexivity. Qed.

(* ---------------------------------------------------------------- small integral toolkit over R *)
Lemma is_RInt_val (f : R -> R) (a b I I' : R) : is_RInt f a b I -> I = I' -> is_RInt f a b I'.
Proof. intros H E. rewrite <- E. exact H. Qed.

Lemma is_RInt_lin2 (f g : R -> R) (a b c1 c2 I1 I2 : R) :
  is_RInt f a b I1 -> is_RInt g a b I2 -> is_RInt (fun t => c1 * f t + c2 * g t) a b (c1 * I1 + c2 * I2).
Proof.
  intros H1 H2.
  exact (is_RInt_plus (V:=R_NormedModule) _ _ a b _ _ (is_RInt_scal (V:=R_NormedModule) f a b c1 I1 H1)
           (is_RInt_scal (V:=R_NormedModule) g a b c2 I2 H2)).
Qed.

Lemma is_RInt_extR (f g : R -> R) (a b I : R) : (forall x, f x = g x) -> is_RInt f a b I -> is_RInt g a b I.
Proof. intros E. apply is_RInt_ext. intros x _. apply E. Qed.

(* antiderivative of (al + be u) cos (k u + psi) *)
Lemma RInt_affine_cos (al be k psi a b : R) : k <> 0 ->
  is_RInt (fun u => (al + be * u) * cos (k * u + psi)) a b
    (((al + be * b) * sin (k * b + psi) / k + be * cos (k * b + psi) / (k * k))
     - ((al + be * a) * sin (k * a + psi) / k + be * cos (k * a + psi) / (k * k))).
Proof.
  intros Hk.
  apply (is_RInt_derive (fun u => (al + be * u) * sin (k * u + psi) / k + be * cos (k * u + psi) / (k * k))
           (fun u => (al + be * u) * cos (k * u + psi))).
  - intros x _. auto_derive; [exact I|]. field. exact Hk.
  - intros x _. apply (ex_derive_continuous (fun u => (al + be * u) * cos (k * u + psi))). auto_derive. exact I.
Qed.

Lemma RInt_affine (al be a b : R) :
  is_RInt (fun u => al + be * u) a b ((al * b + be * b * b / 2) - (al * a + be * a * a / 2)).
Proof.
  apply (is_RInt_derive (fun u => al * u + be * u * u / 2) (fun u => al + be * u)).
  - intros x _. auto_derive; [exact I|]. field.
  - intros x _. apply (ex_derive_continuous (fun u => al + be * u)). auto_derive. exact I.
Qed.

(* ---------------------------------------------------------------- periodicity *)
Section Period.
Variable T : R.
Hypothesis HT : 0 < T.

Definition periodic (h : R -> R) : Prop := forall x, h (x + T) = h x.

Lemma periodic_nat (h : R -> R) : periodic h -> forall (m : nat) x, h (x + INR m * T) = h x.
Proof.
  intros P m. induction m as [|m IH]; intros x.
  - simpl. f_equal. ring.
  - rewrite S_INR. replace (x + (INR m + 1) * T) with ((x + INR m * T) + T) by ring. rewrite P. apply IH.
Qed.

Lemma periodic_Z (h : R -> R) : periodic h -> forall (k : Z) x, h (x + IZR k * T) = h x.
Proof.
  intros P k x. destruct (Z_le_gt_dec 0 k) as [H|H].
  - rewrite <- (Z2Nat.id k H), <- INR_IZR_INZ. apply periodic_nat. exact P.
  - rewrite <- (periodic_nat h P (Z.to_nat (- k)) (x + IZR k * T)). f_equal.
    rewrite INR_IZR_INZ, Z2Nat.id by lia. rewrite opp_IZR. ring.
Qed.

Lemma RInt_periodic_shift01 (h : R -> R) (a I : R) : periodic h -> 0 <= a <= T ->
  is_RInt h 0 T I -> is_RInt h a (a + T) I.
Proof.
  intros P Ha HI.
  assert (E1 : ex_RInt h 0 a) by (apply (ex_RInt_Chasles_1 h 0 a T Ha); exists I; exact HI).
  assert (E2 : ex_RInt h a T) by (apply (ex_RInt_Chasles_2 h 0 a T Ha); exists I; exact HI).
  destruct E1 as [I1 H1]. destruct E2 as [I2 H2].
  assert (EI : I = I1 + I2).
  { rewrite <- (is_RInt_unique h 0 T I HI). apply is_RInt_unique.
    exact (is_RInt_Chasles h 0 a T I1 I2 H1 H2). }
  assert (H3 : is_RInt h T (a + T) I1).
  { apply (is_RInt_extR (fun y => scal 1 (h (1 * y + - T)))).
    - intros y. unfold scal; simpl; unfold mult; simpl. rewrite <- (P (1 * y + - T)).
      rewrite Rmult_1_l. f_equal. ring.
    - apply (is_RInt_comp_lin h 1 (- T) T (a + T) I1).
      replace (1 * T + - T) with 0 by ring. replace (1 * (a + T) + - T) with a by ring. exact H1. }
  apply (is_RInt_val h a (a + T) (I2 + I1)); [|lra].
  exact (is_RInt_Chasles h a T (a + T) I2 I1 H2 H3).
Qed.

Lemma RInt_periodic_shift (h : R -> R) (a I : R) : periodic h ->
  is_RInt h 0 T I -> is_RInt h a (a + T) I.
Proof.
  intros P HI.
  set (k := Int_part (a / T)). set (a' := rmodR a T).
  assert (Ea : a = a' + IZR k * T) by apply rmodR_decomp.
  assert (Ra : 0 <= a' <= T) by (destruct (rmodR_range a T HT); unfold a'; lra).
  pose proof (RInt_periodic_shift01 h a' I P Ra HI) as H1.
  apply (is_RInt_extR (fun y => scal 1 (h (1 * y + - (IZR k * T))))).
  - intros y. unfold scal; simpl; unfold mult; simpl. rewrite Rmult_1_l.
    rewrite <- (periodic_Z h P k (1 * y + - (IZR k * T))). f_equal. ring.
  - apply (is_RInt_comp_lin h 1 (- (IZR k * T)) a (a + T) I).
    replace (1 * a + - (IZR k * T)) with a' by lra.
    replace (1 * (a + T) + - (IZR k * T)) with (a' + T) by lra. exact H1.
Qed.

(* change of variable t |-> t + t0 over a full period *)
Lemma RInt_periodic_translate (h : R -> R) (t0 I : R) : periodic h ->
  is_RInt h 0 T I -> is_RInt (fun t => h (t + t0)) 0 T I.
Proof.
  intros P HI.
  apply (is_RInt_extR (fun y => scal 1 (h (1 * y + t0)))).
  - intros y. unfold scal; simpl; unfold mult; simpl. rewrite Rmult_1_l. f_equal. ring.
  - apply (is_RInt_comp_lin h 1 t0 0 T I).
    replace (1 * 0 + t0) with t0 by ring. replace (1 * T + t0) with (t0 + T) by ring.
    apply RInt_periodic_shift; assumption.
Qed.

(* ---------------------------------------------------------------- harmonics *)
Definition w0 : R := 2 * PI / T.

Definition harmonic_of (f : R -> R) (n : Z) (amp ph : R) : Prop :=
  forall psi, is_RInt (fun t => f t * cos (IZR n * w0 * t + psi)) 0 T (T / 2 * amp * cos (ph - psi)).

Definition mean_of (f : R -> R) (m : R) : Prop := is_RInt f 0 T (T * m).

Lemma w0_pos : 0 < w0.
Proof. unfold w0. apply Rdiv_lt_0_compat; [|exact HT]. generalize PI_RGT_0; lra. Qed.

Lemma kT (n : Z) : IZR n * w0 * T = 2 * IZR n * PI.
Proof. unfold w0. field. lra. Qed.

Lemma k_neq_0 (n : Z) : (n <> 0)%Z -> IZR n * w0 <> 0.
Proof.
  intros Hn. apply Rmult_integral_contrapositive_currified.
  - intros H. apply Hn. apply eq_IZR. exact H.
  - generalize w0_pos; lra.
Qed.

Lemma harmonic_of_cos (f : R -> R) (n : Z) (amp ph : R) : harmonic_of f n amp ph ->
  is_RInt (fun t => f t * cos (IZR n * w0 * t)) 0 T (T / 2 * amp * cos ph).
Proof.
  intros H. apply (is_RInt_extR (fun t => f t * cos (IZR n * w0 * t + 0))).
  - intros t. rewrite Rplus_0_r. reflexivity.
  - apply (is_RInt_val _ _ _ _ _ (H 0)). rewrite Rminus_0_r. reflexivity.
Qed.

Lemma harmonic_of_sin (f : R -> R) (n : Z) (amp ph : R) : harmonic_of f n amp ph ->
  is_RInt (fun t => f t * sin (IZR n * w0 * t)) 0 T (- T / 2 * amp * sin ph).
Proof.
  intros H. apply (is_RInt_extR (fun t => f t * cos (IZR n * w0 * t + - (PI / 2)))).
  - intros t. rewrite <- cos_shift_PI2. reflexivity.
  - apply (is_RInt_val _ _ _ _ _ (H (- (PI / 2)))).
    replace (ph - - (PI / 2)) with (ph + PI / 2) by ring.
    rewrite cos_plus, cos_PI2, sin_PI2. field.
Qed.

Lemma harmonic_of_eq (f f' : R -> R) (n : Z) (amp amp' ph ph' : R) :
  harmonic_of f n amp ph -> (forall t, f t = f' t) -> amp = amp' -> ph = ph' -> harmonic_of f' n amp' ph'.
Proof.
  intros H Ef Ea Ep psi. subst amp' ph'.
  apply (is_RInt_extR (fun t => f t * cos (IZR n * w0 * t + psi))).
  - intros t. rewrite Ef. reflexivity.
  - apply H.
Qed.

(* amplitude 0: the phase is irrelevant *)
Lemma harmonic_of_zero (f : R -> R) (n : Z) (amp ph ph' : R) :
  harmonic_of f n amp ph -> amp = 0 -> harmonic_of f n 0 ph'.
Proof.
  intros H E psi. apply (is_RInt_val _ _ _ _ _ (H psi)). rewrite E. ring.
Qed.

Lemma harmonic_shift (g : R -> R) (n : Z) (amp ph t0 : R) : periodic g ->
  harmonic_of g n amp ph -> harmonic_of (fun t => g (t + t0)) n amp (ph + IZR n * w0 * t0).
Proof.
  intros P H psi.
  set (k := IZR n * w0).
  set (h := fun s => g s * cos (k * s + (psi - k * t0))).
  assert (Ph : periodic h).
  { intros x. unfold h. rewrite P. f_equal.
    replace (k * (x + T) + (psi - k * t0)) with ((k * x + (psi - k * t0)) + 2 * IZR n * PI)
      by (unfold k; rewrite <- kT; ring).
    apply cos_period_Z. }
  apply (is_RInt_extR (fun t => h (t + t0))).
  - intros t. unfold h. f_equal. f_equal. ring.
  - apply RInt_periodic_translate; [exact Ph|].
    apply (is_RInt_val _ _ _ _ _ (H (psi - k * t0))). f_equal. f_equal. fold k. ring.
Qed.

Lemma mean_shift (g : R -> R) (m t0 : R) : periodic g -> mean_of g m -> mean_of (fun t => g (t + t0)) m.
Proof. intros P H. apply RInt_periodic_translate; assumption. Qed.

(* ---------------------------------------------------------------- pure harmonics (cos / sin / const waves) *)
Lemma int_cos_harm (m : Z) (phi : R) :
  is_RInt (fun t => cos (IZR m * w0 * t + phi)) 0 T (if (m =? 0)%Z then T * cos phi else 0).
Proof.
  destruct (Z.eqb_spec m 0) as [E|E].
  - subst m. apply (is_RInt_extR (fun _ => cos phi)).
    + intros t. f_equal. ring.
    + apply (is_RInt_val _ _ _ _ _ (is_RInt_const (V:=R_NormedModule) 0 T (cos phi))).
      unfold scal; simpl; unfold mult; simpl. ring.
  - pose proof (k_neq_0 m E) as Hk.
    apply (is_RInt_extR (fun u => (1 + 0 * u) * cos (IZR m * w0 * u + phi))).
    + intros t. ring.
    + apply (is_RInt_val _ _ _ _ _ (RInt_affine_cos 1 0 (IZR m * w0) phi 0 T Hk)).
      rewrite kT. replace (2 * IZR m * PI + phi) with (phi + 2 * IZR m * PI) by ring.
      rewrite sin_period_Z, cos_period_Z. replace (IZR m * w0 * 0 + phi) with phi by ring.
      set (k := IZR m * w0) in *. field. exact Hk.
Qed.

Lemma cc_int (m n : Z) (phi psi : R) : (m + n <> 0)%Z ->
  is_RInt (fun t => cos (IZR m * w0 * t + phi) * cos (IZR n * w0 * t + psi)) 0 T
    (if (m =? n)%Z then T / 2 * cos (phi - psi) else 0).
Proof.
  intros Hmn.
  apply (is_RInt_extR (fun t => / 2 * cos (IZR (m + n) * w0 * t + (phi + psi))
                                + / 2 * cos (IZR (m - n) * w0 * t + (phi - psi)))).
  - intros t. rewrite plus_IZR, minus_IZR.
    replace ((IZR m + IZR n) * w0 * t + (phi + psi)) with ((IZR m * w0 * t + phi) + (IZR n * w0 * t + psi)) by ring.
    replace ((IZR m - IZR n) * w0 * t + (phi - psi)) with ((IZR m * w0 * t + phi) - (IZR n * w0 * t + psi)) by ring.
    rewrite cos_plus, cos_minus. field.
  - apply (is_RInt_val _ _ _ _ _
             (is_RInt_lin2 _ _ 0 T (/ 2) (/ 2) _ _ (int_cos_harm (m + n) (phi + psi)) (int_cos_harm (m - n) (phi - psi)))).
    destruct (Z.eqb_spec (m + n) 0) as [E1|E1]; [contradiction|].
    destruct (Z.eqb_spec (m - n) 0) as [E2|E2]; destruct (Z.eqb_spec m n) as [E3|E3]; try lia; field.
Qed.

(* f t = A cos (w0 t + phi) + off *)
Lemma cos_wave_harmonic (f : R -> R) (A phi off : R) (n : Z) :
  (forall t, f t = A * cos (w0 * t + phi) + off) -> (1 <= n)%Z ->
  harmonic_of f n (if (n =? 1)%Z then A else 0) (if (n =? 1)%Z then phi else 0).
Proof.
  intros Ef Hn psi.
  apply (is_RInt_extR (fun t => A * (cos (IZR 1 * w0 * t + phi) * cos (IZR n * w0 * t + psi))
                                + off * (cos (IZR 0 * w0 * t + 0) * cos (IZR n * w0 * t + psi)))).
  - intros t. rewrite Ef. replace (IZR 0 * w0 * t + 0) with 0 by ring. rewrite cos_0.
    replace (IZR 1 * w0 * t) with (w0 * t) by ring. ring.
  - apply (is_RInt_val _ _ _ _ _
             (is_RInt_lin2 _ _ 0 T A off _ _ (cc_int 1 n phi psi ltac:(lia)) (cc_int 0 n 0 psi ltac:(lia)))).
    destruct (Z.eqb_spec 0 n) as [E0|E0]; [lia|].
    destruct (Z.eqb_spec 1 n) as [E1|E1]; destruct (Z.eqb_spec n 1) as [E2|E2]; try lia; ring.
Qed.

Lemma cos_wave_mean (f : R -> R) (A phi off : R) :
  (forall t, f t = A * cos (w0 * t + phi) + off) -> mean_of f off.
Proof.
  intros Ef. unfold mean_of.
  apply (is_RInt_extR (fun t => A * cos (IZR 1 * w0 * t + phi) + off * cos (IZR 0 * w0 * t + 0))).
  - intros t. rewrite Ef. replace (IZR 0 * w0 * t + 0) with 0 by ring. rewrite cos_0.
    replace (IZR 1 * w0 * t) with (w0 * t) by ring. ring.
  - apply (is_RInt_val _ _ _ _ _
             (is_RInt_lin2 _ _ 0 T A off _ _ (int_cos_harm 1 phi) (int_cos_harm 0 0))).
    simpl. rewrite cos_0. ring.
Qed.

(* ---------------------------------------------------------------- piecewise affine on (0,T/2), (T/2,T) *)
Section PW.
Variables (g : R -> R) (al1 be1 al2 be2 : R).
Hypothesis G1 : forall x, 0 < x < T / 2 -> g x = al1 + be1 * x.
Hypothesis G2 : forall x, T / 2 < x < T -> g x = al2 + be2 * x.

Lemma pw_affine_int (n : Z) (psi : R) : (1 <= n)%Z ->
  is_RInt (fun t => g t * cos (IZR n * w0 * t + psi)) 0 T
    (sin psi / (IZR n * w0) * ((al1 + be1 * (T / 2)) * sgnZ n - al1 + (al2 + be2 * T) - (al2 + be2 * (T / 2)) * sgnZ n)
     + cos psi / (IZR n * w0 * (IZR n * w0)) * (be1 * sgnZ n - be1 + be2 - be2 * sgnZ n)).
Proof.
  intros Hn. set (k := IZR n * w0).
  assert (Hk : k <> 0) by (apply k_neq_0; lia).
  pose proof (RInt_affine_cos al1 be1 k psi 0 (T / 2) Hk) as H1.
  pose proof (RInt_affine_cos al2 be2 k psi (T / 2) T Hk) as H2.
  apply (is_RInt_ext _ (fun t => g t * cos (k * t + psi))) in H1.
  2:{ intros x. rewrite Rmin_left, Rmax_right by lra. intros Hx. rewrite G1 by lra. reflexivity. }
  apply (is_RInt_ext _ (fun t => g t * cos (k * t + psi))) in H2.
  2:{ intros x. rewrite Rmin_left, Rmax_right by lra. intros Hx. rewrite G2 by lra. reflexivity. }
  apply (is_RInt_val _ _ _ _ _ (is_RInt_Chasles _ _ _ _ _ _ H1 H2)).
  unfold plus; simpl.
  replace (k * (T / 2) + psi) with (IZR n * PI + psi) by (unfold k, w0; field; lra).
  replace (k * T + psi) with (psi + 2 * IZR n * PI) by (unfold k; rewrite kT; ring).
  replace (k * 0 + psi) with psi by ring.
  rewrite cos_period_Z, sin_period_Z, cos_Zpi_plus, sin_Zpi_plus. field. exact Hk.
Qed.

Lemma pw_affine_mean :
  is_RInt g 0 T (al1 * (T / 2) + be1 * T * T / 8 + al2 * (T / 2) + 3 * be2 * T * T / 8).
Proof.
  pose proof (RInt_affine al1 be1 0 (T / 2)) as H1.
  pose proof (RInt_affine al2 be2 (T / 2) T) as H2.
  apply (is_RInt_ext _ g) in H1.
  2:{ intros x. rewrite Rmin_left, Rmax_right by lra. intros Hx. rewrite G1 by lra. reflexivity. }
  apply (is_RInt_ext _ g) in H2.
  2:{ intros x. rewrite Rmin_left, Rmax_right by lra. intros Hx. rewrite G2 by lra. reflexivity. }
  apply (is_RInt_val _ _ _ _ _ (is_RInt_Chasles _ _ _ _ _ _ H1 H2)).
  unfold plus; simpl. field.
Qed.
End PW.

End Period.
