(* Theory/AnnotationGenThm.v — SimpleCircuit/DiagramSolution.py, the getters of ComplexSolution (Circuit/solution.py) and the
   annotation part of SimpleSimulation/schematic.py as REGENERATED on every run (Gen/AnnotationGen.v, produced by
   tools/gen_annotation.py in the vocabulary of Model/AnnotationPrims.v) against the hand-written model Model/Annotation.v:
   A. `sign*value` is the model's sign adjustment; every method of the four adapter classes is the model's text function
      (which getter, which unit, reverse only where the method has it, options forwarded);
   B. draw_voltage / draw_current / draw_power / draw_potential against the hand specification [drawn_spec];
   C. the five factories build the adapter the model names [AdEmpty / AdReal / AdComplex / AdSin], with the solver
      (DC / complex, frequency, peak values) the model presupposes;
   D. ComplexSolution's getters are [unpeak] / [c_power]'s scaling;
   E. the declarative route: `solutions`, signature filtering, the factory call, the annotation lists. *)
From Coq Require Import List Bool ZArith NArith QArith Qabs Lia String.
From CC Require Import Theory.Field Theory.Complex Model.Network Model.Format Model.Circuit Model.Annotation Theory.AnnotationThm
  Model.AnnotationPrims Gen.AnnotationGen.
Import ListNotations.
Open Scope Z_scope.

(* ====================================================================================================== *)
(* A. the adapters                                                                                         *)
(* ====================================================================================================== *)
Lemma int_times_Q_sign (r : bool) (x : Q) : int_times_Q (if r then -1 else 1) x = sgnQ r x.
Proof. destruct x as [[|n|n] d], r; reflexivity. Qed.
Lemma int_times_C_sign (r : bool) (z : cval) : int_times_C (if r then -1 else 1) z = sgnC r z.
Proof.
  destruct z as [a b]. unfold int_times_C, sgnC, coppQ. cbn [fst snd].
  change (inject_Z (if r then -1 else 1) * a)%Q with (int_times_Q (if r then -1 else 1) a).
  change (inject_Z (if r then -1 else 1) * b)%Q with (int_times_Q (if r then -1 else 1) b).
  rewrite !int_times_Q_sign. destruct r; reflexivity.
Qed.

Section Adapters.
Variable PO : polar_oracle.
Variable SO : sin_oracle.

(* ---------- SimpleCircuit/Display.py (and the default prefix tables of Utils.py) ---------- *)
Lemma gen_default_prefixes : g_ScientificFloat_prefixes = tab_default /\ g_ScientificComplex_prefixes = tab_default.
Proof. split; reflexivity. Qed.
Lemma gen_print_real_eq (x : Q) (un : label) (p : Z) : g_print_real x un p = print_real x un p.
Proof. reflexivity. Qed.
Lemma gen_print_complex_eq (z : cval) (un : label) (p : Z) (polar deg : bool) :
  g_print_complex PO z un p polar deg = print_complex PO z un p polar deg.
Proof. reflexivity. Qed.
Lemma gen_print_active_power_eq (x : Q) (p : Z) : g_print_active_power x p = print_active_power x p.
Proof. unfold g_print_active_power, print_active_power. cbv zeta. destruct (Qpos x); reflexivity. Qed.
Lemma gen_print_sinosoidal_eq (z : cval) (un : label) (p : Z) (w : Q) (sn deg hz : bool) :
  g_print_sinosoidal SO z un p w sn deg hz = print_sinusoidal SO z un p w sn deg hz.
Proof.
  unfold g_print_sinosoidal, print_sinusoidal, sin_phase, amplitude_text, freq_text, phase_text. cbv zeta.
  change (7378697629483821 # 73786976294838206464)%Q with thr_1em4.
  destruct (Qnum w =? 0); [reflexivity|].
  set (ph := if sn then so_add_halfpi SO (so_arg SO z) else so_arg SO z).
  (* the text is either built by `label += ..` or collected in a list and joined: [concat] / [nth] compute on the latter *)
  destruct (Qgtb (Qabs ph) thr_1em4); destruct sn, hz, deg; try destruct (Qpos ph);
    cbn [app concat nth]; rewrite <- ?app_assoc; cbn [app]; rewrite ?app_nil_r; reflexivity.
Qed.

Lemma gen_empty_eq (q : quantity) (reverse : bool) : sm_get q g_EmptyDiagramSolution reverse = [].
Proof. destruct q; reflexivity. Qed.

Lemma gen_real_eq (sol : dc_solution) (p : Z) (q : quantity) (reverse : bool) :
  sm_get q (g_RealNetworkDiagramSolution sol p) reverse = real_ann q reverse (dc_get sol q) p.
Proof.
  destruct q; cbn [sm_get g_RealNetworkDiagramSolution sm_get_voltage sm_get_current sm_get_power sm_get_potential];
    unfold g_RealNetworkDiagramSolution_get_voltage, g_RealNetworkDiagramSolution_get_current,
      g_RealNetworkDiagramSolution_get_power, g_RealNetworkDiagramSolution_get_potential, real_ann, eff_reverse;
    cbn [takes_reverse andb unit_of]; rewrite ?int_times_Q_sign, ?gen_print_real_eq, ?gen_print_active_power_eq; reflexivity.
Qed.

Lemma gen_complex_eq (sol : cx_solution) (deg polar : bool) (p : Z) (q : quantity) (reverse : bool) :
  sm_get q (g_ComplexNetworkDiagramSolution PO sol deg polar p) reverse = complex_ann PO q reverse (cx_get sol q) p polar deg.
Proof.
  destruct q; cbn [sm_get g_ComplexNetworkDiagramSolution sm_get_voltage sm_get_current sm_get_power sm_get_potential];
    unfold g_ComplexNetworkDiagramSolution_get_voltage, g_ComplexNetworkDiagramSolution_get_current,
      g_ComplexNetworkDiagramSolution_get_power, g_ComplexNetworkDiagramSolution_get_potential, complex_ann, eff_reverse;
    cbn [takes_reverse andb unit_of]; rewrite ?int_times_C_sign, ?gen_print_complex_eq; reflexivity.
Qed.

Lemma gen_time_domain_eq (sol : cx_solution) (deg hertz sn : bool) (p : Z) (q : quantity) (reverse : bool) :
  sm_get q (g_TimeDomainSteadyStateDiagramSolution SO sol deg hertz sn p) reverse
  = sin_ann SO q reverse (cx_get sol q) p (cx_w sol) sn deg hertz.
Proof.
  destruct q; cbn [sm_get g_TimeDomainSteadyStateDiagramSolution sm_get_voltage sm_get_current sm_get_power sm_get_potential];
    unfold g_TimeDomainSteadyStateDiagramSolution_get_voltage, g_TimeDomainSteadyStateDiagramSolution_get_current,
      g_TimeDomainSteadyStateDiagramSolution_get_power, g_TimeDomainSteadyStateDiagramSolution_get_potential, sin_ann, eff_reverse;
    cbn [takes_reverse andb unit_of]; rewrite ?int_times_C_sign, ?gen_print_sinosoidal_eq; reflexivity.
Qed.

(* ====================================================================================================== *)
(* B. draw_*                                                                                               *)
(* ====================================================================================================== *)
Lemma gen_draw_voltage_eq (sm : solution_methods) (el_rev reverse : bool) :
  g_draw_voltage sm el_rev reverse = drawn_spec QVoltage (sm_get QVoltage sm reverse) reverse el_rev false [].
Proof. unfold g_draw_voltage, drawn_spec, label_reverse. destruct el_rev; reflexivity. Qed.
Lemma gen_draw_current_eq (sm : solution_methods) (el_rev reverse end_ : bool) :
  g_draw_current sm el_rev reverse end_ = drawn_spec QCurrent (sm_get QCurrent sm reverse) reverse el_rev end_ [].
Proof. unfold g_draw_current, drawn_spec, label_reverse. destruct el_rev; reflexivity. Qed.
Lemma gen_draw_power_eq (sm : solution_methods) (el_rev reverse : bool) :
  g_draw_power sm el_rev reverse = drawn_spec QPower (sm_get QPower sm reverse) reverse el_rev false [].
Proof. reflexivity. Qed.
Lemma gen_draw_potential_eq (sm : solution_methods) (el_rev : bool) (loc : label) :
  g_draw_potential sm el_rev loc = drawn_spec QPotential (sm_get QPotential sm false) false el_rev false loc.
Proof. reflexivity. Qed.

(* ====================================================================================================== *)
(* C. the factories                                                                                        *)
(* ====================================================================================================== *)
Lemma gen_empty_solution_eq rd q reverse : sm_get q (g_empty_solution rd) reverse = annotation PO SO AdEmpty q reverse (rd q).
Proof. unfold g_empty_solution. rewrite gen_empty_eq. reflexivity. Qed.
Lemma gen_real_solution_eq rd p q reverse :
  sm_get q (g_real_solution rd p) reverse = annotation PO SO (AdReal p) q reverse (rd q).
Proof. unfold g_real_solution. rewrite gen_real_eq. reflexivity. Qed.
Lemma gen_complex_solution_eq rd p polar deg q reverse :
  sm_get q (g_complex_solution PO rd p polar deg) reverse = annotation PO SO (AdComplex None p polar deg) q reverse (rd q).
Proof. unfold g_complex_solution. rewrite gen_complex_eq. reflexivity. Qed.
Lemma gen_single_frequency_complex_solution_eq rd w p polar deg q reverse :
  sm_get q (g_single_frequency_complex_solution PO rd w p polar deg) reverse
  = annotation PO SO (AdComplex (Some w) p polar deg) q reverse (rd q).
Proof. unfold g_single_frequency_complex_solution. rewrite gen_complex_eq. reflexivity. Qed.
(* the time-domain factory has no precision parameter: the dataclass default 3 *)
Lemma gen_time_domain_solution_eq rd w sn deg hertz q reverse :
  sm_get q (g_single_frequency_time_domain_steady_state_solution SO rd w sn deg hertz) reverse
  = annotation PO SO (AdSin w 3 sn deg hertz) q reverse (rd q).
Proof. unfold g_single_frequency_time_domain_steady_state_solution. rewrite gen_time_domain_eq. reflexivity. Qed.
(* the solvers: DC for real_solution; complex for the others, at w (0 for complex_solution), peak values for the sinusoid only *)
Lemma gen_solvers rd w p polar deg sn hertz :
  g_real_solution_solver rd p = DCSolution_of rd /\
  g_complex_solution_solver rd p polar deg = ComplexSolution_of rd 0 false /\
  g_single_frequency_complex_solution_solver rd w p polar deg = ComplexSolution_of rd w false /\
  g_single_frequency_time_domain_steady_state_solution_solver rd w sn deg hertz = ComplexSolution_of rd w true.
Proof. repeat split; reflexivity. Qed.
Lemma gen_factory_solvers :
  g_factory_solvers = [(lbl "empty_solution", None);
                       (lbl "single_frequency_time_domain_steady_state_solution", Some (CplxSol true true));
                       (lbl "single_frequency_complex_solution", Some (CplxSol true false));
                       (lbl "complex_solution", Some (CplxSol false false));
                       (lbl "real_solution", Some DCSol)].
Proof. reflexivity. Qed.

(* ====================================================================================================== *)
(* E. the declarative route                                                                                *)
(* ====================================================================================================== *)
Lemma gen_solutions_eq : g_solutions = solutions.
Proof. reflexivity. Qed.
Lemma gen_sol_signature_eq (f : sol_fn) : g_sol_signature f = sol_signature f.
Proof. destruct f; reflexivity. Qed.

(* the text an adapter object writes, against the model's adapter *)
Definition text_of (q : quantity) (reverse : bool) (sm : solution_methods) : label := sm_get q sm reverse.
Definition model_text (rd : quantity -> reading) (q : quantity) (reverse : bool) (ad : adapter) : label :=
  annotation PO SO ad q reverse (rd q).

Lemma dres_map_dbind {A B C} (f : B -> C) (r : dres A) (k : A -> dres B) :
  dres_map f (dbind r k) = dbind r (fun a => dres_map f (k a)).
Proof. destruct r; reflexivity. Qed.
Lemma dbind_ext {A B} (r : dres A) (k k' : A -> dres B) : (forall a, k a = k' a) -> dbind r k = dbind r k'.
Proof. intros H. destruct r; [apply H|reflexivity]. Qed.

Lemma gen_call_factory_eq (f : sol_fn) rd (params : ddict) q reverse :
  dres_map (text_of q reverse) (g_call_factory PO f rd params) = dres_map (model_text rd q reverse) (call_factory f params).
Proof.
  unfold g_call_factory, call_factory. change gk_schematic with k_schematic.
  destruct (dlook params k_schematic); [reflexivity|].
  destruct f; rewrite ?dres_map_dbind.
  - apply dbind_ext; intros p. cbn [dres_map]. f_equal. apply gen_real_solution_eq.
  - apply dbind_ext; intros p. rewrite !dres_map_dbind. apply dbind_ext; intros po. rewrite !dres_map_dbind.
    apply dbind_ext; intros dg. cbn [dres_map]. f_equal. apply gen_complex_solution_eq.
  - apply dbind_ext; intros w. rewrite !dres_map_dbind. apply dbind_ext; intros p. rewrite !dres_map_dbind.
    apply dbind_ext; intros po. rewrite !dres_map_dbind. apply dbind_ext; intros dg. cbn [dres_map]. f_equal.
    apply gen_single_frequency_complex_solution_eq.
  - cbn [dres_map]. f_equal. apply gen_empty_solution_eq.
Qed.

Lemma gen_select_eq (data : ddict) : table_get g_solutions data gk_type gk_unknown SF_empty = select_solution data.
Proof.
  unfold table_get, select_solution. change gk_type with k_type. rewrite gen_solutions_eq.
  destruct (dlook data k_type) as [[]|]; reflexivity.
Qed.
Lemma gen_creator_eq rd (data : ddict) q reverse :
  dres_map (text_of q reverse) (g_diagram_solution_creator PO rd data)
  = dres_map (model_text rd q reverse) (adapter_of_description data).
Proof.
  unfold g_diagram_solution_creator, adapter_of_description. cbv zeta. rewrite gen_select_eq.
  unfold keep_keys, filter_params.
  rewrite (filter_ext _ (fun kv => lmem (fst kv) (sol_signature (select_solution data))));
    [|intros kv; rewrite gen_sol_signature_eq; reflexivity].
  apply gen_call_factory_eq.
Qed.
Lemma gen_annotation_lists : g_annotation_lists = annotation_lists.
Proof. reflexivity. Qed.
Lemma gen_draw_defaults : g_draw_defaults = draw_defaults.
Proof. reflexivity. Qed.
(* draw_voltage( ** entry) / draw_current / draw_power: `reverse` comes from the entry and is False when absent — the
   default of the model's [entry_reverse]; draw_potential has no such parameter *)
Lemma gen_reverse_default (q : quantity) : q <> QPotential ->
  exists l, In (q, l) g_draw_defaults /\ dlook l k_reverse = Some (DBool false).
Proof.
  intros H. destruct q; try contradiction; eexists; (split; [cbn; eauto 6|reflexivity]).
Qed.
Lemma gen_potential_no_reverse : forall l, In (QPotential, l) g_draw_defaults -> dlook l k_reverse = None.
Proof. intros l [H|[H|[H|[H|[]]]]]; inversion H; subst; reflexivity. Qed.
End Adapters.

(* ====================================================================================================== *)
(* D. Circuit/solution.py: ComplexSolution                                                                 *)
(* ====================================================================================================== *)
Section ComplexSolution.
Variable R : fops.
Variable sqrt2 : R.
Lemma gen_unpeak_voltage (s : csol R) (x : Cx R) : g_ComplexSolution_get_voltage R sqrt2 (cs_peak s) x = unpeak R sqrt2 s x.
Proof. unfold g_ComplexSolution_get_voltage, unpeak. destruct (cs_peak s); reflexivity. Qed.
Lemma gen_unpeak_current (s : csol R) (x : Cx R) : g_ComplexSolution_get_current R sqrt2 (cs_peak s) x = unpeak R sqrt2 s x.
Proof. unfold g_ComplexSolution_get_current, unpeak. destruct (cs_peak s); reflexivity. Qed.
Lemma gen_unpeak_potential (s : csol R) (x : Cx R) : g_ComplexSolution_get_potential R sqrt2 (cs_peak s) x = unpeak R sqrt2 s x.
Proof. unfold g_ComplexSolution_get_potential, unpeak. destruct (cs_peak s); reflexivity. Qed.
Lemma gen_power_scaling (s : csol R) (v i : Cx R) :
  g_ComplexSolution_get_power R (cs_peak s) v i
  = if cs_peak s then fmul (Cx R) (fmul (Cx R) (cre R (half R)) v) (fconj (Cx R) i) else fmul (Cx R) v (fconj (Cx R) i).
Proof. reflexivity. Qed.
End ComplexSolution.
