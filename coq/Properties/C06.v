(* C06 — port behaviour: driving-point impedance and Thevenin/Norton equivalents.
   "The impedance reported between two nodes, or seen by an element, equals the voltage produced by a unit test
   current injected between them with every independent source deactivated (ideal voltage sources shorted, current
   sources opened, internal impedances kept); it is symmetric in the two nodes, independent of the reference node,
   zero for identical nodes or across an ideal voltage source, follows jwL and 1/(jwC) over frequency, and obeys
   series/parallel composition.  Together with the open-circuit voltage and the short-circuit current it is an exact
   equivalent of the port: attaching any load Z_L gives V = Voc*Z_L/(Zth+Z_L), and Isc = Voc/Zth."
   Statements only; every proof is [exact <lemma>] (Theory/PortThm.v, Theory/PortDel.v, Theory/PortCompose.v).
   Model: Model/Port.v ([open_circuit_impedance], [element_impedance], [open_circuit_voltage], [short_circuit_current];
   results [res (option K)], [None] = a non-finite float).
   Vocabulary (Theory/PortThm.v):
     [deactivated n]        = kp_net [] n : every branch through the library's zeroing maps with an empty keep list;
     [probed n a b]         [deactivated n] plus the branch  b -> a  carrying current_source(probe_id, 1), reference node b;
     [PortZ n a b z]        exists phi j, CircuitSpec (probed n a b) phi j /\ z = phi a - phi b;
     [DrivenH n a b c phi j] KCL of n with a current c fed into a and drawn at b (kcl_sum = c*([a=node]-[b=node])) and the
                            element laws of n with the source terms dropped ([hom_law]) — PortZ without the probe branch;
     [ideal_source_between n a b]  some branch between a and b (either orientation) has [is_ideal_voltage_source];
     [all_connected np]     every row of mna_matrix np has a non-zero entry (open_circuit_impedance deletes nothing);
     [loaded n a b lid ZL]  n plus the branch  a -> b  carrying impedance(lid, ZL);  [load_branch a b lid ZL] that branch;
     [single a b e]         the network of the one branch a -> b with element e, reference b;
     [join n1 n2]           branches n1 ++ branches n2, reference of n1. *)
From Coq Require Import List Bool ZArith NArith String.
From CC Require Import Theory.Field Theory.Complex Theory.Labels Model.Network Model.Transformers Model.Port Theory.Spec
  Theory.Mna Theory.MnaComplete Theory.Api Theory.Unique Theory.Linearity Theory.Invariance Model.Circuit
  Theory.PortThm Theory.PortDel Theory.PortCompose.
Import ListNotations.

(* ================= the code's composition is the declarative probed network ================= *)

(* open_circuitify_current_sources (short_circuitify_voltage_sources n []) [] succeeds on a valid network and is
   [deactivated n]; it is literally C04's [keep_only []], whose result has every source term zero. *)
Theorem C06_deactivation : forall (K : fops) (KOK : fops_ok K) (n : network K),
  wf n -> deactivate n = Ok (deactivated n).
Proof. exact deactivate_ok. Qed.
Print Assumptions C06_deactivation.

Theorem C06_deactivation_is_keep_only : forall (K : fops) (n : network K), deactivate n = keep_only [] n.
Proof. exact deactivate_is_keep_only. Qed.
Print Assumptions C06_deactivation_is_keep_only.

Theorem C06_probe_id_unused : forall (K : fops) (n : network K), ~ In (probe_id n) (branch_ids n).
Proof. exact probe_id_fresh. Qed.
Print Assumptions C06_probe_id_unused.

(* after the early exits the model runs [port_solve] on [probed n a b] (both validations succeed) *)
Theorem C06_model_unfolds : forall (K : fops) (KOK : fops_ok K) (n : network K) (a b : label),
  wf n -> a <> b ->
  open_circuit_impedance n a b
  = if ideal_source_between n a b then Ok (Some (f0 K)) else port_solve (probed n a b) a.
Proof. exact oci_unfold. Qed.
Print Assumptions C06_model_unfolds.

(* PortZ says: drive the source-free network with a unit current (no probe branch, no reference node) *)
Theorem C06_portz_driven : forall (K : fops) (KOK : fops_ok K) (n : network K) (a b : label) (z : K), wf n ->
  (PortZ n a b z <-> exists phi jn, DrivenH n a b (f1 K) phi jn /\ z = fsub K (phi a) (phi b)).
Proof. exact PortZ_iff. Qed.
Print Assumptions C06_portz_driven.

(* ================= C06_port: what open_circuit_impedance returns is the port impedance ================= *)

(* Full strength: whenever the model returns a finite value — through either early exit, or through the solver,
   with or without deleted rows — that value satisfies PortZ and is the only one that does. *)
Theorem C06_port : forall (K : fops) (KOK : fops_ok K) (n : network K) (a b : label) (z : K),
  wf n -> open_circuit_impedance n a b = Ok (Some z) ->
  PortZ n a b z /\ (forall z', PortZ n a b z' -> z' = z).
Proof. exact port_sound. Qed.
Print Assumptions C06_port.

(* When no row is deleted the probed network is moreover well-posed (all its potentials and flows are unique). *)
Theorem C06_port_all_connected : forall (K : fops) (KOK : fops_ok K) (n : network K) (a b : label) (z : K),
  wf n -> a <> b -> ideal_source_between n a b = false -> all_connected (probed n a b) = true ->
  open_circuit_impedance n a b = Ok (Some z) ->
  PortZ n a b z /\ WellPosed (probed n a b) /\ (forall z', PortZ n a b z' -> z' = z).
Proof. exact port_all_connected. Qed.
Print Assumptions C06_port_all_connected.

(* element_impedance: the port of the element's nodes in the network with that element removed *)
Theorem C06_element : forall (K : fops) (KOK : fops_ok K) (n : network K) (id : label) (z : K),
  wf n -> element_impedance n id = Ok (Some z) ->
  exists b m, get_branch (branches n) id = Some b /\ remove_element n id = Ok m
    /\ branches m = remove_first b (branches n) /\ zero m = zero n /\ wf m
    /\ open_circuit_impedance m (node1 b) (node2 b) = Ok (Some z)
    /\ PortZ m (node1 b) (node2 b) z /\ (forall z', PortZ m (node1 b) (node2 b) z' -> z' = z).
Proof. exact element_sound. Qed.
Print Assumptions C06_element.

(* ================= C06_zero_cases ================= *)

Theorem C06_zero_identical_nodes : forall (K : fops) (KOK : fops_ok K) (n : network K) (a : label), wf n ->
  open_circuit_impedance n a a = Ok (Some (f0 K)) /\ PortZ n a a (f0 K) /\ (forall z, PortZ n a a z -> z = f0 K).
Proof. exact zero_identical. Qed.
Print Assumptions C06_zero_identical_nodes.

(* An ideal voltage source between the nodes is shorted by the deactivation: phi a = phi b, and it carries the
   test current, so the specification holds without any further assumption. *)
Theorem C06_zero_ideal_source : forall (K : fops) (KOK : fops_ok K) (n : network K) (a b : label),
  wf n -> a <> b -> ideal_source_between n a b = true ->
  open_circuit_impedance n a b = Ok (Some (f0 K)) /\ PortZ n a b (f0 K) /\ (forall z, PortZ n a b z -> z = f0 K).
Proof. exact zero_ideal_source. Qed.
Print Assumptions C06_zero_ideal_source.

(* the form asked for: whatever solves the probed network has phi a = phi b *)
Theorem C06_zero_cases : forall (K : fops) (KOK : fops_ok K) (n : network K) (a b : label),
  ideal_source_between n a b = true ->
  open_circuit_impedance n a b = Ok (Some (f0 K))
  /\ (forall z, PortZ n a b z -> z = f0 K)
  /\ (WellPosed (probed n a b) -> PortZ n a b (f0 K)).
Proof. exact zero_ideal_all. Qed.
Print Assumptions C06_zero_cases.

(* ================= spec-level corollaries ================= *)

Theorem C06_sym : forall (K : fops) (KOK : fops_ok K) (n : network K) (a b : label) (z : K),
  wf n -> PortZ n a b z -> PortZ n b a z.
Proof. exact PortZ_sym. Qed.
Print Assumptions C06_sym.

Theorem C06_sym_model : forall (K : fops) (KOK : fops_ok K) (n : network K) (a b : label) (z z' : K), wf n ->
  open_circuit_impedance n a b = Ok (Some z) -> open_circuit_impedance n b a = Ok (Some z') -> z' = z.
Proof. exact oci_sym. Qed.
Print Assumptions C06_sym_model.

(* the reference node of n is not even mentioned by the probed network *)
Theorem C06_reground : forall (K : fops) (g : label) (n : network K) (a b : label),
  probed (reground g n) a b = probed n a b.
Proof. exact probed_reground. Qed.
Print Assumptions C06_reground.

Theorem C06_reground_portz : forall (K : fops) (g : label) (n : network K) (a b : label) (z : K),
  PortZ (reground g n) a b z <-> PortZ n a b z.
Proof. exact PortZ_reground. Qed.
Print Assumptions C06_reground_portz.

Theorem C06_reground_model : forall (K : fops) (KOK : fops_ok K) (g : label) (n : network K) (a b : label),
  wf n -> In g (node_labels n) ->
  open_circuit_impedance (reground g n) a b = open_circuit_impedance n a b.
Proof. exact oci_reground. Qed.
Print Assumptions C06_reground_model.

(* two networks with the same skeleton (terminals, ids, admittances eY position by position; source values free) *)
Theorem C06_sources_irrelevant : forall (K : fops) (KOK : fops_ok K) (n n' : network K) (a b : label) (z : K),
  wf n -> skel n n' -> (PortZ n a b z <-> PortZ n' a b z).
Proof. exact PortZ_skel. Qed.
Print Assumptions C06_sources_irrelevant.

Theorem C06_sources_scaled : forall (K : fops) (KOK : fops_ok K) (c : K) (n : network K) (a b : label) (z : K),
  wf n -> (PortZ n a b z <-> PortZ (scale_net c n) a b z).
Proof. exact PortZ_scale. Qed.
Print Assumptions C06_sources_scaled.

Theorem C06_sources_scaled_model : forall (K : fops) (KOK : fops_ok K) (c : K) (n : network K) (a b : label) (z z' : K),
  wf n -> open_circuit_impedance n a b = Ok (Some z) ->
  open_circuit_impedance (scale_net c n) a b = Ok (Some z') -> z' = z.
Proof. exact oci_scale. Qed.
Print Assumptions C06_sources_scaled_model.

(* ---- composition ---- *)
Theorem C06_single_element : forall (K : fops) (KOK : fops_ok K) (a b : label) (e : elem K) (y : K),
  a <> b -> eY e = Some y -> y <> f0 K ->
  PortZ (single a b e) a b (fdiv K (f1 K) y) /\ (forall z, PortZ (single a b e) a b z -> z = fdiv K (f1 K) y).
Proof. exact PortZ_single. Qed.
Print Assumptions C06_single_element.

Theorem C06_series : forall (K : fops) (KOK : fops_ok K) (n1 n2 : network K) (a m b : label) (z1 z2 : K),
  wf n1 -> wf n2 -> wf (join n1 n2) ->
  (forall l, In l (endpoints n1) -> In l (endpoints n2) -> l = m) ->
  In a (endpoints n1) -> ~ In b (endpoints n1) ->
  PortZ n1 a m z1 -> PortZ n2 m b z2 -> PortZ (join n1 n2) a b (fadd K z1 z2).
Proof. exact PortZ_series. Qed.
Print Assumptions C06_series.

Theorem C06_parallel : forall (K : fops) (KOK : fops_ok K) (n1 n2 : network K) (a b : label) (z1 z2 : K),
  wf n1 -> wf n2 -> wf (join n1 n2) ->
  (forall l, In l (endpoints n1) -> In l (endpoints n2) -> l = a \/ l = b) ->
  In a (endpoints n1) -> In b (endpoints n1) -> fadd K z1 z2 <> f0 K ->
  PortZ n1 a b z1 -> PortZ n2 a b z2 -> PortZ (join n1 n2) a b (fdiv K (fmul K z1 z2) (fadd K z1 z2)).
Proof. exact PortZ_parallel. Qed.
Print Assumptions C06_parallel.

(* ---- over frequency: the branches transform_circuit emits (R a formally real field, Cx R its complex numbers) ---- *)
Theorem C06_inductor : forall (R : fops) (ROK : fops_ok R)
  (Rreal : forall x y : R, fadd R (fmul R x x) (fmul R y y) = f0 R -> x = f0 R /\ y = f0 R)
  (c : comp R) (w L : R) (br : branch (Cx R)),
  vget R c "L" = Ok L -> t_inductance R c w = Ok br -> node1 br <> node2 br -> fmul R w L <> f0 R ->
  PortZ (single (node1 br) (node2 br) (el br)) (node1 br) (node2 br) (cim R (fmul R w L))
  /\ (forall z, PortZ (single (node1 br) (node2 br) (el br)) (node1 br) (node2 br) z -> z = cim R (fmul R w L)).
Proof. exact inductor_impedance. Qed.
Print Assumptions C06_inductor.

Theorem C06_capacitor : forall (R : fops) (ROK : fops_ok R)
  (Rreal : forall x y : R, fadd R (fmul R x x) (fmul R y y) = f0 R -> x = f0 R /\ y = f0 R)
  (c : comp R) (w Cv : R) (br : branch (Cx R)),
  vget R c "C" = Ok Cv -> t_capacitor R c w = Ok br -> node1 br <> node2 br -> fmul R w Cv <> f0 R ->
  PortZ (single (node1 br) (node2 br) (el br)) (node1 br) (node2 br) (fdiv (Cx R) (f1 (Cx R)) (cim R (fmul R w Cv)))
  /\ (forall z, PortZ (single (node1 br) (node2 br) (el br)) (node1 br) (node2 br) z ->
                z = fdiv (Cx R) (f1 (Cx R)) (cim R (fmul R w Cv))).
Proof. exact capacitor_impedance. Qed.
Print Assumptions C06_capacitor.

(* ================= Thevenin / Norton ================= *)

(* n well-posed with open-circuit solution (phi0, j0), Zth its port impedance, a load ZL with Zth + ZL <> 0 attached
   under an unused id: the loaded network is well-posed again and every solution of it carries Voc/(Zth+ZL) through
   the load, the load voltage being Voc*ZL/(Zth+ZL). *)
Theorem C06_thevenin : forall (K : fops) (KOK : fops_ok K) (n : network K) (a b lid : label) (ZL Zth : K)
  (phi0 : label -> K) (j0 : branch K -> K),
  wf n -> WellPosed n -> CircuitSpec n phi0 j0 -> In a (node_labels n) -> In b (node_labels n) ->
  PortZ n a b Zth -> fadd K Zth ZL <> f0 K -> ~ In lid (branch_ids n) ->
  WellPosed (loaded n a b lid ZL)
  /\ (forall phi j, CircuitSpec (loaded n a b lid ZL) phi j ->
        j (load_branch a b lid ZL) = fdiv K (fsub K (phi0 a) (phi0 b)) (fadd K Zth ZL)
        /\ fsub K (phi a) (phi b) = fdiv K (fmul K (fsub K (phi0 a) (phi0 b)) ZL) (fadd K Zth ZL)).
Proof. exact thevenin_all. Qed.
Print Assumptions C06_thevenin.

(* the same on the values the library reports: Zth from open_circuit_impedance, Voc from open_circuit_voltage,
   the load voltage from the bias-point solution of the loaded network *)
Theorem C06_thevenin_model : forall (K : fops) (KOK : fops_ok K) (n : network K) (a b lid : label) (ZL z v : K),
  wf n -> a <> b ->
  open_circuit_impedance n a b = Ok (Some z) -> open_circuit_voltage n a b = Ok v ->
  fadd K z ZL <> f0 K -> ~ In lid (branch_ids n) ->
  exists s, solve_network (loaded n a b lid ZL) = Ok s
            /\ get_voltage s lid = Ok (fdiv K (fmul K v ZL) (fadd K z ZL)).
Proof. exact thevenin_model. Qed.
Print Assumptions C06_thevenin_model.

(* Norton: a short circuit across the port (ZL = 0) carries Voc/Zth *)
Theorem C06_norton : forall (K : fops) (KOK : fops_ok K) (n : network K) (a b lid : label) (z v : K)
  (phi : label -> K) (j : branch K -> K),
  wf n -> a <> b -> open_circuit_voltage n a b = Ok v -> PortZ n a b z -> z <> f0 K ->
  CircuitSpec (loaded n a b lid (f0 K)) phi j -> j (load_branch a b lid (f0 K)) = fdiv K v z.
Proof. exact norton_short. Qed.
Print Assumptions C06_norton.

(* and that is what short_circuit_current reports *)
Theorem C06_norton_model : forall (K : fops) (KOK : fops_ok K) (n : network K) (a b lid : label) (z i : K),
  wf n -> a <> b ->
  open_circuit_impedance n a b = Ok (Some z) -> short_circuit_current n a b = Ok (Some i) ->
  z <> f0 K /\ forall phi j, CircuitSpec (loaded n a b lid (f0 K)) phi j -> j (load_branch a b lid (f0 K)) = i.
Proof. exact norton_model_full. Qed.
Print Assumptions C06_norton_model.

(* ================= examples over CQ: the hypotheses are satisfiable, the values are the expected ones ================= *)
Definition lb (z : Z) : label := [Z.to_N z].
Definition n0 := lb 48. Definition n1 := lb 49. Definition n2 := lb 50. Definition n3 := lb 51. Definition n5 := lb 53.
Definition q (a : Z) (b : positive) : CQ := cq a b 0 1.

(* divider with an ideal source: V = 10 V ideal 1-0, R1 = 10 (1-2), R2 = 20 (2-0) *)
Definition divider : network CQ :=
  {| branches := [ Build_branch n1 n0 (voltage_source (lb 86) (q 10 1) (q 0 1));
                   Build_branch n1 n2 (resistor [82; 49]%N (q 10 1));
                   Build_branch n2 n0 (resistor [82; 50]%N (q 20 1)) ];
     zero := n0 |}.

Example C06_ex_divider_wf : wfb divider = true. Proof. vm_compute. reflexivity. Qed.
(* the ideal source is shorted, not opened: 10 || 20 = 20/3, not 20 *)
Example C06_ex_divider : open_circuit_impedance divider n2 n0 = Ok (Some (q 20 3)). Proof. vm_compute. reflexivity. Qed.
Example C06_ex_divider_hyps :
  ideal_source_between divider n2 n0 = false /\ all_connected (probed divider n2 n0) = true /\ n2 <> n0.
Proof. split; [vm_compute; reflexivity|]. split; [vm_compute; reflexivity|discriminate]. Qed.
Example C06_ex_divider_portz : PortZ divider n2 n0 (q 20 3) /\ WellPosed (probed divider n2 n0).
Proof. destruct (wfb_ok divider C06_ex_divider_wf) as [WF _]. destruct C06_ex_divider_hyps as [H1 [H2 H3]].
  destruct (C06_port_all_connected CQ CQ_ok divider n2 n0 _ WF H3 H1 H2 C06_ex_divider) as [P [W _]]. split; assumption. Qed.
Example C06_ex_probe_id : probe_id divider = [112; 114; 111; 98; 101]%N. Proof. vm_compute. reflexivity. Qed.
Example C06_ex_probe_id_taken :
  probe_id {| branches := [Build_branch n1 n0 (resistor [112; 114; 111; 98; 101]%N (q 1 1));
                           Build_branch n1 n0 (resistor [112; 114; 111; 98; 101; 95]%N (q 1 1))]; zero := n0 |}
  = [112; 114; 111; 98; 101; 95; 95]%N.
Proof. vm_compute. reflexivity. Qed.

(* a node hanging on an open circuit: its row is deleted, the value is unchanged *)
Definition divider_open : network CQ :=
  {| branches := branches divider ++ [Build_branch n2 n5 (open_circuit (lb 79))]; zero := n0 |}.
Example C06_ex_deleted_row :
  wfb divider_open = true /\ all_connected (probed divider_open n2 n0) = false
  /\ open_circuit_impedance divider_open n2 n0 = Ok (Some (q 20 3))
  /\ open_circuit_impedance divider_open n5 n0 = Ok None.
Proof. repeat split; vm_compute; reflexivity. Qed.

(* the shipped example_network_10 reduced: R3 = 30 (3-0), R5 = 50 (2-3), U2 = 2 V ideal (2-1); port (2,0) sees 80 *)
Definition ex10 : network CQ :=
  {| branches := [ Build_branch n3 n0 (resistor [82; 51]%N (q 30 1));
                   Build_branch n2 n3 (resistor [82; 53]%N (q 50 1));
                   Build_branch n2 n1 (voltage_source [85; 50]%N (q 2 1) (q 0 1)) ];
     zero := n0 |}.
Example C06_ex_network_10 :
  wfb ex10 = true /\ open_circuit_impedance ex10 n2 n0 = Ok (Some (q 80 1))
  /\ open_circuit_impedance ex10 n1 n0 = Ok (Some (q 80 1)).
Proof. repeat split; vm_compute; reflexivity. Qed.

(* the two early exits *)
Example C06_ex_zero_cases :
  open_circuit_impedance divider n2 n2 = Ok (Some (q 0 1))
  /\ ideal_source_between divider n1 n0 = true /\ n1 <> n0
  /\ open_circuit_impedance divider n1 n0 = Ok (Some (q 0 1))
  /\ open_circuit_impedance divider n0 n1 = Ok (Some (q 0 1)).
Proof. repeat split; try (vm_compute; reflexivity). discriminate. Qed.

(* symmetry, reference node, source values *)
Example C06_ex_sym : open_circuit_impedance divider n0 n2 = Ok (Some (q 20 3)). Proof. vm_compute. reflexivity. Qed.
Example C06_ex_reground :
  lmem n2 (node_labels divider) = true
  /\ open_circuit_impedance (reground n2 divider) n2 n0 = Ok (Some (q 20 3)).
Proof. split; vm_compute; reflexivity. Qed.
Example C06_ex_scaled : open_circuit_impedance (scale_net (cq 3 1 (-2) 1) divider) n2 n0 = Ok (Some (q 20 3)).
Proof. vm_compute. reflexivity. Qed.
Example C06_ex_element_impedance :
  element_impedance divider [82; 50]%N = Ok (Some (q 10 1))          (* R2 sees R1 through the shorted source *)
  /\ element_impedance divider [82; 49]%N = Ok (Some (q 20 1))
  /\ element_impedance divider (lb 86) = Ok (Some (q 30 1))
  /\ element_impedance divider (lb 88) = Err EKeyError.
Proof. repeat split; vm_compute; reflexivity. Qed.

(* Thevenin: Voc = 20/3, Zth = 20/3; a load of 5 sees 20/7; Norton: Isc = 1 *)
Example C06_ex_thevenin_hyps :
  open_circuit_voltage divider n2 n0 = Ok (q 20 3)
  /\ fadd CQ (q 20 3) (q 5 1) <> f0 CQ
  /\ lmem (lb 76) (branch_ids divider) = false
  /\ uniqb divider = true /\ solvedb divider = true.
Proof. split; [vm_compute; reflexivity|]. split; [discriminate|]. repeat split; vm_compute; reflexivity. Qed.
Example C06_ex_thevenin :
  exists s, solve_network (loaded divider n2 n0 (lb 76) (q 5 1)) = Ok s /\ get_voltage s (lb 76) = Ok (q 20 7).
Proof. destruct (wfb_ok divider C06_ex_divider_wf) as [WF _]. destruct C06_ex_thevenin_hyps as [HV [NZ [FR _]]].
  destruct (C06_thevenin_model CQ CQ_ok divider n2 n0 (lb 76) (q 5 1) _ _ WF (proj2 (proj2 C06_ex_divider_hyps))
              C06_ex_divider HV NZ (proj1 (lmem_false _ _) FR)) as [s [Hs Hg]].
  exists s. split; [exact Hs|]. rewrite Hg. vm_compute. reflexivity. Qed.
Example C06_ex_norton : short_circuit_current divider n2 n0 = Ok (Some (q 1 1)). Proof. vm_compute. reflexivity. Qed.
Example C06_ex_scc_cases :
  short_circuit_current divider n2 n2 = Err EZeroDivision      (* int 0 / int 0 *)
  /\ short_circuit_current divider n1 n0 = Ok None.            (* numpy V / 0 = inf *)
Proof. repeat split; vm_compute; reflexivity. Qed.

(* series and parallel: 10 between 1 and 2, 20 between 2 and 0 resp. 1 and 0 *)
Definition one (a b : label) (id : label) (r : CQ) : network CQ :=
  {| branches := [Build_branch a b (resistor id r)]; zero := b |}.
Example C06_ex_series_hyps :
  wfb (one n1 n2 (lb 65) (q 10 1)) = true /\ wfb (one n2 n0 (lb 66) (q 20 1)) = true
  /\ wfb (join (one n1 n2 (lb 65) (q 10 1)) (one n2 n0 (lb 66) (q 20 1))) = true
  /\ open_circuit_impedance (one n1 n2 (lb 65) (q 10 1)) n1 n2 = Ok (Some (q 10 1))
  /\ open_circuit_impedance (one n2 n0 (lb 66) (q 20 1)) n2 n0 = Ok (Some (q 20 1))
  /\ open_circuit_impedance (reground n0 (join (one n1 n2 (lb 65) (q 10 1)) (one n2 n0 (lb 66) (q 20 1)))) n1 n0
     = Ok (Some (q 30 1)).
Proof. repeat split; vm_compute; reflexivity. Qed.
Example C06_ex_series_nodes :
  (forall l, In l (endpoints (one n1 n2 (lb 65) (q 10 1))) -> In l (endpoints (one n2 n0 (lb 66) (q 20 1))) -> l = n2)
  /\ In n1 (endpoints (one n1 n2 (lb 65) (q 10 1))) /\ ~ In n0 (endpoints (one n1 n2 (lb 65) (q 10 1))).
Proof. split; [|split].
  - intros l H1 H2. simpl in H1, H2.
    destruct H1 as [<-|[<-|[]]]; destruct H2 as [H|[H|[]]]; try reflexivity; try discriminate H.
  - left. reflexivity.
  - intros [H|[H|[]]]; discriminate. Qed.
Example C06_ex_parallel_hyps :
  wfb (join (one n1 n0 (lb 65) (q 10 1)) (one n1 n0 (lb 66) (q 20 1))) = true
  /\ fadd CQ (q 10 1) (q 20 1) <> f0 CQ
  /\ open_circuit_impedance (join (one n1 n0 (lb 65) (q 10 1)) (one n1 n0 (lb 66) (q 20 1))) n1 n0
     = Ok (Some (fdiv CQ (fmul CQ (q 10 1) (q 20 1)) (fadd CQ (q 10 1) (q 20 1)))).
Proof. split; [vm_compute; reflexivity|]. split; [discriminate|vm_compute; reflexivity]. Qed.

(* jwL: an inductance of 2 H between 1 and 0 at w = 3 is seen as 6j *)
Definition coil : comp Qcops :=
  @Build_comp Qcops KInductance (lb 76) [n1; n0] [(lbl "L", qc 2 1)] [] (qc 1 1, qc 0 1) [].
Example C06_ex_inductor :
  vget Qcops coil "L" = Ok (qc 2 1)
  /\ t_inductance Qcops coil (qc 3 1) = Ok (Build_branch n1 n0 (impedance (lb 76) (cim Qcops (qc 6 1))))
  /\ open_circuit_impedance (single n1 n0 (impedance (lb 76) (cim Qcops (qc 6 1)))) n1 n0 = Ok (Some (cq 0 1 6 1)).
Proof. repeat split; vm_compute; reflexivity. Qed.
