(* C01c — the base layer of the model IS the source: every definition that tools/gen_network.py regenerates from
   Network/elements.py, Network/network.py, NodalAnalysis/label_mapping.py, NodalAnalysis/solution.py and
   NodalAnalysis/bias_point_analysis.py (Gen/NetworkGen.v, rewritten on every run) is equal to the hand-written
   definition of Model/Network.v that C01 / C03 / C04 / C05 are stated about.
   Statements only; every proof is [exact <lemma>] (lemmas: Theory/NetworkGenThm.v).  Generic in the field. *)
From Coq Require Import String.
From Coq Require Import List Bool ZArith NArith.
From CC Require Import Theory.Field Theory.Complex Theory.Labels Model.Network Model.Transformers Model.NetworkPrims
  Gen.NetworkGen Theory.Spec Theory.Mna Theory.Api Theory.NetworkGenThm.
Import ListNotations.

(* ====================== elements.py ====================== *)
(* the derived properties Y, I of NortenElement and Z, V of TheveninElement (try: a/b except ZeroDivisionError),
   and the plain fields, dispatched on the class *)
Theorem C01c_derived_properties : forall (K : fops) (e : elem K),
  py_elements.get_name K e = ename e /\ py_elements.get_type K e = ekind e /\
  py_elements.get_Z K e = eZ e /\ py_elements.get_Y K e = eY e /\
  py_elements.get_V K e = eV e /\ py_elements.get_I K e = eI e.
Proof. exact (fun K e => conj (get_name_eq K e) (conj (get_type_eq K e) (conj (get_Z_eq K e) (conj (get_Y_eq K e)
  (conj (get_V_eq K e) (get_I_eq K e)))))). Qed.
Print Assumptions C01c_derived_properties.

(* which of np.inf / np.nan each handler returns ([None] stands for both in the model: inf for Y, Z; nan for I, V) *)
Theorem C01c_zero_division_values : zero_division_values =
  [ (codes "TheveninElement", codes "Z", codes "inf"); (codes "NortenElement", codes "Y", codes "inf");
    (codes "TheveninElement", codes "V", codes "nan"); (codes "NortenElement", codes "I", codes "nan") ].
Proof. exact zero_division_values_eq. Qed.
Print Assumptions C01c_zero_division_values.

(* constructors: class, type string, which argument goes to which field, the literal zeros, the default values *)
Theorem C01c_constructors : forall (K : fops) (n : label) (a b : K),
  py_elements.impedance K n a = impedance n a /\ py_elements.admittance K n a = admittance n a /\
  py_elements.resistor K n a = resistor n a /\ py_elements.conductor K n a = conductor n a /\
  py_elements.voltage_source K n a b = voltage_source n a b /\
  py_elements.current_source K n a b = current_source n a b /\
  py_elements.open_circuit K n = open_circuit n /\ py_elements.short_circuit K n = short_circuit n /\
  py_elements.voltage_source__default_Z K = f0 K /\ py_elements.current_source__default_Y K = f0 K.
Proof. exact (fun K n a b => conj (impedance_eq K n a) (conj (admittance_eq K n a) (conj (resistor_eq K n a)
  (conj (conductor_eq K n a) (conj (voltage_source_eq K n a b) (conj (current_source_eq K n a b)
  (conj (open_circuit_eq K n) (conj (short_circuit_eq K n) (element_defaults_eq K))))))))). Qed.
Print Assumptions C01c_constructors.

(* the seven classification predicates *)
Theorem C01c_predicates : forall (K : fops) (e : elem K),
  py_elements.is_voltage_source K e = is_voltage_source e /\
  py_elements.is_current_source K e = is_current_source e /\
  py_elements.is_ideal_voltage_source K e = is_ideal_voltage_source e /\
  py_elements.is_ideal_current_source K e = is_ideal_current_source e /\
  py_elements.is_active K e = is_active e /\
  py_elements.is_short_circuit K e = is_short_circuit e /\
  py_elements.is_open_circuit K e = is_open_circuit e.
Proof. exact (fun K e => conj (is_voltage_source_eq K e) (conj (is_current_source_eq K e)
  (conj (is_ideal_voltage_source_eq K e) (conj (is_ideal_current_source_eq K e) (conj (is_active_eq K e)
  (conj (is_short_circuit_eq K e) (is_open_circuit_eq K e))))))). Qed.
Print Assumptions C01c_predicates.

(* ====================== network.py ====================== *)
Theorem C01c_branch_id : forall (K : fops) (b : branch K), py_network.Branch_id K b = bid b.
Proof. exact Branch_id_eq. Qed.
Print Assumptions C01c_branch_id.
Theorem C01c_branch_ids : forall (K : fops) (n : network K), py_network.Network_branch_ids K n = branch_ids n.
Proof. exact branch_ids_eq. Qed.
Print Assumptions C01c_branch_ids.
(* sorted union of the two node sets; [node_zero_label] alone for the empty network *)
Theorem C01c_node_labels : forall (K : fops) (n : network K), py_network.Network_node_labels K n = node_labels n.
Proof. exact node_labels_eq. Qed.
Theorem C01c_number_of_nodes : forall (K : fops) (n : network K),
  py_network.Network_number_of_nodes K n = length (node_labels n).
Proof. exact number_of_nodes_eq. Qed.
Print Assumptions C01c_number_of_nodes.
Theorem C01c_is_zero_node : forall (K : fops) (n : network K) (l : label),
  py_network.Network_is_zero_node K n l = label_eqb l (zero n).
Proof. exact is_zero_node_eq. Qed.
Print Assumptions C01c_is_zero_node.
Print Assumptions C01c_node_labels.

(* Network.__post_init__: the two checks, their order, the exception classes *)
Theorem C01c_validate : forall (K : fops) (n : network K),
  bind (py_network.Network___post_init__ K n) (fun _ => Ok n) = validate n.
Proof. exact post_init_eq. Qed.
Print Assumptions C01c_validate.
(* Network(branches, node_zero_label): the record, validated *)
Theorem C01c_constructor_validates : forall (K : fops) (bs : list (branch K)) (z : label),
  py_network.Network__new K bs z = validate {| branches := bs; zero := z |}.
Proof. exact Network_new_eq. Qed.
Print Assumptions C01c_constructor_validates.
Theorem C01c_default_zero_label : forall K : fops, py_network.Network__default_node_zero_label K = codes "0".
Proof. exact default_zero_label_eq. Qed.
Print Assumptions C01c_default_zero_label.

(* Network.__getitem__: the last branch with that id; KeyError *)
Theorem C01c_getitem : forall (K : fops) (n : network K) (id : label),
  py_network.Network___getitem__ K n id
  = match get_branch (branches n) id with Some b => Ok b | None => Err EKeyError end.
Proof. exact getitem_eq. Qed.
Print Assumptions C01c_getitem.

(* ====================== label_mapping.py ====================== *)
Theorem C01c_mappers : forall (K : fops) (n : network K),
  py_label_mapping.alphabetic_node_mapper K n = node_index n /\
  py_label_mapping.alphabetic_current_source_mapper K n = cs_index n /\
  py_label_mapping.alphabetic_voltage_source_mapper K n = vs_index n /\
  py_label_mapping.alphabetic_source_mapper K n = source_index n /\
  py_label_mapping.default_node_mapper K n = node_index n /\
  py_label_mapping.default_source_mapper K n = source_index n.
Proof. exact (fun K n => conj (alphabetic_node_mapper_eq K n) (conj (alphabetic_current_source_mapper_eq K n)
  (conj (alphabetic_voltage_source_mapper_eq K n) (conj (alphabetic_source_mapper_eq K n) (default_mappers_eq K n))))). Qed.
Print Assumptions C01c_mappers.

(* ====================== solution.py / bias_point_analysis.py ====================== *)
(* the mappings a solution object uses are the default (alphabetic) ones *)
Theorem C01c_solution_mappings : forall (K : fops) (s : solution K),
  py_nodal.NodalAnalysisSolution__node_mapping K s = node_index (s_net s) /\
  py_nodal.NodalAnalysisSolution__current_source_mapping K s = cs_index (s_net s) /\
  py_nodal.NodalAnalysisSolution__voltage_source_mapping K s = vs_index (s_net s).
Proof. exact (fun K s => conj (node_mapping_eq K s) (conj (current_source_mapping_eq K s) (voltage_source_mapping_eq K s))). Qed.
Print Assumptions C01c_solution_mappings.

Theorem C01c_get_potential : forall (K : fops) (s : solution K) (l : label),
  py_nodal.NodalAnalysisBiasPointSolution_get_potential K s l = get_potential s l.
Proof. exact get_potential_eq. Qed.
Print Assumptions C01c_get_potential.
Theorem C01c_get_voltage : forall (K : fops) (s : solution K) (id : label),
  py_nodal.NodalAnalysisSolution_get_voltage K s id = get_voltage s id.
Proof. exact get_voltage_eq. Qed.
Print Assumptions C01c_get_voltage.

(* get_current: the order of the four cases, -(I + v/Z), v/Z.  The source reads the voltage-source currents from the
   slice [-N:] of the solution vector, the model from position [number of nodes + index]: the same for a vector of
   the length of the MNA system ... *)
Theorem C01c_get_current : forall (K : fops) (s : solution K) (id : label),
  length (s_x s) = (length (node_index (s_net s)) + length (vs_index (s_net s)))%nat ->
  py_nodal.NodalAnalysisBiasPointSolution_get_current K s id = get_current s id.
Proof. exact get_current_eq. Qed.
Print Assumptions C01c_get_current.
Theorem C01c_get_power : forall (K : fops) (s : solution K) (id : label),
  length (s_x s) = (length (node_index (s_net s)) + length (vs_index (s_net s)))%nat ->
  py_nodal.NodalAnalysisSolution_get_power K s id = get_power s id.
Proof. exact get_power_eq. Qed.
Print Assumptions C01c_get_power.
(* ... which every solution returned by the solver has *)
Theorem C01c_solved_length : forall (K : fops) (KOK : fops_ok K) (n : network K) (s : solution K),
  solve_network n = Ok s -> length (s_x s) = (length (node_index (s_net s)) + length (vs_index (s_net s)))%nat.
Proof. exact solve_network_length. Qed.
Print Assumptions C01c_solved_length.
Theorem C01c_get_current_solved : forall (K : fops) (KOK : fops_ok K) (n : network K) (s : solution K) (id : label),
  solve_network n = Ok s ->
  py_nodal.NodalAnalysisBiasPointSolution_get_current K s id = get_current s id /\
  py_nodal.NodalAnalysisSolution_get_power K s id = get_power s id.
Proof. exact (fun K KOK n s id H => conj (get_current_eq K s id (solve_network_length K KOK n s H))
                                         (get_power_eq K s id (solve_network_length K KOK n s H))). Qed.
Print Assumptions C01c_get_current_solved.

(* ---- non-vacuity: a concrete network (ideal source, linear source, current source, parallel branches, labels
   '10' < '9') is solved by the model; the regenerated accessors, run on that solution, return every case of the chain ---- *)
Definition L (z : Z) : label := [Z.to_N z].
Definition ex_net : network CQ :=
  {| zero := L 48;
     branches := [ Build_branch (L 49) (L 48) (voltage_source (L 86) (cq 5 1 1 1) (cq 0 1 0 1));
                   Build_branch (L 49) [49%N; 48%N] (resistor (L 82) (cq 2 1 0 1));
                   Build_branch [49%N; 48%N] (L 57) (impedance (L 90) (cq 3 1 4 1));
                   Build_branch (L 57) [49%N; 48%N] (admittance (L 89) (cq 1 2 (-1) 4));
                   Build_branch (L 48) (L 57) (voltage_source (L 76) (cq 7 1 0 1) (cq 2 1 1 1));
                   Build_branch (L 57) (L 49) (current_source (L 73) (cq (-2) 1 1 2) (cq 0 1 0 1)) ] |}.
Definition ex_sol : solution CQ :=
  match solve_network ex_net with Ok s => s | Err _ => {| s_net := ex_net; s_x := [] |} end.
Definition is_ok {A} (r : res A) : bool := match r with Ok _ => true | Err _ => false end.
Definition res_eqb (a b : res CQ) : bool :=
  match a, b with Ok x, Ok y => feqb CQ x y | Err e, Err e' => true | _, _ => false end.
Definition nonzero (r : res CQ) : bool := match r with Ok x => negb (feqb CQ x (f0 CQ)) | Err _ => false end.
Example C01c_example_solved : is_ok (solve_network ex_net) = true.
Proof. vm_compute. reflexivity. Qed.
Example C01c_example_length :
  length (s_x ex_sol) = (length (node_index (s_net ex_sol)) + length (vs_index (s_net ex_sol)))%nat.
Proof. vm_compute. reflexivity. Qed.
(* ideal voltage source / ideal current source / linear source / passive element: each case of the chain returns a
   non-zero current, the same as the model's; an unknown id is a KeyError *)
Example C01c_example_currents :
  forallb (fun id => nonzero (py_nodal.NodalAnalysisBiasPointSolution_get_current CQ ex_sol id)
                     && res_eqb (py_nodal.NodalAnalysisBiasPointSolution_get_current CQ ex_sol id) (get_current ex_sol id))
          [L 86; L 73; L 76; L 82] = true
  /\ py_nodal.NodalAnalysisBiasPointSolution_get_current CQ ex_sol (L 88) = Err EKeyError.
Proof. split; vm_compute; reflexivity. Qed.
Example C01c_example_validate :
  py_network.Network___post_init__ CQ ex_net = Ok tt
  /\ py_network.Network___post_init__ CQ {| branches := branches ex_net; zero := L 50 |} = Err EFloatingGround
  /\ py_network.Network___post_init__ CQ {| branches := branches ex_net ++ branches ex_net; zero := L 48 |} = Err EAmbiguousIDs
  /\ py_network.Network___post_init__ CQ {| branches := branches ex_net ++ branches ex_net; zero := L 50 |} = Err EFloatingGround
  /\ py_network.Network___post_init__ CQ {| branches := []; zero := L 50 |} = Ok tt.
Proof. repeat split; vm_compute; reflexivity. Qed.
