(* C08 — Fourier series of the built-in periodic waveforms are the true coefficients.
   Statements only; every proof is [exact <lemma>].
   Gen/Periodic.v is TRANSLATED (tools/gen_periodic.py, fail-closed) from SignalProcessing/periodic_functions.py:
   the six time functions and the six pairs of coefficient functions, generic in a record [rops] of real operations,
   plus the tables wavetypes / harmonics_of / periodic_functions.  Here they are instantiated at Coq's R ([ROps]:
   rofZ = IZR, rpi = PI, rmod x T = x - T * floor (x / T), rltb = decidable <).  Model/Harmonics.v models by hand
   AbstractHarmonicCoefficients.{amplitude, phase, a, b, c}, fourier_series and periodic_function (source text pinned
   by the translator).
   Assumptions reported: the classical real numbers of the standard library (sig_not_dec, sig_forall_dec,
   functional_extensionality_dep, classic), through Reals/Coquelicot; nothing else.
   STATUS: the coefficient identities are proved for all six waveforms, every period T > 0, amplitude, phase and offset
   and every order n >= 0; the a/b/c forms, the symmetry n -> -n and the lookup are proved.  The clause "equals the
   series in the mean-square sense with the energy given by Parseval" is STATED here ([C08_parseval_full]) and PROVED in
   Properties/C08e.v ([C08_parseval_full_holds], via the exact truncation error of C08d.v and the Basel / zeta(4) sums of
   Theory/Basel.v). *)
From Coq Require Import QArith.
From Coq Require Import Reals ZArith NArith List Bool.
Set Warnings "-ambiguous-paths".
From Coquelicot Require Import Coquelicot.
From CC Require Import Model.Network Model.Rops Model.RopsQ Theory.RopsR Gen.Periodic Model.Harmonics
  Theory.Fourier Theory.FourierWaves Theory.HarmonicsTh.
Import ListNotations.
Open Scope R_scope.

(* ---- per waveform: mean value (n = 0) and, for n >= 1, the cosine and sine integrals over one period;
   i.e. amplitude(n) * cos (n w0 t + phase(n)) is exactly the n-th harmonic of the waveform's own time function ---- *)

(* ConstantFunction ignores its [offset] both in the time function and in the harmonics (amplitude0 for n = 0). *)
Theorem C08_const : forall T A phi off : R, 0 < T ->
  is_RInt (const_time ROps T A phi off) 0 T (T * const_amplitude ROps A phi off 0) /\
  forall n : Z, (1 <= n)%Z ->
    is_RInt (fun t => const_time ROps T A phi off t * cos (IZR n * (2 * PI / T) * t)) 0 T
      (T / 2 * const_amplitude ROps A phi off n * cos (const_phase ROps A phi off n)) /\
    is_RInt (fun t => const_time ROps T A phi off t * sin (IZR n * (2 * PI / T) * t)) 0 T
      (- T / 2 * const_amplitude ROps A phi off n * sin (const_phase ROps A phi off n)).
Proof. exact const_fourier. Qed.
Print Assumptions C08_const.

Theorem C08_cos : forall T A phi off : R, 0 < T ->
  is_RInt (cos_time ROps T A phi off) 0 T (T * cos_amplitude ROps A phi off 0) /\
  forall n : Z, (1 <= n)%Z ->
    is_RInt (fun t => cos_time ROps T A phi off t * cos (IZR n * (2 * PI / T) * t)) 0 T
      (T / 2 * cos_amplitude ROps A phi off n * cos (cos_phase ROps A phi off n)) /\
    is_RInt (fun t => cos_time ROps T A phi off t * sin (IZR n * (2 * PI / T) * t)) 0 T
      (- T / 2 * cos_amplitude ROps A phi off n * sin (cos_phase ROps A phi off n)).
Proof. exact cos_fourier. Qed.
Print Assumptions C08_cos.

Theorem C08_sin : forall T A phi off : R, 0 < T ->
  is_RInt (sin_time ROps T A phi off) 0 T (T * sin_amplitude ROps A phi off 0) /\
  forall n : Z, (1 <= n)%Z ->
    is_RInt (fun t => sin_time ROps T A phi off t * cos (IZR n * (2 * PI / T) * t)) 0 T
      (T / 2 * sin_amplitude ROps A phi off n * cos (sin_phase ROps A phi off n)) /\
    is_RInt (fun t => sin_time ROps T A phi off t * sin (IZR n * (2 * PI / T) * t)) 0 T
      (- T / 2 * sin_amplitude ROps A phi off n * sin (sin_phase ROps A phi off n)).
Proof. exact sin_fourier. Qed.
Print Assumptions C08_sin.

Theorem C08_rect : forall T A phi off : R, 0 < T ->
  is_RInt (rect_time ROps T A phi off) 0 T (T * rect_amplitude ROps A phi off 0) /\
  forall n : Z, (1 <= n)%Z ->
    is_RInt (fun t => rect_time ROps T A phi off t * cos (IZR n * (2 * PI / T) * t)) 0 T
      (T / 2 * rect_amplitude ROps A phi off n * cos (rect_phase ROps A phi off n)) /\
    is_RInt (fun t => rect_time ROps T A phi off t * sin (IZR n * (2 * PI / T) * t)) 0 T
      (- T / 2 * rect_amplitude ROps A phi off n * sin (rect_phase ROps A phi off n)).
Proof. exact rect_fourier. Qed.
Print Assumptions C08_rect.

Theorem C08_tri : forall T A phi off : R, 0 < T ->
  is_RInt (tri_time ROps T A phi off) 0 T (T * tri_amplitude ROps A phi off 0) /\
  forall n : Z, (1 <= n)%Z ->
    is_RInt (fun t => tri_time ROps T A phi off t * cos (IZR n * (2 * PI / T) * t)) 0 T
      (T / 2 * tri_amplitude ROps A phi off n * cos (tri_phase ROps A phi off n)) /\
    is_RInt (fun t => tri_time ROps T A phi off t * sin (IZR n * (2 * PI / T) * t)) 0 T
      (- T / 2 * tri_amplitude ROps A phi off n * sin (tri_phase ROps A phi off n)).
Proof. exact tri_fourier. Qed.
Print Assumptions C08_tri.

Theorem C08_saw : forall T A phi off : R, 0 < T ->
  is_RInt (saw_time ROps T A phi off) 0 T (T * saw_amplitude ROps A phi off 0) /\
  forall n : Z, (1 <= n)%Z ->
    is_RInt (fun t => saw_time ROps T A phi off t * cos (IZR n * (2 * PI / T) * t)) 0 T
      (T / 2 * saw_amplitude ROps A phi off n * cos (saw_phase ROps A phi off n)) /\
    is_RInt (fun t => saw_time ROps T A phi off t * sin (IZR n * (2 * PI / T) * t)) 0 T
      (- T / 2 * saw_amplitude ROps A phi off n * sin (saw_phase ROps A phi off n)).
Proof. exact saw_fourier. Qed.
Print Assumptions C08_saw.

(* ---- the same for EVERY listed waveform through the translated tables and the API-level methods:
   i = index of the time-function class among the keys of fourier_series_mapping, f = its time_function,
   h = fourier_series(<instance with period T, amplitude A, phase phi, offset off>),
   amplitude / phase = AbstractHarmonicCoefficients.amplitude / .phase ---- *)
Theorem C08_partial :
  forall (i : N) (T A phi off : R) (f : R -> R -> R -> R -> R -> R) (h : harmonics ROps),
  0 < T -> time_function ROps i = Some f -> fourier_series ROps i T A phi off = POk h ->
  is_RInt (f T A phi off) 0 T (T * amplitude ROps h 0) /\
  forall n : Z, (1 <= n)%Z ->
    is_RInt (fun t => f T A phi off t * cos (IZR n * (2 * PI / T) * t)) 0 T
      (T / 2 * amplitude ROps h n * cos (phase ROps h n)) /\
    is_RInt (fun t => f T A phi off t * sin (IZR n * (2 * PI / T) * t)) 0 T
      (- T / 2 * amplitude ROps h n * sin (phase ROps h n)).
Proof. exact coefficients_all. Qed.
Print Assumptions C08_partial.

(* fourier_series_mapping is total on periodic_functions (no TransformationError for a built-in waveform) *)
Theorem C08_mapping_total : forall (O : rops) (i : N) (p a ph o : RT O), In i periodic_functions ->
  (exists f, time_function O i = Some f) /\
  (exists fa fp, amplitude_coefficient O i = Some fa /\ phase_coefficient O i = Some fp /\
     fourier_series O i p a ph o = POk {| amp_coeff := fa a ph o; ph_coeff := fp a ph o |}).
Proof. exact fourier_series_total. Qed.
Print Assumptions C08_mapping_total.

(* ---- mean-square convergence and Parseval: the statement; proved in Properties/C08e.v (C08_parseval_full_holds) ---- *)
Definition C08_parseval_full : Prop :=
  forall (i : N) (T A phi off : R) (f : R -> R -> R -> R -> R -> R) (h : harmonics ROps),
  0 < T -> time_function ROps i = Some f -> fourier_series ROps i T A phi off = POk h ->
  mean_square_series T (f T A phi off) (amplitude ROps h) (phase ROps h).

(* ---- cosine/sine and complex coefficient forms (generic in the two coefficient functions) ---- *)
Theorem C08_a : forall (h : harmonics ROps) (n : Z),
  coef_a ROps h n = amplitude ROps h n * cos (phase ROps h n).
Proof. exact coef_a_spec. Qed.
Theorem C08_b : forall (h : harmonics ROps) (n : Z),
  coef_b ROps h n = - (amplitude ROps h n * sin (phase ROps h n)).
Proof. exact coef_b_spec. Qed.
(* c n = (a n - i b n) / 2 as (re, im) *)
Theorem C08_c : forall (h : harmonics ROps) (n : Z), (0 <= n)%Z ->
  coef_c ROps h n = (coef_a ROps h n / 2, - coef_b ROps h n / 2).
Proof. exact coef_c_spec. Qed.
Theorem C08_c_conj : forall (h : harmonics ROps) (n : Z), n <> 0%Z ->
  coef_c ROps h (- n) = cconj ROps (coef_c ROps h n).
Proof. exact coef_c_conj. Qed.
Theorem C08_amplitude_neg : forall (O : rops) (h : harmonics O) (n : Z), amplitude O h (- n) = amplitude O h n.
Proof. exact amplitude_neg. Qed.
Theorem C08_phase_neg : forall (h : harmonics ROps) (n : Z), n <> 0%Z -> phase ROps h (- n) = - phase ROps h n.
Proof. exact phase_neg. Qed.
Print Assumptions C08_a. Print Assumptions C08_b. Print Assumptions C08_c. Print Assumptions C08_c_conj.
Print Assumptions C08_amplitude_neg. Print Assumptions C08_phase_neg.

(* ---- lookup by type name: periodic_function name returns the class whose `wavetype` default is name,
   UnknownWavetype otherwise ---- *)
Theorem C08_lookup_found : forall (w : label) (i : N), In (w, i) wavetypes -> periodic_function w = POk i.
Proof. exact lookup_found. Qed.
Theorem C08_lookup : forall name : label,
  match periodic_function name with
  | POk i => In (name, i) wavetypes
  | PErr e => e = EUnknownWavetype /\ forall i, ~ In (name, i) wavetypes
  end.
Proof. exact lookup_spec. Qed.
Print Assumptions C08_lookup_found. Print Assumptions C08_lookup.

(* ---- non-vacuity and table sanity (computed) ---- *)
Definition codes_rect : label := [114; 101; 99; 116]%N.
Example C08_ex_tables :
  map snd wavetypes = periodic_functions /\ map fst harmonics_of = periodic_functions /\
  length (nodup (list_eq_dec N.eq_dec) (map fst wavetypes)) = 6%nat /\
  harmonics_fields = [[97; 109; 112; 108; 105; 116; 117; 100; 101; 48]; [112; 104; 97; 115; 101; 48];
                      [111; 102; 102; 115; 101; 116; 48]]%N.
Proof. vm_compute. repeat split. Qed.
Example C08_ex_lookup : periodic_function codes_rect = POk 3%N /\ In (codes_rect, 3%N) wavetypes /\
  periodic_function [114; 101; 99]%N = PErr EUnknownWavetype /\ periodic_function [] = PErr EUnknownWavetype.
Proof. vm_compute. repeat split. right; right; right; left; reflexivity. Qed.
Example C08_ex_dispatch : time_function ROps 3 = Some (rect_time ROps) /\
  fourier_series ROps 3 2 1 (1 / 3) (1 / 7)
  = POk {| amp_coeff := rect_amplitude ROps 1 (1 / 3) (1 / 7); ph_coeff := rect_phase ROps 1 (1 / 3) (1 / 7) |}.
Proof. split; reflexivity. Qed.
(* the translated terms compute (over Q, pi := the double np.pi): rect amplitude 4/(3 pi) at n = 3, 0 at n = 2,
   offset at n = 0; the rectangle is +1 / -1 on the two half periods; the triangle and saw take the expected values *)
Example C08_ex_values :
  (rect_amplitude QOps 1 0 (1 # 7) 3 = Qred (4 / 3 / qpi) /\ rect_amplitude QOps 1 0 (1 # 7) 2 = 0 /\
   rect_amplitude QOps 1 0 (1 # 7) 0 = 1 # 7 /\
   rect_time QOps 2 1 0 0 (1 # 2) = 1 /\ rect_time QOps 2 1 0 0 (3 # 2) = - (1) /\ rect_time QOps 2 1 0 0 (- (1 # 2)) = - (1) /\
   tri_time QOps 2 1 0 0 0 = 1 /\ tri_time QOps 2 1 0 0 1 = - (1) /\ tri_time QOps 2 1 0 0 (1 # 2) = 0 /\
   saw_time QOps 2 1 0 0 0 = - (1) /\ saw_time QOps 2 1 0 0 1 = 0 /\ saw_time QOps 2 1 0 (1 # 3) (3 # 2) = (5 # 6))%Q.
Proof. vm_compute. repeat split. Qed.
