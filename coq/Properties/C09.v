(* C09 — "For a circuit whose sources have different frequencies or are periodic, the analysed frequencies are exactly the
   distinct source frequencies together with all harmonics k*w0 <= w_max (k = 0 included), each counted once; the spectral
   line reported at each frequency equals the single-frequency peak phasor X_k of C02 at that frequency, and the time-domain
   function equals sum_k |X_k|*cos(w_k*t + arg X_k).  Consequently the time functions obey Kirchhoff's current law at every
   instant, equal the sum of the time functions obtained with each source alone, and reproduce a periodic source's own
   waveform up to the truncation error of the retained harmonics."
   Statements only; proofs are in Theory/MultiFreq.v.  Models: [frequency_components], [complex_solution] (Model/Circuit.v);
   [fd_series], [td_value], [two_sided], [tf] (Theory/MultiFreq.v, spelled out below).
   The last clause is stated relative to the source's harmonic data (section 4: the source's own voltage is the truncated
   harmonic series); that these data are the Fourier coefficients of the named waveform is C08.  "Each counted once" holds
   for EQUAL values only — see C09_each_once_refuted. *)
From Coq Require Import List Bool ZArith NArith String Sorted QArith Qcanon.
From CC Require Import Theory.Field Theory.Complex Theory.Labels Model.Network Theory.Spec Theory.Mna Theory.Tellegen
  Theory.Ordered Theory.Linearity Model.Circuit Model.RunCircuit Theory.CircuitThm Theory.MultiFreq Properties.C07
  Properties.C02.
Import ListNotations.

(* ====================================================================================================== *)
(* 1. the analysed frequencies                                                                             *)
(* ====================================================================================================== *)

(* [leb_ok]: a total order (with Leibniz equality, which [feqb] decides);  [oleb_ok]: moreover compatible with + and * *)
Theorem C09_leb_ok_unfolded : forall (R : fops) (leb : R -> R -> bool),
  (leb_ok R leb <->
     (forall x y : R, leb x y = true \/ leb y x = true)
     /\ (forall x y z : R, leb x y = true -> leb y z = true -> leb x z = true)
     /\ (forall x y : R, leb x y = true -> leb y x = true -> x = y))
  /\ (oleb_ok R leb <->
     leb_ok R leb
     /\ (forall x y z : R, leb x y = true -> leb (fadd R x z) (fadd R y z) = true)
     /\ (forall x y z : R, leb (f0 R) z = true -> leb x y = true -> leb (fmul R x z) (fmul R y z) = true)).
Proof. intros R leb. split; (split; [intros [A B C]; auto|intros (A & B & C); constructor; assumption]). Qed.

Theorem C09_Qc_leb_ok : leb_ok Qcops Qc_leb /\ oleb_ok Qcops Qc_leb
  /\ (forall (x : Qc) (k : Z), (k <= Qc_floor x)%Z <-> Qc_leb (Qc_ofZ k) x = true).
Proof. exact (conj Qc_leb_ok (conj Qc_oleb_ok Qc_floor_ok)). Qed.
Print Assumptions C09_Qc_leb_ok.

(* the list is strictly increasing (sorted, every entry once) and lists exactly what the components contribute *)
Theorem C09_list : forall (R : fops) (ROK : fops_ok R) (leb : R -> R -> bool) (LOK : leb_ok R leb) (ofZ : Z -> R)
  (flr : R -> Z) (cs : list (comp R)) (wmax : R) (l : list R),
  frequency_components R leb ofZ flr cs wmax = Ok l ->
  StronglySorted (fun x y => leb x y = true /\ x <> y) l
  /\ NoDup l
  /\ (forall w, In w l <-> exists c ws, In c cs /\ comp_frequencies R ofZ flr c wmax = Ok ws /\ In w ws).
Proof. exact freq_list_pack. Qed.
Print Assumptions C09_list.

(* ... which determines it: any strictly increasing list with the same members is that list *)
Theorem C09_list_unique : forall (R : fops) (ROK : fops_ok R) (leb : R -> R -> bool) (LOK : leb_ok R leb) (ofZ : Z -> R)
  (flr : R -> Z) (cs : list (comp R)) (wmax : R) (l l' : list R),
  frequency_components R leb ofZ flr cs wmax = Ok l ->
  StronglySorted (fun x y => leb x y = true /\ x <> y) l' ->
  (forall w, In w l' <-> exists c ws, In c cs /\ comp_frequencies R ofZ flr c wmax = Ok ws /\ In w ws) ->
  l' = l.
Proof. exact freq_list_unique. Qed.
Print Assumptions C09_list_unique.

(* it is defined whenever every component's contribution is (i.e. unless a periodic source has w = 0) *)
Theorem C09_list_defined : forall (R : fops) (leb : R -> R -> bool) (ofZ : Z -> R) (flr : R -> Z) (cs : list (comp R)) (wmax : R),
  (forall c, In c cs -> exists ws, comp_frequencies R ofZ flr c wmax = Ok ws) ->
  exists l, frequency_components R leb ofZ flr cs wmax = Ok l.
Proof. exact freq_list_total. Qed.

(* what one component contributes: nothing without a 'w' entry; [w] for a non-periodic one; for a periodic one the
   multiples w0*k, 0 <= k <= floor(wmax/w0), in that order (ZeroDivisionError when w0 = 0) *)
Theorem C09_member_sources : forall (R : fops) (ROK : fops_ok R) (ofZ : Z -> R) (flr : R -> Z) (c : comp R) (wmax : R),
  (vlook R (cvals c) (lbl "w") = None -> comp_frequencies R ofZ flr c wmax = Ok [])
  /\ (forall w, vlook R (cvals c) (lbl "w") = Some w -> is_periodic R c = false ->
        comp_frequencies R ofZ flr c wmax = Ok [w])
  /\ (forall w0, vlook R (cvals c) (lbl "w") = Some w0 -> is_periodic R c = true -> w0 <> f0 R ->
        exists ws, comp_frequencies R ofZ flr c wmax = Ok ws
          /\ ws = map (fun k => fmul R w0 (ofZ (Z.of_nat k))) (seq O (Z.to_nat (flr (fdiv R wmax w0) + 1)))
          /\ (forall w, In w ws <-> exists k : Z, (0 <= k <= flr (fdiv R wmax w0))%Z /\ w = fmul R w0 (ofZ k)))
  /\ (vlook R (cvals c) (lbl "w") = Some (f0 R) -> is_periodic R c = true ->
        comp_frequencies R ofZ flr c wmax = Err EZeroDivision).
Proof. exact member_sources_pack. Qed.
Print Assumptions C09_member_sources.

Theorem C09_is_periodic : forall (R : fops) (c : comp R), is_periodic R c = true <-> ck c = KPerV \/ ck c = KPerI.
Proof. exact is_periodic_iff. Qed.

(* with an ordered field and [flr] the floor function, a periodic source with w0 > 0 contributes exactly the harmonics
   k*w0 <= wmax, k = 0 included *)
Theorem C09_member_harmonics : forall (R : fops) (ROK : fops_ok R) (leb : R -> R -> bool) (OOK : oleb_ok R leb)
  (ofZ : Z -> R) (flr : R -> Z) (c : comp R) (wmax w0 : R),
  (forall (x : R) (k : Z), (k <= flr x)%Z <-> leb (ofZ k) x = true) ->
  vlook R (cvals c) (lbl "w") = Some w0 -> is_periodic R c = true -> leb w0 (f0 R) = false ->
  exists ws, comp_frequencies R ofZ flr c wmax = Ok ws
    /\ forall w, In w ws <-> exists k : Z, (0 <= k)%Z /\ w = fmul R w0 (ofZ k) /\ leb w wmax = true.
Proof. intros R ROK leb OOK ofZ flr. exact (cf_periodic_floor R ROK leb (oleb_order R leb OOK) ofZ flr OOK). Qed.
Print Assumptions C09_member_harmonics.

(* The stronger reading of "each counted once" — no two listed frequencies within the frequency resolution of one another
   ([off_frequency a b wres]: |a - b| > wres, the translators' test for "a source at another frequency") — is FALSE:
   values are merged when equal, not when close.  Two sources half a resolution apart are listed twice, and at either
   listed frequency both are translated as active (C09_example_near_double_count below). *)
Definition C09_each_once_within_resolution_full : Prop :=
  forall (R : fops) (ROK : fops_ok R) (leb : R -> R -> bool) (OOK : oleb_ok R leb) (ofZ : Z -> R) (flr : R -> Z)
         (cs : list (comp R)) (wmax wres : R) (l : list R),
    leb wres (f0 R) = false ->
    frequency_components R leb ofZ flr cs wmax = Ok l ->
    forall a b, In a l -> In b l -> a <> b -> off_frequency R leb a b wres = true.

Theorem C09_each_once_refuted : ~ C09_each_once_within_resolution_full.
Proof. exact each_once_refuted. Qed.
Print Assumptions C09_each_once_refuted.

(* ====================================================================================================== *)
(* 2. the time functions                                                                                   *)
(* ====================================================================================================== *)

(* the model of  sum_k |X_k| cos(w_k t + arg X_k)  at one instant; (c_k, s_k) = (cos (w_k t), sin (w_k t)) *)
Theorem C09_tf_unfolded : forall (R : fops) (cst : list (R * R)) (X : list (Cx R)),
  tf cst X = sumF (fun p => fsub R (fmul R (re (snd p)) (fst (fst p))) (fmul R (im (snd p)) (snd (fst p)))) (combine cst X).
Proof. reflexivity. Qed.

(* |X| cos(wt + arg X), with X = r (ca + j sa), is Re X cos wt - Im X sin wt *)
Theorem C09_polar : forall (R : fops) (ROK : fops_ok R) (r ca sa c s : R) (X : Cx R),
  X = (fmul R r ca, fmul R r sa) ->
  fmul R r (fsub R (fmul R c ca) (fmul R s sa)) = fsub R (fmul R (re X) c) (fmul R (im X) s).
Proof. exact tf_polar. Qed.
Print Assumptions C09_polar.

(* ... which is Re (X * exp(j w t)) *)
Theorem C09_term_re_mul : forall (R : fops) (c s : R) (X : Cx R),
  fsub R (fmul R (re X) c) (fmul R (im X) s) = re (fmul (Cx R) X (c, s)).
Proof. exact tf_term_re_mul. Qed.

(* additive and homogeneous in the phasor list, position by position *)
Theorem C09_linear : forall (R : fops) (ROK : fops_ok R) (cst : list (R * R)),
  (forall X Y : list (Cx R), List.length X = List.length Y ->
     tf cst (map (fun p => fadd (Cx R) (fst p) (snd p)) (combine X Y)) = fadd R (tf cst X) (tf cst Y))
  /\ (forall (a : R) (X : list (Cx R)), tf cst (map (fun x => fmul (Cx R) (a, f0 R) x) X) = fmul R a (tf cst X)).
Proof. exact tf_linear_pack. Qed.
Print Assumptions C09_linear.

(* KCL at every instant: if at every analysed frequency k the flows J k (indexed by branch id) obey KCL on the branch
   list [bs], so do the time functions  i_b = tf cst [J k (bid b)]_k  — for every choice of the carrier values [cst] *)
Theorem C09_kcl_t : forall (R : fops) (ROK : fops_ok R) (H : Type) (bs : list (branch (Cx R))) (ks : list H)
  (J : H -> label -> Cx R) (cst : list (R * R)),
  (forall k, In k ks -> forall node, kcl_sum bs (fun b => J k (bid b)) node = f0 (Cx R)) ->
  forall node,
    sumF (fun b => fsub R (if label_eqb (node1 b) node then tf cst (map (fun k => J k (bid b)) ks) else f0 R)
                          (if label_eqb (node2 b) node then tf cst (map (fun k => J k (bid b)) ks) else f0 R)) bs = f0 R.
Proof. exact tf_kcl_branches. Qed.
Print Assumptions C09_kcl_t.

(* the branch lists produced at different frequencies differ in their elements only: KCL transfers between them *)
Theorem C09_kcl_same_structure : forall (K : fops) (bs bs' : list (branch K)) (ji : label -> K) (node : label),
  map (fun b => (node1 b, node2 b, bid b)) bs = map (fun b => (node1 b, node2 b, bid b)) bs' ->
  kcl_sum bs (fun b => ji (bid b)) node = kcl_sum bs' (fun b => ji (bid b)) node.
Proof. exact kcl_topo. Qed.

(* on the circuit itself: the phasor equations (C02) at every analysed frequency give KCL of the time functions over
   the non-ground components (flow of component [cid c] from its first to its second terminal) *)
Theorem C09_kcl_t_circuit : forall (R : fops) (ROK : fops_ok R) leb rnd ofZ (H : Type) (cs : list (comp R)) (wres : R)
  (ks : list H) (wk : H -> R) (Phi J : H -> label -> Cx R) (cst : list (R * R)),
  (forall k, In k ks -> PhasorSpec R leb rnd ofZ cs (wk k) wres (Phi k) (J k)) ->
  forall node,
    sumF (fun c => fsub R (if label_eqb (nth 0 (cnodes c) []) node then tf cst (map (fun k => J k (cid c)) ks) else f0 R)
                          (if label_eqb (nth 1 (cnodes c) []) node then tf cst (map (fun k => J k (cid c)) ks) else f0 R))
         (filter (fun c => has_translator (ck c)) cs) = f0 R.
Proof. exact tf_kcl_circuit. Qed.
Print Assumptions C09_kcl_t_circuit.

(* ... in particular for the solutions the frequency-domain analysis computes ([fd_solutions], below): the flows read off
   the solution vectors, combined into time functions, obey KCL at every instant *)
Theorem C09_kcl_t_solutions : forall (R : fops) (ROK : fops_ok R) leb rnd ofZ flr
  (Rreal : forall x y : R, fadd R (fmul R x x) (fmul R y y) = f0 R -> x = f0 R /\ y = f0 R)
  (cs : list (comp R)) (wmax wres : R) (sols : list (R * csol R)),
  fd_solutions R leb rnd ofZ flr cs wmax wres = Ok sols ->
  (forall c, In c cs -> ck c <> KGround -> nth 0 (cnodes c) [] <> nth 1 (cnodes c) []) ->
  (forall k, In k sols ->
     PhasorSpec R leb rnd ofZ cs (fst k) wres
       (phi_of (s_net (cs_sol (snd k))) (s_x (cs_sol (snd k))))
       (flow_by_id R (s_net (cs_sol (snd k))) (s_x (cs_sol (snd k)))))
  /\ forall (cst : list (R * R)) node,
    let i_t := fun c : comp R =>
      tf cst (map (fun k : R * csol R => flow_by_id R (s_net (cs_sol (snd k))) (s_x (cs_sol (snd k))) (cid c)) sols) in
    sumF (fun c => fsub R (if label_eqb (nth 0 (cnodes c) []) node then i_t c else f0 R)
                          (if label_eqb (nth 1 (cnodes c) []) node then i_t c else f0 R))
         (filter (fun c => has_translator (ck c)) cs) = f0 R.
Proof. intros R ROK leb rnd ofZ flr Rreal cs wmax wres sols H D. split.
  - exact (fd_solutions_phasor R ROK leb rnd ofZ flr Rreal cs wmax wres sols H D).
  - exact (fd_kcl_t R ROK leb rnd ofZ flr Rreal cs wmax wres sols H D). Qed.
Print Assumptions C09_kcl_t_solutions.

(* superposition: if, frequency by frequency, the phasor of the full circuit is the sum over the sources [srcs] of the
   phasors with each source alone (C04_superpose_blocks / C04_spec_add give this at each frequency), the time function is
   the sum of the single-source time functions *)
Theorem C09_superpose_t : forall (R : fops) (ROK : fops_ok R) (H S : Type) (cst : list (R * R)) (ks : list H)
  (srcs : list S) (X : H -> Cx R) (Xs : S -> H -> Cx R),
  (forall k, In k ks -> X k = sumF (K:=Cx R) (fun s => Xs s k) srcs) ->
  tf cst (map X ks) = sumF (fun s => tf cst (map (Xs s) ks)) srcs.
Proof. exact tf_superpose. Qed.
Print Assumptions C09_superpose_t.

(* the same for phasor lists, position by position *)
Theorem C09_superpose_t_lists : forall (R : fops) (ROK : fops_ok R) (S : Type) (cst : list (R * R)) (srcs : list S)
  (X : list (Cx R)) (Xs : S -> list (Cx R)),
  (forall s, In s srcs -> List.length (Xs s) = List.length X) ->
  (forall k, (k < List.length X)%nat -> nth k X (f0 (Cx R)) = sumF (K:=Cx R) (fun s => nth k (Xs s) (f0 (Cx R))) srcs) ->
  tf cst X = sumF (fun s => tf cst (Xs s)) srcs.
Proof. exact tf_superpose_lists. Qed.
Print Assumptions C09_superpose_t_lists.

(* with the source split of C04 at every frequency: the sums solve the full networks, and their time functions
   (potentials and flows) are the sums of the two partial time functions *)
Theorem C09_superpose_t_spec : forall (R : fops) (ROK : fops_ok R)
  (Rreal : forall x y : R, fadd R (fmul R x x) (fmul R y y) = f0 R -> x = f0 R /\ y = f0 R)
  (H : Type) (ks : list H) (n n1 n2 : H -> network (Cx R)) (phi1 j1 phi2 j2 : H -> label -> Cx R) (cst : list (R * R)),
  (forall k, In k ks -> src_sum (n k) (n1 k) (n2 k)
                        /\ CircuitSpecId (n1 k) (phi1 k) (j1 k) /\ CircuitSpecId (n2 k) (phi2 k) (j2 k)) ->
  (forall k, In k ks ->
     CircuitSpecId (n k) (fun l => fadd (Cx R) (phi1 k l) (phi2 k l)) (fun i => fadd (Cx R) (j1 k i) (j2 k i)))
  /\ (forall l, tf cst (map (fun k => fadd (Cx R) (phi1 k l) (phi2 k l)) ks)
                = fadd R (tf cst (map (fun k => phi1 k l) ks)) (tf cst (map (fun k => phi2 k l) ks)))
  /\ (forall i, tf cst (map (fun k => fadd (Cx R) (j1 k i) (j2 k i)) ks)
                = fadd R (tf cst (map (fun k => j1 k i) ks)) (tf cst (map (fun k => j2 k i) ks))).
Proof. exact tf_superpose_spec. Qed.
Print Assumptions C09_superpose_t_spec.

(* ====================================================================================================== *)
(* 3. spectral lines                                                                                       *)
(* ====================================================================================================== *)

(* FrequencyDomainSolution: one peak-value ComplexSolution per analysed frequency; a series pairs every frequency with
   the quantity [obs] read from its solution; TimeDomainSolution evaluates tf on the same lines *)
Theorem C09_fd_unfolded : forall (R : fops) leb rnd ofZ flr (sqrt2 : R) (obs : csol R -> res (Cx R)) (cs : list (comp R))
  (wmax wres : R) (id : label) (carrier : R -> R * R),
  fd_solutions R leb rnd ofZ flr cs wmax wres
  = bind (frequency_components R leb ofZ flr cs wmax)
      (fun l => mapM (fun w => bind (complex_solution R leb rnd ofZ cs w wres true) (fun s => Ok (w, s))) l)
  /\ fd_series R leb rnd ofZ flr obs cs wmax wres
     = bind (fd_solutions R leb rnd ofZ flr cs wmax wres)
         (fun sols => mapM (fun p => bind (obs (snd p)) (fun x => Ok (fst p, x))) sols)
  /\ fd_voltage R leb rnd ofZ flr sqrt2 id cs wmax wres
     = fd_series R leb rnd ofZ flr (fun s => c_voltage R sqrt2 s id) cs wmax wres
  /\ fd_current R leb rnd ofZ flr sqrt2 id cs wmax wres
     = fd_series R leb rnd ofZ flr (fun s => c_current R sqrt2 s id) cs wmax wres
  /\ fd_potential R leb rnd ofZ flr sqrt2 id cs wmax wres
     = fd_series R leb rnd ofZ flr (fun s => c_potential R sqrt2 s id) cs wmax wres
  /\ td_value R leb rnd ofZ flr obs cs wmax wres carrier
     = bind (fd_series R leb rnd ofZ flr obs cs wmax wres)
         (fun lines => Ok (tf (map (fun p => carrier (fst p)) lines) (map snd lines))).
Proof. intros. repeat split. Qed.

(* the k-th line: its frequency is the k-th analysed frequency, its value the quantity read from the single-frequency
   peak solution of C02 at that frequency *)
Theorem C09_line : forall (R : fops) leb rnd ofZ flr (obs : csol R -> res (Cx R)) (cs : list (comp R)) (wmax wres : R)
  (lines : list (R * Cx R)),
  fd_series R leb rnd ofZ flr obs cs wmax wres = Ok lines ->
  frequency_components R leb ofZ flr cs wmax = Ok (map fst lines)
  /\ Forall (fun p => exists s, complex_solution R leb rnd ofZ cs (fst p) wres true = Ok s /\ obs s = Ok (snd p)) lines.
Proof. exact fd_line. Qed.
Print Assumptions C09_line.

(* these are peak solutions: the accessors hand out the solver's phasors unscaled (what C02_reported describes) *)
Theorem C09_line_peak : forall (R : fops) leb rnd ofZ (sqrt2 : R) (cs : list (comp R)) (w wres : R) (s : csol R),
  complex_solution R leb rnd ofZ cs w wres true = Ok s ->
  cs_peak s = true
  /\ (forall id, c_voltage R sqrt2 s id = get_voltage (cs_sol s) id)
  /\ (forall id, c_current R sqrt2 s id = get_current (cs_sol s) id)
  /\ (forall l, c_potential R sqrt2 s l = get_potential (cs_sol s) l).
Proof. intros R leb rnd ofZ sqrt2 cs w wres s H. pose proof (complex_solution_peak R leb rnd ofZ cs w wres s H) as P.
  split; [exact P|exact (peak_accessors R sqrt2 s P)]. Qed.

(* the time-domain value is the sum over the lines of Re X_k cos(w_k t) - Im X_k sin(w_k t) *)
Theorem C09_td : forall (R : fops) leb rnd ofZ flr (obs : csol R -> res (Cx R)) (cs : list (comp R)) (wmax wres : R)
  (carrier : R -> R * R) (v : R),
  td_value R leb rnd ofZ flr obs cs wmax wres carrier = Ok v ->
  exists lines, fd_series R leb rnd ofZ flr obs cs wmax wres = Ok lines
    /\ v = sumF (fun p => fsub R (fmul R (re (snd p)) (fst (carrier (fst p)))) (fmul R (im (snd p)) (snd (carrier (fst p))))) lines.
Proof. exact td_value_ok. Qed.
Print Assumptions C09_td.

(* the two-sided spectrum: for every w_k > 0 the lines (-w_k, conj X_k / 2) and (w_k, X_k / 2), the others unchanged;
   frequency axis  -w[positive] reversed ++ w,  values  conj(X[positive] reversed)/2 ++ where(positive, X/2, X) *)
Theorem C09_two_sided_unfolded : forall (R : fops) (leb : R -> R -> bool) (l : list (R * Cx R)),
  let pos := fun w : R => negb (leb w (f0 R)) in
  let half := fun x : Cx R => fdiv (Cx R) x (fadd R (f1 R) (f1 R), f0 R) in
  map fst (two_sided leb l) = map (fopp R) (rev (filter pos (map fst l))) ++ map fst l
  /\ map snd (two_sided leb l)
     = map (fun x => half (fconj (Cx R) x)) (rev (map snd (filter (fun p => pos (fst p)) l)))
       ++ map (fun p => if pos (fst p) then half (snd p) else snd p) l.
Proof. intros R leb l. split; [exact (two_sided_w R leb l)|exact (two_sided_values R leb l)]. Qed.

(* a mirrored pair carries the real signal of the one-sided line; the whole two-sided sum  sum Y_k exp(j w_k t)  has the
   real part  sum_k Re (X_k exp(j w_k t))  of the one-sided lines, and its imaginary part consists of the contributions
   of the lines at w <= 0 only (the DC line: zero when that line is real) *)
Theorem C09_two_sided_real : forall (R : fops) (ROK : fops_ok R) (leb : R -> R -> bool),
  fadd R (f1 R) (f1 R) <> f0 R ->
  (forall X e : Cx R,
     fadd R (re (fmul (Cx R) (chalf X) e)) (re (fmul (Cx R) (chalf (fconj (Cx R) X)) (fconj (Cx R) e)))
     = re (fmul (Cx R) X e))
  /\ (forall (E : R -> Cx R) (l : list (R * Cx R)), (forall w, E (fopp R w) = fconj (Cx R) (E w)) ->
        re (sumF (K:=Cx R) (fun p => fmul (Cx R) (snd p) (E (fst p))) (two_sided leb l))
        = sumF (fun p => re (fmul (Cx R) (snd p) (E (fst p)))) l
        /\ im (sumF (K:=Cx R) (fun p => fmul (Cx R) (snd p) (E (fst p))) (two_sided leb l))
           = sumF (fun p => if negb (leb (fst p) (f0 R)) then f0 R else im (fmul (Cx R) (snd p) (E (fst p)))) l).
Proof. exact two_sided_real_pack. Qed.
Print Assumptions C09_two_sided_real.

(* hence the time function of the one-sided lines is the real part of the two-sided sum *)
Theorem C09_two_sided_time : forall (R : fops) (ROK : fops_ok R) (leb : R -> R -> bool),
  fadd R (f1 R) (f1 R) <> f0 R ->
  forall (carrier : R -> R * R) (l : list (R * Cx R)),
  (forall w, carrier (fopp R w) = (fst (carrier w), fopp R (snd (carrier w)))) ->
  tf (map (fun p => carrier (fst p)) l) (map snd l)
  = re (sumF (K:=Cx R) (fun p => fmul (Cx R) (snd p) (carrier (fst p))) (two_sided leb l)).
Proof. exact two_sided_time. Qed.
Print Assumptions C09_two_sided_time.

(* the mirrored frequency axis is strictly increasing when the analysed frequencies are and none is negative *)
Theorem C09_two_sided_ascending : forall (R : fops) (ROK : fops_ok R) (leb : R -> R -> bool) (OOK : oleb_ok R leb)
  (l : list (R * Cx R)),
  StronglySorted (fun x y => leb x y = true /\ x <> y) (map fst l) ->
  (forall w, In w (map fst l) -> leb (f0 R) w = true) ->
  StronglySorted (fun x y => leb x y = true /\ x <> y) (map fst (two_sided leb l)).
Proof. exact two_sided_increasing. Qed.
Print Assumptions C09_two_sided_ascending.

(* ====================================================================================================== *)
(* 4. a periodic source's own waveform                                                                     *)
(* ====================================================================================================== *)
(* An ideal periodic voltage source (R = 0): at the frequency w_n of its n-th retained harmonic (n = round(w_n/w0),
   |w_n/w0 - n| <= wres/w0, harmonic data a_n, (cos p_n, sin p_n)) every phasor solution has the voltage a_n exp(j p_n)
   across it, so the time function of that voltage is  sum_n a_n cos(w_n t + p_n)  over the retained harmonics: the
   truncated harmonic series of the waveform.  (That a_n, p_n are the Fourier coefficients of the named waveform, and the
   size of the truncation error, belong to C08.) *)
Theorem C09_periodic_own_waveform : forall (R : fops) (ROK : fops_ok R) leb rnd ofZ (cs : list (comp R)) (c : comp R)
  (w0 wres : R) (ks : list Z) (wk : Z -> R) (Phi J : Z -> label -> Cx R) (harm : Z -> R * (R * R)) (cst : list (R * R)),
  In c cs -> ck c = KPerV ->
  vlook R (cvals c) (lbl "w") = Some w0 -> vlook R (cvals c) (lbl "R") = Some (f0 R) ->
  (forall n, In n ks ->
     PhasorSpec R leb rnd ofZ cs (wk n) wres (Phi n) (J n)
     /\ rnd (fdiv R (wk n) w0) = n
     /\ leb (rabs R leb (fsub R (fdiv R (wk n) w0) (ofZ n))) (fdiv R wres w0) <> false
     /\ hlook R (charm c) n = Some (harm n)) ->
  tf cst (map (fun n => fsub (Cx R) (Phi n (nth 0 (cnodes c) [])) (Phi n (nth 1 (cnodes c) []))) ks)
  = sumF (fun p => fmul R (fst (harm (snd p)))
                     (fsub R (fmul R (fst (fst p)) (fst (snd (harm (snd p))))) (fmul R (snd (fst p)) (snd (snd (harm (snd p)))))))
         (combine cst ks).
Proof. exact periodic_own_waveform. Qed.
Print Assumptions C09_periodic_own_waveform.

(* ====================================================================================================== *)
(* non-vacuity: concrete circuits over the rationals                                                       *)
(* ====================================================================================================== *)
(* a lossy dc voltage source (w = 0), an ac current source at w = 2, a periodic current source with w0 = 1 whose harmonics
   0..3 are retained for w_max = 7/2, an R-C-R network, ground listed last *)
Definition ex9_harm (a0 a1 a2 a3 : Qc) : list (Z * (Qc * (Qc * Qc))) :=
  [(0%Z, (a0, (q 1 1, q 0 1))); (1%Z, (a1, (q 0 1, q 1 1))); (2%Z, (a2, (q 3 5, q 4 5))); (3%Z, (a3, (q 1 1, q 0 1)))].
Definition ex9_gen (v0 i2 : Qc) (harm : list (Z * (Qc * (Qc * Qc)))) : list qcomp := [
  mkc KDcV "V0" ["1"; "0"] [("V", v0); ("R", q 1 1); ("w", q 0 1); ("phi", q 0 1)];
  mkc KResistor "R1" ["1"; "2"] [("R", q 2 1)];
  mkc KCapacitor "C1" ["2"; "0"] [("C", q 1 4)];
  mkc KAcI "I2" ["0"; "2"] [("I", i2); ("G", q 0 1); ("w", q 2 1); ("phi", q 1 1)];
  mkp KPerI "P1" ["0"; "2"] [("wavetype", q 0 1); ("I", q 1 1); ("w", q 1 1); ("phi", q 0 1); ("G", q 1 10)] harm;
  mkc KResistor "R2" ["2"; "0"] [("R", q 5 1)];
  mkc KGround "gnd" ["0"] [] ]%string.
Definition ex9_cs : list qcomp := ex9_gen (q 3 1) (q 1 1) (ex9_harm (q 1 2) (q 2 3) (q 1 3) (q 1 5)).
Definition ex9_wmax : Qc := q 7 2.
Definition ex9_wres : Qc := q 1 1000.
Definition ex9_ws : list Qc := [q 0 1; q 1 1; q 2 1; q 3 1].

Definition q_freqs := frequency_components Qcops Qc_leb Qc_ofZ Qc_floor.
Definition q_fd_solutions := fd_solutions Qcops Qc_leb Qc_round Qc_ofZ Qc_floor.
Definition q_fd_voltage := fd_voltage Qcops Qc_leb Qc_round Qc_ofZ Qc_floor ex_sqrt2.
Definition q_fd_current := fd_current Qcops Qc_leb Qc_round Qc_ofZ Qc_floor ex_sqrt2.

(* 0 (dc source and k = 0), 1, 2 (ac source and k = 2), 3: each once *)
Example C09_example_list : okb (q_freqs ex9_cs ex9_wmax) (fun l => qlist_eqb l ex9_ws) = true.
Proof. vm_compute. reflexivity. Qed.
Example C09_example_list' : q_freqs ex9_cs ex9_wmax = Ok ex9_ws.
Proof. destruct (okb_ex _ _ C09_example_list) as [l [H E]]. apply qlist_eqb_ok in E. rewrite <- E. exact H. Qed.

(* the periodic source meets the hypotheses of C09_member_harmonics and contributes the four harmonics; the ac source one
   frequency; a resistor none *)
Example C09_example_members :
  okb (comp_frequencies Qcops Qc_ofZ Qc_floor (nth 4 ex9_cs (mkc KShort "" [] [])) ex9_wmax) (fun l => qlist_eqb l ex9_ws)
  && is_periodic Qcops (nth 4 ex9_cs (mkc KShort "" [] []))
  && match vlook Qcops (cvals (nth 4 ex9_cs (mkc KShort "" [] []))) (lbl "w") with
     | Some w0 => negb (Qc_leb w0 0) | None => false end
  && okb (comp_frequencies Qcops Qc_ofZ Qc_floor (nth 3 ex9_cs (mkc KShort "" [] [])) ex9_wmax) (fun l => qlist_eqb l [q 2 1])
  && negb (is_periodic Qcops (nth 3 ex9_cs (mkc KShort "" [] [])))
  && okb (comp_frequencies Qcops Qc_ofZ Qc_floor (nth 1 ex9_cs (mkc KShort "" [] [])) ex9_wmax) (fun l => qlist_eqb l [])
  = true.
Proof. vm_compute. reflexivity. Qed.

(* the two sources half a resolution apart (Theory/MultiFreq.v, near_cs: V1 at 2, V2 at 2 + 1/2000 in series on R1) are
   listed twice, and at BOTH listed frequencies the line of R1 carries both sources (2 V instead of 1 V): the time
   function counts each source twice *)
Example C09_example_near_listed_twice :
  okb (q_freqs near_cs (q 10 1)) (fun l => qlist_eqb l [near_w1; near_w2])
  && negb (off_frequency Qcops Qc_leb near_w1 near_w2 near_wres) = true.
Proof. vm_compute. reflexivity. Qed.
Example C09_example_near_double_count :
  okb (q_fd_voltage (lbl "R1") near_cs (q 10 1) near_wres)
      (fun lines => qlist_eqb (map fst lines) [near_w1; near_w2]
                    && forallb (fun p => feqb CQ (snd p) (cq 2 1 0 1)) lines) = true.
Proof. vm_compute. reflexivity. Qed.

(* the frequency-domain analysis of ex9_cs succeeds: four solutions, four non-zero voltage lines across R2 at 0, 1, 2, 3 *)
Example C09_example_distinct : distinct_terminalsb Qcops ex9_cs = true.
Proof. vm_compute. reflexivity. Qed.
Example C09_example_fd_solutions :
  okb (q_fd_solutions ex9_cs ex9_wmax ex9_wres) (fun sols => qlist_eqb (map fst sols) ex9_ws) = true.
Proof. vm_compute. reflexivity. Qed.
Example C09_example_fd_voltage :
  okb (q_fd_voltage (lbl "R2") ex9_cs ex9_wmax ex9_wres)
      (fun lines => qlist_eqb (map fst lines) ex9_ws && forallb (fun p => negb (feqb CQ (snd p) (f0 CQ))) lines) = true.
Proof. vm_compute. reflexivity. Qed.
(* hypotheses of C09_kcl_t_circuit / C09_kcl_t_solutions: phasor solutions at all four frequencies *)
Example C09_example_phasors : exists sols, q_fd_solutions ex9_cs ex9_wmax ex9_wres = Ok sols /\ map fst sols = ex9_ws
  /\ forall k, In k sols ->
       PhasorSpec Qcops Qc_leb Qc_round Qc_ofZ ex9_cs (fst k) ex9_wres
         (phi_of (s_net (cs_sol (snd k))) (s_x (cs_sol (snd k))))
         (flow_by_id Qcops (s_net (cs_sol (snd k))) (s_x (cs_sol (snd k)))).
Proof. destruct (okb_ex _ _ C09_example_fd_solutions) as [sols [H E]]. apply qlist_eqb_ok in E. exists sols.
  split; [exact H|]. split; [exact E|].
  exact (proj1 (C09_kcl_t_solutions Qcops Qcops_ok Qc_leb Qc_round Qc_ofZ Qc_floor Qc_real ex9_cs ex9_wmax ex9_wres sols H
                  (distinct_terminalsb_ok _ _ C09_example_distinct))). Qed.

(* the time function at an instant where (cos w t, sin w t) = (3/5, 4/5) for w > 0, (1, 0) for w = 0: the currents of
   R1 (into node 2), C1, R2 (out of node 2) and of the sources I2, P1 (terminals 0 -> 2) balance at node 2; P1 is a lossy
   source (G = 1/10), whose reported current is the flow reversed (C02_reported) *)
Definition ex9_carrier (w : Qc) : Qc * Qc :=
  if Qc_eq_bool w 0 then (q 1 1, q 0 1) else if Qc_leb w 0 then (q 3 5, q (-4) 5) else (q 3 5, q 4 5).
Definition q_td_current id := td_value Qcops Qc_leb Qc_round Qc_ofZ Qc_floor (fun s => c_current Qcops ex_sqrt2 s id)
  ex9_cs ex9_wmax ex9_wres ex9_carrier.
Example C09_example_td_kcl :
  okb (q_td_current (lbl "R1")) (fun i1 => okb (q_td_current (lbl "C1")) (fun ic => okb (q_td_current (lbl "R2")) (fun i2 =>
  okb (q_td_current (lbl "I2")) (fun js => okb (q_td_current (lbl "P1")) (fun jp =>
    negb (Qc_eq_bool i1 0) && negb (Qc_eq_bool ic 0) && negb (Qc_eq_bool js 0) && negb (Qc_eq_bool jp 0)
    && Qc_eq_bool (i1 + js - jp) (ic + i2)))))) = true.
Proof. vm_compute. reflexivity. Qed.

(* superposition, checked on the lines: ex9_cs = (dc + periodic source alone) + (ac source alone), the switched-off
   sources keeping their internal resistance / conductance; the voltage lines of R2 add up at every frequency, hence
   (C09_superpose_t) so do the time functions *)
Definition ex9_A : list qcomp := ex9_gen (q 3 1) (q 0 1) (ex9_harm (q 1 2) (q 2 3) (q 1 3) (q 1 5)).
Definition ex9_B : list qcomp := ex9_gen (q 0 1) (q 1 1) (ex9_harm (q 0 1) (q 0 1) (q 0 1) (q 0 1)).
Fixpoint cqlist_sum_eqb (l la lb : list (Qc * CQ)) : bool :=
  match l, la, lb with
  | [], [], [] => true
  | (w, x) :: r, (wa, xa) :: ra, (wb, xb) :: rb =>
      Qc_eq_bool w wa && Qc_eq_bool w wb && feqb CQ x (fadd CQ xa xb) && cqlist_sum_eqb r ra rb
  | _, _, _ => false
  end.
Example C09_example_superpose :
  okb (q_fd_voltage (lbl "R2") ex9_cs ex9_wmax ex9_wres) (fun l =>
  okb (q_fd_voltage (lbl "R2") ex9_A ex9_wmax ex9_wres) (fun la =>
  okb (q_fd_voltage (lbl "R2") ex9_B ex9_wmax ex9_wres) (fun lb =>
    cqlist_sum_eqb l la lb
    && existsb (fun p => negb (feqb CQ (snd p) (f0 CQ))) la && existsb (fun p => negb (feqb CQ (snd p) (f0 CQ))) lb))) = true.
Proof. vm_compute. reflexivity. Qed.

(* the two-sided spectrum of the same series: frequencies -3 .. 3, and on the carrier above (which satisfies
   E(-w) = conj E(w)) its sum is real and equal to the time function of the one-sided lines *)
Example C09_example_carrier_mirror :
  forallb (fun w => let c := ex9_carrier w in let c' := ex9_carrier (- w) in
                    Qc_eq_bool (fst c') (fst c) && Qc_eq_bool (snd c') (- snd c)) (ex9_ws ++ map Qcopp ex9_ws) = true.
Proof. vm_compute. reflexivity. Qed.
Example C09_example_two_sided :
  okb (q_fd_voltage (lbl "R2") ex9_cs ex9_wmax ex9_wres) (fun lines =>
    let ts := @two_sided Qcops Qc_leb lines in
    let sum := @sp_eval Qcops (fun w => ex9_carrier w : CQ) ts in
    qlist_eqb (map fst ts) [q (-3) 1; q (-2) 1; q (-1) 1; q 0 1; q 1 1; q 2 1; q 3 1]
    && Qc_eq_bool (fst sum) (@tf Qcops (map (fun p => ex9_carrier (fst p)) lines) (map snd lines))
    && Qc_eq_bool (snd sum) 0
    && negb (Qc_eq_bool (fst sum) 0)) = true.
Proof. vm_compute. reflexivity. Qed.
Example C09_example_two_nz : fadd Qcops (f1 Qcops) (f1 Qcops) <> f0 Qcops.
Proof. intros E. assert (H : Qc_eq_bool (1 + 1) 0 = false) by (vm_compute; reflexivity). simpl in E. rewrite E in H.
  vm_compute in H. discriminate. Qed.

(* an ideal periodic voltage source (w0 = 1, harmonics 0..2 retained for w_max = 5/2) on a resistor: the voltage lines of
   the source are its harmonic phasors a_n (cos p_n + j sin p_n); the frequencies meet the harmonic test of
   C09_periodic_own_waveform *)
Definition ex9_per : list qcomp := [
  mkp KPerV "P" ["1"; "0"] [("wavetype", q 0 1); ("V", q 1 1); ("w", q 1 1); ("phi", q 0 1); ("R", q 0 1)]
      [(0%Z, (q 1 2, (q 1 1, q 0 1))); (1%Z, (q 2 3, (q 0 1, q 1 1))); (2%Z, (q 1 3, (q 3 5, q 4 5)))];
  mkc KResistor "R1" ["1"; "0"] [("R", q 2 1)];
  mkc KGround "gnd" ["0"] [] ]%string.
Example C09_example_periodic_own :
  okb (q_fd_voltage (lbl "P") ex9_per (q 5 2) ex9_wres) (fun lines =>
    qlist_eqb (map fst lines) [q 0 1; q 1 1; q 2 1]
    && match map snd lines with
       | [x0; x1; x2] => feqb CQ x0 (cq 1 2 0 1) && feqb CQ x1 (cq 0 1 2 3) && feqb CQ x2 (cq 1 5 4 15)
       | _ => false end)
  && forallb (fun n => Z.eqb (Qc_round (Qc_ofZ n / q 1 1)) n
                       && Qc_leb (rabs Qcops Qc_leb (Qc_ofZ n / q 1 1 - Qc_ofZ n)) (ex9_wres / q 1 1)) [0%Z; 1%Z; 2%Z] = true.
Proof. vm_compute. reflexivity. Qed.
