(* C13 (continued) — SimpleCircuit/NetworkBranchTranslators.py: the table network_translator_map and the functions it binds,
   as REGENERATED on every run (Gen/NetBranchGen.v, produced by tools/gen_netbranch.py in the vocabulary of
   Model/DrawingPrims.v and Model/NetBranch.v), are the hand-written model net_translator_of / apply_net_translator /
   net_branches of Model/NetBranch.v.  Properties/C13c.v states network_translator for an ARBITRARY translator map; here the
   map is the one of the source.  An edit of the source (`V=-element.V` -> `V=element.V`, nodes[0] / nodes[1] swapped, another
   attribute read, a row added / removed / rebound, `self._V = V if not reverse else -V` -> `self._V = V` in Elements.py)
   changes Gen/NetBranchGen.v and breaks an equality below — or is refused by the translator.
   Statements only; proofs are in Theory/NetBranchGenThm.v.
   Vocabulary: [gbranch] is a call ntw.Branch(n1, n2, ntw_elm.<ctor>(name=.., K=v, ..)) with the values [sval] as expressions
   over the ARGUMENTS of the symbol's constructor; [erase_branch] keeps kind, name, nodes and the sign [nb_neg] between the
   symbol constructor's argument and the element constructor's (defined only for a single value that is plus or minus that
   argument); [oa], [ou] are the iteration orders of parser.all_nodes / parser.unique_nodes (parameters, as in C13).
   Gen/DrawingGen.v and Gen/NetBranchGen.v both define g_resistor_translator, ... (same Python names in two modules); no
   statement below mentions a function by its Python name: they go through the table or through the generated aliases
   g_network_translator_of_<Class> (the function bound to elm.<Class>).
   Two defects of the library are part of the model: RealCurrentSource / RealVoltageSource are bound to functions that call
   ntw_elm.linear_current_source / ntw_elm.linear_voltage_source, which Network/elements.py does not define (AttributeError). *)
From Coq Require Import String.
From Coq Require Import List Bool ZArith NArith Arith.
From CC Require Import Theory.Field Theory.Complex Model.Network Model.Circuit Model.Drawing Model.DrawingPrims Gen.DrawingGen
  Theory.DrawingThm Theory.DrawingGenThm Model.NetBranch Gen.NetBranchGen Theory.NetBranchGenThm.
Import ListNotations.
Local Open Scope string_scope.
Local Open Scope nat_scope.

(* ================= A. the table ================= *)
(* lookup, for EVERY class code (not only the classes of the model): a class is bound exactly when the hand model has a
   translator for it, and the bound function, applied to the symbol and its two node labels, returns what the hand-written
   reading [expected_net] of that translator says (constructor, name=, nodes[0] -> nodes[1], keyword -> value) *)
Theorem C13d_net_table_lookup : forall (s : symbol) (a b : label),
  match table_get g_network_translator_map (s_class s), net_translator_of (s_class s) with
  | Some f, Some t => f s [a; b] = expected_net t s a b
  | None, None => True
  | _, _ => False
  end.
Proof. exact net_table_expected. Qed.
Print Assumptions C13d_net_table_lookup.

Theorem C13d_net_table_domain : forall c : N,
  table_get g_network_translator_map c = None <-> net_translator_of c = None.
Proof. exact net_table_domain. Qed.
Print Assumptions C13d_net_table_domain.

(* row by row, whatever the order of the rows of the dict literal *)
Theorem C13d_net_table_rows : forall (c : N) (f : translator_fn gbranch), In (c, f) g_network_translator_map ->
  exists t, net_translator_of c = Some t /\
            forall (s : symbol) (a b : label), s_class s = c -> f s [a; b] = expected_net t s a b.
Proof. exact net_table_rows. Qed.
Print Assumptions C13d_net_table_rows.

Theorem C13d_net_table_keys : forall c : N, In c (map fst g_network_translator_map) <-> net_translator_of c <> None.
Proof. exact net_table_keys. Qed.
Print Assumptions C13d_net_table_keys.
Theorem C13d_net_table_keys_nodup : NoDup (map fst g_network_translator_map).
Proof. exact net_table_keys_nodup. Qed.
Print Assumptions C13d_net_table_keys_nodup.
(* no class outside Model/Drawing.v is bound *)
Theorem C13d_net_table_unmodelled : g_network_translator_unmodelled = [].
Proof. exact net_table_unmodelled. Qed.

(* ================= B. the functions ================= *)
(* the reading, with the values forgotten down to the sign bookkeeping, is apply_net_translator *)
Theorem C13d_net_expected_model : forall (t : ntranslator) (s : symbol) (a b : label),
  res_omap erase_branch (expected_net t s a b) = res_omap Some (apply_net_translator t s a b).
Proof. exact expected_erased. Qed.
Print Assumptions C13d_net_expected_model.

(* the function bound to each class against the hand model.  g_network_translator_of_<Class> is the generated alias of the
   function the dict literal binds to elm.<Class> (C13d_aliases), whatever its Python name; the class hypothesis is the table
   key (type(element) decides both the function and what element.<attribute> holds) *)
Theorem C13d_aliases :
  table_get g_network_translator_map c_Resistor = Some g_network_translator_of_Resistor /\
  table_get g_network_translator_map c_Impedance = Some g_network_translator_of_Impedance /\
  table_get g_network_translator_map c_CurrentSource = Some g_network_translator_of_CurrentSource /\
  table_get g_network_translator_map c_VoltageSource = Some g_network_translator_of_VoltageSource /\
  table_get g_network_translator_map c_RealCurrentSource = Some g_network_translator_of_RealCurrentSource /\
  table_get g_network_translator_map c_RealVoltageSource = Some g_network_translator_of_RealVoltageSource /\
  table_get g_network_translator_map c_Line = Some g_network_translator_of_Line /\
  table_get g_network_translator_map c_Node = Some g_network_translator_of_Node /\
  table_get g_network_translator_map c_LabelNode = Some g_network_translator_of_LabelNode /\
  table_get g_network_translator_map c_Ground = Some g_network_translator_of_Ground.
Proof. exact aliases_ok. Qed.
Print Assumptions C13d_aliases.
Theorem C13d_translator_Resistor : forall (s : symbol) (a b : label), s_class s = c_Resistor ->
  res_omap erase_branch (g_network_translator_of_Resistor s [a; b])
  = res_omap Some (apply_net_translator (NBranch NKResistor) s a b).
Proof. exact eq_translator_Resistor. Qed.
Print Assumptions C13d_translator_Resistor.
Theorem C13d_translator_Impedance : forall (s : symbol) (a b : label), s_class s = c_Impedance ->
  res_omap erase_branch (g_network_translator_of_Impedance s [a; b])
  = res_omap Some (apply_net_translator (NBranch NKImpedance) s a b).
Proof. exact eq_translator_Impedance. Qed.
Print Assumptions C13d_translator_Impedance.
Theorem C13d_translator_CurrentSource : forall (s : symbol) (a b : label), s_class s = c_CurrentSource ->
  res_omap erase_branch (g_network_translator_of_CurrentSource s [a; b])
  = res_omap Some (apply_net_translator (NBranch NKCurrentSource) s a b).
Proof. exact eq_translator_CurrentSource. Qed.
Print Assumptions C13d_translator_CurrentSource.
Theorem C13d_translator_VoltageSource : forall (s : symbol) (a b : label), s_class s = c_VoltageSource ->
  res_omap erase_branch (g_network_translator_of_VoltageSource s [a; b])
  = res_omap Some (apply_net_translator (NBranch NKVoltageSource) s a b).
Proof. exact eq_translator_VoltageSource. Qed.
Print Assumptions C13d_translator_VoltageSource.
(* DEFECT of the library: both functions call a constructor that Network/elements.py does not define
   (apply_net_translator NMissing = Err EAttribute) *)
Theorem C13d_translator_RealCurrentSource : forall (s : symbol) (a b : label),
  res_omap erase_branch (g_network_translator_of_RealCurrentSource s [a; b]) = res_omap Some (apply_net_translator NMissing s a b).
Proof. exact eq_translator_RealCurrentSource. Qed.
Print Assumptions C13d_translator_RealCurrentSource.
Theorem C13d_translator_RealVoltageSource : forall (s : symbol) (a b : label),
  res_omap erase_branch (g_network_translator_of_RealVoltageSource s [a; b]) = res_omap Some (apply_net_translator NMissing s a b).
Proof. exact eq_translator_RealVoltageSource. Qed.
Print Assumptions C13d_translator_RealVoltageSource.
Theorem C13d_translator_none : forall (s : symbol) (a b : label),
  g_network_translator_of_Line s [a; b] = Ok None /\ g_network_translator_of_Node s [a; b] = Ok None /\
  g_network_translator_of_LabelNode s [a; b] = Ok None /\ g_network_translator_of_Ground s [a; b] = Ok None.
Proof. exact eq_translator_none. Qed.
Print Assumptions C13d_translator_none.

(* the constructors called although Network/elements.py does not define them, as listed by the translator *)
Theorem C13d_missing_constructors : forall g : label,
  In g (map snd g_missing_network_ctors) <-> g = lbl "linear_current_source" \/ g = lbl "linear_voltage_source".
Proof. exact missing_ctors_ok. Qed.
Print Assumptions C13d_missing_constructors.
(* exactly the classes the hand model marks NMissing are bound to a function of that list *)
Theorem C13d_missing_classes : forall c : N,
  net_translator_of c = Some NMissing <->
  exists f, table_get g_network_translator_names c = Some f /\ In f (map fst g_missing_network_ctors).
Proof. exact missing_classes. Qed.
Print Assumptions C13d_missing_classes.

(* the signs, in terms of the value given to the SYMBOL constructor.  The translators never swap the nodes (the branch
   always runs nodes[0] -> nodes[1]) and never test is_reverse: a VoltageSource yields voltage_source(V = -V) when not reversed
   and voltage_source(V = --V) when reversed; a CurrentSource current_source(I = I), resp. current_source(I = -I) *)
Theorem C13d_voltage_source_sign : forall (s : symbol) (a b : label), s_class s = c_VoltageSource ->
  g_network_translator_of_VoltageSource s [a; b]
  = Ok (Some (mk_gbranch a b (lbl "voltage_source") (s_name s)
               [(lbl "V", if s_reverse s then SNeg (SNeg (SArg (lbl "V"))) else SNeg (SArg (lbl "V")))]))
  /\ option_map nb_neg (erase_branch (mk_gbranch a b (lbl "voltage_source") (s_name s)
               [(lbl "V", if s_reverse s then SNeg (SNeg (SArg (lbl "V"))) else SNeg (SArg (lbl "V")))]))
     = Some (negb (s_reverse s)).
Proof. exact voltage_source_sign. Qed.
Print Assumptions C13d_voltage_source_sign.
Theorem C13d_current_source_sign : forall (s : symbol) (a b : label), s_class s = c_CurrentSource ->
  g_network_translator_of_CurrentSource s [a; b]
  = Ok (Some (mk_gbranch a b (lbl "current_source") (s_name s)
               [(lbl "I", if s_reverse s then SNeg (SArg (lbl "I")) else SArg (lbl "I"))]))
  /\ option_map nb_neg (erase_branch (mk_gbranch a b (lbl "current_source") (s_name s)
               [(lbl "I", if s_reverse s then SNeg (SArg (lbl "I")) else SArg (lbl "I"))]))
     = Some (s_reverse s).
Proof. exact current_source_sign. Qed.
Print Assumptions C13d_current_source_sign.

(* erase_branch loses nothing of a hand branch *)
Theorem C13d_erase_reify : forall b : nbranch, erase_branch (reify_branch b) = Some b.
Proof. exact erase_reify. Qed.
Print Assumptions C13d_erase_reify.

(* ================= C. DiagramTranslator with the regenerated table ================= *)
Theorem C13d_net_call : forall (d : drawing) (oa ou : list point) (s : symbol), enum oa (all_nodes d) ->
  res_omap erase_branch (g_DiagramTranslator_call g_network_translator_map d oa ou s)
  = res_omap Some (net_translate_symbol (get_node_index d oa ou) s).
Proof. exact eq_net_call. Qed.
Print Assumptions C13d_net_call.

(* network_translator: C13c_network_translator specialised to network_translator_map — the branches handed to Network(...) in
   drawing order and the ground label are those of the hand model; errors coincide *)
Theorem C13d_network_translator : forall (d : drawing) (oa ou : list point), enum oa (all_nodes d) ->
  res_map erase_net (g_network_translator g_network_translator_map d oa ou) = res_map some_net (net_branches d oa ou).
Proof. exact eq_net_network_translator. Qed.
Print Assumptions C13d_network_translator.

(* ================= D. the hand model in closed form, and its failures ================= *)
(* every symbol of a class bound to a working function: one branch per Resistor / Impedance / CurrentSource / VoltageSource
   symbol, in drawing order, between the labels of its 'start' and 'end' points, then the ground label *)
Theorem C13d_net_branches_spec : forall (d : drawing) (oa ou : list point),
  enum oa (all_nodes d) -> enum ou (unique_nodes d oa) ->
  (forall s, In s d -> net_ok (s_class s) = true) ->
  net_branches d oa ou = bind (ground_label d oa ou) (fun g => Ok (omap (nbranch_of (label_of d oa ou)) d, g)).
Proof. exact net_branches_spec. Qed.
Print Assumptions C13d_net_branches_spec.

Theorem C13d_network_translator_spec : forall (d : drawing) (oa ou : list point),
  enum oa (all_nodes d) -> enum ou (unique_nodes d oa) ->
  (forall s, In s d -> net_ok (s_class s) = true) ->
  res_map erase_net (g_network_translator g_network_translator_map d oa ou)
  = bind (ground_label d oa ou) (fun g => Ok (map Some (omap (nbranch_of (label_of d oa ou)) d), g)).
Proof.
  intros d oa ou Hoa Hou Hd. rewrite (eq_net_network_translator d oa ou Hoa), (net_branches_spec d oa ou Hoa Hou Hd).
  destruct (ground_label d oa ou); reflexivity.
Qed.
Print Assumptions C13d_network_translator_spec.

(* a class without entry (Capacitor, Inductance, every AC / periodic source, Conductance, Lamp, Switch, LabeledLine, ...):
   UnknownTranslator — unless a missing constructor is hit *)
Theorem C13d_net_branches_unknown : forall (d : drawing) (oa ou : list point),
  (forall s, In s d -> net_translator_of (s_class s) <> Some NMissing) ->
  (exists s, In s d /\ net_translator_of (s_class s) = None) ->
  net_branches d oa ou = Err EUnknownComponent.
Proof. exact net_branches_unknown. Qed.
Print Assumptions C13d_net_branches_unknown.

(* every class bound, one of them RealCurrentSource / RealVoltageSource: AttributeError *)
Theorem C13d_net_branches_missing : forall (d : drawing) (oa ou : list point),
  enum oa (all_nodes d) -> enum ou (unique_nodes d oa) ->
  (forall s, In s d -> net_translator_of (s_class s) <> None) ->
  (exists s, In s d /\ net_translator_of (s_class s) = Some NMissing) ->
  net_branches d oa ou = Err EAttribute.
Proof. exact net_branches_missing. Qed.
Print Assumptions C13d_net_branches_missing.

(* ================= D'. the two routes from a drawing to a network ================= *)
(* circuit_translator followed by transform_circuit, and network_translator, should describe the same network.  On the hand
   models (Model/Drawing.v: apply_translator; Model/NetBranch.v: apply_net_translator), with the sign of the source value taken
   with respect to the orientation 'start' -> 'end' ([component_path_neg], [network_path_neg] of Theory/NetBranchGenThm.v; the
   transformers of Circuit/transformers.py keep terminal order and value of dc sources — that step is NOT formalised here, it
   was checked on the live objects), the full statement is FALSE: *)
Definition C13d_paths_agree_full : Prop := forall (s : symbol) (a b : label), a <> b ->
  s_class s = c_Resistor \/ s_class s = c_Impedance \/ s_class s = c_CurrentSource \/ s_class s = c_VoltageSource ->
  component_path_neg s a b = network_path_neg s a b.
(* it holds for resistors, impedances and current sources ... *)
Theorem C13d_paths_agree_partial : forall (s : symbol) (a b : label), a <> b ->
  s_class s = c_Resistor \/ s_class s = c_Impedance \/ s_class s = c_CurrentSource ->
  component_path_neg s a b = network_path_neg s a b /\ network_path_neg s a b <> None.
Proof. exact paths_agree. Qed.
Print Assumptions C13d_paths_agree_partial.
(* ... and fails for EVERY voltage source, reversed or not: the network route hands voltage_source the opposite polarity
   (NetworkBranchTranslators.py: V=-element.V; CircuitComponentTranslators.py + transformers.py: V=+V between the same nodes) *)
Theorem C13d_paths_voltage_source_opposite : forall (s : symbol) (a b : label), a <> b -> s_class s = c_VoltageSource ->
  component_path_neg s a b = Some (s_reverse s) /\ network_path_neg s a b = Some (negb (s_reverse s)).
Proof. exact paths_voltage_source_opposite. Qed.
Print Assumptions C13d_paths_voltage_source_opposite.
Theorem C13d_paths_agree_refuted : ~ C13d_paths_agree_full.
Proof.
  intros H.
  pose proof (H (DrawingExamples.vsrc "V1" false (0, 0)%Z (0, 300)%Z) (lbl "a") (lbl "b")) as H1.
  vm_compute in H1. discriminate H1; [intros E; discriminate E|tauto].
Qed.
Print Assumptions C13d_paths_agree_refuted.

(* ================= E. cross-checks against the other generated files ================= *)
(* what the attributes read by the translators hold, from the __init__ bodies of Elements.py: the theorems above speak about
   the constructor ARGUMENT because of these facts *)
Theorem C13d_net_attr_values : forall s : symbol,
  (s_class s = c_Resistor -> attr_value g_net_attr_prov s (lbl "R") = plain "R") /\
  (s_class s = c_Impedance -> attr_value g_net_attr_prov s (lbl "Z") = plain "Z") /\
  (s_class s = c_CurrentSource -> attr_value g_net_attr_prov s (lbl "I") = stored (s_reverse s) "I") /\
  (s_class s = c_VoltageSource -> attr_value g_net_attr_prov s (lbl "V") = stored (s_reverse s) "V").
Proof. exact net_attr_values. Qed.
Print Assumptions C13d_net_attr_values.
(* ... the same rows Gen/DrawingGen.v holds for the component translators *)
Theorem C13d_net_attr_prov_consistent :
  forallb (fun r => match r with (c, a, p) =>
             match prov_lookup g_attr_prov c a with Some q => prov_eqb p q | None => false end end) g_net_attr_prov = true.
Proof. exact net_attr_prov_consistent. Qed.
Print Assumptions C13d_net_attr_prov_consistent.
(* the four constructors exist in Network/elements.py; `name` and the kind's key are their only parameters without default;
   Gen/Tables.v records the same signature and the constructor's name as the stored type string *)
Theorem C13d_net_ctors : forall k : nkind, ctor_checked k = true.
Proof. exact net_ctors_ok. Qed.
Print Assumptions C13d_net_ctors.

(* ================= Examples: the hypotheses are satisfiable, the regenerated code runs ================= *)
Example C13d_ex_hypotheses :
  forallb (fun d => enumerates ex_net_oa (all_nodes d) && enumerates ex_net_ou (unique_nodes d ex_net_oa))
    [ex_net_plain; ex_net_reversed; ex_net_isrc false; ex_net_isrc true; ex_net_real; ex_net_capacitor] = true
  /\ forallb (fun d => forallb (fun s => net_ok (s_class s)) d) [ex_net_plain; ex_net_reversed; ex_net_isrc false; ex_net_isrc true] = true.
Proof. vm_compute. split; reflexivity. Qed.

(* a voltage source, two resistors, wires and a ground: three branches and the ground label; the source between the labels
   of its start and end points with V = -V *)
Example C13d_ex_plain :
  g_network_translator g_network_translator_map ex_net_plain ex_net_oa ex_net_ou
  = Ok ([mk_gbranch (lbl "0") (lbl "3") (lbl "voltage_source") (lbl "V1") [(lbl "V", SNeg (SArg (lbl "V")))];
         mk_gbranch (lbl "3") (lbl "2") (lbl "resistor") (lbl "R1") [(lbl "R", SArg (lbl "R"))];
         mk_gbranch (lbl "2") (lbl "0") (lbl "resistor") (lbl "R2") [(lbl "R", SArg (lbl "R"))]], lbl "0")
  /\ net_branches ex_net_plain ex_net_oa ex_net_ou
  = Ok ([{| nb_kind := NKVoltageSource; nb_name := lbl "V1"; nb_node1 := lbl "0"; nb_node2 := lbl "3"; nb_neg := true |};
         {| nb_kind := NKResistor; nb_name := lbl "R1"; nb_node1 := lbl "3"; nb_node2 := lbl "2"; nb_neg := false |};
         {| nb_kind := NKResistor; nb_name := lbl "R2"; nb_node1 := lbl "2"; nb_node2 := lbl "0"; nb_neg := false |}], lbl "0").
Proof. vm_compute. split; reflexivity. Qed.

(* the same drawing with the source reversed: SAME nodes, the constructor's V reaches the element through two negations *)
Example C13d_ex_reversed :
  g_network_translator g_network_translator_map ex_net_reversed ex_net_oa ex_net_ou
  = Ok ([mk_gbranch (lbl "0") (lbl "3") (lbl "voltage_source") (lbl "V1") [(lbl "V", SNeg (SNeg (SArg (lbl "V"))))];
         mk_gbranch (lbl "3") (lbl "2") (lbl "resistor") (lbl "R1") [(lbl "R", SArg (lbl "R"))];
         mk_gbranch (lbl "2") (lbl "0") (lbl "resistor") (lbl "R2") [(lbl "R", SArg (lbl "R"))]], lbl "0")
  /\ res_map (fun p => map nb_neg (fst p)) (net_branches ex_net_reversed ex_net_oa ex_net_ou) = Ok [false; false; false].
Proof. vm_compute. split; reflexivity. Qed.

(* a current source, plain and reversed *)
Example C13d_ex_current_source :
  res_map (fun p => map gb_values (fst p)) (g_network_translator g_network_translator_map (ex_net_isrc false) ex_net_oa ex_net_ou)
  = Ok [[(lbl "I", SArg (lbl "I"))]; [(lbl "R", SArg (lbl "R"))]; [(lbl "R", SArg (lbl "R"))]]
  /\ res_map (fun p => map gb_values (fst p)) (g_network_translator g_network_translator_map (ex_net_isrc true) ex_net_oa ex_net_ou)
  = Ok [[(lbl "I", SNeg (SArg (lbl "I")))]; [(lbl "R", SArg (lbl "R"))]; [(lbl "R", SArg (lbl "R"))]]
  /\ res_map (fun p => map nb_neg (fst p)) (net_branches (ex_net_isrc true) ex_net_oa ex_net_ou) = Ok [true; false; false].
Proof. vm_compute. repeat split; reflexivity. Qed.

(* DEFECT: a drawing with a RealVoltageSource cannot be turned into a network *)
Example C13d_ex_real_source :
  g_network_translator g_network_translator_map ex_net_real ex_net_oa ex_net_ou = Err EAttribute
  /\ net_branches ex_net_real ex_net_oa ex_net_ou = Err EAttribute.
Proof. vm_compute. split; reflexivity. Qed.

(* a capacitor has no network translator *)
Example C13d_ex_capacitor :
  g_network_translator g_network_translator_map ex_net_capacitor ex_net_oa ex_net_ou = Err EUnknownComponent
  /\ net_branches ex_net_capacitor ex_net_oa ex_net_ou = Err EUnknownComponent.
Proof. vm_compute. split; reflexivity. Qed.

(* both in one drawing: the first failing symbol (drawing order) decides *)
Example C13d_ex_first_failure :
  g_network_translator g_network_translator_map ex_net_capacitor_then_real ex_net_oa ex_net_ou = Err EUnknownComponent
  /\ g_network_translator g_network_translator_map ex_net_real_then_capacitor ex_net_oa ex_net_ou = Err EAttribute.
Proof. vm_compute. split; reflexivity. Qed.

(* end to end over the Gaussian rationals, V1(V=10), R1(R=2), R2(R=3): the branches of the hand model as a network of
   Model/Network.v, solved (ex_net_observe, Theory/NetBranchGenThm.v).  Potential of node '3' (the source's END point),
   current through R1 (3 -> 2), voltage of the    branch V1 (0 -> 3): reversing the source flips all three *)
Example C13d_ex_solved :
  ex_net_observe ex_net_plain = Ok (cq 10 1 0 1, cq 2 1 0 1, cq (-10) 1 0 1)
  /\ ex_net_observe ex_net_reversed = Ok (cq (-10) 1 0 1, cq (-2) 1 0 1, cq 10 1 0 1).
Proof. vm_compute. split; reflexivity. Qed.
