(* placeholder until Theory/CircuitThm.v lands: theorems follow *)
From CC Require Import Model.Circuit Gen.Tables.
Example C02_model_runs : True. Proof. exact I. Qed.
