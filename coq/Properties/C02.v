(* C02 — "... the complex potentials, voltages and currents of the single-frequency analysis equal the exact phasor solution
   in which an inductor is jwL, a capacitor 1/(jwC), a source oscillating at w contributes the phasor A*exp(j*phi), and every
   source at another frequency is replaced by a short circuit (voltage) or open circuit (current).  RMS results are the peak
   phasors divided by sqrt(2), and the DC analysis equals the real part of the w = 0 solution with capacitors open and
   inductors shorted."
   Statements only; proofs are in Theory/CircuitThm.v.  The component laws are [comp_law] (spelled out in
   Properties/C07.v, C07_comp_law_unfolded). *)
From Coq Require Import List Bool ZArith NArith String QArith Qcanon.
From CC Require Import Theory.Field Theory.Complex Theory.Labels Model.Network Theory.Spec Theory.Mna Model.Circuit
  Model.RunCircuit Theory.CircuitThm Properties.C07.
Import ListNotations.

(* The phasor equations of a circuit at w, stated on the component list only: reference potential 0; Kirchhoff's current
   law at every node over the non-ground components (flow [ji id] of component [id] from its first to its second
   terminal); the law of every non-ground component.  [nd c k] is the k-th listed terminal of c. *)
Theorem C02_PhasorSpec_unfolded : forall (R : fops) leb rnd ofZ (cs : list (comp R)) (w wres : R) (phi ji : label -> Cx R),
  let C := Cx R in
  PhasorSpec R leb rnd ofZ cs w wres phi ji =
  ((exists g, ground_node R cs = Ok g /\ phi g = f0 C)
   /\ (forall node,
        sumF (fun c => fsub C (if label_eqb (nth 0 (cnodes c) []) node then ji (cid c) else f0 C)
                              (if label_eqb (nth 1 (cnodes c) []) node then ji (cid c) else f0 C))
             (filter (fun c => has_translator (ck c)) cs) = f0 C)
   /\ (forall c, In c cs -> ck c <> KGround ->
         comp_law R leb rnd ofZ c w wres (fsub C (phi (nth 0 (cnodes c) [])) (phi (nth 1 (cnodes c) []))) (ji (cid c)))).
Proof. reflexivity. Qed.

(* the network produced at w has exactly the phasor equations of the circuit *)
Theorem C02_phasor : forall (R : fops) (ROK : fops_ok R)
  (Rreal : forall x y : R, fadd R (fmul R x x) (fmul R y y) = f0 R -> x = f0 R /\ y = f0 R)
  leb rnd ofZ (cs : list (comp R)) (w wres : R) (n : network (Cx R)) (phi ji : label -> Cx R),
  transform_circuit R leb rnd ofZ cs w wres = Ok n ->
  (CircuitSpec n phi (fun b => ji (bid b)) <-> PhasorSpec R leb rnd ofZ cs w wres phi ji).
Proof. exact phasor_iff. Qed.
Print Assumptions C02_phasor.

(* whenever ComplexSolution succeeds (no component between a node and itself), the potentials and flows read off its
   solution vector solve the phasor equations, and every other solution agrees with them on all nodes and components *)
Theorem C02_solution : forall (R : fops) (ROK : fops_ok R)
  (Rreal : forall x y : R, fadd R (fmul R x x) (fmul R y y) = f0 R -> x = f0 R /\ y = f0 R)
  leb rnd ofZ (cs : list (comp R)) (w wres : R) (peak : bool) (s : csol R),
  complex_solution R leb rnd ofZ cs w wres peak = Ok s ->
  (forall c, In c cs -> ck c <> KGround -> nth 0 (cnodes c) [] <> nth 1 (cnodes c) []) ->
  let n := s_net (cs_sol s) in let x := s_x (cs_sol s) in
  transform_circuit R leb rnd ofZ cs w wres = Ok n
  /\ wf n /\ WellPosed n
  /\ PhasorSpec R leb rnd ofZ cs w wres (phi_of n x) (flow_by_id R n x)
  /\ (forall phi' ji', PhasorSpec R leb rnd ofZ cs w wres phi' ji' ->
        (forall l, In l (node_labels n) -> phi' l = phi_of n x l)
        /\ (forall c, In c cs -> ck c <> KGround -> ji' (cid c) = flow_by_id R n x (cid c))).
Proof. exact phasor_solution. Qed.
Print Assumptions C02_solution.

(* uniqueness from well-posedness of the network alone *)
Theorem C02_unique : forall (R : fops) (ROK : fops_ok R)
  (Rreal : forall x y : R, fadd R (fmul R x x) (fmul R y y) = f0 R -> x = f0 R /\ y = f0 R)
  leb rnd ofZ (cs : list (comp R)) (w wres : R) (n : network (Cx R)) (phi ji phi' ji' : label -> Cx R),
  transform_circuit R leb rnd ofZ cs w wres = Ok n -> WellPosed n ->
  PhasorSpec R leb rnd ofZ cs w wres phi ji -> PhasorSpec R leb rnd ofZ cs w wres phi' ji' ->
  (forall l, In l (node_labels n) -> phi l = phi' l) /\ (forall c, In c cs -> ck c <> KGround -> ji (cid c) = ji' (cid c)).
Proof. exact phasor_unique. Qed.
Print Assumptions C02_unique.

(* what the accessors return: that solution's potentials, voltages (first -> second terminal) and flows — the flow with
   reversed sign (generator convention) for a lossy source that is active at w; in RMS mode everything through [unpeak] *)
Theorem C02_reported : forall (R : fops) (ROK : fops_ok R)
  (Rreal : forall x y : R, fadd R (fmul R x x) (fmul R y y) = f0 R -> x = f0 R /\ y = f0 R)
  leb rnd ofZ (sqrt2 : R) (cs : list (comp R)) (w wres : R) (peak : bool) (s : csol R),
  complex_solution R leb rnd ofZ cs w wres peak = Ok s ->
  (forall c, In c cs -> ck c <> KGround -> nth 0 (cnodes c) [] <> nth 1 (cnodes c) []) ->
  let n := s_net (cs_sol s) in let x := s_x (cs_sol s) in
  let phi := phi_of n x in let ji := flow_by_id R n x in
  (forall l, In l (node_labels n) -> c_potential R sqrt2 s l = Ok (unpeak R sqrt2 s (phi l)))
  /\ (forall c, In c cs -> ck c <> KGround ->
        exists b, In b (branches n) /\ translate R leb rnd ofZ c w wres = Ok b
          /\ c_voltage R sqrt2 s (cid c)
             = Ok (unpeak R sqrt2 s (fsub (Cx R) (phi (nth 0 (cnodes c) [])) (phi (nth 1 (cnodes c) []))))
          /\ c_current R sqrt2 s (cid c)
             = Ok (unpeak R sqrt2 s (if is_linear_source (el b) then fopp (Cx R) (ji (cid c)) else ji (cid c)))).
Proof. exact phasor_reported. Qed.
Print Assumptions C02_reported.

Theorem C02_unpeak : forall (R : fops) (sqrt2 : R) (s : csol R) (x : Cx R),
  (cs_peak s = true -> unpeak R sqrt2 s x = x)
  /\ (cs_peak s = false -> unpeak R sqrt2 s x = fdiv (Cx R) x (sqrt2, f0 R)).
Proof. intros. split; [apply unpeak_peak|apply unpeak_rms]. Qed.

(* ---- RMS ---- *)
(* the RMS run is the peak run with the flag cleared ... *)
Theorem C02_rms_same_solution : forall (R : fops) leb rnd ofZ (cs : list (comp R)) (w wres : R),
  complex_solution R leb rnd ofZ cs w wres false
  = match complex_solution R leb rnd ofZ cs w wres true with
    | Ok s => Ok {| cs_sol := cs_sol s; cs_peak := false |}
    | Err e => Err e
    end.
Proof. exact complex_solution_rms. Qed.

(* ... and every reported quantity is the peak quantity divided by (sqrt2, 0) (same errors otherwise) *)
Theorem C02_rms : forall (R : fops) (sqrt2 : R) (sp sr : csol R),
  cs_sol sr = cs_sol sp -> cs_peak sp = true -> cs_peak sr = false ->
  let scale := fun r : res (Cx R) => match r with Ok x => Ok (fdiv (Cx R) x (sqrt2, f0 R)) | Err e => Err e end in
  (forall l, c_potential R sqrt2 sr l = scale (c_potential R sqrt2 sp l))
  /\ (forall id, c_voltage R sqrt2 sr id = scale (c_voltage R sqrt2 sp id))
  /\ (forall id, c_current R sqrt2 sr id = scale (c_current R sqrt2 sp id)).
Proof. intros R sqrt2 sp sr E Hp Hr. split; [|split]; intros x.
  - exact (rms_potential R sqrt2 sp sr E Hp Hr x).
  - exact (rms_voltage R sqrt2 sp sr E Hp Hr x).
  - exact (rms_current R sqrt2 sp sr E Hp Hr x). Qed.
Print Assumptions C02_rms.

(* the complex power is the same in both modes when sqrt2 * sqrt2 = 2 ... *)
Theorem C02_rms_power : forall (R : fops) (ROK : fops_ok R)
  (Rreal : forall x y : R, fadd R (fmul R x x) (fmul R y y) = f0 R -> x = f0 R /\ y = f0 R)
  (sqrt2 : R) (sp sr : csol R),
  cs_sol sr = cs_sol sp -> cs_peak sp = true -> cs_peak sr = false ->
  forall id, fmul R sqrt2 sqrt2 = fadd R (f1 R) (f1 R) -> c_power R sqrt2 sr id = c_power R sqrt2 sp id.
Proof. exact rms_power. Qed.
Print Assumptions C02_rms_power.

(* ... and in general (any nonzero approximation of sqrt 2) it is the peak-mode power times 2 / sqrt2^2 *)
Theorem C02_rms_power_general : forall (R : fops) (ROK : fops_ok R)
  (Rreal : forall x y : R, fadd R (fmul R x x) (fmul R y y) = f0 R -> x = f0 R /\ y = f0 R)
  (sqrt2 : R) (sp sr : csol R),
  cs_sol sr = cs_sol sp -> cs_peak sp = true -> cs_peak sr = false ->
  forall id, sqrt2 <> f0 R ->
  c_power R sqrt2 sr id
  = match c_power R sqrt2 sp id with
    | Ok p => Ok (fmul (Cx R) (fdiv R (fadd R (f1 R) (f1 R)) (fmul R sqrt2 sqrt2), f0 R) p)
    | Err e => Err e
    end.
Proof. exact rms_power_gen. Qed.
Print Assumptions C02_rms_power_general.

(* ---- DC ---- *)
(* DCSolution is the w = 0 complex solution ... *)
Theorem C02_dc_solution : forall (R : fops) leb rnd ofZ (cs : list (comp R)) (wres : R),
  dc_solution R leb rnd ofZ cs wres
  = match complex_solution R leb rnd ofZ cs (f0 R) wres true with Ok s => Ok (cs_sol s) | Err e => Err e end.
Proof. exact dc_is_w0. Qed.

(* ... of which it reports the real parts ... *)
Theorem C02_dc : forall (R : fops) (sqrt2 : R) (s : solution (Cx R)),
  let re := fun r : res (Cx R) => match r with Ok x => Ok (fst x) | Err e => Err e end in
  let cs := {| cs_sol := s; cs_peak := true |} in
  (forall l, dc_potential R s l = re (c_potential R sqrt2 cs l))
  /\ (forall id, dc_voltage R s id = re (c_voltage R sqrt2 cs id))
  /\ (forall id, dc_current R s id = re (c_current R sqrt2 cs id)).
Proof. intros R sqrt2 s. split; [|split]; intros x.
  - exact (dc_potential_re R sqrt2 s x). - exact (dc_voltage_re R sqrt2 s x). - exact (dc_current_re R sqrt2 s x). Qed.
Print Assumptions C02_dc.

(* ... and at w = 0 a capacitor is an open circuit, an inductor a short circuit *)
Theorem C02_dc_capacitor_open : forall (R : fops) (ROK : fops_ok R) leb rnd ofZ (c : comp R) (wres : R) (v i : Cx R),
  ck c = KCapacitor ->
  (comp_law R leb rnd ofZ c (f0 R) wres v i <-> (exists cv, hasv R c "C" cv) /\ i = f0 (Cx R)).
Proof. exact dc_capacitor_open. Qed.
Theorem C02_dc_inductor_short : forall (R : fops) (ROK : fops_ok R) leb rnd ofZ (c : comp R) (wres : R) (v i : Cx R),
  ck c = KInductance ->
  (comp_law R leb rnd ofZ c (f0 R) wres v i <-> (exists l, hasv R c "L" l) /\ v = f0 (Cx R)).
Proof. exact dc_inductor_short. Qed.
Print Assumptions C02_dc_capacitor_open.
Print Assumptions C02_dc_inductor_short.

(* ================= non-vacuity (the circuit of Properties/C07.v, w = 2) ================= *)
Definition q_complex_solution := complex_solution Qcops Qc_leb Qc_round Qc_ofZ.
Definition ex_sqrt2 : Qc := q 7 5.

Example C02_example_distinct : distinct_terminalsb Qcops ex_cs = true.
Proof. vm_compute. reflexivity. Qed.
(* solved in both modes; the voltage across R1 is reported in both, the RMS one being the peak one over (7/5, 0) *)
Example C02_example_solves :
  okb (q_complex_solution ex_cs ex_w ex_wres true) (fun sp =>
  okb (q_complex_solution ex_cs ex_w ex_wres false) (fun sr =>
  okb (c_voltage Qcops ex_sqrt2 sp (lbl "R1")) (fun vp =>
  okb (c_voltage Qcops ex_sqrt2 sr (lbl "R1")) (fun vr =>
    negb (feqb CQ vp (f0 CQ)) && feqb CQ vr (fdiv CQ vp (ex_sqrt2, 0%Qc)))))) = true.
Proof. vm_compute. reflexivity. Qed.
Example C02_example_phasor : exists phi ji, PhasorSpec Qcops Qc_leb Qc_round Qc_ofZ ex_cs ex_w ex_wres phi ji.
Proof. destruct (okb_ex _ _ C02_example_solves) as [s [H _]].
  destruct (C02_solution Qcops Qcops_ok Qc_real _ _ _ _ _ _ _ s H (distinct_terminalsb_ok _ _ C02_example_distinct))
    as (_ & _ & _ & P & _). eauto. Qed.
(* DC analysis of the same circuit: solved; the capacitor carries no current, the inductor no voltage but a current *)
Example C02_example_dc :
  okb (dc_solution Qcops Qc_leb Qc_round Qc_ofZ ex_cs ex_wres) (fun s =>
  okb (dc_current Qcops s (lbl "C1")) (fun i => okb (dc_voltage Qcops s (lbl "L1")) (fun v =>
  okb (dc_current Qcops s (lbl "L1")) (fun il =>
    Qc_eq_bool i 0 && Qc_eq_bool v 0 && negb (Qc_eq_bool il 0))))) = true.
Proof. vm_compute. reflexivity. Qed.
