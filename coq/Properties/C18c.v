(* C18 (continued) — Utils.py (FloatPrecision, Float3, ScientificFloat, ScientificComplex) as REGENERATED on every run
   (Gen/FormatGen.v, written by tools/gen_format.py in the vocabulary of Model/FormatPrims.v: one definition per property /
   method) is the hand-written model Model/Format.v.  With this the theorems of Properties/C18.v are statements about the
   code as read from the source: an edit (`max` for `min` in rebase_exp, `<=` for `<` in is_zero, a prefix dropped from the
   default table, the carry exit changed, the sign of the imaginary part lost in the compact form, ...) changes
   Gen/FormatGen.v and breaks one of the equalities below, or is refused by the translator.
   Statements only; proofs are in Theory/FormatGenThm.v.
     a float is its exact rational value; the text of a float is its exact decimal expansion (Model/FormatPrims.v says which
     float operation is identified with which exact operation — the documented trusted base of C18);
     mk_FloatPrecision x p mn mx          = FloatPrecision / Float3 (value=x, precision=p, min_exp=mn, max_exp=mx)
     mk_ScientificFloat x un p up t       = ScientificFloat(x, un, p, up, t)
     mk_ScientificComplex z un p up compact polar deg t = ScientificComplex(z, un, p, up, compact, polar, deg, t)
     AO : angle_oracle                    = abs / np.angle / np.log10(.) <= k / '.Nf' of the polar rendering (inputs)
   The hypothesis 0 <= p (precision) is needed because the hand model computes 10 ^ (exp0 + p) in Z. *)
From Coq Require Import List Bool ZArith NArith QArith Qabs Qround Qpower Lia.
From CC Require Import Model.Network Model.Format Theory.FormatThm Theory.FormatText Theory.FormatSig
  Model.Annotation Model.AnnotationPrims Model.FormatPrims Gen.FormatGen Theory.FormatGenThm Properties.C18.
Import ListNotations.
Open Scope Z_scope.

(* ================= 0. the dataclasses: defaults of the fields ================= *)
Theorem C18c_defaults :
  g_FloatPrecision_default_precision = 3 /\ g_FloatPrecision_default_min_exp = -16 /\ g_FloatPrecision_default_max_exp = 16 /\
  g_ScientificFloat_default_unit = [] /\ g_ScientificFloat_default_precision = 3 /\
  g_ScientificFloat_default_use_exp_prefix = false /\ g_ScientificFloat_default_exp_prefixes = tab_default /\
  g_ScientificComplex_default_unit = [] /\ g_ScientificComplex_default_precision = 3 /\
  g_ScientificComplex_default_use_exp_prefix = false /\ g_ScientificComplex_default_compact = false /\
  g_ScientificComplex_default_polar = false /\ g_ScientificComplex_default_deg = false /\
  g_ScientificComplex_default_exp_prefixes = tab_default.
Proof. exact gen_defaults. Qed.

(* ================= A. FloatPrecision ================= *)
(* the pinned primitive: _float_to_string(v) is the decimal text of v *)
Theorem C18c_float_to_string : forall (self : FloatPrecision) (v : Q), g_FloatPrecision__float_to_string self v = float_str v.
Proof. exact gen_float_to_string_eq. Qed.
(* pre_decimal / len(pre_decimal) - precision, the leading zeros, np.round(.., decimals=precision), the exit
   rounded_post_decimal == '0' *)
Theorem C18c_exponent : forall (x : Q) (p mn mx : Z), 0 <= p ->
  g_FloatPrecision_exponent (mk_FloatPrecision x p mn mx) = exponent x p.
Proof. exact gen_exponent_eq. Qed.
Theorem C18c_mantissa : forall (x : Q) (p mn mx : Z), 0 <= p ->
  g_FloatPrecision_mantissa (mk_FloatPrecision x p mn mx) = mantissa x p.
Proof. exact gen_mantissa_eq. Qed.
Theorem C18c_is_zero : forall (x : Q) (p mn mx : Z), 0 <= p ->
  g_FloatPrecision_is_zero (mk_FloatPrecision x p mn mx) = is_zero x p mn.
Proof. exact gen_is_zero_eq. Qed.
Theorem C18c_is_inf : forall (x : Q) (p mn mx : Z), 0 <= p ->
  g_FloatPrecision_is_inf (mk_FloatPrecision x p mn mx) = is_inf x p mx.
Proof. exact gen_is_inf_eq. Qed.
Print Assumptions C18c_exponent.
Print Assumptions C18c_mantissa.
Print Assumptions C18c_is_zero.

(* ================= B. Float3 ================= *)
Theorem C18c_exponent3 : forall (x : Q) (p mn mx : Z), 0 <= p ->
  g_Float3_exponent3 (mk_FloatPrecision x p mn mx) = exponent3 (exponent x p) p.
Proof. exact gen_exponent3_eq. Qed.
(* mantissa * 10**(exponent - exponent3) as the fraction m3num / m3den of the model *)
Theorem C18c_mantissa3 : forall (x : Q) (p mn mx : Z), 0 <= p ->
  let m3 := g_Float3_mantissa3 (mk_FloatPrecision x p mn mx) in
  Qnum m3 = m3num (mantissa x p) (exponent x p) p /\ QDen m3 = m3den (exponent x p) p.
Proof. exact gen_mantissa3_eq. Qed.
Print Assumptions C18c_mantissa3.

(* ================= C. ScientificFloat ================= *)
(* min_exp / max_exp handed to Float3: min / max of the table keys, or the defaults -16 / 16 *)
Theorem C18c_value3 : forall (x : Q) (un : label) (p : Z) (up : bool) (t : table),
  g_ScientificFloat_value3 (mk_ScientificFloat x un p up t) = mk_FloatPrecision x p (min_exp up t) (max_exp up t).
Proof. exact gen_value3_eq. Qed.
Theorem C18c_rebase_exp : forall (x : Q) (un : label) (p : Z) (up : bool) (t : table) (e : Z),
  g_ScientificFloat_exp_extension_rebase_exp (mk_ScientificFloat x un p up t) e = rebase_exp up t e.
Proof. exact gen_rebase_exp_eq. Qed.
Theorem C18c_exp_extension : forall (x : Q) (un : label) (p : Z) (up : bool) (t : table) (e : Z),
  g_ScientificFloat_exp_extension (mk_ScientificFloat x un p up t) e = exp_extension up t e.
Proof. exact gen_exp_extension_eq. Qed.
Theorem C18c_exp_prefix : forall (x : Q) (un : label) (p : Z) (up : bool) (t : table) (e : Z),
  g_ScientificFloat_exp_prefix (mk_ScientificFloat x un p up t) e = exp_prefix up t e.
Proof. exact gen_exp_prefix_eq. Qed.
(* __str__: saturation, digits before / after the point, zero padding, e-extension, prefix, unit *)
Theorem C18c_float_str : forall (x : Q) (un : label) (p : Z) (up : bool) (t : table), 0 <= p ->
  g_ScientificFloat_str (mk_ScientificFloat x un p up t) = sci_text x p up t un.
Proof. exact gen_float_str_eq. Qed.
Print Assumptions C18c_rebase_exp.
Print Assumptions C18c_exp_prefix.
Print Assumptions C18c_float_str.

(* ================= D. ScientificComplex ================= *)
Theorem C18c_complex_parts : forall (z : cval) (un : label) (p : Z) (up compact polar deg : bool) (t : table) (AO : angle_oracle),
  let self := mk_ScientificComplex z un p up compact polar deg t in
  g_ScientificComplex_real self = mk_ScientificFloat (Qabs (fst z)) un p up t /\
  g_ScientificComplex_imag self = mk_ScientificFloat (Qabs (snd z)) un p up t /\
  g_ScientificComplex_abs AO self = mk_ScientificFloat (ao_abs AO z) un p up t /\
  g_ScientificComplex_angle AO self = ao_angle AO z deg.
Proof. exact gen_complex_parts. Qed.
Theorem C18c_real_sign : forall (z : cval) (un : label) (p : Z) (up compact polar deg : bool) (t : table),
  g_ScientificComplex_real_sign (mk_ScientificComplex z un p up compact polar deg t) = real_sign (fst z) compact.
Proof. exact gen_real_sign_eq. Qed.
Theorem C18c_imag_sign : forall (z : cval) (un : label) (p : Z) (up compact polar deg : bool) (t : table),
  g_ScientificComplex_imag_sign (mk_ScientificComplex z un p up compact polar deg t) = imag_sign (snd z) compact.
Proof. exact gen_imag_sign_eq. Qed.
(* __str__, all three forms.  scientific_complex_str (Model/AnnotationPrims.v) = if polar then Format.polar_text else
   Format.complex_text; it is what Gen/AnnotationGen.v (C14c) calls for str(ScientificComplex(...)).  po_of AO: the oracle
   of Model/Annotation.v read off the finer one (thresholds -2 / -5, 2 / 4 decimals) *)
Theorem C18c_complex_str : forall (AO : angle_oracle) (z : cval) (un : label) (p : Z) (up compact polar deg : bool) (t : table),
  0 <= p ->
  g_ScientificComplex_str AO (mk_ScientificComplex z un p up compact polar deg t)
  = scientific_complex_str (po_of AO) z un p up compact polar deg t.
Proof. exact gen_complex_str_eq. Qed.
Theorem C18c_complex_str_cartesian : forall (AO : angle_oracle) (z : cval) (un : label) (p : Z) (up compact deg : bool) (t : table),
  0 <= p ->
  g_ScientificComplex_str AO (mk_ScientificComplex z un p up compact false deg t) = complex_text (fst z) (snd z) p up t un compact.
Proof. intros. exact (gen_complex_str_eq AO z un p up compact false deg t H). Qed.
Theorem C18c_complex_str_polar : forall (AO : angle_oracle) (z : cval) (un : label) (p : Z) (up compact deg : bool) (t : table),
  0 <= p ->
  g_ScientificComplex_str AO (mk_ScientificComplex z un p up compact true deg t)
  = polar_text (ao_abs AO z) p up t un (ao_log10_le AO (Qabs (ao_angle AO z deg)) (if deg then -2 else -5)) deg
      (ao_fmt_f AO (if deg then 2 else 4) (ao_angle AO z deg)).
Proof. intros. exact (gen_complex_str_eq AO z un p up compact true deg t H). Qed.
Print Assumptions C18c_real_sign.
Print Assumptions C18c_imag_sign.
Print Assumptions C18c_complex_str.

(* ================= E. the meaning of the vocabulary (Model/FormatPrims.v) ================= *)
Theorem C18c_fpow10_meaning : forall k : Z, (fpow10 k == (10 # 1) ^ k)%Q.
Proof. exact fpow10_meaning. Qed.
Theorem C18c_float_ltb_meaning : forall x y : Q, float_ltb x y = true <-> (x < y)%Q.
Proof. exact float_ltb_meaning. Qed.
Theorem C18c_float_leb_meaning : forall x y : Q, float_leb x y = true <-> (x <= y)%Q.
Proof. exact float_leb_meaning. Qed.
Theorem C18c_float_eqb_meaning : forall x y : Q, float_eqb x y = true <-> (x == y)%Q.
Proof. exact float_eqb_meaning. Qed.
Theorem C18c_np_round_meaning : forall x : Q, (Qabs (inject_Z (np_round x) - x) <= 1 # 2)%Q.
Proof. exact np_round_meaning. Qed.
Theorem C18c_float_mod1_meaning : forall x : Q,
  (float_mod1 x == x - inject_Z (Qfloor x))%Q /\ (0 <= float_mod1 x)%Q /\ (float_mod1 x < 1)%Q.
Proof. exact float_mod1_meaning. Qed.
Theorem C18c_leading_zeros_meaning : forall d : Q, (0 < d)%Q -> (d < 1)%Q ->
  0 <= leading_zeros d /\ (fpow10 (- (leading_zeros d + 1)) <= d)%Q /\ (d < fpow10 (- leading_zeros d))%Q.
Proof. exact leading_zeros_meaning. Qed.
Theorem C18c_fs_pre_meaning : forall x : Q, (0 <= x)%Q -> dlv 0 (fs_pre (float_str x)) = Qfloor x.
Proof. exact fs_pre_meaning. Qed.
Print Assumptions C18c_leading_zeros_meaning.

(* ================= F. the C18 theorems, about the regenerated definitions ================= *)
Theorem C18c_accuracy : forall (x : Q) (p mn mx : Z),
  ~ (x == 0)%Q -> 1 <= p -> ~ (2 <= p /\ carry_region_Q x p) ->
  let f := mk_FloatPrecision x p mn mx in
  (Qabs (inject_Z (g_FloatPrecision_mantissa f) * Qpow10 (g_FloatPrecision_exponent f) - x) <= Qpow10 (g_FloatPrecision_exponent f) / 2)%Q /\
  10 ^ (p - 1) <= Z.abs (g_FloatPrecision_mantissa f) <= 10 ^ p /\
  ((0 < x)%Q -> 0 < g_FloatPrecision_mantissa f) /\ ((x < 0)%Q -> g_FloatPrecision_mantissa f < 0).
Proof.
  intros x p mn mx H1 H2 H3. cbv zeta.
  rewrite (gen_exponent_eq x p mn mx ltac:(lia)), (gen_mantissa_eq x p mn mx ltac:(lia)). exact (C18_accuracy x p H1 H2 H3).
Qed.
Theorem C18c_carry_defect : forall (x : Q) (p mn mx : Z), 2 <= p -> carry_region_Q x p ->
  let f := mk_FloatPrecision x p mn mx in
  g_FloatPrecision_exponent f = 0 /\ Z.abs (g_FloatPrecision_mantissa f) = 1 /\ ~ (10 ^ (p - 1) <= Z.abs (g_FloatPrecision_mantissa f)).
Proof.
  intros x p mn mx H1 H2. cbv zeta.
  rewrite (gen_exponent_eq x p mn mx ltac:(lia)), (gen_mantissa_eq x p mn mx ltac:(lia)). exact (C18_carry_defect x p H1 H2).
Qed.
Theorem C18c_rendered_accurate : forall (x : Q) (p : Z) (up : bool) (t : table) (un : label),
  ~ (x == 0)%Q -> 1 <= p -> ~ (2 <= p /\ carry_region_Q x p) -> exponent x p <= max_exp up t ->
  (up = true -> table_ok t) -> suffix_clean up t un ->
  exists r s, parse up t un (g_ScientificFloat_str (mk_ScientificFloat x un p up t)) = Some r /\
    p_inf r = false /\ (p_neg r = true <-> (x < 0)%Q) /\
    sig_exp x p s /\ (Qabs (pvalue r - x) <= Qpow10 s / 2)%Q /\
    shown_exponent r mod 3 = 0 /\
    10 ^ p_nfrac r <= shown_mantissa_scaled r <= 1000 * 10 ^ p_nfrac r.
Proof.
  intros x p up t un H1 H2 H3 H4 H5 H6. rewrite (gen_float_str_eq x un p up t ltac:(lia)).
  exact (C18_rendered_accurate x p up t un H1 H2 H3 H4 H5 H6).
Qed.
Theorem C18c_saturate_value : forall (x : Q) (p : Z) (up : bool) (t : table) (un : label),
  ~ (x == 0)%Q -> 1 <= p -> ~ (2 <= p /\ carry_region_Q x p) -> max_exp up t < exponent x p ->
  g_ScientificFloat_str (mk_ScientificFloat x un p up t) = if Qneg x then [45%N; INF] else [INF].
Proof.
  intros x p up t un H1 H2 H3 H4. rewrite (gen_float_str_eq x un p up t ltac:(lia)).
  exact (C18_saturate_value x p up t un H1 H2 H3 H4).
Qed.
Print Assumptions C18c_accuracy.
Print Assumptions C18c_carry_defect.
Print Assumptions C18c_rendered_accurate.
Print Assumptions C18c_saturate_value.

(* ================= non-vacuity: the regenerated functions computed on concrete values ================= *)
Definition AO0 : angle_oracle :=      (* an oracle for the examples: angle 0.5 rad / 30 deg, rendered '0.5000' / '30.00' *)
  {| ao_abs := fun _ => 5 # 1; ao_angle := fun _ deg => if deg then 30 # 1 else 1 # 2;
     ao_log10_le := fun _ _ => false;
     ao_fmt_f := fun n _ => if n =? 2 then S [51; 48; 46; 48; 48] else S [48; 46; 53; 48; 48; 48] |}.
(* the hypothesis of every equality above: 0 <= p *)
Example ex_gen_text : g_ScientificFloat_str (mk_ScientificFloat (-12345678 # 10000) (S [86]) 4 true tab_umk)
  = S [45; 49; 46; 50; 51; 53; 107; 86].                                      (* -1.235kV *)
Proof. vm_compute. reflexivity. Qed.
Example ex_gen_small : g_ScientificFloat_str (mk_ScientificFloat (15 # 1000000000000) (S [86]) 3 true tab_umk)
  = S [49; 53; 46; 48; 101; 45; 54; 117; 86].                                 (* 15.0e-6uV *)
Proof. vm_compute. reflexivity. Qed.
Example ex_gen_carry : let f := mk_FloatPrecision (99996 # 10000000) 4 (-16) 16 in
  g_FloatPrecision_exponent f = -5 /\ g_FloatPrecision_mantissa f = 1000 /\ g_Float3_exponent3 f = -3 /\
  g_FloatPrecision_is_zero f = false /\ g_FloatPrecision_is_inf f = false.
Proof. vm_compute. repeat split. Qed.
Example ex_gen_defect : let f := mk_FloatPrecision (-99996 # 100000) 4 (-16) 16 in
  g_FloatPrecision_exponent f = 0 /\ g_FloatPrecision_mantissa f = -1.
Proof. vm_compute. split; reflexivity. Qed.
Example ex_gen_default_table : g_ScientificFloat_str (mk_ScientificFloat (47 # 100) (S [70]) g_ScientificFloat_default_precision true
    g_ScientificFloat_default_exp_prefixes) = S [52; 55; 48; 109; 70].         (* 470mF: default precision 3, default table *)
Proof. vm_compute. reflexivity. Qed.
Example ex_gen_inf : g_ScientificFloat_str (mk_ScientificFloat (- 10 ^ 19 # 1) (S [86]) 3 false []) = S [45; 8734].
Proof. vm_compute. reflexivity. Qed.
Example ex_gen_complex : g_ScientificComplex_str AO0 (mk_ScientificComplex (3 # 1, -4 # 1) (S [86]) 3 true true false false tab_umk)
  = S [51; 46; 48; 48; 86; 45; 106; 52; 46; 48; 48; 86].                      (* 3.00V-j4.00V *)
Proof. vm_compute. reflexivity. Qed.
Example ex_gen_complex_wide : g_ScientificComplex_str AO0 (mk_ScientificComplex (-3 # 1, 4 # 1) (S [86]) 3 true false false false tab_umk)
  = S [45; 32; 51; 46; 48; 48; 86; 32; 43; 32; 106; 52; 46; 48; 48; 86].      (* - 3.00V + j4.00V *)
Proof. vm_compute. reflexivity. Qed.
Example ex_gen_imag_only : g_ScientificComplex_str AO0 (mk_ScientificComplex (0 # 1, -4 # 1) (S [86]) 3 true true false false tab_umk)
  = S [45; 106; 52; 46; 48; 48; 86].                                          (* -j4.00V *)
Proof. vm_compute. reflexivity. Qed.
Example ex_gen_polar : g_ScientificComplex_str AO0 (mk_ScientificComplex (3 # 1, 4 # 1) (S [86]) 3 true true true true tab_umk)
  = S [53; 46; 48; 48; 86; 8736; 51; 48; 46; 48; 48; 176].                    (* 5.00V∠30.00° *)
Proof. vm_compute. reflexivity. Qed.
