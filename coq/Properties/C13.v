(* placeholder: theorems follow *)
From CC Require Import Model.Network.
Example C13_model_runs : True. Proof. exact I. Qed.
