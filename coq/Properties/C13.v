(* C13 — schematic drawings are read as the netlist they depict.
   "For every drawing built from the supported two-terminal symbols, wires, labelled nodes and a ground symbol, two terminals
   belong to the same electrical node exactly when they coincide or are joined by a chain of wires; node labels and the ground
   symbol name the nodes they sit on, and a source's polarity runs from its start to its end terminal unless it is marked
   reversed.  The translated circuit is electrically identical to the intended netlist, and its solution is unchanged by
   rotating, translating or rescaling the whole drawing, by splitting wires into segments, or by the order in which symbols
   were added."
   Statements only; every proof is [exact <lemma>] (Theory/DrawingThm.v).  Model: Model/Drawing.v (SchematicDiagramParser,
   DiagramTranslator, circuit_translator_map), runner entry 13 (Model/RunDrawing.v).
   Vocabulary:
     [point]                (round(100 x), round(100 y)) of an anchor after elm.round_node;  [drawing] = list of [symbol]s in
                            insertion order; wires = the symbols of class Line exactly ([wires d] their endpoint pairs);
     [connected d p q]      reflexive-symmetric-transitive closure of "some wire has endpoints p, q";
     [equal_potential_nodes d p]   _get_equal_electrical_potential_nodes(p), the while-loop run with fuel #wires + 1;
     [enum o s]             the list o enumerates the point set s.  Python keeps points in sets; the model takes the iteration
                            order [oa] of parser.all_nodes and [ou] of parser.unique_nodes as parameters and EVERY theorem
                            below holds for every admissible pair of orders;
     [unique_nodes d oa], [unique_node_mapping d oa p], [node_label_mapping d oa ou], [get_node_index d oa ou p]
                            (= _get_node_index, None = KeyError), [ground_label d oa ou], [components d oa ou];
     [same_label d oa ou p q]      get_node_index p = get_node_index q;
     [labels_consistent d]  two Node/LabelNode/Ground symbols with the same text sit on the same class;
     [labels_functional d]  two such symbols on the same class carry the same text;
     [labelled_class d p]   some Node/LabelNode/Ground symbol sits on p's class;  [last_label d p] the text of the last one;
     [map_drawing f d]      every anchor moved by f;  [subdivided d1 w d2 m] = d1 ++ w(start..m) :: w(m..end) :: d2. *)
From Coq Require Import List Bool ZArith NArith String Permutation.
From CC Require Import Theory.Field Model.Network Model.Circuit Model.Drawing Theory.DrawingThm Theory.DrawingExamples.
Import ListNotations.

(* ================= the wire closure ================= *)

(* the loop computes exactly the class of p — for every point p, every wire list, every insertion order of the wires *)
Theorem C13_closure : forall (d : drawing) (p q : point),
  In q (equal_potential_nodes d p) <-> connected d p q.
Proof. exact equal_potential_nodes_spec. Qed.
Print Assumptions C13_closure.

(* #wires + 1 passes are enough: the unbounded Python loop has stopped by then (a pass without growth is a fixpoint,
   every productive pass balances at least one more wire) *)
Theorem C13_closure_fuel : forall (d : drawing) (p : point) (k : nat),
  iterate (wires d) (S (List.length (wires d)) + k) [p] = equal_potential_nodes d p.
Proof. exact closure_fuel. Qed.
Print Assumptions C13_closure_fuel.

(* unique_nodes: whatever the set iteration order, exactly one representative of every class survives *)
Theorem C13_unique_nodes : forall (d : drawing) (oa : list point), enum oa (all_nodes d) ->
  (forall u, In u (unique_nodes d oa) -> In u (all_nodes d)) /\
  (forall p, In p (all_nodes d) -> exists u, In u (unique_nodes d oa) /\ connected d p u) /\
  (forall u v, In u (unique_nodes d oa) -> In v (unique_nodes d oa) -> connected d u v -> u = v).
Proof. exact unique_nodes_spec. Qed.
Print Assumptions C13_unique_nodes.

(* unique_node_mapping identifies exactly the connected points *)
Theorem C13_closure_mapping : forall (d : drawing) (oa : list point) (p q : point),
  enum oa (all_nodes d) -> In p (all_nodes d) -> In q (all_nodes d) ->
  (unique_node_mapping d oa p = unique_node_mapping d oa q <-> connected d p q).
Proof. exact mapping_eq_iff. Qed.
Print Assumptions C13_closure_mapping.

(* ================= labels ================= *)

(* every terminal gets a node name; connected terminals the same one (no side condition) *)
Theorem C13_labels_total : forall (d : drawing) (oa ou : list point),
  enum oa (all_nodes d) -> enum ou (unique_nodes d oa) -> forall p : point, In p (all_nodes d) ->
  exists l, get_node_index d oa ou p = Some l.
Proof. exact index_total. Qed.
Print Assumptions C13_labels_total.

Theorem C13_labels_connected : forall (d : drawing) (oa ou : list point), enum oa (all_nodes d) ->
  forall p q, In p (all_nodes d) -> In q (all_nodes d) -> connected d p q -> same_label d oa ou p q.
Proof. exact index_connected. Qed.
Print Assumptions C13_labels_connected.

(* distinct classes get distinct names (the `while str(node_index) in node_labels.values()` loop), provided the
   drawing itself does not put one text on two classes *)
Theorem C13_labels_injective : forall (d : drawing) (oa ou : list point) (p q : point),
  enum oa (all_nodes d) -> enum ou (unique_nodes d oa) -> labels_consistent d ->
  In p (all_nodes d) -> In q (all_nodes d) ->
  (same_label d oa ou p q <-> connected d p q).
Proof. exact same_label_iff. Qed.
Print Assumptions C13_labels_injective.

(* a class carrying label symbols is named by the LAST of them in insertion order, whatever the set orders *)
Theorem C13_labels_last : forall (d : drawing) (oa ou : list point), enum oa (all_nodes d) ->
  forall p l, In p (all_nodes d) -> last_label d p = Some l -> get_node_index d oa ou p = Some l.
Proof. exact index_labelled. Qed.
Print Assumptions C13_labels_last.

(* a Node/LabelNode/Ground symbol names every terminal of the class it sits on, if no other text sits on that class *)
Theorem C13_labels : forall (d : drawing) (oa ou : list point), enum oa (all_nodes d) ->
  forall e p, In e (node_elements d) ->
  (forall e', In e' (node_elements d) -> connected d (s_start e) (s_start e') -> s_node_id e' = s_node_id e) ->
  In p (all_nodes d) -> connected d p (s_start e) -> get_node_index d oa ou p = Some (s_node_id e).
Proof. exact index_label. Qed.
Print Assumptions C13_labels.

(* ================= ground ================= *)

Theorem C13_ground : forall (d : drawing) (oa ou : list point) (g : symbol),
  enum oa (all_nodes d) -> enum ou (unique_nodes d oa) ->
  filter is_ground_sym (node_elements d) = [g] ->
  (forall e', In e' (node_elements d) -> connected d (s_start g) (s_start e') -> s_node_id e' = s_node_id g) ->
  ground_label d oa ou = Ok (s_node_id g).
Proof. exact ground_label_named. Qed.
Print Assumptions C13_ground.

Theorem C13_ground_is_its_node : forall (d : drawing) (oa ou : list point) (g : symbol),
  filter is_ground_sym (node_elements d) = [g] ->
  ground_label d oa ou = match get_node_index d oa ou (s_start g) with Some l => Ok l | None => Err EKeyError end.
Proof. exact ground_label_one. Qed.
Print Assumptions C13_ground_is_its_node.

Theorem C13_ground_multiple : forall (d : drawing) (oa ou : list point),
  (1 < List.length (filter is_ground_sym (node_elements d)))%nat -> ground_label d oa ou = Err EMultipleGround.
Proof. exact ground_label_many. Qed.
Print Assumptions C13_ground_multiple.

(* no ground symbol: the reference is the class unique_nodes happens to enumerate first — it depends on the set order *)
Theorem C13_ground_none : forall (d : drawing) (oa ou : list point),
  filter is_ground_sym (node_elements d) = [] ->
  ground_label d oa ou = match ou with
                         | [] => Err EIndex
                         | u :: _ => match get_node_index d oa ou u with Some l => Ok l | None => Err EKeyError end
                         end.
Proof. exact ground_label_none. Qed.
Print Assumptions C13_ground_none.

(* ================= polarity and the component list ================= *)

(* a source symbol (DC / complex / AC / rectangular / triangular / sawtooth, voltage or current): terminals
   (start, end), reversed (end, start), and the component receives the value given to the symbol's constructor
   unchanged ([c_neg = false]: the constructor negates when reversed, the translator negates again) *)
Theorem C13_polarity : forall (idx : point -> option label) (s : symbol) (k : ckind) (a b : label),
  translator_of (s_class s) = Some (TSource k) -> idx (s_start s) = Some a -> idx (s_end s) = Some b ->
  translate_symbol idx s = Ok (Some {| c_kind := k; c_id := s_name s;
                                       c_nodes := if s_reverse s then [b; a] else [a; b]; c_neg := false |}).
Proof. exact translate_source. Qed.
Print Assumptions C13_polarity.

(* RealCurrentSource / RealVoltageSource: the translator swaps AND negates while the constructor does not negate:
   a reversed Real source is electrically the unreversed one (deviation from the property, see report) *)
Theorem C13_polarity_real_source : forall (idx : point -> option label) (s : symbol) (k : ckind) (a b : label),
  translator_of (s_class s) = Some (TRealSource k) -> idx (s_start s) = Some a -> idx (s_end s) = Some b ->
  translate_symbol idx s = Ok (Some {| c_kind := k; c_id := s_name s;
                                       c_nodes := if s_reverse s then [b; a] else [a; b]; c_neg := s_reverse s |}).
Proof. exact translate_real_source. Qed.
Print Assumptions C13_polarity_real_source.

(* the translated list: one component per translatable symbol in drawing order, terminals named by the labelling *)
Theorem C13_components : forall (d : drawing) (oa ou : list point),
  enum oa (all_nodes d) -> enum ou (unique_nodes d oa) ->
  (forall s, In s d -> in_scope (s_class s) = true /\ translator_of (s_class s) <> None) ->
  components d oa ou = Ok (omap (component_of (label_of d oa ou)) d).
Proof. exact components_spec. Qed.
Print Assumptions C13_components.

(* ================= invariance ================= *)

(* two admissible pairs of set orders: labelled classes keep their names, and the two labellings identify the same
   terminals — they differ by an injective renaming of the unlabelled classes only *)
Theorem C13_order_independent : forall (d : drawing) (oa ou oa' ou' : list point),
  enum oa (all_nodes d) -> enum ou (unique_nodes d oa) -> enum oa' (all_nodes d) -> enum ou' (unique_nodes d oa') ->
  (forall p, In p (all_nodes d) -> labelled_class d p -> get_node_index d oa' ou' p = get_node_index d oa ou p) /\
  (labels_consistent d -> forall p q, In p (all_nodes d) -> In q (all_nodes d) ->
     (same_label d oa' ou' p q <-> same_label d oa ou p q)).
Proof. exact order_independent. Qed.
Print Assumptions C13_order_independent.

Theorem C13_order_independent_renaming : forall (d : drawing) (oa ou oa' ou' : list point),
  enum oa (all_nodes d) -> enum ou (unique_nodes d oa) -> enum oa' (all_nodes d) -> enum ou' (unique_nodes d oa') ->
  labels_consistent d ->
  exists f : label -> label,
    (forall p l, In p (all_nodes d) -> get_node_index d oa ou p = Some l -> get_node_index d oa' ou' p = Some (f l)) /\
    (forall p q l l', In p (all_nodes d) -> In q (all_nodes d) -> get_node_index d oa ou p = Some l ->
       get_node_index d oa ou q = Some l' -> f l = f l' -> l = l') /\
    (forall p l, In p (all_nodes d) -> labelled_class d p -> get_node_index d oa ou p = Some l -> f l = l).
Proof. exact order_independent_renaming. Qed.
Print Assumptions C13_order_independent_renaming.

(* any permutation of the symbol list, wires included *)
Theorem C13_perm : forall (d d' : drawing) (oa ou oa' ou' : list point), Permutation d d' ->
  enum oa (all_nodes d) -> enum ou (unique_nodes d oa) -> enum oa' (all_nodes d') -> enum ou' (unique_nodes d' oa') ->
  (forall p, In p (all_nodes d) <-> In p (all_nodes d')) /\
  (forall p q, connected d p q <-> connected d' p q) /\
  (labels_functional d -> forall p, In p (all_nodes d) -> labelled_class d p ->
     get_node_index d' oa' ou' p = get_node_index d oa ou p) /\
  (labels_functional d -> labels_consistent d -> forall p q, In p (all_nodes d) -> In q (all_nodes d) ->
     (same_label d' oa' ou' p q <-> same_label d oa ou p q)).
Proof. exact perm_independent. Qed.
Print Assumptions C13_perm.

(* any map of the plane that is injective on the drawing's points (rounding neither merges nor splits points) *)
Theorem C13_point_map : forall (f : point -> point) (d : drawing) (oa ou oa' ou' : list point),
  (forall a b, In a (all_nodes d) -> In b (all_nodes d) -> f a = f b -> a = b) ->
  enum oa (all_nodes d) -> enum ou (unique_nodes d oa) ->
  enum oa' (all_nodes (map_drawing f d)) -> enum ou' (unique_nodes (map_drawing f d) oa') ->
  (forall p q, In p (all_nodes d) -> In q (all_nodes d) -> (connected (map_drawing f d) (f p) (f q) <-> connected d p q)) /\
  (forall p, In p (all_nodes d) -> labelled_class d p ->
     get_node_index (map_drawing f d) oa' ou' (f p) = get_node_index d oa ou p) /\
  (labels_consistent d -> forall p q, In p (all_nodes d) -> In q (all_nodes d) ->
     (same_label (map_drawing f d) oa' ou' (f p) (f q) <-> same_label d oa ou p q)).
Proof. exact point_map_invariant. Qed.
Print Assumptions C13_point_map.

(* quarter turns, translations and integer rescalings of the grid are such maps *)
Theorem C13_rotate : forall (d : drawing) (oa ou oa' ou' : list point),
  enum oa (all_nodes d) -> enum ou (unique_nodes d oa) ->
  enum oa' (all_nodes (map_drawing rot90 d)) -> enum ou' (unique_nodes (map_drawing rot90 d) oa') ->
  (forall p q, In p (all_nodes d) -> In q (all_nodes d) -> (connected (map_drawing rot90 d) (rot90 p) (rot90 q) <-> connected d p q)) /\
  (forall p, In p (all_nodes d) -> labelled_class d p ->
     get_node_index (map_drawing rot90 d) oa' ou' (rot90 p) = get_node_index d oa ou p) /\
  (labels_consistent d -> forall p q, In p (all_nodes d) -> In q (all_nodes d) ->
     (same_label (map_drawing rot90 d) oa' ou' (rot90 p) (rot90 q) <-> same_label d oa ou p q)).
Proof. exact rotate_invariant. Qed.
Print Assumptions C13_rotate.

Theorem C13_translate : forall (dx dy : Z) (d : drawing) (oa ou oa' ou' : list point),
  enum oa (all_nodes d) -> enum ou (unique_nodes d oa) ->
  enum oa' (all_nodes (map_drawing (shift dx dy) d)) -> enum ou' (unique_nodes (map_drawing (shift dx dy) d) oa') ->
  (forall p q, In p (all_nodes d) -> In q (all_nodes d) ->
     (connected (map_drawing (shift dx dy) d) (shift dx dy p) (shift dx dy q) <-> connected d p q)) /\
  (forall p, In p (all_nodes d) -> labelled_class d p ->
     get_node_index (map_drawing (shift dx dy) d) oa' ou' (shift dx dy p) = get_node_index d oa ou p) /\
  (labels_consistent d -> forall p q, In p (all_nodes d) -> In q (all_nodes d) ->
     (same_label (map_drawing (shift dx dy) d) oa' ou' (shift dx dy p) (shift dx dy q) <-> same_label d oa ou p q)).
Proof. exact shift_invariant. Qed.
Print Assumptions C13_translate.

Theorem C13_rescale : forall (k : Z) (d : drawing) (oa ou oa' ou' : list point), k <> 0%Z ->
  enum oa (all_nodes d) -> enum ou (unique_nodes d oa) ->
  enum oa' (all_nodes (map_drawing (scale k) d)) -> enum ou' (unique_nodes (map_drawing (scale k) d) oa') ->
  (forall p q, In p (all_nodes d) -> In q (all_nodes d) ->
     (connected (map_drawing (scale k) d) (scale k p) (scale k q) <-> connected d p q)) /\
  (forall p, In p (all_nodes d) -> labelled_class d p ->
     get_node_index (map_drawing (scale k) d) oa' ou' (scale k p) = get_node_index d oa ou p) /\
  (labels_consistent d -> forall p q, In p (all_nodes d) -> In q (all_nodes d) ->
     (same_label (map_drawing (scale k) d) oa' ou' (scale k p) (scale k q) <-> same_label d oa ou p q)).
Proof. exact scale_invariant. Qed.
Print Assumptions C13_rescale.

(* replacing the wire w = (a, b) by (a, m), (m, b) with a fresh point m: the classes of the old points are unchanged,
   m joins the class of a, labelled classes keep their names and the labellings identify the same old terminals *)
Theorem C13_subdivide : forall (d1 : drawing) (w : symbol) (d2 : drawing) (m : point) (oa ou oa' ou' : list point),
  is_line w = true -> ~ In m (all_nodes (d1 ++ w :: d2)) ->
  enum oa (all_nodes (d1 ++ w :: d2)) -> enum ou (unique_nodes (d1 ++ w :: d2) oa) ->
  enum oa' (all_nodes (subdivided d1 w d2 m)) -> enum ou' (unique_nodes (subdivided d1 w d2 m) oa') ->
  (forall p q, In p (all_nodes (d1 ++ w :: d2)) -> In q (all_nodes (d1 ++ w :: d2)) ->
     (connected (subdivided d1 w d2 m) p q <-> connected (d1 ++ w :: d2) p q)) /\
  connected (subdivided d1 w d2 m) m (s_start w) /\
  (forall p, In p (all_nodes (d1 ++ w :: d2)) -> labelled_class (d1 ++ w :: d2) p ->
     get_node_index (subdivided d1 w d2 m) oa' ou' p = get_node_index (d1 ++ w :: d2) oa ou p) /\
  (labels_consistent (d1 ++ w :: d2) -> forall p q, In p (all_nodes (d1 ++ w :: d2)) -> In q (all_nodes (d1 ++ w :: d2)) ->
     (same_label (subdivided d1 w d2 m) oa' ou' p q <-> same_label (d1 ++ w :: d2) oa ou p q)).
Proof. exact subdivide_invariant. Qed.
Print Assumptions C13_subdivide.

(* the runner's order check establishes the hypotheses [enum] of every theorem above *)
Theorem C13_orders_checked : forall (d : drawing) (oa ou : list point),
  orders_ok d oa ou = true -> enum oa (all_nodes d) /\ enum ou (unique_nodes d oa).
Proof. exact orders_ok_enum. Qed.
Print Assumptions C13_orders_checked.

Theorem C13_side_conditions_checked : forall d : drawing,
  (labels_consistentb d = true -> labels_consistent d) /\ (labels_functionalb d = true -> labels_functional d).
Proof. exact (fun d => conj (labels_consistentb_ok d) (labels_functionalb_ok d)). Qed.
Print Assumptions C13_side_conditions_checked.

(* ================= examples: the hypotheses are satisfiable by non-trivial drawings ================= *)
Local Notation "'#' s" := (Some (lbl s)) (at level 0).

(* a wire ring with a stub, with the set orders observed on the live Python objects: all hypotheses hold *)
Example C13_ex_ring_hypotheses :
  (orders_ok ex_ring ex_ring_oa ex_ring_ou, orders_ok ex_ring ex_ring_oa' ex_ring_ou',
   labels_consistentb ex_ring, labels_functionalb ex_ring, List.length (wires ex_ring), List.length (unique_nodes ex_ring ex_ring_oa))
  = (true, true, true, true, 6, 3).
Proof. vm_compute. reflexivity. Qed.

(* ... the five points of the ring-and-stub are one node, ground names the class of (0,0) and (3,0) *)
Example C13_ex_ring_labels :
  map (get_node_index ex_ring ex_ring_oa ex_ring_ou) [gp 0 0; gp 3 0; gp 0 1; gp 1 1; gp 2 1; gp 2 2; gp 1 2; gp 3 2]
  = [#"0"; #"0"; #"3"; #"2"; #"2"; #"2"; #"2"; #"2"]
  /\ ground_label ex_ring ex_ring_oa ex_ring_ou = Ok (lbl "0").
Proof. vm_compute. split; reflexivity. Qed.

(* ... another admissible order: the unlabelled classes swap their numbers, nothing else changes *)
Example C13_ex_ring_other_order :
  map (get_node_index ex_ring ex_ring_oa' ex_ring_ou') [gp 0 0; gp 3 0; gp 0 1; gp 1 1; gp 2 1; gp 2 2; gp 1 2; gp 3 2]
  = [#"0"; #"0"; #"2"; #"3"; #"3"; #"3"; #"3"; #"3"].
Proof. vm_compute. reflexivity. Qed.

Example C13_ex_ring_components :
  match components ex_ring ex_ring_oa ex_ring_ou with
  | Ok cs => map (fun c => (kind_name (c_kind c), c_id c, c_nodes c, c_neg c)) cs
  | Err _ => []
  end
  = [(lbl "dc_voltage_source", lbl "V1", [lbl "0"; lbl "3"], false); (lbl "resistor", lbl "R1", [lbl "3"; lbl "2"], false);
     (lbl "resistor", lbl "R2", [lbl "2"; lbl "0"], false); (lbl "ground", lbl "0", [lbl "0"], false)].
Proof. vm_compute. reflexivity. Qed.

(* numeric labels '4' and '5': three labels, numbering would start at 4; 4 and 5 are skipped, the free classes get 6 and 7;
   the reversed source has its terminals swapped *)
Example C13_ex_numeric_labels :
  (orders_ok ex_nums ex_nums_oa ex_nums_ou, labels_consistentb ex_nums, labels_functionalb ex_nums) = (true, true, true)
  /\ map (get_node_index ex_nums ex_nums_oa ex_nums_ou) [gp 0 0; gp 0 1; gp 1 1; gp 2 1; gp 3 1; gp 3 0]
     = [#"0"; #"6"; #"4"; #"5"; #"7"; #"0"]
  /\ match components ex_nums ex_nums_oa ex_nums_ou with
     | Ok (c :: _) => (c_id c, c_nodes c, c_neg c) = (lbl "V1", [lbl "6"; lbl "0"], false)
     | _ => False
     end.
Proof. vm_compute. repeat split; reflexivity. Qed.

(* the stub wire split at a fresh point, and the drawing turned by 90 degrees: hypotheses of C13_subdivide / C13_rotate *)
Example C13_ex_subdivide_rotate :
  (ex_ring_pre ++ ex_stub :: ex_ring_post = ex_ring) /\ is_line ex_stub = true /\ pmem ex_mid (all_nodes ex_ring) = false
  /\ orders_ok ex_split ex_split_oa ex_split_ou = true /\ orders_ok ex_rot ex_rot_oa ex_rot_ou = true
  /\ map (get_node_index ex_split ex_split_oa ex_split_ou) [gp 0 0; gp 3 0; gp 0 1; gp 1 1; gp 2 2; ex_mid; gp 3 2]
     = [#"0"; #"0"; #"2"; #"3"; #"3"; #"3"; #"3"]
  /\ map (fun p => get_node_index ex_rot ex_rot_oa ex_rot_ou (rot90 p)) [gp 0 0; gp 3 0; gp 0 1; gp 1 1; gp 2 2; gp 3 2]
     = [#"0"; #"0"; #"2"; #"3"; #"3"; #"3"].
Proof. vm_compute. repeat split; reflexivity. Qed.

(* two texts on one class (labels_functional fails): the last inserted wins, so the insertion order is observable;
   no ground symbol: ground_label is the first enumerated unique node *)
Example C13_ex_two_labels_order_dependent :
  let run d := let oa := all_nodes d in let ou := unique_nodes d oa in
               (orders_ok d oa ou, labels_functionalb d, get_node_index d oa ou (gp 1 1), ground_label d oa ou) in
  run ex_two_ab = (true, false, #"B", Ok (lbl "2")) /\ run ex_two_ba = (true, false, #"A", Ok (lbl "2")).
Proof. vm_compute. split; reflexivity. Qed.
