(* C10c — the state-space assembly of the model IS the source: every definition that tools/gen_matrix.py regenerates from
   Network/NodalAnalysis/state_space_model.py (Gen/MatrixGen.v, module py_state_space, rewritten on every run) is equal to
   the hand-written definition of Model/StateSpace.v that C10 / C11 / C12 are stated about:
   state_space_matrices (element incidence Delta, source / inductance incidence QS, QL, value matrix Lambda, the block
   algebra A, B, C, D with the two inversions and their failure), nodal_state_space_model, the output rows
   c_row_* / d_row_* of NodalStateSpaceModel and `sources`.
   numpy arrays are [arr2] (rows + number of columns); the mapper parameters are instantiated with their declared
   defaults; [NoDup (branch_ids n)] holds for every constructed Network, [NoDup (map fst cvals)] for every Python dict.
   Statements only; every proof is [exact <lemma>] (lemmas: Theory/StateSpaceGenThm.v).  Generic in the field. *)
From Coq Require Import List Bool ZArith NArith QArith Qcanon.
From CC Require Import Theory.Field Theory.Complex Model.Network Model.NetworkPrims Model.StateSpace Model.Circuit
  Model.MatrixPrims Gen.NetworkGen Gen.MatrixGen Theory.Matrix Theory.StateSpaceThm Theory.StateSpaceGenThm.
Import ListNotations.
Local Open Scope nat_scope.

(* A, B, C, D: the same matrices, the same exception (KeyError for an unknown capacitor id, ValueError for an l_values
   key that is no source, LinAlgError for either singular inversion), in the same order *)
Theorem C10c_state_space_matrices : forall (K : fops) (KOK : fops_ok K) (n : network K) (cvals lvals : list (label * K)),
  NoDup (branch_ids n) ->
  py_state_space.state_space_matrices K n cvals lvals (py_state_space.state_space_matrices__default_node_mapper K)
    (py_state_space.state_space_matrices__default_current_source_mapper K)
    (py_state_space.state_space_matrices__default_voltage_source_mapper K)
  = bind (state_space_matrices K n cvals lvals) (fun m => Ok (ssm_arrays K n cvals lvals m)).
Proof. exact state_space_matrices_eq. Qed.
Print Assumptions C10c_state_space_matrices.

Theorem C10c_nodal_state_space_model : forall (K : fops) (KOK : fops_ok K) (n : network K) (cvals lvals : list (label * K)),
  NoDup (branch_ids n) ->
  py_state_space.nodal_state_space_model K n cvals lvals (py_state_space.nodal_state_space_model__default_node_index_mapper K)
    (py_state_space.nodal_state_space_model__default_voltage_source_index_mapper K)
    (py_state_space.nodal_state_space_model__default_current_source_index_mapper K)
  = bind (nodal_state_space_model K n cvals lvals) (fun m => Ok (nssm_of K n cvals lvals m)).
Proof. exact nodal_state_space_model_eq. Qed.
Print Assumptions C10c_nodal_state_space_model.

Theorem C10c_defaults : forall K : fops,
  py_state_space.state_space_matrices__default_c_values K = [] /\ py_state_space.state_space_matrices__default_l_values K = [] /\
  py_state_space.state_space_matrices__default_node_mapper K = py_label_mapping.default_node_mapper K /\
  py_state_space.state_space_matrices__default_current_source_mapper K = py_label_mapping.alphabetic_current_source_mapper K /\
  py_state_space.state_space_matrices__default_voltage_source_mapper K = py_label_mapping.alphabetic_voltage_source_mapper K /\
  py_state_space.nodal_state_space_model__default_c_values K = [] /\ py_state_space.nodal_state_space_model__default_l_values K = [] /\
  py_state_space.nodal_state_space_model__default_node_index_mapper K = py_label_mapping.default_node_mapper K /\
  py_state_space.nodal_state_space_model__default_voltage_source_index_mapper K = py_label_mapping.alphabetic_voltage_source_mapper K /\
  py_state_space.nodal_state_space_model__default_current_source_index_mapper K = py_label_mapping.alphabetic_current_source_mapper K.
Proof. exact state_space_defaults. Qed.
Print Assumptions C10c_defaults.

(* the matrices C and D of a computed model have one row per node and per ideal voltage source (hypotheses of the rows) *)
Theorem C10c_computed_rows : forall (K : fops) (KOK : fops_ok K) (n : network K) (cvals lvals : list (label * K)) (m : ssm K),
  state_space_matrices K n cvals lvals = Ok m -> length (ss_C m) = ss_dim K n /\ length (ss_D m) = ss_dim K n.
Proof. exact ssm_rows. Qed.
Print Assumptions C10c_computed_rows.

(* _row_for_potential: the zero row for the reference node, else the 1 x n slice of row node_index[node]; KeyError *)
Theorem C10c_rows_for_potential : forall (K : fops) (n : network K) (cvals lvals : list (label * K)) (m : ssm K),
  length (ss_C m) = ss_dim K n -> length (ss_D m) = ss_dim K n -> forall node : label,
  py_state_space.NodalStateSpaceModel_c_row_for_potential K (nssm_of K n cvals lvals m) node
  = bind (c_row_for_potential K n cvals lvals m node) (fun r => Ok {| a_cols := ss_nst K cvals lvals; a_rows := [r] |}) /\
  py_state_space.NodalStateSpaceModel_d_row_for_potential K (nssm_of K n cvals lvals m) node
  = bind (d_row_for_potential K n lvals m node) (fun r => Ok {| a_cols := ss_nS K n lvals; a_rows := [r] |}).
Proof. exact (fun K n cvals lvals m HC HD node => conj (c_row_for_potential_eq K n cvals lvals m HC HD node)
                                                     (d_row_for_potential_eq K n cvals lvals m HC HD node)). Qed.
Print Assumptions C10c_rows_for_potential.

(* c_row_voltage / d_row_voltage: row(node1) - row(node2) *)
Theorem C10c_rows_voltage : forall (K : fops) (n : network K) (cvals lvals : list (label * K)) (m : ssm K),
  length (ss_C m) = ss_dim K n -> length (ss_D m) = ss_dim K n -> forall id : label,
  py_state_space.NodalStateSpaceModel_c_row_voltage K (nssm_of K n cvals lvals m) id
  = bind (c_row_voltage K n cvals lvals m id) (fun r => Ok {| a_cols := ss_nst K cvals lvals; a_rows := [r] |}) /\
  py_state_space.NodalStateSpaceModel_d_row_voltage K (nssm_of K n cvals lvals m) id
  = bind (d_row_voltage K n lvals m id) (fun r => Ok {| a_cols := ss_nS K n lvals; a_rows := [r] |}).
Proof. exact (fun K n cvals lvals m HC HD id => conj (c_row_voltage_eq K n cvals lvals m HC HD id)
                                                   (d_row_voltage_eq K n cvals lvals m HC HD id)). Qed.
Print Assumptions C10c_rows_voltage.

(* c_row_current / d_row_current: the four cases in their order (capacitor: C_k * row of A / B; ideal voltage source:
   row N + index of C / D; current source: zero row / unit row; otherwise (row(node1) - row(node2)) / Z) *)
Theorem C10c_rows_current : forall (K : fops) (n : network K) (cvals lvals : list (label * K)),
  NoDup (branch_ids n) -> forall m : ssm K,
  length (ss_C m) = ss_dim K n -> length (ss_D m) = ss_dim K n -> NoDup (map fst cvals) -> forall id : label,
  py_state_space.NodalStateSpaceModel_c_row_current K (nssm_of K n cvals lvals m) id
  = bind (c_row_current K n cvals lvals m id) (fun r => Ok (current_row K n cvals id (ss_nst K cvals lvals) r)) /\
  py_state_space.NodalStateSpaceModel_d_row_current K (nssm_of K n cvals lvals m) id
  = bind (d_row_current K n cvals lvals m id) (fun r => Ok (current_row K n cvals id (ss_nS K n lvals) r)).
Proof. exact (fun K n cvals lvals ND m HC HD NDc id => conj (c_row_current_eq K n cvals lvals ND m HC HD NDc id)
                                                          (d_row_current_eq K n cvals lvals m HC HD NDc id)). Qed.
Print Assumptions C10c_rows_current.

Theorem C10c_sources : forall (K : fops) (n : network K) (cvals lvals : list (label * K)) (m : ssm K),
  py_state_space.NodalStateSpaceModel_sources K (nssm_of K n cvals lvals m) = sources K n lvals.
Proof. exact sources_eq. Qed.
Print Assumptions C10c_sources.

From Coq Require Import String.
Local Open Scope string_scope.
(* ---- non-vacuity: the RLC circuit of C10 (inductors listed non-alphabetically, a current source sorting between them and
   the voltage source) satisfies the hypotheses; the regenerated assembly, run on it, returns the model's A and B ---- *)
Definition q (a : Z) (b : positive) : Qcops := qc a b.
Definition ex_net : network Qcops :=
  {| zero := lbl "0";
     branches := [ Build_branch (lbl "2") (lbl "3") (impedance (lbl "Lb") (q 0 1));
                   Build_branch (lbl "1") (lbl "2") (resistor (lbl "R1") (q 2 1));
                   Build_branch (lbl "0") (lbl "3") (current_source (lbl "M1") (q 1 1) (q 0 1));
                   Build_branch (lbl "2") (lbl "0") (impedance (lbl "La") (q 0 1));
                   Build_branch (lbl "3") (lbl "0") (admittance (lbl "C1") (q 0 1));
                   Build_branch (lbl "3") (lbl "0") (resistor (lbl "R2") (q 5 1));
                   Build_branch (lbl "1") (lbl "0") (voltage_source (lbl "Vs") (q 1 1) (q 0 1)) ] |}.
Definition ex_c : list (label * Qcops) := [(lbl "C1", q 1 2)].
Definition ex_l : list (label * Qcops) := [(lbl "Lb", q 2 1); (lbl "La", q 3 1)].
Example C10c_example_hyp : NoDup (branch_ids ex_net) /\ NoDup (map fst ex_c).
Proof. split; apply Labels.ldedup_length_NoDup; vm_compute; reflexivity. Qed.
Example C10c_example_runs :
  match py_state_space.state_space_matrices Qcops ex_net ex_c ex_l (py_state_space.state_space_matrices__default_node_mapper Qcops)
          (py_state_space.state_space_matrices__default_current_source_mapper Qcops)
          (py_state_space.state_space_matrices__default_voltage_source_mapper Qcops) with
  | Ok (A, B, C, D) =>
      mat_eqb (a_rows A) [[q (-2) 5; q 2 1; q 0 1]; [q (-1) 2; q (-1) 1; q (-1) 1]; [q 0 1; q (-2) 3; q (-2) 3]]
      && mat_eqb (a_rows B) [[q 2 1; q 0 1]; [q 0 1; q 1 2]; [q 0 1; q 1 3]]
      && Nat.eqb (a_cols A) 3 && Nat.eqb (a_cols B) 2 && Nat.eqb (List.length (a_rows C)) 6 && Nat.eqb (a_cols D) 2
  | Err _ => false
  end = true.
Proof. vm_compute. reflexivity. Qed.
(* the error cases are reached: unknown capacitor id (KeyError), an l_values key that is no source (ValueError) *)
Definition err_of {A} (r : res A) : option err := match r with Ok _ => None | Err e => Some e end.
Example C10c_example_errors :
  err_of (py_state_space.state_space_matrices Qcops ex_net [(lbl "Cx", q 1 2)] ex_l (py_state_space.state_space_matrices__default_node_mapper Qcops)
          (py_state_space.state_space_matrices__default_current_source_mapper Qcops)
          (py_state_space.state_space_matrices__default_voltage_source_mapper Qcops)) = Some EKeyError
  /\ err_of (py_state_space.state_space_matrices Qcops ex_net ex_c [(lbl "R1", q 2 1)] (py_state_space.state_space_matrices__default_node_mapper Qcops)
          (py_state_space.state_space_matrices__default_current_source_mapper Qcops)
          (py_state_space.state_space_matrices__default_voltage_source_mapper Qcops)) = Some EValue.
Proof. split; vm_compute; reflexivity. Qed.
