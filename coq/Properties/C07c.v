(* C07 (continued) — the translators of Circuit/transformers.py as REGENERATED on every run (Gen/Transformers.v, produced by
   tools/gen_transformers.py in the vocabulary of Model/CircuitPrims.v) are the hand-written translators t_<f> of
   Model/Circuit.v, and the model's [translate] is the dispatch `transformers[component.type](component, w, w_resolution)`
   through the regenerated table (Gen/Tables.v) to the regenerated functions.  With this, C07_faithful and C02_phasor are
   statements about the code as read from the source: an edit to transformers.py changes Gen/Transformers.v and breaks one
   of the equalities below (or is refused by the translator).
   Statements only; proofs are in Theory/TransformersGen.v. *)
From Coq Require Import List Bool ZArith NArith String QArith Qcanon.
From CC Require Import Theory.Field Theory.Complex Theory.Labels Model.Network Theory.Spec Gen.Tables Model.Circuit
  Model.CircuitPrims Gen.Transformers Model.RunCircuit Theory.CircuitThm Theory.TransformersGen Properties.C07.
Import ListNotations.
Local Open Scope string_scope.

(* ================= A. one equality per function of transformers.py ================= *)
Theorem C07c_resistor : forall (R : fops) (c : comp R) (w wres : R), g_resistor R c = t_resistor R c.
Proof. exact eq_resistor. Qed.
Print Assumptions C07c_resistor.
Theorem C07c_conductance : forall (R : fops) (c : comp R) (w wres : R), g_conductance R c = t_conductance R c.
Proof. exact eq_conductance. Qed.
Print Assumptions C07c_conductance.
Theorem C07c_impedance : forall (R : fops) (c : comp R) (w wres : R), g_impedance R c = t_impedance R c.
Proof. exact eq_impedance. Qed.
Print Assumptions C07c_impedance.
Theorem C07c_admittance : forall (R : fops) (c : comp R) (w wres : R), g_admittance R c = t_admittance R c.
Proof. exact eq_admittance. Qed.
Print Assumptions C07c_admittance.
Theorem C07c_capacitor : forall (R : fops) (c : comp R) (w wres : R), g_capacitor R c w = t_capacitor R c w.
Proof. exact eq_capacitor. Qed.
Print Assumptions C07c_capacitor.
Theorem C07c_inductance : forall (R : fops) (c : comp R) (w wres : R), g_inductance R c w = t_inductance R c w.
Proof. exact eq_inductance. Qed.
Print Assumptions C07c_inductance.
Theorem C07c_dc_voltage_source : forall (R : fops) (leb : R -> R -> bool) (c : comp R) (w wres : R),
  g_dc_voltage_source R leb c w wres = t_dc_voltage_source R leb c w wres.
Proof. exact eq_dc_voltage_source. Qed.
Print Assumptions C07c_dc_voltage_source.
Theorem C07c_ac_voltage_source : forall (R : fops) (leb : R -> R -> bool) (c : comp R) (w wres : R),
  g_ac_voltage_source R leb c w wres = t_ac_voltage_source R leb c w wres.
Proof. exact eq_ac_voltage_source. Qed.
Print Assumptions C07c_ac_voltage_source.
Theorem C07c_complex_voltage_source : forall (R : fops) (c : comp R) (w wres : R),
  g_complex_voltage_source R c = t_complex_voltage_source R c.
Proof. exact eq_complex_voltage_source. Qed.
Print Assumptions C07c_complex_voltage_source.
Theorem C07c_periodic_voltage_source : forall (R : fops) (leb : R -> R -> bool) (rnd : R -> Z) (ofZ : Z -> R) (c : comp R) (w wres : R),
  g_periodic_voltage_source R leb rnd ofZ c w wres = t_periodic_voltage_source R leb rnd ofZ c w wres.
Proof. exact eq_periodic_voltage_source. Qed.
Print Assumptions C07c_periodic_voltage_source.
Theorem C07c_dc_current_source : forall (R : fops) (leb : R -> R -> bool) (c : comp R) (w wres : R),
  g_dc_current_source R leb c w wres = t_dc_current_source R leb c w wres.
Proof. exact eq_dc_current_source. Qed.
Print Assumptions C07c_dc_current_source.
Theorem C07c_ac_current_source : forall (R : fops) (leb : R -> R -> bool) (c : comp R) (w wres : R),
  g_ac_current_source R leb c w wres = t_ac_current_source R leb c w wres.
Proof. exact eq_ac_current_source. Qed.
Print Assumptions C07c_ac_current_source.
Theorem C07c_complex_current_source : forall (R : fops) (c : comp R) (w wres : R),
  g_complex_current_source R c w wres = t_complex_current_source R c.
Proof. exact eq_complex_current_source. Qed.
Print Assumptions C07c_complex_current_source.
Theorem C07c_periodic_current_source : forall (R : fops) (leb : R -> R -> bool) (rnd : R -> Z) (ofZ : Z -> R) (c : comp R) (w wres : R),
  g_periodic_current_source R leb rnd ofZ c w wres = t_periodic_current_source R leb rnd ofZ c w wres.
Proof. exact eq_periodic_current_source. Qed.
Print Assumptions C07c_periodic_current_source.
Theorem C07c_short_circuit : forall (R : fops) (c : comp R) (w wres : R), g_short_circuit R c = t_short_circuit R c.
Proof. exact eq_short_circuit. Qed.
Print Assumptions C07c_short_circuit.

(* resistive_load (also the entry of 'lamp').  Full statement: *)
Definition C07c_resistive_load_full : Prop :=
  forall (R : fops) (leb : R -> R -> bool) (c : comp R) (w wres : R), g_resistive_load R leb c = t_resistive_load R leb c.
(* It is FALSE for the present hand model: `ntw.Branch(load.nodes[0], load.nodes[1], elm.load(load.id, float(load.value['P']), ...))`
   evaluates the two subscripts before the element, so a load with fewer than two terminals raises IndexError whatever its
   value dictionary holds, where t_resistive_load reports the KeyError / AttributeError / ValueError of the element first.
   What holds: equality for every component with two terminals, and always the same success and the same branch. *)
Theorem C07c_resistive_load_partial : forall (R : fops) (leb : R -> R -> bool) (c : comp R) (w wres : R),
  (2 <= List.length (cnodes c))%nat -> g_resistive_load R leb c = t_resistive_load R leb c.
Proof. exact eq_resistive_load_two_terminals. Qed.
Print Assumptions C07c_resistive_load_partial.
Theorem C07c_resistive_load_outcome : forall (R : fops) (leb : R -> R -> bool) (c : comp R) (w wres : R),
  match g_resistive_load R leb c, t_resistive_load R leb c with
  | Ok b, Ok b' => b = b' | Err _, Err _ => True | _, _ => False end.
Proof. exact outcome_resistive_load. Qed.
Print Assumptions C07c_resistive_load_outcome.
Theorem C07c_resistive_load_full_refuted : ~ C07c_resistive_load_full.
Proof. intros H.
  specialize (H Qcops Qc_leb (mkc KResLoad "p" ["1"] []) (q 0 1) (q 0 1)).
  assert (E : match g_resistive_load Qcops Qc_leb (mkc KResLoad "p" ["1"] []) with Err EIndex => true | _ => false end = true)
    by (vm_compute; reflexivity).
  rewrite H in E. vm_compute in E. discriminate E. Qed.
Print Assumptions C07c_resistive_load_full_refuted.

(* ================= B. the dispatch ================= *)
(* g_translate R leb rnd ofZ c w wres := dispatch R transformer_table (g_functions R leb rnd ofZ) c w wres:
   look the component's type string up in the regenerated `transformers` table (KeyError when absent), then call the
   regenerated function of that name. *)
Theorem C07c_dispatch_vocabulary : forall (R : fops) leb rnd ofZ (c : comp R) (w wres : R),
  g_translate R leb rnd ofZ c w wres =
  match flookup (kind_name (ck c)) transformer_table with
  | None => Err EKeyError
  | Some f => match flookup f (g_functions R leb rnd ofZ) with Some g => g c w wres | None => Err EOther end
  end.
Proof. reflexivity. Qed.

Definition C07_translate_regenerated_full : Prop :=
  forall (R : fops) leb rnd ofZ (c : comp R) (w wres : R), translate R leb rnd ofZ c w wres = g_translate R leb rnd ofZ c w wres.
(* false for the same reason as C07c_resistive_load_full (and only for lamps / resistive loads with < 2 terminals) *)
Theorem C07_translate_regenerated_partial : forall (R : fops) leb rnd ofZ (c : comp R) (w wres : R),
  (ck c = KLamp \/ ck c = KResLoad -> (2 <= List.length (cnodes c))%nat) ->
  translate R leb rnd ofZ c w wres = g_translate R leb rnd ofZ c w wres.
Proof. exact translate_regenerated. Qed.
Print Assumptions C07_translate_regenerated_partial.
Theorem C07_translate_regenerated_outcome : forall (R : fops) leb rnd ofZ (c : comp R) (w wres : R),
  match translate R leb rnd ofZ c w wres, g_translate R leb rnd ofZ c w wres with
  | Ok b, Ok b' => b = b' | Err _, Err _ => True | _, _ => False end.
Proof. exact translate_regenerated_outcome. Qed.
Print Assumptions C07_translate_regenerated_outcome.
Theorem C07_translate_regenerated_full_refuted : ~ C07_translate_regenerated_full.
Proof. intros H.
  specialize (H Qcops Qc_leb Qc_round Qc_ofZ (mkc KLamp "p" [] [("P", q 1 1)]) (q 0 1) (q 0 1)).
  assert (E : match g_translate Qcops Qc_leb Qc_round Qc_ofZ (mkc KLamp "p" [] [("P", q 1 1)]) (q 0 1) (q 0 1) with
              | Err EIndex => true | _ => false end = true) by (vm_compute; reflexivity).
  rewrite <- H in E. vm_compute in E. discriminate E. Qed.
Print Assumptions C07_translate_regenerated_full_refuted.

(* transform_circuit with the regenerated membership test `component.type in transformers.keys()`, table and functions *)
Theorem C07c_transform_vocabulary : forall (R : fops) leb rnd ofZ (cs : list (comp R)) (w wres : R),
  g_transform_circuit R leb rnd ofZ cs w wres =
  bind (ground_node R cs) (fun g =>
  bind (mapM (fun c => g_translate R leb rnd ofZ c w wres)
             (filter (fun c => match flookup (kind_name (ck c)) transformer_table with Some _ => true | None => false end) cs))
       (fun bs => validate {| branches := bs; zero := g |})).
Proof. reflexivity. Qed.
Theorem C07_transform_regenerated_partial : forall (R : fops) leb rnd ofZ (cs : list (comp R)) (w wres : R),
  (forall c, In c cs -> ck c = KLamp \/ ck c = KResLoad -> (2 <= List.length (cnodes c))%nat) ->
  transform_circuit R leb rnd ofZ cs w wres = g_transform_circuit R leb rnd ofZ cs w wres.
Proof. exact transform_regenerated. Qed.
Print Assumptions C07_transform_regenerated_partial.
Theorem C07_transform_regenerated_outcome : forall (R : fops) leb rnd ofZ (cs : list (comp R)) (w wres : R),
  match transform_circuit R leb rnd ofZ cs w wres, g_transform_circuit R leb rnd ofZ cs w wres with
  | Ok n, Ok n' => n = n' | Err _, Err _ => True | _, _ => False end.
Proof. exact transform_regenerated_outcome. Qed.
Print Assumptions C07_transform_regenerated_outcome.

(* ================= C. C07_faithful and C02_phasor for the regenerated code ================= *)
Theorem C07_faithful_regenerated : forall (R : fops) (ROK : fops_ok R)
  (Rreal : forall x y : R, fadd R (fmul R x x) (fmul R y y) = f0 R -> x = f0 R /\ y = f0 R)
  leb rnd ofZ (c : comp R) (w wres : R) (b : branch (Cx R)) (phi : label -> Cx R) (j : branch (Cx R) -> Cx R),
  g_translate R leb rnd ofZ c w wres = Ok b ->
  (law phi j b <-> comp_law R leb rnd ofZ c w wres (bvolt phi b) (j b)).
Proof. exact g_translate_faithful. Qed.
Print Assumptions C07_faithful_regenerated.

Theorem C02_phasor_regenerated : forall (R : fops) (ROK : fops_ok R)
  (Rreal : forall x y : R, fadd R (fmul R x x) (fmul R y y) = f0 R -> x = f0 R /\ y = f0 R)
  leb rnd ofZ (cs : list (comp R)) (w wres : R) (n : network (Cx R)) (phi ji : label -> Cx R),
  g_transform_circuit R leb rnd ofZ cs w wres = Ok n ->
  (CircuitSpec n phi (fun b => ji (bid b)) <-> PhasorSpec R leb rnd ofZ cs w wres phi ji).
Proof. exact g_phasor_iff. Qed.
Print Assumptions C02_phasor_regenerated.

(* ================= D. the fixed translation of the single-frequency idiom of the periodic sources =================
   `ccp.ac_voltage_source(id=x.id, nodes=(x.nodes[0], x.nodes[1]), w=w, phi=fp.phase(n), V=fp.amplitude(n), R=r)` handed to
   the regenerated ac_voltage_source translator at the same w is the primitive single_frequency_voltage_source, provided the
   source has two terminals and |w - w| > w_resolution is false.  (Not covered: the constructor's guards R < 0, w < 0.) *)
Theorem C07c_idiom_voltage : forall (R : fops) (leb : R -> R -> bool) (c : comp R) (a b : label) (h : R * (R * R)) (r w wres phi : R),
  nth_error (cnodes c) 0 = Some a -> nth_error (cnodes c) 1 = Some b ->
  gtb R leb (rabs R leb (fsub R w w)) wres = false ->
  g_ac_voltage_source R leb
    {| ck := KAcV; cid := cid c; cnodes := [a; b];
       cvals := [(lbl "V", fst h); (lbl "R", r); (lbl "w", w); (lbl "phi", phi)]; cwave := []; ccis := snd h; charm := [] |} w wres
  = single_frequency_voltage_source R c h r.
Proof. exact idiom_voltage. Qed.
Print Assumptions C07c_idiom_voltage.
Theorem C07c_idiom_current : forall (R : fops) (leb : R -> R -> bool) (c : comp R) (a b : label) (h : R * (R * R)) (g w wres phi : R),
  nth_error (cnodes c) 0 = Some a -> nth_error (cnodes c) 1 = Some b ->
  gtb R leb (rabs R leb (fsub R w w)) wres = false ->
  g_ac_current_source R leb
    {| ck := KAcI; cid := cid c; cnodes := [a; b];
       cvals := [(lbl "I", fst h); (lbl "G", g); (lbl "w", w); (lbl "phi", phi)]; cwave := []; ccis := snd h; charm := [] |} w wres
  = single_frequency_current_source R c h g.
Proof. exact idiom_current. Qed.
Print Assumptions C07c_idiom_current.

(* ================= non-vacuity (the circuits of Properties/C07.v, over the rationals) ================= *)
(* every non-ground kind is translated by the regenerated functions, to the branch the model's translate produces *)
Example C07c_example_every_kind :
  forallb (fun c => match g_translate Qcops Qc_leb Qc_round Qc_ofZ c ex_w ex_wres, translate Qcops Qc_leb Qc_round Qc_ofZ c ex_w ex_wres with
                    | Ok b, Ok b' => label_eqb (bid b) (bid b') && label_eqb (node1 b) (node1 b') && label_eqb (node2 b) (node2 b')
                    | _, _ => false end) ex_all = true.
Proof. vm_compute. reflexivity. Qed.
(* the hypothesis of the partial equalities holds of every component of the example circuits *)
Example C07c_example_two_terminals :
  forallb (fun c : qcomp => Nat.leb 2 (List.length (cnodes c))) ex_all = true
  /\ existsb (fun c : qcomp => ckind_eqb (ck c) KLamp) ex_all = true
  /\ existsb (fun c : qcomp => ckind_eqb (ck c) KResLoad) ex_all = true.
Proof. vm_compute. auto. Qed.
(* the regenerated transform_circuit succeeds on the example circuit (hypothesis of C02_phasor_regenerated) *)
Example C07c_example_transforms :
  okb (g_transform_circuit Qcops Qc_leb Qc_round Qc_ofZ ex_cs ex_w ex_wres)
      (fun n => Nat.eqb (List.length (branches n)) 8 && label_eqb (zero n) (lbl "0")) = true.
Proof. vm_compute. reflexivity. Qed.
(* the periodic sources take both paths: on a harmonic (w = 2 = 2*w0) and off every harmonic (w = 5/2) *)
Example C07c_example_periodic_paths :
  let p := mkp KPerV "j" ["1"; "2"] [("wavetype", q 0 1); ("V", q 1 1); ("w", q 1 1); ("phi", q 0 1); ("R", q 1 10)]
             [(2%Z, (q 1 3, (q 0 1, q 1 1)))] in
  okb (g_periodic_voltage_source Qcops Qc_leb Qc_round Qc_ofZ p (q 2 1) ex_wres) (fun b => is_voltage_source (el b)) = true
  /\ okb (g_periodic_voltage_source Qcops Qc_leb Qc_round Qc_ofZ p (q 5 2) ex_wres) (fun b => is_short_circuit (el b)) = true.
Proof. vm_compute. auto. Qed.
(* the hypotheses of the idiom theorems are satisfiable *)
Example C07c_example_idiom_hypothesis : gtb Qcops Qc_leb (rabs Qcops Qc_leb (fsub Qcops ex_w ex_w)) ex_wres = false.
Proof. vm_compute. reflexivity. Qed.
