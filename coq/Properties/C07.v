(* C07 — "Converting a circuit to its network at angular frequency w yields exactly one branch per non-ground component,
   with the same identifier and terminal order, whose immittance and source value are those of the component at w: R, 1/G,
   R+jX, 1/(G+jB), jwL, 1/(jwC), V_ref^2/P for lamps and loads, A*exp(j*phi) for a source at its own frequency (the n-th
   Fourier harmonic for a periodic source at n*w0) and a short/open circuit for a voltage/current source at any other
   frequency.  The reference node is the ground component's node, else the first listed terminal, and no component is ever
   silently omitted, duplicated or evaluated with another component's value."
   Statements only; proofs are in Theory/CircuitThm.v.  Model: Model/Circuit.v; regenerated source tables: Gen/Tables.v. *)
From Coq Require Import List Bool ZArith NArith String QArith Qcanon.
From CC Require Import Theory.Field Theory.Complex Theory.Labels Model.Network Theory.Spec Gen.Tables Model.Circuit
  Model.RunCircuit Theory.CircuitThm.
Import ListNotations.

(* ================= A. the model's kind tables against the tables regenerated from the Python source ================= *)

(* the component types components.py can construct are exactly the model's kinds; no type string occurs twice *)
Theorem C07_kinds :
  (forall t, In t (map c_type component_ctors) <-> In t (map kind_name all_kinds))
  /\ NoDup (map c_type component_ctors) /\ NoDup (map kind_name all_kinds).
Proof. exact kinds_thm. Qed.
Print Assumptions C07_kinds.

(* `if component.type in transformers.keys()` skips no constructible type but "ground"; the table has no other key,
   and no key twice *)
Theorem C07_no_drop :
  (forall c, In c component_ctors -> c_type c <> lbl "ground" -> In (c_type c) (map fst transformer_table))
  /\ (forall t, In t (map fst transformer_table) -> In t (map c_type component_ctors) /\ t <> lbl "ground")
  /\ NoDup (map fst transformer_table).
Proof. exact no_drop_thm. Qed.
Print Assumptions C07_no_drop.

(* every kind is dispatched to the translator function the model's [translate] uses for it *)
Theorem C07_dispatch : forall k, tlookup (kind_name k) transformer_table = translator_name k.
Proof. exact dispatch_thm. Qed.
Print Assumptions C07_dispatch.

(* the constructor of every kind writes exactly the model's value keys, in the same order *)
Theorem C07_keys_written : forall k,
  exists c, find (fun c => label_eqb (c_type c) (kind_name k)) component_ctors = Some c
            /\ map fst (c_values c) = keys_written k.
Proof. exact keys_written_thm. Qed.
Print Assumptions C07_keys_written.

(* the translator of every kind reads exactly the value keys the model's translator reads *)
Theorem C07_keys_read : forall k f, translator_name k = Some f ->
  exists ks, tlookup f translator_reads = Some ks /\ (forall x, In x ks <-> In x (keys_read k)).
Proof. exact keys_read_thm. Qed.
Print Assumptions C07_keys_read.

(* source tables only: whatever function a type is dispatched to has a known read set, and reads only keys which the
   constructor of that type writes (no KeyError, no key of another component kind) *)
Theorem C07_reads_subset_writes : forall t f, In (t, f) transformer_table ->
  (exists ks, In (f, ks) translator_reads)
  /\ (forall c ks, In c component_ctors -> c_type c = t -> In (f, ks) translator_reads ->
        forall x, In x ks -> In x (map fst (c_values c))).
Proof. exact reads_subset_thm. Qed.
Print Assumptions C07_reads_subset_writes.

(* sign guards `if p < 0: raise ValueError`: every constructor guards exactly the parameters the model lists (before the
   repair of components.periodic_current_source this statement was refuted for that kind). *)
Definition C07_guards_stmt (k : ckind) : Prop :=
  exists c, find (fun c => label_eqb (c_type c) (kind_name k)) component_ctors = Some c
            /\ (forall x, In x (c_guards c) <-> In x (guarded k)).
Theorem C07_guards : forall k, C07_guards_stmt k.
Proof. exact guards_full_thm. Qed.
Print Assumptions C07_guards.
Theorem C07_wavetype_checked : forall k, exists c, find (fun c => label_eqb (c_type c) (kind_name k)) component_ctors = Some c /\
  (c_checks_wavetype c = true <-> (k = KPerV \/ k = KPerI)).
Proof. exact wave_checked_thm. Qed.
Print Assumptions C07_wavetype_checked.

(* ================= B. the translation itself (generic formally real field R; complex numbers Cx R) ================= *)

Theorem C07_ground_only_kind_without_translator : forall k, has_translator k = false <-> k = KGround.
Proof. exact has_translator_false. Qed.

(* one branch per non-ground component: same identifiers in the same order, hence same count, no duplicate, none dropped,
   none invented *)
Theorem C07_one_each : forall (R : fops) leb rnd ofZ (cs : list (comp R)) (w wres : R) (n : network (Cx R)),
  transform_circuit R leb rnd ofZ cs w wres = Ok n ->
  map bid (branches n) = map cid (filter (fun c => has_translator (ck c)) cs)
  /\ List.length (branches n) = List.length (filter (fun c => has_translator (ck c)) cs)
  /\ NoDup (map cid (filter (fun c => has_translator (ck c)) cs))
  /\ (forall c, In c cs -> ck c <> KGround -> exists b, In b (branches n) /\ bid b = cid c)
  /\ (forall b, In b (branches n) -> exists c, In c cs /\ ck c <> KGround /\ cid c = bid b).
Proof. exact one_each. Qed.
Print Assumptions C07_one_each.

(* the k-th branch runs from the first to the second listed terminal of the k-th non-ground component *)
Theorem C07_terminals : forall (R : fops) leb rnd ofZ (cs : list (comp R)) (w wres : R) (n : network (Cx R)),
  transform_circuit R leb rnd ofZ cs w wres = Ok n ->
  Forall2 (fun c b => nth_error (cnodes c) 0 = Some (node1 b) /\ nth_error (cnodes c) 1 = Some (node2 b))
          (filter (fun c => has_translator (ck c)) cs) (branches n).
Proof. exact terminals. Qed.
Print Assumptions C07_terminals.

(* ... and is the translation of that very component *)
Theorem C07_each_translated : forall (R : fops) leb rnd ofZ (cs : list (comp R)) (w wres : R) (n : network (Cx R)),
  transform_circuit R leb rnd ofZ cs w wres = Ok n ->
  Forall2 (fun c b => translate R leb rnd ofZ c w wres = Ok b) (filter (fun c => has_translator (ck c)) cs) (branches n).
Proof. exact each_translated. Qed.
Print Assumptions C07_each_translated.

(* reference node: the first node of the (unique) ground component, else the first node of the first component *)
Theorem C07_ground : forall (R : fops) leb rnd ofZ (cs : list (comp R)) (w wres : R) (n : network (Cx R)),
  transform_circuit R leb rnd ofZ cs w wres = Ok n ->
  ground_node R cs = Ok (zero n)
  /\ NoDup (map cid cs)
  /\ (List.length (filter (is_ground R) cs) <= 1)%nat
  /\ (forall gc, In gc cs -> ck gc = KGround -> nth_error (cnodes gc) 0 = Some (zero n))
  /\ ((forall c, In c cs -> ck c <> KGround) ->
      match cs with [] => zero n = [] | c0 :: _ => nth_error (cnodes c0) 0 = Some (zero n) end).
Proof. exact ground_thm. Qed.
Print Assumptions C07_ground.

(* more than one ground component: never a network; MultipleGroundNodes provided every ground component lists a node
   (otherwise Python raises IndexError first) *)
Theorem C07_multiple_ground : forall (R : fops) leb rnd ofZ (cs : list (comp R)) (w wres : R),
  (1 < List.length (filter (is_ground R) cs))%nat ->
  (forall n, transform_circuit R leb rnd ofZ cs w wres <> Ok n)
  /\ ((forall c, In c cs -> ck c = KGround -> cnodes c <> []) -> transform_circuit R leb rnd ofZ cs w wres = Err EMultipleGround).
Proof. exact multiple_ground. Qed.
Print Assumptions C07_multiple_ground.

(* duplicate identifiers: never a network; AmbiguousComponentID when the earlier checks pass *)
Theorem C07_duplicate_ids : forall (R : fops) leb rnd ofZ (cs : list (comp R)) (w wres : R),
  ~ NoDup (map cid cs) ->
  (forall n, transform_circuit R leb rnd ofZ cs w wres <> Ok n)
  /\ ((List.length (filter (is_ground R) cs) <= 1)%nat -> (forall c, In c cs -> cnodes c <> []) ->
      transform_circuit R leb rnd ofZ cs w wres = Err EAmbiguousComponent).
Proof. exact duplicate_ids. Qed.
Print Assumptions C07_duplicate_ids.

(* the law of each component at w, in the property's words.  v = voltage first -> second terminal, i = flow first ->
   second terminal; [hasv c k x]: x is stored under key k of c's own value dictionary; [cis c] = exp(j*phi) of c's own
   phase; [far a b tol] : |a - b| > tol;  [cj] the imaginary unit.
     vsrc_law_r V r v i := (r = 0 -> v = V) /\ (r <> 0 -> r*i = V + v)      (the library's convention for lossy sources)
     vsrc_law   V Z v i := (Z = 0 -> v = V) /\ (Z <> 0 -> Z*i = V + v)
     isrc_law   I Y v i := i = I + Y*v *)
Theorem C07_comp_law_unfolded : forall (R : fops) leb rnd ofZ (c : comp R) (w wres : R) (v i : Cx R),
  let C := Cx R in
  let cre := cre R in let hasv := hasv R in let cj := cj R in let cis := cis R in let far := far R leb in
  let mul := fmul C in
  comp_law R leb rnd ofZ c w wres v i =
  match ck c with
  | KResistor => exists r, hasv c "R"%string r /\ v = mul (cre r) i
  | KConductance => exists g, hasv c "G"%string g /\ i = mul (cre g) v
  | KImpedance => exists r x, hasv c "R"%string r /\ hasv c "X"%string x /\ v = mul ((r, x) : C) i
  | KAdmittance => exists g bb, hasv c "G"%string g /\ hasv c "B"%string bb /\ i = mul ((g, bb) : C) v
  | KCapacitor => exists cv, hasv c "C"%string cv /\ i = mul (mul (mul cj (cre w)) (cre cv)) v
  | KInductance => exists l, hasv c "L"%string l /\ v = mul (mul (mul cj (cre w)) (cre l)) i
  | KLamp | KResLoad => exists p vr, hasv c "P"%string p /\ hasv c "V_ref"%string vr
                                     /\ i = mul (cre (fdiv R p (fmul R vr vr))) v
  | KShort => v = f0 C
  | KDcV => exists V r ws, hasv c "V"%string V /\ hasv c "R"%string r /\ hasv c "w"%string ws /\
      (far w ws wres -> v = f0 C) /\ (~ far w ws wres -> vsrc_law_r R (cre V) r v i)
  | KAcV => exists V r ws, hasv c "V"%string V /\ hasv c "R"%string r /\ hasv c "w"%string ws /\
      (far w ws wres -> v = f0 C) /\ (~ far w ws wres -> vsrc_law_r R (mul (cre V) (cis c)) r v i)
  | KCplxV => exists vr vi r x, hasv c "V_real"%string vr /\ hasv c "V_imag"%string vi /\ hasv c "R"%string r
                                /\ hasv c "X"%string x /\ vsrc_law R (vr, vi) (r, x) v i
  | KPerV => exists w0, hasv c "w"%string w0 /\
      let n := rnd (fdiv R w w0) in
      (far (fdiv R w w0) (ofZ n) (fdiv R wres w0) -> v = f0 C) /\
      (~ far (fdiv R w w0) (ofZ n) (fdiv R wres w0) ->
         exists a cs sn r, hlook R (charm c) n = Some (a, (cs, sn)) /\ hasv c "R"%string r /\
                           vsrc_law_r R (mul (cre a) ((cs, sn) : C)) r v i)
  | KDcI => exists I g ws, hasv c "I"%string I /\ hasv c "G"%string g /\ hasv c "w"%string ws /\
      (far w ws wres -> i = f0 C) /\ (~ far w ws wres -> isrc_law R (cre I) (cre g) v i)
  | KAcI => exists I g ws, hasv c "I"%string I /\ hasv c "G"%string g /\ hasv c "w"%string ws /\
      (far w ws wres -> i = f0 C) /\ (~ far w ws wres -> isrc_law R (mul (cre I) (cis c)) (cre g) v i)
  | KCplxI => exists ir ii g bb, hasv c "I_real"%string ir /\ hasv c "I_imag"%string ii /\ hasv c "G"%string g
                                 /\ hasv c "B"%string bb /\ isrc_law R (ir, ii) (g, bb) v i
  | KPerI => exists w0, hasv c "w"%string w0 /\
      let n := rnd (fdiv R w w0) in
      (far (fdiv R w w0) (ofZ n) (fdiv R wres w0) -> i = f0 C) /\
      (~ far (fdiv R w w0) (ofZ n) (fdiv R wres w0) ->
         exists a cs sn g, hlook R (charm c) n = Some (a, (cs, sn)) /\ hasv c "G"%string g /\
                           isrc_law R (mul (cre a) ((cs, sn) : C)) (cre g) v i)
  | KGround => False
  end.
Proof. reflexivity. Qed.

Theorem C07_law_vocabulary : forall (R : fops) leb (c : comp R) (k : string) (x a b tol : R) (V Z I Y v i : Cx R) (r : R),
  (hasv R c k x <-> vlook R (cvals c) (lbl k) = Some x)
  /\ cj R = (f0 R, f1 R) /\ cis R c = ccis c
  /\ (far R leb a b tol <-> leb (rabs R leb (fsub R a b)) tol = false)
  /\ (vsrc_law R V Z v i <-> (Z = f0 (Cx R) -> v = V) /\ (Z <> f0 (Cx R) -> fmul (Cx R) Z i = fadd (Cx R) V v))
  /\ (vsrc_law_r R V r v i <-> (r = f0 R -> v = V) /\ (r <> f0 R -> fmul (Cx R) (cre R r) i = fadd (Cx R) V v))
  /\ (isrc_law R I Y v i <-> i = fadd (Cx R) I (fmul (Cx R) Y v)).
Proof. intros. unfold hasv, cj, cis, far, vsrc_law, vsrc_law_r, isrc_law. repeat split; auto; tauto. Qed.

(* the branch made from a component obeys exactly the component's law *)
Theorem C07_faithful : forall (R : fops) (ROK : fops_ok R)
  (Rreal : forall x y : R, fadd R (fmul R x x) (fmul R y y) = f0 R -> x = f0 R /\ y = f0 R)
  leb rnd ofZ (c : comp R) (w wres : R) (b : branch (Cx R)) (phi : label -> Cx R) (j : branch (Cx R) -> Cx R),
  translate R leb rnd ofZ c w wres = Ok b ->
  (law phi j b <-> comp_law R leb rnd ofZ c w wres (bvolt phi b) (j b)).
Proof. exact translate_faithful. Qed.
Print Assumptions C07_faithful.

(* ================= non-vacuity: concrete circuits over the rationals ================= *)
Definition mkc (k : ckind) (id : string) (nodes : list string) (vals : list (string * Qc)) : qcomp :=
  @Build_comp Qcops k (lbl id) (map lbl nodes) (map (fun p => (lbl (fst p), snd p)) vals) [] (qc 3 5, qc 4 5) [].
Definition mkp (k : ckind) (id : string) (nodes : list string) (vals : list (string * Qc)) harm : qcomp :=
  @Build_comp Qcops k (lbl id) (map lbl nodes) (map (fun p => (lbl (fst p), snd p)) vals) (lbl "rect") (qc 1 1, qc 0 1) harm.
Definition q (n : Z) (d : positive) : Qc := qc n d.

(* an ac source at w = 2 with phase cis = 3/5 + 4/5 j, R-C-L ladder, an off-frequency dc current source, a lossy ac
   source, a periodic current source whose 2nd harmonic is at w, and a ground component listed last *)
Definition ex_cs : list qcomp := [
  mkc KAcV "V1" ["1"; "0"] [("V", q 5 1); ("R", q 0 1); ("w", q 2 1); ("phi", q 1 1)];
  mkc KResistor "R1" ["1"; "2"] [("R", q 2 1)];
  mkc KCapacitor "C1" ["2"; "0"] [("C", q 1 4)];
  mkc KInductance "L1" ["2"; "3"] [("L", q 1 1)];
  mkc KConductance "G1" ["3"; "0"] [("G", q 1 2)];
  mkc KDcI "I1" ["0"; "3"] [("I", q 1 1); ("G", q 0 1); ("w", q 0 1); ("phi", q 0 1)];
  mkc KAcV "V2" ["3"; "0"] [("V", q 1 1); ("R", q 1 1); ("w", q 2 1); ("phi", q 1 1)];
  mkp KPerI "P1" ["0"; "2"] [("wavetype", q 0 1); ("I", q 1 1); ("w", q 1 1); ("phi", q 0 1); ("G", q 1 10)]
      [(0%Z, (q 1 2, (q 1 1, q 0 1))); (2%Z, (q 1 3, (q 0 1, q 1 1)))];
  mkc KGround "gnd" ["0"] [] ]%string.
Definition ex_w : Qc := q 2 1.
Definition ex_wres : Qc := q 1 1000.

Example C07_example_transforms :
  okb (q_transform ex_cs ex_w ex_wres)
      (fun n => Nat.eqb (List.length (branches n)) 8 && label_eqb (zero n) (lbl "0")
                && lleqb (map bid (branches n)) (map lbl ["V1"; "R1"; "C1"; "L1"; "G1"; "I1"; "V2"; "P1"]%string)) = true.
Proof. vm_compute. reflexivity. Qed.
Example C07_example_transforms' : exists n, q_transform ex_cs ex_w ex_wres = Ok n.
Proof. destruct (okb_ex _ _ C07_example_transforms) as [n [H _]]. exists n. exact H. Qed.

(* one component of every non-ground kind translates (hypothesis of C07_faithful) *)
Definition ex_all : list qcomp := [
  mkc KResistor "a" ["1"; "2"] [("R", q 2 1)];
  mkc KConductance "b" ["1"; "2"] [("G", q 2 1)];
  mkc KCapacitor "c" ["1"; "2"] [("C", q 2 1)];
  mkc KInductance "d" ["1"; "2"] [("L", q 2 1)];
  mkc KImpedance "e" ["1"; "2"] [("R", q 2 1); ("X", q (-1) 1)];
  mkc KAdmittance "f" ["1"; "2"] [("G", q 2 1); ("B", q 1 3)];
  mkc KDcV "g" ["1"; "2"] [("V", q 2 1); ("R", q 1 1); ("w", q 0 1); ("phi", q 0 1)];
  mkc KAcV "h" ["1"; "2"] [("V", q 2 1); ("R", q 1 1); ("w", q 2 1); ("phi", q 1 1)];
  mkc KCplxV "i" ["1"; "2"] [("V_real", q 2 1); ("V_imag", q 1 1); ("R", q 0 1); ("X", q 0 1)];
  mkp KPerV "j" ["1"; "2"] [("wavetype", q 0 1); ("V", q 1 1); ("w", q 1 1); ("phi", q 0 1); ("R", q 1 10)]
      [(2%Z, (q 1 3, (q 0 1, q 1 1)))];
  mkc KDcI "k" ["1"; "2"] [("I", q 2 1); ("G", q 1 1); ("w", q 0 1); ("phi", q 0 1)];
  mkc KAcI "l" ["1"; "2"] [("I", q 2 1); ("G", q 1 1); ("w", q 2 1); ("phi", q 1 1)];
  mkc KCplxI "m" ["1"; "2"] [("I_real", q 2 1); ("I_imag", q 1 1); ("G", q 0 1); ("B", q 0 1)];
  mkp KPerI "n" ["1"; "2"] [("wavetype", q 0 1); ("I", q 1 1); ("w", q 1 1); ("phi", q 0 1); ("G", q 1 10)]
      [(2%Z, (q 1 3, (q 0 1, q 1 1)))];
  mkc KLamp "o" ["1"; "2"] [("P", q 40 1); ("V_ref", q 12 1)];
  mkc KResLoad "p" ["1"; "2"] [("P", q 40 1); ("V_ref", q 12 1)];
  mkc KShort "q" ["1"; "2"] [] ]%string.
Example C07_example_every_kind :
  map ck ex_all = removelast all_kinds
  /\ forallb (fun c => match translate Qcops Qc_leb Qc_round Qc_ofZ c ex_w ex_wres with Ok _ => true | Err _ => false end) ex_all = true.
Proof. split; vm_compute; reflexivity. Qed.

Example C07_example_multiple_ground :
  match q_transform (mkc KGround "g2" ["1"] [] :: ex_cs)%string ex_w ex_wres with Err EMultipleGround => true | _ => false end = true.
Proof. vm_compute. reflexivity. Qed.
Example C07_example_duplicate_ids :
  match q_transform (mkc KResistor "R1" ["3"; "0"] [("R", q 1 1)] :: ex_cs)%string ex_w ex_wres with
  | Err EAmbiguousComponent => true | _ => false end = true.
Proof. vm_compute. reflexivity. Qed.
Example C07_example_no_ground_first_terminal :
  okb (q_transform (removelast ex_cs) ex_w ex_wres) (fun n => label_eqb (zero n) (lbl "1")) = true.
Proof. vm_compute. reflexivity. Qed.
