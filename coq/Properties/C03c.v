(* C03c — the index maps (alphabetic mappers), the assembled system and the reported quantities that the invariance theorems are about are the ones regenerated from the source on this run.
   Statements only; each proof is [exact] the theorem of the same statement in the property file it is listed under. *)
From Coq Require Import String.
From Coq Require Import List Bool ZArith NArith.
From CC Require Import Theory.Field Theory.Complex Theory.Labels Model.Network Model.Transformers Model.NetworkPrims
  Gen.NetworkGen Theory.Spec Theory.Mna Theory.Api Theory.NetworkGenThm.
Import ListNotations.
From Coq Require Import String.
From Coq Require Import List Bool ZArith NArith Permutation.
From CC Require Import Theory.Field Theory.Complex Theory.Labels Model.Network Model.Transformers Model.NetworkPrims
  Model.StateSpace Model.Port Model.MatrixPrims Gen.NetworkGen Gen.MatrixGen Theory.Api Theory.NetworkGenThm
  Theory.MatrixGenThm.
Import ListNotations.
From CC Require Import Properties.C01c Properties.C01d.

Theorem C03c_mappers : forall (K : fops) (n : network K),
  py_label_mapping.alphabetic_node_mapper K n = node_index n /\
  py_label_mapping.alphabetic_current_source_mapper K n = cs_index n /\
  py_label_mapping.alphabetic_voltage_source_mapper K n = vs_index n /\
  py_label_mapping.alphabetic_source_mapper K n = source_index n /\
  py_label_mapping.default_node_mapper K n = node_index n /\
  py_label_mapping.default_source_mapper K n = source_index n.
Proof. exact C01c_mappers. Qed.
Print Assumptions C03c_mappers.

Theorem C03c_node_labels : forall (K : fops) (n : network K), py_network.Network_node_labels K n = node_labels n.
Proof. exact C01c_node_labels. Qed.
Print Assumptions C03c_node_labels.

Theorem C03c_validate : forall (K : fops) (n : network K),
  bind (py_network.Network___post_init__ K n) (fun _ => Ok n) = validate n.
Proof. exact C01c_validate. Qed.
Print Assumptions C03c_validate.

Theorem C03c_solver_system : forall (K : fops) (KOK : fops_ok K) (n n' : network K), validate n = Ok n' ->
  bind (py_node_analysis.nodal_analysis_coefficient_matrix K n' (py_node_analysis.nodal_analysis_coefficient_matrix__default_node_mapper K)
          (py_node_analysis.nodal_analysis_coefficient_matrix__default_source_mapper K)) (fun A =>
  bind (py_node_analysis.nodal_analysis_constants_vector K n' (py_node_analysis.nodal_analysis_constants_vector__default_node_mapper K)
          (py_node_analysis.nodal_analysis_constants_vector__default_current_source_mapper K)
          (py_node_analysis.nodal_analysis_constants_vector__default_voltage_source_mapper K)) (fun b =>
  match np_linalg_solve A b with Some x => Ok {| s_net := n'; s_x := x |} | None => Err ESingular end))
  = solve_network n.
Proof. exact C01d_solver_system. Qed.
Print Assumptions C03c_solver_system.

