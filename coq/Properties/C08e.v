(* C08 (end) — mean-square convergence of the Fourier series and Parseval's identity for ALL six built-in waveforms.
   Statements only; every proof is [exact <lemma>] (proofs in Theory/Basel.v and Theory/FourierParseval.v).
   Properties/C08d.v reduced the clause [mean_square_series] (HarmonicsTh.v; the body of [C08_parseval_full] of
   Properties/C08.v, there only STATED) to one numerical limit per waveform:
       amplitude(0)^2 + sum_{n=1..N} amplitude(n)^2 / 2  ->  mean square of the waveform      (N -> infinity).
   Here that limit is proved:
     const / cos / sin : the sum is constant from N = 0 resp. 1 on;
     saw  : sum_{n>=1} 1/n^2 = pi^2/6        (Basel; proved in Theory/Basel.v by integration by parts on
            int_0^{pi/2} x^k cos(x)^(2n) dx, after Matsuoka 1961 — neither Coquelicot nor the standard library has it);
     rect : sum_{n odd} 1/n^2 = pi^2/8       (odd = all - even = (1 - 1/4) all);
     tri  : sum_{n odd} 1/n^4 = pi^4/96      (from sum_{n>=1} 1/n^4 = pi^4/90, same integrals with k = 2, 4).
   Consequently [C08_parseval_full] is now a THEOREM ([C08_parseval]) — for every T > 0, A, phi, off.
   COVERED: all six waveforms, every period T > 0, amplitude, phase, offset; both the per-wave coefficient functions and
   the API level (time_function / fourier_series / amplitude / phase).  Nothing of the clause is left open.
   Assumptions reported: the classical real numbers of the standard library (sig_not_dec, sig_forall_dec,
   functional_extensionality_dep, classic), through Reals/Coquelicot, exactly as in C08.v / C08d.v; nothing else. *)
From Coq Require Import Reals ZArith NArith List Bool Lra.
Set Warnings "-ambiguous-paths".
From Coquelicot Require Import Coquelicot.
From CC Require Import Model.Network Model.Rops Theory.RopsR Gen.Periodic Model.Harmonics
  Theory.Fourier Theory.FourierWaves Theory.HarmonicsTh Theory.FourierBessel Theory.Basel Theory.FourierParseval.
From CC Require Properties.C08.
Import ListNotations.
Open Scope R_scope.

(* ---- (1) the four series (pure real analysis; no circuit content) ---- *)
Theorem C08_basel : is_lim_seq (fun N => sum_n_m (fun n => 1 / INR n ^ 2) 1 N) (PI ^ 2 / 6).
Proof. exact basel. Qed.
Theorem C08_basel_odd :
  is_lim_seq (fun N => sum_n_m (fun n => if Nat.even n then 0 else 1 / INR n ^ 2) 1 N) (PI ^ 2 / 8).
Proof. exact basel_odd. Qed.
Theorem C08_zeta4 : is_lim_seq (fun N => sum_n_m (fun n => 1 / INR n ^ 4) 1 N) (PI ^ 4 / 90).
Proof. exact zeta4. Qed.
Theorem C08_zeta4_odd :
  is_lim_seq (fun N => sum_n_m (fun n => if Nat.even n then 0 else 1 / INR n ^ 4) 1 N) (PI ^ 4 / 96).
Proof. exact zeta4_odd. Qed.
Print Assumptions C08_basel. Print Assumptions C08_basel_odd. Print Assumptions C08_zeta4. Print Assumptions C08_zeta4_odd.

(* the partial sums in closed form, with the remainder r(N) = int x^2 cos^(2N) / int cos^(2N) over [0, pi/2], and its bound *)
Theorem C08_basel_partial_sum : forall N : nat,
  sum_n_m (fun n => 1 / INR n ^ 2) 1 N
  = PI ^ 2 / 6 - 2 * (RInt (fun x => x ^ 2 * cos x ^ (2 * N)) 0 (PI / 2) / RInt (fun x => x ^ 0 * cos x ^ (2 * N)) 0 (PI / 2)).
Proof. exact hsum2_closed. Qed.
Theorem C08_basel_remainder : forall N : nat,
  0 <= RInt (fun x => x ^ 2 * cos x ^ (2 * S N)) 0 (PI / 2) / RInt (fun x => x ^ 0 * cos x ^ (2 * S N)) 0 (PI / 2)
    <= 1 / INR (S N).
Proof. exact basel_remainder. Qed.
Print Assumptions C08_basel_partial_sum. Print Assumptions C08_basel_remainder.

(* ---- (2) the energy of the first N harmonics converges to the mean square, wave by wave ---- *)
Theorem C08_energy_limit_const : forall A phi off : R,
  is_lim_seq (fun N => const_amplitude ROps A phi off 0 ^ 2
                       + sum_n_m (fun n => const_amplitude ROps A phi off (Z.of_nat n) ^ 2 / 2) 1 N) (A ^ 2).
Proof. exact const_energy_lim. Qed.
Theorem C08_energy_limit_cos : forall A phi off : R,
  is_lim_seq (fun N => cos_amplitude ROps A phi off 0 ^ 2
                       + sum_n_m (fun n => cos_amplitude ROps A phi off (Z.of_nat n) ^ 2 / 2) 1 N) (A ^ 2 / 2 + off ^ 2).
Proof. exact cos_energy_lim. Qed.
Theorem C08_energy_limit_sin : forall A phi off : R,
  is_lim_seq (fun N => sin_amplitude ROps A phi off 0 ^ 2
                       + sum_n_m (fun n => sin_amplitude ROps A phi off (Z.of_nat n) ^ 2 / 2) 1 N) (A ^ 2 / 2 + off ^ 2).
Proof. exact sin_energy_lim. Qed.
Theorem C08_energy_limit_rect : forall A phi off : R,
  is_lim_seq (fun N => rect_amplitude ROps A phi off 0 ^ 2
                       + sum_n_m (fun n => rect_amplitude ROps A phi off (Z.of_nat n) ^ 2 / 2) 1 N) (A ^ 2 + off ^ 2).
Proof. exact rect_energy_lim. Qed.
Theorem C08_energy_limit_tri : forall A phi off : R,
  is_lim_seq (fun N => tri_amplitude ROps A phi off 0 ^ 2
                       + sum_n_m (fun n => tri_amplitude ROps A phi off (Z.of_nat n) ^ 2 / 2) 1 N) (A ^ 2 / 3 + off ^ 2).
Proof. exact tri_energy_lim. Qed.
Theorem C08_energy_limit_saw : forall A phi off : R,
  is_lim_seq (fun N => saw_amplitude ROps A phi off 0 ^ 2
                       + sum_n_m (fun n => saw_amplitude ROps A phi off (Z.of_nat n) ^ 2 / 2) 1 N) (A ^ 2 / 3 + off ^ 2).
Proof. exact saw_energy_lim. Qed.
Print Assumptions C08_energy_limit_const. Print Assumptions C08_energy_limit_cos. Print Assumptions C08_energy_limit_sin.
Print Assumptions C08_energy_limit_rect. Print Assumptions C08_energy_limit_tri. Print Assumptions C08_energy_limit_saw.

(* ---- (3) mean-square convergence + Parseval ([mean_square_series]: every squared error integrable, error -> 0,
   f^2 integrable, energy -> (1/T) int f^2), wave by wave, for the translated time and coefficient functions ---- *)
Theorem C08_parseval_const : forall A phi off T : R, 0 < T ->
  mean_square_series T (const_time ROps T A phi off) (const_amplitude ROps A phi off) (const_phase ROps A phi off).
Proof. exact const_parseval. Qed.
Theorem C08_parseval_cos : forall A phi off T : R, 0 < T ->
  mean_square_series T (cos_time ROps T A phi off) (cos_amplitude ROps A phi off) (cos_phase ROps A phi off).
Proof. exact cos_parseval. Qed.
Theorem C08_parseval_sin : forall A phi off T : R, 0 < T ->
  mean_square_series T (sin_time ROps T A phi off) (sin_amplitude ROps A phi off) (sin_phase ROps A phi off).
Proof. exact sin_parseval. Qed.
Theorem C08_parseval_rect : forall A phi off T : R, 0 < T ->
  mean_square_series T (rect_time ROps T A phi off) (rect_amplitude ROps A phi off) (rect_phase ROps A phi off).
Proof. exact rect_parseval. Qed.
Theorem C08_parseval_tri : forall A phi off T : R, 0 < T ->
  mean_square_series T (tri_time ROps T A phi off) (tri_amplitude ROps A phi off) (tri_phase ROps A phi off).
Proof. exact tri_parseval. Qed.
Theorem C08_parseval_saw : forall A phi off T : R, 0 < T ->
  mean_square_series T (saw_time ROps T A phi off) (saw_amplitude ROps A phi off) (saw_phase ROps A phi off).
Proof. exact saw_parseval. Qed.
Print Assumptions C08_parseval_const. Print Assumptions C08_parseval_cos. Print Assumptions C08_parseval_sin.
Print Assumptions C08_parseval_rect. Print Assumptions C08_parseval_tri. Print Assumptions C08_parseval_saw.

(* ---- (4) the full clause, through the tables and the API-level amplitude / phase: C08_parseval_full of C08.v ---- *)
Theorem C08_parseval :
  forall (i : N) (T A phi off : R) (f : R -> R -> R -> R -> R -> R) (h : harmonics ROps),
  0 < T -> time_function ROps i = Some f -> fourier_series ROps i T A phi off = POk h ->
  mean_square_series T (f T A phi off) (amplitude ROps h) (phase ROps h).
Proof. exact parseval_all. Qed.
Print Assumptions C08_parseval.

Theorem C08_parseval_full_holds : CC.Properties.C08.C08_parseval_full.
Proof. exact parseval_all. Qed.
Print Assumptions C08_parseval_full_holds.

(* the two limits spelled out, with the value of the mean square (table [wave_ms] of FourierBessel.v:
   A^2 | A^2/2 + off^2 | A^2/2 + off^2 | A^2 + off^2 | A^2/3 + off^2 | A^2/3 + off^2 for const .. saw) *)
Theorem C08_parseval_explicit :
  forall (i : N) (T A phi off : R) (f : R -> R -> R -> R -> R -> R) (h : harmonics ROps),
  0 < T -> time_function ROps i = Some f -> fourier_series ROps i T A phi off = POk h ->
  is_lim_seq (fun N => RInt (fun t => (f T A phi off t - partial_sum T (amplitude ROps h) (phase ROps h) N t) ^ 2) 0 T) 0 /\
  is_lim_seq (fun N => amplitude ROps h 0 ^ 2 + sum_n_m (fun n => amplitude ROps h (Z.of_nat n) ^ 2 / 2) 1 N)
    (RInt (fun t => f T A phi off t ^ 2) 0 T / T) /\
  RInt (fun t => f T A phi off t ^ 2) 0 T / T = wave_ms i A phi off.
Proof. exact parseval_explicit. Qed.
Print Assumptions C08_parseval_explicit.

(* ---- concrete instances (non-vacuity) ---- *)
(* the hypotheses of C08_parseval are satisfiable: the dispatch of C08_ex_dispatch (rect, period 2, phase 1/3, offset 1/7) *)
Example C08_ex_parseval_api :
  mean_square_series 2 (rect_time ROps 2 1 (1 / 3) (1 / 7))
    (amplitude ROps {| amp_coeff := rect_amplitude ROps 1 (1 / 3) (1 / 7); ph_coeff := rect_phase ROps 1 (1 / 3) (1 / 7) |})
    (phase ROps {| amp_coeff := rect_amplitude ROps 1 (1 / 3) (1 / 7); ph_coeff := rect_phase ROps 1 (1 / 3) (1 / 7) |}).
Proof. exact (parseval_all 3 2 1 (1 / 3) (1 / 7) (rect_time ROps) _ ltac:(lra) eq_refl eq_refl). Qed.
(* the rectangle of period 2, amplitude 1: the squared error of the truncated series tends to 0, and
   8/pi^2 (1 + 1/9 + 1/25 + ...) = 1 *)
Example C08_ex_rect_error_limit :
  is_lim_seq (fun N => RInt (fun t => (rect_time ROps 2 1 0 0 t
      - partial_sum 2 (rect_amplitude ROps 1 0 0) (rect_phase ROps 1 0 0) N t) ^ 2) 0 2) 0.
Proof. exact ex_rect_error_lim. Qed.
Example C08_ex_rect_energy_limit :
  is_lim_seq (fun N => sum_n_m (fun n => rect_amplitude ROps 1 0 0 (Z.of_nat n) ^ 2 / 2) 1 N) 1.
Proof. exact ex_rect_energy_lim. Qed.
