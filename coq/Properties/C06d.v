(* C06 (continued) — Network/equivalent_sources.py (TheveninEquivalentSource, NortenEquivalentSource) as REGENERATED on every
   run (Gen/PortGen.v, produced by tools/gen_loaders.py in the vocabulary of Model/PortPrims.v), in terms of the port
   functions of Model/Port.v that C06_thevenin_model / C06_norton_model are about: U = open_circuit_voltage,
   Z = open_circuit_impedance, I = U / Z = short_circuit_current, Y = 1 / Z.  An edit (I = -U*Y, Y = Z, U and Z exchanged,
   another port function called, the nodes exchanged) changes Gen/PortGen.v and breaks an equality below, or is refused.
   [pyv]: PyInt z = a Python int, PyNp (Some x) = a numpy number, PyNp None = non-finite (inf / nan).
   Not covered: Circuit/impedance.py (the frequency sweep over transform_circuit) and Circuit/state_space_model.py.
   Statements only; proofs are in Theory/PortGenThm.v. *)
From Coq Require Import List Bool NArith ZArith QArith Qcanon.
From CC Require Import Theory.Field Theory.Complex Model.Network Model.Transformers Model.Port Model.Loaders Model.PortPrims
  Gen.PortGen Theory.PortGenThm Properties.C06.
Import ListNotations.

Theorem C06d_thevenin : forall (K : fops) (n : network K) (a b : label),
  g_TheveninEquivalentSource_init K n a b
  = bind (open_circuit_voltage n a b) (fun v =>
    bind (open_circuit_impedance n a b) (fun oz =>
    Ok {| TheveninEquivalentSource_U := if label_eqb a b then PyInt 0 else PyNp (Some v);
          TheveninEquivalentSource_Z := if label_eqb a b || ideal_source_between n a b then PyInt 0 else PyNp oz |})).
Proof. exact gen_thevenin_eq. Qed.
Theorem C06d_thevenin_port : forall (K : fops) (n : network K) (a b : label) (t : g_TheveninEquivalentSource K),
  label_eqb a b = false -> ideal_source_between n a b = false -> g_TheveninEquivalentSource_init K n a b = Ok t ->
  exists v oz, open_circuit_voltage n a b = Ok v /\ open_circuit_impedance n a b = Ok oz
               /\ TheveninEquivalentSource_U K t = PyNp (Some v) /\ TheveninEquivalentSource_Z K t = PyNp oz.
Proof. exact gen_thevenin_port. Qed.
Theorem C06d_norton : forall (K : fops) (n : network K) (a b : label) (v : K) (oz : option K),
  open_circuit_voltage n a b = Ok v -> open_circuit_impedance n a b = Ok oz ->
  g_NortenEquivalentSource_init K n a b
  = if label_eqb a b || ideal_source_between n a b then Err EZeroDivision
    else Ok {| NortenEquivalentSource_I := PyNp (np_div K (Some v) oz);
               NortenEquivalentSource_Y := PyNp (np_div K (Some (f1 K)) oz) |}.
Proof. exact gen_norton_eq. Qed.
(* the Norton current IS short_circuit_current (hence, by C06_norton_model, the current through a short across the port) *)
Theorem C06d_norton_port : forall (K : fops) (n : network K) (a b : label) (t : g_NortenEquivalentSource K),
  label_eqb a b = false -> ideal_source_between n a b = false -> g_NortenEquivalentSource_init K n a b = Ok t ->
  exists v oz, open_circuit_voltage n a b = Ok v /\ open_circuit_impedance n a b = Ok oz
    /\ short_circuit_current n a b = Ok (as_np K (NortenEquivalentSource_I K t))
    /\ NortenEquivalentSource_Y K t = PyNp (np_div K (Some (f1 K)) oz).
Proof. exact gen_norton_port. Qed.
Theorem C06d_norton_Y : forall (K : fops) (n : network K) (a b : label) (t : g_NortenEquivalentSource K) (z : K),
  label_eqb a b = false -> ideal_source_between n a b = false -> g_NortenEquivalentSource_init K n a b = Ok t ->
  open_circuit_impedance n a b = Ok (Some z) -> feqb K z (f0 K) = false ->
  NortenEquivalentSource_Y K t = PyNp (Some (fdiv K (f1 K) z)).
Proof. exact gen_norton_Y. Qed.
Print Assumptions C06d_thevenin. Print Assumptions C06d_thevenin_port. Print Assumptions C06d_norton.
Print Assumptions C06d_norton_port. Print Assumptions C06d_norton_Y.

(* examples over CQ: the divider of C06 (10 V ideal 1-0, R1 = 10 (1-2), R2 = 20 (2-0)), port 2-0: Voc = 20/3, Zth = 20/3,
   I = 1, Y = 3/20; identical nodes and the port across the ideal source raise ZeroDivisionError *)
Definition pyv_eqb (a b : pyv CQ) : bool :=
  match a, b with
  | PyInt x, PyInt y => Z.eqb x y
  | PyNp (Some x), PyNp (Some y) => feqb CQ x y
  | PyNp None, PyNp None => true
  | _, _ => false
  end.
Example C06d_ex_divider :
  match g_TheveninEquivalentSource_init CQ divider n2 n0 with
  | Ok t => pyv_eqb (TheveninEquivalentSource_U CQ t) (PyNp (Some (q 20 3))) && pyv_eqb (TheveninEquivalentSource_Z CQ t) (PyNp (Some (q 20 3)))
  | Err _ => false
  end = true
  /\ match g_NortenEquivalentSource_init CQ divider n2 n0 with
     | Ok t => pyv_eqb (NortenEquivalentSource_I CQ t) (PyNp (Some (q 1 1))) && pyv_eqb (NortenEquivalentSource_Y CQ t) (PyNp (Some (q 3 20)))
     | Err _ => false
     end = true
  /\ match g_NortenEquivalentSource_init CQ divider n2 n2 with Err EZeroDivision => true | _ => false end = true
  /\ match g_NortenEquivalentSource_init CQ divider n1 n0 with Err EZeroDivision => true | _ => false end = true
  /\ label_eqb n2 n0 = false /\ ideal_source_between divider n2 n0 = false.
Proof. vm_compute. repeat split. Qed.
