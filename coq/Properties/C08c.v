(* C08 (continued) — the generic methods AbstractHarmonicCoefficients.{amplitude, phase, a, b, c} and the lookup
   periodic_function, as REGENERATED on every run from SignalProcessing/periodic_functions.py (Gen/Periodic.v, produced by
   tools/gen_periodic.py), are the hand-written definitions of Model/Harmonics.v the C08 theorems are stated about.
   (Before, their source text was pinned by the translator; now an algebraically identical rewrite of these methods —
   e.g. merging the two branches of c(n), or a loop with early return in periodic_function — still translates and these
   equalities still hold, while a changed sign, argument or test breaks one of them.)
   Statements only; proofs are in Theory/PeriodicGenThm.v.  Generic in the record of real operations [O] and in the instance
   [h] of a harmonics class (its two abstract methods); complex numbers are pairs (re, im). *)
From Coq Require Import QArith.
From Coq Require Import ZArith NArith List Bool.
From CC Require Import Model.Network Model.Rops Model.RopsQ Gen.Periodic Model.Harmonics Theory.PeriodicGenThm.
Import ListNotations.

Theorem C08c_amplitude : forall (O : rops) (h : harmonics O) (n : Z),
  abstract_amplitude O (amp_coeff O h) (ph_coeff O h) n = amplitude O h n.
Proof. exact eq_amplitude. Qed.
Print Assumptions C08c_amplitude.

Theorem C08c_phase : forall (O : rops) (h : harmonics O) (n : Z),
  abstract_phase O (amp_coeff O h) (ph_coeff O h) n = phase O h n.
Proof. exact eq_phase. Qed.
Print Assumptions C08c_phase.

Theorem C08c_a : forall (O : rops) (h : harmonics O) (n : Z),
  abstract_a O (amp_coeff O h) (ph_coeff O h) n = coef_a O h n.
Proof. exact eq_a. Qed.
Print Assumptions C08c_a.

Theorem C08c_b : forall (O : rops) (h : harmonics O) (n : Z),
  abstract_b O (amp_coeff O h) (ph_coeff O h) n = coef_b O h n.
Proof. exact eq_b. Qed.
Print Assumptions C08c_b.

Theorem C08c_c : forall (O : rops) (h : harmonics O) (n : Z),
  abstract_c O (amp_coeff O h) (ph_coeff O h) n = coef_c O h n.
Proof. exact eq_c. Qed.
Print Assumptions C08c_c.

(* periodic_function: inl <class index> for a listed wavetype, inr <name of the exception class> otherwise — the model's
   POk / PErr EUnknownWavetype *)
Theorem C08c_periodic_function : forall name : label,
  lookup_periodic_function name =
  match periodic_function name with
  | POk i => inl i
  | PErr EUnknownWavetype => inr [85; 110; 107; 110; 111; 119; 110; 87; 97; 118; 101; 116; 121; 112; 101]%N
  | PErr ETransformationError =>
      inr [84; 114; 97; 110; 115; 102; 111; 114; 109; 97; 116; 105; 111; 110; 69; 114; 114; 111; 114]%N
  end.
Proof. exact eq_periodic_function. Qed.
Print Assumptions C08c_periodic_function.

(* ---- non-vacuity: the regenerated methods compute (over Q, pi := the double np.pi) on the rectangle harmonics ---- *)
Definition ex_h : harmonics QOps :=
  {| amp_coeff := rect_amplitude QOps 1 (1 # 3) (1 # 7); ph_coeff := rect_phase QOps 1 (1 # 3) (1 # 7) |}.
Example C08c_ex_values :
  abstract_amplitude QOps (amp_coeff QOps ex_h) (ph_coeff QOps ex_h) (-3) = Qred (4 / 3 / qpi) /\
  abstract_amplitude QOps (amp_coeff QOps ex_h) (ph_coeff QOps ex_h) 0 = (1 # 7)%Q /\
  abstract_phase QOps (amp_coeff QOps ex_h) (ph_coeff QOps ex_h) (-1) = Qred (- (- qpi / 2 + 1 * (1 # 3))) /\
  abstract_c QOps (amp_coeff QOps ex_h) (ph_coeff QOps ex_h) (-1) = coef_c QOps ex_h (-1) /\
  abstract_b QOps (amp_coeff QOps ex_h) (ph_coeff QOps ex_h) 1 = coef_b QOps ex_h 1 /\
  fst (abstract_c QOps (amp_coeff QOps ex_h) (ph_coeff QOps ex_h) (-1)) <> 0%Q /\
  snd (abstract_c QOps (amp_coeff QOps ex_h) (ph_coeff QOps ex_h) 1) <> 0%Q.
Proof. vm_compute. repeat split; discriminate. Qed.
Example C08c_ex_lookup :
  lookup_periodic_function [114; 101; 99; 116]%N = inl 3%N /\
  lookup_periodic_function [114; 101; 99]%N = inr codes_UnknownWavetype /\
  lookup_periodic_function [] = inr codes_UnknownWavetype.
Proof. vm_compute. repeat split. Qed.
