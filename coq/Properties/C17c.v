(* C17 (continued) — the FUNCTION BODIES of Network/loaders.py (to_complex, translate_to_complex, load_network and its inner
   entry_to_branch), dump_load.py (dictify_/undictify_complex_values, dictify_all_/undictify_all_complex_values, the format tables,
   serialize / deserialize / dump / load) and Circuit/dump_load.py (generate_component, undictify_circuit, dictify_circuit, the
   functools.partial entry points) as REGENERATED on every run (Gen/LoadersGen.v, produced by tools/gen_loaders.py in the
   vocabulary of Model/LoadersPrims.v) are the hand-written model Model/Loaders.v.  With this the C17 statements are about
   definitions read from the source: an edit (`pop` -> subscript, degrees not converted, abs / phase swapped, the copy
   `dict(entry)` dropped, recursion into lists dropped, a format missing, another exception class, ...) changes
   Gen/LoadersGen.v and breaks an equality below, or is refused by the translator.
   [covers h g] : wherever the hand model h claims a Python behaviour (any answer but EOther = outside the modelled domain)
   the regenerated g gives the same answer.  State-passing definitions return (result, post-state of their argument).
   Statements only; proofs are in Theory/LoadersGenThm.v. *)
From Coq Require Import List Bool ZArith NArith QArith Qcanon String Permutation.
From CC Require Import Theory.Field Theory.Complex Theory.Labels Model.Network Gen.Tables Model.Circuit Model.RunCircuit
  Model.Loaders Theory.LoadersThm Model.LoadersPrims Gen.LoadersGen Theory.LoadersGenThm Properties.C17.
Import ListNotations.

(* ================= A. Network/loaders.py: the regenerated functions are the model ================= *)
Theorem C17c_to_complex : forall (R : fops) (pi : R) (cis : R -> R * R) (deg : bool) (z : jval R),
  covers (rmap (fun c => JCplx c) (to_complex R pi cis deg z)) (g_to_complex R pi cis z deg).
Proof. exact gen_to_complex_covers. Qed.
(* the default of `degree` read from the source *)
Theorem C17c_to_complex_default : g_to_complex_default_degree = false.
Proof. reflexivity. Qed.
(* full statement (equality everywhere): FALSE where the hand model answers EOther although the code has a definite
   behaviour, e.g. a complex phase with no 'abs' key (the code raises FileFormatError; refuted below) *)
Definition C17c_to_complex_full : Prop := forall (R : fops) (pi : R) (cis : R -> R * R) (deg : bool) (z : jval R),
  g_to_complex R pi cis z deg = rmap (fun c => JCplx c) (to_complex R pi cis deg z).
Theorem C17c_to_complex_full_refuted : ~ C17c_to_complex_full.
Proof. exact to_complex_full_refuted. Qed.
Print Assumptions C17c_to_complex_full_refuted.
Theorem C17c_entry_to_branch : forall (R : fops) (pi : R) (cis : R -> R * R) (e : jval R),
  g_load_network__entry_to_branch R pi cis e = entry_to_branch_st R pi cis true e.
Proof. exact gen_entry_to_branch_eq. Qed.
Theorem C17c_load_network : forall (R : fops) (pi : R) (cis : R -> R * R) (d : jval R),
  g_load_network R pi cis d = load_network_st R pi cis d.
Proof. exact gen_load_network_eq. Qed.
(* translate_to_complex(keys, **kwargs): key after key, kwargs[key] is replaced IN PLACE by its conversion (the reading
   "like pop + pass" on which gen_tables.py bases the row of linear_current_source: the same keyword set, in another order) *)
Theorem C17c_translate_to_complex : forall (R : fops) (pi : R) (cis : R -> R * R) (k : label) (keys : list label) (kw : dict (jval R)),
  g_translate_to_complex R pi cis [] kw = Ok (JDict kw)
  /\ g_translate_to_complex R pi cis (k :: keys) kw
     = match dget kw k with
       | None => Err EKeyError
       | Some v => bind (g_to_complex R pi cis v false) (fun c => g_translate_to_complex R pi cis keys (dset kw k c))
       end.
Proof. exact gen_translate_to_complex_step. Qed.
(* ... and that reading is right: for distinct keys and a dictionary (distinct keys) the constructor called on the dictionary
   translate_to_complex returns answers as the row  conv = [(k, k, popped, converted) | k in keys], rest = true  does *)
Theorem C17c_translate_to_complex_row : forall (R : fops) (pi : R) (cis : R -> R * R) (t ctor : label) (keys : list label)
  (kw : dict (jval R)), NoDup keys -> NoDup (dkeys kw) ->
  covers (call_translator R pi cis {| l_type := t; l_ctor := ctor; l_conv := map (fun k => (k, k, true, true)) keys; l_rest := true |} kw)
         (bind (g_translate_to_complex R pi cis keys kw) (fun kw' => bind (py_kwargs R kw') (call_element_ctor R ctor))).
Proof. exact gen_translate_to_complex_row. Qed.
(* the one row of network_branch_translators that goes through translate_to_complex has this form *)
Example C17c_translate_row_in_table :
  find_lentry (lbl "linear_current_source")
  = Some {| l_type := lbl "linear_current_source"; l_ctor := lbl "current_source";
            l_conv := map (fun k => (k, k, true, true)) [s_I; s_Y]; l_rest := true |}%string.
Proof. vm_compute. reflexivity. Qed.
Print Assumptions C17c_translate_to_complex_row.
Print Assumptions C17c_to_complex.
Print Assumptions C17c_entry_to_branch.
Print Assumptions C17c_load_network.
Print Assumptions C17c_translate_to_complex.

(* ================= B. dump_load.py ================= *)
(* undictify_complex_values(data): rewrites the values of data in place (item order), returns data; result and post-state *)
Theorem C17c_undictify_complex_values : forall (R : fops) (leb : R -> R -> bool) (pi : R) (cis : R -> R * R) (x : jval R),
  g_undictify_complex_values R leb pi cis x
  = match x with
    | JDict d => let '(r, d') := undictify_values_st R leb pi cis d in (rmap (fun y => JDict y) r, JDict d')
    | _ => (Err EAttribute, x)
    end.
Proof. exact gen_undictify_complex_values_eq. Qed.
(* dictify_complex_values(data) (not in Model/Loaders.v): top-level complex values become {real, imag} in place *)
Theorem C17c_dictify_complex_values : forall (R : fops) (x : jval R),
  g_dictify_complex_values R x
  = match x with
    | JDict d => (Ok (JDict (dictify_values R d)), JDict (dictify_values R d))
    | _ => (Err EAttribute, x)
    end.
Proof. exact gen_dictify_complex_values_eq. Qed.
Theorem C17c_dictify_all : forall (R : fops) (t : jval R), g_dictify_all_complex_values R t = Ok (dictify_all R t).
Proof. exact gen_dictify_all_eq. Qed.
Theorem C17c_undictify_all : forall (R : fops) (leb : R -> R -> bool) (pi : R) (cis : R -> R * R) (t : jval R),
  g_undictify_all_complex_values R leb pi cis t = undictify_all R leb pi cis t.
Proof. exact gen_undictify_all_eq. Qed.
(* the inner recursive `convert` functions (dictionaries AND lists at every depth) *)
Theorem C17c_convert : forall (R : fops) (leb : R -> R -> bool) (pi : R) (cis : R -> R * R) (t : jval R),
  g_dictify_all_complex_values__convert R t = Ok (dictify_all R t)
  /\ g_undictify_all_complex_values__convert R leb pi cis t = undict_conv R leb pi cis t.
Proof. exact t_convert. Qed.
(* the format tables: json, yaml, yml in both directions, nothing else *)
Theorem C17c_format_tables : g_serializers = expected_formats /\ g_deserializers = expected_formats.
Proof. exact gen_format_tables. Qed.
(* serialize / deserialize: unknown format -> ValueError BEFORE the data are processed; else processor then codec
   (resp. codec then processor).  [dumps] / [loads]: the text layer (json / yaml), not modelled *)
Theorem C17c_serialize : forall (R : fops) (T : Type) (dumps : textfmt -> jval R -> res T) (data : jval R) (f : label)
  (proc : jval R -> res (jval R)),
  g_serialize R dumps data f proc
  = match tfind_fmt f expected_formats with None => Err EValue | Some c => bind (proc data) (dumps c) end.
Proof. exact (@gen_serialize_spec). Qed.
Theorem C17c_deserialize : forall (R : fops) (T X : Type) (loads : textfmt -> T -> res (jval R)) (text : T) (f : label)
  (proc : jval R -> res X),
  g_deserialize R loads text f proc
  = match tfind_fmt f expected_formats with None => Err EValue | Some c => bind (loads c text) proc end.
Proof. exact (@gen_deserialize_spec). Qed.
(* with a text layer that reads back what it wrote: deserialize (serialize x) = undictify_all (dictify_all x), default processors *)
Theorem C17c_serialize_roundtrip : forall (R : fops) (leb : R -> R -> bool) (pi : R) (cis : R -> R * R) (T : Type)
  (dumps : textfmt -> jval R -> res T) (loads : textfmt -> T -> res (jval R)) (x : jval R) (f : label) (t : T),
  (forall c d t, dumps c d = Ok t -> loads c t = Ok d) ->
  g_serialize R dumps x f (g_serialize_default_dict_processor R) = Ok t ->
  g_deserialize R loads t f (g_deserialize_default_dict_preprocessor R leb pi cis) = undictify_all R leb pi cis (dictify_all R x).
Proof. exact (@gen_serialize_roundtrip). Qed.
Theorem C17c_dump_load : forall (R : fops) (T X : Type) (suffix_of : label -> label) (file : label) (data : jval R)
  (dump_fcn : jval R -> label -> res T) (de : T -> label -> res X) (w : label * T),
  g_dump R suffix_of file data dump_fcn = Ok w ->
  fst w = file /\ dump_fcn data (suffix_of file) = Ok (snd w)
  /\ g_load suffix_of (fun n => if label_eqb n (fst w) then Ok (snd w) else Err EOther) file de = de (snd w) (suffix_of file).
Proof. exact (@gen_dump_load). Qed.
Print Assumptions C17c_undictify_complex_values.
Print Assumptions C17c_dictify_all.
Print Assumptions C17c_undictify_all.
Print Assumptions C17c_serialize_roundtrip.

(* ================= C. Circuit/dump_load.py ================= *)
Theorem C17c_generate_component : forall (R : fops) (leb : R -> R -> bool) (d : dict (jval R)),
  g_generate_component R leb (JDict d) = generate_component_st R leb (JDict d).
Proof. exact gen_generate_component_eq. Qed.
Theorem C17c_generate_component_covers : forall (R : fops) (leb : R -> R -> bool) (x : jval R),
  covers (generate_component R leb x) (fst (g_generate_component R leb x)).
Proof. exact gen_generate_component_covers. Qed.
Theorem C17c_undictify_circuit : forall (R : fops) (leb : R -> R -> bool) (x : jval R),
  covers (undictify_circuit R leb x) (g_undictify_circuit R leb x).
Proof. exact gen_undictify_circuit_covers. Qed.
Theorem C17c_dictify_circuit : forall (R : fops) (c : list (lcomp R) * label),
  g_dictify_circuit R c = Ok (JDict [(s_components, JList (map (asdict_lcomp R) (fst c)))]).
Proof. exact gen_dictify_circuit_eq. Qed.
Theorem C17c_circuit_entry_points : g_circuit_entry_points = expected_circuit_entry_points.
Proof. exact gen_circuit_entry_points. Qed.
Print Assumptions C17c_generate_component.
Print Assumptions C17c_undictify_circuit.

(* ================= D. the C17 statements, about the regenerated definitions ================= *)
Theorem C17c_cartesian : forall (R : fops) (pi : R) (cis : R -> R * R) (deg : bool) (d : dict (jval R)) (a b : R),
  dget d s_real = Some (JNum a) -> dget d s_imag = Some (JNum b) -> g_to_complex R pi cis (JDict d) deg = Ok (JCplx ((a, b) : Cx R)).
Proof. exact t_cartesian. Qed.
Theorem C17c_polar : forall (R : fops) (pi : R) (cis : R -> R * R) (d : dict (jval R)) (r ph c s : R),
  (dget d s_real = None \/ dget d s_imag = None) ->
  dget d s_abs = Some (JNum r) -> dget d s_phase = Some (JNum ph) -> cis ph = (c, s) ->
  g_to_complex R pi cis (JDict d) false = Ok (JCplx ((fmul R r c, fmul R r s) : Cx R)).
Proof. exact t_polar. Qed.
Theorem C17c_polar_degree : forall (R : fops) (pi : R) (cis : R -> R * R) (d : dict (jval R)) (r ph c s : R),
  (dget d s_real = None \/ dget d s_imag = None) ->
  dget d s_abs = Some (JNum r) -> dget d s_phase = Some (JNum ph) -> cis (fdiv R (fmul R ph pi) (ofZ R 180)) = (c, s) ->
  g_to_complex R pi cis (JDict d) true = Ok (JCplx ((fmul R r c, fmul R r s) : Cx R)).
Proof. exact t_polar_degree. Qed.
Theorem C17c_notations_agree : forall (R : fops) (pi : R) (cis : R -> R * R) (r ph : R),
  let z : Cx R := (fmul R r (fst (cis ph)), fmul R r (snd (cis ph))) in
  g_to_complex R pi cis (JDict [(s_abs, JNum r); (s_phase, JNum ph)]) false = Ok (JCplx z)
  /\ g_to_complex R pi cis (JDict [(s_real, JNum (fst z)); (s_imag, JNum (snd z))]) false = Ok (JCplx z).
Proof. exact t_notations_agree. Qed.
Theorem C17c_notations_agree_degree : forall (R : fops) (pi : R) (cis : R -> R * R) (r ph : R),
  let th := fdiv R (fmul R ph pi) (ofZ R 180) in
  let z : Cx R := (fmul R r (fst (cis th)), fmul R r (snd (cis th))) in
  g_to_complex R pi cis (JDict [(s_abs, JNum r); (s_phase, JNum ph)]) true = Ok (JCplx z)
  /\ g_to_complex R pi cis (JDict [(s_real, JNum (fst z)); (s_imag, JNum (snd z))]) true = Ok (JCplx z).
Proof. exact t_notations_agree_degree. Qed.
(* a whole description of documented entries loads to exactly the listed branches (result of the regenerated loader) *)
Theorem C17c_each_kind_description : forall (R : fops) (pi : R) (cis : R -> R * R) (es : list (espec R)),
  (forall e, In e es -> espec_ok R e) ->
  fst (g_load_network R pi cis (JList (map (entry_doc R) es)))
  = validate {| branches := map (entry_branch R cis) es; zero := s_zero |}.
Proof. exact t_each_kind_description. Qed.
Theorem C17c_each_kind_description_any_order : forall (R : fops) (pi : R) (cis : R -> R * R) (es : list (espec R * dict (jval R))),
  (forall p, In p es -> espec_ok R (fst p) /\ Permutation (snd p) (entry_dict R (fst p))) ->
  fst (g_load_network R pi cis (JList (map (fun p => JDict (snd p)) es)))
  = validate {| branches := map (fun p => entry_branch R cis (fst p)) es; zero := s_zero |}.
Proof. exact t_each_kind_description_any_order. Qed.
(* nested documents: what dictify_all writes, undictify_all reads back (dictionaries and lists at every depth) *)
Theorem C17c_nested : forall (R : fops) (leb : R -> R -> bool) (pi : R) (cis : R -> R * R) (t : jval R), nocollb R t = true ->
  bind (g_dictify_all_complex_values__convert R t) (g_undictify_all_complex_values__convert R leb pi cis) = Ok t.
Proof. exact t_nested. Qed.
Theorem C17c_nested_document : forall (R : fops) (leb : R -> R -> bool) (pi : R) (cis : R -> R * R) (l : dict (jval R)),
  forallb (fun kv => nocollb R (snd kv)) l = true ->
  bind (g_dictify_all_complex_values R (JDict l)) (g_undictify_all_complex_values R leb pi cis) = Ok (JDict l).
Proof. exact t_nested_document. Qed.
Theorem C17c_dictify_no_complex : forall (R : fops) (t : jval R),
  exists t', g_dictify_all_complex_values R t = Ok t' /\ has_cplx R t' = false.
Proof. exact t_dictify_no_complex. Qed.
(* no mutation: the post-state of the description / entry / component handed to the regenerated loaders is the object given *)
Theorem C17c_no_mutation : forall (R : fops) (pi : R) (cis : R -> R * R) (d : jval R), snd (g_load_network R pi cis d) = d.
Proof. exact t_no_mutation. Qed.
Theorem C17c_entry_no_mutation : forall (R : fops) (pi : R) (cis : R -> R * R) (e : jval R),
  snd (g_load_network__entry_to_branch R pi cis e) = e.
Proof. exact t_entry_no_mutation. Qed.
Theorem C17c_twice : forall (R : fops) (pi : R) (cis : R -> R * R) (d : jval R),
  fst (g_load_network R pi cis (snd (g_load_network R pi cis d))) = fst (g_load_network R pi cis d).
Proof. exact t_twice. Qed.
Theorem C17c_component_no_mutation : forall (R : fops) (leb : R -> R -> bool) (x : jval R), snd (g_generate_component R leb x) = x.
Proof. exact gen_generate_component_no_mutation. Qed.
(* for the functions in which the translator found no mutating construct reaching the argument it emits f_st x = (f x, x) *)
Theorem C17c_no_mutation_others : forall (R : fops) (leb : R -> R -> bool) (pi : R) (cis : R -> R * R) (deg : bool) (d : jval R),
  snd (g_to_complex_st R pi cis d deg) = d /\ snd (g_dictify_all_complex_values_st R d) = d
  /\ snd (g_undictify_all_complex_values_st R leb pi cis d) = d /\ snd (g_undictify_circuit_st R leb d) = d.
Proof. exact t_no_mutation_others. Qed.
Print Assumptions C17c_cartesian.
Print Assumptions C17c_polar_degree.
Print Assumptions C17c_each_kind_description_any_order.
Print Assumptions C17c_nested_document.
Print Assumptions C17c_no_mutation.
Print Assumptions C17c_twice.
Print Assumptions C17c_component_no_mutation.

(* ================= examples over the Gaussian rationals (the regenerated definitions, executed) ================= *)
Example C17c_example_loads :
  is_ok (fst (g_load_network Qcops qpi qcis ex_description))
    (network_eqb {| branches := [Build_branch (lbl "1") (lbl "0") (voltage_source (lbl "U") (cq 6 1 8 1) (cq 0 1 0 1));
                                 Build_branch (lbl "1") (lbl "2") (resistor (lbl "R1") (cq 5 1 0 1));
                                 Build_branch (lbl "2") (lbl "0") (impedance (lbl "Z1") (cq 3 1 4 1))]%string;
                    zero := s_zero |}) = true
  /\ jval_eqb Qcops (snd (g_load_network Qcops qpi qcis ex_description)) ex_description = true.
Proof. vm_compute. split; reflexivity. Qed.
Example C17c_example_round_trip :
  forallb (fun kv => nocollb Qcops (snd kv)) ex_document = true
  /\ is_ok (bind (g_dictify_all_complex_values Qcops (JDict ex_document)) (g_undictify_all_complex_values Qcops Qc_leb qpi qcis))
           (jval_eqb Qcops (JDict ex_document)) = true
  /\ has_cplx Qcops (JDict ex_document) = true.
Proof. vm_compute. repeat split. Qed.
Example C17c_example_component :
  is_ok (fst (g_generate_component Qcops Qc_leb
           (JDict [(s_type, JStr (lbl "impedance")); (s_id, JStr (lbl "Z")); (s_nodes, JList [JStr (lbl "a"); JStr (lbl "b")]);
                   (s_value, JDict [(s_Z, JCplx (R := Qcops) (cq 3 1 4 1))])])))
        (lcomp_eqb Qcops {| lc_type := lbl "impedance"; lc_id := lbl "Z"; lc_nodes := [lbl "a"; lbl "b"];
                            lc_value := [(lbl "R", qn 3 1); (lbl "X", qn 4 1)] |}) = true%string.
Proof. vm_compute. reflexivity. Qed.
(* translate_to_complex on the keyword arguments of a linear_current_source: I and Y converted where they stand *)
Example C17c_example_translate :
  is_ok (g_translate_to_complex Qcops qpi qcis [s_I; s_Y]
           [(s_name, JStr (lbl "I1")); (s_Y, JDict [(s_real, qn 1 2); (s_imag, qn 0 1)]); (s_I, JDict [(s_abs, qn 10 1); (s_phase, qn 1 2)])])
        (jval_eqb Qcops (JDict [(s_name, JStr (lbl "I1")); (s_Y, JCplx (R := Qcops) (cq 1 2 0 1)); (s_I, JCplx (R := Qcops) (cq 6 1 8 1))]))
  = true%string.
Proof. vm_compute. reflexivity. Qed.
