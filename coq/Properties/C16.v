(* placeholder: theorems follow *)
From CC Require Import Theory.Field Model.Network Model.Transformers.
Example C16_model_runs : True. Proof. exact I. Qed.
