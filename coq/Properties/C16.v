(* C16 — network simplifications are electrical identities.
   Statements only; every proof is [exact <lemma>] (lemmas: Theory/Simplify.v, Theory/WellPosedCheck.v).
   Model: Model/Transformers.v (mirror of Network/transformers.py).  The model is purely functional, so "the
   input network is never modified" holds by construction: every operation returns a new [network] value.

   Flows are indexed by branch identifier: [CircuitSpecId n phi ji] is [CircuitSpec n phi (fun b => ji (bid b))];
   with pairwise distinct identifiers this is the same as branch-indexed flows (C16_flows_by_id). *)
From Coq Require Import List Bool ZArith NArith.
From CC Require Import Theory.Field Theory.Complex Theory.Labels Model.Network Model.Transformers Theory.Spec Theory.Mna
  Theory.MnaComplete Theory.Api Theory.Simplify Theory.WellPosedCheck.
Import ListNotations.

Theorem C16_flows_by_id : forall (K : fops) (n : network K) (phi : label -> K) (j : branch K -> K),
  NoDup (branch_ids n) -> CircuitSpec n phi j ->
  CircuitSpecId n phi (jv n j) /\ (forall b, In b (branches n) -> jv n j (bid b) = j b).
Proof. exact (fun K n phi j ND S => conj (spec_to_id K n phi j ND S) (fun b Hb => jv_In K n j b ND Hb)). Qed.
Print Assumptions C16_flows_by_id.

(* ====================== 1. only what the operation names changes ====================== *)

(* remove_open_circuit_elements: exactly the branches that are not open circuits, untouched, in order *)
Theorem C16_names_remove_open : forall (K : fops) (n n' : network K),
  remove_open_circuit_elements n = Ok n' ->
  branches n' = filter (fun b => negb (is_open_circuit (el b))) (branches n) /\ zero n' = zero n.
Proof. exact remove_open_names. Qed.
Print Assumptions C16_names_remove_open.

(* remove_element id: the input minus the branch with that identifier; KeyError when there is none *)
Theorem C16_names_remove_element : forall (K : fops) (KOK : fops_ok K) (n n' : network K) (id : label),
  NoDup (branch_ids n) -> remove_element n id = Ok n' ->
  In id (branch_ids n)
  /\ branches n' = filter (fun a => negb (label_eqb (bid a) id)) (branches n) /\ zero n' = zero n.
Proof. exact remove_element_names. Qed.
Print Assumptions C16_names_remove_element.

Theorem C16_names_remove_element_unknown : forall (K : fops) (n : network K) (id : label),
  ~ In id (branch_ids n) -> remove_element n id = Err EKeyError.
Proof. exact remove_element_unknown. Qed.
Print Assumptions C16_names_remove_element_unknown.

Theorem C16_names_switch_ground : forall (K : fops) (n n' : network K) (g : label),
  switch_ground_node n g = Ok n' -> branches n' = branches n /\ zero n' = g.
Proof. exact switch_ground_names. Qed.
Print Assumptions C16_names_switch_ground.

(* remove_short_circuit_elements: there is a node identification sigma such that the result is the input with
   both node fields of every branch mapped by sigma (same element, same orientation, same order) minus the
   branches whose two nodes were identified.  sigma fixes the reference node, merges only what the non-exempt
   short circuits of the input force to coincide (every node map constant along each of them is constant along
   sigma), merges the two nodes of every one of them, and no non-exempt short circuit is left. *)
Theorem C16_names_remove_short : forall (K : fops) (n n' : network K) (keep : list (elem K)),
  (forall b, In b (branches n) -> node1 b <> node2 b) ->
  remove_short_circuit_elements n keep = Ok n' ->
  exists sigma : label -> label,
    branches n' = filter (fun b => negb (label_eqb (node1 b) (node2 b)))
                         (map (fun b => Build_branch (sigma (node1 b)) (sigma (node2 b)) (el b)) (branches n))
    /\ zero n' = zero n /\ sigma (zero n) = zero n
    /\ (forall (X : Type) (f : label -> X),
          (forall sc, In sc (branches n) -> is_target keep sc = true -> f (node1 sc) = f (node2 sc)) ->
          forall l, f (sigma l) = f l)
    /\ (forall sc, In sc (branches n) -> is_target keep sc = true -> sigma (node1 sc) = sigma (node2 sc))
    /\ (forall b, In b (branches n') -> is_target keep b = false).
Proof. exact remove_short_names. Qed.
Print Assumptions C16_names_remove_short.

(* what that shape means branch by branch *)
Theorem C16_names_renamed_ids : forall (K : fops) (sigma : label -> label) (bs : list (branch K)),
  subseq (map bid (filter nonloop (map (rename sigma) bs))) (map bid bs).
Proof. exact renamed_ids_subseq. Qed.
Print Assumptions C16_names_renamed_ids.
Theorem C16_names_renamed_branch : forall (K : fops) (sigma : label -> label) (bs : list (branch K)) (b' : branch K),
  In b' (filter nonloop (map (rename sigma) bs)) ->
  exists b, In b bs /\ bid b' = bid b /\ el b' = el b /\ node1 b' = sigma (node1 b) /\ node2 b' = sigma (node2 b).
Proof. exact renamed_In. Qed.
Print Assumptions C16_names_renamed_branch.

(* source stripping: position by position same nodes and identifier; a selected branch (not exempt, a source
   of the kind) gets the element impedance(name, Z) resp. admittance(name, Y), every other one is identical *)
Theorem C16_names_short_circuitify : forall (K : fops) (n n' : network K) (keep : list (elem K)),
  short_circuitify_voltage_sources n keep = Ok n' ->
  zero n' = zero n
  /\ Forall2 (fun b b' => node1 b' = node1 b /\ node2 b' = node2 b /\ bid b' = bid b
                /\ (if negb (in_keep (el b) keep) && is_voltage_source (el b)
                    then el b' = impedance (bid b) (opt0 (eZ (el b))) else b' = b))
             (branches n) (branches n').
Proof. exact short_circuitify_names. Qed.
Print Assumptions C16_names_short_circuitify.
Theorem C16_names_open_circuitify : forall (K : fops) (n n' : network K) (keep : list (elem K)),
  open_circuitify_current_sources n keep = Ok n' ->
  zero n' = zero n
  /\ Forall2 (fun b b' => node1 b' = node1 b /\ node2 b' = node2 b /\ bid b' = bid b
                /\ (if negb (in_keep (el b) keep) && is_current_source (el b)
                    then el b' = admittance (bid b) (opt0 (eY (el b))) else b' = b))
             (branches n) (branches n').
Proof. exact open_circuitify_names. Qed.
Print Assumptions C16_names_open_circuitify.

(* the replacement element has the same admittance (also "infinite") and is not a source any more *)
Theorem C16_stripped_voltage_source : forall (K : fops) (KOK : fops_ok K) (e : elem K) (nm : label),
  is_voltage_source e = true ->
  eY (impedance nm (opt0 (eZ e))) = eY e /\ is_active (impedance nm (opt0 (eZ e))) = false.
Proof. exact zero_in_voltage_passive. Qed.
Print Assumptions C16_stripped_voltage_source.
Theorem C16_stripped_current_source : forall (K : fops) (KOK : fops_ok K) (e : elem K) (nm : label),
  is_current_source e = true ->
  eY (admittance nm (opt0 (eY e))) = eY e /\ is_active (admittance nm (opt0 (eY e))) = false.
Proof. exact zero_in_current_passive. Qed.
Print Assumptions C16_stripped_current_source.

(* the exemption list: membership is by value ... *)
Theorem C16_keep_is_membership : forall (K : fops) (KOK : fops_ok K) (keep : list (elem K)) (e : elem K),
  in_keep e keep = true <-> In e keep.
Proof. exact in_keep_spec. Qed.
Print Assumptions C16_keep_is_membership.
(* ... an exempt element is selected by no operation ... *)
Theorem C16_keep_exempt : forall (K : fops) (keep : list (elem K)) (b : branch K), in_keep (el b) keep = true ->
  is_target keep b = false
  /\ negb (in_keep (el b) keep) && is_voltage_source (el b) = false
  /\ negb (in_keep (el b) keep) && is_current_source (el b) = false.
Proof. exact keep_exempt. Qed.
Print Assumptions C16_keep_exempt.
(* ... is left identical by source stripping ... *)
Theorem C16_keep_short_circuitify : forall (K : fops) (n n' : network K) (keep : list (elem K)),
  short_circuitify_voltage_sources n keep = Ok n' ->
  Forall2 (fun b b' => in_keep (el b) keep = true \/ is_voltage_source (el b) = false -> b' = b) (branches n) (branches n').
Proof. exact short_circuitify_keep. Qed.
Print Assumptions C16_keep_short_circuitify.
Theorem C16_keep_open_circuitify : forall (K : fops) (n n' : network K) (keep : list (elem K)),
  open_circuitify_current_sources n keep = Ok n' ->
  Forall2 (fun b b' => in_keep (el b) keep = true \/ is_current_source (el b) = false -> b' = b) (branches n) (branches n').
Proof. exact open_circuitify_keep. Qed.
Print Assumptions C16_keep_open_circuitify.
(* ... and the short circuit contracted in an iteration of the loop is never an exempt one (the identification
   sigma of C16_names_remove_short is generated by the non-exempt ones only) *)
Theorem C16_keep_never_contracted : forall (K : fops) (keep : list (elem K)) (bs : list (branch K)) (sc : branch K),
  find (is_target keep) bs = Some sc -> In sc bs /\ is_short_circuit (el sc) = true /\ in_keep (el sc) keep = false.
Proof. exact rsc_selected_not_exempt. Qed.
Print Assumptions C16_keep_never_contracted.

(* identifiers: a subsequence of the input's (equal for source stripping), also for the composed operation *)
Theorem C16_ids_remove_short : forall (K : fops) (n n' : network K) (keep : list (elem K)),
  remove_short_circuit_elements n keep = Ok n' -> subseq (branch_ids n') (branch_ids n) /\ zero n' = zero n.
Proof. exact remove_short_ids. Qed.
Print Assumptions C16_ids_remove_short.
Theorem C16_ids_remove_open : forall (K : fops) (n n' : network K),
  remove_open_circuit_elements n = Ok n' -> subseq (branch_ids n') (branch_ids n) /\ zero n' = zero n.
Proof. exact remove_open_ids. Qed.
Print Assumptions C16_ids_remove_open.
Theorem C16_ids_short_circuitify : forall (K : fops) (n n' : network K) (keep : list (elem K)),
  short_circuitify_voltage_sources n keep = Ok n' -> branch_ids n' = branch_ids n /\ zero n' = zero n.
Proof. exact short_circuitify_ids. Qed.
Print Assumptions C16_ids_short_circuitify.
Theorem C16_ids_open_circuitify : forall (K : fops) (n n' : network K) (keep : list (elem K)),
  open_circuitify_current_sources n keep = Ok n' -> branch_ids n' = branch_ids n /\ zero n' = zero n.
Proof. exact open_circuitify_ids. Qed.
Print Assumptions C16_ids_open_circuitify.
Theorem C16_ids_passive_network : forall (K : fops) (n n' : network K) (keep : list (elem K)),
  passive_network n keep = Ok n' -> subseq (branch_ids n') (branch_ids n) /\ zero n' = zero n.
Proof. exact passive_network_ids. Qed.
Print Assumptions C16_ids_passive_network.

(* ====================== 2. removing open circuits ====================== *)
(* [drop_open n] = the branches of n that are not open circuits, same reference node (= the result, C16_names_remove_open) *)
Theorem C16_open_identity : forall (K : fops) (KOK : fops_ok K) (n : network K) (phi ji : label -> K),
  CircuitSpecId n phi ji -> CircuitSpecId (drop_open n) phi ji.
Proof. exact open_fwd. Qed.
Print Assumptions C16_open_identity.

(* conversely a solution of the reduced network, extended by 0 on the removed identifiers, solves n ... *)
Theorem C16_open_identity_converse : forall (K : fops) (KOK : fops_ok K) (n : network K) (phi ji : label -> K),
  NoDup (branch_ids n) -> CircuitSpecId (drop_open n) phi ji ->
  CircuitSpecId n phi (fun id => if lmem id (open_ids n) then f0 K else ji id).
Proof. exact open_bwd. Qed.
Print Assumptions C16_open_identity_converse.
(* ... and the extension changes nothing on a solution of n (its flow through an open circuit is 0) *)
Theorem C16_open_flow_zero : forall (K : fops) (KOK : fops_ok K) (n : network K) (phi ji : label -> K) (b : branch K),
  CircuitSpecId n phi ji -> In b (branches n) -> is_open_circuit (el b) = true -> ji (bid b) = f0 K.
Proof. exact open_flow_zero. Qed.
Print Assumptions C16_open_flow_zero.

Theorem C16_open_wellposed : forall (K : fops) (KOK : fops_ok K) (n : network K),
  NoDup (branch_ids n) -> WellPosed n -> WellPosed (drop_open n).
Proof. exact open_wp_fwd. Qed.
Print Assumptions C16_open_wellposed.
(* a node touched by open circuits only disappears (its potential is undetermined in n): the converse holds
   when every node keeps a branch that is not an open circuit *)
Theorem C16_open_wellposed_converse : forall (K : fops) (KOK : fops_ok K) (n : network K),
  NoDup (branch_ids n) -> (forall l, In l (node_labels n) -> In l (node_labels (drop_open n))) ->
  WellPosed (drop_open n) -> WellPosed n.
Proof. exact open_wp_bwd. Qed.
Print Assumptions C16_open_wellposed_converse.

Theorem C16_open_solution_agree : forall (K : fops) (KOK : fops_ok K) (n n' : network K) (x x' : list K),
  wf n -> WellPosed n' -> remove_open_circuit_elements n = Ok n' -> solves n x -> solves n' x' ->
  (forall l, In l (node_labels n') -> phi_of n x l = phi_of n' x' l)
  /\ (forall b b', In b (branches n) -> In b' (branches n') -> bid b = bid b' -> flow_of n x b = flow_of n' x' b').
Proof. exact open_solution_agree. Qed.
Print Assumptions C16_open_solution_agree.

Theorem C16_open_api_agree : forall (K : fops) (KOK : fops_ok K) (n n' : network K) (s s' : solution K),
  (forall b, In b (branches n) -> node1 b <> node2 b) -> WellPosed n' ->
  remove_open_circuit_elements n = Ok n' -> solve_network n = Ok s -> solve_network n' = Ok s' ->
  (forall l, In l (node_labels n') -> get_potential s l = get_potential s' l)
  /\ (forall b', In b' (branches n') ->
        get_voltage s (bid b') = get_voltage s' (bid b') /\ get_current s (bid b') = get_current s' (bid b')
        /\ get_power s (bid b') = get_power s' (bid b')).
Proof. exact open_api_agree. Qed.
Print Assumptions C16_open_api_agree.

(* ====================== 3. contracting short circuits ====================== *)
(* KCL after one contraction step (an absorbed into rn), for arbitrary flows *)
Theorem C16_contract_kcl : forall (K : fops) (KOK : fops_ok K) (an rn : label) (bs : list (branch K)) (ji : label -> K) (i : label),
  an <> rn ->
  kcl_sum (contract an rn bs) (fun b => ji (bid b)) i
  = if label_eqb i rn then fadd K (kcl_sum bs (fun b => ji (bid b)) an) (kcl_sum bs (fun b => ji (bid b)) rn)
    else if label_eqb i an then f0 K else kcl_sum bs (fun b => ji (bid b)) i.
Proof. exact kcl_contract. Qed.
Print Assumptions C16_contract_kcl.

(* one step: sc is an element with Z = 0 and V = 0 between an and rn (no further side condition) *)
Theorem C16_contract_identity : forall (K : fops) (KOK : fops_ok K) (bs : list (branch K)) (z : label)
  (phi ji : label -> K) (sc : branch K) (an rn : label),
  In sc bs -> eY (el sc) = None -> opt0 (eV (el sc)) = f0 K ->
  (an = node1 sc /\ rn = node2 sc) \/ (an = node2 sc /\ rn = node1 sc) ->
  CircuitSpecId {| branches := bs; zero := z |} phi ji ->
  CircuitSpecId {| branches := contract an rn bs; zero := z |} phi ji.
Proof. exact contract_identity. Qed.
Print Assumptions C16_contract_identity.

(* the whole operation, any number of short circuits, chained or sharing nodes, any exemption list *)
Theorem C16_short_identity : forall (K : fops) (KOK : fops_ok K) (n n' : network K) (keep : list (elem K))
  (phi ji : label -> K),
  CircuitSpecId n phi ji -> remove_short_circuit_elements n keep = Ok n' -> CircuitSpecId n' phi ji.
Proof. exact short_identity. Qed.
Print Assumptions C16_short_identity.

Theorem C16_short_wf : forall (K : fops) (n n' : network K) (keep : list (elem K)),
  wf n -> remove_short_circuit_elements n keep = Ok n' -> wf n'.
Proof. exact remove_short_wf. Qed.
Print Assumptions C16_short_wf.

(* model level: the two solution vectors give every surviving node and branch the same values *)
Theorem C16_short_solution_agree : forall (K : fops) (KOK : fops_ok K) (n n' : network K) (keep : list (elem K))
  (x x' : list K),
  wf n -> WellPosed n' -> remove_short_circuit_elements n keep = Ok n' -> solves n x -> solves n' x' ->
  (forall l, In l (node_labels n') -> phi_of n x l = phi_of n' x' l)
  /\ (forall b b', In b (branches n) -> In b' (branches n') -> bid b = bid b' -> flow_of n x b = flow_of n' x' b').
Proof. exact short_solution_agree. Qed.
Print Assumptions C16_short_solution_agree.

(* API level: potentials of the surviving nodes, voltage/current/power of the surviving branches *)
Theorem C16_short_api_agree : forall (K : fops) (KOK : fops_ok K) (n n' : network K) (keep : list (elem K))
  (s s' : solution K),
  (forall b, In b (branches n) -> node1 b <> node2 b) -> WellPosed n' ->
  remove_short_circuit_elements n keep = Ok n' -> solve_network n = Ok s -> solve_network n' = Ok s' ->
  (forall l, In l (node_labels n') -> get_potential s l = get_potential s' l)
  /\ (forall b', In b' (branches n') ->
        get_voltage s (bid b') = get_voltage s' (bid b') /\ get_current s (bid b') = get_current s' (bid b')
        /\ get_power s (bid b') = get_power s' (bid b')).
Proof. exact short_api_agree. Qed.
Print Assumptions C16_short_api_agree.

(* termination: a step removes at least the contracted short circuit, so more fuel than branches is enough
   for the loop to stop because no non-exempt short circuit is left *)
Theorem C16_contract_shorter : forall (K : fops) (an rn : label) (bs : list (branch K)) (sc : branch K),
  In sc bs -> (an = node1 sc /\ rn = node2 sc) \/ (an = node2 sc /\ rn = node1 sc) ->
  length (contract an rn bs) < length bs.
Proof. exact contract_shorter. Qed.
Print Assumptions C16_contract_shorter.
Theorem C16_short_fuel_suffices : forall (K : fops) (fuel : nat) (z : label) (keep : list (elem K)) (bs : list (branch K)),
  length bs < fuel -> forall b, In b (rsc_loop fuel z keep bs) -> is_target keep b = false.
Proof. exact rsc_loop_no_target. Qed.
Print Assumptions C16_short_fuel_suffices.
Theorem C16_short_none_left : forall (K : fops) (n n' : network K) (keep : list (elem K)),
  remove_short_circuit_elements n keep = Ok n' -> forall b, In b (branches n') -> is_target keep b = false.
Proof. exact remove_short_none_left. Qed.
Print Assumptions C16_short_none_left.

(* ====================== 4. well-posedness is preserved by contraction ====================== *)
(* one step; the converse direction of the identity is [contract_bwd] in Theory/Simplify.v: a solution of the
   contracted list lifts to the original one (potential of an := that of rn, flow of the short circuit from KCL at an) *)
Theorem C16_contract_wellposed : forall (K : fops) (KOK : fops_ok K) (bs : list (branch K)) (z : label) (sc : branch K)
  (an rn : label),
  NoDup (map bid bs) -> (forall b, In b bs -> node1 b <> node2 b) -> In sc bs -> eY (el sc) = None ->
  (an = node1 sc /\ rn = node2 sc) \/ (an = node2 sc /\ rn = node1 sc) -> an <> z -> opt0 (eV (el sc)) = f0 K ->
  WellPosed {| branches := bs; zero := z |} -> WellPosed {| branches := contract an rn bs; zero := z |}.
Proof. exact contract_wp. Qed.
Print Assumptions C16_contract_wellposed.

Definition C16_wellposed_full : Prop := forall (K : fops) (KOK : fops_ok K) (n n' : network K) (keep : list (elem K)),
  WellPosed n -> remove_short_circuit_elements n keep = Ok n' -> WellPosed n'.
(* proved for well-formed inputs (distinct identifiers — enforced by the Python constructor — and no branch
   from a node to itself), the standing assumption [wf] of the whole development *)
Theorem C16_wellposed_partial : forall (K : fops) (KOK : fops_ok K) (n n' : network K) (keep : list (elem K)),
  wf n -> WellPosed n -> remove_short_circuit_elements n keep = Ok n' -> WellPosed n'.
Proof. exact remove_short_wp. Qed.
Print Assumptions C16_wellposed_partial.

(* ====================== 5. switching the reference node ====================== *)
Theorem C16_switch_ground_identity : forall (K : fops) (KOK : fops_ok K) (n n' : network K) (g : label)
  (phi ji : label -> K),
  switch_ground_node n g = Ok n' -> CircuitSpecId n phi ji -> CircuitSpecId n' (fun l => fsub K (phi l) (phi g)) ji.
Proof. exact switch_ground_identity. Qed.
Print Assumptions C16_switch_ground_identity.
Theorem C16_switch_ground_wellposed : forall (K : fops) (KOK : fops_ok K) (n n' : network K) (g : label),
  switch_ground_node n g = Ok n' -> WellPosed n -> WellPosed n'.
Proof. exact switch_ground_wp. Qed.
Print Assumptions C16_switch_ground_wellposed.

(* a boolean certificate of [wf] and [WellPosed] for concrete networks (used below) *)
Theorem C16_wellposed_certificate : forall (K : fops) (KOK : fops_ok K) (n : network K),
  wellposedb n = true -> wf n /\ WellPosed n.
Proof. exact (fun K KOK n => wellposedb_ok KOK n). Qed.
Print Assumptions C16_wellposed_certificate.

(* ====================== non-vacuity ====================== *)
Definition L (z : Z) : label := [Z.to_N z].              (* one-character label *)
Definition Nm (a b : Z) : label := [Z.to_N a; Z.to_N b].  (* two-character label *)
Definition r (a b : Z) : CQ := cq a 1 b 1.

(* the tree of short circuits  S0: 2-0, S1: 1-2, S2: 3-2  (the former defect: the node pairs of S1, S2 go stale
   after S0 is contracted), a source V1: 4-0, R1: 4-1, Z2: 3-5, R3: 5-0, a current source I1: 0-5, and R4: 1-3
   which the contraction turns into a loop.  Nodes '0'..'5' are the code points 48..53. *)
Definition ex_tree : network CQ :=
  {| zero := L 48;
     branches := [ Build_branch (L 52) (L 48) (voltage_source (Nm 86 49) (r 5 0) (r 0 0));
                   Build_branch (L 52) (L 49) (resistor (Nm 82 49) (r 2 0));
                   Build_branch (L 50) (L 48) (short_circuit (Nm 83 48));
                   Build_branch (L 49) (L 50) (short_circuit (Nm 83 49));
                   Build_branch (L 51) (L 50) (short_circuit (Nm 83 50));
                   Build_branch (L 51) (L 53) (impedance (Nm 90 50) (r 3 4));
                   Build_branch (L 53) (L 48) (resistor (Nm 82 51) (r 1 0));
                   Build_branch (L 48) (L 53) (current_source (Nm 73 49) (r 1 0) (r 0 0));
                   Build_branch (L 49) (L 51) (resistor (Nm 82 52) (r 7 0)) ] |}.
Definition ex_tree_simplified : network CQ :=
  {| zero := L 48;
     branches := [ Build_branch (L 52) (L 48) (voltage_source (Nm 86 49) (r 5 0) (r 0 0));
                   Build_branch (L 52) (L 48) (resistor (Nm 82 49) (r 2 0));
                   Build_branch (L 48) (L 53) (impedance (Nm 90 50) (r 3 4));
                   Build_branch (L 53) (L 48) (resistor (Nm 82 51) (r 1 0));
                   Build_branch (L 48) (L 53) (current_source (Nm 73 49) (r 1 0) (r 0 0)) ] |}.
(* with S2 on the exemption list: S2 survives as 3-0 and so does R4 as 0-3 *)
Definition ex_tree_keep : network CQ :=
  {| zero := L 48;
     branches := [ Build_branch (L 52) (L 48) (voltage_source (Nm 86 49) (r 5 0) (r 0 0));
                   Build_branch (L 52) (L 48) (resistor (Nm 82 49) (r 2 0));
                   Build_branch (L 51) (L 48) (short_circuit (Nm 83 50));
                   Build_branch (L 51) (L 53) (impedance (Nm 90 50) (r 3 4));
                   Build_branch (L 53) (L 48) (resistor (Nm 82 51) (r 1 0));
                   Build_branch (L 48) (L 53) (current_source (Nm 73 49) (r 1 0) (r 0 0));
                   Build_branch (L 48) (L 51) (resistor (Nm 82 52) (r 7 0)) ] |}.

Example C16_example_tree : remove_short_circuit_elements ex_tree [] = Ok ex_tree_simplified.
Proof. reflexivity. Qed.
Example C16_example_tree_keep : remove_short_circuit_elements ex_tree [short_circuit (Nm 83 50)] = Ok ex_tree_keep.
Proof. reflexivity. Qed.
Example C16_example_tree_wfb : wfb ex_tree = true. Proof. vm_compute. reflexivity. Qed.
Example C16_example_tree_solvedb : solvedb ex_tree = true. Proof. vm_compute. reflexivity. Qed.
Example C16_example_tree_simplified_wfb : wfb ex_tree_simplified = true. Proof. vm_compute. reflexivity. Qed.
Example C16_example_tree_simplified_solvedb : solvedb ex_tree_simplified = true. Proof. vm_compute. reflexivity. Qed.
Example C16_example_tree_wellposedb : wellposedb ex_tree = true. Proof. vm_compute. reflexivity. Qed.
Example C16_example_tree_simplified_wellposedb : wellposedb ex_tree_simplified = true. Proof. vm_compute. reflexivity. Qed.
Example C16_example_tree_keep_wellposedb : wellposedb ex_tree_keep = true. Proof. vm_compute. reflexivity. Qed.

(* all hypotheses of C16_short_api_agree / C16_short_solution_agree / C16_wellposed_partial at once *)
Example C16_example_tree_agree : exists s s',
  solve_network ex_tree = Ok s /\ solve_network ex_tree_simplified = Ok s'
  /\ wf ex_tree /\ WellPosed ex_tree /\ WellPosed ex_tree_simplified
  /\ (forall l, In l (node_labels ex_tree_simplified) -> get_potential s l = get_potential s' l)
  /\ (forall b', In b' (branches ex_tree_simplified) ->
        get_voltage s (bid b') = get_voltage s' (bid b') /\ get_current s (bid b') = get_current s' (bid b')
        /\ get_power s (bid b') = get_power s' (bid b')).
Proof.
  destruct (solvedb_ok CQ_ok ex_tree C16_example_tree_wfb C16_example_tree_solvedb) as [s [Hs _]].
  destruct (solvedb_ok CQ_ok ex_tree_simplified C16_example_tree_simplified_wfb C16_example_tree_simplified_solvedb)
    as [s' [Hs' _]].
  destruct (wellposedb_ok CQ_ok ex_tree C16_example_tree_wellposedb) as [WF WP].
  destruct (wellposedb_ok CQ_ok ex_tree_simplified C16_example_tree_simplified_wellposedb) as [_ WP'].
  exists s, s'. split; [exact Hs|]. split; [exact Hs'|]. split; [exact WF|]. split; [exact WP|]. split; [exact WP'|].
  exact (short_api_agree CQ CQ_ok ex_tree ex_tree_simplified [] s s' (proj2 (proj2 WF)) WP' C16_example_tree Hs Hs').
Qed.
Print Assumptions C16_example_tree_agree.

(* open circuits: O1 parallel to R1, O2 parallel to the source; every node keeps a non-open branch *)
Definition ex_open : network CQ :=
  {| zero := L 48;
     branches := [ Build_branch (L 49) (L 48) (voltage_source (Nm 86 49) (r 5 1) (r 0 0));
                   Build_branch (L 49) (L 50) (open_circuit (Nm 79 49));
                   Build_branch (L 49) (L 50) (resistor (Nm 82 49) (r 2 0));
                   Build_branch (L 50) (L 48) (admittance (Nm 89 50) (r 1 (-1)));
                   Build_branch (L 48) (L 49) (open_circuit (Nm 79 50)) ] |}.
Definition ex_open_simplified : network CQ :=
  {| zero := L 48;
     branches := [ Build_branch (L 49) (L 48) (voltage_source (Nm 86 49) (r 5 1) (r 0 0));
                   Build_branch (L 49) (L 50) (resistor (Nm 82 49) (r 2 0));
                   Build_branch (L 50) (L 48) (admittance (Nm 89 50) (r 1 (-1))) ] |}.
Example C16_example_open : remove_open_circuit_elements ex_open = Ok ex_open_simplified.
Proof. reflexivity. Qed.
Example C16_example_open_drop : drop_open ex_open = ex_open_simplified.
Proof. reflexivity. Qed.
Example C16_example_open_wellposedb : wellposedb ex_open = true. Proof. vm_compute. reflexivity. Qed.
Example C16_example_open_simplified_wellposedb : wellposedb ex_open_simplified = true. Proof. vm_compute. reflexivity. Qed.
Example C16_example_open_nodes_kept :
  forallb (fun l => lmem l (node_labels (drop_open ex_open))) (node_labels ex_open) = true.
Proof. vm_compute. reflexivity. Qed.

(* the other operations on the same networks *)
Example C16_example_switch_ground : exists n', switch_ground_node ex_tree_simplified (L 53) = Ok n' /\ wellposedb n' = true.
Proof. eexists. split; [reflexivity|]. vm_compute. reflexivity. Qed.
Example C16_example_remove_element : exists n', remove_element ex_tree_simplified (Nm 82 51) = Ok n' /\ wellposedb n' = true.
Proof. eexists. split; [reflexivity|]. vm_compute. reflexivity. Qed.
Example C16_example_remove_element_unknown : remove_element ex_tree_simplified (Nm 82 57) = Err EKeyError.
Proof. reflexivity. Qed.
(* passive network of the tree example: sources stripped, then opens and shorts removed; with V1 exempt *)
Example C16_example_passive :
  match passive_network ex_tree [] with
  | Ok n' => map bid (branches n') = [Nm 90 50; Nm 82 51]   (* R1 hangs between the shorted source and the shorted tree *)
  | Err _ => False
  end.
Proof. vm_compute. reflexivity. Qed.
Example C16_example_passive_keep :
  match passive_network ex_tree [voltage_source (Nm 86 49) (r 5 0) (r 0 0)] with
  | Ok n' => map bid (branches n') = [Nm 86 49; Nm 82 49; Nm 90 50; Nm 82 51] /\ wellposedb n' = true
  | Err _ => False
  end.
Proof. vm_compute. split; reflexivity. Qed.
