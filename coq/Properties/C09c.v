(* C09 (continued) — the multi-frequency classes of Circuit/solution.py (TimeDomainSolution, FrequencyDomainSolution) as
   REGENERATED on every run (Gen/CircuitGen.v, tools/gen_circuit.py) against the hand-written model: [fd_solutions],
   [fd_series], [fd_voltage] ..., [two_sided], [td_value] of Theory/MultiFreq.v (the objects of C09) and the definitions added
   in Theory/CircuitMore.v for what MultiFreq.v does not spell out ([td_terms], [td_power], [fd_power], [fd_result],
   [timefn_eval]; unfolded below).  An instance is the record of its attributes; `Class(...)` is g_<Class>_post_init; a getter
   is applied to the instance the constructor returns (`bind`).  [wres] is the default 1e-3 of transform's w_resolution
   (C02c_default_w_resolution).  "partial": for circuits whose lamps / resistive loads have two terminals (see
   C02c_transform_circuit_full); "outcome": always the same success and the same value, the exception may differ.
   TransientSolution is not translated (numpy / scipy state-space integration).
   Statements only; proofs are in Theory/CircuitGenThm.v and Theory/CircuitMore.v. *)
From Coq Require Import List Bool ZArith NArith String Sorted QArith Qcanon.
From CC Require Import Theory.Field Theory.Complex Theory.Labels Model.Network Theory.Spec Gen.Tables Model.Circuit
  Model.CircuitPrims Gen.Transformers Model.RunCircuit Theory.CircuitThm Theory.MultiFreq Theory.TransformersGen
  Model.CircuitGenPrims Gen.CircuitGen Theory.CircuitMore Theory.CircuitGenThm Properties.C07 Properties.C02 Properties.C09.
Import ListNotations.
Local Open Scope string_scope.
Local Open Scope list_scope.

(* ================= the hand definitions added for this file (Theory/CircuitMore.v), spelled out ================= *)
(* TimeDomainSolution: all networks, then all solutions, then the observed quantity of each; a time function is the list of
   its terms (phasor X_k, angular frequency w_k), standing for t |-> sum_k |X_k| cos(w_k t + arg X_k) *)
Theorem C09c_td_terms_unfolded : forall (R : fops) leb rnd ofZ flr (obs : solution (Cx R) -> res (Cx R)) (cs : list (comp R)) (wmax wres : R),
  td_terms R leb rnd ofZ flr obs cs wmax wres
  = bind (frequency_components R leb ofZ flr cs wmax) (fun l =>
    bind (mapM (fun w => transform_circuit R leb rnd ofZ cs w wres) l) (fun ns =>
    bind (mapM (@solve_network (Cx R)) ns) (fun ss =>
    bind (mapM obs ss) (fun xs => Ok (combine xs l))))).
Proof. reflexivity. Qed.
Print Assumptions C09c_td_terms_unfolded.
Theorem C09c_td_getters_unfolded : forall (R : fops) leb rnd ofZ flr (id : label) (cs : list (comp R)) (wmax wres : R),
  td_voltage R leb rnd ofZ flr id cs wmax wres = td_terms R leb rnd ofZ flr (fun s => get_voltage s id) cs wmax wres
  /\ td_current R leb rnd ofZ flr id cs wmax wres = td_terms R leb rnd ofZ flr (fun s => get_current s id) cs wmax wres
  /\ td_potential R leb rnd ofZ flr id cs wmax wres = td_terms R leb rnd ofZ flr (fun s => get_potential s id) cs wmax wres
  /\ td_power R leb rnd ofZ flr id cs wmax wres
     = bind (td_voltage R leb rnd ofZ flr id cs wmax wres) (fun v => bind (td_current R leb rnd ofZ flr id cs wmax wres) (fun i => Ok (v, i))).
Proof. repeat split; reflexivity. Qed.
Print Assumptions C09c_td_getters_unfolded.
(* the value of a time function at an instant, [carrier w] = (cos (w t), sin (w t)); of a product of two *)
Theorem C09c_timefn_eval_unfolded : forall (R : fops) (carrier : R -> R * R) (f g : list (Cx R * R)),
  timefn_eval R carrier f = tf (map (fun p => carrier (snd p)) f) (map fst f)
  /\ timefn2_eval R carrier (f, g) = fmul R (timefn_eval R carrier f) (timefn_eval R carrier g).
Proof. split; reflexivity. Qed.
Print Assumptions C09c_timefn_eval_unfolded.
(* FrequencyDomainSolution.get_*: (self.w, self._spectrum(values)) from the one-sided lines *)
Theorem C09c_fd_result_unfolded : forall (R : fops) (leb : R -> R -> bool) (lines : list (R * Cx R)),
  fd_result R leb true lines = (map fst lines, map snd lines)
  /\ fd_result R leb false lines = (map fst (two_sided leb lines), map snd (two_sided leb lines))
  /\ fd_result R leb false lines
     = (map (fopp R) (rev (filter (posb leb) (map fst lines))) ++ map fst lines,
        map (fun x => chalf (fconj (Cx R) x)) (rev (map snd (filter (fun p => posb leb (fst p)) lines)))
        ++ map (fun p => if posb leb (fst p) then chalf (snd p) else snd p) lines).
Proof. exact fd_result_unfolded. Qed.
Print Assumptions C09c_fd_result_unfolded.
Theorem C09c_fd_power_unfolded : forall (R : fops) leb rnd ofZ flr (sqrt2 : R) (id : label) (cs : list (comp R)) (wmax wres : R),
  fd_power R leb rnd ofZ flr sqrt2 id cs wmax wres = fd_series R leb rnd ofZ flr (fun s => c_power R sqrt2 s id) cs wmax wres.
Proof. reflexivity. Qed.
Print Assumptions C09c_fd_power_unfolded.

(* the added TimeDomainSolution model against the objects of C09: the same terms as the frequency-domain lines, hence the
   value at an instant is td_value (to which C09_td, C09_kcl_t_solutions, C09_superpose_t ... apply).  The exception may
   differ: TimeDomainSolution builds every network before solving the first, FrequencyDomainSolution goes frequency by
   frequency. *)
Theorem C09c_td_is_fd : forall (R : fops) leb rnd ofZ flr (obs : csol R -> res (Cx R)) (cs : list (comp R)) (wmax wres : R),
  match td_terms R leb rnd ofZ flr (fun s => obs {| cs_sol := s; cs_peak := true |}) cs wmax wres,
        fd_series R leb rnd ofZ flr obs cs wmax wres with
  | Ok terms, Ok lines => terms = map (fun p => (snd p, fst p)) lines
  | Err _, Err _ => True | _, _ => False end.
Proof. exact stmt_td_is_fd. Qed.
Print Assumptions C09c_td_is_fd.
Theorem C09c_td_value : forall (R : fops) leb rnd ofZ flr (obs : csol R -> res (Cx R)) (cs : list (comp R)) (wmax wres : R) (carrier : R -> R * R),
  match td_terms R leb rnd ofZ flr (fun s => obs {| cs_sol := s; cs_peak := true |}) cs wmax wres,
        td_value R leb rnd ofZ flr obs cs wmax wres carrier with
  | Ok terms, Ok v => timefn_eval R carrier terms = v
  | Err _, Err _ => True | _, _ => False end.
Proof. exact stmt_td_value. Qed.
Print Assumptions C09c_td_value.
Theorem C09c_td_voltage_is_fd : forall (R : fops) leb rnd ofZ flr (sqrt2 : R) (id : label) (cs : list (comp R)) (wmax wres : R),
  match td_voltage R leb rnd ofZ flr id cs wmax wres, fd_voltage R leb rnd ofZ flr sqrt2 id cs wmax wres with
  | Ok terms, Ok lines => terms = map (fun p => (snd p, fst p)) lines
  | Err _, Err _ => True | _, _ => False end.
Proof. exact stmt_td_voltage_is_fd. Qed.
Theorem C09c_td_current_is_fd : forall (R : fops) leb rnd ofZ flr (sqrt2 : R) (id : label) (cs : list (comp R)) (wmax wres : R),
  match td_current R leb rnd ofZ flr id cs wmax wres, fd_current R leb rnd ofZ flr sqrt2 id cs wmax wres with
  | Ok terms, Ok lines => terms = map (fun p => (snd p, fst p)) lines
  | Err _, Err _ => True | _, _ => False end.
Proof. exact stmt_td_current_is_fd. Qed.
Theorem C09c_td_potential_is_fd : forall (R : fops) leb rnd ofZ flr (sqrt2 : R) (l : label) (cs : list (comp R)) (wmax wres : R),
  match td_potential R leb rnd ofZ flr l cs wmax wres, fd_potential R leb rnd ofZ flr sqrt2 l cs wmax wres with
  | Ok terms, Ok lines => terms = map (fun p => (snd p, fst p)) lines
  | Err _, Err _ => True | _, _ => False end.
Proof. exact stmt_td_potential_is_fd. Qed.
Print Assumptions C09c_td_voltage_is_fd. Print Assumptions C09c_td_current_is_fd. Print Assumptions C09c_td_potential_is_fd.

(* ================= A. TimeDomainSolution regenerated ================= *)
(* __post_init__: self.w and self._solutions are the model's frequency list and one network solution per frequency *)
Theorem C09c_td_post_partial : forall (R : fops) leb rnd ofZ flr (wres : R) (cs : list (comp R)) (circ : Circuit R) (wmax : R),
  g_Circuit_post_init R cs = Ok circ ->
  (forall c, In c cs -> ck c = KLamp \/ ck c = KResLoad -> (2 <= List.length (cnodes c))%nat) ->
  match g_TimeDomainSolution_post_init R leb rnd ofZ flr wres circ wmax with
  | Ok self => Ok (combine (TimeDomainSolution_w R self) (TimeDomainSolution__solutions R self)) | Err e => Err e end
  = td_solutions R leb rnd ofZ flr cs wmax wres.
Proof. exact td_post_eq. Qed.
Print Assumptions C09c_td_post_partial.
Theorem C09c_td_solutions_unfolded : forall (R : fops) leb rnd ofZ flr (cs : list (comp R)) (wmax wres : R),
  td_solutions R leb rnd ofZ flr cs wmax wres
  = bind (frequency_components R leb ofZ flr cs wmax) (fun l =>
    bind (transform R leb rnd ofZ cs l wres) (fun ns => bind (mapM (@solve_network (Cx R)) ns) (fun ss => Ok (combine l ss)))).
Proof. reflexivity. Qed.
Print Assumptions C09c_td_solutions_unfolded.

Theorem C09c_td_get_voltage_partial : forall (R : fops) leb rnd ofZ flr (wres : R) (cs : list (comp R)) (circ : Circuit R) (wmax : R) (id : label),
  g_Circuit_post_init R cs = Ok circ ->
  (forall c, In c cs -> ck c = KLamp \/ ck c = KResLoad -> (2 <= List.length (cnodes c))%nat) ->
  bind (g_TimeDomainSolution_post_init R leb rnd ofZ flr wres circ wmax) (fun self => g_TimeDomainSolution_get_voltage R self id)
  = td_voltage R leb rnd ofZ flr id cs wmax wres.
Proof. exact td_get_voltage_eq. Qed.
Theorem C09c_td_get_current_partial : forall (R : fops) leb rnd ofZ flr (wres : R) (cs : list (comp R)) (circ : Circuit R) (wmax : R) (id : label),
  g_Circuit_post_init R cs = Ok circ ->
  (forall c, In c cs -> ck c = KLamp \/ ck c = KResLoad -> (2 <= List.length (cnodes c))%nat) ->
  bind (g_TimeDomainSolution_post_init R leb rnd ofZ flr wres circ wmax) (fun self => g_TimeDomainSolution_get_current R self id)
  = td_current R leb rnd ofZ flr id cs wmax wres.
Proof. exact td_get_current_eq. Qed.
Theorem C09c_td_get_potential_partial : forall (R : fops) leb rnd ofZ flr (wres : R) (cs : list (comp R)) (circ : Circuit R) (wmax : R) (l : label),
  g_Circuit_post_init R cs = Ok circ ->
  (forall c, In c cs -> ck c = KLamp \/ ck c = KResLoad -> (2 <= List.length (cnodes c))%nat) ->
  bind (g_TimeDomainSolution_post_init R leb rnd ofZ flr wres circ wmax) (fun self => g_TimeDomainSolution_get_potential R self l)
  = td_potential R leb rnd ofZ flr l cs wmax wres.
Proof. exact td_get_potential_eq. Qed.
Theorem C09c_td_get_power_partial : forall (R : fops) leb rnd ofZ flr (wres : R) (cs : list (comp R)) (circ : Circuit R) (wmax : R) (id : label),
  g_Circuit_post_init R cs = Ok circ ->
  (forall c, In c cs -> ck c = KLamp \/ ck c = KResLoad -> (2 <= List.length (cnodes c))%nat) ->
  bind (g_TimeDomainSolution_post_init R leb rnd ofZ flr wres circ wmax) (fun self => g_TimeDomainSolution_get_power R self id)
  = td_power R leb rnd ofZ flr id cs wmax wres.
Proof. exact td_get_power_eq. Qed.
Print Assumptions C09c_td_get_voltage_partial. Print Assumptions C09c_td_get_current_partial.
Print Assumptions C09c_td_get_potential_partial. Print Assumptions C09c_td_get_power_partial.
Theorem C09c_td_get_voltage_outcome : forall (R : fops) leb rnd ofZ flr (wres : R) (cs : list (comp R)) (circ : Circuit R) (wmax : R) (id : label),
  g_Circuit_post_init R cs = Ok circ ->
  match bind (g_TimeDomainSolution_post_init R leb rnd ofZ flr wres circ wmax) (fun self => g_TimeDomainSolution_get_voltage R self id),
        td_voltage R leb rnd ofZ flr id cs wmax wres with
  | Ok a, Ok b => a = b | Err _, Err _ => True | _, _ => False end.
Proof. exact td_get_voltage_outcome. Qed.
Theorem C09c_td_get_current_outcome : forall (R : fops) leb rnd ofZ flr (wres : R) (cs : list (comp R)) (circ : Circuit R) (wmax : R) (id : label),
  g_Circuit_post_init R cs = Ok circ ->
  match bind (g_TimeDomainSolution_post_init R leb rnd ofZ flr wres circ wmax) (fun self => g_TimeDomainSolution_get_current R self id),
        td_current R leb rnd ofZ flr id cs wmax wres with
  | Ok a, Ok b => a = b | Err _, Err _ => True | _, _ => False end.
Proof. exact td_get_current_outcome. Qed.
Theorem C09c_td_get_potential_outcome : forall (R : fops) leb rnd ofZ flr (wres : R) (cs : list (comp R)) (circ : Circuit R) (wmax : R) (l : label),
  g_Circuit_post_init R cs = Ok circ ->
  match bind (g_TimeDomainSolution_post_init R leb rnd ofZ flr wres circ wmax) (fun self => g_TimeDomainSolution_get_potential R self l),
        td_potential R leb rnd ofZ flr l cs wmax wres with
  | Ok a, Ok b => a = b | Err _, Err _ => True | _, _ => False end.
Proof. exact td_get_potential_outcome. Qed.
Theorem C09c_td_get_power_outcome : forall (R : fops) leb rnd ofZ flr (wres : R) (cs : list (comp R)) (circ : Circuit R) (wmax : R) (id : label),
  g_Circuit_post_init R cs = Ok circ ->
  match bind (g_TimeDomainSolution_post_init R leb rnd ofZ flr wres circ wmax) (fun self => g_TimeDomainSolution_get_power R self id),
        td_power R leb rnd ofZ flr id cs wmax wres with
  | Ok a, Ok b => a = b | Err _, Err _ => True | _, _ => False end.
Proof. exact td_get_power_outcome. Qed.
Print Assumptions C09c_td_get_voltage_outcome. Print Assumptions C09c_td_get_current_outcome.
Print Assumptions C09c_td_get_potential_outcome. Print Assumptions C09c_td_get_power_outcome.
(* the shape of get_power: the product of the two time functions *)
Theorem C09c_td_get_power_shape : forall (R : fops) (self : TimeDomainSolution R) (id : label),
  g_TimeDomainSolution_get_power R self id
  = bind (g_TimeDomainSolution_get_voltage R self id) (fun v => bind (g_TimeDomainSolution_get_current R self id) (fun i => Ok (v, i))).
Proof. reflexivity. Qed.
Print Assumptions C09c_td_get_power_shape.

(* ================= B. FrequencyDomainSolution regenerated ================= *)
(* __post_init__: one peak-value ComplexSolution per analysed frequency = fd_solutions of C09 *)
Theorem C09c_fd_post_partial : forall (R : fops) leb rnd ofZ flr (wres : R) (cs : list (comp R)) (circ : Circuit R) (wmax : R) (one_sided : bool),
  g_Circuit_post_init R cs = Ok circ ->
  (forall c, In c cs -> ck c = KLamp \/ ck c = KResLoad -> (2 <= List.length (cnodes c))%nat) ->
  match g_FrequencyDomainSolution_post_init R leb rnd ofZ flr wres circ wmax one_sided with
  | Ok self => Ok (combine (map (ComplexSolution_w R) (FrequencyDomainSolution__solutions R self))
                           (map (to_csol R) (FrequencyDomainSolution__solutions R self)))
  | Err e => Err e end
  = fd_solutions R leb rnd ofZ flr cs wmax wres.
Proof. exact fd_post_eq. Qed.
Print Assumptions C09c_fd_post_partial.
(* the instance: self.w one- or two-sided, self._positive = (w > 0) on the one-sided list; [fd_self] = the frequencies and,
   frequency by frequency, the solved network *)
Theorem C09c_fd_self_unfolded : forall (R : fops) (T : R -> res (network (Cx R))) (fl : res (list R)),
  fd_self R T fl = bind fl (fun l => bind (mapM (fun w => bind (T w) (@solve_network (Cx R))) l) (fun ss => Ok (l, ss))).
Proof. reflexivity. Qed.
Theorem C09c_fd_post_fields : forall (R : fops) leb rnd ofZ flr (wres : R) (circ : Circuit R) (wmax : R) (one_sided : bool),
  g_FrequencyDomainSolution_post_init R leb rnd ofZ flr wres circ wmax one_sided
  = match fd_self R (fun w => g_transform_circuit R leb rnd ofZ circ w wres) (g_frequency_components R leb ofZ flr circ wmax) with
    | Ok (l, ss) => Ok {| FrequencyDomainSolution_circuit := circ; FrequencyDomainSolution_w_max := wmax;
                          FrequencyDomainSolution_one_sided := one_sided;
                          FrequencyDomainSolution_w := if one_sided then l else map (fopp R) (rev (filter (posb leb) l)) ++ l;
                          FrequencyDomainSolution__solutions :=
                            map (fun p => {| ComplexSolution_circuit := circ; ComplexSolution_w := fst p;
                                             ComplexSolution_peak_values := true; ComplexSolution__solution := snd p |}) (combine l ss);
                          FrequencyDomainSolution__positive := map (posb leb) l |}
    | Err e => Err e end.
Proof. exact fd_post_fields. Qed.
Print Assumptions C09c_fd_post_fields.

(* the four getters, one- and two-sided: values halved and mirrored with conjugation for w > 0, the w = 0 line untouched *)
Theorem C09c_fd_get_voltage_partial : forall (R : fops) leb rnd ofZ flr (sqrt2 wres : R) (cs : list (comp R)) (circ : Circuit R) (wmax : R) (one_sided : bool) (id : label),
  g_Circuit_post_init R cs = Ok circ ->
  (forall c, In c cs -> ck c = KLamp \/ ck c = KResLoad -> (2 <= List.length (cnodes c))%nat) ->
  bind (g_FrequencyDomainSolution_post_init R leb rnd ofZ flr wres circ wmax one_sided) (fun self => g_FrequencyDomainSolution_get_voltage R sqrt2 self id)
  = match fd_voltage R leb rnd ofZ flr sqrt2 id cs wmax wres with Ok lines => Ok (fd_result R leb one_sided lines) | Err e => Err e end.
Proof. exact fd_get_voltage_eq. Qed.
Theorem C09c_fd_get_current_partial : forall (R : fops) leb rnd ofZ flr (sqrt2 wres : R) (cs : list (comp R)) (circ : Circuit R) (wmax : R) (one_sided : bool) (id : label),
  g_Circuit_post_init R cs = Ok circ ->
  (forall c, In c cs -> ck c = KLamp \/ ck c = KResLoad -> (2 <= List.length (cnodes c))%nat) ->
  bind (g_FrequencyDomainSolution_post_init R leb rnd ofZ flr wres circ wmax one_sided) (fun self => g_FrequencyDomainSolution_get_current R sqrt2 self id)
  = match fd_current R leb rnd ofZ flr sqrt2 id cs wmax wres with Ok lines => Ok (fd_result R leb one_sided lines) | Err e => Err e end.
Proof. exact fd_get_current_eq. Qed.
Theorem C09c_fd_get_potential_partial : forall (R : fops) leb rnd ofZ flr (sqrt2 wres : R) (cs : list (comp R)) (circ : Circuit R) (wmax : R) (one_sided : bool) (l : label),
  g_Circuit_post_init R cs = Ok circ ->
  (forall c, In c cs -> ck c = KLamp \/ ck c = KResLoad -> (2 <= List.length (cnodes c))%nat) ->
  bind (g_FrequencyDomainSolution_post_init R leb rnd ofZ flr wres circ wmax one_sided) (fun self => g_FrequencyDomainSolution_get_potential R sqrt2 self l)
  = match fd_potential R leb rnd ofZ flr sqrt2 l cs wmax wres with Ok lines => Ok (fd_result R leb one_sided lines) | Err e => Err e end.
Proof. exact fd_get_potential_eq. Qed.
Theorem C09c_fd_get_power_partial : forall (R : fops) leb rnd ofZ flr (sqrt2 wres : R) (cs : list (comp R)) (circ : Circuit R) (wmax : R) (one_sided : bool) (id : label),
  g_Circuit_post_init R cs = Ok circ ->
  (forall c, In c cs -> ck c = KLamp \/ ck c = KResLoad -> (2 <= List.length (cnodes c))%nat) ->
  bind (g_FrequencyDomainSolution_post_init R leb rnd ofZ flr wres circ wmax one_sided) (fun self => g_FrequencyDomainSolution_get_power R sqrt2 self id)
  = match fd_power R leb rnd ofZ flr sqrt2 id cs wmax wres with Ok lines => Ok (fd_result R leb one_sided lines) | Err e => Err e end.
Proof. exact fd_get_power_eq. Qed.
Print Assumptions C09c_fd_get_voltage_partial. Print Assumptions C09c_fd_get_current_partial.
Print Assumptions C09c_fd_get_potential_partial. Print Assumptions C09c_fd_get_power_partial.
Theorem C09c_fd_get_voltage_outcome : forall (R : fops) leb rnd ofZ flr (sqrt2 wres : R) (cs : list (comp R)) (circ : Circuit R) (wmax : R) (one_sided : bool) (id : label),
  g_Circuit_post_init R cs = Ok circ ->
  match bind (g_FrequencyDomainSolution_post_init R leb rnd ofZ flr wres circ wmax one_sided) (fun self => g_FrequencyDomainSolution_get_voltage R sqrt2 self id),
        fd_voltage R leb rnd ofZ flr sqrt2 id cs wmax wres with
  | Ok r, Ok lines => r = fd_result R leb one_sided lines | Err _, Err _ => True | _, _ => False end.
Proof. exact stmt_fd_get_voltage_outcome. Qed.
Theorem C09c_fd_get_current_outcome : forall (R : fops) leb rnd ofZ flr (sqrt2 wres : R) (cs : list (comp R)) (circ : Circuit R) (wmax : R) (one_sided : bool) (id : label),
  g_Circuit_post_init R cs = Ok circ ->
  match bind (g_FrequencyDomainSolution_post_init R leb rnd ofZ flr wres circ wmax one_sided) (fun self => g_FrequencyDomainSolution_get_current R sqrt2 self id),
        fd_current R leb rnd ofZ flr sqrt2 id cs wmax wres with
  | Ok r, Ok lines => r = fd_result R leb one_sided lines | Err _, Err _ => True | _, _ => False end.
Proof. exact stmt_fd_get_current_outcome. Qed.
Theorem C09c_fd_get_potential_outcome : forall (R : fops) leb rnd ofZ flr (sqrt2 wres : R) (cs : list (comp R)) (circ : Circuit R) (wmax : R) (one_sided : bool) (l : label),
  g_Circuit_post_init R cs = Ok circ ->
  match bind (g_FrequencyDomainSolution_post_init R leb rnd ofZ flr wres circ wmax one_sided) (fun self => g_FrequencyDomainSolution_get_potential R sqrt2 self l),
        fd_potential R leb rnd ofZ flr sqrt2 l cs wmax wres with
  | Ok r, Ok lines => r = fd_result R leb one_sided lines | Err _, Err _ => True | _, _ => False end.
Proof. exact stmt_fd_get_potential_outcome. Qed.
Theorem C09c_fd_get_power_outcome : forall (R : fops) leb rnd ofZ flr (sqrt2 wres : R) (cs : list (comp R)) (circ : Circuit R) (wmax : R) (one_sided : bool) (id : label),
  g_Circuit_post_init R cs = Ok circ ->
  match bind (g_FrequencyDomainSolution_post_init R leb rnd ofZ flr wres circ wmax one_sided) (fun self => g_FrequencyDomainSolution_get_power R sqrt2 self id),
        fd_power R leb rnd ofZ flr sqrt2 id cs wmax wres with
  | Ok r, Ok lines => r = fd_result R leb one_sided lines | Err _, Err _ => True | _, _ => False end.
Proof. exact stmt_fd_get_power_outcome. Qed.
Print Assumptions C09c_fd_get_voltage_outcome. Print Assumptions C09c_fd_get_current_outcome.
Print Assumptions C09c_fd_get_potential_outcome. Print Assumptions C09c_fd_get_power_outcome.

(* _spectrum on its own, for an instance whose _positive mask is (w > 0) on frequencies [l] and values of the same length *)
Theorem C09c_spectrum : forall (R : fops) (leb : R -> R -> bool) (self : FrequencyDomainSolution R) (l : list R) (xs : list (Cx R)),
  FrequencyDomainSolution__positive R self = map (posb leb) l -> List.length l = List.length xs ->
  g_FrequencyDomainSolution__spectrum R self xs
  = Ok (snd (fd_result R leb (FrequencyDomainSolution_one_sided R self) (combine l xs))).
Proof. exact spectrum_eq. Qed.
Print Assumptions C09c_spectrum.

(* ================= non-vacuity (the circuit of Properties/C09.v: dc + ac + periodic source, w_max = 7/2) ================= *)
Definition q_gfd os := fun circ => g_FrequencyDomainSolution_post_init Qcops Qc_leb Qc_round Qc_ofZ Qc_floor ex9_wres circ ex9_wmax os.
Definition cq_list_eqb (a b : list CQ) : bool :=
  Nat.eqb (List.length a) (List.length b) && forallb (fun p => feqb CQ (fst p) (snd p)) (combine a b).
Example C09c_example_loads : forall c, In c ex9_cs -> ck c = KLamp \/ ck c = KResLoad -> (2 <= List.length (cnodes c))%nat.
Proof. apply (loads_okb_ok Qcops). vm_compute. reflexivity. Qed.
(* FrequencyDomainSolution(circuit, w_max).get_voltage('R2'), one-sided: the four lines of C09_example_fd_voltage *)
Example C09c_example_fd_one_sided :
  okb (g_Circuit_post_init Qcops ex9_cs) (fun circ => okb (q_gfd true circ) (fun self =>
  okb (g_FrequencyDomainSolution_get_voltage Qcops ex_sqrt2 self (lbl "R2")) (fun r =>
  okb (q_fd_voltage (lbl "R2") ex9_cs ex9_wmax ex9_wres) (fun lines =>
    qlist_eqb (fst r) ex9_ws && cq_list_eqb (snd r) (map snd lines) && forallb (fun x => negb (feqb CQ x (f0 CQ))) (snd r))))) = true.
Proof. vm_compute. reflexivity. Qed.
(* two-sided: frequencies -3 .. 3, the dc line kept, the others halved and mirrored with conjugation *)
Example C09c_example_fd_two_sided :
  okb (g_Circuit_post_init Qcops ex9_cs) (fun circ => okb (q_gfd false circ) (fun self =>
  okb (g_FrequencyDomainSolution_get_voltage Qcops ex_sqrt2 self (lbl "R2")) (fun r =>
  okb (g_FrequencyDomainSolution_get_power Qcops ex_sqrt2 self (lbl "R2")) (fun pw =>
  okb (q_fd_voltage (lbl "R2") ex9_cs ex9_wmax ex9_wres) (fun lines =>
    let ts := @two_sided Qcops Qc_leb lines in
    qlist_eqb (fst r) [q (-3) 1; q (-2) 1; q (-1) 1; q 0 1; q 1 1; q 2 1; q 3 1]
    && cq_list_eqb (snd r) (map snd ts)
    && feqb CQ (nth 3 (snd r) (f0 CQ)) (snd (nth 0 lines (q 0 1, f0 CQ)))
    && feqb CQ (nth 4 (snd r) (f0 CQ)) (fdiv CQ (snd (nth 1 lines (q 0 1, f0 CQ))) (q 2 1, q 0 1))
    && feqb CQ (nth 2 (snd r) (f0 CQ)) (fconj CQ (nth 4 (snd r) (f0 CQ)))
    && Nat.eqb (List.length (snd pw)) 7))))) = true.
Proof. vm_compute. reflexivity. Qed.
(* TimeDomainSolution(circuit, w_max).get_current(id) evaluated on the carrier of C09_example_td_kcl is td_value; the currents
   balance at node 2; get_power is the product *)
Definition q_gtd_current circ id :=
  bind (g_TimeDomainSolution_post_init Qcops Qc_leb Qc_round Qc_ofZ Qc_floor ex9_wres circ ex9_wmax)
       (fun self => g_TimeDomainSolution_get_current Qcops self id).
Example C09c_example_td :
  okb (g_Circuit_post_init Qcops ex9_cs) (fun circ =>
  okb (q_gtd_current circ (lbl "R1")) (fun f1 => okb (q_gtd_current circ (lbl "C1")) (fun fc => okb (q_gtd_current circ (lbl "R2")) (fun f2 =>
  okb (q_gtd_current circ (lbl "I2")) (fun fs => okb (q_gtd_current circ (lbl "P1")) (fun fp =>
  okb (q_td_current (lbl "R1")) (fun h1 =>
    let ev := timefn_eval Qcops ex9_carrier in
    Nat.eqb (List.length f1) 4 && Qc_eq_bool (ev f1) h1 && negb (Qc_eq_bool (ev f1) 0)
    && Qc_eq_bool (ev f1 + ev fs - ev fp) (ev fc + ev f2)))))))) = true.
Proof. vm_compute. reflexivity. Qed.
Example C09c_example_td_power :
  okb (g_Circuit_post_init Qcops ex9_cs) (fun circ =>
  okb (g_TimeDomainSolution_post_init Qcops Qc_leb Qc_round Qc_ofZ Qc_floor ex9_wres circ ex9_wmax) (fun self =>
  okb (g_TimeDomainSolution_get_power Qcops self (lbl "R2")) (fun p =>
  okb (g_TimeDomainSolution_get_voltage Qcops self (lbl "R2")) (fun v =>
  okb (g_TimeDomainSolution_get_current Qcops self (lbl "R2")) (fun i =>
    let ev := timefn_eval Qcops ex9_carrier in
    Qc_eq_bool (timefn2_eval Qcops ex9_carrier p) (ev v * ev i) && negb (Qc_eq_bool (timefn2_eval Qcops ex9_carrier p) 0)
    && Qc_eq_bool (ev v) (q 5 1 * ev i)))))) = true.
Proof. vm_compute. reflexivity. Qed.
