(* C01 — Steady-state solution obeys Kirchhoff's laws and every element law.
   Statements only; every proof is [exact <lemma>].  Model: Model/Network.v (mirrors
   Network/{elements,network}.py and NodalAnalysis/{label_mapping,node_analysis,bias_point_analysis,solution}.py). *)
From Coq Require Import List Bool ZArith NArith.
From CC Require Import Theory.Field Theory.Complex Theory.Labels Model.Network Theory.Spec Theory.Mna
  Theory.MnaComplete Theory.Api.
Import ListNotations.

(* Every solution vector of the assembled MNA system is a solution of the circuit equations: KCL at every
   node *including the reference node*, reference potential 0, every branch obeys its own law. *)
Theorem C01_sound : forall (K : fops) (KOK : fops_ok K) (n : network K) (WF : wf n) (x : list K),
  solves n x -> CircuitSpec n (phi_of n x) (flow_of n x).
Proof. exact mna_sound. Qed.
Print Assumptions C01_sound.

(* Conversely every solution of the circuit equations is a solution vector of the MNA system. *)
Theorem C01_complete : forall (K : fops) (KOK : fops_ok K) (n : network K) (WF : wf n) phi j,
  CircuitSpec n phi j -> solves n (vec n phi j).
Proof. exact mna_complete. Qed.
Print Assumptions C01_complete.

(* For a well-posed network the MNA system has exactly one solution ... *)
Theorem C01_unique_vector : forall (K : fops) (KOK : fops_ok K) (n : network K) (WF : wf n) (x x' : list K),
  WellPosed n -> solves n x -> solves n x' -> x = x'.
Proof. exact mna_unique. Qed.
Print Assumptions C01_unique_vector.

Theorem C01_solvable : forall (K : fops) (KOK : fops_ok K) (n : network K) (WF : wf n),
  WellPosed n -> exists x, solves n x.
Proof. exact mna_exists. Qed.
Print Assumptions C01_solvable.

(* ... and what is read off it is THE solution of the circuit equations. *)
Theorem C01_unique : forall (K : fops) (KOK : fops_ok K) (n : network K) (WF : wf n) (x : list K) phi j,
  WellPosed n -> solves n x -> CircuitSpec n phi j -> agree_on n (phi_of n x) phi (flow_of n x) j.
Proof. intros K KOK n WF x phi j WP S C. exact (proj2 WP _ _ _ _ (mna_sound K KOK n WF x S) C). Qed.
Print Assumptions C01_unique.

(* The model's solver never returns a wrong vector (it is checked), and whenever it returns, the
   reported quantities are the candidate above in the documented reference directions. *)
Theorem C01_solver_sound : forall (K : fops) (KOK : fops_ok K) (n : network K),
  (forall b, In b (branches n) -> node1 b <> node2 b) ->
  forall s, solve_network n = Ok s -> s_net s = n /\ wf n /\ solves n (s_x s).
Proof. exact solve_network_sound. Qed.
Print Assumptions C01_solver_sound.

Theorem C01_reported_potential : forall (K : fops) (n : network K) (x : list K) l,
  (l = zero n \/ In l (node_index n)) -> get_potential {| s_net := n; s_x := x |} l = Ok (phi_of n x l).
Proof. exact api_potential. Qed.
Theorem C01_reported_voltage : forall (K : fops) (n : network K) (WF : wf n) (x : list K) b,
  In b (branches n) -> get_voltage {| s_net := n; s_x := x |} (bid b) = Ok (bvolt (phi_of n x) b).
Proof. exact api_voltage. Qed.
(* first->second flow for passive elements and ideal sources, generator direction (minus the flow) for
   linear sources *)
Theorem C01_reported_current : forall (K : fops) (KOK : fops_ok K) (n : network K) (WF : wf n) (x : list K) b,
  In b (branches n) -> get_current {| s_net := n; s_x := x |} (bid b) = Ok (reported n x b).
Proof. exact api_current. Qed.
Theorem C01_reported_power : forall (K : fops) (KOK : fops_ok K) (n : network K) (WF : wf n) (x : list K) b,
  In b (branches n) ->
  get_power {| s_net := n; s_x := x |} (bid b) = Ok (fmul K (bvolt (phi_of n x) b) (fconj K (reported n x b))).
Proof. exact api_power. Qed.
Print Assumptions C01_reported_current.

(* "A valid network never fails to solve": the statement; it is proved in Properties/C01b.v
   (C01_never_fails_discharged, via completeness of the executable Gauss-Jordan procedure, Theory/Gauss.v). *)
Definition C01_never_fails_full : Prop := forall (K : fops) (KOK : fops_ok K) (n : network K),
  wf n -> WellPosed n -> exists s, solve_network n = Ok s.

(* ---- non-vacuity: a concrete network (ideal source on the reference node only, a linear source,
   parallel branches, labels '10' < '9') meets the hypotheses and is solved ---- *)
Definition L (z : Z) : label := [Z.to_N z].
Definition ex_net : network CQ :=
  {| zero := L 48;
     branches := [ Build_branch (L 49) (L 48) (voltage_source (L 86) (cq 5 1 1 1) (cq 0 1 0 1));
                   Build_branch (L 49) [49%N; 48%N] (resistor (L 82) (cq 2 1 0 1));
                   Build_branch [49%N; 48%N] (L 57) (impedance (L 90) (cq 3 1 4 1));
                   Build_branch (L 57) [49%N; 48%N] (admittance (L 89) (cq 1 2 (-1) 4));
                   Build_branch (L 48) (L 57) (voltage_source (L 76) (cq 7 1 0 1) (cq 2 1 1 1));
                   Build_branch (L 57) (L 49) (current_source (L 73) (cq (-2) 1 1 2) (cq 0 1 0 1)) ] |}.

Example C01_example_wf : wfb ex_net = true.
Proof. vm_compute. reflexivity. Qed.
Example C01_example_solvedb : solvedb ex_net = true.
Proof. vm_compute. reflexivity. Qed.
Example C01_example_solved : exists s, solve_network ex_net = Ok s /\ wf ex_net /\ solves ex_net (s_x s)
            /\ CircuitSpec ex_net (phi_of ex_net (s_x s)) (flow_of ex_net (s_x s)).
Proof. exact (solvedb_ok CQ_ok ex_net C01_example_wf C01_example_solvedb). Qed.
