(* placeholder until Theory/Mna.v lands *)
From CC Require Import Theory.Field Theory.Complex Model.Network.
Example C01_model_runs : True. Proof. exact I. Qed.
