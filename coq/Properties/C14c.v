(* C14 (continued) — SimpleCircuit/DiagramSolution.py (adapter classes, draw_*, factories), the text functions of
   SimpleCircuit/Display.py they call (print_real / print_complex / print_sinosoidal / print_active_power), the getters of
   ComplexSolution (Circuit/solution.py) and the annotation part of SimpleSimulation/schematic.py (`solutions`, signature filtering, the
   annotation loops of fill) as REGENERATED on every run (Gen/AnnotationGen.v, produced by tools/gen_annotation.py in the
   vocabulary of Model/AnnotationPrims.v) are the hand-written model Model/Annotation.v.  With this the theorems of
   Properties/C14.v are statements about the code as read from the source: an edit (`sign*` dropped from a voltage text,
   a potential negated, get_current printing the voltage, precision / polar / deg not forwarded, peak_values on the wrong
   factory, /sqrt(2) on the wrong branch, a key dropped from `solutions`, reverse defaulting to True) changes
   Gen/AnnotationGen.v and breaks one of the equalities below, or is refused by the translator.
   Statements only; proofs are in Theory/AnnotationGenThm.v.
     sm_get q sm reverse   = the text the adapter object sm returns from get_voltage/current/power(name, reverse) /
                             get_potential(name)
     dc_get s q / cx_get s q / cx_w s  = what the solution object s answers for get_<q>(name) / its angular frequency
     rd : quantity -> reading          = the readings of the schematic's solution at the annotated name *)
From Coq Require Import List Bool ZArith NArith QArith Qabs Qpower Lia String.
From CC Require Import Theory.Field Theory.Complex Model.Network Model.Format Model.Circuit
  Theory.FormatThm Theory.FormatText Theory.FormatSig Model.Annotation Theory.AnnotationThm Theory.AnnotationCart
  Model.AnnotationPrims Gen.AnnotationGen Theory.AnnotationGenThm Properties.C14.
Import ListNotations.
Open Scope Z_scope.

(* ================= 0. SimpleCircuit/Display.py: the text functions the adapters call ================= *)
(* (the formatter below them, Utils.py, is Model/Format.v: C18) *)
Theorem C14c_default_prefixes : g_ScientificFloat_prefixes = tab_default /\ g_ScientificComplex_prefixes = tab_default.
Proof. exact gen_default_prefixes. Qed.
Theorem C14c_print_real : forall (x : Q) (un : label) (p : Z), g_print_real x un p = print_real x un p.
Proof. exact gen_print_real_eq. Qed.
Theorem C14c_print_complex : forall (PO : polar_oracle) (z : cval) (un : label) (p : Z) (polar deg : bool),
  g_print_complex PO z un p polar deg = print_complex PO z un p polar deg.
Proof. exact gen_print_complex_eq. Qed.
Theorem C14c_print_active_power : forall (x : Q) (p : Z), g_print_active_power x p = print_active_power x p.
Proof. exact gen_print_active_power_eq. Qed.
(* includes the sine reference (+pi/2 for sin, fix c7f5f7b), the 1e-4 phase threshold, hertz / deg renderings *)
Theorem C14c_print_sinosoidal : forall (SO : sin_oracle) (z : cval) (un : label) (p : Z) (w : Q) (sn deg hz : bool),
  g_print_sinosoidal SO z un p w sn deg hz = print_sinusoidal SO z un p w sn deg hz.
Proof. exact gen_print_sinosoidal_eq. Qed.
Print Assumptions C14c_print_sinosoidal.

(* ================= A. the adapter classes ================= *)
(* sign = -1 if reverse else 1; sign*value *)
Theorem C14c_sign_real : forall (r : bool) (x : Q), int_times_Q (if r then -1 else 1) x = sgnQ r x.
Proof. exact int_times_Q_sign. Qed.
Theorem C14c_sign_complex : forall (r : bool) (z : cval), int_times_C (if r then -1 else 1) z = sgnC r z.
Proof. exact int_times_C_sign. Qed.
Theorem C14c_empty_adapter : forall (q : quantity) (reverse : bool), sm_get q g_EmptyDiagramSolution reverse = [].
Proof. exact gen_empty_eq. Qed.
Theorem C14c_real_adapter : forall (sol : dc_solution) (p : Z) (q : quantity) (reverse : bool),
  sm_get q (g_RealNetworkDiagramSolution sol p) reverse = real_ann q reverse (dc_get sol q) p.
Proof. exact gen_real_eq. Qed.
Theorem C14c_complex_adapter : forall (PO : polar_oracle) (sol : cx_solution) (deg polar : bool) (p : Z) (q : quantity) (reverse : bool),
  sm_get q (g_ComplexNetworkDiagramSolution PO sol deg polar p) reverse = complex_ann PO q reverse (cx_get sol q) p polar deg.
Proof. exact gen_complex_eq. Qed.
Theorem C14c_time_domain_adapter : forall (SO : sin_oracle) (sol : cx_solution) (deg hertz sn : bool) (p : Z) (q : quantity) (reverse : bool),
  sm_get q (g_TimeDomainSteadyStateDiagramSolution SO sol deg hertz sn p) reverse
  = sin_ann SO q reverse (cx_get sol q) p (cx_w sol) sn deg hertz.
Proof. exact gen_time_domain_eq. Qed.
Print Assumptions C14c_real_adapter.
Print Assumptions C14c_complex_adapter.
Print Assumptions C14c_time_domain_adapter.

(* ================= B. what draw_* puts on the drawing ================= *)
(* drawn_spec (Model/AnnotationPrims.v, hand-written): label class of the quantity, the adapter's text for the requested
   direction, arrow reversed exactly when request and element direction differ ([label_reverse]), current label at the
   start unless end=True, colours, the label placed at the element *)
Theorem C14c_draw_voltage : forall (sm : solution_methods) (el_rev reverse : bool),
  g_draw_voltage sm el_rev reverse = drawn_spec QVoltage (sm_get QVoltage sm reverse) reverse el_rev false [].
Proof. exact gen_draw_voltage_eq. Qed.
Theorem C14c_draw_current : forall (sm : solution_methods) (el_rev reverse end_ : bool),
  g_draw_current sm el_rev reverse end_ = drawn_spec QCurrent (sm_get QCurrent sm reverse) reverse el_rev end_ [].
Proof. exact gen_draw_current_eq. Qed.
Theorem C14c_draw_power : forall (sm : solution_methods) (el_rev reverse : bool),
  g_draw_power sm el_rev reverse = drawn_spec QPower (sm_get QPower sm reverse) reverse el_rev false [].
Proof. exact gen_draw_power_eq. Qed.
Theorem C14c_draw_potential : forall (sm : solution_methods) (el_rev : bool) (loc : label),
  g_draw_potential sm el_rev loc = drawn_spec QPotential (sm_get QPotential sm false) false el_rev false loc.
Proof. exact gen_draw_potential_eq. Qed.
Theorem C14c_drawn_spec_meaning : forall q text reverse el_rev end_ loc,
  let d := drawn_spec q text reverse el_rev end_ loc in
  dr_text d = Some text /\ dr_at_element d = true /\
  dr_cls d = match q with QVoltage => LVoltageLabel | QCurrent => LCurrentLabel | QPower => LPowerLabel | QPotential => LLabelNode end /\
  dr_reverse d = match q with QVoltage | QCurrent => Some (label_reverse reverse el_rev) | _ => None end /\
  dr_start d = match q with QCurrent => Some (negb end_) | _ => None end /\
  dr_color d = Some match q with QVoltage | QPotential => Blue | QCurrent => Red | QPower => Green end /\
  dr_loc d = match q with QPotential => Some loc | _ => None end.
Proof. intros q text reverse el_rev end_ loc. destruct q; repeat split. Qed.
Print Assumptions C14c_draw_voltage.

(* ================= C. the factories ================= *)
Theorem C14c_empty_solution : forall PO SO rd q reverse,
  sm_get q (g_empty_solution rd) reverse = annotation PO SO AdEmpty q reverse (rd q).
Proof. exact gen_empty_solution_eq. Qed.
Theorem C14c_real_solution : forall PO SO rd p q reverse,
  sm_get q (g_real_solution rd p) reverse = annotation PO SO (AdReal p) q reverse (rd q).
Proof. exact gen_real_solution_eq. Qed.
Theorem C14c_complex_solution : forall PO SO rd p polar deg q reverse,
  sm_get q (g_complex_solution PO rd p polar deg) reverse = annotation PO SO (AdComplex None p polar deg) q reverse (rd q).
Proof. exact gen_complex_solution_eq. Qed.
Theorem C14c_single_frequency_complex_solution : forall PO SO rd w p polar deg q reverse,
  sm_get q (g_single_frequency_complex_solution PO rd w p polar deg) reverse
  = annotation PO SO (AdComplex (Some w) p polar deg) q reverse (rd q).
Proof. exact gen_single_frequency_complex_solution_eq. Qed.
(* FINDING recorded by the statement: the sinusoidal factory has no precision parameter, the texts always use 3 digits *)
Theorem C14c_time_domain_solution : forall PO SO rd w sn deg hertz q reverse,
  sm_get q (g_single_frequency_time_domain_steady_state_solution SO rd w sn deg hertz) reverse
  = annotation PO SO (AdSin w 3 sn deg hertz) q reverse (rd q).
Proof. exact gen_time_domain_solution_eq. Qed.
(* the solvers the factories build: DC; complex at w (0 when there is no frequency parameter); PEAK values for the
   sinusoidal adapter only (C14_agree_peak_rms presupposes exactly this) *)
Theorem C14c_solvers : forall rd w p polar deg sn hertz,
  g_real_solution_solver rd p = DCSolution_of rd /\
  g_complex_solution_solver rd p polar deg = ComplexSolution_of rd 0 false /\
  g_single_frequency_complex_solution_solver rd w p polar deg = ComplexSolution_of rd w false /\
  g_single_frequency_time_domain_steady_state_solution_solver rd w sn deg hertz = ComplexSolution_of rd w true.
Proof. exact gen_solvers. Qed.
Theorem C14c_factory_solvers :
  g_factory_solvers = [(lbl "empty_solution", None);
                       (lbl "single_frequency_time_domain_steady_state_solution", Some (CplxSol true true));
                       (lbl "single_frequency_complex_solution", Some (CplxSol true false));
                       (lbl "complex_solution", Some (CplxSol false false));
                       (lbl "real_solution", Some DCSol)].
Proof. exact gen_factory_solvers. Qed.
Print Assumptions C14c_real_solution.
Print Assumptions C14c_time_domain_solution.

(* ================= D. peak / rms in Circuit/solution.py ================= *)
Theorem C14c_complex_solution_getters : forall (R : fops) (sqrt2 : R) (s : csol R) (x : Cx R),
  g_ComplexSolution_get_voltage R sqrt2 (cs_peak s) x = unpeak R sqrt2 s x /\
  g_ComplexSolution_get_current R sqrt2 (cs_peak s) x = unpeak R sqrt2 s x /\
  g_ComplexSolution_get_potential R sqrt2 (cs_peak s) x = unpeak R sqrt2 s x.
Proof. intros R sqrt2 s x. split; [|split]; [apply gen_unpeak_voltage|apply gen_unpeak_current|apply gen_unpeak_potential]. Qed.
Theorem C14c_complex_solution_power : forall (R : fops) (s : csol R) (v i : Cx R),
  g_ComplexSolution_get_power R (cs_peak s) v i
  = if cs_peak s then fmul (Cx R) (fmul (Cx R) (cre R (half R)) v) (fconj (Cx R) i) else fmul (Cx R) v (fconj (Cx R) i).
Proof. exact gen_power_scaling. Qed.
Print Assumptions C14c_complex_solution_getters.

(* ================= E. the declarative route ================= *)
Theorem C14c_solutions : g_solutions = solutions.
Proof. exact gen_solutions_eq. Qed.
Theorem C14c_signatures : forall f : sol_fn, g_sol_signature f = sol_signature f.
Proof. exact gen_sol_signature_eq. Qed.
(* the adapter OBJECT a description creates writes, for every quantity and direction, the text of the model's adapter
   (and fails exactly when the model fails) *)
Theorem C14c_call_factory : forall PO SO (f : sol_fn) rd (params : ddict) q reverse,
  dres_map (fun sm => sm_get q sm reverse) (g_call_factory PO f rd params)
  = dres_map (fun ad => annotation PO SO ad q reverse (rd q)) (call_factory f params).
Proof. exact gen_call_factory_eq. Qed.
Theorem C14c_description_adapter : forall PO SO rd (data : ddict) q reverse,
  dres_map (fun sm => sm_get q sm reverse) (g_diagram_solution_creator PO rd data)
  = dres_map (fun ad => annotation PO SO ad q reverse (rd q)) (adapter_of_description data).
Proof. exact gen_creator_eq. Qed.
(* which list of a solution description is drawn with which draw_* (fill), and the defaults of the entries' options *)
Theorem C14c_annotation_lists : g_annotation_lists = annotation_lists.
Proof. exact gen_annotation_lists. Qed.
Theorem C14c_draw_defaults : g_draw_defaults = draw_defaults.
Proof. exact gen_draw_defaults. Qed.
Theorem C14c_entry_reverse_default : forall q : quantity, q <> QPotential ->
  exists l, In (q, l) g_draw_defaults /\ dlook l k_reverse = Some (DBool false).
Proof. exact gen_reverse_default. Qed.
Theorem C14c_potential_entry_has_no_reverse : forall l, In (QPotential, l) g_draw_defaults -> dlook l k_reverse = None.
Proof. exact gen_potential_no_reverse. Qed.
Print Assumptions C14c_description_adapter.
Print Assumptions C14c_annotation_lists.

(* ================= F. C14 for the regenerated adapters ================= *)
Definition neg_rd (rd : quantity -> reading) : quantity -> reading :=
  fun q => {| rd_real := (- rd_real (rd q))%Q; rd_cplx := ((- fst (rd_cplx (rd q)))%Q, (- snd (rd_cplx (rd q)))%Q) |}.
(* reverse = exactly the text of the negated quantity, for the objects built by the four non-empty factories *)
Theorem C14c_reverse_exact : forall PO SO rd w p polar deg sn hertz q, (q = QVoltage \/ q = QCurrent \/ q = QPower) ->
  sm_get q (g_real_solution rd p) true = sm_get q (g_real_solution (neg_rd rd) p) false /\
  sm_get q (g_complex_solution PO rd p polar deg) true = sm_get q (g_complex_solution PO (neg_rd rd) p polar deg) false /\
  sm_get q (g_single_frequency_complex_solution PO rd w p polar deg) true
    = sm_get q (g_single_frequency_complex_solution PO (neg_rd rd) w p polar deg) false /\
  sm_get q (g_single_frequency_time_domain_steady_state_solution SO rd w sn deg hertz) true
    = sm_get q (g_single_frequency_time_domain_steady_state_solution SO (neg_rd rd) w sn deg hertz) false.
Proof.
  intros PO SO rd w p polar deg sn hertz q Hq.
  rewrite !(gen_real_solution_eq PO SO), !(gen_complex_solution_eq PO SO), !(gen_single_frequency_complex_solution_eq PO SO),
    !(gen_time_domain_solution_eq PO SO).
  split; [|split; [|split]]; apply (C14_reverse_exact PO SO _ q (rd q) Hq).
Qed.
Theorem C14c_potential_has_no_reverse : forall PO SO rd w p polar deg sn hertz rev,
  sm_get QPotential (g_real_solution rd p) rev = sm_get QPotential (g_real_solution rd p) false /\
  sm_get QPotential (g_complex_solution PO rd p polar deg) rev = sm_get QPotential (g_complex_solution PO rd p polar deg) false /\
  sm_get QPotential (g_single_frequency_time_domain_steady_state_solution SO rd w sn deg hertz) rev
    = sm_get QPotential (g_single_frequency_time_domain_steady_state_solution SO rd w sn deg hertz) false.
Proof. intros. split; [|split]; reflexivity. Qed.
(* the text of the regenerated real adapter reads back to the quantity (C14_real_accurate) *)
Theorem C14c_real_accurate : forall (rd : quantity -> reading) (q : quantity) (reverse : bool) (p : Z),
  q <> QPower -> let x := rd_real (rd q) in
  ~ (x == 0)%Q -> 1 <= p -> ~ (2 <= p /\ carry_region_Q x p) -> exponent x p <= 3 ->
  let v := sgnQ (eff_reverse q reverse) x in
  exists r s, parse true tab_umk (unit_of q) (sm_get q (g_real_solution rd p) reverse) = Some r /\
    p_inf r = false /\ (p_neg r = true <-> (v < 0)%Q) /\
    sig_exp x p s /\ (Qabs (pvalue r - v) <= Qpow10 s / 2)%Q.
Proof.
  intros rd q reverse p Hq x H0 H1 H2 H3 v.
  rewrite (gen_real_solution_eq {| po_abs := fun _ => 0%Q; po_small := fun _ _ => false; po_text := fun _ _ => [] |}
                                {| so_abs := fun _ => 0%Q; so_arg := fun _ => 0%Q; so_add_halfpi := fun x => x; so_degrees := fun x => x; so_hz := fun x => x |}).
  exact (C14_real_accurate q reverse x p Hq H0 H1 H2 H3).
Qed.
Print Assumptions C14c_reverse_exact.
Print Assumptions C14c_real_accurate.

(* ================= witnesses (vm_compute), same expected texts as Properties/C14.v ================= *)
Definition rd0 : quantity -> reading := fun _ => {| rd_real := 5 # 2; rd_cplx := (3 # 1, -4 # 1) |}.
(* real_solution(schematic).get_voltage(name, reverse=True) = '-2.50V'; get_potential = '2.50V' *)
Example ex_gen_real_reverse : sm_get QVoltage (g_real_solution rd0 3) true = S [45; 50; 46; 53; 48; 86].
Proof. vm_compute. reflexivity. Qed.
Example ex_gen_real_potential : sm_get QPotential (g_real_solution rd0 3) true = S [50; 46; 53; 48; 86].
Proof. vm_compute. reflexivity. Qed.
Example ex_gen_real_hyps : let x := rd_real (rd0 QVoltage) in
  ~ (x == 0)%Q /\ 1 <= 3 /\ ~ (2 <= 3 /\ carry_region_Q x 3) /\ exponent x 3 <= 3.
Proof. exact ex_real_hyps. Qed.
(* complex_solution(schematic).get_current(name, reverse) for 3-4j: '3.00A-j4.00A' / '-3.00A+j4.00A' *)
Example ex_gen_cartesian : sm_get QCurrent (g_complex_solution PO0 rd0 3 false false) false
  = S [51; 46; 48; 48; 65; 45; 106; 52; 46; 48; 48; 65].
Proof. vm_compute. reflexivity. Qed.
Example ex_gen_cartesian_reverse : sm_get QCurrent (g_complex_solution PO0 rd0 3 false false) true
  = S [45; 51; 46; 48; 48; 65; 43; 106; 52; 46; 48; 48; 65].
Proof. vm_compute. reflexivity. Qed.
(* the sinusoidal factory: '5.00V·sin(2π·15.9Hz·t+143°)' for 3+4j at w = 100, sin, deg, hertz *)
Example ex_gen_sinusoid : sm_get QVoltage (g_single_frequency_time_domain_steady_state_solution SO0
     (fun _ => {| rd_real := 3 # 1; rd_cplx := (3 # 1, 4 # 1) |}) (100 # 1) true true true) false
  = S [53; 46; 48; 48; 86; 183; 115; 105; 110; 40; 50; 960; 183; 49; 53; 46; 57; 72; 122; 183; 116; 43; 49; 52; 51; 176; 41].
Proof. vm_compute. reflexivity. Qed.
(* draw_voltage on a reversed element, requested forward: the arrow of the label is reversed, the text is the forward one *)
Example ex_gen_draw : g_draw_voltage (g_real_solution rd0 3) true false
  = {| dr_cls := LVoltageLabel; dr_text := Some (S [50; 46; 53; 48; 86]); dr_reverse := Some true; dr_start := None;
       dr_color := Some Blue; dr_loc := None; dr_at_element := true |}.
Proof. vm_compute. reflexivity. Qed.
(* the declarative route: {'type': 'dc', 'precision': 4} -> the real adapter with 4 digits; an unknown type -> no text *)
Example ex_gen_description : dres_map (fun sm => sm_get QVoltage sm true)
    (g_diagram_solution_creator PO0 rd0 [(k_type, DStr (lbl "dc")); (k_precision, DInt 4); (lbl "voltages", DOther)])
  = DOk (S [45; 50; 46; 53; 48; 48; 86]).
Proof. vm_compute. reflexivity. Qed.
Example ex_gen_description_unknown : dres_map (fun sm => sm_get QVoltage sm true)
    (g_diagram_solution_creator PO0 rd0 [(k_type, DStr (lbl "transient"))]) = DOk [].
Proof. vm_compute. reflexivity. Qed.
Example ex_gen_description_schematic_key : dres_map (fun sm => sm_get QVoltage sm true)
    (g_diagram_solution_creator PO0 rd0 [(k_type, DStr (lbl "dc")); (k_schematic, DOther)]) = DErr DE_TypeError.
Proof. vm_compute. reflexivity. Qed.
