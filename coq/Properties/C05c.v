(* C05c — the reported voltage, current and power of the bias-point solution are the ones regenerated from the source on this run.
   Statements only; each proof is [exact] the theorem of the same statement in the property file it is listed under. *)
From Coq Require Import String.
From Coq Require Import List Bool ZArith NArith.
From CC Require Import Theory.Field Theory.Complex Theory.Labels Model.Network Model.Transformers Model.NetworkPrims
  Gen.NetworkGen Theory.Spec Theory.Mna Theory.Api Theory.NetworkGenThm.
Import ListNotations.
From Coq Require Import String.
From Coq Require Import List Bool ZArith NArith Permutation.
From CC Require Import Theory.Field Theory.Complex Theory.Labels Model.Network Model.Transformers Model.NetworkPrims
  Model.StateSpace Model.Port Model.MatrixPrims Gen.NetworkGen Gen.MatrixGen Theory.Api Theory.NetworkGenThm
  Theory.MatrixGenThm.
Import ListNotations.
From CC Require Import Properties.C01c Properties.C01d.

Theorem C05c_get_voltage : forall (K : fops) (s : solution K) (id : label),
  py_nodal.NodalAnalysisSolution_get_voltage K s id = get_voltage s id.
Proof. exact C01c_get_voltage. Qed.
Print Assumptions C05c_get_voltage.

Theorem C05c_get_current_solved : forall (K : fops) (KOK : fops_ok K) (n : network K) (s : solution K) (id : label),
  solve_network n = Ok s ->
  py_nodal.NodalAnalysisBiasPointSolution_get_current K s id = get_current s id /\
  py_nodal.NodalAnalysisSolution_get_power K s id = get_power s id.
Proof. exact C01c_get_current_solved. Qed.
Print Assumptions C05c_get_current_solved.

Theorem C05c_get_potential : forall (K : fops) (s : solution K) (l : label),
  py_nodal.NodalAnalysisBiasPointSolution_get_potential K s l = get_potential s l.
Proof. exact C01c_get_potential. Qed.
Print Assumptions C05c_get_potential.

Theorem C05c_solver_system : forall (K : fops) (KOK : fops_ok K) (n n' : network K), validate n = Ok n' ->
  bind (py_node_analysis.nodal_analysis_coefficient_matrix K n' (py_node_analysis.nodal_analysis_coefficient_matrix__default_node_mapper K)
          (py_node_analysis.nodal_analysis_coefficient_matrix__default_source_mapper K)) (fun A =>
  bind (py_node_analysis.nodal_analysis_constants_vector K n' (py_node_analysis.nodal_analysis_constants_vector__default_node_mapper K)
          (py_node_analysis.nodal_analysis_constants_vector__default_current_source_mapper K)
          (py_node_analysis.nodal_analysis_constants_vector__default_voltage_source_mapper K)) (fun b =>
  match np_linalg_solve A b with Some x => Ok {| s_net := n'; s_x := x |} | None => Err ESingular end))
  = solve_network n.
Proof. exact C01d_solver_system. Qed.
Print Assumptions C05c_solver_system.

