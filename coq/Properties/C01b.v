(* C01b — completeness of the executable solver: a valid, well-posed network never fails to solve.
   Discharges [C01_never_fails_full] of Properties/C01.v.  Statements only; proofs are [exact <lemma>]
   (lemmas in Theory/Gauss.v).  Generic in the field [K]. *)
From Coq Require Import List Bool ZArith NArith.
From CC Require Import Theory.Field Theory.Complex Theory.Labels Model.Network Theory.Spec Theory.Mna
  Theory.MnaComplete Theory.Api Theory.Gauss Properties.C01.
Import ListNotations.

(* The checked Gauss-Jordan solver succeeds on every square system whose homogeneous system has only
   the trivial solution. *)
Theorem C01b_solve_complete : forall (K : fops) (KOK : fops_ok K) (m : nat) (A : list (list K)) (b : list K),
  length A = m -> (forall r, In r A -> length r = m) -> length b = m ->
  (forall x, length x = m -> mat_vec A x = map (fun _ => f0 K) A -> x = map (fun _ => f0 K) x) ->
  exists x, solve A b = Some x.
Proof. exact solve_complete. Qed.
Print Assumptions C01b_solve_complete.

(* When it succeeds on a square system, what it returns is the only solution. *)
Theorem C01b_solve_unique : forall (K : fops) (KOK : fops_ok K) (m : nat) (A : list (list K)) (b x x' : list K),
  length A = m -> (forall r, In r A -> length r = m) -> length b = m ->
  solve A b = Some x -> length x' = m -> mat_vec A x' = b -> x' = x.
Proof. exact solve_unique. Qed.
Print Assumptions C01b_solve_unique.

(* Same completeness for the checked matrix inverse. *)
Theorem C01b_inverse_complete : forall (K : fops) (KOK : fops_ok K) (m : nat) (A : list (list K)),
  length A = m -> (forall r, In r A -> length r = m) ->
  (forall x, length x = m -> mat_vec A x = map (fun _ => f0 K) A -> x = map (fun _ => f0 K) x) ->
  exists X, inverse A = Some X.
Proof. exact inverse_complete. Qed.
Print Assumptions C01b_inverse_complete.

(* A well-formed network passes Network.__post_init__. *)
Theorem C01b_validate : forall (K : fops) (n : network K), wf n -> validate n = Ok n.
Proof. exact validate_wf. Qed.
Print Assumptions C01b_validate.

(* The property: no exception (FloatingGroundNode, AmbiguousBranchIDs, singular matrix) on a well-formed,
   well-posed network. *)
Theorem C01_never_fails : forall (K : fops) (KOK : fops_ok K) (n : network K),
  wf n -> WellPosed n -> exists s, solve_network n = Ok s.
Proof. exact solve_network_complete. Qed.
Print Assumptions C01_never_fails.

Theorem C01_never_fails_discharged : C01_never_fails_full.
Proof. exact C01_never_fails. Qed.
Print Assumptions C01_never_fails_discharged.

(* Conversely a successful run certifies well-posedness: on well-formed networks the solver succeeds
   exactly on the well-posed ones. *)
Theorem C01b_solved_wellposed : forall (K : fops) (KOK : fops_ok K) (n : network K),
  wf n -> forall s, solve_network n = Ok s -> WellPosed n.
Proof. exact solved_wellposed. Qed.
Print Assumptions C01b_solved_wellposed.

Theorem C01b_solved_iff_wellposed : forall (K : fops) (KOK : fops_ok K) (n : network K),
  wf n -> (WellPosed n <-> exists s, solve_network n = Ok s).
Proof. exact solve_network_iff. Qed.
Print Assumptions C01b_solved_iff_wellposed.

(* ---- non-vacuity on the network [ex_net] of Properties/C01.v ---- *)
Example C01b_example_hyps : wf ex_net /\ WellPosed ex_net.
Proof. destruct C01_example_solved as [s [Hs [WF _]]].
  split; [exact WF|exact (solved_wellposed CQ CQ_ok ex_net WF s Hs)]. Qed.

Example C01b_example_never_fails : exists s, solve_network ex_net = Ok s.
Proof. exact (C01_never_fails CQ CQ_ok ex_net (proj1 C01b_example_hyps) (proj2 C01b_example_hyps)). Qed.

(* the hypotheses of C01b_solve_complete / C01b_inverse_complete hold of its 4x4 MNA matrix *)
Example C01b_example_matrix :
  length (mna_matrix ex_net) = 4%nat /\ (forall r, In r (mna_matrix ex_net) -> length r = 4%nat)
  /\ length (mna_rhs ex_net) = 4%nat
  /\ (forall x, length x = 4%nat -> mat_vec (mna_matrix ex_net) x = map (fun _ => f0 CQ) (mna_matrix ex_net) ->
        x = map (fun _ => f0 CQ) x).
Proof. destruct C01b_example_hyps as [WF WP].
  split; [exact (proj1 (mna_square CQ ex_net))|].
  split; [exact (proj2 (mna_square CQ ex_net))|].
  split; [exact (mna_rhs_length CQ ex_net)|].
  exact (mna_kernel CQ CQ_ok ex_net WF WP). Qed.

Example C01b_example_solve : solve (mna_matrix ex_net) (mna_rhs ex_net) <> None.
Proof. vm_compute. discriminate. Qed.
Example C01b_example_inverse : inverse (mna_matrix ex_net) <> None.
Proof. vm_compute. discriminate. Qed.
