(* C03 — Invariance under renaming, listing order, terminal reversal and choice of the reference node.
   Statements only; every proof is [exact <lemma>] (lemmas in Theory/Invariance.v, Theory/WPCheck.v).
   Vocabulary: [solves n x] — x solves the MNA system assembled (with SORTED index maps) from n;
   [phi_of n x l] — potential of node l read off x; [flow_of n x b] — first->second terminal flow of branch b;
   [bvolt phi b] — voltage of b; [reported n x b] — what get_current reports (generator direction for linear
   sources); power = voltage * conj(reported current).  [WellPosed n] — the circuit equations of n have exactly
   one solution (on node potentials and branch flows). *)
From Coq Require Import List Bool ZArith NArith Permutation.
From CC Require Import Theory.Field Theory.Complex Theory.Labels Model.Network Theory.Spec Theory.Mna
  Theory.MnaComplete Theory.Api Theory.Invariance Theory.WPCheck.
Import ListNotations.

(* ===================================== 1. renaming ===================================== *)
(* rename_net sigma tau n: node labels through sigma, element names through tau.
   [inj_on ls f]: f is injective on the labels in ls ("any distinct strings"). *)

Theorem C03_rename_wf : forall (K : fops) (sigma tau : label -> label) (n : network K),
  wf n -> inj_on (node_labels n) sigma -> inj_on (branch_ids n) tau -> wf (rename_net sigma tau n).
Proof. exact wf_rename. Qed.
Print Assumptions C03_rename_wf.

Theorem C03_rename_wellposed : forall (K : fops) (KOK : fops_ok K) (sigma tau : label -> label) (n : network K),
  wf n -> inj_on (node_labels n) sigma -> inj_on (branch_ids n) tau ->
  (WellPosed n <-> WellPosed (rename_net sigma tau n)).
Proof. exact wellposed_rename. Qed.
Print Assumptions C03_rename_wellposed.

(* strongest form: injectivity only on the labels that occur *)
Theorem C03_rename_on : forall (K : fops) (KOK : fops_ok K) (sigma tau : label -> label) (n : network K)
    (x x' : list K),
  wf n -> WellPosed n -> inj_on (node_labels n) sigma -> inj_on (branch_ids n) tau ->
  solves n x -> solves (rename_net sigma tau n) x' ->
  (forall l, In l (node_labels n) -> phi_of (rename_net sigma tau n) x' (sigma l) = phi_of n x l)
  /\ (forall b, In b (branches n) ->
        flow_of (rename_net sigma tau n) x' (rename_branch sigma tau b) = flow_of n x b
        /\ bvolt (phi_of (rename_net sigma tau n) x') (rename_branch sigma tau b) = bvolt (phi_of n x) b
        /\ reported (rename_net sigma tau n) x' (rename_branch sigma tau b) = reported n x b
        /\ fmul K (bvolt (phi_of (rename_net sigma tau n) x') (rename_branch sigma tau b))
                  (fconj K (reported (rename_net sigma tau n) x' (rename_branch sigma tau b)))
           = fmul K (bvolt (phi_of n x) b) (fconj K (reported n x b))).
Proof. exact rename_invariant. Qed.
Print Assumptions C03_rename_on.

Theorem C03_rename : forall (K : fops) (KOK : fops_ok K) (sigma tau : label -> label) (n : network K)
    (x x' : list K),
  wf n -> WellPosed n ->
  (forall a b, sigma a = sigma b -> a = b) -> (forall a b, tau a = tau b -> a = b) ->
  solves n x -> solves (rename_net sigma tau n) x' ->
  (forall l, In l (node_labels n) -> phi_of (rename_net sigma tau n) x' (sigma l) = phi_of n x l)
  /\ (forall b, In b (branches n) ->
        flow_of (rename_net sigma tau n) x' (rename_branch sigma tau b) = flow_of n x b
        /\ bvolt (phi_of (rename_net sigma tau n) x') (rename_branch sigma tau b) = bvolt (phi_of n x) b
        /\ reported (rename_net sigma tau n) x' (rename_branch sigma tau b) = reported n x b
        /\ fmul K (bvolt (phi_of (rename_net sigma tau n) x') (rename_branch sigma tau b))
                  (fconj K (reported (rename_net sigma tau n) x' (rename_branch sigma tau b)))
           = fmul K (bvolt (phi_of n x) b) (fconj K (reported n x b))).
Proof. exact rename_invariant_inj. Qed.
Print Assumptions C03_rename.

(* what the API returns on the two solution records *)
Theorem C03_rename_api : forall (K : fops) (KOK : fops_ok K) (sigma tau : label -> label) (n : network K)
    (s s' : solution K),
  wf n -> WellPosed n -> inj_on (node_labels n) sigma -> inj_on (branch_ids n) tau ->
  solve_network n = Ok s -> solve_network (rename_net sigma tau n) = Ok s' ->
  (forall l, In l (node_labels n) -> get_potential s' (sigma l) = get_potential s l)
  /\ (forall b, In b (branches n) ->
        get_voltage s' (tau (bid b)) = get_voltage s (bid b)
        /\ get_current s' (tau (bid b)) = get_current s (bid b)
        /\ get_power s' (tau (bid b)) = get_power s (bid b)).
Proof. exact rename_api. Qed.
Print Assumptions C03_rename_api.

(* ===================================== 2. listing order ===================================== *)
Theorem C03_perm_wf : forall (K : fops) (n n' : network K),
  wf n -> Permutation (branches n) (branches n') -> zero n' = zero n -> wf n'.
Proof. exact wf_perm. Qed.
Print Assumptions C03_perm_wf.

Theorem C03_perm_wellposed : forall (K : fops) (KOK : fops_ok K) (n n' : network K),
  wf n -> Permutation (branches n) (branches n') -> zero n' = zero n -> WellPosed n -> WellPosed n'.
Proof. exact wellposed_perm. Qed.
Print Assumptions C03_perm_wellposed.

Theorem C03_perm : forall (K : fops) (KOK : fops_ok K) (n n' : network K) (x x' : list K),
  wf n -> WellPosed n -> Permutation (branches n) (branches n') -> zero n' = zero n ->
  solves n x -> solves n' x' ->
  (forall l, In l (node_labels n) -> phi_of n' x' l = phi_of n x l)
  /\ (forall b, In b (branches n) ->
        flow_of n' x' b = flow_of n x b
        /\ bvolt (phi_of n' x') b = bvolt (phi_of n x) b
        /\ reported n' x' b = reported n x b
        /\ fmul K (bvolt (phi_of n' x') b) (fconj K (reported n' x' b))
           = fmul K (bvolt (phi_of n x) b) (fconj K (reported n x b))).
Proof. exact perm_invariant. Qed.
Print Assumptions C03_perm.

Theorem C03_perm_api : forall (K : fops) (KOK : fops_ok K) (n n' : network K) (s s' : solution K),
  wf n -> WellPosed n -> Permutation (branches n) (branches n') -> zero n' = zero n ->
  solve_network n = Ok s -> solve_network n' = Ok s' ->
  (forall l, In l (node_labels n) -> get_potential s' l = get_potential s l)
  /\ (forall b, In b (branches n) ->
        get_voltage s' (bid b) = get_voltage s (bid b)
        /\ get_current s' (bid b) = get_current s (bid b)
        /\ get_power s' (bid b) = get_power s (bid b)).
Proof. exact perm_api. Qed.
Print Assumptions C03_perm_api.

(* ===================================== 3. terminal reversal ===================================== *)
(* reverse_net r n: every branch whose id satisfies r has its terminals swapped and its source value
   (V of a Z/V element, I of a Y/I element) negated: rev_branch. *)
Theorem C03_reverse_wf : forall (K : fops) (r : label -> bool) (n : network K), wf n -> wf (reverse_net r n).
Proof. exact wf_reverse. Qed.
Print Assumptions C03_reverse_wf.

Theorem C03_reverse_wellposed : forall (K : fops) (KOK : fops_ok K) (r : label -> bool) (n : network K),
  wf n -> WellPosed n -> WellPosed (reverse_net r n).
Proof. exact wellposed_reverse. Qed.
Print Assumptions C03_reverse_wellposed.

Theorem C03_reverse : forall (K : fops) (KOK : fops_ok K) (r : label -> bool) (n : network K) (x x' : list K),
  wf n -> WellPosed n -> solves n x -> solves (reverse_net r n) x' ->
  (forall l, In l (node_labels n) -> phi_of (reverse_net r n) x' l = phi_of n x l)
  /\ (forall b, In b (branches n) -> r (bid b) = true ->
        In (rev_branch b) (branches (reverse_net r n))
        /\ flow_of (reverse_net r n) x' (rev_branch b) = fopp K (flow_of n x b)
        /\ bvolt (phi_of (reverse_net r n) x') (rev_branch b) = fopp K (bvolt (phi_of n x) b)
        /\ reported (reverse_net r n) x' (rev_branch b) = fopp K (reported n x b)
        /\ fmul K (bvolt (phi_of (reverse_net r n) x') (rev_branch b))
                  (fconj K (reported (reverse_net r n) x' (rev_branch b)))
           = fmul K (bvolt (phi_of n x) b) (fconj K (reported n x b)))
  /\ (forall b, In b (branches n) -> r (bid b) = false ->
        In b (branches (reverse_net r n))
        /\ flow_of (reverse_net r n) x' b = flow_of n x b
        /\ bvolt (phi_of (reverse_net r n) x') b = bvolt (phi_of n x) b
        /\ reported (reverse_net r n) x' b = reported n x b
        /\ fmul K (bvolt (phi_of (reverse_net r n) x') b) (fconj K (reported (reverse_net r n) x' b))
           = fmul K (bvolt (phi_of n x) b) (fconj K (reported n x b))).
Proof. exact reverse_invariant_explicit. Qed.
Print Assumptions C03_reverse.

Theorem C03_reverse_api : forall (K : fops) (KOK : fops_ok K) (r : label -> bool) (n : network K)
    (s s' : solution K),
  wf n -> WellPosed n -> solve_network n = Ok s -> solve_network (reverse_net r n) = Ok s' ->
  (forall l, In l (node_labels n) -> get_potential s' l = get_potential s l)
  /\ (forall b, In b (branches n) -> exists v i,
        get_voltage s (bid b) = Ok v /\ get_current s (bid b) = Ok i
        /\ get_power s (bid b) = Ok (fmul K v (fconj K i))
        /\ get_voltage s' (bid b) = Ok (if r (bid b) then fopp K v else v)
        /\ get_current s' (bid b) = Ok (if r (bid b) then fopp K i else i)
        /\ get_power s' (bid b) = Ok (fmul K v (fconj K i))).
Proof. exact reverse_api. Qed.
Print Assumptions C03_reverse_api.

(* ===================================== 4. reference node ===================================== *)
Theorem C03_reground_wf : forall (K : fops) (g : label) (n : network K),
  wf n -> In g (node_labels n) -> wf (reground g n).
Proof. exact wf_reground. Qed.
Print Assumptions C03_reground_wf.

Theorem C03_reground_wellposed : forall (K : fops) (KOK : fops_ok K) (g : label) (n : network K),
  wf n -> In g (node_labels n) -> WellPosed n -> WellPosed (reground g n).
Proof. exact wellposed_reground. Qed.
Print Assumptions C03_reground_wellposed.

Theorem C03_reground : forall (K : fops) (KOK : fops_ok K) (g : label) (n : network K) (x x' : list K),
  wf n -> WellPosed n -> In g (node_labels n) -> solves n x -> solves (reground g n) x' ->
  (forall l, In l (node_labels n) -> phi_of (reground g n) x' l = fsub K (phi_of n x l) (phi_of n x g))
  /\ (forall b, In b (branches n) ->
        flow_of (reground g n) x' b = flow_of n x b
        /\ bvolt (phi_of (reground g n) x') b = bvolt (phi_of n x) b
        /\ reported (reground g n) x' b = reported n x b
        /\ fmul K (bvolt (phi_of (reground g n) x') b) (fconj K (reported (reground g n) x' b))
           = fmul K (bvolt (phi_of n x) b) (fconj K (reported n x b))).
Proof. exact reground_invariant. Qed.
Print Assumptions C03_reground.

Theorem C03_reground_api : forall (K : fops) (KOK : fops_ok K) (g : label) (n : network K) (s s' : solution K),
  wf n -> WellPosed n -> In g (node_labels n) ->
  solve_network n = Ok s -> solve_network (reground g n) = Ok s' ->
  (forall l, In l (node_labels n) -> exists p pg,
        get_potential s l = Ok p /\ get_potential s g = Ok pg /\ get_potential s' l = Ok (fsub K p pg))
  /\ (forall b, In b (branches n) ->
        get_voltage s' (bid b) = get_voltage s (bid b)
        /\ get_current s' (bid b) = get_current s (bid b)
        /\ get_power s' (bid b) = get_power s (bid b)).
Proof. exact reground_api. Qed.
Print Assumptions C03_reground_api.

(* A boolean certificate of well-posedness, so that [WellPosed] is a checkable hypothesis:
   the solver succeeds and the computed inverse of the MNA matrix is also a left inverse. *)
Theorem C03_wellposed_certificate : forall (K : fops) (KOK : fops_ok K) (n : network K),
  wfb n = true -> wpb n = true -> WellPosed n.
Proof. exact @wpb_ok. Qed.
Print Assumptions C03_wellposed_certificate.

(* ===================================== non-vacuity ===================================== *)
(* Nodes "0" (reference), "1", "10", "2", "9"; two ideal voltage sources U, V; a linear voltage source L; an
   ideal current source I; a linear current source J; passive R, S, Z (a Z-type element), Y (a Y-type element, anti-parallel to Z). *)
Definition L (z : Z) : label := [Z.to_N z].
Definition n10 : label := [49%N; 48%N].
Definition ex_net : network CQ :=
  {| zero := L 48;
     branches := [ Build_branch (L 49) (L 48) (voltage_source (L 86) (cq 5 1 1 1) (cq 0 1 0 1));
                   Build_branch (L 49) n10 (resistor (L 82) (cq 2 1 0 1));
                   Build_branch n10 (L 57) (impedance (L 90) (cq 3 1 4 1));
                   Build_branch (L 57) n10 (conductor (L 89) (cq 1 2 (-1) 4));
                   Build_branch (L 48) (L 57) (voltage_source (L 76) (cq 7 1 0 1) (cq 2 1 1 1));
                   Build_branch (L 57) (L 49) (current_source (L 73) (cq (-2) 1 1 2) (cq 0 1 0 1));
                   Build_branch (L 50) n10 (voltage_source (L 85) (cq 1 1 (-1) 1) (cq 0 1 0 1));
                   Build_branch (L 50) (L 48) (resistor (L 83) (cq 3 1 0 1));
                   Build_branch (L 50) (L 57) (current_source (L 74) (cq 1 1 0 1) (cq 1 3 0 1)) ] |}.

Example C03_ex_wf : wfb ex_net = true.
Proof. vm_compute. reflexivity. Qed.
Example C03_ex_wpb : wpb ex_net = true.
Proof. vm_compute. reflexivity. Qed.
Example C03_ex_wellposed : WellPosed ex_net.
Proof. exact (wpb_ok CQ_ok ex_net C03_ex_wf C03_ex_wpb). Qed.
Example C03_ex_wf' : wf ex_net.
Proof. exact (proj1 (wfb_ok ex_net C03_ex_wf)). Qed.
Example C03_ex_solved : solvedb ex_net = true.
Proof. vm_compute. reflexivity. Qed.

(* --- renaming: node "10" becomes "A" (now sorts after "9"), source "U" becomes "W" (now sorts after "V") --- *)
Definition ex_sigma : label -> label := swap_label n10 (L 65).
Definition ex_tau : label -> label := swap_label (L 85) (L 87).
Definition ex_ren : network CQ := rename_net ex_sigma ex_tau ex_net.

Example C03_ex_sigma_inj : forall a b, ex_sigma a = ex_sigma b -> a = b.
Proof. exact (swap_label_inj n10 (L 65)). Qed.
Example C03_ex_tau_inj : forall a b, ex_tau a = ex_tau b -> a = b.
Proof. exact (swap_label_inj (L 85) (L 87)). Qed.

Example C03_ex_node_order : node_index ex_net = [L 49; n10; L 50; L 57] /\ node_index ex_ren = [L 49; L 50; L 57; L 65].
Proof. vm_compute. split; reflexivity. Qed.
Example C03_ex_source_order : vs_index ex_net = [L 85; L 86] /\ vs_index ex_ren = [L 86; L 87].
Proof. vm_compute. split; reflexivity. Qed.
Example C03_ex_ren_solved : wfb ex_ren = true /\ solvedb ex_ren = true.
Proof. vm_compute. split; reflexivity. Qed.

Example C03_ex_rename_applies : exists s s', solve_network ex_net = Ok s /\ solve_network ex_ren = Ok s'
  /\ (forall l, In l (node_labels ex_net) -> get_potential s' (ex_sigma l) = get_potential s l)
  /\ (forall b, In b (branches ex_net) ->
        get_voltage s' (ex_tau (bid b)) = get_voltage s (bid b)
        /\ get_current s' (ex_tau (bid b)) = get_current s (bid b)
        /\ get_power s' (ex_tau (bid b)) = get_power s (bid b)).
Proof.
  destruct (solvedb_ok CQ_ok ex_net C03_ex_wf C03_ex_solved) as [s [E _]].
  destruct (solvedb_ok CQ_ok ex_ren (proj1 C03_ex_ren_solved) (proj2 C03_ex_ren_solved)) as [s' [E' _]].
  exists s, s'. split; [exact E|]. split; [exact E'|].
  exact (C03_rename_api CQ CQ_ok ex_sigma ex_tau ex_net s s' C03_ex_wf' C03_ex_wellposed
           (inj_inj_on _ _ C03_ex_sigma_inj) (inj_inj_on _ _ C03_ex_tau_inj) E E').
Qed.

(* --- listing order: the branch list reversed --- *)
Definition ex_perm : network CQ := {| branches := rev (branches ex_net); zero := zero ex_net |}.
Example C03_ex_perm_hyp : Permutation (branches ex_net) (branches ex_perm) /\ zero ex_perm = zero ex_net.
Proof. split; [apply Permutation_rev|reflexivity]. Qed.
Example C03_ex_perm_solved : solvedb ex_perm = true.
Proof. vm_compute. reflexivity. Qed.
Example C03_ex_perm_applies : exists s s', solve_network ex_net = Ok s /\ solve_network ex_perm = Ok s'
  /\ (forall l, In l (node_labels ex_net) -> get_potential s' l = get_potential s l)
  /\ (forall b, In b (branches ex_net) ->
        get_voltage s' (bid b) = get_voltage s (bid b)
        /\ get_current s' (bid b) = get_current s (bid b)
        /\ get_power s' (bid b) = get_power s (bid b)).
Proof.
  destruct (solvedb_ok CQ_ok ex_net C03_ex_wf C03_ex_solved) as [s [E _]].
  assert (W : wfb ex_perm = true) by (vm_compute; reflexivity).
  destruct (solvedb_ok CQ_ok ex_perm W C03_ex_perm_solved) as [s' [E' _]].
  exists s, s'. split; [exact E|]. split; [exact E'|].
  exact (C03_perm_api CQ CQ_ok ex_net ex_perm s s' C03_ex_wf' C03_ex_wellposed
           (proj1 C03_ex_perm_hyp) (proj2 C03_ex_perm_hyp) E E').
Qed.

(* --- reversal of an ideal voltage source (V), an impedance (Z), a linear voltage source (L),
       an ideal current source (I) and a linear current source (J) --- *)
Definition ex_r (id : label) : bool :=
  lmem id [L 86; L 90; L 76; L 73; L 74].
Definition ex_rev : network CQ := reverse_net ex_r ex_net.
Example C03_ex_rev_solved : wfb ex_rev = true /\ solvedb ex_rev = true.
Proof. vm_compute. split; reflexivity. Qed.
Example C03_ex_rev_some : exists b b', In b (branches ex_net) /\ ex_r (bid b) = true
                                       /\ In b' (branches ex_net) /\ ex_r (bid b') = false.
Proof. exists (Build_branch (L 49) (L 48) (voltage_source (L 86) (cq 5 1 1 1) (cq 0 1 0 1))),
              (Build_branch (L 49) n10 (resistor (L 82) (cq 2 1 0 1))).
  split; [left; reflexivity|]. split; [reflexivity|]. split; [right; left; reflexivity|reflexivity]. Qed.
Example C03_ex_reverse_applies : exists s s', solve_network ex_net = Ok s /\ solve_network ex_rev = Ok s'
  /\ (forall l, In l (node_labels ex_net) -> get_potential s' l = get_potential s l)
  /\ (forall b, In b (branches ex_net) -> exists v i,
        get_voltage s (bid b) = Ok v /\ get_current s (bid b) = Ok i
        /\ get_power s (bid b) = Ok (fmul CQ v (fconj CQ i))
        /\ get_voltage s' (bid b) = Ok (if ex_r (bid b) then fopp CQ v else v)
        /\ get_current s' (bid b) = Ok (if ex_r (bid b) then fopp CQ i else i)
        /\ get_power s' (bid b) = Ok (fmul CQ v (fconj CQ i))).
Proof.
  destruct (solvedb_ok CQ_ok ex_net C03_ex_wf C03_ex_solved) as [s [E _]].
  destruct (solvedb_ok CQ_ok ex_rev (proj1 C03_ex_rev_solved) (proj2 C03_ex_rev_solved)) as [s' [E' _]].
  exists s, s'. split; [exact E|]. split; [exact E'|].
  exact (C03_reverse_api CQ CQ_ok ex_r ex_net s s' C03_ex_wf' C03_ex_wellposed E E').
Qed.

(* --- reference node moved from "0" to "10" --- *)
Definition ex_gnd : network CQ := reground n10 ex_net.
Example C03_ex_gnd_hyp : In n10 (node_labels ex_net).
Proof. apply lmem_spec. vm_compute. reflexivity. Qed.
Example C03_ex_gnd_solved : wfb ex_gnd = true /\ solvedb ex_gnd = true.
Proof. vm_compute. split; reflexivity. Qed.
(* the shift is not trivial: the potential of "10" in the original description is not 0 *)
Example C03_ex_gnd_shift :
  match solve_network ex_net with
  | Ok s => match get_potential s n10 with Ok p => negb (feqb CQ p (f0 CQ)) | Err _ => false end
  | Err _ => false
  end = true.
Proof. vm_compute. reflexivity. Qed.
Example C03_ex_reground_applies : exists s s', solve_network ex_net = Ok s /\ solve_network ex_gnd = Ok s'
  /\ (forall l, In l (node_labels ex_net) -> exists p pg,
        get_potential s l = Ok p /\ get_potential s n10 = Ok pg /\ get_potential s' l = Ok (fsub CQ p pg))
  /\ (forall b, In b (branches ex_net) ->
        get_voltage s' (bid b) = get_voltage s (bid b)
        /\ get_current s' (bid b) = get_current s (bid b)
        /\ get_power s' (bid b) = get_power s (bid b)).
Proof.
  destruct (solvedb_ok CQ_ok ex_net C03_ex_wf C03_ex_solved) as [s [E _]].
  destruct (solvedb_ok CQ_ok ex_gnd (proj1 C03_ex_gnd_solved) (proj2 C03_ex_gnd_solved)) as [s' [E' _]].
  exists s, s'. split; [exact E|]. split; [exact E'|].
  exact (C03_reground_api CQ CQ_ok n10 ex_net s s' C03_ex_wf' C03_ex_wellposed C03_ex_gnd_hyp E E').
Qed.
