(* placeholder: theorems follow *)
From CC Require Import Model.Circuit.
Example C17_model_runs : True. Proof. exact I. Qed.
