(* C17 — Every documented element kind of a network or circuit description loads into an element with exactly the given
   identifier, terminals and value; Cartesian and polar (radian or degree) complex notations denote the same number;
   complex values nested anywhere in dictionaries and lists survive a round trip unchanged; loading never mutates the
   description it is given, so loading the same description twice gives equal results.
   Statements only; every proof is [exact <lemma>].  Model: Model/Loaders.v — an interpreter of the tables regenerated
   from Network/loaders.py, Network/elements.py, Circuit/components.py, Circuit/dump_load.py (Gen/Tables.v), plus
   dump_load.py.  R: the reals (any field with a boolean <=), Cx R: Python complex; [cis x] = (cos x, sin x) and [pi]
   are oracles.  The JSON / YAML text layer itself (json.dumps/loads, yaml.dump/safe_load) is not modelled. *)
From Coq Require Import List Bool ZArith NArith QArith Qcanon String.
From CC Require Import Theory.Field Theory.Complex Theory.Labels Model.Network Gen.Tables Model.Circuit Model.RunCircuit
  Model.Loaders Theory.LoadersThm.
Import ListNotations.

(* ================= A. network descriptions: every kind of the loader table ================= *)
(* The documented kinds: type string, keys written in complex notation, keys written as plain numbers, and the element
   meant ([arg v i]: the i-th value, complex keys first; [c0] = 0).  Y of the current sources and Z of the voltage
   sources are optional where the loader passes them on unconverted. *)
Definition C17_documented_kinds (R : fops) : list (kdoc R) := [
  {| k_type := lbl "resistor"; k_cplx := []; k_real := [s_R]; k_elem := fun n v => resistor n (arg R v 0) |};
  {| k_type := lbl "conductor"; k_cplx := []; k_real := [s_G]; k_elem := fun n v => conductor n (arg R v 0) |};
  {| k_type := lbl "impedance"; k_cplx := [s_Z]; k_real := []; k_elem := fun n v => impedance n (arg R v 0) |};
  {| k_type := lbl "admittance"; k_cplx := [s_Y]; k_real := []; k_elem := fun n v => admittance n (arg R v 0) |};
  {| k_type := lbl "linear_current_source"; k_cplx := [s_I; s_Y]; k_real := [];
     k_elem := fun n v => current_source n (arg R v 0) (arg R v 1) |};
  {| k_type := lbl "current_source"; k_cplx := [s_I]; k_real := []; k_elem := fun n v => current_source n (arg R v 0) (c0 R) |};
  {| k_type := lbl "current_source"; k_cplx := [s_I]; k_real := [s_Y]; k_elem := fun n v => current_source n (arg R v 0) (arg R v 1) |};
  {| k_type := lbl "real_current_source"; k_cplx := []; k_real := [s_I]; k_elem := fun n v => current_source n (arg R v 0) (c0 R) |};
  {| k_type := lbl "real_current_source"; k_cplx := []; k_real := [s_I; s_Y];
     k_elem := fun n v => current_source n (arg R v 0) (arg R v 1) |};
  {| k_type := lbl "linear_voltage_source"; k_cplx := [s_V; s_Z]; k_real := [];
     k_elem := fun n v => voltage_source n (arg R v 0) (arg R v 1) |};
  {| k_type := lbl "voltage_source"; k_cplx := [s_V]; k_real := []; k_elem := fun n v => voltage_source n (arg R v 0) (c0 R) |};
  {| k_type := lbl "voltage_source"; k_cplx := [s_V]; k_real := [s_Z]; k_elem := fun n v => voltage_source n (arg R v 0) (arg R v 1) |};
  {| k_type := lbl "real_voltage_source"; k_cplx := []; k_real := [s_V]; k_elem := fun n v => voltage_source n (arg R v 0) (c0 R) |};
  {| k_type := lbl "real_voltage_source"; k_cplx := []; k_real := [s_V; s_Z];
     k_elem := fun n v => voltage_source n (arg R v 0) (arg R v 1) |};
  {| k_type := lbl "short_circuit"; k_cplx := []; k_real := []; k_elem := fun n v => short_circuit n |};
  {| k_type := lbl "open_circuit"; k_cplx := []; k_real := []; k_elem := fun n v => open_circuit n |}
]%string.

(* the table above and network_branch_translators name the same kinds: none undocumented, none invented *)
Theorem C17_kinds_covered : forall (R : fops),
  (forall e, In e network_loader_table -> exists k, In k (C17_documented_kinds R) /\ k_type R k = l_type e)
  /\ (forall k, In k (C17_documented_kinds R) -> exists e, In e network_loader_table /\ l_type e = k_type R k).
Proof. exact kinds_covered. Qed.
Print Assumptions C17_kinds_covered.

(* One written entry  {type, id, N1, N2, <complex keys in either notation>, <plain keys>}  — identifier, terminals and
   values universally quantified; a complex value is written  Cart re im = {real, imag}  or  Polar r ph = {abs, phase}
   and means  note_val = (re, im)  resp.  (r cos ph, r sin ph) — loads to exactly the branch between N1 and N2 carrying
   the element the kind's constructor builds from these values. *)
Theorem C17_each_kind : forall (R : fops) (pi : R) (cis : R -> R * R) (k : kdoc R) (id n1 n2 : label) (cs : list (cnote R)) (rs : list R),
  In k (C17_documented_kinds R) -> List.length cs = List.length (k_cplx R k) -> List.length rs = List.length (k_real R k) ->
  let entry := JDict ((s_type, JStr (k_type R k)) :: (s_id, JStr id) :: (s_N1, JStr n1) :: (s_N2, JStr n2)
                      :: combine (k_cplx R k) (map (note_doc R) cs) ++ combine (k_real R k) (map (fun x => JNum x) rs)) in
  fst (entry_to_branch_st R pi cis true entry)
  = Ok (Build_branch n1 n2 (k_elem R k id (map (note_val R cis) cs ++ map (fun x => ((x, f0 R) : Cx R)) rs))).
Proof. exact each_kind_entry_unfolded. Qed.
Print Assumptions C17_each_kind.

(* A whole description — any number of such entries in any order of kinds, each at any position — loads to exactly the
   listed branches in the listed order with reference "0", through the validating Network constructor. *)
Theorem C17_each_kind_description : forall (R : fops) (pi : R) (cis : R -> R * R) (es : list (espec R)),
  (forall e, In e es -> In (e_kind R e) (C17_documented_kinds R)
                        /\ List.length (e_cs R e) = List.length (k_cplx R (e_kind R e))
                        /\ List.length (e_rs R e) = List.length (k_real R (e_kind R e))) ->
  load_network R pi cis (JList (map (entry_doc R) es))
  = validate {| branches := map (entry_branch R cis) es; zero := s_zero |}.
Proof. exact each_kind_description. Qed.
Print Assumptions C17_each_kind_description.

(* The order in which the keys of an entry are written is immaterial: any permutation of the items of a documented entry
   (its keys are distinct) loads to the same branch ... *)
Theorem C17_each_kind_any_order : forall (R : fops) (pi : R) (cis : R -> R * R) (e : espec R) (d : dict (jval R)),
  (In (e_kind R e) (C17_documented_kinds R) /\ List.length (e_cs R e) = List.length (k_cplx R (e_kind R e))
   /\ List.length (e_rs R e) = List.length (k_real R (e_kind R e))) ->
  Permutation.Permutation d (entry_dict R e) ->
  fst (entry_to_branch_st R pi cis true (JDict d)) = Ok (entry_branch R cis e).
Proof. exact each_kind_any_order. Qed.
Print Assumptions C17_each_kind_any_order.
(* ... and so does a whole description whose entries are each written in an order of their own *)
Theorem C17_each_kind_description_any_order : forall (R : fops) (pi : R) (cis : R -> R * R) (es : list (espec R * dict (jval R))),
  (forall p, In p es -> (In (e_kind R (fst p)) (C17_documented_kinds R)
                         /\ List.length (e_cs R (fst p)) = List.length (k_cplx R (e_kind R (fst p)))
                         /\ List.length (e_rs R (fst p)) = List.length (k_real R (e_kind R (fst p))))
                        /\ Permutation.Permutation (snd p) (entry_dict R (fst p))) ->
  load_network R pi cis (JList (map (fun p => JDict (snd p)) es))
  = validate {| branches := map (fun p => entry_branch R cis (fst p)) es; zero := s_zero |}.
Proof. exact each_kind_description_any_order. Qed.
Print Assumptions C17_each_kind_description_any_order.

(* ================= B. the circuit loader ================= *)
(* a complete component description {id, type, nodes, value} is the call of the constructor the table names for its
   type, with exactly these arguments (a TypeError of the call is reported as IncorrectComponentInformation) ... *)
Theorem C17_component_call : forall (R : fops) (leb : R -> R -> bool) (d vd : dict (jval R)) (idv nv : jval R) (t f : label),
  dget d s_id = Some idv -> dget d s_value = Some (JDict vd) -> dget d s_type = Some (JStr t) -> dget d s_nodes = Some nv ->
  tfind t circuit_loader_table = Some f ->
  generate_component R leb (JDict d) = typeerror_to_incorrect (construct R leb f ((s_id, idv) :: (s_nodes, nv) :: vd)).
Proof. exact generate_component_call. Qed.
Print Assumptions C17_component_call.
(* ... that constructor stores the row's own type string ... *)
Theorem C17_component_table : forall t f, In (t, f) circuit_loader_table -> exists c, find_ctor_fun f = Some c /\ c_type c = t.
Proof. exact circuit_table_ok. Qed.
Print Assumptions C17_component_table.
(* ... and an accepted call carries exactly the type of the table, the identifier and terminals given ... *)
Theorem C17_component_identity : forall (R : fops) (leb : R -> R -> bool) (c : ctor) (kw : dict (jval R)) (cmp : lcomp R) (i : label) (ns : list label),
  run_ctor R leb c kw = Ok cmp -> dget kw s_id = Some (JStr i) -> dget kw s_nodes = Some (JList (map (fun n => JStr n) ns)) ->
  lc_type cmp = c_type c /\ lc_id cmp = i /\ lc_nodes cmp = ns.
Proof. exact ctor_stored. Qed.
Print Assumptions C17_component_identity.
(* ... and the values given: under every key the constructor writes a parameter to (VParam: as given; VReal / VImag:
   the real / imaginary part of a complex or real argument) *)
Theorem C17_component_values : forall (R : fops) (leb : R -> R -> bool) (c : ctor) (kw : dict (jval R)) (cmp : lcomp R) (key q : label) (v : jval R),
  run_ctor R leb c kw = Ok cmp -> dget kw q = Some v ->
  (In (key, VParam q) (c_values c) -> In (key, v) (lc_value cmp))
  /\ (forall z, v = JCplx z -> In (key, VReal q) (c_values c) -> In (key, JNum (fst z)) (lc_value cmp))
  /\ (forall z, v = JCplx z -> In (key, VImag q) (c_values c) -> In (key, JNum (snd z)) (lc_value cmp))
  /\ (forall x, v = JNum x -> In (key, VReal q) (c_values c) -> In (key, JNum x) (lc_value cmp))
  /\ (forall x, v = JNum x -> In (key, VImag q) (c_values c) -> In (key, JNum (f0 R)) (lc_value cmp)).
Proof. exact ctor_values_stored. Qed.
Print Assumptions C17_component_values.

(* ================= C. notations ================= *)
(* whatever else the dictionary holds and in whatever order its keys come *)
Theorem C17_cartesian : forall (R : fops) (pi : R) (cis : R -> R * R) (deg : bool) (d : dict (jval R)) (a b : R),
  dget d s_real = Some (JNum a) -> dget d s_imag = Some (JNum b) -> to_complex R pi cis deg (JDict d) = Ok ((a, b) : Cx R).
Proof. exact to_complex_cartesian. Qed.
Print Assumptions C17_cartesian.
Theorem C17_polar : forall (R : fops) (pi : R) (cis : R -> R * R) (d : dict (jval R)) (r ph c s : R),
  (dget d s_real = None \/ dget d s_imag = None) ->
  dget d s_abs = Some (JNum r) -> dget d s_phase = Some (JNum ph) -> cis ph = (c, s) ->
  to_complex R pi cis false (JDict d) = Ok ((fmul R r c, fmul R r s) : Cx R).
Proof. exact to_complex_polar. Qed.
Print Assumptions C17_polar.
Theorem C17_polar_degree : forall (R : fops) (pi : R) (cis : R -> R * R) (d : dict (jval R)) (r ph c s : R),
  (dget d s_real = None \/ dget d s_imag = None) ->
  dget d s_abs = Some (JNum r) -> dget d s_phase = Some (JNum ph) -> cis (fdiv R (fmul R ph pi) (ofZ R 180)) = (c, s) ->
  to_complex R pi cis true (JDict d) = Ok ((fmul R r c, fmul R r s) : Cx R).
Proof. exact to_complex_polar_degree. Qed.
Print Assumptions C17_polar_degree.
(* the notations of one number z = r (cos th + j sin th) denote the same number *)
Theorem C17_notations_agree : forall (R : fops) (pi : R) (cis : R -> R * R) (r ph : R),
  let z : Cx R := (fmul R r (fst (cis ph)), fmul R r (snd (cis ph))) in
  to_complex R pi cis false (JDict [(s_abs, JNum r); (s_phase, JNum ph)]) = Ok z
  /\ to_complex R pi cis false (JDict [(s_real, JNum (fst z)); (s_imag, JNum (snd z))]) = Ok z.
Proof. exact notations_agree. Qed.
Print Assumptions C17_notations_agree.
Theorem C17_notations_agree_degree : forall (R : fops) (pi : R) (cis : R -> R * R) (r ph : R),
  let th := fdiv R (fmul R ph pi) (ofZ R 180) in
  let z : Cx R := (fmul R r (fst (cis th)), fmul R r (snd (cis th))) in
  to_complex R pi cis true (JDict [(s_abs, JNum r); (s_phase, JNum ph)]) = Ok z
  /\ to_complex R pi cis true (JDict [(s_real, JNum (fst z)); (s_imag, JNum (snd z))]) = Ok z.
Proof. exact notations_agree_degree. Qed.
Print Assumptions C17_notations_agree_degree.

(* ================= D. nested documents ================= *)
(* [nocollb t]: no dictionary at any depth of t has exactly the key set {real,imag}, {abs,phase} or {abs,phase_deg}
   (such a dictionary IS a complex number to the reader).  [undict_conv] is the recursive reader applied to every
   value, [undictify_all] the entry point (dictionaries only). *)
Theorem C17_nested : forall (R : fops) (leb : R -> R -> bool) (pi : R) (cis : R -> R * R) (t : jval R),
  nocollb R t = true -> undict_conv R leb pi cis (dictify_all R t) = Ok t.
Proof. exact undict_dictify. Qed.
Print Assumptions C17_nested.
Theorem C17_nested_document : forall (R : fops) (leb : R -> R -> bool) (pi : R) (cis : R -> R * R) (l : dict (jval R)),
  forallb (fun kv => nocollb R (snd kv)) l = true ->
  undictify_all R leb pi cis (dictify_all R (JDict l)) = Ok (JDict l).
Proof. exact undictify_all_dictify_all. Qed.
Print Assumptions C17_nested_document.
(* what is written out holds no complex value any more *)
Theorem C17_dictify_no_complex : forall (R : fops) (t : jval R), has_cplx R (dictify_all R t) = false.
Proof. exact dictify_no_complex. Qed.
Print Assumptions C17_dictify_no_complex.

(* ================= E. no mutation ================= *)
(* loaders in state-passing style return (result, post-state of the object they were given) *)
Theorem C17_no_mutation : forall (R : fops) (pi : R) (cis : R -> R * R) (d : jval R), snd (load_network_st R pi cis d) = d.
Proof. exact load_network_no_mutation. Qed.
Print Assumptions C17_no_mutation.
Theorem C17_twice : forall (R : fops) (pi : R) (cis : R -> R * R) (d : jval R),
  fst (load_network_st R pi cis (snd (load_network_st R pi cis d))) = fst (load_network_st R pi cis d).
Proof. exact load_network_twice. Qed.
Print Assumptions C17_twice.
Theorem C17_no_mutation_others : forall (R : fops) (leb : R -> R -> bool) (pi : R) (cis : R -> R * R) (deg : bool) (d : jval R),
  snd (to_complex_st R pi cis deg d) = d /\ snd (dictify_all_st R d) = d /\ snd (undictify_all_st R leb pi cis d) = d
  /\ snd (generate_component_st R leb d) = d /\ snd (undictify_circuit_st R leb d) = d.
Proof. exact no_mutation_others. Qed.
Print Assumptions C17_no_mutation_others.

(* ================= examples over the Gaussian rationals ================= *)
Definition qpi : Qc := qc 355 113.
Definition qcis (x : Qc) : Qc * Qc := if Qc_eq_bool x (qc 1 2) then (qc 3 5, qc 4 5) else (1%Qc, 0%Qc).
Definition qn (n : Z) (d : positive) : jval Qcops := JNum (qc n d : Qcops).
Definition ex_description : jval Qcops := JList [
  JDict [(s_type, JStr (lbl "voltage_source")); (s_id, JStr (lbl "U")); (s_N1, JStr (lbl "1")); (s_N2, JStr (lbl "0"));
         (s_V, JDict [(s_abs, qn 10 1); (s_phase, qn 1 2)])];
  JDict [(s_R, qn 5 1); (s_N2, JStr (lbl "2")); (s_N1, JStr (lbl "1")); (s_id, JStr (lbl "R1")); (s_type, JStr (lbl "resistor"))];
  JDict [(s_type, JStr (lbl "impedance")); (s_id, JStr (lbl "Z1")); (s_N1, JStr (lbl "2")); (s_N2, JStr (lbl "0"));
         (s_Z, JDict [(s_imag, qn 4 1); (s_real, qn 3 1)])]]%string.
(* a three-element description (polar source 10 at phase 1/2 with cis(1/2) = (3/5, 4/5)) loads to the network written *)
Example C17_example_loads :
  is_ok (load_network Qcops qpi qcis ex_description)
    (network_eqb {| branches := [Build_branch (lbl "1") (lbl "0") (voltage_source (lbl "U") (cq 6 1 8 1) (cq 0 1 0 1));
                                 Build_branch (lbl "1") (lbl "2") (resistor (lbl "R1") (cq 5 1 0 1));
                                 Build_branch (lbl "2") (lbl "0") (impedance (lbl "Z1") (cq 3 1 4 1))]%string;
                    zero := s_zero |}) = true.
Proof. vm_compute. reflexivity. Qed.
(* the loader before fix 6828b52 ([copies] = false) returned the same network but emptied the caller's entries, so a
   second load of the same object failed: C17_no_mutation / C17_twice are not vacuous properties of the model *)
Example C17_example_prefix_loader_mutated :
  is_ok (fst (load_network_prefix_st Qcops qpi qcis ex_description))
        (fun n => is_ok (load_network Qcops qpi qcis ex_description) (network_eqb n)) = true
  /\ jval_eqb Qcops (snd (load_network_prefix_st Qcops qpi qcis ex_description)) ex_description = false
  /\ is_err (fst (load_network_prefix_st Qcops qpi qcis (snd (load_network_prefix_st Qcops qpi qcis ex_description)))) EFileExists = true.
Proof. vm_compute. repeat split. Qed.
(* a nested document: complex values in a dictionary in a list in a dictionary, scalars of every type *)
Definition ex_document : dict (jval Qcops) :=
  [(lbl "a", JCplx (R := Qcops) (cq 1 1 2 1));
   (lbl "l", JList [JDict [(lbl "z", JCplx (R := Qcops) (cq 2 1 (-1) 1)); (lbl "n", JNull)]; qn 5 2; JStr (lbl "x"); JBool true;
                    JList [JCplx (R := Qcops) (cq 0 1 3 1)]]);
   (lbl "real", qn 1 1)]%string.
Example C17_example_round_trip :
  forallb (fun kv => nocollb Qcops (snd kv)) ex_document = true
  /\ is_ok (undictify_all Qcops Qc_leb qpi qcis (dictify_all Qcops (JDict ex_document))) (jval_eqb Qcops (JDict ex_document)) = true
  /\ has_cplx Qcops (JDict ex_document) = true.
Proof. vm_compute. repeat split. Qed.
(* the hypothesis of C17_nested is needed: a genuine dictionary {real, imag} comes back as a complex number *)
Example C17_example_collision :
  is_ok (undictify_all Qcops Qc_leb qpi qcis (dictify_all Qcops (JDict [(lbl "p", JDict [(s_real, qn 1 1); (s_imag, qn 2 1)])])))
        (jval_eqb Qcops (JDict [(lbl "p", JCplx (R := Qcops) (cq 1 1 2 1))])) = true%string.
Proof. vm_compute. reflexivity. Qed.
(* a component description through the circuit loader *)
Example C17_example_component :
  is_ok (generate_component Qcops Qc_leb
           (JDict [(s_type, JStr (lbl "impedance")); (s_id, JStr (lbl "Z")); (s_nodes, JList [JStr (lbl "a"); JStr (lbl "b")]);
                   (s_value, JDict [(s_Z, JCplx (R := Qcops) (cq 3 1 4 1))])]))
        (lcomp_eqb Qcops {| lc_type := lbl "impedance"; lc_id := lbl "Z"; lc_nodes := [lbl "a"; lbl "b"];
                            lc_value := [(lbl "R", qn 3 1); (lbl "X", qn 4 1)] |}) = true%string.
Proof. vm_compute. reflexivity. Qed.
(* what the faithful model shows about the circuit loader: these component types have a constructor (and are written by
   dictify_circuit) but no row in circuit_component_translators — a saved circuit containing one of them, a ground
   included, cannot be loaded back (UnknownCircuitComponent) *)
Example C17_example_unloadable_types :
  unloadable_types = map lbl ["capacitor"; "inductance"; "periodic_voltage_source"; "periodic_current_source"; "lamp";
                              "resistive_load"; "short_circuit"; "ground"]%string.
Proof. vm_compute. reflexivity. Qed.
