(* C07 (continued): the waveform names the Circuit model accepts for periodic sources are exactly the waveform names of
   SignalProcessing/periodic_functions.py as regenerated into Gen/Periodic.v (class attribute `wavetype` of each time-function class). *)
From Coq Require Import List Bool NArith.
From CC Require Import Theory.Field Model.Network Model.Circuit Gen.Periodic.
Import ListNotations.

Definition wave_names_agree : bool :=
  forallb (fun w => lmem w (map fst Gen.Periodic.wavetypes)) (Model.Circuit.wavetypes)
  && forallb (fun w => lmem w (Model.Circuit.wavetypes)) (map fst Gen.Periodic.wavetypes)
  && Nat.eqb (length Model.Circuit.wavetypes) (length Gen.Periodic.wavetypes).

Lemma wave_names_agree_true : wave_names_agree = true.
Proof. vm_compute. reflexivity. Qed.

Theorem C07_wavetypes_are_the_source's : forall w : label,
  lmem w Model.Circuit.wavetypes = lmem w (map fst Gen.Periodic.wavetypes).
Proof.
  intros w. pose proof wave_names_agree_true as H. unfold wave_names_agree in H.
  apply andb_true_iff in H. destruct H as [H _]. apply andb_true_iff in H. destruct H as [H1 H2].
  rewrite forallb_forall in H1, H2.
  destruct (lmem w Model.Circuit.wavetypes) eqn:E1; destruct (lmem w (map fst Gen.Periodic.wavetypes)) eqn:E2; try reflexivity.
  - unfold lmem in E1. apply existsb_exists in E1. destruct E1 as [y [Hy Ey]].
    specialize (H1 y Hy). assert (w = y) as ->.
    { clear -Ey. revert y Ey. induction w as [|a w IH]; intros [|b y]; simpl; try discriminate; [reflexivity|].
      intros H. apply andb_true_iff in H. destruct H as [Ha Hw]. apply N.eqb_eq in Ha. subst. f_equal. apply IH. exact Hw. }
    congruence.
  - unfold lmem in E2. apply existsb_exists in E2. destruct E2 as [y [Hy Ey]].
    specialize (H2 y Hy). assert (w = y) as ->.
    { clear -Ey. revert y Ey. induction w as [|a w IH]; intros [|b y]; simpl; try discriminate; [reflexivity|].
      intros H. apply andb_true_iff in H. destruct H as [Ha Hw]. apply N.eqb_eq in Ha. subst. f_equal. apply IH. exact Hw. }
    congruence.
Qed.
Print Assumptions C07_wavetypes_are_the_source's.
