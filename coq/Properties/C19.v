(* C19 — Descriptions with duplicate element identifiers, a reference node that touches no element, more than one ground,
   negative resistance / conductance / capacitance / inductance / frequency / rated power / rated voltage, unknown
   element or waveform types, or missing fields are rejected with an exception when they are constructed or loaded,
   wherever in the list the offending item occurs.  Queries for unknown element or node identifiers raise instead of
   returning a value, and a description that is accepted is stored unaltered.
   Statements only; every proof is [exact <lemma>].  Models: Model/Network.v (Network.__post_init__ = validate, the
   queries), Model/Circuit.v (Circuit.__post_init__ = ground_node), Model/Loaders.v (the component constructors as an
   interpreter of Gen.Tables.component_ctors, load_network, generate_component, undictify_circuit).
   Exceptions: EFloatingGround = FloatingGroundNode, EAmbiguousIDs = AmbiguousBranchIDs, EMultipleGround =
   MultipleGroundNodes, EAmbiguousComponent = AmbiguousComponentID, EValue = ValueError, ETypeError = TypeError,
   EFileExists = FileExistsError (what load_network turns a KeyError into), EUnknownWavetype, EUnidentified =
   UnidentifiedComponent, EIncorrectInfo = IncorrectComponentInformation, EUnknownComponent = UnknownCircuitComponent,
   EKeyError = KeyError. *)
From Coq Require Import List Bool ZArith NArith QArith Qcanon String.
From CC Require Import Theory.Field Theory.Complex Theory.Labels Model.Network Gen.Tables Model.Circuit Model.RunCircuit
  Model.Loaders Theory.LoadersThm.
Import ListNotations.

(* ================= A. sign rules of the component constructors (read from the generated table) ================= *)
(* [run_ctor R leb c kw] : the constructor [c] of components.py called with keyword arguments [kw];
   [ltb0 x] : x < 0.  For EVERY constructor and EVERY parameter it guards: starting from any accepted call, the same call
   with that parameter negative raises ValueError ... *)
Theorem C19_sign_negative : forall (R : fops) (leb : R -> R -> bool) (c : ctor) (p : label) (kw : dict (jval R)) (cmp : lcomp R) (x : R),
  In c component_ctors -> In p (c_guards c) -> run_ctor R leb c kw = Ok cmp -> ltb0 R leb x = true ->
  run_ctor R leb c (dset kw p (JNum x)) = Err EValue.
Proof. exact sign_negative. Qed.
Print Assumptions C19_sign_negative.
(* ... and with that parameter zero it is accepted: same type, identifier and terminals, and 0 is stored under the
   key(s) the table says the parameter is written to (there is such a key) *)
Theorem C19_sign_zero : forall (R : fops) (leb : R -> R -> bool) (c : ctor) (p : label) (kw : dict (jval R)) (cmp : lcomp R),
  In c component_ctors -> In p (c_guards c) -> run_ctor R leb c kw = Ok cmp -> leb (f0 R) (f0 R) = true ->
  exists cmp', run_ctor R leb c (dset kw p (JNum (f0 R))) = Ok cmp'
    /\ lc_type cmp' = lc_type cmp /\ lc_id cmp' = lc_id cmp /\ lc_nodes cmp' = lc_nodes cmp
    /\ (exists key, In (key, VParam p) (c_values c))
    /\ (forall key, In (key, VParam p) (c_values c) -> In (key, JNum (f0 R)) (lc_value cmp')).
Proof. exact sign_zero. Qed.
Print Assumptions C19_sign_zero.
(* the same when loaded: a component description that loads, with a guarded value made negative, raises ValueError *)
Theorem C19_sign_loaded : forall (R : fops) (leb : R -> R -> bool) (d vd : dict (jval R)) (idv nv : jval R) (t f : label) (c : ctor)
  (p : label) (cmp : lcomp R) (x : R),
  dget d s_id = Some idv -> dget d s_value = Some (JDict vd) -> dget d s_type = Some (JStr t) -> dget d s_nodes = Some nv ->
  tfind t circuit_loader_table = Some f -> find_ctor_fun f = Some c -> In p (c_guards c) ->
  generate_component R leb (JDict d) = Ok cmp -> ltb0 R leb x = true ->
  generate_component R leb (JDict (dset d s_value (JDict (dset vd p (JNum x))))) = Err EValue.
Proof. exact loaded_negative. Qed.
Print Assumptions C19_sign_loaded.
(* which parameters are guarded: Properties/C07.v, C07_guards (R, G, C, L, w, P, V_ref per kind) *)

(* an unknown waveform name: UnknownWavetype from both periodic constructors (the only ones with
   c_checks_wavetype, C07_wavetype_checked), whatever the other arguments — negative ones included *)
Theorem C19_unknown_wavetype : forall (R : fops) (leb : R -> R -> bool) (c : ctor) (kw env : dict (jval R)) (v : jval R),
  c_checks_wavetype c = true -> bind_params R (c_params c) kw = Ok env -> dget kw s_wavetype = Some v ->
  (forall w, v = JStr w -> lmem w wavetypes = false) -> run_ctor R leb c kw = Err EUnknownWavetype.
Proof. exact ctor_unknown_wavetype. Qed.
Print Assumptions C19_unknown_wavetype.

(* ================= B. Network(...) : duplicates, floating reference — every position and multiplicity ================= *)
Theorem C19_dup : forall (K : fops) (l1 l2 l3 : list (branch K)) (c c' : branch K) (z : label), bid c = bid c' ->
  let n := {| branches := l1 ++ c :: l2 ++ c' :: l3; zero := z |} in
  (In z (terminals K n) -> validate n = Err EAmbiguousIDs) /\ (~ In z (terminals K n) -> validate n = Err EFloatingGround).
Proof. exact validate_duplicate. Qed.
Print Assumptions C19_dup.
Theorem C19_floating : forall (K : fops) (n : network K),
  branches n <> [] -> ~ In (zero n) (map node1 (branches n) ++ map node2 (branches n)) -> validate n = Err EFloatingGround.
Proof. exact validate_floating. Qed.
Print Assumptions C19_floating.

(* ================= C. Circuit(...) : duplicate component ids, several grounds ================= *)
(* never accepted; the exception is the documented one when the earlier statements of __post_init__ do not raise first
   (a ground component without terminals is an IndexError there) *)
Theorem C19_dup_components : forall (R : fops) (l1 l2 l3 : list (comp R)) (c c' : comp R), cid c = cid c' ->
  let cs := l1 ++ c :: l2 ++ c' :: l3 in
  (forall g, ground_node R cs <> Ok g)
  /\ ((List.length (filter (is_ground R) cs) <= 1)%nat -> grounds_have_node R cs -> first_has_node R cs ->
      ground_node R cs = Err EAmbiguousComponent).
Proof. exact ground_duplicate. Qed.
Print Assumptions C19_dup_components.
Theorem C19_grounds : forall (R : fops) (l1 l2 l3 : list (comp R)) (g1 g2 : comp R), is_ground R g1 = true -> is_ground R g2 = true ->
  let cs := l1 ++ g1 :: l2 ++ g2 :: l3 in
  (forall g, ground_node R cs <> Ok g) /\ (grounds_have_node R cs -> ground_node R cs = Err EMultipleGround).
Proof. exact ground_multiple. Qed.
Print Assumptions C19_grounds.

(* ================= D. load_network : unknown kinds, missing fields, at any position ================= *)
(* whatever loads before it ([pre]) and whatever follows ([post]), the first entry that raises decides; a KeyError
   becomes FileExistsError *)
Theorem C19_position : forall (R : fops) (pi : R) (cis : R -> R * R) (pre post : list (jval R)) (e : jval R) bs x,
  fst (entries_st R pi cis true pre) = Ok bs -> fst (entry_to_branch_st R pi cis true e) = Err x ->
  load_network R pi cis (JList (pre ++ e :: post)) = keyerror_to_fileexists (Err x).
Proof. exact load_network_first_error. Qed.
Print Assumptions C19_position.
Theorem C19_unknown_kind : forall (R : fops) (pi : R) (cis : R -> R * R) (pre post : list (jval R)) (d : dict (jval R)) (t : label) bs,
  fst (entries_st R pi cis true pre) = Ok bs ->
  dget d s_N1 <> None -> dget d s_N2 <> None -> dget d s_id <> None -> dget d s_type = Some (JStr t) -> find_lentry t = None ->
  load_network R pi cis (JList (pre ++ JDict d :: post)) = Err EFileExists.
Proof. exact load_network_unknown_type. Qed.
Print Assumptions C19_unknown_kind.
Theorem C19_missing_field : forall (R : fops) (pi : R) (cis : R -> R * R) (pre post : list (jval R)) (d : dict (jval R)) bs,
  fst (entries_st R pi cis true pre) = Ok bs ->
  dget d s_N1 = None \/ dget d s_N2 = None \/ dget d s_id = None \/ dget d s_type = None ->
  load_network R pi cis (JList (pre ++ JDict d :: post)) = Err EFileExists.
Proof. exact load_network_missing_header. Qed.
Print Assumptions C19_missing_field.
(* a documented entry (Properties/C17.v, C17_documented_kinds) with one required value key left out: KeyError (hence
   FileExistsError from load_network, by C19_position) for a key in complex notation, TypeError for a plain parameter;
   required = all keys but the optional Y / Z of the source kinds *)
Theorem C19_missing_value : forall (R : fops) (pi : R) (cis : R -> R * R) (e : espec R) (key : label),
  espec_ok R e -> In key (required_keys R (e_kind R e)) ->
  fst (entry_to_branch_st R pi cis true (entry_without R e key))
  = Err (if lmem key (k_cplx R (e_kind R e)) then EKeyError else ETypeError).
Proof. exact entry_missing_value. Qed.
Print Assumptions C19_missing_value.

(* ================= E. generate_component / undictify_circuit : typed errors in the coded precedence ================= *)
Theorem C19_component_missing_id : forall (R : fops) (leb : R -> R -> bool) (d : dict (jval R)),
  dget d s_id = None -> generate_component R leb (JDict d) = Err EUnidentified.
Proof. exact generate_missing_id. Qed.
Theorem C19_component_missing_value : forall (R : fops) (leb : R -> R -> bool) (d : dict (jval R)),
  dget d s_id <> None -> dget d s_value = None -> generate_component R leb (JDict d) = Err EIncorrectInfo.
Proof. exact generate_missing_value. Qed.
Theorem C19_component_missing_type : forall (R : fops) (leb : R -> R -> bool) (d : dict (jval R)),
  dget d s_id <> None -> dget d s_value <> None -> dget d s_type = None -> generate_component R leb (JDict d) = Err EIncorrectInfo.
Proof. exact generate_missing_type. Qed.
Theorem C19_component_missing_nodes : forall (R : fops) (leb : R -> R -> bool) (d : dict (jval R)),
  dget d s_id <> None -> dget d s_value <> None -> dget d s_type <> None -> dget d s_nodes = None ->
  generate_component R leb (JDict d) = Err EIncorrectInfo.
Proof. exact generate_missing_nodes. Qed.
Theorem C19_component_unknown_kind : forall (R : fops) (leb : R -> R -> bool) (d : dict (jval R)) (t : label),
  dget d s_id <> None -> dget d s_value <> None -> dget d s_nodes <> None ->
  dget d s_type = Some (JStr t) -> tfind t circuit_loader_table = None -> generate_component R leb (JDict d) = Err EUnknownComponent.
Proof. exact generate_unknown_type. Qed.
Print Assumptions C19_component_missing_id. Print Assumptions C19_component_missing_value.
Print Assumptions C19_component_missing_type. Print Assumptions C19_component_missing_nodes.
Print Assumptions C19_component_unknown_kind.
Theorem C19_component_position : forall (R : fops) (leb : R -> R -> bool) (d : dict (jval R)) (pre post : list (jval R)) (e : jval R) cs x,
  dget d s_components = Some (JList (pre ++ e :: post)) -> mapR (generate_component R leb) pre = Ok cs ->
  generate_component R leb e = Err x -> undictify_circuit R leb (JDict d) = Err x.
Proof. exact undictify_circuit_first_error. Qed.
Print Assumptions C19_component_position.

(* ================= F. queries for unknown identifiers ================= *)
Theorem C19_unknown_id_voltage : forall (K : fops) (s : solution K) (id : label),
  ~ In id (branch_ids (s_net s)) -> get_voltage s id = Err EKeyError.
Proof. exact get_voltage_unknown. Qed.
Theorem C19_unknown_id_current : forall (K : fops) (s : solution K) (id : label),
  ~ In id (branch_ids (s_net s)) -> get_current s id = Err EKeyError.
Proof. exact get_current_unknown. Qed.
Theorem C19_unknown_id_power : forall (K : fops) (s : solution K) (id : label),
  ~ In id (branch_ids (s_net s)) -> get_power s id = Err EKeyError.
Proof. exact get_power_unknown. Qed.
Theorem C19_unknown_id_potential : forall (K : fops) (s : solution K) (l : label),
  ~ In l (node_labels (s_net s)) -> l <> zero (s_net s) -> get_potential s l = Err EKeyError.
Proof. exact get_potential_unknown. Qed.
Print Assumptions C19_unknown_id_voltage. Print Assumptions C19_unknown_id_current.
Print Assumptions C19_unknown_id_power. Print Assumptions C19_unknown_id_potential.

(* ================= G. an accepted description is stored unaltered ================= *)
Theorem C19_stored_network : forall (K : fops) (n n' : network K), validate n = Ok n' -> n' = n.
Proof. exact validate_stored. Qed.
Print Assumptions C19_stored_network.
(* an accepted network description: exactly the branches its entries denote, in order, reference "0" *)
Theorem C19_stored_loaded : forall (R : fops) (pi : R) (cis : R -> R * R) (l : list (jval R)) (n : network (Cx R)),
  load_network R pi cis (JList l) = Ok n ->
  mapR (fun e => fst (entry_to_branch_st R pi cis true e)) l = Ok (branches n) /\ zero n = s_zero.
Proof. exact load_network_stored. Qed.
Print Assumptions C19_stored_loaded.
(* an accepted circuit description: exactly the components its entries generate, in order (Circuit.__post_init__ only
   computes the reference label: ground_node returns a label, the list is the argument) *)
Theorem C19_stored_circuit : forall (R : fops) (leb : R -> R -> bool) (d : dict (jval R)) (cs : list (lcomp R)) (g : label),
  undictify_circuit R leb (JDict d) = Ok (cs, g) ->
  exists es, dget d s_components = Some (JList es) /\ mapR (generate_component R leb) es = Ok cs.
Proof. exact undictify_circuit_stored. Qed.
Print Assumptions C19_stored_circuit.
(* an accepted constructor call: the type of the table, the identifier and the terminals passed (values:
   C17_component_values) *)
Theorem C19_stored_component : forall (R : fops) (leb : R -> R -> bool) (c : ctor) (kw : dict (jval R)) (cmp : lcomp R) (i : label) (ns : list label),
  run_ctor R leb c kw = Ok cmp -> dget kw s_id = Some (JStr i) -> dget kw s_nodes = Some (JList (map (fun n => JStr n) ns)) ->
  lc_type cmp = c_type c /\ lc_id cmp = i /\ lc_nodes cmp = ns.
Proof. exact ctor_stored. Qed.
Print Assumptions C19_stored_component.

(* ================= examples over the rationals: the hypotheses are satisfiable ================= *)
Definition qn (n : Z) (d : positive) : jval Qcops := JNum (qc n d : Qcops).
Definition ex_kw : dict (jval Qcops) :=
  [(s_id, JStr (lbl "U")); (s_nodes, JList [JStr (lbl "a"); JStr (lbl "b")]); (s_wavetype, JStr (lbl "rect"));
   (lbl "V", qn 5 1); (lbl "w", qn 100 1); (lbl "R", qn 2 1)]%string.
Definition perv : ctor := nth 9 component_ctors (nth 0 component_ctors (Build_ctor [] [] [] [] [] false)).
(* periodic_voltage_source: an accepted call (phi defaulted), guarded parameters R and w; w negative -> ValueError, w
   zero -> accepted, unknown waveform -> UnknownWavetype even with w negative *)
Example C19_example_ctor :
  label_eqb (c_fun perv) (lbl "periodic_voltage_source") = true
  /\ is_ok (run_ctor Qcops Qc_leb perv ex_kw) (fun c => label_eqb (lc_type c) (lbl "periodic_voltage_source")) = true
  /\ lmem (lbl "w") (c_guards perv) = true /\ lmem (lbl "R") (c_guards perv) = true
  /\ ltb0 Qcops Qc_leb (qc (-1) 1000) = true /\ Qc_leb 0 0 = true
  /\ is_err (run_ctor Qcops Qc_leb perv (dset ex_kw (lbl "w") (qn (-1) 1000))) EValue = true
  /\ is_ok (run_ctor Qcops Qc_leb perv (dset ex_kw (lbl "w") (qn 0 1)))
           (fun c => match dget (lc_value c) (lbl "w") with Some (JNum q) => Qc_eq_bool q 0 | _ => false end) = true
  /\ is_err (run_ctor Qcops Qc_leb perv (dset (dset ex_kw (lbl "w") (qn (-1) 1)) s_wavetype (JStr (lbl "square")))) EUnknownWavetype = true.
Proof. vm_compute. repeat split. Qed.
(* every constructor has an accepted call; every guarded parameter of every constructor rejects -1 and accepts 0
   (the general theorems above, instantiated on the whole table by computation) *)
Definition sample_value (p : str) : jval Qcops :=
  if label_eqb p s_id then JStr (lbl "X") else if label_eqb p s_nodes then JList [JStr (lbl "a"); JStr (lbl "b")]
  else if label_eqb p s_wavetype then JStr (lbl "saw") else qn 3 2.
Definition sample_kw (c : ctor) : dict (jval Qcops) := map (fun pd => (fst pd, sample_value (fst pd))) (c_params c).
Example C19_example_all_constructors :
  forallb (fun c => is_ok (run_ctor Qcops Qc_leb c (sample_kw c)) (fun _ => true)
                    && forallb (fun p => is_err (run_ctor Qcops Qc_leb c (dset (sample_kw c) p (qn (-1) 1))) EValue
                                         && is_ok (run_ctor Qcops Qc_leb c (dset (sample_kw c) p (qn 0 1))) (fun _ => true))
                               (c_guards c))
          component_ctors = true
  /\ List.length (flat_map c_guards component_ctors) = 18%nat.
Proof. vm_compute. split; reflexivity. Qed.

Definition ex_good : list (jval Qcops) :=
  [JDict [(s_type, JStr (lbl "resistor")); (s_id, JStr (lbl "R1")); (s_N1, JStr (lbl "0")); (s_N2, JStr (lbl "1")); (s_R, qn 10 1)];
   JDict [(s_type, JStr (lbl "conductor")); (s_id, JStr (lbl "G")); (s_N1, JStr (lbl "1")); (s_N2, JStr (lbl "0")); (s_G, qn 1 2)]]%string.
Definition qpi : Qc := qc 355 113.
Definition qcis (x : Qc) : Qc * Qc := (1%Qc, 0%Qc).
Definition bad_kind : jval Qcops :=
  JDict [(s_type, JStr (lbl "resistance")); (s_id, JStr (lbl "R2")); (s_N1, JStr (lbl "0")); (s_N2, JStr (lbl "1")); (s_R, qn 10 1)]%string.
Definition no_n2 : jval Qcops := JDict [(s_type, JStr (lbl "resistor")); (s_id, JStr (lbl "R2")); (s_N1, JStr (lbl "0")); (s_R, qn 10 1)]%string.
Definition dup_id : jval Qcops :=
  JDict [(s_type, JStr (lbl "resistor")); (s_id, JStr (lbl "G")); (s_N1, JStr (lbl "0")); (s_N2, JStr (lbl "1")); (s_R, qn 10 1)]%string.
(* the valid prefix loads; with the faulty entry first, in the middle or last the description is rejected *)
Example C19_example_loader :
  is_ok (fst (entries_st Qcops qpi qcis true ex_good)) (fun _ => true) = true
  /\ is_ok (load_network Qcops qpi qcis (JList ex_good)) (fun n => Nat.eqb (List.length (branches n)) 2) = true
  /\ forallb (fun bad => is_err (load_network Qcops qpi qcis (JList (bad :: ex_good))) EFileExists
                         && is_err (load_network Qcops qpi qcis (JList (ex_good ++ [bad]))) EFileExists
                         && is_err (load_network Qcops qpi qcis (JList (firstn 1 ex_good ++ bad :: skipn 1 ex_good))) EFileExists)
             [bad_kind; no_n2] = true
  /\ is_err (load_network Qcops qpi qcis (JList (dup_id :: ex_good))) EAmbiguousIDs = true
  /\ is_err (load_network Qcops qpi qcis (JList (ex_good ++ [dup_id]))) EAmbiguousIDs = true
  /\ is_err (load_network Qcops qpi qcis (JList (skipn 1 (map (fun e => match e with
                 | JDict d => JDict (dset (dset d s_N1 (JStr (lbl "p"))) s_N2 (JStr (lbl "q"))) | x => x end) ex_good)))) EFloatingGround = true.
Proof. vm_compute. repeat split. Qed.
