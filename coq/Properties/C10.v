(* Properties/C10.v — the state-space model is an exact realisation of the circuit.
   Model: Model/StateSpace.v (state_space_matrices, NodalStateSpaceModel rows, Circuit.state_space_model stacking),
   generic in the field K of the w = 0 network.  Proofs: Theory/Matrix.v, Theory/StateSpaceThm.v.

   Hypotheses used below:
     [rlc_dc K n cvals lvals]  the network is the w = 0 image of an R/L/C/ideal-source circuit: well-formed (unique ids, no
          self-loops, reference node on a branch), the keys of c_values / l_values are unique, every c_values key names an
          open-circuit branch (capacitor at w = 0), every l_values key a short-circuit branch (inductor at w = 0), every
          current source is ideal;
     [forall k < n_states, lam_k <> 0]  no capacitance / inductance is zero (lam = [-C..., L...]);
     [state_space_matrices K n cvals lvals = Ok m]  the two inversions succeeded (the circuit is non-degenerate).
   out_potential / out_voltage / out_current m id x u  =  (c_row_* id) . x + (d_row_* id) . u  with the model's own rows. *)
From Coq Require Import List Bool ZArith NArith QArith Qcanon.
From CC Require Import Theory.Field Theory.Complex Model.Network Model.StateSpace Model.Circuit Theory.Spec Theory.Api
  Theory.Matrix Theory.StateSpaceThm Theory.StateSpacePhasor.
Import ListNotations.
Local Open Scope nat_scope.

(* C10 "state dimension = #capacitors + #inductors": A is n x n, B n x #inputs, C (N+M) x n, D (N+M) x #inputs with
   n = len(c_values) + len(l_values) and #inputs = len(sources) *)
Theorem C10_dim : forall (K : fops) (KOK : fops_ok K) (n : network K) (cvals lvals : list (label * K)),
  (forall k, k < ss_nst K cvals lvals -> nth k (lam K cvals lvals) (f0 K) <> f0 K) ->
  rlc_dc K n cvals lvals ->
  forall m : ssm K, state_space_matrices K n cvals lvals = Ok m ->
  wfm (ss_nst K cvals lvals) (ss_nst K cvals lvals) (ss_A m) /\
  wfm (ss_nst K cvals lvals) (ss_nS K n lvals) (ss_B m) /\
  wfm (ss_dim K n) (ss_nst K cvals lvals) (ss_C m) /\
  wfm (ss_dim K n) (ss_nS K n lvals) (ss_D m) /\
  ss_nst K cvals lvals = (length cvals + length lvals)%nat /\ ss_nS K n lvals = length (sources K n lvals).
Proof. exact ss_dims. Qed.
Print Assumptions C10_dim.

(* C10 "the input columns follow the model's own published source order": sources = sorted current sources ++ sorted
   ideal voltage sources that are not inductors; B = BX * QS and D = DX * QS where column k of QS is the incidence
   column of sources[k] (current source: -1 at its first node, +1 at its second; voltage source: the unit vector of
   its own row). *)
Theorem C10_sources_order : forall (K : fops) (KOK : fops_ok K) (n : network K) (cvals lvals : list (label * K)),
  (forall k, k < ss_nst K cvals lvals -> nth k (lam K cvals lvals) (f0 K) <> f0 K) ->
  rlc_dc K n cvals lvals ->
  forall m : ssm K, state_space_matrices K n cvals lvals = Ok m ->
  sources K n lvals = cs_index n ++ filter (fun v => negb (lmem v (lkeys K lvals))) (vs_index n)
  /\ ss_nS K n lvals = length (sources K n lvals)
  /\ (forall k, k < ss_nS K n lvals -> In (nth k (sources K n lvals) []) (cs_index n) ->
        col (QS K n lvals) k = map (fun i => Qent n i (nth k (sources K n lvals) [])) (node_index n)
                               ++ map (fun _ => f0 K) (vs_index n))
  /\ (forall k, k < ss_nS K n lvals -> In (nth k (sources K n lvals) []) (vs_index n) ->
        col (QS K n lvals) k = map (fun _ => f0 K) (node_index n)
                               ++ unit_vec (ss_M K n) (lindex (vs_index n) (nth k (sources K n lvals) [])))
  /\ exists BX DX, wfm (ss_nst K cvals lvals) (ss_dim K n) BX /\ wfm (ss_dim K n) (ss_dim K n) DX
       /\ ss_B m = mat_mul (ss_nS K n lvals) BX (QS K n lvals) /\ ss_D m = mat_mul (ss_nS K n lvals) DX (QS K n lvals).
Proof. exact sources_order. Qed.
Print Assumptions C10_sources_order.

(* key lemma, matrices:  A_tilde C = DQ Lambda A,  A_tilde D = DQ Lambda B + QS,  DQ^T C = I,  DQ^T D = 0
   (A_tilde = MNA matrix of the w = 0 network, DQ = [Delta^T | QL], Lambda = diag(-C..., L...)); needs no hypothesis
   on the network at all *)
Theorem C10_augmented_matrices : forall (K : fops) (KOK : fops_ok K) (n : network K) (cvals lvals : list (label * K)),
  (forall k, k < ss_nst K cvals lvals -> nth k (lam K cvals lvals) (f0 K) <> f0 K) ->
  forall m : ssm K, state_space_matrices K n cvals lvals = Ok m ->
  wfm (ss_nst K cvals lvals) (ss_nst K cvals lvals) (ss_A m) /\
  wfm (ss_nst K cvals lvals) (ss_nS K n lvals) (ss_B m) /\
  wfm (ss_dim K n) (ss_nst K cvals lvals) (ss_C m) /\
  wfm (ss_dim K n) (ss_nS K n lvals) (ss_D m) /\
  mat_mul (ss_nst K cvals lvals) (Pm K n) (ss_C m)
    = mat_mul (ss_nst K cvals lvals) (DQm K n cvals lvals) (mat_mul (ss_nst K cvals lvals) (Lambda K cvals lvals) (ss_A m)) /\
  mat_mul (ss_nS K n lvals) (Pm K n) (ss_D m)
    = mat_add (mat_mul (ss_nS K n lvals) (DQm K n cvals lvals) (mat_mul (ss_nS K n lvals) (Lambda K cvals lvals) (ss_B m)))
              (QS K n lvals) /\
  mat_mul (ss_nst K cvals lvals) (DQt K n cvals lvals) (ss_C m) = ident (ss_nst K cvals lvals) /\
  mat_mul (ss_nS K n lvals) (DQt K n cvals lvals) (ss_D m) = zero_mat (ss_nst K cvals lvals) (ss_nS K n lvals).
Proof. exact ss_augmented_mat. Qed.
Print Assumptions C10_augmented_matrices.

(* key lemma, vectors: z = C x + D u and w = Lambda (A x + B u) satisfy  A_tilde z = DQ w + QS u  and  DQ^T z = x *)
Theorem C10_augmented : forall (K : fops) (KOK : fops_ok K) (n : network K) (cvals lvals : list (label * K)),
  (forall k, k < ss_nst K cvals lvals -> nth k (lam K cvals lvals) (f0 K) <> f0 K) ->
  forall (m : ssm K) (x u : list K), state_space_matrices K n cvals lvals = Ok m ->
  length x = ss_nst K cvals lvals -> length u = ss_nS K n lvals ->
  length (ss_z K m x u) = ss_dim K n /\
  length (ss_xdot K m x u) = ss_nst K cvals lvals /\
  length (ss_w K cvals lvals m x u) = ss_nst K cvals lvals /\
  mat_vec (Pm K n) (ss_z K m x u)
    = vadd (mat_vec (DQm K n cvals lvals) (ss_w K cvals lvals m x u)) (mat_vec (QS K n lvals) u) /\
  mat_vec (DQt K n cvals lvals) (ss_z K m x u) = x.
Proof. exact ss_augmented. Qed.
Print Assumptions C10_augmented.

(* C10 "the states are the capacitor voltages and inductor currents": for every state x and input u, the model's own
   voltage row of capacitor k returns x_k, its own current row of inductor k returns x_(nC + k) *)
Theorem C10_states_capacitor : forall (K : fops) (KOK : fops_ok K) (n : network K) (cvals lvals : list (label * K)),
  (forall k, k < ss_nst K cvals lvals -> nth k (lam K cvals lvals) (f0 K) <> f0 K) ->
  rlc_dc K n cvals lvals ->
  forall m : ssm K, state_space_matrices K n cvals lvals = Ok m ->
  forall x u : list K, length x = ss_nst K cvals lvals -> length u = ss_nS K n lvals ->
  forall b : branch K, In b (branches n) -> lmem (bid b) (ckeys K cvals) = true ->
  out_voltage K n cvals lvals m (bid b) x u = Ok (nth (lindex (ckeys K cvals) (bid b)) x (f0 K)).
Proof. exact state_cap. Qed.
Theorem C10_states_inductor : forall (K : fops) (KOK : fops_ok K) (n : network K) (cvals lvals : list (label * K)),
  (forall k, k < ss_nst K cvals lvals -> nth k (lam K cvals lvals) (f0 K) <> f0 K) ->
  rlc_dc K n cvals lvals ->
  forall m : ssm K, state_space_matrices K n cvals lvals = Ok m ->
  forall x u : list K, length x = ss_nst K cvals lvals -> length u = ss_nS K n lvals ->
  forall b : branch K, In b (branches n) -> lmem (bid b) (lkeys K lvals) = true ->
  out_current K n cvals lvals m (bid b) x u = Ok (nth (ss_nC K cvals + lindex (lkeys K lvals) (bid b)) x (f0 K)).
Proof. exact state_ind. Qed.
Print Assumptions C10_states_capacitor.
Print Assumptions C10_states_inductor.

(* C10 "transfer function = phasor response": in any field K containing the element values and s (K = Cx R, s = jw
   for the frequency response), whenever s x = A x + B u — i.e. x = (sI - A)^-1 B u when that inverse exists, so that
   C x + D u = (C (sI - A)^-1 B + D) u — the model's outputs for (x, u) are potentials phi and branch currents j with:
   phi(reference) = 0; Kirchhoff's current law at every node; capacitor i = (s C) v; inductor v = (s L) i; every ideal
   voltage source stands under its input, every current source carries its input (u indexed by [sources]); every other
   branch i = Y v.  These are the phasor circuit equations at s with the source amplitudes u. *)
Theorem C10_transfer : forall (K : fops) (KOK : fops_ok K) (n : network K) (cvals lvals : list (label * K)),
  (forall k, k < ss_nst K cvals lvals -> nth k (lam K cvals lvals) (f0 K) <> f0 K) ->
  rlc_dc K n cvals lvals ->
  forall m : ssm K, state_space_matrices K n cvals lvals = Ok m ->
  forall x u : list K, length x = ss_nst K cvals lvals -> length u = ss_nS K n lvals ->
  forall s : K,
  (forall k, k < ss_nst K cvals lvals -> nth k (ss_xdot K m x u) (f0 K) = fmul K s (nth k x (f0 K))) ->
  exists (phi : label -> K) (j : branch K -> K),
     (forall node, node = zero n \/ In node (node_index n) -> out_potential K n cvals lvals m node x u = Ok (phi node))
  /\ (forall b, In b (branches n) ->
        out_voltage K n cvals lvals m (bid b) x u = Ok (bvolt phi b) /\ out_current K n cvals lvals m (bid b) x u = Ok (j b))
  /\ phi (zero n) = f0 K
  /\ (forall node, kcl_sum (branches n) j node = f0 K)
  /\ (forall b, In b (branches n) -> lmem (bid b) (ckeys K cvals) = true ->
        j b = fmul K (fmul K s (vlookup K cvals (bid b))) (bvolt phi b))
  /\ (forall b, In b (branches n) -> lmem (bid b) (lkeys K lvals) = true ->
        bvolt phi b = fmul K (fmul K s (vlookup K lvals (bid b))) (j b))
  /\ (forall b, In b (branches n) -> is_ideal_voltage_source (el b) = true -> lmem (bid b) (lkeys K lvals) = false ->
        bvolt phi b = nth (lindex (sources K n lvals) (bid b)) u (f0 K))
  /\ (forall b, In b (branches n) -> is_current_source (el b) = true ->
        j b = nth (lindex (sources K n lvals) (bid b)) u (f0 K))
  /\ (forall b, In b (branches n) -> lmem (bid b) (ckeys K cvals) = false -> is_ideal_voltage_source (el b) = false ->
        is_current_source (el b) = false -> j b = fmul K (finY b) (bvolt phi b)).
Proof. exact ss_phasor. Qed.
Print Assumptions C10_transfer.

(* C10 "transfer function = phasor response of the same circuit", against the network the library analyses at s:
   [pnet K n cvals lvals s u] = capacitor -> admittance s C, inductor -> impedance s L, ideal sources with amplitudes u
   (Theory/StateSpacePhasor.v).  If s x = A x + B u, the outputs C x + D u solve its circuit equations ... *)
Theorem C10_transfer_phasor_network : forall (K : fops) (KOK : fops_ok K) (n : network K) (cvals lvals : list (label * K))
  (s : K) (u : list K),
  (forall k, k < ss_nst K cvals lvals -> nth k (lam K cvals lvals) (f0 K) <> f0 K) ->
  rlc_dc K n cvals lvals ->
  forall m : ssm K, state_space_matrices K n cvals lvals = Ok m ->
  forall x : list K, length x = ss_nst K cvals lvals -> length u = ss_nS K n lvals ->
  (forall k, k < ss_nst K cvals lvals -> nth k (ss_xdot K m x u) (f0 K) = fmul K s (nth k x (f0 K))) ->
  exists (phi : label -> K) (j : branch K -> K),
    CircuitSpec (pnet K n cvals lvals s u) phi j
    /\ (forall node, In node (node_labels (pnet K n cvals lvals s u)) ->
          out_potential K n cvals lvals m node x u = Ok (phi node))
    /\ (forall b, In b (branches n) ->
          out_voltage K n cvals lvals m (bid b) x u = Ok (bvolt phi (pbranch K n cvals lvals s u b))
          /\ out_current K n cvals lvals m (bid b) x u = Ok (j (pbranch K n cvals lvals s u b))).
Proof. exact ss_phasor_spec. Qed.
Print Assumptions C10_transfer_phasor_network.

(* ... hence, when that network is well-posed (unique solution), they are THE phasor response: every solution of its
   circuit equations has these potentials, voltages and currents ... *)
Theorem C10_transfer_is_phasor_response : forall (K : fops) (KOK : fops_ok K) (n : network K)
  (cvals lvals : list (label * K)) (s : K) (u : list K),
  (forall k, k < ss_nst K cvals lvals -> nth k (lam K cvals lvals) (f0 K) <> f0 K) ->
  rlc_dc K n cvals lvals ->
  forall m : ssm K, state_space_matrices K n cvals lvals = Ok m ->
  forall x : list K, length x = ss_nst K cvals lvals -> length u = ss_nS K n lvals ->
  (forall k, k < ss_nst K cvals lvals -> nth k (ss_xdot K m x u) (f0 K) = fmul K s (nth k x (f0 K))) ->
  WellPosed (pnet K n cvals lvals s u) ->
  forall (phi' : label -> K) (j'' : branch K -> K), CircuitSpec (pnet K n cvals lvals s u) phi' j'' ->
     (forall node, In node (node_labels (pnet K n cvals lvals s u)) ->
        out_potential K n cvals lvals m node x u = Ok (phi' node))
  /\ (forall b, In b (branches n) ->
        out_voltage K n cvals lvals m (bid b) x u = Ok (bvolt phi' (pbranch K n cvals lvals s u b))
        /\ out_current K n cvals lvals m (bid b) x u = Ok (j'' (pbranch K n cvals lvals s u b))).
Proof. exact ss_phasor_unique. Qed.
Print Assumptions C10_transfer_is_phasor_response.

(* ... and they are what the library's own nodal solver returns for that network *)
Theorem C10_transfer_is_solver_answer : forall (K : fops) (KOK : fops_ok K) (n : network K)
  (cvals lvals : list (label * K)) (s : K) (u : list K),
  (forall k, k < ss_nst K cvals lvals -> nth k (lam K cvals lvals) (f0 K) <> f0 K) ->
  rlc_dc K n cvals lvals ->
  forall m : ssm K, state_space_matrices K n cvals lvals = Ok m ->
  forall x : list K, length x = ss_nst K cvals lvals -> length u = ss_nS K n lvals ->
  (forall k, k < ss_nst K cvals lvals -> nth k (ss_xdot K m x u) (f0 K) = fmul K s (nth k x (f0 K))) ->
  forall sol : solution K, solve_network (pnet K n cvals lvals s u) = Ok sol ->
     (forall node, In node (node_labels (pnet K n cvals lvals s u)) ->
        out_potential K n cvals lvals m node x u = get_potential sol node)
  /\ (forall b, In b (branches n) -> out_voltage K n cvals lvals m (bid b) x u = get_voltage sol (bid b)).
Proof. exact ss_phasor_solver. Qed.
Print Assumptions C10_transfer_is_solver_answer.

(* C10 "in particular its DC gain equals the DC solution": a stationary state A x + B u = 0 (x = -A^-1 B u) gives
   outputs that solve the DC circuit: capacitors carry no current, inductors stand under no voltage *)
Theorem C10_dc_gain : forall (K : fops) (KOK : fops_ok K) (n : network K) (cvals lvals : list (label * K)),
  (forall k, k < ss_nst K cvals lvals -> nth k (lam K cvals lvals) (f0 K) <> f0 K) ->
  rlc_dc K n cvals lvals ->
  forall m : ssm K, state_space_matrices K n cvals lvals = Ok m ->
  forall x u : list K, length x = ss_nst K cvals lvals -> length u = ss_nS K n lvals ->
  (forall k, k < ss_nst K cvals lvals -> nth k (ss_xdot K m x u) (f0 K) = f0 K) ->
  exists (phi : label -> K) (j : branch K -> K),
     (forall node, node = zero n \/ In node (node_index n) -> out_potential K n cvals lvals m node x u = Ok (phi node))
  /\ (forall b, In b (branches n) ->
        out_voltage K n cvals lvals m (bid b) x u = Ok (bvolt phi b) /\ out_current K n cvals lvals m (bid b) x u = Ok (j b))
  /\ phi (zero n) = f0 K
  /\ (forall node, kcl_sum (branches n) j node = f0 K)
  /\ (forall b, In b (branches n) -> lmem (bid b) (ckeys K cvals) = true -> j b = f0 K)
  /\ (forall b, In b (branches n) -> lmem (bid b) (lkeys K lvals) = true -> bvolt phi b = f0 K)
  /\ (forall b, In b (branches n) -> is_ideal_voltage_source (el b) = true -> lmem (bid b) (lkeys K lvals) = false ->
        bvolt phi b = nth (lindex (sources K n lvals) (bid b)) u (f0 K))
  /\ (forall b, In b (branches n) -> is_current_source (el b) = true ->
        j b = nth (lindex (sources K n lvals) (bid b)) u (f0 K))
  /\ (forall b, In b (branches n) -> lmem (bid b) (ckeys K cvals) = false -> is_ideal_voltage_source (el b) = false ->
        is_current_source (el b) = false -> j b = fmul K (finY b) (bvolt phi b)).
Proof. exact ss_dc_gain. Qed.
Print Assumptions C10_dc_gain.

From Coq Require Import String.
Local Open Scope string_scope.
(* ---- non-vacuity: an RLC circuit whose two inductors are listed non-alphabetically (Lb before La) and whose current
   source M1 sorts after both inductors and before the voltage source Vs — the situation of the repaired defect
   (columns selected with indices of a merged sort) ---- *)
Definition q (a : Z) (b : positive) : Qcops := qc a b.
Definition ex_net : network Qcops :=
  {| zero := lbl "0";
     branches := [ Build_branch (lbl "2") (lbl "3") (impedance (lbl "Lb") (q 0 1));
                   Build_branch (lbl "1") (lbl "2") (resistor (lbl "R1") (q 2 1));
                   Build_branch (lbl "0") (lbl "3") (current_source (lbl "M1") (q 1 1) (q 0 1));
                   Build_branch (lbl "2") (lbl "0") (impedance (lbl "La") (q 0 1));
                   Build_branch (lbl "3") (lbl "0") (admittance (lbl "C1") (q 0 1));
                   Build_branch (lbl "3") (lbl "0") (resistor (lbl "R2") (q 5 1));
                   Build_branch (lbl "1") (lbl "0") (voltage_source (lbl "Vs") (q 1 1) (q 0 1)) ] |}.
Definition ex_c : list (label * Qcops) := [(lbl "C1", q 1 2)].
Definition ex_l : list (label * Qcops) := [(lbl "Lb", q 2 1); (lbl "La", q 3 1)].

Example C10_example_hyp : rlc_dcb ex_net ex_c ex_l = true /\ lam_nzb ex_c ex_l = true.
Proof. vm_compute. split; reflexivity. Qed.
Example C10_example_rlc : rlc_dc Qcops ex_net ex_c ex_l.
Proof. exact (rlc_dcb_ok ex_net ex_c ex_l (proj1 C10_example_hyp)). Qed.
Example C10_example_sources : sources Qcops ex_net ex_l = [lbl "M1"; lbl "Vs"]
  /\ vs_index ex_net = [lbl "La"; lbl "Lb"; lbl "Vs"] /\ lkeys Qcops ex_l = [lbl "Lb"; lbl "La"].
Proof. vm_compute. repeat split; reflexivity. Qed.
(* states (v_C1, i_Lb, i_La), inputs (M1, Vs):
   C1 v' = i_Lb - v/R2 + M1;  Lb i_Lb' = (Vs - R1 (i_La + i_Lb)) - v;  La i_La' = Vs - R1 (i_La + i_Lb) *)
Example C10_example_runs :
  match state_space_matrices Qcops ex_net ex_c ex_l with
  | Ok m => mat_eqb (ss_A m) [[q (-2) 5; q 2 1; q 0 1]; [q (-1) 2; q (-1) 1; q (-1) 1]; [q 0 1; q (-2) 3; q (-2) 3]]
            && mat_eqb (ss_B m) [[q 2 1; q 0 1]; [q 0 1; q 1 2]; [q 0 1; q 1 3]]
  | Err _ => false
  end = true.
Proof. vm_compute. reflexivity. Qed.
(* boolean observers of the conclusions on this example: at x = (1, 2, 3), u = (5, 7) the capacitor voltage row gives
   x_0, the current rows of Lb and La give x_1 and x_2, the current row of M1 gives u_0, the voltage row of Vs u_1 *)
Definition res_is (r : res Qcops) (v : Qcops) : bool := match r with Ok a => Qc_eq_bool a v | Err _ => false end.
Example C10_example_outputs :
  match state_space_matrices Qcops ex_net ex_c ex_l with
  | Ok m => let x := [q 1 1; q 2 1; q 3 1] in let u := [q 5 1; q 7 1] in
            res_is (out_voltage Qcops ex_net ex_c ex_l m (lbl "C1") x u) (q 1 1)
            && res_is (out_current Qcops ex_net ex_c ex_l m (lbl "Lb") x u) (q 2 1)
            && res_is (out_current Qcops ex_net ex_c ex_l m (lbl "La") x u) (q 3 1)
            && res_is (out_current Qcops ex_net ex_c ex_l m (lbl "M1") x u) (q 5 1)
            && res_is (out_voltage Qcops ex_net ex_c ex_l m (lbl "Vs") x u) (q 7 1)
  | Err _ => false
  end = true.
Proof. vm_compute. reflexivity. Qed.

(* the same circuit over the Gaussian rationals at s = j (w = 1 rad/s), u = (5, 7): x := (sI - A)^-1 B u computed with
   the checked solver; observers: s x = A x + B u holds; the phasor network is solved by the library's solver; the
   potentials of all nodes and the voltages of all branches obtained from C x + D u coincide with that solution *)
Definition c (a : Z) (b : positive) : CQ := cq a b 0 1.
Definition exC_net : network CQ :=
  {| zero := lbl "0";
     branches := [ Build_branch (lbl "2") (lbl "3") (impedance (lbl "Lb") (c 0 1));
                   Build_branch (lbl "1") (lbl "2") (resistor (lbl "R1") (c 2 1));
                   Build_branch (lbl "0") (lbl "3") (current_source (lbl "M1") (c 1 1) (c 0 1));
                   Build_branch (lbl "2") (lbl "0") (impedance (lbl "La") (c 0 1));
                   Build_branch (lbl "3") (lbl "0") (admittance (lbl "C1") (c 0 1));
                   Build_branch (lbl "3") (lbl "0") (resistor (lbl "R2") (c 5 1));
                   Build_branch (lbl "1") (lbl "0") (voltage_source (lbl "Vs") (c 1 1) (c 0 1)) ] |}.
Definition exC_c : list (label * CQ) := [(lbl "C1", c 1 2)].
Definition exC_l : list (label * CQ) := [(lbl "Lb", c 2 1); (lbl "La", c 3 1)].
Definition exC_s : CQ := cq 0 1 1 1.
Definition exC_u : list CQ := [c 5 1; c 7 1].
Definition sI_minus (s : CQ) (A : list (list CQ)) : list (list CQ) :=
  mat_sub CQ (map (map (fmul CQ s)) (ident (List.length A))) A.
Definition res_eqb (a b : res CQ) : bool :=
  match a, b with Ok p, Ok r => feqb CQ p r | _, _ => false end.
Example C10_example_hyp_CQ : rlc_dcb exC_net exC_c exC_l = true /\ lam_nzb exC_c exC_l = true.
Proof. vm_compute. split; reflexivity. Qed.
Example C10_example_transfer :
  match state_space_matrices CQ exC_net exC_c exC_l with
  | Ok m =>
      match solve (sI_minus exC_s (ss_A m)) (mat_vec (ss_B m) exC_u) with
      | Some x =>
          vec_eqb (ss_xdot CQ m x exC_u) (map (fmul CQ exC_s) x)
          && match solve_network (pnet CQ exC_net exC_c exC_l exC_s exC_u) with
             | Ok sol =>
                 forallb (fun nd => res_eqb (out_potential CQ exC_net exC_c exC_l m nd x exC_u) (get_potential sol nd))
                         (node_labels exC_net)
                 && forallb (fun b => res_eqb (out_voltage CQ exC_net exC_c exC_l m (bid b) x exC_u) (get_voltage sol (bid b))
                                      && res_eqb (out_current CQ exC_net exC_c exC_l m (bid b) x exC_u) (get_current sol (bid b)))
                            (branches exC_net)
             | Err _ => false
             end
      | None => false
      end
  | Err _ => false
  end = true.
Proof. vm_compute. reflexivity. Qed.
