(* C13 (continued) — what the component translators of SimpleCircuit/CircuitComponentTranslators.py READ of a schematic symbol
   (element.is_reverse, element.name, element.V / I / R / ... / w / phi / deg) is fixed by the constructors of
   SimpleCircuit/Elements.py.  Cross-listing of C15d: the constructors as REGENERATED on every run (Gen/ElementsGen.v) give these
   properties the values the hand model of the drawing layer assumes:
     is_reverse = the `reverse` keyword of the call — NOT the flag handed to schemdraw, which the voltage sources negate;
     name       = the `name` keyword, '' for a Line whatever it was given, '0' for a Ground without name;
     V / I      = the constructor argument, negated when the symbol is reversed (so that the translators' second negation
                  hands the component the argument back: C13c's PNegIfReverse);
     every attribute [translate] reads is a plain property returning the private attribute of the same name.
   And the two independent readings of Elements.py — tools/gen_drawing.py's provenance table g_attr_prov (C13c) and
   tools/gen_elements.py's constructors (C15d) — agree row by row.
   The network branch translators (NetworkBranchTranslators.py) are in Properties/C13d_branches.v.
   Statements only; proofs are in Theory/ElementsGenThm.v and Theory/ElementsDrawingThm.v. *)
From Coq Require Import List Bool NArith ZArith QArith Qcanon String.
From CC Require Import Theory.Field Theory.Complex Model.Network Model.Circuit Model.Loaders Theory.LoadersThm Model.SaveLoad
  Theory.SaveLoadThm Model.SaveLoadPrims Model.ElementsPrims Gen.ElementsGen Theory.ElementsGenThm Theory.ElementsDrawingThm
  Properties.C15 Properties.C15d.
From CC Require Model.Drawing Model.DrawingPrims Gen.DrawingGen.
Import ListNotations.

(* ================= is_reverse, name ================= *)
Theorem C13d_is_reverse : forall (R : fops) (ROK : fops_ok R) (pi : R) (c : scls) (f : class_facts) (kw : dict (jval R))
  (ps pe : point R) (s : symbol R),
  kw_typed R kw -> NoDup (map fst kw) -> In c modelled_classes -> facts_of c = Some f ->
  run_ctor R pi g_decorator f c kw ps pe = Ok s ->
  s_reverse s = match dget kw q_reverse with Some (JBool x) => x | _ => false end.
Proof. exact is_reverse_regenerated. Qed.
Print Assumptions C13d_is_reverse.
(* ... while schemdraw's own constructor gets the opposite flag from the four voltage sources (C15d_sd_reverse) *)
Theorem C13d_schemdraw_reverse : forall (R : fops) (pi : R) (rev : bool),
  super_reverse R pi g_facts_VoltageSource rev = Ok (Some (negb rev)) /\
  super_reverse R pi g_facts_ComplexVoltageSource rev = Ok (Some (negb rev)) /\
  super_reverse R pi g_facts_ACVoltageSource rev = Ok (Some (negb rev)) /\
  super_reverse R pi g_facts_RectVoltageSource rev = Ok (Some (negb rev)) /\
  super_reverse R pi g_facts_CurrentSource rev = Ok (Some rev) /\
  super_reverse R pi g_facts_Resistor rev = Ok (Some rev).
Proof. intros R pi rev. destruct rev; repeat split. Qed.

Theorem C13d_name : forall (R : fops) (ROK : fops_ok R) (pi : R) (c : scls) (f : class_facts) (kw : dict (jval R))
  (ps pe : point R) (s : symbol R),
  kw_typed R kw -> NoDup (map fst kw) -> In c modelled_classes -> facts_of c = Some f ->
  run_ctor R pi g_decorator f c kw ps pe = Ok s ->
  name_property R f s = pname R s /\ ctor_name R c kw = Ok (s_name s) /\ s_cls s = c.
Proof. exact name_regenerated. Qed.
Print Assumptions C13d_name.

(* ================= the values ================= *)
(* the amplitude of a source: the constructor argument, negated when reversed *)
Theorem C13d_amplitude : forall (R : fops) (ROK : fops_ok R) (pi : R) (c : scls) (f : class_facts) (kw : dict (jval R))
  (ps pe : point R) (s : symbol R) (a : label),
  kw_typed R kw -> NoDup (map fst kw) -> In c modelled_classes -> facts_of c = Some f ->
  run_ctor R pi g_decorator f c kw ps pe = Ok s -> amp_key c = Some a ->
  exists v v', dget kw a = Some v /\ neg_if R (s_reverse s) v = Ok v' /\ dget (s_attr s) a = Some v'.
Proof. exact amplitude_regenerated. Qed.
Print Assumptions C13d_amplitude.
Theorem C13d_amp_key_meaning : forall c : scls,
  amp_key c = match c with
              | CVoltageSource | CComplexVoltageSource | CACVoltageSource | CRectVoltageSource => Some q_V
              | CCurrentSource | CComplexCurrentSource | CACCurrentSource | CRectCurrentSource => Some q_I
              | _ => None
              end.
Proof. intros c. reflexivity. Qed.
(* [translate] reads nothing of the attributes beyond [read_keys] *)
Theorem C13d_translate_reads : forall (R : fops) (pi : R) (s s' : symbol R),
  s_cls s = s_cls s' -> s_name s = s_name s' -> s_reverse s = s_reverse s' -> s_start s = s_start s' -> s_end s = s_end s' ->
  (forall k, In k (read_keys (s_cls s)) -> dget (s_attr s) k = dget (s_attr s') k) ->
  translate R pi s = translate R pi s'.
Proof. exact translate_reads. Qed.
(* each of them is a plain property of the class returning the private attribute of the same name (_x under x) *)
Theorem C13d_read_keys_are_properties : forall c : scls, In c modelled_classes ->
  exists f, facts_of c = Some f /\
    forallb (fun k => match property_reads f k with
                      | Some fld => label_eqb fld (95%N :: k) && label_eqb (attr_key fld) k
                      | None => false end) (read_keys c) = true.
Proof. exact read_keys_are_properties. Qed.
Print Assumptions C13d_translate_reads.
Print Assumptions C13d_read_keys_are_properties.
(* the views agree for all seventeen classes (C15d_view) *)
Theorem C13d_view : forall (R : fops) (ROK : fops_ok R) (pi : R) (c : scls) (kw : dict (jval R)) (ps pe : point R),
  kw_typed R kw -> NoDup (map fst kw) -> In c modelled_classes ->
  exists f, facts_of c = Some f /\
    bind (run_ctor R pi g_decorator f c kw ps pe) (fun s => Ok (view_of R pi s))
    = bind (construct R pi c kw ps pe) (fun s => Ok (view_of R pi s)).
Proof. exact view_regenerated. Qed.

(* ================= the provenance table of C13c against the regenerated constructors ================= *)
Theorem C13d_provenance_agrees : forall (n : N) (attr : label) (p : DrawingPrims.prov) (c : scls),
  In (n, attr, p) DrawingGen.g_attr_prov -> class_of_code n = Some c ->
  exists f, facts_of c = Some f /\ store_prov f attr = Some p.
Proof. exact prov_agrees. Qed.
Theorem C13d_provenance_rows :
  List.length (filter (fun row => match class_of_code (fst (fst row)) with Some _ => true | None => false end) DrawingGen.g_attr_prov) = 23%nat.
Proof. exact prov_rows_counted. Qed.
Theorem C13d_store_prov_meaning : forall (f : class_facts) (attr : label),
  store_prov f attr
  = match property_reads f attr with
    | None => None
    | Some fld =>
        if lmem fld (touched (ctor_body_of (cf_ctor f))) then None
        else match filter (fun fe => label_eqb (fst fe) fld) (stores_of (ctor_body_of (cf_ctor f))) with
             | [(_, e)] => expr_prov e
             | _ => None
             end
    end.
Proof. intros f attr. reflexivity. Qed.
Print Assumptions C13d_provenance_agrees.

(* ================= witnesses ================= *)
(* the hypotheses are satisfiable: the reversed voltage source of C15d (kw_vs) *)
Example ex_reversed_source :
  match run CVoltageSource kw_vs with
  | Ok s => Some (s_reverse s, s_name s, dget (s_attr s) q_V, dget (s_user s) q_reverse)
  | Err _ => None end
  = Some (true, lbl "V1", Some (n (-1) 1), Some (JBool false)).
Proof. vmr. Qed.
(* ... and the translated component gets the constructor's V = 1 back, on swapped terminals *)
Example ex_reversed_source_component :
  match run CVoltageSource kw_vs with
  | Ok s => match translate QR qpi s with Ok (Some c) => Some (t_type c, t_nodes c, dget (t_vals c) q_V) | _ => None end
  | Err _ => None end
  = Some (t_dc_voltage_source, [pt 1 0; pt 0 0], Some (n 1 1)).
Proof. vmr. Qed.
(* the phase of an AC source is NOT in the provenance table (it is touched by the sine shift): store_prov agrees *)
Example ex_phi_not_a_plain_store :
  store_prov g_facts_ACVoltageSource q_phi = None /\ store_prov g_facts_RectVoltageSource q_phi = Some (DrawingPrims.PArg q_phi) /\
  DrawingPrims.prov_lookup DrawingGen.g_attr_prov Drawing.c_ACVoltageSource q_phi = None.
Proof. repeat split. Qed.
