(* C01d — the matrix assembly of the model IS the source: every definition that tools/gen_matrix.py regenerates from
   Network/NodalAnalysis/node_analysis.py and from the list-valued methods of Network/network.py (Gen/MatrixGen.v,
   rewritten on every run) is equal to the hand-written definition of Model/Network.v / Model/Port.v that
   C01 / C03 / C04 / C05 / C06 are stated about.  numpy arrays are [arr2] (rows + number of columns); loops that fill
   an array are folds over the iterated list; the mapper parameters are instantiated with their declared defaults.
   [NoDup (branch_ids n)] holds for every network the constructor Network(...) accepts (C01d_constructed_nodup).
   Statements only; every proof is [exact <lemma>] (lemmas: Theory/MatrixGenThm.v).  Generic in the field. *)
From Coq Require Import String.
From Coq Require Import List Bool ZArith NArith Permutation.
From CC Require Import Theory.Field Theory.Complex Theory.Labels Model.Network Model.Transformers Model.NetworkPrims
  Model.StateSpace Model.Port Model.MatrixPrims Gen.NetworkGen Gen.MatrixGen Theory.Api Theory.NetworkGenThm
  Theory.MatrixGenThm.
Import ListNotations.

(* ====================== network.py: branches_connected_to / branches_between / nodes_connected_to ====================== *)
(* the connected branches, sorted (stably) by the label of the far node: a permutation of the model's filter *)
Theorem C01d_branches_connected_to : forall (K : fops) (n : network K) (i : label),
  Permutation (py_network_m.Network_branches_connected_to K n i) (filter (connected i) (branches n)).
Proof. exact branches_connected_to_perm. Qed.
Print Assumptions C01d_branches_connected_to.
(* set((b.node1, b.node2)) == set((i, j)) *)
Theorem C01d_branches_between : forall (K : fops) (n : network K) (i j : label),
  py_network_m.Network_branches_between K n i j = filter (between i j) (branches n).
Proof. exact branches_between_eq. Qed.
Print Assumptions C01d_branches_between.
Theorem C01d_nodes_connected_to : forall (K : fops) (n : network K) (i : label),
  py_network_m.Network_nodes_connected_to K n i
  = set_of_list (map (other_end K i) (py_network_m.Network_branches_connected_to K n i)).
Proof. exact nodes_connected_to_eq. Qed.
Print Assumptions C01d_nodes_connected_to.

(* ====================== node_analysis.py: admittances ====================== *)
(* the sums over the finite admittances (ideal voltage sources skipped by the isfinite filter) *)
Theorem C01d_admittance_connected_to : forall (K : fops) (KOK : fops_ok K) (n : network K) (i : label),
  py_node_analysis.admittance_connected_to K n i = admittance_connected_to (branches n) i.
Proof. exact admittance_connected_to_eq. Qed.
Print Assumptions C01d_admittance_connected_to.
Theorem C01d_admittance_between : forall (K : fops) (KOK : fops_ok K) (n : network K) (i j : label),
  py_node_analysis.admittance_between K n i j = admittance_between (branches n) i j.
Proof. exact admittance_between_eq. Qed.
Print Assumptions C01d_admittance_between.
Theorem C01d_connected_nodes : forall (K : fops) (n : network K) (i : label),
  Permutation (py_node_analysis.connected_nodes K n i) (map (other_end K i) (filter (connected i) (branches n))).
Proof. exact connected_nodes_perm. Qed.
Print Assumptions C01d_connected_nodes.

(* ====================== node_analysis.py: the blocks of the MNA system ====================== *)
(* Y: the diagonal / off-diagonal rule, entry by entry in the order of the node mapping *)
Theorem C01d_node_admittance_matrix : forall (K : fops) (KOK : fops_ok K) (n : network K),
  py_node_analysis.node_admittance_matrix K n (py_node_analysis.node_admittance_matrix__default_node_index_mapper K)
  = {| a_cols := length (node_index n); a_rows := map (fun i => map (Yent n i) (node_index n)) (node_index n) |}.
Proof. exact node_admittance_matrix_eq. Qed.
Print Assumptions C01d_node_admittance_matrix.
(* B: +1 at node1, -1 at node2 of each ideal voltage source *)
Theorem C01d_voltage_source_incidence_matrix : forall (K : fops) (n : network K), NoDup (branch_ids n) ->
  py_node_analysis.voltage_source_incidence_matrix K n (py_node_analysis.voltage_source_incidence_matrix__default_node_mapper K)
    (py_node_analysis.voltage_source_incidence_matrix__default_source_mapper K)
  = Ok {| a_cols := length (vs_index n); a_rows := map (fun i => map (Bent n i) (vs_index n)) (node_index n) |}.
Proof. exact voltage_source_incidence_matrix_eq. Qed.
Print Assumptions C01d_voltage_source_incidence_matrix.
(* [[Y, B], [B^T, 0]] *)
Theorem C01d_coefficient_matrix : forall (K : fops) (KOK : fops_ok K) (n : network K), NoDup (branch_ids n) ->
  py_node_analysis.nodal_analysis_coefficient_matrix K n (py_node_analysis.nodal_analysis_coefficient_matrix__default_node_mapper K)
    (py_node_analysis.nodal_analysis_coefficient_matrix__default_source_mapper K)
  = Ok {| a_cols := length (node_index n) + length (vs_index n); a_rows := mna_matrix n |}.
Proof. exact nodal_analysis_coefficient_matrix_eq. Qed.
Print Assumptions C01d_coefficient_matrix.
(* Q: -1 at node1, +1 at node2 of each current source, the reference node skipped *)
Theorem C01d_source_incidence_matrix : forall (K : fops) (n : network K), NoDup (branch_ids n) ->
  py_node_analysis.source_incidence_matrix K n (py_node_analysis.source_incidence_matrix__default_node_mapper K)
    (py_node_analysis.source_incidence_matrix__default_source_mapper K)
  = Ok {| a_cols := length (cs_index n); a_rows := map (fun i => map (Qent n i) (cs_index n)) (node_index n) |}.
Proof. exact source_incidence_matrix_eq_. Qed.
Print Assumptions C01d_source_incidence_matrix.
Theorem C01d_current_source_vector : forall (K : fops) (n : network K), NoDup (branch_ids n) ->
  py_node_analysis.current_source_vector K n (py_node_analysis.current_source_vector__default_source_mapper K)
  = Ok (map (branch_I n) (cs_index n)).
Proof. exact current_source_vector_eq. Qed.
Print Assumptions C01d_current_source_vector.
Theorem C01d_current_source_incidence_vector : forall (K : fops) (n : network K), NoDup (branch_ids n) ->
  py_node_analysis.current_source_incidence_vector K n (py_node_analysis.current_source_incidence_vector__default_node_mapper K)
    (py_node_analysis.current_source_incidence_vector__default_source_mapper K)
  = Ok (map (fun i => sumF (fun cs => fmul K (Qent n i cs) (branch_I n cs)) (cs_index n)) (node_index n)).
Proof. exact current_source_incidence_vector_eq. Qed.
Print Assumptions C01d_current_source_incidence_vector.
(* (Q I_s, V_s) *)
Theorem C01d_constants_vector : forall (K : fops) (n : network K), NoDup (branch_ids n) ->
  py_node_analysis.nodal_analysis_constants_vector K n (py_node_analysis.nodal_analysis_constants_vector__default_node_mapper K)
    (py_node_analysis.nodal_analysis_constants_vector__default_current_source_mapper K)
    (py_node_analysis.nodal_analysis_constants_vector__default_voltage_source_mapper K)
  = Ok (mna_rhs n).
Proof. exact nodal_analysis_constants_vector_eq. Qed.
Print Assumptions C01d_constants_vector.
(* the linear system the bias-point solver hands to np.linalg.solve is the one [solve_network] solves *)
Theorem C01d_solver_system : forall (K : fops) (KOK : fops_ok K) (n n' : network K), validate n = Ok n' ->
  bind (py_node_analysis.nodal_analysis_coefficient_matrix K n' (py_node_analysis.nodal_analysis_coefficient_matrix__default_node_mapper K)
          (py_node_analysis.nodal_analysis_coefficient_matrix__default_source_mapper K)) (fun A =>
  bind (py_node_analysis.nodal_analysis_constants_vector K n' (py_node_analysis.nodal_analysis_constants_vector__default_node_mapper K)
          (py_node_analysis.nodal_analysis_constants_vector__default_current_source_mapper K)
          (py_node_analysis.nodal_analysis_constants_vector__default_voltage_source_mapper K)) (fun b =>
  match np_linalg_solve A b with Some x => Ok {| s_net := n'; s_x := x |} | None => Err ESingular end))
  = solve_network n.
Proof. exact solver_system_eq. Qed.
Print Assumptions C01d_solver_system.
Theorem C01d_constructed_nodup : forall (K : fops) (bs : list (branch K)) (z : label) (n : network K),
  py_network.Network__new K bs z = Ok n -> NoDup (branch_ids n).
Proof. exact constructed_nodup. Qed.
Print Assumptions C01d_constructed_nodup.

(* ====================== node_analysis.py: the port functions (C06) ====================== *)
Theorem C01d_open_circuit_impedance : forall (K : fops) (KOK : fops_ok K) (n : network K) (n1 n2 : label),
  py_node_analysis.open_circuit_impedance K n n1 n2 (py_node_analysis.open_circuit_impedance__default_node_index_mapper K)
  = open_circuit_impedance n n1 n2.
Proof. exact open_circuit_impedance_eq. Qed.
Print Assumptions C01d_open_circuit_impedance.
Theorem C01d_element_impedance : forall (K : fops) (KOK : fops_ok K) (n : network K) (id : label),
  py_node_analysis.element_impedance K n id (py_node_analysis.element_impedance__default_node_index_mapper K)
  = element_impedance n id.
Proof. exact element_impedance_eq. Qed.
Print Assumptions C01d_element_impedance.

(* ---- non-vacuity: a concrete network (ideal source, linear source, current source, parallel branches, labels
   '10' < '9') satisfies the hypothesis; the regenerated assembly, run on it, produces the non-trivial 5 x 5 system ---- *)
Definition L (z : Z) : label := [Z.to_N z].
Definition ex_net : network CQ :=
  {| zero := L 48;
     branches := [ Build_branch (L 49) (L 48) (voltage_source (L 86) (cq 5 1 1 1) (cq 0 1 0 1));
                   Build_branch (L 49) [49%N; 48%N] (resistor (L 82) (cq 2 1 0 1));
                   Build_branch [49%N; 48%N] (L 57) (impedance (L 90) (cq 3 1 4 1));
                   Build_branch (L 57) [49%N; 48%N] (admittance (L 89) (cq 1 2 (-1) 4));
                   Build_branch (L 48) (L 57) (voltage_source (L 76) (cq 7 1 0 1) (cq 2 1 1 1));
                   Build_branch (L 57) (L 49) (current_source (L 73) (cq (-2) 1 1 2) (cq 0 1 0 1)) ] |}.
Definition arr_eqb (A B : arr2 CQ) : bool := Nat.eqb (a_cols A) (a_cols B) && mat_eqb (a_rows A) (a_rows B).
Definition res_arr_eqb (a : res (arr2 CQ)) (B : arr2 CQ) : bool := match a with Ok A => arr_eqb A B | Err _ => false end.
Definition res_vec_eqb (a : res (list CQ)) (b : list CQ) : bool := match a with Ok v => vec_eqb v b | Err _ => false end.
Definition nonzero_entries (M : list (list CQ)) : nat :=
  length (filter (fun x => negb (feqb CQ x (f0 CQ))) (concat M)).
Definition is_ok {A} (r : res A) : bool := match r with Ok _ => true | Err _ => false end.
Example C01d_example_valid : is_ok (validate ex_net) = true.
Proof. vm_compute. reflexivity. Qed.
Example C01d_example_nodup : NoDup (branch_ids ex_net).
Proof. apply ldedup_length_NoDup. vm_compute. reflexivity. Qed.
Example C01d_example_system :
  res_arr_eqb (py_node_analysis.nodal_analysis_coefficient_matrix CQ ex_net
                 (py_node_analysis.nodal_analysis_coefficient_matrix__default_node_mapper CQ)
                 (py_node_analysis.nodal_analysis_coefficient_matrix__default_source_mapper CQ))
              {| a_cols := 4; a_rows := mna_matrix ex_net |} = true
  /\ res_vec_eqb (py_node_analysis.nodal_analysis_constants_vector CQ ex_net
                 (py_node_analysis.nodal_analysis_constants_vector__default_node_mapper CQ)
                 (py_node_analysis.nodal_analysis_constants_vector__default_current_source_mapper CQ)
                 (py_node_analysis.nodal_analysis_constants_vector__default_voltage_source_mapper CQ)) (mna_rhs ex_net) = true
  /\ length (mna_matrix ex_net) = 4%nat /\ nonzero_entries (mna_matrix ex_net) = 9%nat
  /\ nonzero_entries [mna_rhs ex_net] = 3%nat.
Proof. repeat split; vm_compute; reflexivity. Qed.
(* the impedance seen by the resistor 'R' and between two nodes: finite, non-zero, the model's value; an unknown id: KeyError *)
Definition opt_res_eqb (a b : res (option CQ)) : bool :=
  match a, b with Ok (Some x), Ok (Some y) => feqb CQ x y && negb (feqb CQ x (f0 CQ)) | _, _ => false end.
Example C01d_example_ports :
  opt_res_eqb (py_node_analysis.element_impedance CQ ex_net (L 82) (py_node_analysis.element_impedance__default_node_index_mapper CQ))
              (element_impedance ex_net (L 82)) = true
  /\ opt_res_eqb (py_node_analysis.open_circuit_impedance CQ ex_net (L 49) (L 57)
                    (py_node_analysis.open_circuit_impedance__default_node_index_mapper CQ))
                 (open_circuit_impedance ex_net (L 49) (L 57)) = true
  /\ py_node_analysis.element_impedance CQ ex_net (L 88) (py_node_analysis.element_impedance__default_node_index_mapper CQ)
     = Err EKeyError.
Proof. repeat split; vm_compute; reflexivity. Qed.
