(* C15 (continued) — the CONSTRUCTORS of the persistable classes of SimpleCircuit/Elements.py as REGENERATED on every run
   (Gen/ElementsGen.v, produced by tools/gen_elements.py: for each class the accepted part of its `__init__` as a syntax tree,
   interpreted by [run_ctor] of Model/ElementsPrims.v) are the hand-written constructor model of Model/SaveLoad.v
   ([construct] with [attrs_of], [src_attrs], [amp_attr], [one_attr], [ctor_name], [ctor_params], [sd_reverse], [mk_user]) that
   C15_roundtrip / C15_iterate / C15_declarative and C15c are stated about.  An edit of a constructor (V no longer negated under
   reverse, `-=` turned into `+=` for the sine shift, the shift applied to a rectangular source, `reverse=reverse` handed to
   schemdraw by a voltage source, a parameter dropped from a signature, another default name) changes Gen/ElementsGen.v and breaks
   an equality below, or is refused by the translator.
   Statements only; proofs are in Theory/ElementsGenThm.v. *)
From Coq Require Import List Bool NArith ZArith QArith Qcanon String.
From CC Require Import Theory.Field Theory.Complex Model.Network Model.Circuit Model.Loaders Theory.LoadersThm Model.SaveLoad
  Theory.SaveLoadThm Model.SaveLoadPrims Model.ElementsPrims Gen.ElementsGen Theory.ElementsGenThm Properties.C15.
Import ListNotations.

(* ================= A. running the regenerated constructor is [construct] ================= *)
(* Full statement (every class of the model, every keyword dictionary): *)
Definition C15d_construct_full : Prop :=
  forall (R : fops) (ROK : fops_ok R) (pi : R) (c : scls) (kw : dict (jval R)) (ps pe : point R), In c modelled_classes ->
  exists f, facts_of c = Some f /\ run_ctor R pi g_decorator f c kw ps pe = construct R pi c kw ps pe.
(* It is FALSE (C15d_construct_full_refuted below), for two reasons.
   (1) Ground: Node.__init__ executes  self.params['theta'] = 0; self.params['drop'] = (0, 0)  and `params` is
       ChainMap(_userparams, ...): both keys end up in _userparams, which [mk_user] does not list (confirmed on the Python
       objects: Ground()._userparams == {'name': '0', 'theta': 0, 'drop': (0, 0)}).  Every other field agrees (C15d_ground).
   (2) outside the modelled domain (a `reverse` / `sin` / `deg` that is no bool, a `name` that is no str) both sides answer an
       error, but the interpreter follows Python's order (parameter binding first) and [construct] checks `reverse` first.
   What holds: equality for every other class on the modelled domain; keyword arguments have pairwise distinct names. *)
Theorem C15d_construct : forall (R : fops) (ROK : fops_ok R) (pi : R) (kw : dict (jval R)) (ps pe : point R),
  kw_typed R kw -> NoDup (map fst kw) ->
  forall c : scls, In c modelled_classes -> c <> CGround ->
  exists f, facts_of c = Some f /\ run_ctor R pi g_decorator f c kw ps pe = construct R pi c kw ps pe.
Proof. exact construct_regenerated. Qed.
Print Assumptions C15d_construct.
Theorem C15d_kw_typed_meaning : forall (R : fops) (kw : dict (jval R)),
  kw_typed R kw <->
  (match dget kw q_reverse with None | Some (JBool _) => True | _ => False end) /\
  (match dget kw q_name with None | Some (JStr _) => True | _ => False end) /\
  (match dget kw q_sin with None | Some (JBool _) => True | _ => False end) /\
  (match dget kw q_deg with None | Some (JBool _) => True | _ => False end).
Proof. intros R kw. reflexivity. Qed.

(* Ground: [construct] with _userparams replaced by what the chain Ground -> Node -> schemdraw really records *)
Theorem C15d_ground : forall (R : fops) (pi : R) (kw : dict (jval R)) (ps pe : point R), kw_typed R kw ->
  run_ctor R pi g_decorator g_facts_Ground CGround kw ps pe
  = bind (construct R pi CGround kw ps pe) (fun s => Ok (set_user R s (ground_user R kw (s_name s)))).
Proof. exact run_Ground. Qed.
Theorem C15d_ground_user_meaning : forall (R : fops) (kw : dict (jval R)) (nm : label),
  ground_user R kw nm
  = dset (dset (update (filter (fun kv => not_null R (snd kv)) kw)
                       ((q_name, JStr nm) :: filter (fun kv => negb (lmem (fst kv) [q_name])) kw))
               (lbl "theta") (JNum (f0 R))) (lbl "drop") (JList [JNum (f0 R); JNum (f0 R)]).
Proof. intros R kw nm. reflexivity. Qed.
(* ... and that is [mk_user]'s dictionary with exactly Node's two entries added — when the name is given, or when no keyword
   argument is None (a Ground without name but with a None-valued extra keyword records the name BEFORE that keyword,
   [mk_user] after it: the order of the dictionary differs) *)
Theorem C15d_ground_user_vs_mk_user : forall (R : fops) (kw : dict (jval R)) (nm : label) (rev : bool), NoDup (map fst kw) ->
  dget kw q_name = Some (JStr nm) \/ forallb (fun kv => not_null R (snd kv)) kw = true ->
  ground_user R kw nm
  = dset (dset (mk_user R CGround kw rev nm) (lbl "theta") (JNum (f0 R))) (lbl "drop") (JList [JNum (f0 R); JNum (f0 R)]).
Proof. exact ground_user_vs_mk_user. Qed.
Print Assumptions C15d_ground.
Print Assumptions C15d_ground_user_vs_mk_user.

(* for every class of the model, Ground included: what C15 compares (class, name property, is_reverse, terminals, the
   translated component) is the same for the regenerated and for the hand constructor *)
Theorem C15d_view : forall (R : fops) (ROK : fops_ok R) (pi : R) (c : scls) (kw : dict (jval R)) (ps pe : point R),
  kw_typed R kw -> NoDup (map fst kw) -> In c modelled_classes ->
  exists f, facts_of c = Some f /\
    bind (run_ctor R pi g_decorator f c kw ps pe) (fun s => Ok (view_of R pi s))
    = bind (construct R pi c kw ps pe) (fun s => Ok (view_of R pi s)).
Proof. exact view_regenerated. Qed.
Print Assumptions C15d_view.

(* the constructor call of the loader table (C15c: new_element) through the regenerated constructors *)
Theorem C15d_new_element : forall (R : fops) (ROK : fops_ok R) (pi : R) (kw : dict (jval R)),
  kw_typed R kw -> NoDup (map fst kw) ->
  forall c : scls, In c modelled_classes -> c <> CGround ->
  exists f, facts_of c = Some f /\ run_ctor R pi g_decorator f c kw (origin R) (origin R) = new_element R pi c kw.
Proof. intros R ROK pi kw KT ND c Hin HG. exact (construct_regenerated R ROK pi kw (origin R) (origin R) KT ND c Hin HG). Qed.

(* ================= B. the per-class facts, read off the regenerated constructors without running them ================= *)
(* the `reverse` handed to schemdraw's own constructor: `not reverse` for the four voltage sources, `reverse` for the other
   two-terminal classes, none for Ground / Line / Element *)
Theorem C15d_sd_reverse : forall (R : fops) (pi : R) (c : scls) (rev : bool), In c modelled_classes ->
  exists f, facts_of c = Some f /\ super_reverse R pi f rev = Ok (sd_reverse c rev).
Proof. exact sd_reverse_regenerated. Qed.
(* the named parameters of each __init__ *)
Theorem C15d_ctor_params : forall c : scls, In c modelled_classes -> c <> CGround ->
  exists f, facts_of c = Some f /\ param_names (cf_ctor f) = ctor_params c.
Proof. exact ctor_params_regenerated. Qed.
Theorem C15d_ctor_params_ground : param_names g_ctor_Ground = [q_name] /\ ctor_params CGround = [] /\
  super_keywords (ctor_body_of g_ctor_Ground) = [(q_name, EParam q_name)] /\ ctor_base_of g_ctor_Ground = Some g_ctor_Node /\
  super_keywords (ctor_body_of g_ctor_Node) = [(q_name, EParam q_name)] /\ ctor_base_of g_ctor_Node = None.
Proof. exact ctor_params_ground. Qed.
(* the name: required keyword / default of the signature ('0' for Ground) / default of the decorator ('' for Line, Element) *)
Theorem C15d_ctor_name : forall (R : fops) (c : scls) (kw : dict (jval R)), In c modelled_classes ->
  exists f, facts_of c = Some f /\ name_rule R f kw = ctor_name R c kw.
Proof. exact ctor_name_regenerated. Qed.
Theorem C15d_decorator : d_name_key g_decorator = q_name /\ d_name_default g_decorator = KStr [] /\
  d_rev_key g_decorator = q_reverse /\ d_rev_default g_decorator = KBool false.
Proof. exact decorator_regenerated. Qed.
(* `if self._sin: self._phi -= np.pi/2` in the two sinusoidal sources and in no other class *)
Theorem C15d_sine_shift : forall c : scls, In c modelled_classes ->
  exists f, facts_of c = Some f /\
    conditionals_of (ctor_body_of (cf_ctor f))
    = if is_ac c then [(EField (95%N :: q_sin), SAug (95%N :: q_phi) AugSub (EPiDiv 2))] else [].
Proof. exact sine_shift_regenerated. Qed.
(* the `name` property: '' for Line *)
Theorem C15d_name_property : forall (R : fops) (c : scls) (s : symbol R), In c modelled_classes -> s_cls s = c ->
  exists f, facts_of c = Some f /\ name_property R f s = pname R s.
Proof. exact name_property_regenerated. Qed.
(* bookkeeping of _userparams: schemdraw's step-by-step recording is the one-pass formula of [mk_user] *)
Theorem C15d_userparams : forall (R : fops) (ps : list (label * option pconst)) (explicit kw : dict (jval R)),
  NoDup (map fst kw) -> (forall k, In k (map fst explicit) -> lmem k (map fst ps) = true) ->
  record_user R (filter (fun kv => not_null R (snd kv)) kw) (explicit ++ rest_of R ps kw)
  = fold_left (fun d kv => if not_null R (snd kv) || lmem (fst kv) (map fst ps) then d else dset d (fst kv) JNull) kw
              (update (filter (fun kv => not_null R (snd kv)) kw) explicit).
Proof. exact user_eq. Qed.
Print Assumptions C15d_sd_reverse.
Print Assumptions C15d_ctor_params.
Print Assumptions C15d_ctor_name.
Print Assumptions C15d_sine_shift.
Print Assumptions C15d_userparams.

(* ================= witnesses over Qc (pi := 22/7); the expected values were read off the Python objects ================= *)
Definition run (c : scls) (kw : dict (jval QR)) : res (symbol QR) :=
  match facts_of c with Some f => run_ctor QR qpi g_decorator f c kw (pt 0 0) (pt 1 0) | None => Err EOther end.
Definition user_of (r : res (symbol QR)) : option (dict (jval QR)) := match r with Ok s => Some (s_user s) | Err _ => None end.
Definition attr_of (r : res (symbol QR)) : option (dict (jval QR)) := match r with Ok s => Some (s_attr s) | Err _ => None end.
Definition JS (s : string) : jval QR := JStr (lbl s).
(* VoltageSource(V=1, name='V1', reverse=True, foo=None, bar=2):
   _userparams == {'V': 1, 'name': 'V1', 'reverse': False, 'bar': 2, 'foo': None}, _V == -1, is_reverse *)
Definition kw_vs : dict (jval QR) :=
  [(q_V, n 1 1); (q_name, JS "V1"); (q_reverse, JBool true); (lbl "foo", JNull); (lbl "bar", n 2 1)].
Example ex_hypotheses : kw_typed QR kw_vs /\ NoDup (map fst kw_vs).
Proof. split; [vm_compute; tauto|]. apply has_dup_false. vm_compute. reflexivity. Qed.
Example ex_voltage_source :
  user_of (run CVoltageSource kw_vs)
  = Some [(q_V, n 1 1); (q_name, JS "V1"); (q_reverse, JBool false); (lbl "bar", n 2 1); (lbl "foo", JNull)]
  /\ attr_of (run CVoltageSource kw_vs) = Some [(q_V, n (-1) 1)]
  /\ run CVoltageSource kw_vs = construct QR qpi CVoltageSource kw_vs (pt 0 0) (pt 1 0).
Proof. repeat split; vmr. Qed.
(* Resistor(R=5, name='R', reverse=True, show_name=None, foo=None): _userparams == {'R': 5, 'name': 'R', 'reverse': True, 'foo': None} *)
Example ex_resistor :
  user_of (run CResistor [(q_R, n 5 1); (q_name, JS "R"); (q_reverse, JBool true); (q_show_name, JNull); (lbl "foo", JNull)])
  = Some [(q_R, n 5 1); (q_name, JS "R"); (q_reverse, JBool true); (lbl "foo", JNull)].
Proof. vmr. Qed.
(* ACVoltageSource(V=1, w=2, phi=1/2, name='a', sin=True, reverse=True): _V == -1, _phi == 1/2 - pi/2, reverse handed on: False *)
Definition kw_ac : dict (jval QR) :=
  [(q_V, n 1 1); (q_w, n 2 1); (q_phi, n 1 2); (q_name, JS "a"); (q_sin, JBool true); (q_reverse, JBool true)].
Example ex_ac_source :
  attr_of (run CACVoltageSource kw_ac)
  = Some [(q_V, n (-1) 1); (q_w, n 2 1); (q_phi, @JNum QR (Qcminus (qc 1 2) (Qcdiv qpi (qc 2 1)))); (q_deg, JBool false); (q_sin, JBool true)]
  /\ user_of (run CACVoltageSource kw_ac)
     = Some [(q_V, n 1 1); (q_w, n 2 1); (q_phi, n 1 2); (q_name, JS "a"); (q_sin, JBool true); (q_reverse, JBool false)].
Proof. split; vmr. Qed.
(* RectVoltageSource with the same arguments keeps phi *)
Example ex_rect_source :
  attr_of (run CRectVoltageSource kw_ac)
  = Some [(q_V, n (-1) 1); (q_w, n 2 1); (q_phi, n 1 2); (q_deg, JBool false); (q_sin, JBool true)].
Proof. vmr. Qed.
(* Line(name='x', reverse=True, foo=None): everything is recorded; the name property is '' *)
Example ex_line :
  user_of (run CLine [(q_name, JS "x"); (q_reverse, JBool true); (lbl "foo", JNull)])
  = Some [(q_name, JS "x"); (q_reverse, JBool true); (lbl "foo", JNull)]
  /\ match run CLine [(q_name, JS "x")] with Ok s => Some (s_name s, name_property QR g_facts_Line s) | Err _ => None end = Some (lbl "x", []).
Proof. split; vmr. Qed.
(* Ground(): {'name': '0', 'theta': 0, 'drop': (0, 0)};  Ground(name='G', foo=None, bar=1, reverse=True):
   {'name': 'G', 'bar': 1, 'reverse': True, 'foo': None, 'theta': 0, 'drop': (0, 0)} *)
Example ex_ground :
  user_of (run CGround []) = Some [(q_name, JS "0"); (lbl "theta", n 0 1); (lbl "drop", JList [n 0 1; n 0 1])]
  /\ user_of (run CGround [(q_name, JS "G"); (lbl "foo", JNull); (lbl "bar", n 1 1); (q_reverse, JBool true)])
     = Some [(q_name, JS "G"); (lbl "bar", n 1 1); (q_reverse, JBool true); (lbl "foo", JNull); (lbl "theta", n 0 1);
             (lbl "drop", JList [n 0 1; n 0 1])]
  /\ user_of (construct QR qpi CGround [] (pt 0 0) (pt 1 0)) = Some [(q_name, JS "0")].
Proof. repeat split; vmr. Qed.
(* Ground(foo=None): Python records {'name': '0', 'foo': None, 'theta': 0, 'drop': (0, 0)}; [mk_user] lists foo before name *)
Example ex_ground_order :
  user_of (run CGround [(lbl "foo", JNull)]) = Some [(q_name, JS "0"); (lbl "foo", JNull); (lbl "theta", n 0 1); (lbl "drop", JList [n 0 1; n 0 1])]
  /\ user_of (construct QR qpi CGround [(lbl "foo", JNull)] (pt 0 0) (pt 1 0)) = Some [(lbl "foo", JNull); (q_name, JS "0")].
Proof. split; vmr. Qed.
(* outside the modelled domain: another error *)
Example ex_untyped :
  run CResistor [(q_reverse, n 1 1)] = Err ETypeError /\ construct QR qpi CResistor [(q_reverse, n 1 1)] (pt 0 0) (pt 1 0) = Err EOther.
Proof. split; vmr. Qed.
Theorem C15d_construct_full_refuted : ~ C15d_construct_full.
Proof.
  intros H. destruct (H QR Qcops_ok qpi CGround [] (pt 0 0) (pt 1 0)) as [f [Hf E]]; [cbn; tauto|].
  injection Hf as <-. assert (U : user_of (run_ctor QR qpi g_decorator g_facts_Ground CGround [] (pt 0 0) (pt 1 0))
                                 = user_of (construct QR qpi CGround [] (pt 0 0) (pt 1 0))) by (rewrite E; reflexivity).
  vm_compute in U. discriminate U.
Qed.
Print Assumptions C15d_construct_full_refuted.
