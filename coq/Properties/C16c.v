(* C16c — the network transformers of the model ARE the source: every definition that tools/gen_network.py
   regenerates from Network/transformers.py (Gen/NetworkGen.v, module py_transformers, rewritten on every run) is
   equal to the hand-written definition of Model/Transformers.v that C16 is stated about.  Every operation ends in
   the validating constructor Network(...) (C01c_constructor_validates).
   Statements only; every proof is [exact <lemma>] (lemmas: Theory/NetworkGenThm.v).  Generic in the field. *)
From Coq Require Import List Bool ZArith NArith.
From CC Require Import Theory.Field Theory.Complex Theory.Labels Model.Network Model.Transformers Model.NetworkPrims
  Gen.NetworkGen Theory.NetworkGenThm.
Import ListNotations.

Theorem C16c_switch_ground_node : forall (K : fops) (n : network K) (g : label),
  py_transformers.switch_ground_node K n g = switch_ground_node n g.
Proof. exact switch_ground_node_eq. Qed.
Print Assumptions C16c_switch_ground_node.

(* list(network.branches); branches.remove(network[element]) : KeyError, first equal branch removed *)
Theorem C16c_remove_element : forall (K : fops) (n : network K) (id : label),
  py_transformers.remove_element K n id = remove_element n id.
Proof. exact remove_element_eq. Qed.
Print Assumptions C16c_remove_element.

Theorem C16c_remove_open_circuit_elements : forall (K : fops) (n : network K),
  py_transformers.remove_open_circuit_elements K n = remove_open_circuit_elements n.
Proof. exact remove_open_circuit_elements_eq. Qed.
Print Assumptions C16c_remove_open_circuit_elements.

(* the nested functions zero_in_voltage / is_intended_voltage_source (keep first, then the predicate) *)
Theorem C16c_short_circuitify_voltage_sources : forall (K : fops) (n : network K) (keep : list (elem K)),
  py_transformers.short_circuitify_voltage_sources K n keep = short_circuitify_voltage_sources n keep.
Proof. exact short_circuitify_voltage_sources_eq. Qed.
Print Assumptions C16c_short_circuitify_voltage_sources.

Theorem C16c_open_circuitify_current_sources : forall (K : fops) (n : network K) (keep : list (elem K)),
  py_transformers.open_circuitify_current_sources K n keep = open_circuitify_current_sources n keep.
Proof. exact open_circuitify_current_sources_eq. Qed.
Print Assumptions C16c_open_circuitify_current_sources.

(* the loop `while (sc := next_short_circuit(branches)) is not None:` — which branch is picked, which node survives
   (the reference node is never renamed), the three list rewrites of one contraction — is the model's rsc_loop.
   Both sides run at most S (length branches) iterations (Model/NetworkPrims.v, while_list): that bound is shared by
   construction, not derived from the source; Theory/Simplify.v (rsc_loop_no_target) proves it is never reached. *)
Theorem C16c_remove_short_circuit_elements : forall (K : fops) (n : network K) (keep : list (elem K)),
  py_transformers.remove_short_circuit_elements K n keep = remove_short_circuit_elements n keep.
Proof. exact remove_short_circuit_elements_eq. Qed.
Print Assumptions C16c_remove_short_circuit_elements.

(* the three compositions (order of the two stages, `keep` passed to both) *)
Theorem C16c_remove_ideal_current_sources : forall (K : fops) (n : network K) (keep : list (elem K)),
  py_transformers.remove_ideal_current_sources K n keep = remove_ideal_current_sources n keep.
Proof. exact remove_ideal_current_sources_eq. Qed.
Theorem C16c_remove_ideal_voltage_sources : forall (K : fops) (n : network K) (keep : list (elem K)),
  py_transformers.remove_ideal_voltage_sources K n keep = remove_ideal_voltage_sources n keep.
Proof. exact remove_ideal_voltage_sources_eq. Qed.
Theorem C16c_passive_network : forall (K : fops) (n : network K) (keep : list (elem K)),
  py_transformers.passive_network K n keep = passive_network n keep.
Proof. exact passive_network_eq. Qed.
Print Assumptions C16c_remove_ideal_current_sources.
Print Assumptions C16c_remove_ideal_voltage_sources.
Print Assumptions C16c_passive_network.

(* `keep = []` everywhere *)
Theorem C16c_keep_defaults : forall K : fops,
  py_transformers.remove_short_circuit_elements__default_keep K = [] /\
  py_transformers.short_circuitify_voltage_sources__default_keep K = [] /\
  py_transformers.open_circuitify_current_sources__default_keep K = [] /\
  py_transformers.remove_ideal_current_sources__default_keep K = [] /\
  py_transformers.remove_ideal_voltage_sources__default_keep K = [] /\
  py_transformers.passive_network__default_keep K = [].
Proof. exact keep_defaults_eq. Qed.
Print Assumptions C16c_keep_defaults.

(* ---- the regenerated transformers run: a network with an ideal source, a linear source, a current source, an open and
   a short circuit; passive_network strips the sources and contracts the short circuits (two iterations of the loop) ---- *)
Definition L (z : Z) : label := [Z.to_N z].
Definition ex_net : network CQ :=
  {| zero := L 48;
     branches := [ Build_branch (L 49) (L 48) (voltage_source (L 86) (cq 5 1 1 1) (cq 0 1 0 1));
                   Build_branch (L 49) (L 50) (resistor (L 82) (cq 2 1 0 1));
                   Build_branch (L 50) (L 51) (short_circuit (L 83));
                   Build_branch (L 51) (L 48) (impedance (L 90) (cq 3 1 4 1));
                   Build_branch (L 51) (L 48) (open_circuit (L 79));
                   Build_branch (L 48) (L 51) (voltage_source (L 76) (cq 7 1 0 1) (cq 2 1 1 1));
                   Build_branch (L 51) (L 49) (current_source (L 73) (cq (-2) 1 1 2) (cq 0 1 0 1)) ] |}.
Definition ids_of (r : res (network CQ)) : list label :=
  match r with Ok n => map bid (branches n) | Err _ => [] end.
Definition nodes_of (r : res (network CQ)) : list label :=
  match r with Ok n => node_labels n | Err _ => [] end.
Example C16c_example_passive :
  ids_of (py_transformers.passive_network CQ ex_net []) = [L 82; L 90; L 76]
  /\ nodes_of (py_transformers.passive_network CQ ex_net []) = [L 48; L 51].
Proof. split; vm_compute; reflexivity. Qed.
Example C16c_example_keep :
  ids_of (py_transformers.passive_network CQ ex_net [voltage_source (L 86) (cq 5 1 1 1) (cq 0 1 0 1)])
  = [L 86; L 82; L 90; L 76].
Proof. vm_compute. reflexivity. Qed.
Example C16c_example_remove_element :
  ids_of (py_transformers.remove_element CQ ex_net (L 90)) = [L 86; L 82; L 83; L 79; L 76; L 73]
  /\ py_transformers.remove_element CQ ex_net (L 88) = Err EKeyError
  /\ py_transformers.switch_ground_node CQ ex_net (L 88) = Err EFloatingGround.
Proof. repeat split; vm_compute; reflexivity. Qed.
