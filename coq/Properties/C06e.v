(* C06 (continued) — Circuit/impedance.py as REGENERATED on every run (Gen/WrappersGen.v, produced by tools/gen_wrappers.py from
   the source: open_circuit_impedance, element_impedance, open_circuit_dc_resistance, element_dc_resistance, composing the
   regenerated transform_circuit of Gen/CircuitGen.v and the regenerated port functions of Gen/MatrixGen.v) is the hand-written
   circuit-level model Model/CircuitWrappers.v: one model [transform_circuit] (Model/Circuit.v) and one port function of
   Model/Port.v per angular frequency of the sweep, in order; the dc resistances are the real part of the w = 0 entry.
   With this the C06 circuit sweep of the harness is a statement about the code as read from the source: an edit to impedance.py
   changes Gen/WrappersGen.v and breaks one of the equalities below (or is refused by the translator).
   A circuit is a record [Circuit R] of Gen/CircuitGen.v built by its regenerated constructor from the component list [cs];
   [wres] is the value of the default of transform_circuit's parameter w_resolution.  The equalities hold for circuits whose
   lamps / resistive loads have two terminals (the hypothesis of C02c_transform_circuit_partial); without it the two sides still
   have the same outcome, and the unrestricted equalities are refuted.
   Statements only; proofs are in Theory/WrappersGenThm.v. *)
From Coq Require Import List Bool ZArith NArith String QArith Qcanon.
From CC Require Import Theory.Field Theory.Complex Theory.Labels Model.Network Model.Port Model.StateSpace Model.Circuit
  Model.CircuitPrims Model.RunCircuit Theory.CircuitThm Theory.TransformersGen Model.CircuitGenPrims Model.MatrixPrims
  Model.WrappersPrims Gen.CircuitGen Gen.MatrixGen Theory.CircuitGenThm Model.CircuitWrappers Gen.WrappersGen
  Theory.WrappersGenThm Properties.C07.
Import ListNotations.
Local Open Scope string_scope.

(* ================= the hand-written model, in words ================= *)
Theorem C06e_model_unfolded : forall (R : fops) leb rnd ofZ (wres : R) (cs : list (comp R)) (n1 n2 id : label) (ws : list R),
  circuit_open_circuit_impedance R leb rnd ofZ wres cs n1 n2 ws
  = mapM (fun w => bind (transform_circuit R leb rnd ofZ cs w wres) (fun n => open_circuit_impedance n n1 n2)) ws
  /\ circuit_element_impedance R leb rnd ofZ wres cs id ws
  = mapM (fun w => bind (transform_circuit R leb rnd ofZ cs w wres) (fun n => element_impedance n id)) ws
  /\ circuit_open_circuit_dc_resistance R leb rnd ofZ wres cs n1 n2
  = bind (transform_circuit R leb rnd ofZ cs (f0 R) wres) (fun n =>
    bind (open_circuit_impedance n n1 n2) (fun z => Ok (real_part R z)))
  /\ circuit_element_dc_resistance R leb rnd ofZ wres cs id
  = bind (transform_circuit R leb rnd ofZ cs (f0 R) wres) (fun n =>
    bind (element_impedance n id) (fun z => Ok (real_part R z))).
Proof. repeat split; reflexivity. Qed.
Print Assumptions C06e_model_unfolded.

(* ================= open_circuit_impedance(circuit, node1, node2, w) ================= *)
Definition C06e_open_circuit_impedance_full : Prop :=
  forall (R : fops) leb rnd ofZ (wres : R), fops_ok (Cx R) ->
  forall (cs : list (comp R)) (circ : Circuit R) (n1 n2 : label) (ws : list R),
    g_Circuit_post_init R cs = Ok circ ->
    g_open_circuit_impedance R leb rnd ofZ wres circ n1 n2 ws = circuit_open_circuit_impedance R leb rnd ofZ wres cs n1 n2 ws.
(* FALSE for the present hand model, for the reason recorded in C02c_transform_circuit_full: a lamp / resistive load with
   fewer than two terminals raises IndexError in the code where the model reports the element's exception first. *)
Theorem C06e_open_circuit_impedance_partial : forall (R : fops) leb rnd ofZ (wres : R), fops_ok (Cx R) ->
  forall (cs : list (comp R)) (circ : Circuit R) (n1 n2 : label) (ws : list R),
  g_Circuit_post_init R cs = Ok circ ->
  (forall c, In c cs -> ck c = KLamp \/ ck c = KResLoad -> (2 <= List.length (cnodes c))%nat) ->
  g_open_circuit_impedance R leb rnd ofZ wres circ n1 n2 ws = circuit_open_circuit_impedance R leb rnd ofZ wres cs n1 n2 ws.
Proof. exact g_open_circuit_impedance_eq. Qed.
Print Assumptions C06e_open_circuit_impedance_partial.
Theorem C06e_open_circuit_impedance_outcome : forall (R : fops) leb rnd ofZ (wres : R), fops_ok (Cx R) ->
  forall (cs : list (comp R)) (circ : Circuit R) (n1 n2 : label) (ws : list R),
  g_Circuit_post_init R cs = Ok circ ->
  match g_open_circuit_impedance R leb rnd ofZ wres circ n1 n2 ws,
        circuit_open_circuit_impedance R leb rnd ofZ wres cs n1 n2 ws with
  | Ok z, Ok z' => z = z' | Err _, Err _ => True | _, _ => False end.
Proof. exact g_open_circuit_impedance_outcome. Qed.
Print Assumptions C06e_open_circuit_impedance_outcome.
Theorem C06e_open_circuit_impedance_full_refuted : ~ C06e_open_circuit_impedance_full.
Proof. exact (fun F => open_circuit_impedance_full_refuted (fun circ => F Qcops Qc_leb Qc_round Qc_ofZ bad_wres CQ_ok bad_cs circ _ _ _)). Qed.
Print Assumptions C06e_open_circuit_impedance_full_refuted.

(* ================= element_impedance(circuit, element_id, w) ================= *)
Definition C06e_element_impedance_full : Prop :=
  forall (R : fops) leb rnd ofZ (wres : R), fops_ok (Cx R) ->
  forall (cs : list (comp R)) (circ : Circuit R) (id : label) (ws : list R),
    g_Circuit_post_init R cs = Ok circ ->
    g_element_impedance R leb rnd ofZ wres circ id ws = circuit_element_impedance R leb rnd ofZ wres cs id ws.
Theorem C06e_element_impedance_partial : forall (R : fops) leb rnd ofZ (wres : R), fops_ok (Cx R) ->
  forall (cs : list (comp R)) (circ : Circuit R) (id : label) (ws : list R),
  g_Circuit_post_init R cs = Ok circ ->
  (forall c, In c cs -> ck c = KLamp \/ ck c = KResLoad -> (2 <= List.length (cnodes c))%nat) ->
  g_element_impedance R leb rnd ofZ wres circ id ws = circuit_element_impedance R leb rnd ofZ wres cs id ws.
Proof. exact g_element_impedance_eq. Qed.
Print Assumptions C06e_element_impedance_partial.
Theorem C06e_element_impedance_outcome : forall (R : fops) leb rnd ofZ (wres : R), fops_ok (Cx R) ->
  forall (cs : list (comp R)) (circ : Circuit R) (id : label) (ws : list R),
  g_Circuit_post_init R cs = Ok circ ->
  match g_element_impedance R leb rnd ofZ wres circ id ws, circuit_element_impedance R leb rnd ofZ wres cs id ws with
  | Ok z, Ok z' => z = z' | Err _, Err _ => True | _, _ => False end.
Proof. exact g_element_impedance_outcome. Qed.
Print Assumptions C06e_element_impedance_outcome.
Theorem C06e_element_impedance_full_refuted : ~ C06e_element_impedance_full.
Proof. exact (fun F => element_impedance_full_refuted (fun circ => F Qcops Qc_leb Qc_round Qc_ofZ bad_wres CQ_ok bad_cs circ _ _)). Qed.
Print Assumptions C06e_element_impedance_full_refuted.

(* the default of the parameter w of both: np.array([0]) *)
Theorem C06e_defaults : forall R : fops,
  g_open_circuit_impedance__default_w R = [f0 R] /\ g_element_impedance__default_w R = [f0 R].
Proof. exact impedance_defaults. Qed.
Print Assumptions C06e_defaults.

(* ================= open_circuit_dc_resistance(circuit, node1, node2) ================= *)
Definition C06e_open_circuit_dc_resistance_full : Prop :=
  forall (R : fops) leb rnd ofZ (wres : R), fops_ok (Cx R) ->
  forall (cs : list (comp R)) (circ : Circuit R) (n1 n2 : label),
    g_Circuit_post_init R cs = Ok circ ->
    g_open_circuit_dc_resistance R leb rnd ofZ wres circ n1 n2 = circuit_open_circuit_dc_resistance R leb rnd ofZ wres cs n1 n2.
Theorem C06e_open_circuit_dc_resistance_partial : forall (R : fops) leb rnd ofZ (wres : R), fops_ok (Cx R) ->
  forall (cs : list (comp R)) (circ : Circuit R) (n1 n2 : label),
  g_Circuit_post_init R cs = Ok circ ->
  (forall c, In c cs -> ck c = KLamp \/ ck c = KResLoad -> (2 <= List.length (cnodes c))%nat) ->
  g_open_circuit_dc_resistance R leb rnd ofZ wres circ n1 n2 = circuit_open_circuit_dc_resistance R leb rnd ofZ wres cs n1 n2.
Proof. exact g_open_circuit_dc_resistance_eq. Qed.
Print Assumptions C06e_open_circuit_dc_resistance_partial.
Theorem C06e_open_circuit_dc_resistance_outcome : forall (R : fops) leb rnd ofZ (wres : R), fops_ok (Cx R) ->
  forall (cs : list (comp R)) (circ : Circuit R) (n1 n2 : label),
  g_Circuit_post_init R cs = Ok circ ->
  match g_open_circuit_dc_resistance R leb rnd ofZ wres circ n1 n2,
        circuit_open_circuit_dc_resistance R leb rnd ofZ wres cs n1 n2 with
  | Ok z, Ok z' => z = z' | Err _, Err _ => True | _, _ => False end.
Proof. exact g_open_circuit_dc_resistance_outcome. Qed.
Print Assumptions C06e_open_circuit_dc_resistance_outcome.
Theorem C06e_open_circuit_dc_resistance_full_refuted : ~ C06e_open_circuit_dc_resistance_full.
Proof. exact (fun F => open_circuit_dc_resistance_full_refuted (fun circ => F Qcops Qc_leb Qc_round Qc_ofZ bad_wres CQ_ok bad_cs circ _ _)). Qed.
Print Assumptions C06e_open_circuit_dc_resistance_full_refuted.

(* ================= element_dc_resistance(circuit, element_id) ================= *)
Definition C06e_element_dc_resistance_full : Prop :=
  forall (R : fops) leb rnd ofZ (wres : R), fops_ok (Cx R) ->
  forall (cs : list (comp R)) (circ : Circuit R) (id : label),
    g_Circuit_post_init R cs = Ok circ ->
    g_element_dc_resistance R leb rnd ofZ wres circ id = circuit_element_dc_resistance R leb rnd ofZ wres cs id.
Theorem C06e_element_dc_resistance_partial : forall (R : fops) leb rnd ofZ (wres : R), fops_ok (Cx R) ->
  forall (cs : list (comp R)) (circ : Circuit R) (id : label),
  g_Circuit_post_init R cs = Ok circ ->
  (forall c, In c cs -> ck c = KLamp \/ ck c = KResLoad -> (2 <= List.length (cnodes c))%nat) ->
  g_element_dc_resistance R leb rnd ofZ wres circ id = circuit_element_dc_resistance R leb rnd ofZ wres cs id.
Proof. exact g_element_dc_resistance_eq. Qed.
Print Assumptions C06e_element_dc_resistance_partial.
Theorem C06e_element_dc_resistance_outcome : forall (R : fops) leb rnd ofZ (wres : R), fops_ok (Cx R) ->
  forall (cs : list (comp R)) (circ : Circuit R) (id : label),
  g_Circuit_post_init R cs = Ok circ ->
  match g_element_dc_resistance R leb rnd ofZ wres circ id, circuit_element_dc_resistance R leb rnd ofZ wres cs id with
  | Ok z, Ok z' => z = z' | Err _, Err _ => True | _, _ => False end.
Proof. exact g_element_dc_resistance_outcome. Qed.
Print Assumptions C06e_element_dc_resistance_outcome.
Theorem C06e_element_dc_resistance_full_refuted : ~ C06e_element_dc_resistance_full.
Proof. exact (fun F => element_dc_resistance_full_refuted (fun circ => F Qcops Qc_leb Qc_round Qc_ofZ bad_wres CQ_ok bad_cs circ _)). Qed.
Print Assumptions C06e_element_dc_resistance_full_refuted.

(* ================= non-vacuity: an RLC circuit over the rationals ================= *)
(* a dc source with a two-terminal lamp across it, R1 = 2 from 1 to 2, L1 = 1 and C1 = 1/4 from 2 to the reference node
   (resonant at w = 2), R2 = 3 from 2 to the open node 3; a ground component listed last.  Seen from (3, 0) the source is a
   short circuit: Z(w) = R2 + (1/R1 + 1/(jwL) + jwC)^-1, i.e. 3 at w = 0 (the inductance is a short), 3 + 2 at the resonance,
   3 + 1/(1/2 - 3/4 j) = 47/13 + 12/13 j at w = 1. *)
Definition ex_rlc : list qcomp := [
  mkc KDcV "Vs" ["1"; "0"] [("V", q 5 1); ("R", q 0 1); ("w", q 0 1); ("phi", q 0 1)];
  mkc KLamp "Lamp" ["1"; "0"] [("P", q 1 1); ("V_ref", q 1 1)];
  mkc KResistor "R1" ["1"; "2"] [("R", q 2 1)];
  mkc KInductance "L1" ["2"; "0"] [("L", q 1 1)];
  mkc KCapacitor "C1" ["2"; "0"] [("C", q 1 4)];
  mkc KResistor "R2" ["2"; "3"] [("R", q 3 1)];
  mkc KGround "gnd" ["0"] [] ].
Definition zopt_eqb (a b : option CQ) : bool :=
  match a, b with Some x, Some y => feqb CQ x y | None, None => true | _, _ => false end.
Fixpoint zlist_eqb (a b : list (option CQ)) : bool :=
  match a, b with [] , [] => true | x :: a', y :: b' => zopt_eqb x y && zlist_eqb a' b' | _, _ => false end.
Definition ropt_eqb (a b : option Qc) : bool :=
  match a, b with Some x, Some y => Qc_eq_bool x y | None, None => true | _, _ => false end.

(* the hypotheses of the _partial theorems hold of it: the regenerated constructor accepts it (ground node "0"), its load has
   two terminals *)
Example C06e_example_hyp :
  okb (g_Circuit_post_init Qcops ex_rlc) (fun circ => label_eqb (Circuit_ground_node Qcops circ) (lbl "0")) = true
  /\ (forall c, In c ex_rlc -> ck c = KLamp \/ ck c = KResLoad -> (2 <= List.length (cnodes c))%nat)
  /\ existsb (fun c : qcomp => ckind_eqb (ck c) KLamp) ex_rlc = true.
Proof. split; [|split]; [|apply (loads_okb_ok Qcops)|]; vm_compute; reflexivity. Qed.
(* the regenerated sweep returns the expected impedances at w = 0, at the resonance w = 2 and at w = 1, in this order *)
Example C06e_example_sweep :
  okb (g_Circuit_post_init Qcops ex_rlc) (fun circ =>
  okb (g_open_circuit_impedance Qcops Qc_leb Qc_round Qc_ofZ ex_wres circ (lbl "3") (lbl "0") [q 0 1; q 2 1; q 1 1]) (fun zs =>
    zlist_eqb zs [Some (cq 3 1 0 1); Some (cq 5 1 0 1); Some (cq 47 13 12 13)])) = true.
Proof. vm_compute. reflexivity. Qed.
(* element_impedance of R2 (removed, its terminals 2 and 3 are then disconnected: non-finite) and of R1 (the tank L1 || C1 in
   series with the shorted source: 0 at w = 0, 1/(-j + j/4) = 4/3 j at w = 1, non-finite at the resonance) *)
Example C06e_example_element :
  okb (g_Circuit_post_init Qcops ex_rlc) (fun circ =>
  okb (g_element_impedance Qcops Qc_leb Qc_round Qc_ofZ ex_wres circ (lbl "R1") [q 0 1; q 1 1; q 2 1]) (fun zs =>
  okb (g_element_impedance Qcops Qc_leb Qc_round Qc_ofZ ex_wres circ (lbl "R2") [q 1 1]) (fun zs2 =>
    zlist_eqb zs [Some (cq 0 1 0 1); Some (cq 0 1 4 3); None] && zlist_eqb zs2 [None]))) = true.
Proof. vm_compute. reflexivity. Qed.
(* the dc resistances: 3 Ohm seen from (3, 0); R1 sees the shorted source and the shorted inductance: 0 *)
Example C06e_example_dc :
  okb (g_Circuit_post_init Qcops ex_rlc) (fun circ =>
  okb (g_open_circuit_dc_resistance Qcops Qc_leb Qc_round Qc_ofZ ex_wres circ (lbl "3") (lbl "0")) (fun r =>
  okb (g_element_dc_resistance Qcops Qc_leb Qc_round Qc_ofZ ex_wres circ (lbl "R1")) (fun r1 =>
    ropt_eqb r (Some (q 3 1)) && ropt_eqb r1 (Some (q 0 1))))) = true.
Proof. vm_compute. reflexivity. Qed.
(* ... and the hand-written model returns the same sweep (an instance of C06e_open_circuit_impedance_partial) *)
Example C06e_example_model :
  okb (circuit_open_circuit_impedance Qcops Qc_leb Qc_round Qc_ofZ ex_wres ex_rlc (lbl "3") (lbl "0") [q 0 1; q 2 1; q 1 1]) (fun zs =>
    zlist_eqb zs [Some (cq 3 1 0 1); Some (cq 5 1 0 1); Some (cq 47 13 12 13)]) = true.
Proof. vm_compute. reflexivity. Qed.
(* an unknown element raises KeyError (in the sweep and in the dc resistance); a node that no component touches is only
   reached by the probe branch: non-finite; the empty sweep is the empty array *)
Example C06e_example_errors :
  okb (g_Circuit_post_init Qcops ex_rlc) (fun circ =>
    match g_element_impedance Qcops Qc_leb Qc_round Qc_ofZ ex_wres circ (lbl "nope") [q 0 1; q 1 1] with
    | Err EKeyError => true | _ => false end
    && match g_element_dc_resistance Qcops Qc_leb Qc_round Qc_ofZ ex_wres circ (lbl "nope") with
       | Err EKeyError => true | _ => false end
    && okb (g_open_circuit_impedance Qcops Qc_leb Qc_round Qc_ofZ ex_wres circ (lbl "9") (lbl "0") [q 0 1]) (fun zs => zlist_eqb zs [None])
    && okb (g_open_circuit_impedance Qcops Qc_leb Qc_round Qc_ofZ ex_wres circ (lbl "3") (lbl "0") []) (fun zs => zlist_eqb zs [])) = true.
Proof. vm_compute. reflexivity. Qed.
