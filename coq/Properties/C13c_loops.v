(* C13 (continued) — the iteration bound the translator gives to the `while True: old = len(S); for ..: ..;
   if len(S) == old: return S` form of SchematicDiagramParser._get_equal_electrical_potential_nodes is no restriction
   (companion of C13c_closure_loop_fuel, which covers the `while len(S) > old` form): with any larger bound the loop
   (do_until of Model/DrawingPrims.v; loop-carried state S, body S |-> (len(S), one pass over the wires), test
   len(S) == old) returns the same set.  Statement only; the proof is in Theory/DrawingGenThm.v. *)
From Coq Require Import List Bool ZArith NArith Arith.
From CC Require Import Theory.Field Model.Network Model.Circuit Model.Drawing Model.DrawingPrims Gen.DrawingGen
  Theory.DrawingThm Theory.DrawingGenThm.
Import ListNotations.
Local Open Scope nat_scope.

Theorem C13c_until_loop_fuel : forall (d : drawing) (p : point) (k : nat),
  snd (do_until (loop_bound (wires d) + k)
         (fun X : list point => (length X, pass (wires d) X))
         (fun st : nat * list point => let '(old, X) := st in Nat.eqb (length X) old)
         (fun st : nat * list point => let '(old, X) := st in X) [p])
  = equal_potential_nodes d p.
Proof. exact until_loop_fuel. Qed.
Print Assumptions C13c_until_loop_fuel.

(* non-vacuity: two chained wires need two productive rounds and a final unproductive one *)
Example C13c_ex_until :
  let ws := [((2, 0), (3, 0)); ((1, 0), (2, 0))]%Z in
  snd (do_until 0 (fun X : list point => (length X, pass ws X))
         (fun st : nat * list point => let '(old, X) := st in Nat.eqb (length X) old)
         (fun st : nat * list point => let '(old, X) := st in X) [(1, 0)%Z]) = [(1, 0); (2, 0)]%Z /\
  snd (do_until 4 (fun X : list point => (length X, pass ws X))
         (fun st : nat * list point => let '(old, X) := st in Nat.eqb (length X) old)
         (fun st : nat * list point => let '(old, X) := st in X) [(1, 0)%Z]) = [(1, 0); (2, 0); (3, 0)]%Z.
Proof. vm_compute. split; reflexivity. Qed.
