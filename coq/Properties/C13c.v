(* C13 (continued) — the drawing parser and translator as REGENERATED on every run (Gen/DrawingGen.v, produced by
   tools/gen_drawing.py from SimpleCircuit/{Elements, DiagramParser, DiagramTranslator, CircuitComponentTranslators}.py in the
   vocabulary of Model/DrawingPrims.v) are the hand-written model Model/Drawing.v the C13 theorems are stated about.  An edit
   of the source (`elif` -> `if` in the closure loop, isinstance for `type(e) is elm.Line`, `> 1` -> `>= 1` in ground, the
   `+1` or the while-skip of node_index dropped, `[0]` -> `[1]`, a reverse sign lost in one translator, 'start'/'end' swapped)
   changes Gen/DrawingGen.v and breaks one of the equalities below — or is refused by the translator.
   Statements only; proofs are in Theory/DrawingGenThm.v.
   Vocabulary (Model/DrawingPrims.v): sets of points are duplicate-free lists; [oa], [ou] are the iteration orders of
   parser.all_nodes / parser.unique_nodes (parameters, as in C13); a generated method that can raise returns [res];
   [gcomponent] is a components.py constructor call (constructor name, id, nodes, keyword values as expressions [sval] over
   the ARGUMENTS of the symbol's constructor); [erase] forgets the values except the sign bookkeeping [c_neg] of C13. *)
From Coq Require Import String.
From Coq Require Import List Bool ZArith NArith Arith.
From CC Require Import Theory.Field Model.Network Model.Circuit Model.Drawing Model.DrawingPrims Gen.DrawingGen
  Theory.DrawingThm Theory.DrawingExamples Theory.DrawingGenThm.
Import ListNotations.
Local Open Scope string_scope.
Local Open Scope nat_scope.

(* ================= A. facts read off Elements.py ================= *)
(* isinstance(e, elm.Node) / isinstance(n, elm.Ground), from the class statements; hasattr(e, 'name') *)
Theorem C13c_isinstance_Node : forall s : symbol, isinstance s g_subclasses_Node = is_node s.
Proof. exact subclasses_Node_ok. Qed.
Print Assumptions C13c_isinstance_Node.
Theorem C13c_isinstance_Ground : forall s : symbol, isinstance s g_subclasses_Ground = is_ground_sym s.
Proof. exact subclasses_Ground_ok. Qed.
Print Assumptions C13c_isinstance_Ground.
Theorem C13c_has_name : forall c : N, class_in c g_classes_with_name = has_name c.
Proof. exact classes_with_name_ok. Qed.
Print Assumptions C13c_has_name.
(* LabeledLine is a subclass of Line: `type(e) is elm.Line` and isinstance differ *)
Theorem C13c_Line_subclasses : g_subclasses_Line = [c_Line; c_LabeledLine].
Proof. exact subclasses_Line_ok. Qed.
(* elm.get_nodes: the rounded 'start' and 'end' anchors, in this order *)
Theorem C13c_get_nodes : forall e : symbol, g_get_nodes e = [s_start e; s_end e].
Proof. exact get_nodes_ok. Qed.
Print Assumptions C13c_get_nodes.

(* ================= B. SchematicDiagramParser, method by method ================= *)
Theorem C13c_all_elements : forall d : drawing, g_all_elements d = d.
Proof. exact eq_all_elements. Qed.
Theorem C13c_circuit_elements : forall d : drawing, g_circuit_elements d = circuit_elements d.
Proof. exact eq_circuit_elements. Qed.
Print Assumptions C13c_circuit_elements.
Theorem C13c_line_elements : forall d : drawing, g_line_elements d = line_elements d.
Proof. exact eq_line_elements. Qed.
Print Assumptions C13c_line_elements.
Theorem C13c_node_elements : forall d : drawing, g_node_elements d = node_elements d.
Proof. exact eq_node_elements. Qed.
Print Assumptions C13c_node_elements.
Theorem C13c_all_nodes : forall d : drawing, g_all_nodes d = all_nodes d.
Proof. exact eq_all_nodes. Qed.
Print Assumptions C13c_all_nodes.

(* the `while len(S) > old_length` loop with its `if n1 in S ... elif n2 in S ...` body *)
Theorem C13c_equal_potential_nodes : forall (d : drawing) (p : point),
  g__get_equal_electrical_potential_nodes d p = equal_potential_nodes d p.
Proof. exact eq_get_equal_electrical_potential_nodes. Qed.
Print Assumptions C13c_equal_potential_nodes.
(* the bound #lines + 2 given to that loop is no restriction: with any larger bound the loop (state = (old_length, S),
   test old_length < len(S), body (len(S), one pass over the wires)) returns the same set *)
Theorem C13c_closure_loop_fuel : forall (d : drawing) (p : point) (k : nat),
  snd (while_loop (loop_bound (line_elements d) + k) closure_cond (closure_body (wires d)) (0, [p]))
  = equal_potential_nodes d p.
Proof. exact closure_loop_fuel. Qed.
Print Assumptions C13c_closure_loop_fuel.

(* unique_nodes never raises (every nodes.remove(n) finds n) and is the model's fold *)
Theorem C13c_unique_nodes : forall (d : drawing) (oa : list point), g_unique_nodes d oa = Ok (unique_nodes d oa).
Proof. exact eq_unique_nodes. Qed.
Print Assumptions C13c_unique_nodes.

(* unique_node_mapping: the dictionary built entry by entry (identical_nodes.remove(n) and pop() never raise) ... *)
Theorem C13c_unique_node_mapping_dict : forall (d : drawing) (oa : list point),
  g_unique_node_mapping d oa = Ok (fold_left (fun m n => kd_set m n (rep d oa n)) oa []).
Proof. exact eq_unique_node_mapping. Qed.
Print Assumptions C13c_unique_node_mapping_dict.
(* ... whose lookup is the model's unique_node_mapping (None = KeyError) *)
Theorem C13c_unique_node_mapping : forall (d : drawing) (oa : list point) (p : point), enum oa (all_nodes d) ->
  res_map (fun m => kd_get m p) (g_unique_node_mapping d oa) = Ok (unique_node_mapping d oa p).
Proof. intros d oa p H. rewrite eq_unique_node_mapping. simpl. f_equal. apply unm_dict_lookup. exact H. Qed.
Print Assumptions C13c_unique_node_mapping.

Theorem C13c_node_label_mapping : forall (d : drawing) (oa ou : list point), enum oa (all_nodes d) ->
  g_node_label_mapping d oa ou = Ok (node_label_mapping d oa ou).
Proof. exact eq_node_label_mapping. Qed.
Print Assumptions C13c_node_label_mapping.

Theorem C13c_ground : forall (d : drawing) (oa ou : list point), g_ground d oa ou = ground d ou.
Proof. exact eq_ground. Qed.
Print Assumptions C13c_ground.

Theorem C13c_get_node_index : forall (d : drawing) (oa ou : list point) (p : point), enum oa (all_nodes d) ->
  g__get_node_index d oa ou p = match get_node_index d oa ou p with Some l => Ok l | None => Err EKeyError end.
Proof. exact eq_get_node_index. Qed.
Print Assumptions C13c_get_node_index.

Theorem C13c_ground_label : forall (d : drawing) (oa ou : list point), enum oa (all_nodes d) ->
  g_ground_label d oa ou = ground_label d oa ou.
Proof. exact eq_ground_label. Qed.
Print Assumptions C13c_ground_label.

(* get_element (not part of Model/Drawing.v): the first circuit element of that name; UnknownElement is rendered EOther *)
Theorem C13c_get_element : forall (d : drawing) (name : label),
  g_get_element d name =
  match find (fun e => label_eqb (s_name e) name) (circuit_elements d) with Some e => Ok e | None => Err EOther end.
Proof. exact eq_get_element. Qed.
Print Assumptions C13c_get_element.

(* ================= C. CircuitComponentTranslators.py ================= *)
(* every class of the model: the function it is bound to, applied to the symbol and its two node labels, builds exactly the
   constructor call of the hand-written reading [expected_component] (Theory/DrawingGenThm.v: constructor, id, terminal order,
   keyword -> value with the sign of reversed sources); Admittance alone has no entry *)
Theorem C13c_translator_table : forall (s : symbol) (a b : label), in_scope (s_class s) = true ->
  match table_get g_circuit_translator_map (s_class s) with
  | Some f => f s [a; b] = Ok (expected_component s a b)
  | None => s_class s = c_Admittance
  end.
Proof. exact table_expected. Qed.
Print Assumptions C13c_translator_table.

(* ... and that reading is translator_of / stored_neg / apply_translator of Model/Drawing.v once the values are forgotten *)
Theorem C13c_translator_model : forall (s : symbol) (a b : label), in_scope (s_class s) = true ->
  match translator_of (s_class s) with
  | Some t => table_get g_circuit_translator_map (s_class s) <> None /\
              erase_opt (expected_component s a b) = apply_translator t s a b
  | None => table_get g_circuit_translator_map (s_class s) = None
  end.
Proof. exact expected_erased. Qed.
Print Assumptions C13c_translator_model.

(* the constructors called exist in components.py (Gen/Tables.v) and store their own name as the component type *)
Theorem C13c_constructors : forall (c : N) (f : string), expected_ctor c = Some f -> ctor_known (lbl f) = true.
Proof. exact ctor_names_ok. Qed.
Print Assumptions C13c_constructors.

(* ================= B'. DiagramTranslator ================= *)
(* __call__ with the circuit map is the model's translate_symbol *)
Theorem C13c_call : forall (d : drawing) (oa ou : list point) (s : symbol),
  enum oa (all_nodes d) -> in_scope (s_class s) = true ->
  res_map erase_opt (g_DiagramTranslator_call g_circuit_translator_map d oa ou s) = translate_symbol (get_node_index d oa ou) s.
Proof. exact eq_call. Qed.
Print Assumptions C13c_call.

(* __call__ with any map *)
Theorem C13c_call_any_map : forall (A : Type) (tmap : list (N * translator_fn A)) (d : drawing) (oa ou : list point) (s : symbol),
  enum oa (all_nodes d) ->
  g_DiagramTranslator_call tmap d oa ou s =
  match table_get tmap (s_class s), get_node_index d oa ou (s_start s), get_node_index d oa ou (s_end s) with
  | Some f, Some a, Some b => except_KeyError (f s [a; b]) (Err EUnknownComponent)
  | _, _, _ => Err EUnknownComponent
  end.
Proof. intros A. exact (@call_unfold A). Qed.
Print Assumptions C13c_call_any_map.

(* circuit_translator hands Circuit(...) the model's component list *)
Theorem C13c_components : forall (d : drawing) (oa ou : list point),
  enum oa (all_nodes d) -> (forall s, In s d -> in_scope (s_class s) = true) ->
  res_map (omap erase) (g_circuit_translator d oa ou) = components d oa ou.
Proof. exact eq_components. Qed.
Print Assumptions C13c_components.

Theorem C13c_remove_none : forall (A : Type) (l : list (option A)), g__remove_none l = filter_not_none l.
Proof. intros A. exact (@remove_none_ok A). Qed.

(* network_translator, for an arbitrary translator map (NetworkBranchTranslators.py is outside the model): the non-None
   translations in drawing order, then parser.ground_label *)
Theorem C13c_network_translator : forall (A : Type) (tmap : list (N * translator_fn A)) (d : drawing) (oa ou : list point),
  enum oa (all_nodes d) ->
  g_network_translator tmap d oa ou =
  bind (map_res (g_DiagramTranslator_call tmap d oa ou) d) (fun l =>
  bind (ground_label d oa ou) (fun g => Ok (filter_not_none l, g))).
Proof. intros A. exact (@eq_network_translator A). Qed.
Print Assumptions C13c_network_translator.

(* ================= D. C13 restated for the regenerated definitions ================= *)
Theorem C13c_closure : forall (d : drawing) (p q : point),
  In q (g__get_equal_electrical_potential_nodes d p) <-> connected d p q.
Proof. intros d p q. rewrite eq_get_equal_electrical_potential_nodes. apply equal_potential_nodes_spec. Qed.
Print Assumptions C13c_closure.

Theorem C13c_labels_injective : forall (d : drawing) (oa ou : list point) (p q : point),
  enum oa (all_nodes d) -> enum ou (unique_nodes d oa) -> labels_consistent d ->
  In p (all_nodes d) -> In q (all_nodes d) ->
  (g__get_node_index d oa ou p = g__get_node_index d oa ou q <-> connected d p q).
Proof.
  intros d oa ou p q Hoa Hou Hc Hp Hq. rewrite !(eq_get_node_index d oa ou _ Hoa).
  rewrite <- (same_label_iff d oa ou p q Hoa Hou Hc Hp Hq). unfold same_label.
  destruct (index_total d oa ou Hoa Hou p Hp) as [l Hl]. destruct (index_total d oa ou Hoa Hou q Hq) as [l' Hl'].
  rewrite Hl, Hl'. simpl. split; congruence.
Qed.
Print Assumptions C13c_labels_injective.

Theorem C13c_components_spec : forall (d : drawing) (oa ou : list point),
  enum oa (all_nodes d) -> enum ou (unique_nodes d oa) ->
  (forall s, In s d -> in_scope (s_class s) = true /\ translator_of (s_class s) <> None) ->
  res_map (omap erase) (g_circuit_translator d oa ou) = Ok (omap (component_of (label_of d oa ou)) d).
Proof.
  intros d oa ou Hoa Hou Hd. rewrite (eq_components d oa ou Hoa); [|intros s Hs; apply (Hd s Hs)].
  apply components_spec; assumption.
Qed.
Print Assumptions C13c_components_spec.

(* ================= Examples: the hypotheses are satisfiable, the regenerated code runs ================= *)
Example C13c_ex_ring_hypotheses :
  enumerates ex_ring_oa (all_nodes ex_ring) = true /\ enumerates ex_ring_ou (unique_nodes ex_ring ex_ring_oa) = true
  /\ forallb (fun s => in_scope (s_class s)) ex_ring = true.
Proof. vm_compute. repeat split. Qed.

Example C13c_ex_ring_run :
  g_unique_nodes ex_ring ex_ring_oa = Ok [gp 3 0; gp 3 2; gp 0 1]
  /\ map (g__get_node_index ex_ring ex_ring_oa ex_ring_ou) [gp 0 0; gp 0 1; gp 2 2] = [Ok (lbl "0"); Ok (lbl "3"); Ok (lbl "2")]
  /\ g_ground_label ex_ring ex_ring_oa ex_ring_ou = Ok (lbl "0")
  /\ res_map (map (fun g => (gc_ctor g, gc_id g, gc_nodes g))) (g_circuit_translator ex_ring ex_ring_oa ex_ring_ou)
     = Ok [(lbl "dc_voltage_source", lbl "V1", [lbl "0"; lbl "3"]); (lbl "resistor", lbl "R1", [lbl "3"; lbl "2"]);
           (lbl "resistor", lbl "R2", [lbl "2"; lbl "0"]); (lbl "ground", lbl "0", [lbl "0"])].
Proof. vm_compute. repeat split. Qed.

(* a reversed voltage source: terminals swapped, and the constructor's V reaches the component through two negations *)
Example C13c_ex_reversed_source :
  g_dc_voltage_source_translator (vsrc "V1" true (gp 0 0) (gp 0 1)) [lbl "a"; lbl "b"]
  = Ok (Some (mk_gcomponent (lbl "dc_voltage_source") (lbl "V1") [lbl "b"; lbl "a"]
                [(lbl "V", SNeg (SRealPart (SNeg (SArg (lbl "V")))))]))
  /\ option_map c_neg (erase_opt (expected_component (vsrc "V1" true (gp 0 0) (gp 0 1)) (lbl "a") (lbl "b"))) = Some false.
Proof. vm_compute. split; reflexivity. Qed.

(* numeric labels colliding with the automatic numbering (the while-skip) *)
Example C13c_ex_numeric_labels :
  res_map (map snd) (g_node_label_mapping ex_nums ex_nums_oa ex_nums_ou)
  = Ok (map snd (node_label_mapping ex_nums ex_nums_oa ex_nums_ou))
  /\ map snd (node_label_mapping ex_nums ex_nums_oa ex_nums_ou) = [lbl "0"; lbl "4"; lbl "5"; lbl "6"; lbl "7"].
Proof. vm_compute. split; reflexivity. Qed.
