(* Properties/C12d.v — C12 "transient simulation solves the circuit's differential equations", for the EXACT trajectories of
   the model over Coq's real numbers, whatever integrator produced them: i_C = C dv_C/dt and v_L = L di_L/dt with the TRUE
   derivative, Kirchhoff / sources / Ohm at every instant, start from rest, equilibrium = DC analysis.
   Model: Model/StateSpace.v; proofs: Theory/StateSpaceTrajectory.v on top of Theory/StateSpaceThm.v [ss_laws] (the
   algebraic statement Properties/C12.v [C12_laws_every_sample]) and Theory/StateSpacePhasor.v, instantiated at R through
   Theory/StateSpaceEnergy.v [Rfops].  Uses the classical real numbers (Coquelicot [is_derive]): Print Assumptions lists only
   axioms of Coq's Reals (sig_forall_dec, functional_extensionality_dep, and sig_not_dec where a derivative occurs), not
   even Classical_Prop.classic; the purely algebraic theorems (C12d_rest_algebraic, C12d_equilibrium_is_dc_solution,
   C12d_dc_network) are generic in the field and closed under the global context.

   Vocabulary.  A trajectory is a pair  x u : R -> list R  (state vector: capacitor voltages then inductor currents, as in
   [ss_A]; input vector in the order of [sources]) with the right lengths on [t0, t1] and every component of x
   differentiable on (t0, t1) with derivative the component of  [ss_xdot m (x t) (u t)] = A x(t) + B u(t).  NOTHING is
   assumed about u (it may jump).  [rep_potential / rep_voltage / rep_current n cvals lvals m x u id t] is the number carried
   by  out_potential / out_voltage / out_current m id (x t) (u t)  = c_row . x(t) + d_row . u(t)  (the TransientSolution
   getters at time t); every theorem also states that the report is [Ok].
   Hypotheses on the network as in Properties/C10.v / C12.v: [rlc_dc], lam_k <> 0, [state_space_matrices .. = Ok m]. *)
From Coq Require Import Reals List Bool.
From Coquelicot Require Import Coquelicot.
From CC Require Import Theory.Field Theory.Complex Model.Network Model.StateSpace Model.Circuit Theory.Spec Theory.Api
  Theory.Matrix Theory.StateSpaceThm Theory.StateSpacePhasor Theory.StateSpaceEnergy Theory.StateSpaceEnergyEx
  Theory.StateSpaceTrajectory Theory.StateSpaceTrajectoryEx.
Import ListNotations.
Local Open Scope R_scope.

(* the definitions used below, spelled out *)
Theorem C12d_report_def : forall (n : network Rfops) (cvals lvals : list (label * Rfops)) (m : ssm Rfops)
  (x u : R -> list R) (id : label) (t : R),
     rep_potential n cvals lvals m x u id t
       = match out_potential Rfops n cvals lvals m id (x t) (u t) with Ok a => a | Err _ => 0 end
  /\ rep_voltage n cvals lvals m x u id t
       = match out_voltage Rfops n cvals lvals m id (x t) (u t) with Ok a => a | Err _ => 0 end
  /\ rep_current n cvals lvals m x u id t
       = match out_current Rfops n cvals lvals m id (x t) (u t) with Ok a => a | Err _ => 0 end.
Proof. exact rep_def. Qed.
Print Assumptions C12d_report_def.

(* (1a) C12 "i_C = C dv_C/dt": along every trajectory the reported capacitor voltage IS the state x_k, it is differentiable
   at every instant of (t0, t1), its true derivative is (reported capacitor current) / C, i.e. i_C = C * dv_C/dt *)
Theorem C12d_capacitor_law : forall (n : network Rfops) (cvals lvals : list (label * Rfops)),
  (forall k, (k < ss_nst Rfops cvals lvals)%nat -> nth k (lam Rfops cvals lvals) 0 <> 0) ->
  rlc_dc Rfops n cvals lvals ->
  forall m : ssm Rfops, state_space_matrices Rfops n cvals lvals = Ok m ->
  forall (x u : R -> list R) (t0 t1 : R),
  (forall t, t0 <= t <= t1 -> length (x t) = ss_nst Rfops cvals lvals) ->
  (forall t, t0 <= t <= t1 -> length (u t) = ss_nS Rfops n lvals) ->
  (forall k t, (k < ss_nst Rfops cvals lvals)%nat -> t0 < t < t1 ->
     is_derive (fun s => nth k (x s) 0) t (nth k (ss_xdot Rfops m (x t) (u t)) 0)) ->
  forall (b : branch Rfops) (t : R), In b (branches n) -> lmem (bid b) (ckeys Rfops cvals) = true -> t0 < t < t1 ->
     out_voltage Rfops n cvals lvals m (bid b) (x t) (u t) = Ok (rep_voltage n cvals lvals m x u (bid b) t)
  /\ out_current Rfops n cvals lvals m (bid b) (x t) (u t) = Ok (rep_current n cvals lvals m x u (bid b) t)
  /\ rep_voltage n cvals lvals m x u (bid b) t = nth (lindex (ckeys Rfops cvals) (bid b)) (x t) 0
  /\ is_derive (rep_voltage n cvals lvals m x u (bid b)) t
               (rep_current n cvals lvals m x u (bid b) t / vlookup Rfops cvals (bid b))
  /\ rep_current n cvals lvals m x u (bid b) t
     = vlookup Rfops cvals (bid b) * Derive (rep_voltage n cvals lvals m x u (bid b)) t.
Proof. exact traj_capacitor. Qed.
Print Assumptions C12d_capacitor_law.

(* (1b) C12 "v_L = L di_L/dt" *)
Theorem C12d_inductor_law : forall (n : network Rfops) (cvals lvals : list (label * Rfops)),
  (forall k, (k < ss_nst Rfops cvals lvals)%nat -> nth k (lam Rfops cvals lvals) 0 <> 0) ->
  rlc_dc Rfops n cvals lvals ->
  forall m : ssm Rfops, state_space_matrices Rfops n cvals lvals = Ok m ->
  forall (x u : R -> list R) (t0 t1 : R),
  (forall t, t0 <= t <= t1 -> length (x t) = ss_nst Rfops cvals lvals) ->
  (forall t, t0 <= t <= t1 -> length (u t) = ss_nS Rfops n lvals) ->
  (forall k t, (k < ss_nst Rfops cvals lvals)%nat -> t0 < t < t1 ->
     is_derive (fun s => nth k (x s) 0) t (nth k (ss_xdot Rfops m (x t) (u t)) 0)) ->
  forall (b : branch Rfops) (t : R), In b (branches n) -> lmem (bid b) (lkeys Rfops lvals) = true -> t0 < t < t1 ->
     out_voltage Rfops n cvals lvals m (bid b) (x t) (u t) = Ok (rep_voltage n cvals lvals m x u (bid b) t)
  /\ out_current Rfops n cvals lvals m (bid b) (x t) (u t) = Ok (rep_current n cvals lvals m x u (bid b) t)
  /\ rep_current n cvals lvals m x u (bid b) t
     = nth (ss_nC Rfops cvals + lindex (lkeys Rfops lvals) (bid b)) (x t) 0
  /\ is_derive (rep_current n cvals lvals m x u (bid b)) t
               (rep_voltage n cvals lvals m x u (bid b) t / vlookup Rfops lvals (bid b))
  /\ rep_voltage n cvals lvals m x u (bid b) t
     = vlookup Rfops lvals (bid b) * Derive (rep_current n cvals lvals m x u (bid b)) t.
Proof. exact traj_inductor. Qed.
Print Assumptions C12d_inductor_law.

(* (2) C12 "Kirchhoff's laws and Ohm's law at every sample": there are time-dependent potentials phi t and branch currents
   j t that ARE the reports at every instant of [t0, t1] (voltage of b = phi(first) - phi(second)) and satisfy
   phi(reference) = 0, Kirchhoff's current law at every node, capacitor k: v = x_k, i = C_k (A x + B u)_k, inductor k:
   i = x_(nC+k), v = L_k (A x + B u)_(nC+k), ideal voltage source: v = its input, current source: i = its input, every
   other branch: i = Y v *)
Theorem C12d_kirchhoff_every_instant : forall (n : network Rfops) (cvals lvals : list (label * Rfops)),
  (forall k, (k < ss_nst Rfops cvals lvals)%nat -> nth k (lam Rfops cvals lvals) 0 <> 0) ->
  rlc_dc Rfops n cvals lvals ->
  forall m : ssm Rfops, state_space_matrices Rfops n cvals lvals = Ok m ->
  forall (x u : R -> list R) (t0 t1 : R),
  (forall t, t0 <= t <= t1 -> length (x t) = ss_nst Rfops cvals lvals) ->
  (forall t, t0 <= t <= t1 -> length (u t) = ss_nS Rfops n lvals) ->
  exists (phi : R -> label -> R) (j : R -> branch Rfops -> R), forall t, t0 <= t <= t1 ->
     (forall node, node = zero n \/ In node (node_index n) ->
        out_potential Rfops n cvals lvals m node (x t) (u t) = Ok (phi t node))
  /\ (forall b, In b (branches n) ->
        out_voltage Rfops n cvals lvals m (bid b) (x t) (u t) = Ok (@bvolt Rfops (phi t) b)
        /\ out_current Rfops n cvals lvals m (bid b) (x t) (u t) = Ok (j t b))
  /\ phi t (zero n) = 0
  /\ (forall node, kcl_sum (branches n) (j t) node = 0)
  /\ (forall b, In b (branches n) -> lmem (bid b) (ckeys Rfops cvals) = true ->
        @bvolt Rfops (phi t) b = nth (lindex (ckeys Rfops cvals) (bid b)) (x t) 0
        /\ j t b = vlookup Rfops cvals (bid b) * nth (lindex (ckeys Rfops cvals) (bid b)) (ss_xdot Rfops m (x t) (u t)) 0)
  /\ (forall b, In b (branches n) -> lmem (bid b) (lkeys Rfops lvals) = true ->
        j t b = nth (ss_nC Rfops cvals + lindex (lkeys Rfops lvals) (bid b)) (x t) 0
        /\ @bvolt Rfops (phi t) b
           = vlookup Rfops lvals (bid b)
             * nth (ss_nC Rfops cvals + lindex (lkeys Rfops lvals) (bid b)) (ss_xdot Rfops m (x t) (u t)) 0)
  /\ (forall b, In b (branches n) -> is_ideal_voltage_source (el b) = true -> lmem (bid b) (lkeys Rfops lvals) = false ->
        @bvolt Rfops (phi t) b = nth (lindex (sources Rfops n lvals) (bid b)) (u t) 0)
  /\ (forall b, In b (branches n) -> is_current_source (el b) = true ->
        j t b = nth (lindex (sources Rfops n lvals) (bid b)) (u t) 0)
  /\ (forall b, In b (branches n) -> lmem (bid b) (ckeys Rfops cvals) = false -> is_ideal_voltage_source (el b) = false ->
        is_current_source (el b) = false -> j t b = finY b * @bvolt Rfops (phi t) b).
Proof. exact traj_kirchhoff_ex. Qed.
Print Assumptions C12d_kirchhoff_every_instant.

(* (1) + (2) in one statement, the circuit's differential-algebraic system: the SAME phi, j obey the algebraic laws on
   [t0, t1] and, on (t0, t1), the capacitor voltage phi(first) - phi(second) has the true derivative j / C and the inductor
   current j has the true derivative (phi(first) - phi(second)) / L *)
Theorem C12d_differential_system : forall (n : network Rfops) (cvals lvals : list (label * Rfops)),
  (forall k, (k < ss_nst Rfops cvals lvals)%nat -> nth k (lam Rfops cvals lvals) 0 <> 0) ->
  rlc_dc Rfops n cvals lvals ->
  forall m : ssm Rfops, state_space_matrices Rfops n cvals lvals = Ok m ->
  forall (x u : R -> list R) (t0 t1 : R),
  (forall t, t0 <= t <= t1 -> length (x t) = ss_nst Rfops cvals lvals) ->
  (forall t, t0 <= t <= t1 -> length (u t) = ss_nS Rfops n lvals) ->
  (forall k t, (k < ss_nst Rfops cvals lvals)%nat -> t0 < t < t1 ->
     is_derive (fun s => nth k (x s) 0) t (nth k (ss_xdot Rfops m (x t) (u t)) 0)) ->
  exists (phi : R -> label -> R) (j : R -> branch Rfops -> R),
     (forall t, t0 <= t <= t1 ->
          (forall node, node = zero n \/ In node (node_index n) ->
             out_potential Rfops n cvals lvals m node (x t) (u t) = Ok (phi t node))
       /\ (forall b, In b (branches n) ->
             out_voltage Rfops n cvals lvals m (bid b) (x t) (u t) = Ok (@bvolt Rfops (phi t) b)
             /\ out_current Rfops n cvals lvals m (bid b) (x t) (u t) = Ok (j t b))
       /\ phi t (zero n) = 0
       /\ (forall node, kcl_sum (branches n) (j t) node = 0)
       /\ (forall b, In b (branches n) -> is_ideal_voltage_source (el b) = true ->
             lmem (bid b) (lkeys Rfops lvals) = false ->
             @bvolt Rfops (phi t) b = nth (lindex (sources Rfops n lvals) (bid b)) (u t) 0)
       /\ (forall b, In b (branches n) -> is_current_source (el b) = true ->
             j t b = nth (lindex (sources Rfops n lvals) (bid b)) (u t) 0)
       /\ (forall b, In b (branches n) -> lmem (bid b) (ckeys Rfops cvals) = false ->
             is_ideal_voltage_source (el b) = false -> is_current_source (el b) = false ->
             j t b = finY b * @bvolt Rfops (phi t) b))
  /\ (forall b t, In b (branches n) -> lmem (bid b) (ckeys Rfops cvals) = true -> t0 < t < t1 ->
        is_derive (fun s => @bvolt Rfops (phi s) b) t (j t b / vlookup Rfops cvals (bid b))
        /\ j t b = vlookup Rfops cvals (bid b) * Derive (fun s => @bvolt Rfops (phi s) b) t)
  /\ (forall b t, In b (branches n) -> lmem (bid b) (lkeys Rfops lvals) = true -> t0 < t < t1 ->
        is_derive (fun s => j s b) t (@bvolt Rfops (phi t) b / vlookup Rfops lvals (bid b))
        /\ @bvolt Rfops (phi t) b = vlookup Rfops lvals (bid b) * Derive (fun s => j s b) t).
Proof. exact traj_system. Qed.
Print Assumptions C12d_differential_system.

(* (3) C12 "the response starts from rest": at an instant where the state and the input vanish (the solver's initial state
   [transient_x0] = 0, Properties/C12.v [C12_rest]) every reported potential, voltage and current is 0 *)
Theorem C12d_rest : forall (n : network Rfops) (cvals lvals : list (label * Rfops)),
  (forall k, (k < ss_nst Rfops cvals lvals)%nat -> nth k (lam Rfops cvals lvals) 0 <> 0) ->
  rlc_dc Rfops n cvals lvals ->
  forall m : ssm Rfops, state_space_matrices Rfops n cvals lvals = Ok m ->
  forall (x u : R -> list R) (t0 t1 : R),
  (forall t, t0 <= t <= t1 -> length (x t) = ss_nst Rfops cvals lvals) ->
  (forall t, t0 <= t <= t1 -> length (u t) = ss_nS Rfops n lvals) ->
  forall t, t0 <= t <= t1 -> (forall k, nth k (x t) 0 = 0) -> (forall k, nth k (u t) 0 = 0) ->
     (forall node, node = zero n \/ In node (node_index n) ->
        out_potential Rfops n cvals lvals m node (x t) (u t) = Ok 0 /\ rep_potential n cvals lvals m x u node t = 0)
  /\ (forall b, In b (branches n) ->
        out_voltage Rfops n cvals lvals m (bid b) (x t) (u t) = Ok 0 /\ rep_voltage n cvals lvals m x u (bid b) t = 0
        /\ out_current Rfops n cvals lvals m (bid b) (x t) (u t) = Ok 0 /\ rep_current n cvals lvals m x u (bid b) t = 0).
Proof. exact traj_rest. Qed.
Print Assumptions C12d_rest.

(* the same in any field: zero state and zero input give zero reports *)
Theorem C12d_rest_algebraic : forall (K : fops) (KOK : fops_ok K) (n : network K) (cvals lvals : list (label * K)),
  (forall k, (k < ss_nst K cvals lvals)%nat -> nth k (lam K cvals lvals) (f0 K) <> f0 K) ->
  rlc_dc K n cvals lvals ->
  forall m : ssm K, state_space_matrices K n cvals lvals = Ok m ->
  forall x u : list K, length x = ss_nst K cvals lvals -> length u = ss_nS K n lvals ->
  (forall k, nth k x (f0 K) = f0 K) -> (forall k, nth k u (f0 K) = f0 K) ->
     (forall node, node = zero n \/ In node (node_index n) -> out_potential K n cvals lvals m node x u = Ok (f0 K))
  /\ (forall b, In b (branches n) ->
        out_voltage K n cvals lvals m (bid b) x u = Ok (f0 K) /\ out_current K n cvals lvals m (bid b) x u = Ok (f0 K)).
Proof. exact ss_rest. Qed.
Print Assumptions C12d_rest_algebraic.

(* (4) C12 "settles to the DC solution for constant final inputs", the equilibrium part (convergence is not claimed;
   Properties/C11d.v gives boundedness and the decay of the energy of the deviation).
   (4a) a trajectory that stands still on (t0, t1) sits at an equilibrium of the input it sees:  A xs + B u(t) = 0 *)
Theorem C12d_stationary_is_equilibrium : forall (cvals lvals : list (label * Rfops)) (m : ssm Rfops)
  (x u : R -> list R) (t0 t1 : R),
  (forall k t, (k < ss_nst Rfops cvals lvals)%nat -> t0 < t < t1 ->
     is_derive (fun s => nth k (x s) 0) t (nth k (ss_xdot Rfops m (x t) (u t)) 0)) ->
  forall xs : list R, (forall s, t0 < s < t1 -> x s = xs) ->
  forall k t, (k < ss_nst Rfops cvals lvals)%nat -> t0 < t < t1 -> nth k (ss_xdot Rfops m xs (u t)) 0 = 0.
Proof. exact traj_stationary. Qed.
Print Assumptions C12d_stationary_is_equilibrium.

(* (4b) conversely an equilibrium of a constant input is a (constant) trajectory *)
Theorem C12d_equilibrium_is_trajectory : forall (cvals lvals : list (label * Rfops)) (m : ssm Rfops) (xs uc : list R),
  (forall k, (k < ss_nst Rfops cvals lvals)%nat -> nth k (ss_xdot Rfops m xs uc) 0 = 0) ->
  forall k t, (k < ss_nst Rfops cvals lvals)%nat ->
  is_derive (fun s => nth k ((fun _ : R => xs) s) 0) t
            (nth k (ss_xdot Rfops m ((fun _ : R => xs) t) ((fun _ : R => uc) t)) 0).
Proof. exact traj_equilibrium. Qed.
Print Assumptions C12d_equilibrium_is_trajectory.

(* (4c) the reports along a stationary trajectory under a constant input uc are the DC analysis of the same network:
   [pnet Rfops n cvals lvals 0 uc] is the network the library analyses at s = 0 — every capacitor replaced by the admittance
   0 * C without source current (an open circuit), every inductor by the impedance 0 * L without source voltage (a short
   circuit), the ideal sources carrying uc (Theory/StateSpacePhasor.v; C12d_dc_network below).  Whenever the library's nodal
   solver solves it, the reported potentials and voltages are the solver's, the reported currents are the branch flows of
   the solver's solution vector, no capacitor carries current and no inductor stands under a voltage.  (By C10 /
   Theory/Gauss.v [solve_network_iff] the solver succeeds exactly when that DC network is well-posed.) *)
Theorem C12d_dc_equilibrium : forall (n : network Rfops) (cvals lvals : list (label * Rfops)),
  (forall k, (k < ss_nst Rfops cvals lvals)%nat -> nth k (lam Rfops cvals lvals) 0 <> 0) ->
  rlc_dc Rfops n cvals lvals ->
  forall m : ssm Rfops, state_space_matrices Rfops n cvals lvals = Ok m ->
  forall (x u : R -> list R) (t0 t1 : R),
  (forall t, t0 <= t <= t1 -> length (x t) = ss_nst Rfops cvals lvals) ->
  (forall t, t0 <= t <= t1 -> length (u t) = ss_nS Rfops n lvals) ->
  (forall k t, (k < ss_nst Rfops cvals lvals)%nat -> t0 < t < t1 ->
     is_derive (fun s => nth k (x s) 0) t (nth k (ss_xdot Rfops m (x t) (u t)) 0)) ->
  forall xs uc : list R, (forall s, t0 < s < t1 -> x s = xs) -> (forall s, t0 < s < t1 -> u s = uc) ->
  forall sol : solution Rfops, solve_network (pnet Rfops n cvals lvals 0 uc) = Ok sol ->
  forall t, t0 < t < t1 ->
     (forall k, (k < ss_nst Rfops cvals lvals)%nat -> nth k (ss_xdot Rfops m xs uc) 0 = 0)
  /\ (forall node, In node (node_labels n) ->
        out_potential Rfops n cvals lvals m node (x t) (u t) = get_potential sol node)
  /\ (forall b, In b (branches n) ->
        out_voltage Rfops n cvals lvals m (bid b) (x t) (u t) = get_voltage sol (bid b)
        /\ out_current Rfops n cvals lvals m (bid b) (x t) (u t)
           = Ok (flow_of (pnet Rfops n cvals lvals 0 uc) (s_x sol) (pbranch Rfops n cvals lvals 0 uc b)))
  /\ (forall b, In b (branches n) -> lmem (bid b) (ckeys Rfops cvals) = true ->
        out_current Rfops n cvals lvals m (bid b) (x t) (u t) = Ok 0)
  /\ (forall b, In b (branches n) -> lmem (bid b) (lkeys Rfops lvals) = true ->
        out_voltage Rfops n cvals lvals m (bid b) (x t) (u t) = Ok 0).
Proof. exact traj_dc. Qed.
Print Assumptions C12d_dc_equilibrium.

(* (4d) the algebraic core, in any field: at an equilibrium A x + B u = 0 the reports are the DC analysis *)
Theorem C12d_equilibrium_is_dc_solution : forall (K : fops) (KOK : fops_ok K) (n : network K)
  (cvals lvals : list (label * K)),
  (forall k, (k < ss_nst K cvals lvals)%nat -> nth k (lam K cvals lvals) (f0 K) <> f0 K) ->
  rlc_dc K n cvals lvals ->
  forall m : ssm K, state_space_matrices K n cvals lvals = Ok m ->
  forall x u : list K, length x = ss_nst K cvals lvals -> length u = ss_nS K n lvals ->
  (forall k, (k < ss_nst K cvals lvals)%nat -> nth k (ss_xdot K m x u) (f0 K) = f0 K) ->
  forall sol : solution K, solve_network (pnet K n cvals lvals (f0 K) u) = Ok sol ->
     (forall node, In node (node_labels n) -> out_potential K n cvals lvals m node x u = get_potential sol node)
  /\ (forall b, In b (branches n) ->
        out_voltage K n cvals lvals m (bid b) x u = get_voltage sol (bid b)
        /\ out_current K n cvals lvals m (bid b) x u
           = Ok (flow_of (pnet K n cvals lvals (f0 K) u) (s_x sol) (pbranch K n cvals lvals (f0 K) u b)))
  /\ (forall b, In b (branches n) -> lmem (bid b) (ckeys K cvals) = true ->
        out_current K n cvals lvals m (bid b) x u = Ok (f0 K))
  /\ (forall b, In b (branches n) -> lmem (bid b) (lkeys K lvals) = true ->
        out_voltage K n cvals lvals m (bid b) x u = Ok (f0 K)).
Proof. exact ss_dc_solver. Qed.
Print Assumptions C12d_equilibrium_is_dc_solution.

(* what the DC network is *)
Theorem C12d_dc_network : forall (K : fops) (KOK : fops_ok K) (n : network K) (cvals lvals : list (label * K))
  (u : list K) (b : branch K),
     (lmem (bid b) (ckeys K cvals) = true ->
        pbranch K n cvals lvals (f0 K) u b
          = Build_branch (node1 b) (node2 b) (YI (bid b) (ekind (el b)) (fmul K (f0 K) (vlookup K cvals (bid b))) (f0 K))
        /\ is_open_circuit (el (pbranch K n cvals lvals (f0 K) u b)) = true)
  /\ (lmem (bid b) (ckeys K cvals) = false -> lmem (bid b) (lkeys K lvals) = true ->
        pbranch K n cvals lvals (f0 K) u b
          = Build_branch (node1 b) (node2 b) (ZV (bid b) (ekind (el b)) (fmul K (f0 K) (vlookup K lvals (bid b))) (f0 K))
        /\ is_short_circuit (el (pbranch K n cvals lvals (f0 K) u b)) = true).
Proof. exact dc_branch_def. Qed.
Print Assumptions C12d_dc_network.

(* ---- non-vacuity over R: the series RC circuit  Vs -- R1 = 2 -- C1 = 1/2  of Theory/StateSpaceEnergyEx.v (model
   x' = - x + u), the source switched on at t = 0 (u jumps from 0 to 1), exact response x(t) = 1 - exp (- t) ---- *)
From Coq Require Import String.
Local Open Scope string_scope.
Example C12d_example_network :
  rc_net = {| zero := lbl "0";
              branches := [ Build_branch (lbl "1") (lbl "0") (voltage_source (lbl "Vs") (1 : Rfops) (0 : Rfops));
                            Build_branch (lbl "1") (lbl "2") (resistor (lbl "R1") (2 : Rfops));
                            Build_branch (lbl "2") (lbl "0") (admittance (lbl "C1") (0 : Rfops)) ] |}
  /\ rc_c = [(lbl "C1", / 2)] /\ rc_l = []
  /\ rc_xu = (fun t => [1 - exp (- t)])
  /\ (forall t, rc_ustep t = if Rle_dec t 0 then [0] else [1])
  /\ rc_C1 = Build_branch (lbl "2") (lbl "0") (admittance (lbl "C1") (0 : Rfops)).
Proof. repeat split. Qed.
Example C12d_example_hyp :
  rlc_dc Rfops rc_net rc_c rc_l
  /\ state_space_matrices Rfops rc_net rc_c rc_l = Ok rc_m
  /\ ss_A rc_m = [[- 1]] /\ ss_B rc_m = [[1]]
  /\ (forall k, (k < ss_nst Rfops rc_c rc_l)%nat -> nth k (lam Rfops rc_c rc_l) 0 <> 0)
  /\ In rc_C1 (branches rc_net) /\ lmem (bid rc_C1) (ckeys Rfops rc_c) = true /\ bid rc_C1 = lbl "C1"
  /\ vlookup Rfops rc_c (lbl "C1") = / 2.
Proof. exact (conj rc_rlc (conj rc_ssm (conj eq_refl (conj eq_refl (conj rc_lam_nz
         (conj rc_C1_in (conj rc_C1_cap (conj rc_C1_id rc_C1_value)))))))). Qed.
(* (x, u) = (rc_xu, rc_ustep) is a trajectory on [0, t1] for every t1 *)
Example C12d_example_trajectory : forall t1 : R,
  (forall t, 0 <= t <= t1 -> List.length (rc_xu t) = ss_nst Rfops rc_c rc_l)
  /\ (forall t, 0 <= t <= t1 -> List.length (rc_ustep t) = ss_nS Rfops rc_net rc_l)
  /\ (forall k t, (k < ss_nst Rfops rc_c rc_l)%nat -> 0 < t < t1 ->
        is_derive (fun s => nth k (rc_xu s) 0) t (nth k (ss_xdot Rfops rc_m (rc_xu t) (rc_ustep t)) 0)).
Proof. intros t1. split; [|split].
  - intros t _. apply rc_xu_len.
  - intros t _. apply rc_ustep_len.
  - intros k t Hk Ht. exact (rc_step_der k t t1 Hk Ht). Qed.
(* the conclusion of (1a) at this instance: the reported capacitor voltage 1 - exp(-t) has the true derivative
   (reported current exp(-t)/2) / (1/2), i.e.  i_C(t) = C * d/dt v_C(t) *)
Example C12d_example_capacitor : forall t : R, 0 < t ->
     rep_voltage rc_net rc_c rc_l rc_m rc_xu rc_ustep (lbl "C1") t = 1 - exp (- t)
  /\ rep_current rc_net rc_c rc_l rc_m rc_xu rc_ustep (lbl "C1") t = / 2 * exp (- t)
  /\ is_derive (rep_voltage rc_net rc_c rc_l rc_m rc_xu rc_ustep (lbl "C1")) t
               (rep_current rc_net rc_c rc_l rc_m rc_xu rc_ustep (lbl "C1") t / (/ 2))
  /\ rep_current rc_net rc_c rc_l rc_m rc_xu rc_ustep (lbl "C1") t
     = / 2 * Derive (rep_voltage rc_net rc_c rc_l rc_m rc_xu rc_ustep (lbl "C1")) t.
Proof. intros t Ht. destruct (C12d_example_trajectory (t + 1)) as [H1 [H2 H3]].
  destruct (C12d_capacitor_law rc_net rc_c rc_l rc_lam_nz rc_rlc rc_m rc_ssm rc_xu rc_ustep 0 (t + 1) H1 H2 H3
              rc_C1 t rc_C1_in rc_C1_cap (conj Ht (Rlt_plus_1 t))) as [_ [_ [_ [D E]]]].
  exact (conj (rc_report_voltage t Ht) (conj (rc_report_current t Ht) (conj D E))). Qed.
(* the conclusion of (3): at t = 0 the state and the input vanish, every report is 0 *)
Example C12d_example_rest : forall t1 : R, 0 <= t1 ->
  (forall k, nth k (rc_xu 0) 0 = 0) /\ (forall k, nth k (rc_ustep 0) 0 = 0)
  /\ rep_voltage rc_net rc_c rc_l rc_m rc_xu rc_ustep (lbl "C1") 0 = 0
  /\ rep_current rc_net rc_c rc_l rc_m rc_xu rc_ustep (lbl "C1") 0 = 0.
Proof. intros t1 Ht1. destruct (C12d_example_trajectory t1) as [H1 [H2 _]].
  destruct (C12d_rest rc_net rc_c rc_l rc_lam_nz rc_rlc rc_m rc_ssm rc_xu rc_ustep 0 t1 H1 H2 0
              (conj (Rle_refl 0) Ht1) rc_xu_0 rc_ustep_0_nth) as [_ R2].
  destruct (R2 rc_C1 rc_C1_in) as [_ [V [_ I]]].
  exact (conj rc_xu_0 (conj rc_ustep_0_nth (conj V I))). Qed.
(* the hypotheses of (4c)/(4d): xs = 1 is the equilibrium of the input 1, the DC network (capacitor -> admittance 0 * 1/2)
   is solved by the library's solver, and the solver's answer is 1 V at both nodes and across the capacitor *)
Example C12d_example_dc :
  rc_u = [1] /\ rc_xs = [1]
  /\ List.length rc_xs = ss_nst Rfops rc_c rc_l /\ List.length rc_u = ss_nS Rfops rc_net rc_l
  /\ (forall k, (k < ss_nst Rfops rc_c rc_l)%nat -> nth k (ss_xdot Rfops rc_m rc_xs rc_u) 0 = 0)
  /\ branches (pnet Rfops rc_net rc_c rc_l 0 rc_u)
     = [ Build_branch (lbl "1") (lbl "0") (ZV (lbl "Vs") k_voltage_source (0 : Rfops) (1 : Rfops));
         Build_branch (lbl "1") (lbl "2") (resistor (lbl "R1") (2 : Rfops));
         Build_branch (lbl "2") (lbl "0") (YI (lbl "C1") k_admittance (0 * / 2 : Rfops) (0 : Rfops)) ]
  /\ (exists sol, solve_network (pnet Rfops rc_net rc_c rc_l 0 rc_u) = Ok sol)
  /\ (forall sol, solve_network (pnet Rfops rc_net rc_c rc_l 0 rc_u) = Ok sol ->
        get_potential sol (lbl "1") = Ok 1 /\ get_potential sol (lbl "2") = Ok 1 /\ get_voltage sol (lbl "C1") = Ok 1).
Proof. exact (conj eq_refl (conj eq_refl (conj rc_xs_len (conj rc_u_len (conj rc_xs_eq
         (conj rc_dc_branches (conj rc_dc_solved rc_dc_answer))))))). Qed.
