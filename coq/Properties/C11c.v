(* C11c — the state-space matrices C11 is about are the ones regenerated from state_space_model.py on this run.
   Statements only; each proof is [exact] the theorem of the same statement in the property file it is listed under. *)
From Coq Require Import List Bool ZArith NArith QArith Qcanon.
From CC Require Import Theory.Field Theory.Complex Model.Network Model.NetworkPrims Model.StateSpace Model.Circuit
  Model.MatrixPrims Gen.NetworkGen Gen.MatrixGen Theory.Matrix Theory.StateSpaceThm Theory.StateSpaceGenThm.
Import ListNotations.
From CC Require Import Properties.C10c.

Theorem C11c_state_space_matrices : forall (K : fops) (KOK : fops_ok K) (n : network K) (cvals lvals : list (label * K)),
  NoDup (branch_ids n) ->
  py_state_space.state_space_matrices K n cvals lvals (py_state_space.state_space_matrices__default_node_mapper K)
    (py_state_space.state_space_matrices__default_current_source_mapper K)
    (py_state_space.state_space_matrices__default_voltage_source_mapper K)
  = bind (state_space_matrices K n cvals lvals) (fun m => Ok (ssm_arrays K n cvals lvals m)).
Proof. exact C10c_state_space_matrices. Qed.
Print Assumptions C11c_state_space_matrices.

Theorem C11c_nodal_state_space_model : forall (K : fops) (KOK : fops_ok K) (n : network K) (cvals lvals : list (label * K)),
  NoDup (branch_ids n) ->
  py_state_space.nodal_state_space_model K n cvals lvals (py_state_space.nodal_state_space_model__default_node_index_mapper K)
    (py_state_space.nodal_state_space_model__default_voltage_source_index_mapper K)
    (py_state_space.nodal_state_space_model__default_current_source_index_mapper K)
  = bind (nodal_state_space_model K n cvals lvals) (fun m => Ok (nssm_of K n cvals lvals m)).
Proof. exact C10c_nodal_state_space_model. Qed.
Print Assumptions C11c_nodal_state_space_model.

