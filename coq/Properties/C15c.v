(* C15 (continued) — SimpleCircuit/dump_load.py, the `type` properties of SimpleCircuit/Elements.py and the element part of
   SimpleSimulation/schematic.py as REGENERATED on every run (Gen/SaveLoadGen.v, produced by tools/gen_saveload.py in the
   vocabulary of Model/SaveLoadPrims.v) are the hand-written model Model/SaveLoad.v.  With this, C15_roundtrip /
   C15_iterate / C15_declarative are statements about the tables and functions as read from the source: an edit (a class
   dropped from simple_circuit_element_types, `reverse` no longer written or no longer restored, the deg / sin flags no
   longer cleared, combine_to_complex reading other keys, ...) changes Gen/SaveLoadGen.v and breaks one of the equalities
   below, or is refused by the translator.
   Statements only; proofs are in Theory/SaveLoadGenThm.v. *)
From Coq Require Import List Bool NArith ZArith QArith Qcanon String.
From CC Require Import Theory.Field Theory.Complex Model.Network Model.Circuit Model.Loaders Model.SaveLoad Theory.SaveLoadThm
  Model.SaveLoadPrims Gen.SaveLoadGen Theory.SaveLoadGenThm Properties.C15.
Import ListNotations.

(* ================= A. saving ================= *)
(* schemdraw_serializers holds exactly what [ser] presupposes: str, int, float, bool written as they are, list / tuple /
   dict element-wise, complex and None (and every type without an entry) written as None *)
Theorem C15c_serializer_table : ser_table_ok g_schemdraw_serializers = true.
Proof. exact gen_ser_table_ok. Qed.
Theorem C15c_serialize : forall (R : fops) (v : jval R), g_serialize_schemdraw_element R v = ser R v.
Proof. exact gen_serialize_eq. Qed.
(* whatever the table holds, if it passes the check the table-driven serialiser is [ser] *)
Theorem C15c_serialize_by_table : forall (R : fops) (tbl : list (label * serkind)), ser_table_ok tbl = true ->
  forall v : jval R, ser_by R tbl v = ser R v.
Proof. exact ser_by_ok. Qed.
(* dictify_element: type, name, reverse, values{_userparams, absanchors} *)
Theorem C15c_dictify_element : forall (R : fops) (s : symbol R), g_dictify_element R s = save_symbol R s.
Proof. exact gen_dictify_element_eq. Qed.
Theorem C15c_schematic_to_dict : forall (R : fops) (d : list (symbol R)), g_schematic_to_dict R d = map (save_symbol R) d.
Proof. exact gen_schematic_to_dict_eq. Qed.
(* dictify_all: {'circuit': ..., 'simple_circuit': ...} *)
Theorem C15c_dictify_all : forall (R : fops) (pi : R) (d : list (symbol R)), g_dictify_all R pi d = save R pi d.
Proof. exact gen_dictify_all_eq. Qed.
Print Assumptions C15c_serialize.
Print Assumptions C15c_dictify_element.
Print Assumptions C15c_dictify_all.

(* ================= B. the loader table ================= *)
Theorem C15c_combine_to_complex : forall (R : fops) (re im z : label) (kw : dict (jval R)), label_eqb re im = false ->
  g_combine_to_complex R (re, im) z kw = combine R re im z kw.
Proof. exact gen_combine_eq. Qed.
(* full statement (all key pairs): FALSE for re = im — the second pop then finds the key gone and takes the default,
   where [combine] reads both parts from the original dictionary; no row of the table has re = im *)
Definition C15c_combine_to_complex_full : Prop :=
  forall (R : fops) (re im z : label) (kw : dict (jval R)), g_combine_to_complex R (re, im) z kw = combine R re im z kw.
(* row by row, in source order: same type string, and the lambda of the row is [pre_ctor] followed by the constructor
   of the class of [element_types] *)
Theorem C15c_element_types : forall (R : fops) (pi : R),
  Forall2 (fun (g : label * (dict (jval R) -> res (symbol R))) (h : label * scls) =>
             fst g = fst h /\ forall kw, snd g kw = bind (pre_ctor R (snd h) kw) (fun kw' => new_element R pi (snd h) kw'))
          (g_simple_circuit_element_types R pi) element_types.
Proof. exact gen_element_types_eq. Qed.
Theorem C15c_element_types_lookup : forall (R : fops) (pi : R) (t : label),
  match tlook (g_simple_circuit_element_types R pi) t, tlook element_types t with
  | Some f, Some c => forall kw, f kw = bind (pre_ctor R c kw) (fun kw' => new_element R pi c kw')
  | None, None => True
  | _, _ => False
  end.
Proof. intros R pi. exact (rows_lookup R pi _ _ (gen_element_types_eq R pi)). Qed.
(* the class a row constructs is the class whose `type` property (Elements.py) is the key of the row *)
Theorem C15c_loader_rows_are_their_types :
  Forall (fun tc => tlook g_class_types (snd tc) = Some (Some (fst tc))) g_loader_classes.
Proof. exact gen_loader_classes_types. Qed.
Theorem C15c_loader_rows_are_the_model_classes :
  map (fun tc => (fst tc, Some (snd tc))) g_loader_classes = map (fun tc => (fst tc, cls_pyname (snd tc))) element_types.
Proof. exact gen_loader_classes_model. Qed.
Theorem C15c_class_types : forall c : scls, In c modelled_classes ->
  exists n, cls_pyname c = Some n /\ tlook g_class_types n = Some (cls_type c).
Proof. exact gen_class_types. Qed.
Print Assumptions C15c_element_types.
Print Assumptions C15c_class_types.

(* ================= C. loading ================= *)
(* kwargs.update({flag: False for flag in ('deg', 'sin') if flag in kwargs}) *)
Theorem C15c_clear_flags : forall (R : fops) (k : dict (jval R)),
  update k (flag_comp R [q_deg; q_sin] k (JBool false)) = clear_flags R k.
Proof. exact gen_clear_flags_eq. Qed.
(* undictify_element.  Full statement: *)
Definition C15c_undictify_element_full : Prop :=
  forall (R : fops) (pi : R) (cd : dict (dict (jval R))) (e : jval R), g_undictify_element R pi e cd = load_symbol R pi true cd e.
(* It is FALSE for the present hand model (ex_missing_reverse, ex_missing_type below): the code reads
   element_dict.get('reverse', False) and falls back to the generic Element when element_dict['type'] is missing (the
   KeyError is caught by the same `except KeyError`), where load_symbol answers KeyError; and the code assigns absanchors
   after the constructor ran, so an entry with a bad absanchors AND bad constructor arguments raises a different
   exception.  What holds: equality on every entry that has the keys dictify_element writes. *)
Theorem C15c_undictify_element : forall (R : fops) (pi : R) (cd : dict (dict (jval R))) (e : jval R),
  entry_wf R e -> g_undictify_element R pi e cd = load_symbol R pi true cd e.
Proof. exact gen_undictify_element_eq. Qed.
Theorem C15c_entry_wf_meaning : forall (R : fops) (e : jval R),
  entry_wf R e <->
  exists (d vd ad : dict (jval R)) (rv ty : jval R) (ps pe : point R),
    e = JDict d /\ dget d q_reverse = Some rv /\ dget d q_type = Some ty /\
    dget d q_values = Some (JDict vd) /\ dget vd q_absanchors = Some (JDict ad) /\
    dget ad q_start = Some (jpoint R ps) /\ dget ad q_end = Some (jpoint R pe).
Proof. intros R e. reflexivity. Qed.
Theorem C15c_saved_entries_wf : forall (R : fops) (s : symbol R), entry_wf R (save_symbol R s).
Proof. exact save_symbol_wf. Qed.
(* undictify_schematic on every document whose entries are such entries, in particular on every saved document *)
Theorem C15c_undictify_schematic : forall (R : fops) (pi : R) (doc : jval R),
  (forall sc l, jfield R doc q_simple_circuit = Ok sc -> as_list R sc = Ok l -> Forall (entry_wf R) l) ->
  g_undictify_schematic R pi doc = load R pi doc.
Proof. exact gen_undictify_schematic_eq. Qed.
Theorem C15c_undictify_saved : forall (R : fops) (pi : R) (d : list (symbol R)) (doc : jval R),
  save R pi d = Ok doc -> g_undictify_schematic R pi doc = load R pi doc.
Proof. intros R pi d doc H. apply gen_undictify_schematic_eq. exact (save_doc_wf R pi d doc H). Qed.
Print Assumptions C15c_undictify_element.
Print Assumptions C15c_undictify_saved.

(* ================= D. C15 for the regenerated functions ================= *)
Theorem C15c_cycle : forall (R : fops) (pi : R) (d : list (symbol R)),
  bind (g_dictify_all R pi d) (g_undictify_schematic R pi) = cycle R pi d.
Proof. exact gen_cycle_eq. Qed.
Theorem C15c_roundtrip : forall (R : fops) (ROK : fops_ok R) (pi : R) (d : list (symbol R)),
  good R (map (view_of R pi) d) ->
  exists d', bind (g_dictify_all R pi d) (g_undictify_schematic R pi) = Ok d' /\ map (view_of R pi) d' = map (view_of R pi) d.
Proof. exact gen_cycle_preserves. Qed.
Theorem C15c_iterate : forall (R : fops) (ROK : fops_ok R) (pi : R) (n : nat) (d : list (symbol R)),
  good R (map (view_of R pi) d) ->
  exists d', g_cycles R pi n d = Ok d' /\ map (view_of R pi) d' = map (view_of R pi) d.
Proof. exact gen_cycles_preserve. Qed.
Theorem C15c_cycles_meaning : forall (R : fops) (pi : R) (n : nat) (d : list (symbol R)),
  g_cycles R pi n d = match n with O => Ok d | S k => bind (bind (g_dictify_all R pi d) (g_undictify_schematic R pi)) (g_cycles R pi k) end.
Proof. intros R pi n d. destruct n; reflexivity. Qed.
Print Assumptions C15c_roundtrip.
Print Assumptions C15c_iterate.

(* ================= E. closed tables of dump_load.py ================= *)
(* the drawing state of schemdraw (not part of the symbol model): what dictify_element writes under values[key] is what
   undictify_element assigns back to the attribute of the same name *)
Theorem C15c_drawing_state_saved : g_saved_drawing_state = map (fun a => (a, a)) drawing_state.
Proof. exact gen_saved_drawing_state. Qed.
Theorem C15c_drawing_state_restored : g_restored_drawing_state = g_saved_drawing_state.
Proof. exact gen_restored_drawing_state. Qed.
(* serialize / dump / deserialize / load are dump_load's functions with dictify_all / undictify_schematic plugged in *)
Theorem C15c_entry_points : g_entry_points = expected_entry_points.
Proof. exact gen_entry_points. Qed.

(* ================= F. the declarative element lists (SimpleSimulation/schematic.py) ================= *)
Theorem C15c_element_handlers : forall (R : fops) (ty : label) (vals : dict (jval R)),
  tlook (g_element_handlers R vals) ty = element_handlers R ty vals.
Proof. exact gen_element_handlers_eq. Qed.
(* element_factory(cls, name='', reverse=False, **kwargs) *)
Theorem C15c_element_factory_defaults : forall (R : fops) (kw : dict (jval R)),
  fold_left (fun k kv => if dhas k (fst kv) then k else dset k (fst kv) (snd kv)) (g_element_factory_defaults R) kw
  = with_defaults R kw.
Proof. exact gen_element_factory_eq. Qed.
(* apply_direction_and_length: the four direction strings, each placing with length*unit *)
Theorem C15c_directions : forall (R : fops) (d : direction), exists s, jdir R d = JStr s /\ tlook g_direction_table s = Some d.
Proof. exact gen_direction_table. Qed.
Theorem C15c_directions_only : map snd g_direction_table = [DRight; DLeft; DUp; DDown].
Proof. exact gen_direction_table_keys. Qed.
(* the keys consumed by the builder, and their defaults: no direction, length 1, no place_after *)
Theorem C15c_layout_keys : g_layout_keys = layout_keys.
Proof. exact gen_layout_keys. Qed.
Theorem C15c_layout_defaults : forall R : fops,
  g_fill_reads R = [(q_direction, JStr []); (q_length, JNum (f1 R)); (q_place_after, JNull)].
Proof. exact gen_fill_reads. Qed.
(* place_after continues at the END of the named element *)
Theorem C15c_place_after_anchor : g_place_after_anchor = q_end.
Proof. exact gen_place_after_anchor. Qed.
Print Assumptions C15c_element_handlers.
Print Assumptions C15c_layout_defaults.

(* ================= witnesses over Qc (pi := 22/7), reusing the drawing of Properties/C15.v ================= *)
(* the hypothesis of C15c_roundtrip holds for ex_drawing (C15.ex_good); four cycles of the REGENERATED functions *)
Example ex_gen_cycles : option_map (map (view_of QR qpi)) (match g_cycles QR qpi 4 ex_drawing with Ok d' => Some d' | Err _ => None end)
  = Some (map (view_of QR qpi) ex_drawing).
Proof. vmr. Qed.
Example ex_gen_roundtrip : exists d', bind (g_dictify_all QR qpi ex_drawing) (g_undictify_schematic QR qpi) = Ok d' /\
  map (view_of QR qpi) d' = map (view_of QR qpi) ex_drawing.
Proof. exact (C15c_roundtrip QR Qcops_ok qpi ex_drawing ex_good). Qed.
(* the reloaded source keeps phi in radians with the degree flag cleared (regenerated loader) *)
Example ex_gen_reloaded_flags : match bind (g_dictify_all QR qpi ex_drawing) (g_undictify_schematic QR qpi) with
                                | Ok (s :: _) => (dget (s_attr s) q_deg, dget (s_user s) q_deg, dget (s_attr s) q_phi)
                                | _ => (None, None, None) end
  = (Some (JBool false), Some (JBool false), Some (@JNum QR (Qcdiv (Qcmult (qc 30 1) qpi) (qc 180 1)))).
Proof. vmr. Qed.
(* entry_wf is satisfiable: the entry of the first symbol *)
Example ex_entry_wf : entry_wf QR (save_symbol QR (nth 0 ex_drawing (mk CLine [] (pt 0 0) (pt 0 0)))).
Proof. apply C15c_saved_entries_wf. Qed.
(* the full statement fails: an entry without 'reverse' / without 'type' *)
Definition ex_entry (with_reverse with_type : bool) : jval QR :=
  JDict ((if with_type then [(q_type, JStr t_resistor)] else []) ++ [(q_name, JStr (lbl "R1"))]
         ++ (if with_reverse then [(q_reverse, JBool false)] else [])
         ++ [(q_values, JDict [(q_userparams, JDict [(q_R, n 5 1)]);
                               (q_absanchors, JDict [(q_start, jpoint QR (pt 0 0)); (q_end, jpoint QR (pt 3 0))])])]).
Example ex_missing_reverse :
  (match g_undictify_element QR qpi (ex_entry false true) [] with Ok s => Some (s_cls s, s_reverse s) | Err _ => None end
   = Some (CResistor, false)) /\
  load_symbol QR qpi true [] (ex_entry false true) = Err EKeyError.
Proof. split; vmr. Qed.
Example ex_missing_type :
  (match g_undictify_element QR qpi (ex_entry true false) [] with Ok s => Some (s_cls s) | Err _ => None end = Some CElement) /\
  load_symbol QR qpi true [] (ex_entry true false) = Err EKeyError.
Proof. split; vmr. Qed.
Example ex_full_entry : g_undictify_element QR qpi (ex_entry true true) [] = load_symbol QR qpi true [] (ex_entry true true)
  /\ (match load_symbol QR qpi true [] (ex_entry true true) with Ok s => Some (s_cls s) | Err _ => None end = Some CResistor).
Proof. split; vmr. Qed.
Theorem C15c_undictify_element_full_is_false : ~ C15c_undictify_element_full.
Proof.
  intros H. specialize (H QR qpi [] (ex_entry true false)). destruct ex_missing_type as [H1 H2]. rewrite H2 in H.
  rewrite H in H1. discriminate H1.
Qed.
(* combine_to_complex with distinct keys: {'R': 1, 'X': 2} -> {'Z': 1+2j}; the hypothesis holds for every row of the table *)
Example ex_combine : g_combine_to_complex QR (q_R, q_X) q_Z [(q_R, n 1 1); (q_X, n 2 1)] = Ok [(q_Z, @JCplx QR (qc 1 1, qc 2 1))]
  /\ label_eqb q_R q_X = false /\ label_eqb q_G q_B = false /\ label_eqb q_V_real q_V_imag = false /\ label_eqb q_I_real q_I_imag = false.
Proof. repeat split; vmr. Qed.
Example ex_combine_same_key : g_combine_to_complex QR (q_R, q_R) q_Z [(q_R, n 1 1)] <> combine QR q_R q_R q_Z [(q_R, n 1 1)].
Proof. vm_compute. discriminate. Qed.
(* the declarative table on the description of Properties/C15.v: the same classes through the regenerated table *)
Example ex_gen_handlers : map (fun e => tlook (g_element_handlers QR (e_vals QR e)) (e_type QR e)) ex_description
  = [Some CVoltageSource; Some CResistor; Some CResistor; Some CLine; Some CGround; Some CResistor].
Proof. vmr. Qed.
