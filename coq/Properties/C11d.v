(* Properties/C11d.v — C11, last clause: "hence simulated responses stay bounded, with non-increasing stored energy, after
   all sources have returned to zero" — for the EXACT solutions of the model's differential equation over Coq's real
   numbers, whatever integrator is used.  Model: Model/StateSpace.v; proofs: Theory/StateSpaceEnergy.v (on top of
   Theory/StateSpaceThm.v [lyapunov_identity] and Theory/StateSpaceLyap.v [qW_nonpos] instantiated at R).
   Uses the classical real numbers (Coquelicot [is_derive], mean value theorem): Print Assumptions lists the axioms of Coq's
   Reals (sig_forall_dec, sig_not_dec, functional_extensionality_dep) and Classical_Prop.classic, nothing else.

   Vocabulary.  [Rfops] is the field record at R ([feqb] from Req_EM_T).  A trajectory is  x : R -> list R  (the state
   vector at time t, capacitor voltages then inductor currents, as in [ss_A]); it solves the model on [t0, t1] when every
   component is continuous on [t0, t1] and differentiable on (t0, t1) with derivative the component of
   [ss_xdot m (x t) u] = A x(t) + B u  (u = [zero_row _ (ss_nS ..)] : all sources at zero).
   [energy W nst x] = 1/2 * sum_{k < nst} W_k x_k^2 ;  W = [Wd cvals lvals] = (C..., L...).
   Hypotheses on the network as in Properties/C11.v: [rlc_dc], non-negative admittances of the resistive branches ([resb]),
   lam_k <> 0 (energy theorems), resp. strictly positive capacitances and inductances (C11_bounded, C11_dc theorems). *)
From Coq Require Import Reals List Bool.
From Coquelicot Require Import Coquelicot.
From CC Require Import Theory.Field Theory.Complex Model.Network Model.StateSpace Model.Circuit Theory.Spec Theory.Api
  Theory.Matrix Theory.Ordered Theory.StateSpaceThm Theory.StateSpaceLyap Theory.StateSpaceEnergy Theory.StateSpaceEnergyEx.
Import ListNotations.
Local Open Scope R_scope.

(* (1) the real numbers are an instance of the field and ordered-field records *)
Theorem C11d_real_field : fops_ok Rfops /\ ofield_ok Rfops Rle.
Proof. exact (conj Rfops_ok R_ofield_ok). Qed.
Print Assumptions C11d_real_field.

(* the definitions used below, spelled out *)
Theorem C11d_energy_def : forall (W : list R) (nst : nat) (x : list R),
  energy W nst x = / 2 * @sumF Rfops nat (fun k => nth k W 0 * (nth k x 0 * nth k x 0)) (seq 0 nst).
Proof. reflexivity. Qed.
Theorem C11d_wpower_def : forall (W : list R) (nst : nat) (x xd : list R),
  wpower W nst x xd = @sumF Rfops nat (fun k => nth k W 0 * nth k x 0 * nth k xd 0) (seq 0 nst).
Proof. reflexivity. Qed.
Theorem C11d_stvec_def : forall (nst : nat) (y : nat -> R -> R) (t : R), stvec nst y t = map (fun k => y k t) (seq 0 nst).
Proof. reflexivity. Qed.
Theorem C11d_LyapR_def : forall (nst : nat) (W : list Rfops) (A : list (list Rfops)),
  LyapR nst W A = mat_add (mat_mul nst (diag Rfops W) A) (mat_mul nst (transpose nst A) (diag Rfops W)).
Proof. reflexivity. Qed.

(* (2a) power balance along an unforced trajectory:  dE/dt = - sum over the resistive branches of G v^2  (v the branch
   voltages the model reports for the state x(t) and zero input), and this is <= 0 *)
Theorem C11d_energy_balance : forall (n : network Rfops) (cvals lvals : list (label * Rfops)),
  (forall k, (k < ss_nst Rfops cvals lvals)%nat -> nth k (lam Rfops cvals lvals) 0 <> 0) ->
  rlc_dc Rfops n cvals lvals ->
  forall m : ssm Rfops, state_space_matrices Rfops n cvals lvals = Ok m ->
  forall (x : R -> list R) (t0 t1 : R),
  (forall t, t0 <= t <= t1 -> length (x t) = ss_nst Rfops cvals lvals) ->
  (forall k t, (k < ss_nst Rfops cvals lvals)%nat -> t0 < t < t1 ->
     is_derive (fun s => nth k (x s) 0) t (nth k (ss_xdot Rfops m (x t) (zero_row Rfops (ss_nS Rfops n lvals))) 0)) ->
  forall t, t0 < t < t1 ->
  is_derive (fun s => energy (Wd Rfops cvals lvals) (ss_nst Rfops cvals lvals) (x s)) t
            (- @sumF Rfops _ (eR Rfops n cvals lvals m (x t)) (branches n)).
Proof. exact net_energy_derive. Qed.
Print Assumptions C11d_energy_balance.

Theorem C11d_dissipation : forall (n : network Rfops) (cvals lvals : list (label * Rfops)),
  (forall k, (k < ss_nst Rfops cvals lvals)%nat -> nth k (lam Rfops cvals lvals) 0 <> 0) ->
  rlc_dc Rfops n cvals lvals ->
  forall m : ssm Rfops, state_space_matrices Rfops n cvals lvals = Ok m ->
  (forall b, In b (branches n) -> resb Rfops cvals b = true -> 0 <= finY b) ->
  forall (x : R -> list R) (t0 t1 : R),
  (forall t, t0 <= t <= t1 -> length (x t) = ss_nst Rfops cvals lvals) ->
  forall t, t0 < t < t1 ->
  - @sumF Rfops _ (eR Rfops n cvals lvals m (x t)) (branches n) <= 0.
Proof. exact net_energy_derive_nonpos. Qed.
Print Assumptions C11d_dissipation.

(* (2b) C11 "non-increasing stored energy after all sources have returned to zero" *)
Theorem C11_energy_nonincreasing : forall (n : network Rfops) (cvals lvals : list (label * Rfops)),
  (forall k, (k < ss_nst Rfops cvals lvals)%nat -> nth k (lam Rfops cvals lvals) 0 <> 0) ->
  rlc_dc Rfops n cvals lvals ->
  forall m : ssm Rfops, state_space_matrices Rfops n cvals lvals = Ok m ->
  (forall b, In b (branches n) -> resb Rfops cvals b = true -> 0 <= finY b) ->
  forall (x : R -> list R) (t0 t1 : R),
  (forall t, t0 <= t <= t1 -> length (x t) = ss_nst Rfops cvals lvals) ->
  (forall k t, (k < ss_nst Rfops cvals lvals)%nat -> t0 < t < t1 ->
     is_derive (fun s => nth k (x s) 0) t (nth k (ss_xdot Rfops m (x t) (zero_row Rfops (ss_nS Rfops n lvals))) 0)) ->
  (forall k t, (k < ss_nst Rfops cvals lvals)%nat -> t0 <= t <= t1 -> continuity_pt (fun s => nth k (x s) 0) t) ->
  forall s t, t0 <= s -> s <= t -> t <= t1 ->
  energy (Wd Rfops cvals lvals) (ss_nst Rfops cvals lvals) (x t) <= energy (Wd Rfops cvals lvals) (ss_nst Rfops cvals lvals) (x s).
Proof. exact net_energy_nonincreasing. Qed.
Print Assumptions C11_energy_nonincreasing.

(* (3) C11 "simulated responses stay bounded": with positive capacitances and inductances every state variable satisfies
   |x_k(t)| <= sqrt (2 E(t0) / W_k) on [t0, t1] *)
Theorem C11_bounded : forall (n : network Rfops) (cvals lvals : list (label * Rfops)),
  (forall k, (k < ss_nst Rfops cvals lvals)%nat -> 0 < nth k (Wd Rfops cvals lvals) 0) ->
  rlc_dc Rfops n cvals lvals ->
  forall m : ssm Rfops, state_space_matrices Rfops n cvals lvals = Ok m ->
  (forall b, In b (branches n) -> resb Rfops cvals b = true -> 0 <= finY b) ->
  forall (x : R -> list R) (t0 t1 : R),
  (forall t, t0 <= t <= t1 -> length (x t) = ss_nst Rfops cvals lvals) ->
  (forall k t, (k < ss_nst Rfops cvals lvals)%nat -> t0 < t < t1 ->
     is_derive (fun s => nth k (x s) 0) t (nth k (ss_xdot Rfops m (x t) (zero_row Rfops (ss_nS Rfops n lvals))) 0)) ->
  (forall k t, (k < ss_nst Rfops cvals lvals)%nat -> t0 <= t <= t1 -> continuity_pt (fun s => nth k (x s) 0) t) ->
  forall k t, (k < ss_nst Rfops cvals lvals)%nat -> t0 <= t <= t1 ->
  Rabs (nth k (x t) 0)
  <= sqrt (2 * energy (Wd Rfops cvals lvals) (ss_nst Rfops cvals lvals) (x t0) / nth k (Wd Rfops cvals lvals) 0).
Proof. exact net_bounded. Qed.
Print Assumptions C11_bounded.

(* (4) constant (DC) input u and an equilibrium xs of it (A xs + B u = 0): the energy of the deviation x - xs is
   non-increasing and the deviation stays bounded *)
Theorem C11_dc_energy_nonincreasing : forall (n : network Rfops) (cvals lvals : list (label * Rfops)),
  (forall k, (k < ss_nst Rfops cvals lvals)%nat -> 0 < nth k (Wd Rfops cvals lvals) 0) ->
  rlc_dc Rfops n cvals lvals ->
  forall m : ssm Rfops, state_space_matrices Rfops n cvals lvals = Ok m ->
  (forall b, In b (branches n) -> resb Rfops cvals b = true -> 0 <= finY b) ->
  forall (x : R -> list R) (t0 t1 : R),
  (forall t, t0 <= t <= t1 -> length (x t) = ss_nst Rfops cvals lvals) ->
  (forall k t, (k < ss_nst Rfops cvals lvals)%nat -> t0 <= t <= t1 -> continuity_pt (fun s => nth k (x s) 0) t) ->
  forall u xs : list R, length xs = ss_nst Rfops cvals lvals ->
  (forall k, (k < ss_nst Rfops cvals lvals)%nat -> nth k (ss_xdot Rfops m xs u) 0 = 0) ->
  (forall k t, (k < ss_nst Rfops cvals lvals)%nat -> t0 < t < t1 ->
     is_derive (fun s => nth k (x s) 0) t (nth k (ss_xdot Rfops m (x t) u) 0)) ->
  forall s t, t0 <= s -> s <= t -> t <= t1 ->
  energy (Wd Rfops cvals lvals) (ss_nst Rfops cvals lvals) (row_minus Rfops (x t) xs)
  <= energy (Wd Rfops cvals lvals) (ss_nst Rfops cvals lvals) (row_minus Rfops (x s) xs).
Proof. exact dc_energy_nonincreasing. Qed.
Print Assumptions C11_dc_energy_nonincreasing.

Theorem C11_dc_bounded : forall (n : network Rfops) (cvals lvals : list (label * Rfops)),
  (forall k, (k < ss_nst Rfops cvals lvals)%nat -> 0 < nth k (Wd Rfops cvals lvals) 0) ->
  rlc_dc Rfops n cvals lvals ->
  forall m : ssm Rfops, state_space_matrices Rfops n cvals lvals = Ok m ->
  (forall b, In b (branches n) -> resb Rfops cvals b = true -> 0 <= finY b) ->
  forall (x : R -> list R) (t0 t1 : R),
  (forall t, t0 <= t <= t1 -> length (x t) = ss_nst Rfops cvals lvals) ->
  (forall k t, (k < ss_nst Rfops cvals lvals)%nat -> t0 <= t <= t1 -> continuity_pt (fun s => nth k (x s) 0) t) ->
  forall u xs : list R, length xs = ss_nst Rfops cvals lvals ->
  (forall k, (k < ss_nst Rfops cvals lvals)%nat -> nth k (ss_xdot Rfops m xs u) 0 = 0) ->
  (forall k t, (k < ss_nst Rfops cvals lvals)%nat -> t0 < t < t1 ->
     is_derive (fun s => nth k (x s) 0) t (nth k (ss_xdot Rfops m (x t) u) 0)) ->
  forall k t, (k < ss_nst Rfops cvals lvals)%nat -> t0 <= t <= t1 ->
  Rabs (nth k (x t) 0 - nth k xs 0)
  <= sqrt (2 * energy (Wd Rfops cvals lvals) (ss_nst Rfops cvals lvals) (row_minus Rfops (x t0) xs)
           / nth k (Wd Rfops cvals lvals) 0).
Proof. exact dc_bounded. Qed.
Print Assumptions C11_dc_bounded.

(* ---- core lemmas ---- *)
(* an abstract square matrix A and weights W with  x^T (W A + A^T W) x <= 0 *)
Theorem C11d_abstract_energy_nonincreasing : forall (nst : nat) (W : list Rfops) (A : list (list Rfops)),
  length W = nst -> wfm nst nst A ->
  (forall x : list Rfops, length x = nst -> @dot Rfops x (mat_vec (LyapR nst W A) x) <= 0) ->
  forall (x : R -> list R) (t0 t1 : R),
  (forall t, t0 <= t <= t1 -> length (x t) = nst) ->
  (forall k t, (k < nst)%nat -> t0 < t < t1 -> is_derive (fun s => nth k (x s) 0) t (nth k (mat_vec A (x t)) 0)) ->
  (forall k t, (k < nst)%nat -> t0 <= t <= t1 -> continuity_pt (fun s => nth k (x s) 0) t) ->
  forall s t, t0 <= s -> s <= t -> t <= t1 -> energy W nst (x t) <= energy W nst (x s).
Proof. exact abstract_energy_nonincreasing. Qed.
Print Assumptions C11d_abstract_energy_nonincreasing.

Theorem C11d_abstract_bounded : forall (nst : nat) (W : list Rfops) (A : list (list Rfops)),
  length W = nst -> wfm nst nst A ->
  (forall x : list Rfops, length x = nst -> @dot Rfops x (mat_vec (LyapR nst W A) x) <= 0) ->
  forall (x : R -> list R) (t0 t1 : R),
  (forall t, t0 <= t <= t1 -> length (x t) = nst) ->
  (forall k t, (k < nst)%nat -> t0 < t < t1 -> is_derive (fun s => nth k (x s) 0) t (nth k (mat_vec A (x t)) 0)) ->
  (forall k t, (k < nst)%nat -> t0 <= t <= t1 -> continuity_pt (fun s => nth k (x s) 0) t) ->
  forall k t, (forall j, (j < nst)%nat -> 0 <= nth j W 0) -> (k < nst)%nat -> 0 < nth k W 0 -> t0 <= t <= t1 ->
  Rabs (nth k (x t) 0) <= sqrt (2 * energy W nst (x t0) / nth k W 0).
Proof. exact abstract_bounded. Qed.
Print Assumptions C11d_abstract_bounded.

(* any (possibly non-linear) vector field f that dissipates the quadratic form: y' = f y, components y k *)
Theorem C11d_dissipative_flow : forall (nst : nat) (W : list R) (f : list R -> list R),
  (forall v, length v = nst -> wpower W nst v (f v) <= 0) ->
  forall (y : nat -> R -> R) (t0 t1 : R),
  (forall k t, (k < nst)%nat -> t0 < t < t1 -> is_derive (y k) t (nth k (f (stvec nst y t)) 0)) ->
  (forall k t, (k < nst)%nat -> t0 <= t <= t1 -> continuity_pt (y k) t) ->
  forall s t, t0 <= s -> s <= t -> t <= t1 -> energy W nst (stvec nst y t) <= energy W nst (stvec nst y s).
Proof. exact flow_energy_nonincreasing. Qed.
Print Assumptions C11d_dissipative_flow.

(* ---- non-vacuity over R: the series RC circuit  Vs -- R1 = 2 -- C1 = 1/2  (Theory/StateSpaceEnergyEx.v), whose model is
   x' = - x + u, and its exact unforced response x(t) = exp (- t) ---- *)
From Coq Require Import String.
Local Open Scope string_scope.
Example C11d_example_network :
  rc_net = {| zero := lbl "0";
              branches := [ Build_branch (lbl "1") (lbl "0") (voltage_source (lbl "Vs") (1 : Rfops) (0 : Rfops));
                            Build_branch (lbl "1") (lbl "2") (resistor (lbl "R1") (2 : Rfops));
                            Build_branch (lbl "2") (lbl "0") (admittance (lbl "C1") (0 : Rfops)) ] |}
  /\ rc_c = [(lbl "C1", / 2)] /\ rc_l = [] /\ rc_x = (fun t => [exp (- t)]).
Proof. repeat split. Qed.
Example C11d_example_hyp :
  rlc_dc Rfops rc_net rc_c rc_l
  /\ state_space_matrices Rfops rc_net rc_c rc_l = Ok rc_m
  /\ ss_A rc_m = [[- 1]] /\ ss_B rc_m = [[1]]
  /\ (forall k, (k < ss_nst Rfops rc_c rc_l)%nat -> 0 < nth k (Wd Rfops rc_c rc_l) 0)
  /\ (forall k, (k < ss_nst Rfops rc_c rc_l)%nat -> nth k (lam Rfops rc_c rc_l) 0 <> 0)
  /\ (forall b, In b (branches rc_net) -> resb Rfops rc_c b = true -> 0 <= finY b).
Proof. exact (conj rc_rlc (conj rc_ssm (conj eq_refl (conj eq_refl (conj rc_Wpos (conj rc_lam_nz rc_Ypos)))))). Qed.
Example C11d_example_trajectory : forall t0 t1 : R,
  (forall t, t0 <= t <= t1 -> List.length (rc_x t) = ss_nst Rfops rc_c rc_l)
  /\ (forall k t, (k < ss_nst Rfops rc_c rc_l)%nat -> t0 < t < t1 ->
        is_derive (fun s => nth k (rc_x s) 0) t
          (nth k (ss_xdot Rfops rc_m (rc_x t) (zero_row Rfops (ss_nS Rfops rc_net rc_l))) 0))
  /\ (forall k t, (k < ss_nst Rfops rc_c rc_l)%nat -> t0 <= t <= t1 -> continuity_pt (fun s => nth k (rc_x s) 0) t).
Proof. intros t0 t1. split; [|split].
  - intros t _. apply rc_x_len.
  - intros k t Hk _. apply rc_x_der, Hk.
  - intros k t _ _. apply rc_x_cont. Qed.
(* the conclusions at this instance: E(t) = exp(-t)^2 / 4 decreases, |exp(-t)| <= sqrt (2 E(t0) / C) *)
Example C11d_example_energy : forall t : R,
  energy (Wd Rfops rc_c rc_l) (ss_nst Rfops rc_c rc_l) (rc_x t) = exp (- t) * exp (- t) / 4.
Proof. intros t. unfold energy. simpl. field. Qed.
Example C11d_example_conclusion : forall s t : R, s <= t ->
  energy (Wd Rfops rc_c rc_l) (ss_nst Rfops rc_c rc_l) (rc_x t) <= energy (Wd Rfops rc_c rc_l) (ss_nst Rfops rc_c rc_l) (rc_x s).
Proof. intros s t Hst. destruct (C11d_example_trajectory s t) as [H1 [H2 H3]].
  apply (C11_energy_nonincreasing rc_net rc_c rc_l rc_lam_nz rc_rlc rc_m rc_ssm rc_Ypos rc_x s t H1 H2 H3 s t);
    [apply Rle_refl|exact Hst|apply Rle_refl]. Qed.
Example C11d_example_bounded : forall t : R, 0 <= t ->
  Rabs (nth 0 (rc_x t) 0)
  <= sqrt (2 * energy (Wd Rfops rc_c rc_l) (ss_nst Rfops rc_c rc_l) (rc_x 0) / nth 0 (Wd Rfops rc_c rc_l) 0).
Proof. intros t Ht. destruct (C11d_example_trajectory 0 t) as [H1 [H2 H3]].
  apply (C11_bounded rc_net rc_c rc_l rc_Wpos rc_rlc rc_m rc_ssm rc_Ypos rc_x 0 t H1 H2 H3 0%nat t);
    [apply Nat.lt_0_succ|split; [exact Ht|apply Rle_refl]]. Qed.
(* constant input u = 1: equilibrium xs = 1 and the exact response x(t) = 1 - exp (- t) satisfy the hypotheses of (4) *)
Example C11d_example_dc : rc_u = [1] /\ rc_xs = [1] /\ rc_xu = (fun t => [1 - exp (- t)])
  /\ List.length rc_xs = ss_nst Rfops rc_c rc_l
  /\ (forall k, (k < ss_nst Rfops rc_c rc_l)%nat -> nth k (ss_xdot Rfops rc_m rc_xs rc_u) 0 = 0)
  /\ (forall k t, (k < ss_nst Rfops rc_c rc_l)%nat ->
        is_derive (fun s => nth k (rc_xu s) 0) t (nth k (ss_xdot Rfops rc_m (rc_xu t) rc_u) 0))
  /\ (forall k t, continuity_pt (fun s => nth k (rc_xu s) 0) t).
Proof. exact (conj eq_refl (conj eq_refl (conj eq_refl (conj eq_refl (conj rc_xs_eq (conj rc_xu_der rc_xu_cont)))))). Qed.
