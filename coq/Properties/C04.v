(* C04 — linearity and superposition of sources.
   "Scaling every independent source by a factor a scales every potential, voltage and current by a (and every
   power by |a|^2), and the response to several sources equals the sum of the responses with each source acting
   alone while the others are deactivated by the library's own source-zeroing operations (voltage sources become
   their internal impedance or a short, current sources their internal admittance or an open).  A network whose
   sources are all deactivated has the zero solution."
   Statements only; every proof is [exact <lemma>] (Theory/Linearity.v).  Model: Model/Network.v and
   Model/Transformers.v ([short_circuitify_voltage_sources], [open_circuitify_current_sources]).
   Vocabulary (Theory/Linearity.v):
     [scale_net a n]       n with v of every ZV element and i of every YI element multiplied by a;
     [keep_only keep n]    bind (short_circuitify_voltage_sources n keep) (fun m => open_circuitify_current_sources m keep);
     [partitions k1 k2 n]  every branch element of n with [is_active] is (by [elem_eqb]) in exactly one of k1, k2;
     [CircuitSpecId n phi ji] = CircuitSpec n phi (fun b => ji (bid b))  — flows indexed by branch id;
     [src e]               source term: opt0 (eI e) where eY e is finite, opt0 (eV e) where it is not;
     [src_sum n n1 n2]     same zero, and position by position same terminals, id and eY, with src adding. *)
From Coq Require Import List Bool ZArith NArith.
From CC Require Import Theory.Field Theory.Complex Theory.Labels Model.Network Model.Transformers Theory.Spec
  Theory.Mna Theory.MnaComplete Theory.Api Theory.Unique Theory.Linearity.
Import ListNotations.

(* ================= circuit-equation level (no matrices) ================= *)

(* Scaling all sources of n by a maps solutions to solutions. *)
Theorem C04_spec_scale : forall (K : fops) (KOK : fops_ok K) (a : K) (n : network K) (phi ji : label -> K),
  CircuitSpecId n phi ji ->
  CircuitSpecId (scale_net a n) (fun l => fmul K a (phi l)) (fun i => fmul K a (ji i)).
Proof. exact spec_scale. Qed.
Print Assumptions C04_spec_scale.

(* If the sources of n are position by position the sum of those of n1 and n2, solutions add. *)
Theorem C04_spec_add : forall (K : fops) (KOK : fops_ok K) (n n1 n2 : network K) (phi1 j1 phi2 j2 : label -> K),
  src_sum n n1 n2 -> CircuitSpecId n1 phi1 j1 -> CircuitSpecId n2 phi2 j2 ->
  CircuitSpecId n (fun l => fadd K (phi1 l) (phi2 l)) (fun i => fadd K (j1 i) (j2 i)).
Proof. exact spec_add. Qed.
Print Assumptions C04_spec_add.

(* All source terms zero: the zero potentials and flows solve the circuit equations. *)
Theorem C04_spec_zero : forall (K : fops) (KOK : fops_ok K) (n : network K),
  (forall b, In b (branches n) -> src (el b) = f0 K) -> CircuitSpecId n (fun _ => f0 K) (fun _ => f0 K).
Proof. exact spec_zero. Qed.
Print Assumptions C04_spec_zero.

(* The library's zeroing operations split the sources: two keep-lists that partition the active elements give
   two networks whose sources add up to those of the original; an empty keep-list switches every source off. *)
Theorem C04_keep_only_splits : forall (K : fops) (KOK : fops_ok K) (keep1 keep2 : list (elem K)) (n n1 n2 : network K),
  partitions keep1 keep2 n -> keep_only keep1 n = Ok n1 -> keep_only keep2 n = Ok n2 -> src_sum n n1 n2.
Proof. exact keep_only_src_sum. Qed.
Print Assumptions C04_keep_only_splits.

Theorem C04_keep_only_nil_off : forall (K : fops) (KOK : fops_ok K) (n n0 : network K),
  keep_only [] n = Ok n0 -> forall b, In b (branches n0) -> src (el b) = f0 K.
Proof. exact keep_only_nil_off. Qed.
Print Assumptions C04_keep_only_nil_off.

(* Uniqueness of the solution does not depend on the source values. *)
Theorem C04_wellposed_scale : forall (K : fops) (KOK : fops_ok K) (a : K) (n : network K),
  wf n -> WellPosed n -> WellPosed (scale_net a n).
Proof. exact wp_scale. Qed.
Print Assumptions C04_wellposed_scale.

Theorem C04_wellposed_zeroed : forall (K : fops) (KOK : fops_ok K) (n n0 : network K),
  wf n -> WellPosed n -> keep_only [] n = Ok n0 -> WellPosed n0.
Proof. exact wp_zero. Qed.
Print Assumptions C04_wellposed_zeroed.

(* ================= model level: solution vectors of the MNA system ================= *)

(* 1. Scaling.  x solves n, x' solves the scaled network: potentials and first->second flows of x' are a times
   those of x (any a, including 0). *)
Theorem C04_scale : forall (K : fops) (KOK : fops_ok K) (a : K) (n : network K) (x x' : list K),
  wf n -> WellPosed n -> solves n x -> solves (scale_net a n) x' ->
  (forall l, In l (node_labels n) -> phi_of (scale_net a n) x' l = fmul K a (phi_of n x l))
  /\ (forall b, In b (branches n) ->
        flow_of (scale_net a n) x' (scale_branch a b) = fmul K a (flow_of n x b)).
Proof. exact lin_scale. Qed.
Print Assumptions C04_scale.

(* ... hence what the API reports: potentials, voltages and currents (in the library's reporting direction) scale
   by a, powers by a * conj a = |a|^2. *)
Theorem C04_scale_reported : forall (K : fops) (KOK : fops_ok K) (a : K) (n : network K) (x x' : list K),
  wf n -> WellPosed n -> solves n x -> solves (scale_net a n) x' ->
  (forall l, In l (node_labels n) ->
     exists p, get_potential {| s_net := n; s_x := x |} l = Ok p
            /\ get_potential {| s_net := scale_net a n; s_x := x' |} l = Ok (fmul K a p))
  /\ (forall b, In b (branches n) ->
     exists v i, get_voltage {| s_net := n; s_x := x |} (bid b) = Ok v
              /\ get_current {| s_net := n; s_x := x |} (bid b) = Ok i
              /\ get_power {| s_net := n; s_x := x |} (bid b) = Ok (fmul K v (fconj K i))
              /\ get_voltage {| s_net := scale_net a n; s_x := x' |} (bid b) = Ok (fmul K a v)
              /\ get_current {| s_net := scale_net a n; s_x := x' |} (bid b) = Ok (fmul K a i)
              /\ get_power {| s_net := scale_net a n; s_x := x' |} (bid b)
                 = Ok (fmul K (fmul K a (fconj K a)) (fmul K v (fconj K i)))).
Proof. exact lin_scale_api. Qed.
Print Assumptions C04_scale_reported.

(* 2. All sources deactivated: the zero vector is a solution, and for a well-posed n every solution is zero. *)
Theorem C04_zero_is_solution : forall (K : fops) (KOK : fops_ok K) (n n0 : network K),
  wf n -> keep_only [] n = Ok n0 ->
  CircuitSpec n0 (fun _ => f0 K) (fun _ => f0 K) /\ solves n0 (vec n0 (fun _ => f0 K) (fun _ => f0 K)).
Proof. exact lin_zero_exists. Qed.
Print Assumptions C04_zero_is_solution.

Theorem C04_zero : forall (K : fops) (KOK : fops_ok K) (n n0 : network K) (x0 : list K),
  wf n -> WellPosed n -> keep_only [] n = Ok n0 -> solves n0 x0 ->
  (forall l, In l (node_labels n0) -> phi_of n0 x0 l = f0 K)
  /\ (forall b, In b (branches n0) -> flow_of n0 x0 b = f0 K).
Proof. exact lin_zero. Qed.
Print Assumptions C04_zero.

Theorem C04_zero_reported : forall (K : fops) (KOK : fops_ok K) (n n0 : network K) (x0 : list K),
  wf n -> WellPosed n -> keep_only [] n = Ok n0 -> solves n0 x0 ->
  let s0 := {| s_net := n0; s_x := x0 |} in
  (forall l, In l (node_labels n0) -> get_potential s0 l = Ok (f0 K))
  /\ (forall b, In b (branches n0) ->
        get_voltage s0 (bid b) = Ok (f0 K) /\ get_current s0 (bid b) = Ok (f0 K) /\ get_power s0 (bid b) = Ok (f0 K)).
Proof. exact lin_zero_api. Qed.
Print Assumptions C04_zero_reported.

(* 3. Superposition.  keep1, keep2 partition the active elements; n1, n2 are what the library's zeroing operations
   return; then potentials add at every node and first->second flows add branch by branch (matched by id). *)
Theorem C04_superpose : forall (K : fops) (KOK : fops_ok K) (n n1 n2 : network K) (keep1 keep2 : list (elem K))
    (x x1 x2 : list K),
  wf n -> WellPosed n -> partitions keep1 keep2 n ->
  keep_only keep1 n = Ok n1 -> keep_only keep2 n = Ok n2 ->
  solves n x -> solves n1 x1 -> solves n2 x2 ->
  (forall l, In l (node_labels n) -> phi_of n x l = fadd K (phi_of n1 x1 l) (phi_of n2 x2 l))
  /\ (forall b b1 b2, In b (branches n) -> In b1 (branches n1) -> In b2 (branches n2) ->
        bid b1 = bid b -> bid b2 = bid b ->
        flow_of n x b = fadd K (flow_of n1 x1 b1) (flow_of n2 x2 b2)).
Proof. exact lin_superpose. Qed.
Print Assumptions C04_superpose.

(* ... as reported by the API for potentials and voltages.  (Reported *currents* of a lossy source that has been
   zeroed change reference direction with its kind, so currents are stated as flows above.) *)
Theorem C04_superpose_reported : forall (K : fops) (KOK : fops_ok K) (n n1 n2 : network K)
    (keep1 keep2 : list (elem K)) (x x1 x2 : list K),
  wf n -> WellPosed n -> partitions keep1 keep2 n ->
  keep_only keep1 n = Ok n1 -> keep_only keep2 n = Ok n2 ->
  solves n x -> solves n1 x1 -> solves n2 x2 ->
  let s := {| s_net := n; s_x := x |} in
  let s1 := {| s_net := n1; s_x := x1 |} in
  let s2 := {| s_net := n2; s_x := x2 |} in
  (forall l, In l (node_labels n) ->
     exists p1 p2, get_potential s1 l = Ok p1 /\ get_potential s2 l = Ok p2 /\ get_potential s l = Ok (fadd K p1 p2))
  /\ (forall id, In id (branch_ids n) ->
     exists v1 v2, get_voltage s1 id = Ok v1 /\ get_voltage s2 id = Ok v2 /\ get_voltage s id = Ok (fadd K v1 v2)).
Proof. exact lin_superpose_api. Qed.
Print Assumptions C04_superpose_reported.

(* Any number of blocks: every active element is kept by exactly one block; the response is the sum over the
   blocks ([jv m j id] is j of the branch of m with that id). *)
Theorem C04_superpose_blocks : forall (K : fops) (KOK : fops_ok K) (n : network K) (x : list K) (bl : list (block K)),
  wf n -> WellPosed n -> solves n x ->
  (forall t, In t bl -> keep_only (bk_keep t) n = Ok (bk_net t) /\ solves (bk_net t) (bk_sol t)) ->
  (forall b, In b (branches n) -> is_active (el b) = true ->
     length (filter (fun t => in_keep (el b) (bk_keep t)) bl) = 1%nat) ->
  (forall l, In l (node_labels n) -> phi_of n x l = sumF (fun t => phi_of (bk_net t) (bk_sol t) l) bl)
  /\ (forall b, In b (branches n) ->
        flow_of n x b = sumF (fun t => jv (bk_net t) (flow_of (bk_net t) (bk_sol t)) (bid b)) bl).
Proof. exact lin_superpose_blocks. Qed.
Print Assumptions C04_superpose_blocks.

(* ================= non-vacuity: a concrete network over the Gaussian rationals ================= *)
(* ideal voltage source V, linear voltage source L, ideal current source I, linear current source J,
   a resistor, an impedance and an admittance, on nodes '0' (reference) .. '3' *)
Definition L4 (z : Z) : label := [Z.to_N z].
Definition srcV : elem CQ := voltage_source (L4 86) (cq 5 1 1 1) (cq 0 1 0 1).
Definition srcL : elem CQ := voltage_source (L4 76) (cq 7 1 0 1) (cq 2 1 1 1).
Definition srcI : elem CQ := current_source (L4 73) (cq (-2) 1 1 2) (cq 0 1 0 1).
Definition srcJ : elem CQ := current_source (L4 74) (cq 1 1 (-1) 3) (cq 1 2 0 1).
Definition c04_net : network CQ :=
  {| zero := L4 48;
     branches := [ Build_branch (L4 49) (L4 48) srcV;
                   Build_branch (L4 49) (L4 50) (resistor (L4 82) (cq 2 1 0 1));
                   Build_branch (L4 50) (L4 51) srcL;
                   Build_branch (L4 51) (L4 48) (impedance (L4 90) (cq 3 1 4 1));
                   Build_branch (L4 48) (L4 50) srcI;
                   Build_branch (L4 51) (L4 48) srcJ;
                   Build_branch (L4 50) (L4 48) (admittance (L4 89) (cq 1 2 (-1) 4)) ] |}.
Definition c04_a : CQ := cq 2 1 (-3) 1.
Definition keepA : list (elem CQ) := [srcV; srcJ].
Definition keepB : list (elem CQ) := [srcL; srcI; resistor (L4 82) (cq 2 1 0 1)].   (* passive elements may be listed *)

Example C04_example_wf : wfb c04_net = true.
Proof. vm_compute. reflexivity. Qed.
Example C04_example_solved : solvedb c04_net = true.
Proof. vm_compute. reflexivity. Qed.
Example C04_example_unique : uniqb c04_net = true.
Proof. vm_compute. reflexivity. Qed.
Example C04_example_wellposed : WellPosed c04_net.
Proof. exact (wellposed_check CQ CQ_ok c04_net C04_example_wf C04_example_solved C04_example_unique). Qed.

(* all four sources are active; in the library's classification V is only a voltage source, I only a current
   source, the lossy L and J are both *)
Example C04_example_classes :
  map (fun e => (is_voltage_source e, is_current_source e)) [srcV; srcL; srcI; srcJ]
  = [(true, false); (true, true); (false, true); (true, true)].
Proof. vm_compute. reflexivity. Qed.

(* the decompositions the library computes, and that they (and the scaled network) are solved *)
Example C04_example_partition : partitionsb keepA keepB c04_net = true.
Proof. vm_compute. reflexivity. Qed.
Example C04_example_keepA : is_ok (keep_only keepA c04_net) = true.
Proof. vm_compute. reflexivity. Qed.
Example C04_example_keepB : is_ok (keep_only keepB c04_net) = true.
Proof. vm_compute. reflexivity. Qed.
Example C04_example_keep0 : is_ok (keep_only [] c04_net) = true.
Proof. vm_compute. reflexivity. Qed.
Example C04_example_solvedA : wfb (kp_net keepA c04_net) = true /\ solvedb (kp_net keepA c04_net) = true.
Proof. split; vm_compute; reflexivity. Qed.
Example C04_example_solvedB : wfb (kp_net keepB c04_net) = true /\ solvedb (kp_net keepB c04_net) = true.
Proof. split; vm_compute; reflexivity. Qed.
Example C04_example_solved0 : wfb (kp_net [] c04_net) = true /\ solvedb (kp_net [] c04_net) = true.
Proof. split; vm_compute; reflexivity. Qed.
Example C04_example_solved_scaled : wfb (scale_net c04_a c04_net) = true /\ solvedb (scale_net c04_a c04_net) = true.
Proof. split; vm_compute; reflexivity. Qed.

(* what became of the four sources in the two halves (kinds: 1 impedance, 2 admittance, 6/7 sources); the lossy
   current source J counts as a voltage source (V = I/Y) and is therefore zeroed to its impedance 1/Y *)
Example C04_example_kinds :
  map (fun b => ekind (el b)) (branches (kp_net keepA c04_net)) = [6; 3; 1; 1; 2; 7; 2]%N
  /\ map (fun b => ekind (el b)) (branches (kp_net keepB c04_net)) = [1; 3; 6; 1; 7; 1; 2]%N
  /\ map (fun b => ekind (el b)) (branches (kp_net [] c04_net)) = [1; 3; 1; 1; 2; 1; 2]%N.
Proof. vm_compute. repeat split. Qed.

(* the hypotheses of the circuit-equation level theorems *)
Example C04_example_src_sum : src_sum c04_net (kp_net keepA c04_net) (kp_net keepB c04_net).
Proof. exact (keep_only_src_sum CQ CQ_ok keepA keepB c04_net _ _
          (partitionsb_ok CQ keepA keepB c04_net C04_example_partition)
          (keep_only_is_ok CQ keepA c04_net C04_example_keepA) (keep_only_is_ok CQ keepB c04_net C04_example_keepB)). Qed.
Example C04_example_spec_id : exists phi1 j1 phi2 j2,
  CircuitSpecId (kp_net keepA c04_net) phi1 j1 /\ CircuitSpecId (kp_net keepB c04_net) phi2 j2.
Proof.
  destruct (solvedb_ok CQ_ok _ (proj1 C04_example_solvedA) (proj2 C04_example_solvedA)) as [s1 [_ [W1 [_ C1]]]].
  destruct (solvedb_ok CQ_ok _ (proj1 C04_example_solvedB) (proj2 C04_example_solvedB)) as [s2 [_ [W2 [_ C2]]]].
  eexists. eexists. eexists. eexists. split; [exact (spec_to_id CQ _ _ _ W1 C1)|exact (spec_to_id CQ _ _ _ W2 C2)]. Qed.

(* the hypotheses of C04_scale / C04_scale_reported *)
Example C04_example_scale_hyps : exists x x',
  wf c04_net /\ WellPosed c04_net /\ solves c04_net x /\ solves (scale_net c04_a c04_net) x'.
Proof.
  destruct (solvedb_ok CQ_ok _ C04_example_wf C04_example_solved) as [s [_ [WF [S _]]]].
  destruct (solvedb_ok CQ_ok _ (proj1 C04_example_solved_scaled) (proj2 C04_example_solved_scaled)) as [s' [_ [_ [S' _]]]].
  exists (s_x s), (s_x s'). split; [exact WF|]. split; [exact C04_example_wellposed|]. split; assumption. Qed.

(* the hypotheses of C04_zero / C04_zero_reported *)
Example C04_example_zero_hyps : exists n0 x0,
  wf c04_net /\ WellPosed c04_net /\ keep_only [] c04_net = Ok n0 /\ solves n0 x0.
Proof.
  destruct (solvedb_ok CQ_ok _ C04_example_wf C04_example_solved) as [s [_ [WF _]]].
  destruct (solvedb_ok CQ_ok _ (proj1 C04_example_solved0) (proj2 C04_example_solved0)) as [s0 [_ [_ [S0 _]]]].
  exists (kp_net [] c04_net), (s_x s0). split; [exact WF|]. split; [exact C04_example_wellposed|].
  split; [exact (keep_only_is_ok CQ [] c04_net C04_example_keep0)|exact S0]. Qed.

(* the hypotheses of C04_superpose / C04_superpose_reported *)
Example C04_example_superpose_hyps : exists n1 n2 x x1 x2,
  wf c04_net /\ WellPosed c04_net /\ partitions keepA keepB c04_net
  /\ keep_only keepA c04_net = Ok n1 /\ keep_only keepB c04_net = Ok n2
  /\ solves c04_net x /\ solves n1 x1 /\ solves n2 x2.
Proof.
  destruct (solvedb_ok CQ_ok _ C04_example_wf C04_example_solved) as [s [_ [WF [S _]]]].
  destruct (solvedb_ok CQ_ok _ (proj1 C04_example_solvedA) (proj2 C04_example_solvedA)) as [s1 [_ [_ [S1 _]]]].
  destruct (solvedb_ok CQ_ok _ (proj1 C04_example_solvedB) (proj2 C04_example_solvedB)) as [s2 [_ [_ [S2 _]]]].
  exists (kp_net keepA c04_net), (kp_net keepB c04_net), (s_x s), (s_x s1), (s_x s2).
  split; [exact WF|]. split; [exact C04_example_wellposed|].
  split; [exact (partitionsb_ok CQ keepA keepB c04_net C04_example_partition)|].
  split; [exact (keep_only_is_ok CQ keepA c04_net C04_example_keepA)|].
  split; [exact (keep_only_is_ok CQ keepB c04_net C04_example_keepB)|].
  split; [exact S|]. split; assumption. Qed.

(* the hypotheses of C04_superpose_blocks with one block per source *)
Definition c04_keeps : list (list (elem CQ)) := [[srcV]; [srcL]; [srcI]; [srcJ]].
Example C04_example_blocks_solved :
  forallb (fun k => is_ok (keep_only k c04_net) && wfb (kp_net k c04_net) && solvedb (kp_net k c04_net)) c04_keeps = true.
Proof. vm_compute. reflexivity. Qed.
Example C04_example_blocks_hyps : exists x (bl : list (block CQ)),
  map bk_keep bl = c04_keeps
  /\ wf c04_net /\ WellPosed c04_net /\ solves c04_net x
  /\ (forall t, In t bl -> keep_only (bk_keep t) c04_net = Ok (bk_net t) /\ solves (bk_net t) (bk_sol t))
  /\ (forall b, In b (branches c04_net) -> is_active (el b) = true ->
        length (filter (fun t => in_keep (el b) (bk_keep t)) bl) = 1%nat).
Proof.
  destruct (solvedb_ok CQ_ok _ C04_example_wf C04_example_solved) as [s [_ [WF [S _]]]].
  assert (H : forall k, In k c04_keeps -> exists xk,
             keep_only k c04_net = Ok (kp_net k c04_net) /\ solves (kp_net k c04_net) xk).
  { intros k Hk. pose proof C04_example_blocks_solved as F. rewrite forallb_forall in F. specialize (F k Hk).
    apply andb_true_iff in F. destruct F as [F F3]. apply andb_true_iff in F. destruct F as [F1 F2].
    destruct (solvedb_ok CQ_ok _ F2 F3) as [sk [_ [_ [Sk _]]]]. exists (s_x sk).
    split; [exact (keep_only_is_ok CQ k c04_net F1)|exact Sk]. }
  destruct (H [srcV]) as [x1 [K1 S1]]; [simpl; tauto|].
  destruct (H [srcL]) as [x2 [K2 S2]]; [simpl; tauto|].
  destruct (H [srcI]) as [x3 [K3 S3]]; [simpl; tauto|].
  destruct (H [srcJ]) as [x4 [K4 S4]]; [simpl; tauto|].
  exists (s_x s), [ Build_block [srcV] (kp_net [srcV] c04_net) x1; Build_block [srcL] (kp_net [srcL] c04_net) x2;
                    Build_block [srcI] (kp_net [srcI] c04_net) x3; Build_block [srcJ] (kp_net [srcJ] c04_net) x4 ].
  split; [reflexivity|]. split; [exact WF|]. split; [exact C04_example_wellposed|]. split; [exact S|]. split.
  - intros t [<-|[<-|[<-|[<-|[]]]]]; simpl; split; assumption.
  - apply blocksb_ok. vm_compute. reflexivity. Qed.
