(* C10 (continued) — Circuit/state_space_model.py as REGENERATED on every run (Gen/WrappersGen.v, produced by tools/gen_wrappers.py
   from the source) is the hand-written circuit-level model Model/CircuitWrappers.v: transform_circuit at w = 0 (Model/Circuit.v),
   the capacitance / inductance dictionaries {id: float(value['C' | 'L'])} of the components of type 'capacitor' / 'inductance'
   in the order of the component list, [state_space_model] of Model/StateSpace.v (nodal_state_space_model, then the rows
   c_row_for_potential / c_row_voltage / c_row_current for potential_nodes / voltage_ids / current_ids stacked in this order,
   then the d_row_* rows likewise), and the constructor StateSpaceModel(A, B, C, D) — regenerated too, from the dataclass of
   SignalProcessing/state_space_model.py, with the shape checks of its __post_init__, which never fire on a computed model.
   The regenerated definition composes the regenerated transform_circuit (Gen/CircuitGen.v, C02c) and the regenerated
   nodal_state_space_model and row methods (Gen/MatrixGen.v, C10c); an edit to state_space_model.py changes Gen/WrappersGen.v and
   breaks one of the equalities below (or is refused by the translator).
   The network of a circuit lives in C = Cx R and the model of Model/StateSpace.v, generic in its field, is used at C with the
   real component values embedded ([embed_values]; on the real w = 0 network all entries stay real, see C10d_example_runner).
   Statements only; proofs are in Theory/WrappersGenThm.v. *)
From Coq Require Import List Bool ZArith NArith String QArith Qcanon.
From CC Require Import Theory.Field Theory.Complex Theory.Labels Model.Network Model.Port Model.StateSpace Model.Circuit
  Model.CircuitPrims Model.RunCircuit Model.RunStateSpace Theory.CircuitThm Theory.TransformersGen Model.CircuitGenPrims
  Model.MatrixPrims Model.WrappersPrims Gen.CircuitGen Gen.MatrixGen Theory.CircuitGenThm Model.CircuitWrappers Gen.WrappersGen
  Theory.WrappersGenThm Properties.C07.
Import ListNotations.
Local Open Scope string_scope.

(* ================= the hand-written model, in words ================= *)
Theorem C10d_model_unfolded : forall (R : fops) leb rnd ofZ (wres : R) (cs : list (comp R)) (pots vids cids : list label),
  circuit_state_space_model R leb rnd ofZ wres cs pots vids cids
  = bind (transform_circuit R leb rnd ofZ cs (f0 R) wres) (fun n =>
    bind (mapM (fun c => bind (vget R c "C") (fun v => Ok (cid c, v))) (filter (fun c => ckind_eqb (ck c) KCapacitor) cs)) (fun cv =>
    bind (mapM (fun c => bind (vget R c "L") (fun v => Ok (cid c, v))) (filter (fun c => ckind_eqb (ck c) KInductance) cs)) (fun lv =>
    state_space_model (Cx R) n (map (fun kv => (fst kv, cre R (snd kv))) cv) (map (fun kv => (fst kv, cre R (snd kv))) lv)
      pots vids cids))).
Proof. reflexivity. Qed.
Print Assumptions C10d_model_unfolded.

(* the model a returned Python object carries: the rows of its four arrays *)
Theorem C10d_ssm_of_sp_unfolded : forall (K : fops) (s : StateSpaceModel K),
  ssm_of_sp K s = {| ss_A := a_rows (StateSpaceModel_A s); ss_B := a_rows (StateSpaceModel_B s);
                     ss_C := a_rows (StateSpaceModel_C s); ss_D := a_rows (StateSpaceModel_D s) |}.
Proof. reflexivity. Qed.
Print Assumptions C10d_ssm_of_sp_unfolded.

(* ================= state_space_model(circuit, potential_nodes, voltage_ids, current_ids) ================= *)
Definition C10d_state_space_model_full : Prop :=
  forall (R : fops) leb rnd ofZ (wres : R), fops_ok (Cx R) ->
  forall (cs : list (comp R)) (circ : Circuit R) (pots vids cids : list label),
    g_Circuit_post_init R cs = Ok circ ->
    match g_state_space_model R leb rnd ofZ wres circ pots vids cids with Ok s => Ok (ssm_of_sp (Cx R) s) | Err e => Err e end
    = circuit_state_space_model R leb rnd ofZ wres cs pots vids cids.
(* FALSE for the present hand model, for the reason recorded in C02c_transform_circuit_full: a lamp / resistive load with
   fewer than two terminals raises IndexError in the code where the model reports the element's exception first. *)
Theorem C10d_state_space_model_partial : forall (R : fops) leb rnd ofZ (wres : R), fops_ok (Cx R) ->
  forall (cs : list (comp R)) (circ : Circuit R) (pots vids cids : list label),
  g_Circuit_post_init R cs = Ok circ ->
  (forall c, In c cs -> ck c = KLamp \/ ck c = KResLoad -> (2 <= List.length (cnodes c))%nat) ->
  match g_state_space_model R leb rnd ofZ wres circ pots vids cids with Ok s => Ok (ssm_of_sp (Cx R) s) | Err e => Err e end
  = circuit_state_space_model R leb rnd ofZ wres cs pots vids cids.
Proof. exact g_state_space_model_eq. Qed.
Print Assumptions C10d_state_space_model_partial.
Theorem C10d_state_space_model_outcome : forall (R : fops) leb rnd ofZ (wres : R), fops_ok (Cx R) ->
  forall (cs : list (comp R)) (circ : Circuit R) (pots vids cids : list label),
  g_Circuit_post_init R cs = Ok circ ->
  match match g_state_space_model R leb rnd ofZ wres circ pots vids cids with Ok s => Ok (ssm_of_sp (Cx R) s) | Err e => Err e end,
        circuit_state_space_model R leb rnd ofZ wres cs pots vids cids with
  | Ok m, Ok m' => m = m' | Err _, Err _ => True | _, _ => False end.
Proof. exact g_state_space_model_outcome. Qed.
Print Assumptions C10d_state_space_model_outcome.
Theorem C10d_state_space_model_full_refuted : ~ C10d_state_space_model_full.
Proof. exact (fun F => state_space_model_full_refuted (fun circ => F Qcops Qc_leb Qc_round Qc_ofZ bad_wres CQ_ok bad_cs circ _ _ _)). Qed.
Print Assumptions C10d_state_space_model_full_refuted.

(* the same with the shapes of the numpy arrays: A and C have n_states = len(c_values) + len(l_values) columns, B and D
   n_inputs = the number of sources that are no inductance *)
Theorem C10d_state_space_model_arrays : forall (R : fops) leb rnd ofZ (wres : R), fops_ok (Cx R) ->
  forall (cs : list (comp R)) (circ : Circuit R) (pots vids cids : list label),
  g_Circuit_post_init R cs = Ok circ ->
  (forall c, In c cs -> ck c = KLamp \/ ck c = KResLoad -> (2 <= List.length (cnodes c))%nat) ->
  g_state_space_model R leb rnd ofZ wres circ pots vids cids
  = bind (transform_circuit R leb rnd ofZ cs (f0 R) wres) (fun n =>
    bind (component_values R KCapacitor "C" cs) (fun cv =>
    bind (component_values R KInductance "L" cs) (fun lv =>
    bind (state_space_model (Cx R) n (embed_values R cv) (embed_values R lv) pots vids cids) (fun m =>
    Ok {| StateSpaceModel_A := {| a_cols := ss_nst (Cx R) (embed_values R cv) (embed_values R lv); a_rows := ss_A m |};
          StateSpaceModel_B := {| a_cols := ss_nS (Cx R) n (embed_values R lv); a_rows := ss_B m |};
          StateSpaceModel_C := {| a_cols := ss_nst (Cx R) (embed_values R cv) (embed_values R lv); a_rows := ss_C m |};
          StateSpaceModel_D := {| a_cols := ss_nS (Cx R) n (embed_values R lv); a_rows := ss_D m |} |})))).
Proof. exact g_state_space_model_arrays. Qed.
Print Assumptions C10d_state_space_model_arrays.

(* whatever the circuit: a returned object has passed the checks of StateSpaceModel.__post_init__ *)
Theorem C10d_state_space_model_shapes : forall (R : fops) leb rnd ofZ (wres : R)
  (circ : Circuit R) (pots vids cids : list label) (s : StateSpaceModel (Cx R)),
  g_state_space_model R leb rnd ofZ wres circ pots vids cids = Ok s ->
  np_shape0 (StateSpaceModel_A s) = np_shape1 (StateSpaceModel_A s)
  /\ np_shape0 (StateSpaceModel_B s) = np_shape0 (StateSpaceModel_A s)
  /\ np_shape1 (StateSpaceModel_C s) = np_shape0 (StateSpaceModel_A s)
  /\ np_shape0 (StateSpaceModel_D s) = np_shape0 (StateSpaceModel_C s)
  /\ np_shape1 (StateSpaceModel_D s) = np_shape1 (StateSpaceModel_B s).
Proof. exact g_state_space_model_shapes. Qed.
Print Assumptions C10d_state_space_model_shapes.

(* the regenerated constructor: the four fields when the five checks pass, ValueError otherwise *)
Theorem C10d_constructor : forall (K : fops) (A B C D : arr2 K),
  g_StateSpaceModel_new K A B C D
  = if Nat.eqb (np_shape0 A) (np_shape1 A) && Nat.eqb (np_shape0 B) (np_shape0 A) && Nat.eqb (np_shape1 C) (np_shape0 A)
       && Nat.eqb (np_shape0 D) (np_shape0 C) && Nat.eqb (np_shape1 D) (np_shape1 B)
    then Ok {| StateSpaceModel_A := A; StateSpaceModel_B := B; StateSpaceModel_C := C; StateSpaceModel_D := D |}
    else Err EValue.
Proof. exact StateSpaceModel_new_spec. Qed.
Print Assumptions C10d_constructor.

(* the defaults of potential_nodes, voltage_ids, current_ids: [] *)
Theorem C10d_defaults :
  g_state_space_model__default_potential_nodes = [] /\ g_state_space_model__default_voltage_ids = []
  /\ g_state_space_model__default_current_ids = [].
Proof. exact state_space_model_defaults. Qed.
Print Assumptions C10d_defaults.

(* ================= non-vacuity: a series RLC circuit over the rationals ================= *)
(* Vs = 1 V from 1 to the reference node, R1 = 2 from 1 to 2, L1 = 1 from 2 to 3, C1 = 1/2 and R2 = 5 from 3 to the reference
   node; a ground component listed last.  States x = (v_C1, i_L1):  C v' = i - v/R2,  L i' = Vs - R1 i - v, i.e.
   A = [[-2/5, 2], [-1, -2]], B = [[0], [1]].  Outputs: the potential of node 3 (= v), the voltage of R1 (= 2 i), the current of
   R2 (= v/5): C = [[1, 0], [0, 2], [1/5, 0]], D = 0. *)
Definition ex_ss : list qcomp := [
  mkc KDcV "Vs" ["1"; "0"] [("V", q 1 1); ("R", q 0 1); ("w", q 0 1); ("phi", q 0 1)];
  mkc KResistor "R1" ["1"; "2"] [("R", q 2 1)];
  mkc KInductance "L1" ["2"; "3"] [("L", q 1 1)];
  mkc KCapacitor "C1" ["3"; "0"] [("C", q 1 2)];
  mkc KResistor "R2" ["3"; "0"] [("R", q 5 1)];
  mkc KGround "gnd" ["0"] [] ].
Definition re (a : Z) (b : positive) : CQ := cq a b 0 1.
Definition arr_is (M : arr2 CQ) (cols : nat) (rows : list (list CQ)) : bool := Nat.eqb (a_cols M) cols && mat_eqb (a_rows M) rows.

(* the hypotheses of C10d_state_space_model_partial hold of it (the regenerated constructor accepts it; it has no load) *)
Example C10d_example_hyp :
  okb (g_Circuit_post_init Qcops ex_ss) (fun circ => label_eqb (Circuit_ground_node Qcops circ) (lbl "0")) = true
  /\ (forall c, In c ex_ss -> ck c = KLamp \/ ck c = KResLoad -> (2 <= List.length (cnodes c))%nat).
Proof. split; [|apply (loads_okb_ok Qcops)]; vm_compute; reflexivity. Qed.
(* the regenerated state_space_model returns the expected A, B and the three stacked output rows *)
Example C10d_example_runs :
  okb (g_Circuit_post_init Qcops ex_ss) (fun circ =>
  okb (g_state_space_model Qcops Qc_leb Qc_round Qc_ofZ ex_wres circ [lbl "3"] [lbl "R1"] [lbl "R2"]) (fun s =>
    arr_is (StateSpaceModel_A s) 2 [[re (-2) 5; re 2 1]; [re (-1) 1; re (-2) 1]]
    && arr_is (StateSpaceModel_B s) 1 [[re 0 1]; [re 1 1]]
    && arr_is (StateSpaceModel_C s) 2 [[re 1 1; re 0 1]; [re 0 1; re 2 1]; [re 1 5; re 0 1]]
    && arr_is (StateSpaceModel_D s) 1 [[re 0 1]; [re 0 1]; [re 0 1]])) = true.
Proof. vm_compute. reflexivity. Qed.
(* the four kinds of current rows (capacitor: C * row of A; inductance = ideal source of the w = 0 network; source; resistor),
   stacked after two potentials (the reference node gives the zero row; v_2 = Vs - R1 i: C row (0, -2), D row (1));
   with the default id lists C and D have no row *)
Example C10d_example_rows :
  okb (g_Circuit_post_init Qcops ex_ss) (fun circ =>
  okb (g_state_space_model Qcops Qc_leb Qc_round Qc_ofZ ex_wres circ [lbl "0"; lbl "2"] [] [lbl "C1"; lbl "L1"; lbl "Vs"; lbl "R1"]) (fun s =>
  okb (g_state_space_model Qcops Qc_leb Qc_round Qc_ofZ ex_wres circ g_state_space_model__default_potential_nodes
         g_state_space_model__default_voltage_ids g_state_space_model__default_current_ids) (fun s0 =>
    arr_is (StateSpaceModel_C s) 2 [[re 0 1; re 0 1]; [re 0 1; re (-2) 1]; [re (-1) 5; re 1 1]; [re 0 1; re 1 1]; [re 0 1; re (-1) 1]; [re 0 1; re 1 1]]
    && arr_is (StateSpaceModel_D s) 1 [[re 0 1]; [re 1 1]; [re 0 1]; [re 0 1]; [re 0 1]; [re 0 1]]
    && arr_is (StateSpaceModel_C s0) 2 [] && arr_is (StateSpaceModel_D s0) 1 []
    && arr_is (StateSpaceModel_A s0) 2 [[re (-2) 5; re 2 1]; [re (-1) 1; re (-2) 1]]))) = true.
Proof. vm_compute. reflexivity. Qed.
(* ... and the hand-written model returns the same rows (an instance of C10d_state_space_model_partial) *)
Example C10d_example_model :
  okb (circuit_state_space_model Qcops Qc_leb Qc_round Qc_ofZ ex_wres ex_ss [lbl "3"] [lbl "R1"] [lbl "R2"]) (fun m =>
    mat_eqb (ss_A m) [[re (-2) 5; re 2 1]; [re (-1) 1; re (-2) 1]] && mat_eqb (ss_B m) [[re 0 1]; [re 1 1]]
    && mat_eqb (ss_C m) [[re 1 1; re 0 1]; [re 0 1; re 2 1]; [re 1 5; re 0 1]]
    && mat_eqb (ss_D m) [[re 0 1]; [re 0 1]; [re 0 1]]) = true.
Proof. vm_compute. reflexivity. Qed.
(* the composition the C10 runner evaluates (Model/RunStateSpace.v: the real projection [re_network] of the w = 0 network and the
   model over Qc with the real dictionaries) gives the real parts of the circuit-level model, whose imaginary parts are 0 *)
Definition embed_mat (M : list (list Qc)) : list (list CQ) := map (map (fun x => (x, 0%Qc))) M.
Example C10d_example_runner :
  okb (q_transform ex_ss (q 0 1) ex_wres) (fun n =>
  match re_network n with
  | None => false
  | Some nr =>
      okb (state_space_model Qcops nr [(lbl "C1", q 1 2)] [(lbl "L1", q 1 1)] [lbl "3"] [lbl "R1"] [lbl "R2"]) (fun mr =>
      okb (circuit_state_space_model Qcops Qc_leb Qc_round Qc_ofZ ex_wres ex_ss [lbl "3"] [lbl "R1"] [lbl "R2"]) (fun mc =>
        mat_eqb (ss_A mc) (embed_mat (ss_A mr)) && mat_eqb (ss_B mc) (embed_mat (ss_B mr))
        && mat_eqb (ss_C mc) (embed_mat (ss_C mr)) && mat_eqb (ss_D mc) (embed_mat (ss_D mr))))
  end) = true.
Proof. vm_compute. reflexivity. Qed.
(* the exceptions: a capacitor without the key 'C' (KeyError from the dictionary), an unknown voltage id (KeyError from the row),
   a capacitor in parallel with the source (singular inversion: LinAlgError) *)
Example C10d_example_errors :
  match bind (g_Circuit_post_init Qcops (mkc KCapacitor "C2" ["3"; "0"] [("X", q 1 1)] :: ex_ss)) (fun circ =>
          g_state_space_model Qcops Qc_leb Qc_round Qc_ofZ ex_wres circ [] [] []) with Err EKeyError => true | _ => false end = true
  /\ match bind (g_Circuit_post_init Qcops ex_ss) (fun circ =>
          g_state_space_model Qcops Qc_leb Qc_round Qc_ofZ ex_wres circ [] [lbl "nope"] []) with Err EKeyError => true | _ => false end = true
  /\ match bind (g_Circuit_post_init Qcops (mkc KCapacitor "C2" ["1"; "0"] [("C", q 1 1)] :: ex_ss)) (fun circ =>
          g_state_space_model Qcops Qc_leb Qc_round Qc_ofZ ex_wres circ [] [] []) with Err ESingular => true | _ => false end = true.
Proof. repeat split; vm_compute; reflexivity. Qed.
