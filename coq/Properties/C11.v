(* Properties/C11.v — passivity of the state matrix.  Model: Model/StateSpace.v; proofs: Theory/StateSpaceThm.v
   (Lyapunov identity through Tellegen's theorem, generic field) and Theory/StateSpaceLyap.v (ordered field).
   Hypotheses as in Properties/C10.v, plus: [le] an order making R an ordered field (Theory/Ordered.v: ofield_ok);
   "positive resistances": every branch that is neither capacitor, inductor nor source ([resb]) has admittance >= 0;
   "positive capacitances and inductances": W_k >= 0 together with lam_k <> 0. *)
From Coq Require Import List Bool ZArith NArith QArith Qcanon.
From CC Require Import Theory.Field Theory.Complex Model.Network Model.StateSpace Model.Circuit Theory.Spec Theory.Api
  Theory.Matrix Theory.Ordered Theory.StateSpaceThm Theory.StateSpaceLyap.
Import ListNotations.
Local Open Scope nat_scope.

(* energy balance of the autonomous circuit, any field:  x^T W (A x) = - (power dissipated in the resistive branches),
   W = diag(C..., L...), the branch voltages being those the model reports for the state x and zero input *)
Theorem C11_lyapunov_identity : forall (K : fops) (KOK : fops_ok K) (n : network K) (cvals lvals : list (label * K)),
  (forall k, k < ss_nst K cvals lvals -> nth k (lam K cvals lvals) (f0 K) <> f0 K) ->
  rlc_dc K n cvals lvals ->
  forall m : ssm K, state_space_matrices K n cvals lvals = Ok m ->
  forall x : list K, length x = ss_nst K cvals lvals ->
  sumF (fun k => fmul K (fmul K (nth k (Wd K cvals lvals) (f0 K)) (nth k x (f0 K))) (nth k (mat_vec (ss_A m) x) (f0 K)))
       (seq 0 (ss_nst K cvals lvals))
  = fopp K (sumF (eR K n cvals lvals m x) (branches n)).
Proof. exact lyapunov_identity. Qed.
Print Assumptions C11_lyapunov_identity.

(* C11 "W A + A^T W is negative semidefinite" *)
Theorem C11_lyapunov : forall (R : fops) (ROK : fops_ok R) (le : R -> R -> Prop), ofield_ok R le ->
  forall (n : network R) (cvals lvals : list (label * R)),
  (forall k, k < ss_nst R cvals lvals -> nth k (lam R cvals lvals) (f0 R) <> f0 R) ->
  rlc_dc R n cvals lvals ->
  forall m : ssm R, state_space_matrices R n cvals lvals = Ok m ->
  (forall b, In b (branches n) -> resb R cvals b = true -> le (f0 R) (finY b)) ->
  forall x : list R, length x = ss_nst R cvals lvals ->
  le (dot x (mat_vec (mat_add (mat_mul (ss_nst R cvals lvals) (diag R (Wd R cvals lvals)) (ss_A m))
                              (mat_mul (ss_nst R cvals lvals) (transpose (ss_nst R cvals lvals) (ss_A m)) (diag R (Wd R cvals lvals))))
                     x))
     (f0 R).
Proof. exact lyapunov. Qed.
Print Assumptions C11_lyapunov.

(* C11 "hence every natural frequency has a non-positive real part": an eigenvalue alpha + j beta of A with
   eigenvector a + j b, written over the reals *)
Theorem C11_natural_frequencies : forall (R : fops) (ROK : fops_ok R) (le : R -> R -> Prop), ofield_ok R le ->
  forall (n : network R) (cvals lvals : list (label * R)),
  (forall k, k < ss_nst R cvals lvals -> nth k (lam R cvals lvals) (f0 R) <> f0 R) ->
  rlc_dc R n cvals lvals ->
  forall m : ssm R, state_space_matrices R n cvals lvals = Ok m ->
  (forall b, In b (branches n) -> resb R cvals b = true -> le (f0 R) (finY b)) ->
  (forall k, k < ss_nst R cvals lvals -> le (f0 R) (nth k (Wd R cvals lvals) (f0 R))) ->
  forall (a b : list R) (alpha beta : R), length a = ss_nst R cvals lvals -> length b = ss_nst R cvals lvals ->
  (forall k, k < ss_nst R cvals lvals ->
     nth k (mat_vec (ss_A m) a) (f0 R) = fsub R (fmul R alpha (nth k a (f0 R))) (fmul R beta (nth k b (f0 R)))) ->
  (forall k, k < ss_nst R cvals lvals ->
     nth k (mat_vec (ss_A m) b) (f0 R) = fadd R (fmul R beta (nth k a (f0 R))) (fmul R alpha (nth k b (f0 R)))) ->
  (exists k, k < ss_nst R cvals lvals /\ (nth k a (f0 R) <> f0 R \/ nth k b (f0 R) <> f0 R)) ->
  le alpha (f0 R).
Proof. exact natural_frequency_nonpos. Qed.
Print Assumptions C11_natural_frequencies.

(* ---- non-vacuity over the ordered field Qc: the circuit of Properties/C10.v ---- *)
From Coq Require Import String.
Local Open Scope string_scope.
Definition q (a : Z) (b : positive) : Qcops := qc a b.
Definition ex_net : network Qcops :=
  {| zero := lbl "0";
     branches := [ Build_branch (lbl "2") (lbl "3") (impedance (lbl "Lb") (q 0 1));
                   Build_branch (lbl "1") (lbl "2") (resistor (lbl "R1") (q 2 1));
                   Build_branch (lbl "0") (lbl "3") (current_source (lbl "M1") (q 1 1) (q 0 1));
                   Build_branch (lbl "2") (lbl "0") (impedance (lbl "La") (q 0 1));
                   Build_branch (lbl "3") (lbl "0") (admittance (lbl "C1") (q 0 1));
                   Build_branch (lbl "3") (lbl "0") (resistor (lbl "R2") (q 5 1));
                   Build_branch (lbl "1") (lbl "0") (voltage_source (lbl "Vs") (q 1 1) (q 0 1)) ] |}.
Definition ex_c : list (label * Qcops) := [(lbl "C1", q 1 2)].
Definition ex_l : list (label * Qcops) := [(lbl "Lb", q 2 1); (lbl "La", q 3 1)].

Example C11_example_order : ofield_ok Qcops Qcle.
Proof. exact Qc_ofield_ok. Qed.
Example C11_example_hyp : rlc_dcb ex_net ex_c ex_l = true /\ lam_nzb ex_c ex_l = true.
Proof. vm_compute. split; reflexivity. Qed.
Example C11_example_resistances : forall b, In b (branches ex_net) -> resb Qcops ex_c b = true -> Qcle (f0 Qcops) (finY b).
Proof. intros b Hb _. simpl in Hb.
  repeat (destruct Hb as [<-|Hb]; [vm_compute; intro H; discriminate H|]). destruct Hb. Qed.
Example C11_example_values : forall k, k < ss_nst Qcops ex_c ex_l -> Qcle (f0 Qcops) (nth k (Wd Qcops ex_c ex_l) (f0 Qcops)).
Proof. intros k Hk. change (ss_nst Qcops ex_c ex_l) with 3 in Hk.
  destruct k as [|[|[|k]]]; [vm_compute; intro H; discriminate H ..|]. exfalso. apply (Nat.lt_irrefl 3).
  apply (Nat.le_lt_trans _ (S (S (S k)))); [repeat apply le_n_S; apply Nat.le_0_l|exact Hk]. Qed.
(* observer: at x = (1, 2, 3) the quadratic form x^T (W A + A^T W) x is strictly negative *)
Example C11_example_form :
  match state_space_matrices Qcops ex_net ex_c ex_l with
  | Ok m => let x := [q 1 1; q 2 1; q 3 1] in
            let f := dot x (mat_vec (LyapM Qcops ex_c ex_l m) x) in
            Qle_bool (this f) 0 && negb (Qc_eq_bool f (q 0 1))
  | Err _ => false
  end = true.
Proof. vm_compute. reflexivity. Qed.
