(* C08 (continued) — Bessel's inequality and the EXACT mean-square error of the truncated Fourier series.
   Statements only; every proof is [exact <lemma>] (proofs in Theory/FourierBessel.v).
   This is the part of the clause "the waveform equals its series in the mean-square sense, energy given by Parseval"
   ([C08_parseval_full] of Properties/C08.v, still only STATED) that needs no summation of an infinite series:
     with S_N(t) = amplitude 0 + sum_{n=1..N} amplitude n * cos (n w0 t + phase n)   ([partial_sum], w0 = 2 pi / T),
       int_0^T (f - S_N)^2 = int_0^T f^2 - T * (amplitude(0)^2 + sum_{n=1..N} amplitude(n)^2 / 2)          (error identity)
       amplitude(0)^2 + sum_{n=1..N} amplitude(n)^2 / 2 <= (1/T) int_0^T f^2                                  (Bessel)
     for every N, the error being non-negative, non-increasing in N, and decreasing by exactly T amplitude(N+1)^2 / 2
     per added harmonic; int_0^T f^2 in closed form for the six built-in waveforms (all T > 0, amplitude A, phase phi,
     offset off); and: [mean_square_series] (all four clauses of C08_parseval_full) is EQUIVALENT to the single limit
     "energy of the first N harmonics -> mean square", which is all that is left (rect / saw: sum 1/n^2 = pi^2/6 etc.).
   COVERED: all six waveforms (const, cos, sin, rect, tri, saw), every T > 0, A, phi, off, every N — no restriction to
   phase 0 / offset 0.  NOT covered: the infinite sum (C08_parseval_full stays a stated Definition in C08.v).
   Assumptions reported: the classical real numbers of the standard library (sig_not_dec, sig_forall_dec,
   functional_extensionality_dep, classic), through Reals/Coquelicot, exactly as in C08.v; nothing else. *)
From Coq Require Import Reals ZArith NArith List Bool Lra.
Set Warnings "-ambiguous-paths".
From Coquelicot Require Import Coquelicot.
From CC Require Import Model.Network Model.Rops Theory.RopsR Gen.Periodic Model.Harmonics
  Theory.Fourier Theory.FourierWaves Theory.HarmonicsTh Theory.FourierBessel.
Import ListNotations.
Open Scope R_scope.

(* ---- (1) orthogonality over one period: harmonics m, n (integers, m + n <> 0, e.g. both >= 1), arbitrary phases ---- *)
Theorem C08_orthogonality_cos_cos : forall (T : R), 0 < T -> forall (m n : Z) (phi psi : R), (m + n <> 0)%Z ->
  is_RInt (fun t => cos (IZR m * (2 * PI / T) * t + phi) * cos (IZR n * (2 * PI / T) * t + psi)) 0 T
    (if (m =? n)%Z then T / 2 * cos (phi - psi) else 0).
Proof. exact cc_int. Qed.
Theorem C08_orthogonality_sin_cos : forall (T : R), 0 < T -> forall (m n : Z) (phi psi : R), (m + n <> 0)%Z ->
  is_RInt (fun t => sin (IZR m * (2 * PI / T) * t + phi) * cos (IZR n * (2 * PI / T) * t + psi)) 0 T
    (if (m =? n)%Z then T / 2 * sin (phi - psi) else 0).
Proof. exact sc_int. Qed.
Theorem C08_orthogonality_sin_sin : forall (T : R), 0 < T -> forall (m n : Z) (phi psi : R), (m + n <> 0)%Z ->
  is_RInt (fun t => sin (IZR m * (2 * PI / T) * t + phi) * sin (IZR n * (2 * PI / T) * t + psi)) 0 T
    (if (m =? n)%Z then T / 2 * cos (phi - psi) else 0).
Proof. exact ss_int. Qed.
(* a single harmonic against the constant 1 *)
Theorem C08_orthogonality_cos_one : forall (T : R), 0 < T -> forall (m : Z) (phi : R),
  is_RInt (fun t => cos (IZR m * (2 * PI / T) * t + phi)) 0 T (if (m =? 0)%Z then T * cos phi else 0).
Proof. exact int_cos_harm. Qed.
Print Assumptions C08_orthogonality_cos_cos. Print Assumptions C08_orthogonality_sin_cos.
Print Assumptions C08_orthogonality_sin_sin. Print Assumptions C08_orthogonality_cos_one.

(* ---- (2)-(3) generic: ANY f whose coefficient integrals are (amp, ph) — exactly the conclusion of C08_const .. C08_saw /
   C08_partial — and whose square integrates to T * MS ---- *)
Theorem C08_truncation_error_generic :
  forall (T : R) (f : R -> R) (amp ph : Z -> R) (MS : R), 0 < T ->
  (is_RInt f 0 T (T * amp 0%Z) /\
   forall n : Z, (1 <= n)%Z ->
     is_RInt (fun t => f t * cos (IZR n * (2 * PI / T) * t)) 0 T (T / 2 * amp n * cos (ph n)) /\
     is_RInt (fun t => f t * sin (IZR n * (2 * PI / T) * t)) 0 T (- T / 2 * amp n * sin (ph n))) ->
  is_RInt (fun t => f t ^ 2) 0 T (T * MS) ->
  forall N : nat,
    is_RInt (fun t => (f t - (amp 0%Z + sum_n_m (fun n => amp (Z.of_nat n) * cos (INR n * (2 * PI / T) * t + ph (Z.of_nat n))) 1 N)) ^ 2)
      0 T (T * MS - T * (amp 0%Z ^ 2 + sum_n_m (fun n => amp (Z.of_nat n) ^ 2 / 2) 1 N)).
Proof. exact (fun T f amp ph MS HT => fc_truncation_error T HT f amp ph MS). Qed.
Print Assumptions C08_truncation_error_generic.

Theorem C08_bessel_generic :
  forall (T : R) (f : R -> R) (amp ph : Z -> R) (MS : R), 0 < T ->
  (is_RInt f 0 T (T * amp 0%Z) /\
   forall n : Z, (1 <= n)%Z ->
     is_RInt (fun t => f t * cos (IZR n * (2 * PI / T) * t)) 0 T (T / 2 * amp n * cos (ph n)) /\
     is_RInt (fun t => f t * sin (IZR n * (2 * PI / T) * t)) 0 T (- T / 2 * amp n * sin (ph n))) ->
  is_RInt (fun t => f t ^ 2) 0 T (T * MS) ->
  forall N : nat, amp 0%Z ^ 2 + sum_n_m (fun n => amp (Z.of_nat n) ^ 2 / 2) 1 N <= MS.
Proof. exact (fun T f amp ph MS HT => fc_bessel T HT f amp ph MS). Qed.
Print Assumptions C08_bessel_generic.

(* ---- (4) mean squares of the six waveforms in closed form (T * MS = int_0^T f^2).  ConstantFunction ignores its offset
   (as in C08_const); rect / tri / saw: the offset adds off^2 because their zero-offset shapes have mean 0 ---- *)
Theorem C08_mean_square_const : forall T A phi off : R, 0 < T ->
  is_RInt (fun t => const_time ROps T A phi off t ^ 2) 0 T (T * A ^ 2).
Proof. exact const_sq. Qed.
Theorem C08_mean_square_cos : forall T A phi off : R, 0 < T ->
  is_RInt (fun t => cos_time ROps T A phi off t ^ 2) 0 T (T * (A ^ 2 / 2 + off ^ 2)).
Proof. exact cos_sq. Qed.
Theorem C08_mean_square_sin : forall T A phi off : R, 0 < T ->
  is_RInt (fun t => sin_time ROps T A phi off t ^ 2) 0 T (T * (A ^ 2 / 2 + off ^ 2)).
Proof. exact sin_sq. Qed.
Theorem C08_mean_square_rect : forall T A phi off : R, 0 < T ->
  is_RInt (fun t => rect_time ROps T A phi off t ^ 2) 0 T (T * (A ^ 2 + off ^ 2)).
Proof. exact rect_sq. Qed.
Theorem C08_mean_square_tri : forall T A phi off : R, 0 < T ->
  is_RInt (fun t => tri_time ROps T A phi off t ^ 2) 0 T (T * (A ^ 2 / 3 + off ^ 2)).
Proof. exact tri_sq. Qed.
Theorem C08_mean_square_saw : forall T A phi off : R, 0 < T ->
  is_RInt (fun t => saw_time ROps T A phi off t ^ 2) 0 T (T * (A ^ 2 / 3 + off ^ 2)).
Proof. exact saw_sq. Qed.
Print Assumptions C08_mean_square_const. Print Assumptions C08_mean_square_cos. Print Assumptions C08_mean_square_sin.
Print Assumptions C08_mean_square_rect. Print Assumptions C08_mean_square_tri. Print Assumptions C08_mean_square_saw.

(* the table of mean squares, by index of the time-function class (as in C08_partial) *)
Definition mean_square (i : N) (A phi off : R) : R :=
  match i with
  | 0%N => A ^ 2 | 1%N => A ^ 2 / 2 + off ^ 2 | 2%N => A ^ 2 / 2 + off ^ 2
  | 3%N => A ^ 2 + off ^ 2 | 4%N => A ^ 2 / 3 + off ^ 2 | 5%N => A ^ 2 / 3 + off ^ 2
  | _ => 0
  end.

Theorem C08_mean_square : forall (i : N) (T A phi off : R) (f : R -> R -> R -> R -> R -> R),
  0 < T -> time_function ROps i = Some f ->
  is_RInt (fun t => f T A phi off t ^ 2) 0 T (T * mean_square i A phi off).
Proof. exact mean_square_all. Qed.
Print Assumptions C08_mean_square.

(* ---- (2) ERROR IDENTITY for every listed waveform through the tables and the API-level amplitude / phase
   (i, f, h as in C08_partial): the mean-square error of the series truncated after N harmonics, as an explicit number ---- *)
Theorem C08_truncation_error :
  forall (i : N) (T A phi off : R) (f : R -> R -> R -> R -> R -> R) (h : harmonics ROps),
  0 < T -> time_function ROps i = Some f -> fourier_series ROps i T A phi off = POk h ->
  forall N : nat,
    is_RInt (fun t => (f T A phi off t - partial_sum T (amplitude ROps h) (phase ROps h) N t) ^ 2) 0 T
      (T * mean_square i A phi off
       - T * (amplitude ROps h 0 ^ 2 + sum_n_m (fun n => amplitude ROps h (Z.of_nat n) ^ 2 / 2) 1 N)).
Proof. exact api_truncation_error. Qed.
Print Assumptions C08_truncation_error.

(* ---- (3) BESSEL, non-negativity and monotonicity of the error ---- *)
Theorem C08_bessel :
  forall (i : N) (T A phi off : R) (f : R -> R -> R -> R -> R -> R) (h : harmonics ROps),
  0 < T -> time_function ROps i = Some f -> fourier_series ROps i T A phi off = POk h ->
  forall N : nat,
    amplitude ROps h 0 ^ 2 + sum_n_m (fun n => amplitude ROps h (Z.of_nat n) ^ 2 / 2) 1 N <= mean_square i A phi off.
Proof. exact api_bessel. Qed.
Print Assumptions C08_bessel.

(* the error value E N := T * MS - T * (energy of the harmonics 0..N), for arbitrary coefficients amp *)
Theorem C08_error_nonneg :
  forall (i : N) (T A phi off : R) (f : R -> R -> R -> R -> R -> R) (h : harmonics ROps),
  0 < T -> time_function ROps i = Some f -> fourier_series ROps i T A phi off = POk h ->
  forall N : nat,
    0 <= T * mean_square i A phi off
         - T * (amplitude ROps h 0 ^ 2 + sum_n_m (fun n => amplitude ROps h (Z.of_nat n) ^ 2 / 2) 1 N).
Proof. exact api_error_nonneg. Qed.
Print Assumptions C08_error_nonneg.

Theorem C08_error_monotone : forall (T MS : R) (amp : Z -> R), 0 < T -> forall N M : nat, (N <= M)%nat ->
  T * MS - T * (amp 0%Z ^ 2 + sum_n_m (fun n => amp (Z.of_nat n) ^ 2 / 2) 1 M)
  <= T * MS - T * (amp 0%Z ^ 2 + sum_n_m (fun n => amp (Z.of_nat n) ^ 2 / 2) 1 N).
Proof. exact error_monotone_plain. Qed.
Theorem C08_error_step : forall (T MS : R) (amp : Z -> R) (N : nat),
  T * MS - T * (amp 0%Z ^ 2 + sum_n_m (fun n => amp (Z.of_nat n) ^ 2 / 2) 1 (S N))
  = T * MS - T * (amp 0%Z ^ 2 + sum_n_m (fun n => amp (Z.of_nat n) ^ 2 / 2) 1 N) - T * amp (Z.of_nat (S N)) ^ 2 / 2.
Proof. exact error_step_plain. Qed.
Print Assumptions C08_error_monotone. Print Assumptions C08_error_step.

(* ---- what is left of C08_parseval_full: for each listed waveform, [mean_square_series] (integrability of every
   squared error, error -> 0, integrability of f^2, energy -> mean square) is EQUIVALENT to the one numerical limit ---- *)
Theorem C08_parseval_reduced :
  forall (i : N) (T A phi off : R) (f : R -> R -> R -> R -> R -> R) (h : harmonics ROps),
  0 < T -> time_function ROps i = Some f -> fourier_series ROps i T A phi off = POk h ->
  (mean_square_series T (f T A phi off) (amplitude ROps h) (phase ROps h)
   <-> is_lim_seq (fun N => amplitude ROps h 0 ^ 2 + sum_n_m (fun n => amplitude ROps h (Z.of_nat n) ^ 2 / 2) 1 N)
         (mean_square i A phi off)).
Proof. exact api_mean_square_series_iff. Qed.
Print Assumptions C08_parseval_reduced.

(* ---- per waveform, fully explicit (error identity /\ Bessel), e.g. rect and saw ---- *)
Theorem C08_truncation_error_rect : forall T A phi off : R, 0 < T -> forall N : nat,
  is_RInt (fun t => (rect_time ROps T A phi off t
                     - partial_sum T (rect_amplitude ROps A phi off) (rect_phase ROps A phi off) N t) ^ 2) 0 T
    (T * (A ^ 2 + off ^ 2)
     - T * (rect_amplitude ROps A phi off 0 ^ 2 + sum_n_m (fun n => rect_amplitude ROps A phi off (Z.of_nat n) ^ 2 / 2) 1 N)) /\
  rect_amplitude ROps A phi off 0 ^ 2 + sum_n_m (fun n => rect_amplitude ROps A phi off (Z.of_nat n) ^ 2 / 2) 1 N
  <= A ^ 2 + off ^ 2.
Proof. exact rect_trunc. Qed.
Theorem C08_truncation_error_tri : forall T A phi off : R, 0 < T -> forall N : nat,
  is_RInt (fun t => (tri_time ROps T A phi off t
                     - partial_sum T (tri_amplitude ROps A phi off) (tri_phase ROps A phi off) N t) ^ 2) 0 T
    (T * (A ^ 2 / 3 + off ^ 2)
     - T * (tri_amplitude ROps A phi off 0 ^ 2 + sum_n_m (fun n => tri_amplitude ROps A phi off (Z.of_nat n) ^ 2 / 2) 1 N)) /\
  tri_amplitude ROps A phi off 0 ^ 2 + sum_n_m (fun n => tri_amplitude ROps A phi off (Z.of_nat n) ^ 2 / 2) 1 N
  <= A ^ 2 / 3 + off ^ 2.
Proof. exact tri_trunc. Qed.
Theorem C08_truncation_error_saw : forall T A phi off : R, 0 < T -> forall N : nat,
  is_RInt (fun t => (saw_time ROps T A phi off t
                     - partial_sum T (saw_amplitude ROps A phi off) (saw_phase ROps A phi off) N t) ^ 2) 0 T
    (T * (A ^ 2 / 3 + off ^ 2)
     - T * (saw_amplitude ROps A phi off 0 ^ 2 + sum_n_m (fun n => saw_amplitude ROps A phi off (Z.of_nat n) ^ 2 / 2) 1 N)) /\
  saw_amplitude ROps A phi off 0 ^ 2 + sum_n_m (fun n => saw_amplitude ROps A phi off (Z.of_nat n) ^ 2 / 2) 1 N
  <= A ^ 2 / 3 + off ^ 2.
Proof. exact saw_trunc. Qed.
Theorem C08_truncation_error_cos : forall T A phi off : R, 0 < T -> forall N : nat,
  is_RInt (fun t => (cos_time ROps T A phi off t
                     - partial_sum T (cos_amplitude ROps A phi off) (cos_phase ROps A phi off) N t) ^ 2) 0 T
    (T * (A ^ 2 / 2 + off ^ 2)
     - T * (cos_amplitude ROps A phi off 0 ^ 2 + sum_n_m (fun n => cos_amplitude ROps A phi off (Z.of_nat n) ^ 2 / 2) 1 N)) /\
  cos_amplitude ROps A phi off 0 ^ 2 + sum_n_m (fun n => cos_amplitude ROps A phi off (Z.of_nat n) ^ 2 / 2) 1 N
  <= A ^ 2 / 2 + off ^ 2.
Proof. exact cos_trunc. Qed.
Theorem C08_truncation_error_sin : forall T A phi off : R, 0 < T -> forall N : nat,
  is_RInt (fun t => (sin_time ROps T A phi off t
                     - partial_sum T (sin_amplitude ROps A phi off) (sin_phase ROps A phi off) N t) ^ 2) 0 T
    (T * (A ^ 2 / 2 + off ^ 2)
     - T * (sin_amplitude ROps A phi off 0 ^ 2 + sum_n_m (fun n => sin_amplitude ROps A phi off (Z.of_nat n) ^ 2 / 2) 1 N)) /\
  sin_amplitude ROps A phi off 0 ^ 2 + sum_n_m (fun n => sin_amplitude ROps A phi off (Z.of_nat n) ^ 2 / 2) 1 N
  <= A ^ 2 / 2 + off ^ 2.
Proof. exact sin_trunc. Qed.
Theorem C08_truncation_error_const : forall T A phi off : R, 0 < T -> forall N : nat,
  is_RInt (fun t => (const_time ROps T A phi off t
                     - partial_sum T (const_amplitude ROps A phi off) (const_phase ROps A phi off) N t) ^ 2) 0 T
    (T * A ^ 2
     - T * (const_amplitude ROps A phi off 0 ^ 2 + sum_n_m (fun n => const_amplitude ROps A phi off (Z.of_nat n) ^ 2 / 2) 1 N)) /\
  const_amplitude ROps A phi off 0 ^ 2 + sum_n_m (fun n => const_amplitude ROps A phi off (Z.of_nat n) ^ 2 / 2) 1 N
  <= A ^ 2.
Proof. exact const_trunc. Qed.
Print Assumptions C08_truncation_error_rect. Print Assumptions C08_truncation_error_tri.
Print Assumptions C08_truncation_error_saw. Print Assumptions C08_truncation_error_cos.
Print Assumptions C08_truncation_error_sin. Print Assumptions C08_truncation_error_const.

(* ---- concrete instances (non-vacuity; numbers): the rectangle of period 2, amplitude 1, phase 0, offset 0 ---- *)
(* its truncated series: S_1 = 4/pi sin (pi t),  S_3 = 4/pi sin (pi t) + 4/(3 pi) sin (3 pi t)  (the n = 2 term vanishes) *)
Example C08_ex_rect_S1 : forall t : R,
  partial_sum 2 (rect_amplitude ROps 1 0 0) (rect_phase ROps 1 0 0) 1 t = 4 / PI * sin (PI * t).
Proof. exact ex_rect_S1. Qed.
Example C08_ex_rect_S3 : forall t : R,
  partial_sum 2 (rect_amplitude ROps 1 0 0) (rect_phase ROps 1 0 0) 3 t
  = 4 / PI * sin (PI * t) + 4 / (3 * PI) * sin (3 * PI * t).
Proof. exact ex_rect_S3. Qed.
(* mean square 1, i.e. int_0^2 f^2 = 2; the squared error over one period is 2 - 16/pi^2 (N = 1, about 0.379) and
   2 - 16/pi^2 - 16/(9 pi^2) (N = 3, about 0.199) *)
Example C08_ex_rect_N1 :
  is_RInt (fun t => (rect_time ROps 2 1 0 0 t - partial_sum 2 (rect_amplitude ROps 1 0 0) (rect_phase ROps 1 0 0) 1 t) ^ 2)
    0 2 (2 - 16 / PI ^ 2).
Proof. exact ex_rect_N1. Qed.
Example C08_ex_rect_N3 :
  is_RInt (fun t => (rect_time ROps 2 1 0 0 t - partial_sum 2 (rect_amplitude ROps 1 0 0) (rect_phase ROps 1 0 0) 3 t) ^ 2)
    0 2 (2 - 16 / PI ^ 2 - 16 / (9 * PI ^ 2)).
Proof. exact ex_rect_N3. Qed.
(* with phase and offset: period 3, amplitude 2, phase 1/3, offset 1/7; mean square 4 + 1/49 *)
Example C08_ex_rect_N3_general :
  is_RInt (fun t => (rect_time ROps 3 2 (1 / 3) (1 / 7) t
                     - partial_sum 3 (rect_amplitude ROps 2 (1 / 3) (1 / 7)) (rect_phase ROps 2 (1 / 3) (1 / 7)) 3 t) ^ 2)
    0 3 (3 * (4 + 1 / 49) - 3 * (1 / 49 + 32 / PI ^ 2 + 32 / (9 * PI ^ 2))).
Proof. exact ex_rect_N3_general. Qed.
(* Bessel for this rectangle, N = 1 and N = 3, read as lower bounds on pi^2 (the limit N -> infinity would give equality
   in 8/pi^2 * (1 + 1/9 + 1/25 + ...) = 1) *)
Example C08_ex_bessel_N1 : 8 / PI ^ 2 <= 1.
Proof. exact ex_bessel_N1. Qed.
Example C08_ex_bessel_N3 : 8 / PI ^ 2 + 8 / (9 * PI ^ 2) <= 1.
Proof. exact ex_bessel_N3. Qed.
(* saw of period 2, amplitude 1: mean square 1/3; error after 2 harmonics 2/3 - 4/pi^2 - 1/pi^2 *)
Example C08_ex_saw_N2 :
  is_RInt (fun t => (saw_time ROps 2 1 0 0 t - partial_sum 2 (saw_amplitude ROps 1 0 0) (saw_phase ROps 1 0 0) 2 t) ^ 2)
    0 2 (2 / 3 - 4 / PI ^ 2 - 1 / PI ^ 2).
Proof. exact ex_saw_N2. Qed.
(* the hypotheses of C08_truncation_error / C08_bessel are satisfiable: the dispatch of C08_ex_dispatch *)
Example C08_ex_api_rect : forall N : nat,
  is_RInt (fun t => (rect_time ROps 2 1 (1 / 3) (1 / 7) t
                     - partial_sum 2 (amplitude ROps {| amp_coeff := rect_amplitude ROps 1 (1 / 3) (1 / 7);
                                                       ph_coeff := rect_phase ROps 1 (1 / 3) (1 / 7) |})
                         (phase ROps {| amp_coeff := rect_amplitude ROps 1 (1 / 3) (1 / 7);
                                        ph_coeff := rect_phase ROps 1 (1 / 3) (1 / 7) |}) N t) ^ 2) 0 2
    (2 * mean_square 3 1 (1 / 3) (1 / 7)
     - 2 * (amplitude ROps {| amp_coeff := rect_amplitude ROps 1 (1 / 3) (1 / 7);
                              ph_coeff := rect_phase ROps 1 (1 / 3) (1 / 7) |} 0 ^ 2
            + sum_n_m (fun n => amplitude ROps {| amp_coeff := rect_amplitude ROps 1 (1 / 3) (1 / 7);
                                                  ph_coeff := rect_phase ROps 1 (1 / 3) (1 / 7) |} (Z.of_nat n) ^ 2 / 2) 1 N)).
Proof. exact ex_api_rect. Qed.
