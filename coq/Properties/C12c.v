(* C12c — the state-space matrices, output rows and input order that the transient simulation uses are the ones regenerated from state_space_model.py on this run.
   Statements only; each proof is [exact] the theorem of the same statement in the property file it is listed under. *)
From Coq Require Import List Bool ZArith NArith QArith Qcanon.
From CC Require Import Theory.Field Theory.Complex Model.Network Model.NetworkPrims Model.StateSpace Model.Circuit
  Model.MatrixPrims Gen.NetworkGen Gen.MatrixGen Theory.Matrix Theory.StateSpaceThm Theory.StateSpaceGenThm.
Import ListNotations.
From CC Require Import Properties.C10c.

Theorem C12c_state_space_matrices : forall (K : fops) (KOK : fops_ok K) (n : network K) (cvals lvals : list (label * K)),
  NoDup (branch_ids n) ->
  py_state_space.state_space_matrices K n cvals lvals (py_state_space.state_space_matrices__default_node_mapper K)
    (py_state_space.state_space_matrices__default_current_source_mapper K)
    (py_state_space.state_space_matrices__default_voltage_source_mapper K)
  = bind (state_space_matrices K n cvals lvals) (fun m => Ok (ssm_arrays K n cvals lvals m)).
Proof. exact C10c_state_space_matrices. Qed.
Print Assumptions C12c_state_space_matrices.

Theorem C12c_nodal_state_space_model : forall (K : fops) (KOK : fops_ok K) (n : network K) (cvals lvals : list (label * K)),
  NoDup (branch_ids n) ->
  py_state_space.nodal_state_space_model K n cvals lvals (py_state_space.nodal_state_space_model__default_node_index_mapper K)
    (py_state_space.nodal_state_space_model__default_voltage_source_index_mapper K)
    (py_state_space.nodal_state_space_model__default_current_source_index_mapper K)
  = bind (nodal_state_space_model K n cvals lvals) (fun m => Ok (nssm_of K n cvals lvals m)).
Proof. exact C10c_nodal_state_space_model. Qed.
Print Assumptions C12c_nodal_state_space_model.

Theorem C12c_rows_for_potential : forall (K : fops) (n : network K) (cvals lvals : list (label * K)) (m : ssm K),
  length (ss_C m) = ss_dim K n -> length (ss_D m) = ss_dim K n -> forall node : label,
  py_state_space.NodalStateSpaceModel_c_row_for_potential K (nssm_of K n cvals lvals m) node
  = bind (c_row_for_potential K n cvals lvals m node) (fun r => Ok {| a_cols := ss_nst K cvals lvals; a_rows := [r] |}) /\
  py_state_space.NodalStateSpaceModel_d_row_for_potential K (nssm_of K n cvals lvals m) node
  = bind (d_row_for_potential K n lvals m node) (fun r => Ok {| a_cols := ss_nS K n lvals; a_rows := [r] |}).
Proof. exact C10c_rows_for_potential. Qed.
Print Assumptions C12c_rows_for_potential.

Theorem C12c_rows_voltage : forall (K : fops) (n : network K) (cvals lvals : list (label * K)) (m : ssm K),
  length (ss_C m) = ss_dim K n -> length (ss_D m) = ss_dim K n -> forall id : label,
  py_state_space.NodalStateSpaceModel_c_row_voltage K (nssm_of K n cvals lvals m) id
  = bind (c_row_voltage K n cvals lvals m id) (fun r => Ok {| a_cols := ss_nst K cvals lvals; a_rows := [r] |}) /\
  py_state_space.NodalStateSpaceModel_d_row_voltage K (nssm_of K n cvals lvals m) id
  = bind (d_row_voltage K n lvals m id) (fun r => Ok {| a_cols := ss_nS K n lvals; a_rows := [r] |}).
Proof. exact C10c_rows_voltage. Qed.
Print Assumptions C12c_rows_voltage.

Theorem C12c_rows_current : forall (K : fops) (n : network K) (cvals lvals : list (label * K)),
  NoDup (branch_ids n) -> forall m : ssm K,
  length (ss_C m) = ss_dim K n -> length (ss_D m) = ss_dim K n -> NoDup (map fst cvals) -> forall id : label,
  py_state_space.NodalStateSpaceModel_c_row_current K (nssm_of K n cvals lvals m) id
  = bind (c_row_current K n cvals lvals m id) (fun r => Ok (current_row K n cvals id (ss_nst K cvals lvals) r)) /\
  py_state_space.NodalStateSpaceModel_d_row_current K (nssm_of K n cvals lvals m) id
  = bind (d_row_current K n cvals lvals m id) (fun r => Ok (current_row K n cvals id (ss_nS K n lvals) r)).
Proof. exact C10c_rows_current. Qed.
Print Assumptions C12c_rows_current.

Theorem C12c_sources : forall (K : fops) (n : network K) (cvals lvals : list (label * K)) (m : ssm K),
  py_state_space.NodalStateSpaceModel_sources K (nssm_of K n cvals lvals m) = sources K n lvals.
Proof. exact C10c_sources. Qed.
Print Assumptions C12c_sources.

