(* C19 (continued) — the error paths of the loaders, stated about the definitions REGENERATED from Network/loaders.py,
   dump_load.py and Circuit/dump_load.py (Gen/LoadersGen.v; equal to the hand model by Properties/C17c.v): which exception
   class a missing key / an unknown type / a wrong notation / an unknown format / a negative magnitude raises, and in
   which order the checks happen.  Exceptions: EKeyError = KeyError, EFileExists = FileExistsError (what load_network turns
   a KeyError into), EFileFormat = FileFormatError, ETypeError = TypeError, EValue = ValueError, EUnidentified =
   UnidentifiedComponent, EIncorrectInfo = IncorrectComponentInformation, EUnknownComponent = UnknownCircuitComponent.
   Statements only; proofs are in Theory/LoadersGenThm.v. *)
From Coq Require Import List Bool ZArith NArith QArith Qcanon String.
From CC Require Import Theory.Field Theory.Complex Theory.Labels Model.Network Gen.Tables Model.Circuit Model.RunCircuit
  Model.Loaders Theory.LoadersThm Model.LoadersPrims Gen.LoadersGen Theory.LoadersGenThm Properties.C19.
Import ListNotations.

(* ================= A. network descriptions ================= *)
(* the first entry that fails decides, wherever it stands; its KeyError becomes FileExistsError, anything else is passed on *)
Theorem C19c_position : forall (R : fops) (pi : R) (cis : R -> R * R) (pre post : list (jval R)) (e : jval R) bs x,
  fst (map_st (g_load_network__entry_to_branch R pi cis) pre) = Ok bs ->
  fst (g_load_network__entry_to_branch R pi cis e) = Err x ->
  fst (g_load_network R pi cis (JList (pre ++ e :: post))) = keyerror_to_fileexists (Err x).
Proof. exact t_position. Qed.
Theorem C19c_unknown_kind : forall (R : fops) (pi : R) (cis : R -> R * R) (pre post : list (jval R)) (d : dict (jval R)) (t : label) bs,
  fst (map_st (g_load_network__entry_to_branch R pi cis) pre) = Ok bs ->
  dget d s_N1 <> None -> dget d s_N2 <> None -> dget d s_id <> None -> dget d s_type = Some (JStr t) -> find_lentry t = None ->
  fst (g_load_network R pi cis (JList (pre ++ JDict d :: post))) = Err EFileExists.
Proof. exact t_unknown_kind. Qed.
Theorem C19c_missing_field : forall (R : fops) (pi : R) (cis : R -> R * R) (pre post : list (jval R)) (d : dict (jval R)) bs,
  fst (map_st (g_load_network__entry_to_branch R pi cis) pre) = Ok bs ->
  dget d s_N1 = None \/ dget d s_N2 = None \/ dget d s_id = None \/ dget d s_type = None ->
  fst (g_load_network R pi cis (JList (pre ++ JDict d :: post))) = Err EFileExists.
Proof. exact t_missing_field. Qed.
(* a documented entry with a required value key left out: KeyError for a key written in complex notation, TypeError for a
   plain constructor parameter *)
Theorem C19c_missing_value : forall (R : fops) (pi : R) (cis : R -> R * R) (e : espec R) (key : label),
  espec_ok R e -> In key (required_keys R (e_kind R e)) ->
  fst (g_load_network__entry_to_branch R pi cis (entry_without R e key))
  = Err (if lmem key (k_cplx R (e_kind R e)) then EKeyError else ETypeError).
Proof. exact t_missing_value. Qed.
(* a value that is no complex notation: not a dictionary, or neither a {real, imag} pair nor a phase -> FileFormatError
   (which load_network does NOT convert: only KeyError becomes FileExistsError, C19c_position) *)
Theorem C19c_wrong_notation : forall (R : fops) (pi : R) (cis : R -> R * R) (deg : bool) (z : jval R),
  match z with
  | JDict d => (dget d s_real = None \/ dget d s_imag = None) /\ dget d s_phase = None
  | _ => True
  end -> g_to_complex R pi cis z deg = Err EFileFormat.
Proof. exact t_wrong_notation. Qed.
(* an accepted description: exactly the branches its entries denote, in order, reference "0" *)
Theorem C19c_stored_loaded : forall (R : fops) (pi : R) (cis : R -> R * R) (l : list (jval R)) (n : network (Cx R)),
  fst (g_load_network R pi cis (JList l)) = Ok n ->
  mapR (fun e => fst (g_load_network__entry_to_branch R pi cis e)) l = Ok (branches n) /\ zero n = s_zero.
Proof. exact t_stored_loaded. Qed.
Print Assumptions C19c_position. Print Assumptions C19c_unknown_kind. Print Assumptions C19c_missing_field.
Print Assumptions C19c_missing_value. Print Assumptions C19c_wrong_notation. Print Assumptions C19c_stored_loaded.

(* ================= B. component descriptions: the order of the checks of generate_component ================= *)
(* id first (UnidentifiedComponent whatever else is missing), then value, type, nodes (IncorrectComponentInformation),
   then the table (UnknownCircuitComponent), then the constructor call (TypeError -> IncorrectComponentInformation) *)
Theorem C19c_component_missing_id : forall (R : fops) (leb : R -> R -> bool) (d : dict (jval R)),
  dget d s_id = None -> fst (g_generate_component R leb (JDict d)) = Err EUnidentified.
Proof. exact t_component_missing_id. Qed.
Theorem C19c_component_missing_value : forall (R : fops) (leb : R -> R -> bool) (d : dict (jval R)),
  dget d s_id <> None -> dget d s_value = None -> fst (g_generate_component R leb (JDict d)) = Err EIncorrectInfo.
Proof. exact t_component_missing_value. Qed.
Theorem C19c_component_missing_type : forall (R : fops) (leb : R -> R -> bool) (d : dict (jval R)),
  dget d s_id <> None -> dget d s_value <> None -> dget d s_type = None -> fst (g_generate_component R leb (JDict d)) = Err EIncorrectInfo.
Proof. exact t_component_missing_type. Qed.
Theorem C19c_component_missing_nodes : forall (R : fops) (leb : R -> R -> bool) (d : dict (jval R)),
  dget d s_id <> None -> dget d s_value <> None -> dget d s_type <> None -> dget d s_nodes = None ->
  fst (g_generate_component R leb (JDict d)) = Err EIncorrectInfo.
Proof. exact t_component_missing_nodes. Qed.
Theorem C19c_component_unknown_kind : forall (R : fops) (leb : R -> R -> bool) (d : dict (jval R)) (t : label),
  dget d s_id <> None -> dget d s_value <> None -> dget d s_nodes <> None ->
  dget d s_type = Some (JStr t) -> tfind t circuit_loader_table = None -> fst (g_generate_component R leb (JDict d)) = Err EUnknownComponent.
Proof. exact t_component_unknown_kind. Qed.
Theorem C19c_component_call : forall (R : fops) (leb : R -> R -> bool) (d vd : dict (jval R)) (idv nv : jval R) (t f : label),
  dget d s_id = Some idv -> dget d s_value = Some (JDict vd) -> dget d s_type = Some (JStr t) -> dget d s_nodes = Some nv ->
  tfind t circuit_loader_table = Some f ->
  fst (g_generate_component R leb (JDict d)) = typeerror_to_incorrect (construct R leb f ((s_id, idv) :: (s_nodes, nv) :: vd)).
Proof. exact t_component_call. Qed.
(* the sign rules reach the loader: a loadable description with a guarded value made negative is a ValueError *)
Theorem C19c_sign_loaded : forall (R : fops) (leb : R -> R -> bool) (d vd : dict (jval R)) (idv nv : jval R) (t f : label) (c : ctor)
  (p : label) (cmp : lcomp R) (x : R),
  dget d s_id = Some idv -> dget d s_value = Some (JDict vd) -> dget d s_type = Some (JStr t) -> dget d s_nodes = Some nv ->
  tfind t circuit_loader_table = Some f -> find_ctor_fun f = Some c -> In p (c_guards c) ->
  fst (g_generate_component R leb (JDict d)) = Ok cmp -> ltb0 R leb x = true ->
  fst (g_generate_component R leb (JDict (dset d s_value (JDict (dset vd p (JNum x)))))) = Err EValue.
Proof. exact t_component_sign. Qed.
(* wherever the offending component stands in circuit['components'] *)
Theorem C19c_component_position : forall (R : fops) (leb : R -> R -> bool) (d : dict (jval R)) (pre post : list (jval R)) (e : jval R) cs x,
  dget d s_components = Some (JList (pre ++ e :: post)) ->
  mapR (fun e => fst (g_generate_component R leb e)) pre = Ok cs -> fst (g_generate_component R leb e) = Err x ->
  g_undictify_circuit R leb (JDict d) = Err x.
Proof. exact t_component_position. Qed.
Theorem C19c_stored_circuit : forall (R : fops) (leb : R -> R -> bool) (d : dict (jval R)) (cs : list (lcomp R)) (g : label),
  g_undictify_circuit R leb (JDict d) = Ok (cs, g) ->
  exists es, dget d s_components = Some (JList es) /\ mapR (fun e => fst (g_generate_component R leb e)) es = Ok cs.
Proof. exact t_stored_circuit. Qed.
Print Assumptions C19c_component_missing_id. Print Assumptions C19c_component_missing_value.
Print Assumptions C19c_component_missing_type. Print Assumptions C19c_component_missing_nodes.
Print Assumptions C19c_component_unknown_kind. Print Assumptions C19c_component_call. Print Assumptions C19c_sign_loaded.
Print Assumptions C19c_component_position. Print Assumptions C19c_stored_circuit.

(* ================= C. dump_load.py ================= *)
(* an unknown format is a ValueError, raised before the data are touched (whatever the processor would do) *)
Theorem C19c_unknown_format : forall (R : fops) (T X : Type) (dumps : textfmt -> jval R -> res T) (loads : textfmt -> T -> res (jval R))
  (data : jval R) (text : T) (f : label) (proc : jval R -> res (jval R)) (pre : jval R -> res X),
  tfind_fmt f expected_formats = None ->
  g_serialize R dumps data f proc = Err EValue /\ g_deserialize R loads text f pre = Err EValue.
Proof. exact gen_unknown_format. Qed.
(* a negative magnitude in polar notation (radians or degrees) is a ValueError; the dictionary given is left as it was *)
Theorem C19c_negative_abs : forall (R : fops) (leb : R -> R -> bool) (pi : R) (cis : R -> R * R) (k : label) (r p : R) (deg : bool),
  ltb0 R leb r = true ->
  let x := JDict [(k, JDict [(s_abs, JNum r); (if deg then s_phase_deg else s_phase, JNum p)])] in
  g_undictify_complex_values R leb pi cis x = (Err EValue, x).
Proof. exact t_negative_abs. Qed.
Print Assumptions C19c_unknown_format. Print Assumptions C19c_negative_abs.

(* ================= examples over the rationals (the regenerated definitions, executed) ================= *)
Example C19c_example_loader :
  is_ok (fst (g_load_network Qcops qpi qcis (JList ex_good))) (fun n => Nat.eqb (List.length (branches n)) 2) = true
  /\ forallb (fun bad => is_err (fst (g_load_network Qcops qpi qcis (JList (bad :: ex_good)))) EFileExists
                         && is_err (fst (g_load_network Qcops qpi qcis (JList (ex_good ++ [bad])))) EFileExists
                         && is_err (fst (g_load_network Qcops qpi qcis (JList (firstn 1 ex_good ++ bad :: skipn 1 ex_good)))) EFileExists)
             [bad_kind; no_n2] = true
  /\ is_err (fst (g_load_network Qcops qpi qcis (JList (dup_id :: ex_good)))) EAmbiguousIDs = true.
Proof. vm_compute. repeat split. Qed.
Definition ex_component (without : list label) : jval Qcops :=
  JDict (fold_left (fun d k => ddel d k)  without
    [(s_type, JStr (lbl "resistor")); (s_id, JStr (lbl "R")); (s_nodes, JList [JStr (lbl "a"); JStr (lbl "b")]);
     (s_value, JDict [(s_R, qn 3 1)])])%string.
(* the order of the checks: with several fields missing the first check in source order decides *)
Example C19c_example_component_order :
  is_ok (fst (g_generate_component Qcops Qc_leb (ex_component []))) (fun c => label_eqb (lc_id c) (lbl "R")) = true
  /\ is_err (fst (g_generate_component Qcops Qc_leb (ex_component [s_id; s_value; s_type; s_nodes]))) EUnidentified = true
  /\ is_err (fst (g_generate_component Qcops Qc_leb (ex_component [s_value; s_type; s_nodes]))) EIncorrectInfo = true
  /\ is_err (fst (g_generate_component Qcops Qc_leb (ex_component [s_nodes]))) EIncorrectInfo = true
  /\ is_err (fst (g_generate_component Qcops Qc_leb
               (JDict [(s_type, JStr (lbl "resistance")); (s_id, JStr (lbl "R")); (s_value, JDict [(s_R, qn 3 1)])]))) EIncorrectInfo = true
  /\ is_err (fst (g_generate_component Qcops Qc_leb
               (JDict [(s_type, JStr (lbl "resistance")); (s_id, JStr (lbl "R")); (s_nodes, JList []); (s_value, JDict [(s_R, qn 3 1)])])))
            EUnknownComponent = true
  /\ is_err (fst (g_generate_component Qcops Qc_leb
               (JDict [(s_type, JStr (lbl "resistor")); (s_id, JStr (lbl "R")); (s_nodes, JList [JStr (lbl "a"); JStr (lbl "b")]);
                       (s_value, JDict [(s_G, qn 3 1)])]))) EIncorrectInfo = true%string.
Proof. vm_compute. repeat split. Qed.
