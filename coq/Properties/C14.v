(* C14 — the numbers written on a schematic are the circuit's quantities, to the displayed precision, in the element's
   reference direction, negated exactly when the annotation is requested in reverse; the real, complex (Cartesian /
   polar) and sinusoidal renderings agree.
   Statements only; every proof is [exact <lemma>].  Models: Model/Annotation.v (DiagramSolution.py adapters, Display.py
   print_real / print_complex / print_sinosoidal / print_active_power, the `solutions` table and the parameter filter of
   SimpleSimulation/schematic.py — hand-written mirrors) on top of Model/Format.v (Utils.py, C18).
   Readers of the texts: Theory/FormatText.v [parse] (one number), Theory/AnnotationCart.v [parse_cartesian].
   Values are the exact rationals of the binary64 numbers handed to the adapter by its solution object (that these are
   the quantities of the translated circuit is C02 / C13); transcendental functions are oracles of the value formatted.
     sgnQ r x / sgnC r z  = the value after `sign * value`      eff_reverse q r = r, except false for potentials
     carry_region_Q, sig_exp, pvalue, Qpow10                     as in Properties/C18.v
   KNOWN FINDING kept as hypothesis (C18_carry_defect): 1 - 10^-p/2 <= |x| < 1 with p >= 2 is excluded.
   Range hypotheses: exponent x p <= 3 (above it print_real shows '∞': largest prefix is k), <= 12 for the power text. *)
From Coq Require Import List Bool ZArith NArith QArith Qabs Qpower Lia String.
From CC Require Import Theory.Field Theory.Complex Model.Network Model.Format Model.Circuit
  Theory.FormatThm Theory.FormatText Theory.FormatSig Model.Annotation Theory.AnnotationThm Theory.AnnotationCart.
Import ListNotations.
Open Scope Z_scope.

(* ================= reverse: exactly the text of the negated value ================= *)
Theorem C14_reverse_exact_real : forall (q : quantity) (x : Q) (p : Z), takes_reverse q = true ->
  real_ann q true x p = real_ann q false (- x)%Q p.
Proof. exact real_reverse_exact. Qed.
Theorem C14_reverse_exact_complex : forall (O : polar_oracle) (q : quantity) (z : cval) (p : Z) (polar deg : bool),
  takes_reverse q = true ->
  complex_ann O q true z p polar deg = complex_ann O q false ((- fst z)%Q, (- snd z)%Q) p polar deg.
Proof. exact complex_reverse_exact. Qed.
Theorem C14_reverse_exact_sinusoidal : forall (O : sin_oracle) (q : quantity) (z : cval) (p : Z) (w : Q) (sn deg hz : bool),
  takes_reverse q = true ->
  sin_ann O q true z p w sn deg hz = sin_ann O q false ((- fst z)%Q, (- snd z)%Q) p w sn deg hz.
Proof. exact sin_reverse_exact. Qed.
(* all adapters and the three reversible quantities at once; potentials have no reverse *)
Theorem C14_reverse_exact : forall (PO : polar_oracle) (SO : sin_oracle) (ad : adapter) (q : quantity) (v : reading),
  (q = QVoltage \/ q = QCurrent \/ q = QPower) ->
  annotation PO SO ad q true v
  = annotation PO SO ad q false {| rd_real := (- rd_real v)%Q; rd_cplx := ((- fst (rd_cplx v))%Q, (- snd (rd_cplx v))%Q) |}.
Proof. exact annotation_reverse_exact_q. Qed.
Theorem C14_potential_has_no_reverse : forall PO SO ad rev v,
  annotation PO SO ad QPotential rev v = annotation PO SO ad QPotential false v.
Proof. exact potential_ignores_reverse. Qed.
(* forward = the text of the value itself, with the unit of the quantity and the adapter's options *)
Theorem C14_forward_text : forall PO SO ad q v,
  annotation PO SO ad q false v =
  match ad with
  | AdEmpty => []
  | AdReal p => match q with QPower => print_active_power (rd_real v) p | _ => print_real (rd_real v) (unit_of q) p end
  | AdComplex _ p polar deg => print_complex PO (rd_cplx v) (unit_of q) p polar deg
  | AdSin w p sn deg hz => print_sinusoidal SO (rd_cplx v) (unit_of q) p w sn deg hz
  end.
Proof. exact annotation_forward. Qed.
Print Assumptions C14_reverse_exact.

(* ================= the real adapter reads back to the quantity ================= *)
(* voltage, current, potential: within half a unit of the p-th significant digit of the quantity, with the sign of the
   sign-adjusted value *)
Theorem C14_real_accurate : forall (q : quantity) (reverse : bool) (x : Q) (p : Z),
  q <> QPower ->
  ~ (x == 0)%Q -> 1 <= p -> ~ (2 <= p /\ carry_region_Q x p) -> exponent x p <= 3 ->
  let v := sgnQ (eff_reverse q reverse) x in
  exists r s, parse true tab_umk (unit_of q) (real_ann q reverse x p) = Some r /\
    p_inf r = false /\ (p_neg r = true <-> (v < 0)%Q) /\
    sig_exp x p s /\ (Qabs (pvalue r - v) <= Qpow10 s / 2)%Q.
Proof. exact real_accurate. Qed.
Print Assumptions C14_real_accurate.

(* power: magnitude (default prefix table) followed by an arrow; '↓' exactly for a positive value;
   arrow_sign '↓' = 1, arrow_sign '↑' = -1 *)
Theorem C14_power_accurate : forall (reverse : bool) (x : Q) (p : Z),
  ~ (x == 0)%Q -> 1 <= p -> ~ (2 <= p /\ carry_region_Q x p) -> exponent x p <= 12 ->
  let v := sgnQ reverse x in
  exists body arrow r s, real_ann QPower reverse x p = body ++ [arrow] /\
    (arrow = ARROW_DOWN \/ arrow = ARROW_UP) /\ (arrow = ARROW_DOWN <-> (0 < v)%Q) /\
    parse true tab_default [87%N] body = Some r /\ p_inf r = false /\ p_neg r = false /\
    sig_exp x p s /\ (Qabs (arrow_sign arrow * pvalue r - v) <= Qpow10 s / 2)%Q.
Proof. exact power_accurate. Qed.
Print Assumptions C14_power_accurate.

(* ================= the complex adapter, Cartesian ================= *)
Theorem C14_complex_parts : forall (O : polar_oracle) (q : quantity) (reverse : bool) (z : cval) (p : Z) (deg : bool),
  let z' := sgnC (eff_reverse q reverse) z in
  let un := unit_of q in
  let TR := sci_text (Qabs (fst z')) p true tab_umk un in
  let TI := sci_text (Qabs (snd z')) p true tab_umk un in
  let rsg := if Qneg (fst z') then [45%N] else [] in
  let isg := if Qneg (snd z') then [45%N] else [43%N] in
  complex_ann O q reverse z p false deg =
    if is_zero (Qabs (snd z')) p (-6) then rsg ++ TR
    else if is_zero (Qabs (fst z')) p (-6) then (if Qneg (snd z') then isg ++ LJ :: TI else LJ :: TI)
    else rsg ++ TR ++ isg ++ LJ :: TI.
Proof. exact complex_parts. Qed.
Print Assumptions C14_complex_parts.
(* the magnitudes printed do not depend on the direction: reversing changes the sign strings only *)
Theorem C14_reverse_keeps_magnitudes : forall r z,
  Qabs (fst (sgnC r z)) = Qabs (fst z) /\ Qabs (snd (sgnC r z)) = Qabs (snd z).
Proof. exact sgnC_abs. Qed.
Theorem C14_reverse_flips_sign_strings : forall x, ~ (x == 0)%Q -> Qneg (- x) = negb (Qneg x).
Proof. exact Qneg_opp. Qed.

(* ================= agreement of the renderings ================= *)
(* (a) Cartesian: the text parses to (re, im) of the sign-adjusted value, each part within half a unit of its own p-th
   digit.  part_ok x p = x <> 0, outside the defect region, -6 <= exponent x p <= 3 (both parts are shown). *)
Theorem C14_agree_cartesian : forall (O : polar_oracle) (q : quantity) (reverse : bool) (z : cval) (p : Z) (deg : bool),
  1 <= p -> part_ok (fst z) p -> part_ok (snd z) p ->
  let z' := sgnC (eff_reverse q reverse) z in
  exists c sr si,
    parse_cartesian tab_umk (unit_of q) (complex_ann O q reverse z p false deg) = Some c /\
    sig_exp (fst z) p sr /\ sig_exp (snd z) p si /\
    (Qabs (fst (cart_value c) - fst z') <= Qpow10 sr / 2)%Q /\
    (Qabs (snd (cart_value c) - snd z') <= Qpow10 si / 2)%Q /\
    (exists rr ri, c_re c = Some rr /\ c_im c = Some (Qneg (snd z'), ri) /\ p_inf rr = false /\ p_inf ri = false /\
       (p_neg rr = true <-> (fst z' < 0)%Q) /\ p_neg ri = false).
Proof. exact cartesian_reads_back. Qed.
Print Assumptions C14_agree_cartesian.
Theorem C14_part_ok_meaning : forall x p,
  part_ok x p <-> (~ (x == 0)%Q /\ ~ (2 <= p /\ carry_region_Q x p) /\ -6 <= exponent x p <= 3).
Proof. exact part_ok_iff. Qed.
(* a purely real phasor (DC-like): no 'j' is written, the text is the real adapter's *)
Theorem C14_agree_cartesian_real : forall (O : polar_oracle) (q : quantity) (reverse : bool) (z : cval) (p : Z) (deg : bool),
  1 <= p -> part_ok (fst z) p -> Qnum (snd z) = 0 ->
  let z' := sgnC (eff_reverse q reverse) z in
  exists rr sr,
    parse_cartesian tab_umk (unit_of q) (complex_ann O q reverse z p false deg) = Some {| c_re := Some rr; c_im := None |} /\
    p_inf rr = false /\ (p_neg rr = true <-> (fst z' < 0)%Q) /\
    sig_exp (fst z) p sr /\ (Qabs (pvalue rr - fst z') <= Qpow10 sr / 2)%Q.
Proof. exact cartesian_real_reads_back. Qed.
Print Assumptions C14_agree_cartesian_real.

(* (b) polar: magnitude text = sci_text of abs(value), then '∠', the angle text (oracle) and '°' in degrees *)
Theorem C14_agree_polar_text : forall (O : polar_oracle) (q : quantity) (reverse : bool) (z : cval) (p : Z) (deg : bool),
  let z' := sgnC (eff_reverse q reverse) z in
  complex_ann O q reverse z p true deg =
    sci_text (po_abs O z') p true tab_umk (unit_of q)
    ++ (if po_small O deg z' then [] else 8736%N :: po_text O deg z' ++ (if deg then [176%N] else [])).
Proof. exact polar_shape. Qed.
(* with a polar decomposition re = r*c, im = r*s, c^2 + s^2 = 1, that magnitude r is the one of the Cartesian pair *)
Theorem C14_agree_magnitude : forall (R : fops) (ROK : fops_ok R) (re im r c s : R),
  re = fmul R r c -> im = fmul R r s -> fadd R (fmul R c c) (fmul R s s) = f1 R ->
  fmul R r r = fadd R (fmul R re re) (fmul R im im).
Proof. exact polar_magnitude. Qed.
Print Assumptions C14_agree_magnitude.

(* (c) sinusoid: the text starts with the sci_text of abs(value) — the same magnitude text as the polar form of the
   same value —, is that alone when w = 0, and continues '·cos(' / '·sin(' otherwise *)
Theorem C14_agree_sinusoid_text : forall (O : sin_oracle) (q : quantity) (reverse : bool) (z : cval) (p : Z) (w : Q)
    (sn deg hz : bool),
  let z' := sgnC (eff_reverse q reverse) z in
  exists rest, sin_ann O q reverse z p w sn deg hz = sci_text (so_abs O z') p true tab_umk (unit_of q) ++ rest
    /\ ((w == 0)%Q -> rest = [])
    /\ (~ (w == 0)%Q -> exists tail, rest = DOT :: (if sn then t_sin else t_cos) ++ 40%N :: tail).
Proof. exact sin_shape. Qed.
(* the sinusoidal adapter holds the PEAK solution; a peak quantity is sqrt2 times the RMS quantity the complex adapter
   shows, so the amplitude is sqrt2 * |z_rms| (for every a with a^2 = |z_rms|^2, (sqrt2 a)^2 = |z_peak|^2) *)
Theorem C14_agree_peak_rms : forall (R : fops) (ROK : fops_ok R) (sqrt2 : R)
  (Rreal : forall x y : R, fadd R (fmul R x x) (fmul R y y) = f0 R -> x = f0 R /\ y = f0 R)
  (sp sr : csol R) (x : Cx R),
  cs_peak sp = true -> cs_peak sr = false -> fmul R sqrt2 sqrt2 = fadd R (f1 R) (f1 R) ->
  let zp := unpeak R sqrt2 sp x in let zr := unpeak R sqrt2 sr x in
  zp = fmul (Cx R) (sqrt2, f0 R) zr /\
  cxnorm2 R zp = fmul R (fadd R (f1 R) (f1 R)) (cxnorm2 R zr) /\
  (forall a, fmul R a a = cxnorm2 R zr -> fmul R (fmul R sqrt2 a) (fmul R sqrt2 a) = cxnorm2 R zp).
Proof. exact peak_is_sqrt2_rms. Qed.
Print Assumptions C14_agree_peak_rms.
(* with any nonzero number in the role of sqrt(2) (as in binary64): the factor is that number *)
Theorem C14_agree_peak_rms_general : forall (R : fops) (ROK : fops_ok R) (sqrt2 : R) (sp sr : csol R) (x : Cx R),
  cs_peak sp = true -> cs_peak sr = false -> sqrt2 <> f0 R ->
  let zp := unpeak R sqrt2 sp x in let zr := unpeak R sqrt2 sr x in
  zp = fmul (Cx R) (sqrt2, f0 R) zr /\
  cxnorm2 R zp = fmul R (fmul R sqrt2 sqrt2) (cxnorm2 R zr) /\
  (forall a, fmul R a a = cxnorm2 R zr -> fmul R (fmul R sqrt2 a) (fmul R sqrt2 a) = cxnorm2 R zp).
Proof. exact peak_is_sqrt2_rms_gen. Qed.
Print Assumptions C14_agree_peak_rms_general.
(* phase reference: arg for the cosine, arg + pi/2 for the sine (fix c7f5f7b; before it: arg - pi/2) *)
Theorem C14_sine_reference : forall (O : sin_oracle) (z : cval),
  sin_phase O z false = so_arg O z /\ sin_phase O z true = so_add_halfpi O (so_arg O z).
Proof. exact sin_phase_reference. Qed.
(* and that is the same time function: with (cw, sw) = (cos wt, sin wt), (c, s) = (cos phi, sin phi) and
   (c', s') = (-s, c) = (cos, sin) of phi + pi/2:  Re(Z e^{jwt}) = A cos(wt + phi) = A sin(wt + phi + pi/2) *)
Theorem C14_agree_time_function : forall (R : fops) (ROK : fops_ok R) (re im A c s cw sw : R),
  re = fmul R A c -> im = fmul R A s ->
  let c' := fopp R s in let s' := c in
  fsub R (fmul R re cw) (fmul R im sw) = fmul R A (fsub R (fmul R cw c) (fmul R sw s)) /\
  fmul R A (fsub R (fmul R cw c) (fmul R sw s)) = fmul R A (fadd R (fmul R sw c') (fmul R cw s')).
Proof. exact sinusoid_forms. Qed.
Print Assumptions C14_agree_time_function.

(* ================= the declarative route (SimpleSimulation/schematic.py) ================= *)
(* which adapter a description selects: type looked up in `solutions`, parameters filtered by the signature of the
   selected factory, defaults precision=3, polar=deg=False, w=0 *)
Theorem C14_declarative_adapter : forall data : ddict,
  dlook data k_schematic = None ->
  adapter_of_description data =
  match select_solution data with
  | SF_empty => DOk AdEmpty
  | SF_real => dbind (get_int data k_precision 3) (fun p => DOk (AdReal p))
  | SF_complex =>
      dbind (get_int data k_precision 3) (fun p => dbind (get_bool data k_polar false) (fun po =>
      dbind (get_bool data k_deg false) (fun dg => DOk (AdComplex None p po dg))))
  | SF_single_frequency_complex =>
      dbind (get_num data k_w 0) (fun w => dbind (get_int data k_precision 3) (fun p =>
      dbind (get_bool data k_polar false) (fun po => dbind (get_bool data k_deg false) (fun dg =>
      DOk (AdComplex (Some w) p po dg)))))
  end.
Proof. exact description_adapter. Qed.
Theorem C14_declarative_types : forall data : ddict,
  (dlook data k_type = Some (DStr (lbl "dc")) -> select_solution data = SF_real) /\
  (dlook data k_type = Some (DStr (lbl "real")) -> select_solution data = SF_real) /\
  (dlook data k_type = Some (DStr (lbl "complex")) -> select_solution data = SF_complex) /\
  (dlook data k_type = Some (DStr (lbl "single_frequency_time_domain")) -> select_solution data = SF_single_frequency_complex).
Proof. exact select_types. Qed.
(* a key that is not a parameter of the selected factory is ignored *)
Theorem C14_declarative_extra_key : forall (data : ddict) (k : label) (v : dvalue),
  label_eqb k k_type = false -> lmem k (sol_signature (select_solution data)) = false ->
  adapter_of_description (data ++ [(k, v)]) = adapter_of_description data.
Proof. exact description_extra_key_ignored. Qed.
(* the text written through a description is the text of the direct call, with reverse=False by default *)
Theorem C14_declarative_is_direct : forall PO SO (data entry : ddict) (q : quantity) (v : reading) (ad : adapter) (rev : bool),
  adapter_of_description data = DOk ad -> entry_reverse entry = DOk rev ->
  declarative_annotation PO SO data q entry v = DOk (annotation PO SO ad q rev v).
Proof. exact declarative_is_direct. Qed.
(* FINDING: no description reaches the sinusoidal adapter — 'single_frequency_time_domain' is bound to
   single_frequency_complex_solution, and single_frequency_time_domain_steady_state_solution is not in the table *)
Theorem C14_declarative_never_sinusoidal : forall (data : ddict) (ad : adapter),
  adapter_of_description data = DOk ad -> match ad with AdSin _ _ _ _ _ => False | _ => True end.
Proof. exact description_never_sinusoidal. Qed.
Print Assumptions C14_declarative_adapter.
Print Assumptions C14_declarative_never_sinusoidal.

(* ================= non-vacuity and witnesses (vm_compute; expected texts taken from the Python code) ================= *)
Definition S (l : list Z) : label := map Z.to_N l.

(* print_real(-1*2.5, 'V', 3) = '-2.50V' *)
Example ex_real_reverse : real_ann QVoltage true (5 # 2) 3 = S [45; 50; 46; 53; 48; 86].
Proof. vm_compute. reflexivity. Qed.
Example ex_real_potential : real_ann QPotential true (5 # 2) 3 = S [50; 46; 53; 48; 86].     (* no reverse: '2.50V' *)
Proof. vm_compute. reflexivity. Qed.
(* hypotheses of C14_real_accurate hold for x = 2.5, p = 3 *)
Example ex_real_hyps : ~ ((5 # 2) == 0)%Q /\ 1 <= 3 /\ ~ (2 <= 3 /\ carry_region_Q (5 # 2) 3) /\ exponent (5 # 2) 3 <= 3.
Proof. split; [discriminate|]. split; [lia|]. split; [|vm_compute; discriminate].
  intros [_ [_ C]]. vm_compute in C. discriminate C. Qed.
Example ex_real_accurate : exists r s, parse true tab_umk (unit_of QVoltage) (real_ann QVoltage true (5 # 2) 3) = Some r /\
    p_inf r = false /\ (p_neg r = true <-> (sgnQ true (5 # 2) < 0)%Q) /\
    sig_exp (5 # 2) 3 s /\ (Qabs (pvalue r - sgnQ true (5 # 2)) <= Qpow10 s / 2)%Q.
Proof. destruct ex_real_hyps as [H1 [H2 [H3 H4]]].
  exact (C14_real_accurate QVoltage true (5 # 2) 3 ltac:(discriminate) H1 H2 H3 H4). Qed.
(* print_active_power(-0.75, 3) = '750mW↑', print_active_power(1500.0, 3) = '1.50kW↓' *)
Example ex_power_up : real_ann QPower false (-3 # 4) 3 = S [55; 53; 48; 109; 87; 8593].
Proof. vm_compute. reflexivity. Qed.
Example ex_power_down : real_ann QPower true (-1500 # 1) 3 = S [49; 46; 53; 48; 107; 87; 8595].
Proof. vm_compute. reflexivity. Qed.
Example ex_power_hyps : ~ ((-3 # 4) == 0)%Q /\ 1 <= 3 /\ ~ (2 <= 3 /\ carry_region_Q (-3 # 4) 3) /\ exponent (-3 # 4) 3 <= 12.
Proof. split; [discriminate|]. split; [lia|]. split; [|vm_compute; discriminate].
  intros [_ [C _]]. vm_compute in C. apply C. reflexivity. Qed.

(* print_complex(3-4j, 'A', 3) = '3.00A-j4.00A'; reversed: '-3.00A+j4.00A' *)
Definition PO0 : polar_oracle := {| po_abs := fun _ => 5 # 1; po_small := fun _ _ => false;
  po_text := fun deg z => if Qneg (snd z) then S [45; 53; 51; 46; 49; 51] else S [49; 50; 54; 46; 56; 55] |}.
Example ex_cartesian : complex_ann PO0 QCurrent false (3 # 1, -4 # 1) 3 false false
  = S [51; 46; 48; 48; 65; 45; 106; 52; 46; 48; 48; 65].
Proof. vm_compute. reflexivity. Qed.
Example ex_cartesian_reverse : complex_ann PO0 QCurrent true (3 # 1, -4 # 1) 3 false false
  = S [45; 51; 46; 48; 48; 65; 43; 106; 52; 46; 48; 48; 65].
Proof. vm_compute. reflexivity. Qed.
Example ex_cartesian_parse : option_map cart_value
    (parse_cartesian tab_umk (unit_of QCurrent) (S [45; 51; 46; 48; 48; 65; 43; 106; 52; 46; 48; 48; 65]))
  = Some ((-300 # 1) * (1 # 100), (400 # 1) * (1 # 100))%Q.
Proof. vm_compute. reflexivity. Qed.
Example ex_part_ok : part_ok (3 # 1) 3 /\ part_ok (-4 # 1) 3.
Proof. split; (split; [discriminate|]; split; [|vm_compute; split; discriminate]);
  intros [_ [_ C]]; vm_compute in C; discriminate C. Qed.
(* print_complex(3-4j, 'V', 3, polar=True, deg=True) = '5.00V∠-53.13°'; reversed '5.00V∠126.87°' (angle texts: oracle) *)
Example ex_polar : complex_ann PO0 QVoltage false (3 # 1, -4 # 1) 3 true true
  = S [53; 46; 48; 48; 86; 8736; 45; 53; 51; 46; 49; 51; 176].
Proof. vm_compute. reflexivity. Qed.
Example ex_polar_reverse : complex_ann PO0 QVoltage true (3 # 1, -4 # 1) 3 true true
  = S [53; 46; 48; 48; 86; 8736; 49; 50; 54; 46; 56; 55; 176].
Proof. vm_compute. reflexivity. Qed.

(* print_sinosoidal(3+4j, 'V', 3, w=100.0) = '5.00V·cos(100/s·t+927e-3)'
   print_sinosoidal(3+4j, 'V', 3, w=100.0, sin=True, deg=True, hertz=True) = '5.00V·sin(2π·15.9Hz·t+143°)'
   oracle values: the binary64 results of cmath.phase, + pi/2, math.degrees, w/2/pi for this input *)
Definition SO0 : sin_oracle := {|
  so_abs := fun _ => 5 # 1;
  so_arg := fun _ => 8352332796509007 # 9007199254740992;
  so_add_halfpi := fun _ => 175787564848171 # 70368744177664;
  so_degrees := fun _ => 5035942778341233 # 35184372088832;
  so_hz := fun _ => 2239906695008851 # 140737488355328 |}.
Example ex_sinusoid_cos : sin_ann SO0 QVoltage false (3 # 1, 4 # 1) 3 (100 # 1) false false false
  = S [53; 46; 48; 48; 86; 183; 99; 111; 115; 40; 49; 48; 48; 47; 115; 183; 116; 43; 57; 50; 55; 101; 45; 51; 41].
Proof. vm_compute. reflexivity. Qed.
Example ex_sinusoid_sin : sin_ann SO0 QVoltage false (3 # 1, 4 # 1) 3 (100 # 1) true true true
  = S [53; 46; 48; 48; 86; 183; 115; 105; 110; 40; 50; 960; 183; 49; 53; 46; 57; 72; 122; 183; 116; 43; 49; 52; 51; 176; 41].
Proof. vm_compute. reflexivity. Qed.
Example ex_sinusoid_dc : sin_ann SO0 QVoltage false (3 # 1, 4 # 1) 3 0 false false false = S [53; 46; 48; 48; 86].
Proof. vm_compute. reflexivity. Qed.

(* peak / rms: sqrt2 * sqrt2 = 2 has no solution in the executable field Qc (it has in the reals); the general form
   C14_agree_peak_rms_general is instantiated with sqrt2 := 7/5 over Qc *)
Example ex_peak_rms :
  let sp := {| cs_sol := {| s_net := {| branches := []; zero := [] |}; s_x := [] |}; cs_peak := true |} : csol Qcops in
  let sr := {| cs_sol := cs_sol sp; cs_peak := false |} : csol Qcops in
  cs_peak sp = true /\ cs_peak sr = false /\ qc 7 5 <> f0 Qcops /\
  unpeak Qcops (qc 7 5) sp (cq 7 1 (-14) 1) = cq 7 1 (-14) 1 /\ unpeak Qcops (qc 7 5) sr (cq 7 1 (-14) 1) = cq 5 1 (-10) 1.
Proof. cbv zeta. repeat split; try discriminate; vm_compute; reflexivity. Qed.

(* the declarative route: {'type': 'dc', 'precision': 4, 'voltages': [...]}, unknown keys ignored *)
Example ex_description_dc :
  adapter_of_description [(k_type, DStr (lbl "dc")); (k_precision, DInt 4); (lbl "voltages", DOther)] = DOk (AdReal 4).
Proof. vm_compute. reflexivity. Qed.
Example ex_description_sftd :
  adapter_of_description [(k_type, DStr (lbl "single_frequency_time_domain")); (k_w, DNum (100 # 1)); (k_polar, DBool true);
                          (lbl "sin", DBool true); (lbl "hertz", DBool true)]
  = DOk (AdComplex (Some (100 # 1)) 3 true false).
Proof. vm_compute. reflexivity. Qed.
Example ex_description_unknown : adapter_of_description [(k_type, DStr (lbl "transient"))] = DOk AdEmpty.
Proof. vm_compute. reflexivity. Qed.
Example ex_description_schematic_key :
  adapter_of_description [(k_type, DStr (lbl "dc")); (k_schematic, DOther)] = DErr DE_TypeError.
Proof. vm_compute. reflexivity. Qed.
Example ex_declarative_text :
  declarative_annotation PO0 SO0 [(k_type, DStr (lbl "dc")); (k_precision, DInt 3)] QVoltage
    [(k_name, DStr (lbl "R2")); (k_reverse, DBool true)] {| rd_real := 5 # 2; rd_cplx := (5 # 2, 0%Q) |}
  = DOk (S [45; 50; 46; 53; 48; 86]).
Proof. vm_compute. reflexivity. Qed.
