(* placeholder: theorems follow *)
From CC Require Import Model.Network.
Example C14_model_runs : True. Proof. exact I. Qed.
