(* C02 (continued) — Circuit/circuit.py and the single-frequency classes of Circuit/solution.py (DCSolution, ComplexSolution) as
   REGENERATED on every run (Gen/CircuitGen.v, produced by tools/gen_circuit.py in the vocabulary of Model/CircuitGenPrims.v)
   are the hand-written model of Model/Circuit.v (ground_node, transform_circuit, frequency_components, the dc_ getters, complex_solution,
   the c_ getters).  With this, C02 / C07 / C09 are statements about the code as read from the source: an edit to circuit.py or
   solution.py changes Gen/CircuitGen.v and breaks one of the equalities below (or is refused by the translator).
   A Python object is a record of its attributes (Circuit R, DCSolution R, ComplexSolution R); a constructor call is the
   class's g_<Class>_post_init.  The dataclass field `solver` is fixed to its default.
   Statements only; proofs are in Theory/CircuitGenThm.v and Theory/CircuitMore.v. *)
From Coq Require Import List Bool ZArith NArith String QArith Qcanon.
From CC Require Import Theory.Field Theory.Complex Theory.Labels Model.Network Theory.Spec Gen.Tables Model.Circuit
  Model.CircuitPrims Gen.Transformers Model.RunCircuit Theory.CircuitThm Theory.MultiFreq Theory.TransformersGen
  Model.CircuitGenPrims Gen.CircuitGen Theory.CircuitMore Theory.CircuitGenThm Properties.C07 Properties.C02.
Import ListNotations.
Local Open Scope string_scope.

(* ================= A. circuit.py ================= *)
(* Circuit.__post_init__: the instance is the component list with the ground node of the model — same exceptions, in the
   same order (MultipleGroundNodes before AmbiguousComponentID) *)
Theorem C02c_post_init : forall (R : fops) (cs : list (comp R)),
  g_Circuit_post_init R cs
  = match ground_node R cs with Ok g => Ok {| Circuit_components := cs; Circuit_ground_node := g |} | Err e => Err e end.
Proof. exact post_init_eq. Qed.
Print Assumptions C02c_post_init.

(* Circuit.__getitem__ (hand model added in Theory/CircuitMore.v): the first component with that id, ValueError otherwise *)
Theorem C02c_getitem : forall (R : fops) (circ : Circuit R) (key : label),
  g_Circuit_getitem R circ key
  = match find (fun c => label_eqb (cid c) key) (Circuit_components R circ) with Some c => Ok c | None => Err EValue end.
Proof. exact getitem_eq. Qed.
Print Assumptions C02c_getitem.
(* ... which, the ids being pairwise distinct after __post_init__ (C07_duplicate_ids), is THE component with that id *)
Theorem C02c_getitem_unique : forall (R : fops) (cs : list (comp R)) (circ : Circuit R) (c : comp R),
  g_Circuit_post_init R cs = Ok circ -> In c cs -> g_Circuit_getitem R circ (cid c) = Ok c.
Proof. exact getitem_unique. Qed.
Print Assumptions C02c_getitem_unique.
Theorem C02c_getitem_absent : forall (R : fops) (circ : Circuit R) (key : label),
  ~ In key (map cid (Circuit_components R circ)) -> g_Circuit_getitem R circ key = Err EValue.
Proof. exact getitem_absent. Qed.
Print Assumptions C02c_getitem_absent.

(* transform_circuit: the comprehension over the components whose type is a key of the regenerated `transformers` table, each
   sent through the regenerated dispatch, and the Network constructor with the circuit's ground node *)
Theorem C02c_transform_circuit_vocabulary : forall (R : fops) leb rnd ofZ (circ : Circuit R) (w wres : R),
  g_transform_circuit R leb rnd ofZ circ w wres
  = bind (mapM (fun c => g_translate R leb rnd ofZ c w wres)
               (filter (fun c => match flookup (kind_name (ck c)) transformer_table with Some _ => true | None => false end)
                       (Circuit_components R circ)))
         (fun bs => validate {| branches := bs; zero := Circuit_ground_node R circ |}).
Proof. reflexivity. Qed.
Print Assumptions C02c_transform_circuit_vocabulary.
(* ... composed with the constructor it is g_transform_circuit of Theory/TransformersGen.v (C07c) *)
Theorem C02c_transform_circuit_regenerated : forall (R : fops) leb rnd ofZ (cs : list (comp R)) (w wres : R),
  bind (g_Circuit_post_init R cs) (fun circ => g_transform_circuit R leb rnd ofZ circ w wres)
  = TransformersGen.g_transform_circuit R leb rnd ofZ cs w wres.
Proof. exact gtc_regenerated. Qed.
Print Assumptions C02c_transform_circuit_regenerated.

Definition C02c_transform_circuit_full : Prop :=
  forall (R : fops) leb rnd ofZ (cs : list (comp R)) (circ : Circuit R) (w wres : R),
    g_Circuit_post_init R cs = Ok circ ->
    g_transform_circuit R leb rnd ofZ circ w wres = transform_circuit R leb rnd ofZ cs w wres.
(* FALSE for the present hand model, for the reason recorded in C07c_resistive_load_full: a lamp / resistive load with
   fewer than two terminals raises IndexError in the code where the model reports the element's exception first. *)
Theorem C02c_transform_circuit_partial : forall (R : fops) leb rnd ofZ (cs : list (comp R)) (circ : Circuit R) (w wres : R),
  g_Circuit_post_init R cs = Ok circ ->
  (forall c, In c cs -> ck c = KLamp \/ ck c = KResLoad -> (2 <= List.length (cnodes c))%nat) ->
  g_transform_circuit R leb rnd ofZ circ w wres = transform_circuit R leb rnd ofZ cs w wres.
Proof. exact gtc_eq. Qed.
Print Assumptions C02c_transform_circuit_partial.
Theorem C02c_transform_circuit_outcome : forall (R : fops) leb rnd ofZ (cs : list (comp R)) (circ : Circuit R) (w wres : R),
  g_Circuit_post_init R cs = Ok circ ->
  match g_transform_circuit R leb rnd ofZ circ w wres, transform_circuit R leb rnd ofZ cs w wres with
  | Ok n, Ok n' => n = n' | Err _, Err _ => True | _, _ => False end.
Proof. exact gtc_outcome. Qed.
Print Assumptions C02c_transform_circuit_outcome.
Theorem C02c_transform_circuit_full_refuted : ~ C02c_transform_circuit_full.
Proof. intros H.
  pose (cs := [mkc KResistor "r" ["1"; "0"] [("R", q 1 1)]; mkc KLamp "p" ["1"] [("P", q 1 1)]]).
  assert (P : exists circ, g_Circuit_post_init Qcops cs = Ok circ).
  { destruct (g_Circuit_post_init Qcops cs) as [circ|e] eqn:E; [eauto|]. vm_compute in E. discriminate E. }
  destruct P as [circ P].
  specialize (H Qcops Qc_leb Qc_round Qc_ofZ cs circ (q 0 1) (q 0 1) P).
  assert (E : match transform_circuit Qcops Qc_leb Qc_round Qc_ofZ cs (q 0 1) (q 0 1) with Err EKeyError => true | _ => false end = true)
    by (vm_compute; reflexivity).
  rewrite <- H in E.
  assert (E' : match bind (g_Circuit_post_init Qcops cs) (fun circ => g_transform_circuit Qcops Qc_leb Qc_round Qc_ofZ circ (q 0 1) (q 0 1))
               with Err EIndex => true | _ => false end = true) by (vm_compute; reflexivity).
  rewrite P in E'. cbn [bind] in E'.
  destruct (g_transform_circuit Qcops Qc_leb Qc_round Qc_ofZ circ (q 0 1) (q 0 1)) as [n|[]]; discriminate. Qed.
Print Assumptions C02c_transform_circuit_full_refuted.

(* transform (hand model added in Theory/CircuitMore.v: one transform_circuit per frequency, in order) *)
Theorem C02c_transform_unfolded : forall (R : fops) leb rnd ofZ (cs : list (comp R)) (ws : list R) (wres : R),
  transform R leb rnd ofZ cs ws wres = mapM (fun w => transform_circuit R leb rnd ofZ cs w wres) ws.
Proof. reflexivity. Qed.
Print Assumptions C02c_transform_unfolded.
Theorem C02c_transform_partial : forall (R : fops) leb rnd ofZ (cs : list (comp R)) (circ : Circuit R) (ws : list R) (wres : R),
  g_Circuit_post_init R cs = Ok circ ->
  (forall c, In c cs -> ck c = KLamp \/ ck c = KResLoad -> (2 <= List.length (cnodes c))%nat) ->
  g_transform R leb rnd ofZ circ ws wres = transform R leb rnd ofZ cs ws wres.
Proof. exact gtransform_eq. Qed.
Print Assumptions C02c_transform_partial.
Theorem C02c_transform_outcome : forall (R : fops) leb rnd ofZ (cs : list (comp R)) (circ : Circuit R) (ws : list R) (wres : R),
  g_Circuit_post_init R cs = Ok circ ->
  match g_transform R leb rnd ofZ circ ws wres, transform R leb rnd ofZ cs ws wres with
  | Ok n, Ok n' => n = n' | Err _, Err _ => True | _, _ => False end.
Proof. exact gtransform_outcome. Qed.
Print Assumptions C02c_transform_outcome.

(* frequency_components and its inner function *)
Theorem C02c_frequencies : forall (R : fops) (ofZ : Z -> R) (flr : R -> Z) (wmax : R) (c : comp R),
  g_frequency_components_frequencies R ofZ flr wmax c = comp_frequencies R ofZ flr c wmax.
Proof. exact gfrequencies_eq. Qed.
Print Assumptions C02c_frequencies.
Theorem C02c_frequency_components : forall (R : fops) leb (ofZ : Z -> R) (flr : R -> Z) (circ : Circuit R) (wmax : R),
  g_frequency_components R leb ofZ flr circ wmax = frequency_components R leb ofZ flr (Circuit_components R circ) wmax.
Proof. exact gfreq_eq. Qed.
Print Assumptions C02c_frequency_components.

(* the default of transform's parameter w_resolution, which DCSolution / ComplexSolution / ... rely on, as written in the source *)
Theorem C02c_default_w_resolution : dflt_transform_w_resolution_literal = "0.001".
Proof. reflexivity. Qed.
Print Assumptions C02c_default_w_resolution.

(* ================= B. solution.py: DCSolution ================= *)
(* [wres] is the value of that default; DCSolution(circuit) solves the w = 0 network of the model *)
Definition C02c_dc_post_full : Prop :=
  forall (R : fops) leb rnd ofZ (wres : R) (cs : list (comp R)) (circ : Circuit R),
    g_Circuit_post_init R cs = Ok circ ->
    match g_DCSolution_post_init R leb rnd ofZ wres circ with Ok self => Ok (DCSolution__solution R self) | Err e => Err e end
    = dc_solution R leb rnd ofZ cs wres.
(* not provable: see C02c_transform_circuit_full *)
Theorem C02c_dc_post_partial : forall (R : fops) leb rnd ofZ (wres : R) (cs : list (comp R)) (circ : Circuit R),
  g_Circuit_post_init R cs = Ok circ ->
  (forall c, In c cs -> ck c = KLamp \/ ck c = KResLoad -> (2 <= List.length (cnodes c))%nat) ->
  match g_DCSolution_post_init R leb rnd ofZ wres circ with Ok self => Ok (DCSolution__solution R self) | Err e => Err e end
  = dc_solution R leb rnd ofZ cs wres.
Proof. exact dc_post_eq. Qed.
Print Assumptions C02c_dc_post_partial.
Theorem C02c_dc_post_outcome : forall (R : fops) leb rnd ofZ (wres : R) (cs : list (comp R)) (circ : Circuit R),
  g_Circuit_post_init R cs = Ok circ ->
  match g_DCSolution_post_init R leb rnd ofZ wres circ, dc_solution R leb rnd ofZ cs wres with
  | Ok self, Ok s => DCSolution__solution R self = s | Err _, Err _ => True | _, _ => False end.
Proof. exact dc_post_outcome'. Qed.
Print Assumptions C02c_dc_post_outcome.
Theorem C02c_dc_get_voltage : forall (R : fops) (self : DCSolution R) (id : label),
  g_DCSolution_get_voltage R self id = dc_voltage R (DCSolution__solution R self) id.
Proof. exact dc_get_voltage_eq. Qed.
Theorem C02c_dc_get_current : forall (R : fops) (self : DCSolution R) (id : label),
  g_DCSolution_get_current R self id = dc_current R (DCSolution__solution R self) id.
Proof. exact dc_get_current_eq. Qed.
Theorem C02c_dc_get_potential : forall (R : fops) (self : DCSolution R) (l : label),
  g_DCSolution_get_potential R self l = dc_potential R (DCSolution__solution R self) l.
Proof. exact dc_get_potential_eq. Qed.
Theorem C02c_dc_get_power : forall (R : fops) (self : DCSolution R) (id : label),
  g_DCSolution_get_power R self id = dc_power R (DCSolution__solution R self) id.
Proof. exact dc_get_power_eq. Qed.
Print Assumptions C02c_dc_get_voltage. Print Assumptions C02c_dc_get_current.
Print Assumptions C02c_dc_get_potential. Print Assumptions C02c_dc_get_power.

(* ================= C. solution.py: ComplexSolution ================= *)
(* the model's csol of an instance: its network solution and its peak_values flag *)
Theorem C02c_to_csol_unfolded : forall (R : fops) (self : ComplexSolution R),
  to_csol R self = {| cs_sol := ComplexSolution__solution R self; cs_peak := ComplexSolution_peak_values R self |}.
Proof. reflexivity. Qed.
Print Assumptions C02c_to_csol_unfolded.
Theorem C02c_complex_post_partial : forall (R : fops) leb rnd ofZ (wres : R) (cs : list (comp R)) (circ : Circuit R) (w : R) (peak : bool),
  g_Circuit_post_init R cs = Ok circ ->
  (forall c, In c cs -> ck c = KLamp \/ ck c = KResLoad -> (2 <= List.length (cnodes c))%nat) ->
  match g_ComplexSolution_post_init R leb rnd ofZ wres circ w peak with Ok self => Ok (to_csol R self) | Err e => Err e end
  = complex_solution R leb rnd ofZ cs w wres peak.
Proof. exact cx_post_eq. Qed.
Print Assumptions C02c_complex_post_partial.
Theorem C02c_complex_post_outcome : forall (R : fops) leb rnd ofZ (wres : R) (cs : list (comp R)) (circ : Circuit R) (w : R) (peak : bool),
  g_Circuit_post_init R cs = Ok circ ->
  match g_ComplexSolution_post_init R leb rnd ofZ wres circ w peak, complex_solution R leb rnd ofZ cs w wres peak with
  | Ok self, Ok s => to_csol R self = s | Err _, Err _ => True | _, _ => False end.
Proof. exact cx_post_outcome'. Qed.
Print Assumptions C02c_complex_post_outcome.
Theorem C02c_complex_fields : forall (R : fops) leb rnd ofZ (wres : R) (circ : Circuit R) (w : R) (peak : bool) (self : ComplexSolution R),
  g_ComplexSolution_post_init R leb rnd ofZ wres circ w peak = Ok self ->
  ComplexSolution_circuit R self = circ /\ ComplexSolution_w R self = w /\ ComplexSolution_peak_values R self = peak.
Proof. exact cx_fields_kept. Qed.
Print Assumptions C02c_complex_fields.
(* the getters: X if peak_values, X/sqrt(2) otherwise; power 1/2 V conj(I) if peak_values, V conj(I) otherwise *)
Theorem C02c_complex_get_voltage : forall (R : fops) (sqrt2 : R) (self : ComplexSolution R) (id : label),
  g_ComplexSolution_get_voltage R sqrt2 self id = c_voltage R sqrt2 (to_csol R self) id.
Proof. exact cx_get_voltage_eq. Qed.
Theorem C02c_complex_get_current : forall (R : fops) (sqrt2 : R) (self : ComplexSolution R) (id : label),
  g_ComplexSolution_get_current R sqrt2 self id = c_current R sqrt2 (to_csol R self) id.
Proof. exact cx_get_current_eq. Qed.
Theorem C02c_complex_get_potential : forall (R : fops) (sqrt2 : R) (self : ComplexSolution R) (l : label),
  g_ComplexSolution_get_potential R sqrt2 self l = c_potential R sqrt2 (to_csol R self) l.
Proof. exact cx_get_potential_eq. Qed.
Theorem C02c_complex_get_power : forall (R : fops) (sqrt2 : R) (self : ComplexSolution R) (id : label),
  g_ComplexSolution_get_power R sqrt2 self id = c_power R sqrt2 (to_csol R self) id.
Proof. exact cx_get_power_eq. Qed.
Print Assumptions C02c_complex_get_voltage. Print Assumptions C02c_complex_get_current.
Print Assumptions C02c_complex_get_potential. Print Assumptions C02c_complex_get_power.

(* ================= non-vacuity (the circuit of Properties/C07.v, w = 2) ================= *)
(* the regenerated constructor accepts the example circuit: ground node "0" (a ground component is listed last) *)
Example C02c_example_post_init :
  okb (g_Circuit_post_init Qcops ex_cs) (fun circ => label_eqb (Circuit_ground_node Qcops circ) (lbl "0")
                                                     && Nat.eqb (List.length (Circuit_components Qcops circ)) 9) = true.
Proof. vm_compute. reflexivity. Qed.
(* the hypothesis on loads holds of it (it has none) and of the component list of C07 with a lamp and a resistive load *)
Example C02c_example_loads :
  (forall c, In c ex_cs -> ck c = KLamp \/ ck c = KResLoad -> (2 <= List.length (cnodes c))%nat)
  /\ (forall c, In c ex_all -> ck c = KLamp \/ ck c = KResLoad -> (2 <= List.length (cnodes c))%nat)
  /\ existsb (fun c : qcomp => ckind_eqb (ck c) KLamp) ex_all = true.
Proof. split; [|split]; [apply (loads_okb_ok Qcops)|apply (loads_okb_ok Qcops)|]; vm_compute; reflexivity. Qed.
(* the regenerated pipeline Circuit(...) -> ComplexSolution(circuit, w=2) -> get_voltage('R1') runs, in both modes, and
   returns what the model returns *)
Example C02c_example_complex :
  okb (g_Circuit_post_init Qcops ex_cs) (fun circ =>
  okb (g_ComplexSolution_post_init Qcops Qc_leb Qc_round Qc_ofZ ex_wres circ ex_w true) (fun sp =>
  okb (g_ComplexSolution_post_init Qcops Qc_leb Qc_round Qc_ofZ ex_wres circ ex_w false) (fun sr =>
  okb (g_ComplexSolution_get_voltage Qcops ex_sqrt2 sp (lbl "R1")) (fun vp =>
  okb (g_ComplexSolution_get_voltage Qcops ex_sqrt2 sr (lbl "R1")) (fun vr =>
  okb (g_ComplexSolution_get_power Qcops ex_sqrt2 sp (lbl "R1")) (fun pp =>
  okb (g_ComplexSolution_get_power Qcops ex_sqrt2 sr (lbl "R1")) (fun pr =>
  okb (q_complex_solution ex_cs ex_w ex_wres true) (fun hp => okb (c_voltage Qcops ex_sqrt2 hp (lbl "R1")) (fun hv =>
    negb (feqb CQ vp (f0 CQ)) && feqb CQ vr (fdiv CQ vp (ex_sqrt2, 0%Qc)) && feqb CQ vp hv
    && negb (feqb CQ pp (f0 CQ)) && negb (feqb CQ pp pr)))))))))) = true.
Proof. vm_compute. reflexivity. Qed.
(* DCSolution(circuit): solved; the capacitor carries no current, the inductor a current; on a 6 V source across 3 Ohm
   the resistor's power is 6 * 2 *)
Definition ex_dc : list qcomp := [
  mkc KDcV "V" ["1"; "0"] [("V", q 6 1); ("R", q 0 1); ("w", q 0 1); ("phi", q 0 1)];
  mkc KResistor "R" ["1"; "0"] [("R", q 3 1)]; mkc KGround "gnd" ["0"] [] ].
Example C02c_example_dc :
  okb (g_Circuit_post_init Qcops ex_cs) (fun circ =>
  okb (g_DCSolution_post_init Qcops Qc_leb Qc_round Qc_ofZ ex_wres circ) (fun self =>
  okb (g_DCSolution_get_current Qcops self (lbl "C1")) (fun i =>
  okb (g_DCSolution_get_current Qcops self (lbl "L1")) (fun il =>
    Qc_eq_bool i 0 && negb (Qc_eq_bool il 0))))) = true
  /\ okb (g_Circuit_post_init Qcops ex_dc) (fun circ =>
     okb (g_DCSolution_post_init Qcops Qc_leb Qc_round Qc_ofZ ex_wres circ) (fun self =>
     okb (g_DCSolution_get_power Qcops self (lbl "R")) (fun p => Qc_eq_bool p (q 12 1)))) = true.
Proof. vm_compute. auto. Qed.
(* __getitem__ finds a component, and raises ValueError for an unknown id *)
Example C02c_example_getitem :
  okb (g_Circuit_post_init Qcops ex_cs) (fun circ =>
    okb (g_Circuit_getitem Qcops circ (lbl "L1")) (fun c => ckind_eqb (ck c) KInductance)
    && match g_Circuit_getitem Qcops circ (lbl "nope") with Err EValue => true | _ => false end) = true.
Proof. vm_compute. reflexivity. Qed.
(* frequency_components of the example: 0 (dc source and harmonic 0), 1, 2 (ac sources and harmonics) up to w_max = 5/2 *)
Example C02c_example_frequencies :
  okb (g_Circuit_post_init Qcops ex_cs) (fun circ =>
  okb (g_frequency_components Qcops Qc_leb Qc_ofZ Qc_floor circ (q 5 2)) (fun l => qlist_eqb l [q 0 1; q 1 1; q 2 1])) = true.
Proof. vm_compute. reflexivity. Qed.
(* the exception order of __post_init__: two grounds AND a duplicate id -> MultipleGroundNodes *)
Example C02c_example_exception_order :
  match g_Circuit_post_init Qcops [mkc KGround "g" ["0"] []; mkc KGround "g" ["1"] []] with Err EMultipleGround => true | _ => false end = true
  /\ match g_Circuit_post_init Qcops [mkc KGround "g" ["0"] []; mkc KResistor "g" ["1"; "0"] [("R", q 1 1)]] with Err EAmbiguousComponent => true | _ => false end = true
  /\ okb (g_Circuit_post_init Qcops []) (fun circ => label_eqb (Circuit_ground_node Qcops circ) []) = true.
Proof. vm_compute. auto. Qed.
