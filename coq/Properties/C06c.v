(* C06c — the port functions of node_analysis.py (open_circuit_impedance, element_impedance) as REGENERATED from the source on this run are the model functions of Model/Port.v that C06_port and its corollaries are about, the assembled system they solve is the regenerated one, and the deactivation operations they call are the regenerated ones.
   Statements only; each proof is [exact] the theorem of the same statement in the property file it is listed under. *)
From Coq Require Import String.
From Coq Require Import List Bool ZArith NArith Permutation.
From CC Require Import Theory.Field Theory.Complex Theory.Labels Model.Network Model.Transformers Model.NetworkPrims
  Model.StateSpace Model.Port Model.MatrixPrims Gen.NetworkGen Gen.MatrixGen Theory.Api Theory.NetworkGenThm
  Theory.MatrixGenThm.
Import ListNotations.
From Coq Require Import List Bool ZArith NArith.
From CC Require Import Theory.Field Theory.Complex Theory.Labels Model.Network Model.Transformers Model.NetworkPrims
  Gen.NetworkGen Theory.NetworkGenThm.
Import ListNotations.
From CC Require Import Properties.C01d Properties.C16c.

Theorem C06c_open_circuit_impedance : forall (K : fops) (KOK : fops_ok K) (n : network K) (n1 n2 : label),
  py_node_analysis.open_circuit_impedance K n n1 n2 (py_node_analysis.open_circuit_impedance__default_node_index_mapper K)
  = open_circuit_impedance n n1 n2.
Proof. exact C01d_open_circuit_impedance. Qed.
Print Assumptions C06c_open_circuit_impedance.

Theorem C06c_element_impedance : forall (K : fops) (KOK : fops_ok K) (n : network K) (id : label),
  py_node_analysis.element_impedance K n id (py_node_analysis.element_impedance__default_node_index_mapper K)
  = element_impedance n id.
Proof. exact C01d_element_impedance. Qed.
Print Assumptions C06c_element_impedance.

Theorem C06c_coefficient_matrix : forall (K : fops) (KOK : fops_ok K) (n : network K), NoDup (branch_ids n) ->
  py_node_analysis.nodal_analysis_coefficient_matrix K n (py_node_analysis.nodal_analysis_coefficient_matrix__default_node_mapper K)
    (py_node_analysis.nodal_analysis_coefficient_matrix__default_source_mapper K)
  = Ok {| a_cols := length (node_index n) + length (vs_index n); a_rows := mna_matrix n |}.
Proof. exact C01d_coefficient_matrix. Qed.
Print Assumptions C06c_coefficient_matrix.

Theorem C06c_constants_vector : forall (K : fops) (n : network K), NoDup (branch_ids n) ->
  py_node_analysis.nodal_analysis_constants_vector K n (py_node_analysis.nodal_analysis_constants_vector__default_node_mapper K)
    (py_node_analysis.nodal_analysis_constants_vector__default_current_source_mapper K)
    (py_node_analysis.nodal_analysis_constants_vector__default_voltage_source_mapper K)
  = Ok (mna_rhs n).
Proof. exact C01d_constants_vector. Qed.
Print Assumptions C06c_constants_vector.

Theorem C06c_short_circuitify_voltage_sources : forall (K : fops) (n : network K) (keep : list (elem K)),
  py_transformers.short_circuitify_voltage_sources K n keep = short_circuitify_voltage_sources n keep.
Proof. exact C16c_short_circuitify_voltage_sources. Qed.
Print Assumptions C06c_short_circuitify_voltage_sources.

Theorem C06c_open_circuitify_current_sources : forall (K : fops) (n : network K) (keep : list (elem K)),
  py_transformers.open_circuitify_current_sources K n keep = open_circuitify_current_sources n keep.
Proof. exact C16c_open_circuitify_current_sources. Qed.
Print Assumptions C06c_open_circuitify_current_sources.

Theorem C06c_remove_element : forall (K : fops) (n : network K) (id : label),
  py_transformers.remove_element K n id = remove_element n id.
Proof. exact C16c_remove_element. Qed.
Print Assumptions C06c_remove_element.

