(* Properties/C12.v — transient simulation: what holds at every sample, whatever integrator produced the states.
   TransientSolution hands the solver  StateSpaceModel(A, B, I, 0), u[k] = input[sources[k]](t), t, x0 = 0  and reads
   every quantity at every sample as  c_row . x + d_row . u  (Model/StateSpace.v: the transient_ and out_ definitions).
   Proofs: Theory/StateSpaceThm.v.  Hypotheses as in Properties/C10.v. *)
From Coq Require Import List Bool ZArith NArith QArith Qcanon.
From CC Require Import Theory.Field Theory.Complex Model.Network Model.StateSpace Model.Circuit Theory.Spec Theory.Api
  Theory.Matrix Theory.StateSpaceThm.
Import ListNotations.
Local Open Scope nat_scope.

(* C12 "KCL at every node at every sample, capacitor current = C dv/dt, inductor voltage = L di/dt, ...": for EVERY state
   vector x and input vector u (in particular the pair at any sample), with dx := A x + B u the derivative the
   simulated differential equation assigns to that sample, the reported potentials phi, voltages and currents j satisfy
     phi(reference) = 0, voltage of b = phi(first) - phi(second), Kirchhoff's current law at every node,
     capacitor k: voltage = x_k, current = C_k * dx_k;      inductor k: current = x_(nC+k), voltage = L_k * dx_(nC+k);
     ideal voltage source: voltage = its input;  current source: current = its input;  other branches: i = Y v. *)
Theorem C12_laws_every_sample : forall (K : fops) (KOK : fops_ok K) (n : network K) (cvals lvals : list (label * K)),
  (forall k, k < ss_nst K cvals lvals -> nth k (lam K cvals lvals) (f0 K) <> f0 K) ->
  rlc_dc K n cvals lvals ->
  forall m : ssm K, state_space_matrices K n cvals lvals = Ok m ->
  forall x u : list K, length x = ss_nst K cvals lvals -> length u = ss_nS K n lvals ->
  exists (phi : label -> K) (j : branch K -> K),
     (forall node, node = zero n \/ In node (node_index n) -> out_potential K n cvals lvals m node x u = Ok (phi node))
  /\ (forall b, In b (branches n) ->
        out_voltage K n cvals lvals m (bid b) x u = Ok (bvolt phi b) /\ out_current K n cvals lvals m (bid b) x u = Ok (j b))
  /\ phi (zero n) = f0 K
  /\ (forall node, kcl_sum (branches n) j node = f0 K)
  /\ (forall b, In b (branches n) -> lmem (bid b) (ckeys K cvals) = true ->
        bvolt phi b = nth (lindex (ckeys K cvals) (bid b)) x (f0 K)
        /\ j b = fmul K (vlookup K cvals (bid b)) (nth (lindex (ckeys K cvals) (bid b)) (ss_xdot K m x u) (f0 K)))
  /\ (forall b, In b (branches n) -> lmem (bid b) (lkeys K lvals) = true ->
        j b = nth (ss_nC K cvals + lindex (lkeys K lvals) (bid b)) x (f0 K)
        /\ bvolt phi b = fmul K (vlookup K lvals (bid b))
                                (nth (ss_nC K cvals + lindex (lkeys K lvals) (bid b)) (ss_xdot K m x u) (f0 K)))
  /\ (forall b, In b (branches n) -> is_ideal_voltage_source (el b) = true -> lmem (bid b) (lkeys K lvals) = false ->
        bvolt phi b = nth (lindex (sources K n lvals) (bid b)) u (f0 K))
  /\ (forall b, In b (branches n) -> is_current_source (el b) = true ->
        j b = nth (lindex (sources K n lvals) (bid b)) u (f0 K))
  /\ (forall b, In b (branches n) -> lmem (bid b) (ckeys K cvals) = false -> is_ideal_voltage_source (el b) = false ->
        is_current_source (el b) = false -> j b = fmul K (finY b) (bvolt phi b)).
Proof. exact ss_laws. Qed.
Print Assumptions C12_laws_every_sample.

(* C12 "start from rest": the solver [sim] (a Section variable of the model: any function) is called with the nodal A, B,
   with C = I and D = 0, with the input signals in the order of [sources], and with the zero initial state *)
Theorem C12_solver_call : forall (K : fops) (n : network K) (cvals lvals : list (label * K)) (T sig : Type)
  (sim : ssm K -> list sig -> T -> list K -> list sig) (input : label -> T -> sig) (m : ssm K) (tin : T),
  transient_states K n cvals lvals T sig sim input m tin =
  sim {| ss_A := ss_A m; ss_B := ss_B m; ss_C := ident (ss_nst K cvals lvals);
         ss_D := map (fun _ => zero_row K (ss_nS K n lvals)) (seq 0 (ss_nst K cvals lvals)) |}
      (map (fun id => input id tin) (sources K n lvals)) tin (zero_row K (ss_nst K cvals lvals)).
Proof. exact transient_call. Qed.
Theorem C12_rest : forall (K : fops) (cvals lvals : list (label * K)),
  length (transient_x0 K cvals lvals) = ss_nst K cvals lvals /\ forall k, nth k (transient_x0 K cvals lvals) (f0 K) = f0 K.
Proof. exact transient_rest. Qed.
(* C12 "row k of the input matrix is input[sources[k]]" *)
Theorem C12_input_order : forall (K : fops) (n : network K) (lvals : list (label * K)) (T sig : Type)
  (input : label -> T -> sig) (tin : T),
  length (transient_u K n lvals T sig input tin) = length (sources K n lvals)
  /\ forall k, k < length (sources K n lvals) ->
       nth_error (transient_u K n lvals T sig input tin) k = Some (input (nth k (sources K n lvals) []) tin).
Proof. exact transient_input_order. Qed.
Print Assumptions C12_solver_call.
Print Assumptions C12_rest.
Print Assumptions C12_input_order.

(* ---- non-vacuity: the circuit of Properties/C10.v (inductors listed Lb, La; current source M1 between them and Vs) ---- *)
From Coq Require Import String.
Local Open Scope string_scope.
Definition q (a : Z) (b : positive) : Qcops := qc a b.
Definition ex_net : network Qcops :=
  {| zero := lbl "0";
     branches := [ Build_branch (lbl "2") (lbl "3") (impedance (lbl "Lb") (q 0 1));
                   Build_branch (lbl "1") (lbl "2") (resistor (lbl "R1") (q 2 1));
                   Build_branch (lbl "0") (lbl "3") (current_source (lbl "M1") (q 1 1) (q 0 1));
                   Build_branch (lbl "2") (lbl "0") (impedance (lbl "La") (q 0 1));
                   Build_branch (lbl "3") (lbl "0") (admittance (lbl "C1") (q 0 1));
                   Build_branch (lbl "3") (lbl "0") (resistor (lbl "R2") (q 5 1));
                   Build_branch (lbl "1") (lbl "0") (voltage_source (lbl "Vs") (q 1 1) (q 0 1)) ] |}.
Definition ex_c : list (label * Qcops) := [(lbl "C1", q 1 2)].
Definition ex_l : list (label * Qcops) := [(lbl "Lb", q 2 1); (lbl "La", q 3 1)].

Example C12_example_hyp : rlc_dcb ex_net ex_c ex_l = true /\ lam_nzb ex_c ex_l = true.
Proof. vm_compute. split; reflexivity. Qed.
Example C12_example_rlc : rlc_dc Qcops ex_net ex_c ex_l.
Proof. exact (rlc_dcb_ok ex_net ex_c ex_l (proj1 C12_example_hyp)). Qed.
(* observers at the sample x = (1, 2, 3), u = (5, 7): KCL at node 3 (Lb arrives; M1 arrives; C1, R2 leave) and at node 2;
   capacitor current = C * (A x + B u)_0; voltage across La = L * (A x + B u)_2 *)
Definition cur (m : ssm Qcops) (id : string) (x u : list Qcops) : Qcops :=
  match out_current Qcops ex_net ex_c ex_l m (lbl id) x u with Ok a => a | Err _ => q 0 1 end.
Definition vol (m : ssm Qcops) (id : string) (x u : list Qcops) : Qcops :=
  match out_voltage Qcops ex_net ex_c ex_l m (lbl id) x u with Ok a => a | Err _ => q 0 1 end.
Example C12_example_sample :
  match state_space_matrices Qcops ex_net ex_c ex_l with
  | Ok m => let x := [q 1 1; q 2 1; q 3 1] in let u := [q 5 1; q 7 1] in
            Qc_eq_bool (cur m "Lb" x u + cur m "M1" x u - cur m "C1" x u - cur m "R2" x u)%Qc (q 0 1)
            && Qc_eq_bool (cur m "R1" x u - cur m "Lb" x u - cur m "La" x u)%Qc (q 0 1)
            && Qc_eq_bool (cur m "C1" x u) (q 1 2 * nth 0 (ss_xdot Qcops m x u) (q 0 1))%Qc
            && Qc_eq_bool (vol m "La" x u) (q 3 1 * nth 2 (ss_xdot Qcops m x u) (q 0 1))%Qc
            && negb (Qc_eq_bool (cur m "C1" x u) (q 0 1))
  | Err _ => false
  end = true.
Proof. vm_compute. reflexivity. Qed.
