(* C20 — For any sequence of constructions, analyses, queries and transformations performed in one process, each result
   equals the result obtained for the same description in isolation.  No analysis, transformation or loader mutates the
   network, circuit, component or dictionary objects passed to it.
   Statements only; every proof is [exact <lemma>].  Model: Model/Heap.v — a pool [list obj] of shared argument objects,
   [step : pool -> op -> pool * result]; a history is [run] (a fold_left threading the pool), the isolated evaluation of
   a call is [iso s0 op] = its result on the initial pool.
   What the model covers: object VALUES in the pool (descriptions, networks, exemption lists, labels); the loaders write
   the post-state of their argument back; the bias-point solver, its queries and the nine network transformers are pure
   functions in the model by construction (Model/Network.v, Model/Transformers.v are functional programs), so for them
   the frame property is a property of the modelling, discharged on the implementation side by the history harness
   (harness/c20.py: deep fingerprints of every pool object and of library defaults after every call, fresh-process
   isolated evaluation).  Not modelled: module-level state of the library, default-argument objects, object identity /
   aliasing between pool objects. *)
From Coq Require Import List Bool ZArith NArith QArith Qcanon String.
From CC Require Import Theory.Field Theory.Complex Theory.Labels Model.Network Model.Transformers Model.Codec Model.Circuit
  Model.RunCircuit Model.Loaders Theory.LoadersThm Model.Heap Theory.HistoryThm.
Import ListNotations.

(* ================= A. the history theorem (any object, operation and result types, any step function) ================= *)
(* if no operation changes the pool, every result of the history is the result of the same call in isolation *)
Theorem C20_history : forall (obj op result : Type) (step : list obj -> op -> list obj * result),
  (forall o, Frame obj op result step o) ->
  forall s0 ops, map snd (run obj op result step s0 ops) = map (iso obj op result step s0) ops.
Proof. exact history. Qed.
Print Assumptions C20_history.
(* it suffices that the operations actually performed are frame-preserving; the pool at the end is the initial pool *)
Theorem C20_history_restricted : forall (obj op result : Type) (step : list obj -> op -> list obj * result) s0 ops,
  (forall o, In o ops -> Frame obj op result step o) ->
  map snd (run obj op result step s0 ops) = map (iso obj op result step s0) ops /\ final obj op result step s0 ops = s0.
Proof. exact history_restricted. Qed.
Print Assumptions C20_history_restricted.
(* whatever was called before a call is immaterial to its result *)
Theorem C20_prefix_irrelevant : forall (obj op result : Type) (step : list obj -> op -> list obj * result),
  (forall o, Frame obj op result step o) ->
  forall s0 before o, map snd (run obj op result step s0 (before ++ [o])) = map (iso obj op result step s0) before ++ [iso obj op result step s0 o].
Proof. exact history_prefix_irrelevant. Qed.
Print Assumptions C20_prefix_irrelevant.

(* ================= B. the operations of the model ================= *)
(* loaders (load_network, to_complex, dictify_all, undictify_all, generate_component, undictify_circuit) in
   state-passing style; solve + four queries; the nine transformers with shared exemption lists *)
Theorem C20_no_mutation : forall (R : fops) (leb : R -> R -> bool) (pi : R) (cis : R -> R * R) (o : op),
  Frame (obj R) op (result R) (step_model R leb pi cis) o.
Proof. exact step_frame. Qed.
Print Assumptions C20_no_mutation.
Theorem C20_model_history : forall (R : fops) (leb : R -> R -> bool) (pi : R) (cis : R -> R * R) (s0 : list (obj R)) (ops : list op),
  map snd (run (obj R) op (result R) (step_model R leb pi cis) s0 ops) = map (iso (obj R) op (result R) (step_model R leb pi cis) s0) ops
  /\ final (obj R) op (result R) (step_model R leb pi cis) s0 ops = s0.
Proof. exact model_history. Qed.
Print Assumptions C20_model_history.

(* ================= C. the frame hypothesis is needed: the loader before fix 6828b52 ================= *)
Definition qpi : Qc := qc 355 113.
Definition qcis (x : Qc) : Qc * Qc := (1%Qc, 0%Qc).
Definition qn (n : Z) (d : positive) : jval Qcops := JNum (qc n d : Qcops).
Definition ex_pool : list (obj Qcops) := [
  ODoc (JList [
    JDict [(s_type, JStr (lbl "real_voltage_source")); (s_id, JStr (lbl "U")); (s_N1, JStr (lbl "1")); (s_N2, JStr (lbl "0")); (s_V, qn 10 1)];
    JDict [(s_type, JStr (lbl "resistor")); (s_id, JStr (lbl "R1")); (s_N1, JStr (lbl "1")); (s_N2, JStr (lbl "0")); (s_R, qn 5 1)]]);
  OLabel (lbl "R1")]%string.
(* outcome of a result: 0 = a value, otherwise the code of the exception class (Model/Codec.v; 13 = FileExistsError) *)
Definition res_tag {A} (r : res A) : Z := match r with Ok _ => 0%Z | Err e => err_code e end.
Definition tag (r : result Qcops) : Z :=
  match r with
  | RNet r => res_tag r | RCplx r => res_tag r | RDoc r => res_tag r | RComp r => res_tag r | RCircuit r => res_tag r
  | RSol r => res_tag r | RVal r => res_tag r | RWrongArgument => (-1)%Z
  end.
Definition ex_history : list op := [LoadNetwork 0; LoadNetwork 0].
(* with the pre-fix loader (its step pops the keys of the caller's entries) loading the same object twice in one process
   succeeds, then raises; in isolation both calls succeed: the conclusion of C20_history fails ... *)
Example C20_frame_needed :
  map tag (map snd (run (obj Qcops) op (result Qcops) (step_prefix Qcops Qc_leb qpi qcis) ex_pool ex_history)) = [0; 13]%Z
  /\ map tag (map (iso (obj Qcops) op (result Qcops) (step_prefix Qcops Qc_leb qpi qcis) ex_pool) ex_history) = [0; 0]%Z.
Proof. vm_compute. split; reflexivity. Qed.
Example C20_frame_needed_neq :
  map snd (run (obj Qcops) op (result Qcops) (step_prefix Qcops Qc_leb qpi qcis) ex_pool ex_history)
  <> map (iso (obj Qcops) op (result Qcops) (step_prefix Qcops Qc_leb qpi qcis) ex_pool) ex_history.
Proof. apply (map_neq tag). vm_compute. discriminate. Qed.
(* ... while with the loader of today the same history gives the isolated results (an instance of C20_model_history), and
   a longer one mixing loaders, the solver, queries and transformers returns what each call returns alone *)
Definition ex_history2 : list op :=
  [LoadNetwork 0; LoadNetwork 0; DictifyAll 0; UndictifyAll 0; LoadNetwork 0; Voltage 0 1; LoadNetwork 0].
Example C20_example_today :
  map tag (map snd (run (obj Qcops) op (result Qcops) (step_model Qcops Qc_leb qpi qcis) ex_pool ex_history)) = [0; 0]%Z
  /\ map tag (map snd (run (obj Qcops) op (result Qcops) (step_model Qcops Qc_leb qpi qcis) ex_pool ex_history2))
     = map tag (map (iso (obj Qcops) op (result Qcops) (step_model Qcops Qc_leb qpi qcis) ex_pool) ex_history2).
Proof. vm_compute. split; reflexivity. Qed.
(* dump_load.undictify_complex_values — the helper under undictify_all — rewrites the dictionary it is given in place (its
   post-state differs from its argument); it is only ever handed a dictionary built inside undictify_all, which is why
   undictify_all itself satisfies the frame property (C17_no_mutation_others).  Called directly on a caller's dictionary
   it is not frame-preserving: *)
Example C20_undictify_values_writes_in_place :
  let d : dict (jval Qcops) := [(lbl "z", JDict [(s_real, qn 1 1); (s_imag, qn 2 1)])]%string in
  jval_eqb Qcops (JDict (snd (undictify_values_st Qcops Qc_leb qpi qcis d))) (JDict d) = false.
Proof. vm_compute. reflexivity. Qed.
