(* placeholder: theorems follow *)
From CC Require Import Model.Circuit.
Example C20_model_runs : True. Proof. exact I. Qed.
