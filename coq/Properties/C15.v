(* C15 — saving a schematic to JSON and loading it back preserves the translated circuit, for any number of cycles;
   a declarative element list builds the same circuit as the equivalent programmatic construction.
   Statements only; every proof is [exact <lemma>].  Model: Model/SaveLoad.v — the DATA PATH of
   SimpleCircuit/dump_load.py (dictify_element, dictify_all, undictify_element with the merge of the stored circuit's
   component values by element name, combine_to_complex, the rule of fix 4ff892f, simple_circuit_element_types),
   of the constructors of SimpleCircuit/Elements.py, of CircuitComponentTranslators.py + components.py, and of
   SimpleSimulation/schematic.py (element_handlers, element_factory, direction / length / place_after).  The tables and
   per-class rules are hand-written mirrors.  A translated component carries its terminal POINTS in order: node names,
   hence connectivity and the reference node, are a function of the terminal points (DiagramParser), and the points are
   restored verbatim.  Not modelled: the schemdraw drawing state, the JSON text layer, the sign guards of components.py.
     view_of s  = (class, .name, is_reverse, start point, end point, translate s)   — what is compared
     good vs    = no class outside the model; the drawing translates; component ids pairwise distinct; an element
                  without component (wire, generic element) does not carry the id of a component *)
From Coq Require Import List Bool NArith ZArith QArith Qcanon String.
From CC Require Import Theory.Field Theory.Complex Model.Network Model.Circuit Model.Loaders Model.SaveLoad Theory.SaveLoadThm.
Import ListNotations.

(* ================= one cycle, n cycles ================= *)
Theorem C15_roundtrip : forall (R : fops) (ROK : fops_ok R) (pi : R) (d : list (symbol R)),
  good R (map (view_of R pi) d) ->
  exists d', cycle R pi d = Ok d' /\ map (view_of R pi) d' = map (view_of R pi) d.
Proof. exact cycle_preserves. Qed.
Print Assumptions C15_roundtrip.

Theorem C15_iterate : forall (R : fops) (ROK : fops_ok R) (pi : R) (n : nat) (d : list (symbol R)),
  good R (map (view_of R pi) d) ->
  exists d', cycles R pi n d = Ok d' /\ map (view_of R pi) d' = map (view_of R pi) d.
Proof. exact cycles_preserve. Qed.
Print Assumptions C15_iterate.

(* what the hypothesis and the conclusion say *)
Theorem C15_good_meaning : forall (R : fops) (vs : list (view R)),
  good R vs <->
  (Forall (fun v => match v_cls R v with COther _ => False | _ => True end) vs /\
   exists cs, comps_of_views R vs = Ok cs /\ NoDup (map t_id cs) /\
     Forall (fun v => v_comp R v = Ok None -> ~ In (v_name R v) (map t_id cs)) vs).
Proof. exact good_iff. Qed.
Theorem C15_components_meaning : forall (R : fops) (pi : R) (d : list (symbol R)),
  components R pi d = comps_of_views R (map (view_of R pi) d).
Proof. exact components_views. Qed.
Theorem C15_cycle_meaning : forall (R : fops) (pi : R) (d : list (symbol R)),
  cycle R pi d = bind (save R pi d) (load R pi).
Proof. exact cycle_unfold. Qed.

(* one symbol: whatever the stored circuit dictionary holds for other names *)
Theorem C15_roundtrip_symbol : forall (R : fops) (ROK : fops_ok R) (pi : R) (cd : dict (dict (jval R))) (s : symbol R),
  match s_cls s with COther _ => False | _ => True end ->
  (forall c, translate R pi s = Ok (Some c) -> dget cd (pname R s) = Some (t_vals c)) ->
  (translate R pi s = Ok None -> dget cd (pname R s) = None) ->
  (exists r, translate R pi s = Ok r) ->
  exists s', load_symbol R pi true cd (save_symbol R s) = Ok s' /\ view_of R pi s' = view_of R pi s.
Proof. exact load_save_symbol. Qed.
Print Assumptions C15_roundtrip_symbol.

(* ================= a class outside the loader table ================= *)
(* it comes back as the generic Element, which has no translator entry other than `none`: outside the property's domain;
   e.g. tri_voltage_source, saw_*, labeled_line, node, switch, real_*_source, and Lamp (no .type at all) *)
Theorem C15_unknown_kind : forall (R : fops) (pi : R) (fixed : bool) cd (s s' : symbol R) (t : option label),
  s_cls s = COther t -> match t with Some x => tlook element_types x = None | None => True end ->
  load_symbol R pi fixed cd (save_symbol R s) = Ok s' -> s_cls s' = CElement /\ translate R pi s' = Ok None.
Proof. exact unknown_kind_generic. Qed.
Theorem C15_unknown_kind_loads : forall (R : fops) (pi : R) (fixed : bool) cd (s : symbol R) (t : option label),
  s_cls s = COther t -> match t with Some x => tlook element_types x = None | None => True end ->
  dget cd (s_name s) = None ->
  exists s', load_symbol R pi fixed cd (save_symbol R s) = Ok s'.
Proof. exact unknown_kind_loads. Qed.
Print Assumptions C15_unknown_kind.

(* ================= witnesses over Qc, pi := 22/7 ================= *)
Definition QR := Qcops.
Definition qpi : Qc := qc 22 7.
Definition n (a : Z) (b : positive) : jval QR := @JNum QR (qc a b).
Definition pt (x y : Z) : point QR := (qc x 1, qc y 1).
Definition mk (c : scls) (kw : dict (jval QR)) (a b : point QR) : symbol QR :=
  match construct QR qpi c kw a b with Ok s => s
  | Err _ => {| s_cls := CElement; s_name := []; s_reverse := false; s_attr := []; s_user := []; s_start := a; s_end := b |} end.

(* ACVoltageSource(V=10, w=50, phi=30, name='S', deg=True, reverse=True).up(); Resistor(R=5, name='R1').right();
   Impedance(Z=1+2j, name='Z1').down(); Line().left(); Ground() *)
Definition ex_drawing : list (symbol QR) :=
  [mk CACVoltageSource [(q_V, n 10 1); (q_w, n 50 1); (q_phi, n 30 1); (q_name, JStr (lbl "S")); (q_deg, JBool true);
                        (q_reverse, JBool true)] (pt 0 0) (pt 0 3);
   mk CResistor [(q_R, n 5 1); (q_name, JStr (lbl "R1"))] (pt 0 3) (pt 3 3);
   mk CImpedance [(q_Z, @JCplx QR (qc 1 1, qc 2 1)); (q_name, JStr (lbl "Z1"))] (pt 3 3) (pt 3 0);
   mk CLine [] (pt 3 0) (pt 0 0);
   mk CGround [] (pt 0 0) (pt 0 0)].

Ltac vmr := match goal with |- ?a = ?b => vm_cast_no_check (@eq_refl _ a) end.   (* checked by the kernel's VM at Qed *)

(* the translation: S on (end, start) = reversed terminals with V = 10 and phi = 30*pi/180 *)
Example ex_translates : option_map (map (fun c => (t_type c, t_id c, t_nodes c))) (match components QR qpi ex_drawing with Ok cs => Some cs | Err _ => None end)
  = Some [(t_ac_voltage_source, lbl "S", [pt 0 3; pt 0 0]); (t_resistor, lbl "R1", [pt 0 3; pt 3 3]);
          (t_impedance, lbl "Z1", [pt 3 3; pt 3 0]); (t_ground, lbl "0", [pt 0 0])].
Proof. vmr. Qed.
Example ex_phase : match translate QR qpi (nth 0 ex_drawing (mk CLine [] (pt 0 0) (pt 0 0))) with
                   | Ok (Some c) => dget (t_vals c) q_phi | _ => None end = Some (@JNum QR (Qcdiv (Qcmult (qc 30 1) qpi) (qc 180 1))).
Proof. vmr. Qed.

Example ex_good : good QR (map (view_of QR qpi) ex_drawing).
Proof. apply goodb_ok. vmr. Qed.
(* hence, by the theorems, and also by computation: four cycles give the same views *)
Example ex_cycles : option_map (map (view_of QR qpi)) (match cycles QR qpi 4 ex_drawing with Ok d' => Some d' | Err _ => None end)
  = Some (map (view_of QR qpi) ex_drawing).
Proof. vmr. Qed.
(* the reloaded source keeps phi in radians with the degree flag cleared *)
Example ex_reloaded_flags : match cycle QR qpi ex_drawing with
                            | Ok (s :: _) => (dget (s_attr s) q_deg, dget (s_user s) q_deg, dget (s_attr s) q_phi)
                            | _ => (None, None, None) end
  = (Some (JBool false), Some (JBool false), Some (@JNum QR (Qcdiv (Qcmult (qc 30 1) qpi) (qc 180 1)))).
Proof. vmr. Qed.

(* ---- before fix 4ff892f: the degree flag stayed set, the phase was converted a second time ---- *)
Definition phase_of_first (d : list (symbol QR)) : option (jval QR) :=
  match d with
  | s :: _ => match translate QR qpi s with Ok (Some c) => dget (t_vals c) q_phi | _ => None end
  | [] => None
  end.
Definition ex_before : list (symbol QR) :=
  match bind (save QR qpi ex_drawing) (load_before_fix QR qpi) with Ok d' => d' | Err _ => [] end.
Theorem C15_refuted_before_fix :
  exists (d d' : list (symbol QR)), good QR (map (view_of QR qpi) d) /\
    bind (save QR qpi d) (load_before_fix QR qpi) = Ok d' /\
    map (view_of QR qpi) d' <> map (view_of QR qpi) d /\
    (* the phase of the source: 30*pi/180 before, (30*pi/180)*pi/180 after *)
    phase_of_first d = Some (@JNum QR (rad QR qpi (qc 30 1))) /\
    phase_of_first d' = Some (@JNum QR (rad QR qpi (rad QR qpi (qc 30 1)))).
Proof.
  exists ex_drawing, ex_before. split; [exact ex_good|]. split; [vmr|]. split; [|split; vmr].
  intros H.
  assert (E : forall a b : list (view QR), a = b ->
            match a, b with
            | v :: _, v' :: _ =>
                match v_comp QR v, v_comp QR v' with
                | Ok (Some c), Ok (Some c') =>
                    match dget (t_vals c) q_phi, dget (t_vals c') q_phi with
                    | Some (JNum x), Some (JNum y) => Qc_eq_bool x y = true
                    | _, _ => True end
                | _, _ => True end
            | _, _ => True end).
  { intros a b ->. destruct b as [|v b]; [exact I|]. destruct (v_comp QR v) as [[c|]|]; try exact I.
    destruct (dget (t_vals c) q_phi) as [[]|]; try exact I. unfold Qc_eq_bool. destruct (Qc_eq_dec q q); congruence. }
  specialize (E _ _ H). vm_compute in E. discriminate E.
Qed.
Print Assumptions C15_refuted_before_fix.
(* the same document through the loader of today *)
Example ex_after_fix : exists d', bind (save QR qpi ex_drawing) (load QR qpi) = Ok d' /\
  map (view_of QR qpi) d' = map (view_of QR qpi) ex_drawing.
Proof. exact (C15_roundtrip QR Qcops_ok qpi ex_drawing ex_good). Qed.

(* ---- an unknown kind: a triangular source is written with type 'tri_voltage_source' and comes back as Element ---- *)
Definition ex_tri : symbol QR :=
  {| s_cls := COther (Some (lbl "tri_voltage_source")); s_name := lbl "T"; s_reverse := false;
     s_attr := [(q_V, n 1 1)]; s_user := [(q_V, n 1 1); (q_w, n 1 1); (q_phi, n 0 1); (q_name, JStr (lbl "T"))];
     s_start := pt 0 0; s_end := pt 0 3 |}.
Example ex_unknown : match load_symbol QR qpi true [] (save_symbol QR ex_tri) with
                     | Ok s' => s_cls s' = CElement /\ translate QR qpi s' = Ok None /\ s_name s' = lbl "T"
                     | Err _ => False end.
Proof. vm_compute. repeat split. Qed.
Example ex_unknown_hyp : tlook element_types (lbl "tri_voltage_source") = None.
Proof. reflexivity. Qed.

(* a decision procedure for the hypothesis *)
Theorem C15_good_checker : forall (R : fops) (vs : list (view R)), goodb R vs = true -> good R vs.
Proof. exact goodb_ok. Qed.

(* ================= declarative element lists ================= *)
(* build_decl: schematic.fill (handler table, element_factory defaults, the whole entry passed as keyword arguments,
   direction / length * unit / place_after = end of the first element of that name, default position = end of the
   element added last).  build_prog: d += Cls( ** kw).<direction>(length).at(obj.end).  equivalent_program: the program
   with the same classes, the entries' own keyword arguments, absolute lengths and place_after resolved to an object.
   Compared (pview_of): class, name, reverse flag, the attributes the class computes from its arguments, start, end. *)
Theorem C15_declarative : forall (R : fops) (pi : R) (unit_ : R) (origin : point R)
    (es : list (delem R)) (done_d done_p rd : list (placed R)),
  map (pview_of R pi) done_d = map (pview_of R pi) done_p ->
  build_decl R unit_ origin done_d es = Ok rd ->
  exists ss rp, equivalent_program R unit_ (map (pl_name R) done_p) es = Ok ss /\
    build_prog R origin done_p ss = Ok rp /\ map (pview_of R pi) rd = map (pview_of R pi) rp.
Proof. exact declarative_is_programmatic. Qed.
Print Assumptions C15_declarative.
(* from the empty drawing *)
Theorem C15_declarative_from_empty : forall (R : fops) (pi : R) (unit_ : R) (origin : point R) (es : list (delem R)) (rd : list (placed R)),
  build_decl R unit_ origin [] es = Ok rd ->
  exists ss rp, equivalent_program R unit_ [] es = Ok ss /\
    build_prog R origin [] ss = Ok rp /\ map (pview_of R pi) rd = map (pview_of R pi) rp.
Proof. exact declarative_from_empty. Qed.
(* the layout keys that travel with the entry into the constructor do not change what the class keeps *)
Theorem C15_layout_keys_ignored : forall (R : fops) (pi : R) (c : scls) (e : delem R) (a b : point R),
  pview_of R pi {| pl_cls := c; pl_kw := with_defaults R (entry_dict R e); pl_start := a; pl_end := b |}
  = pview_of R pi {| pl_cls := c; pl_kw := with_defaults R (e_vals R e); pl_start := a; pl_end := b |}.
Proof. exact new_pview. Qed.

(* witness: {'unit': 3, 'elements': [voltage_source V up, resistor R1 right, resistor R2 down, line left, ground,
   resistor R3 down length 1 place_after R1]} *)
Definition de (ty : label) (vals : dict (jval QR)) (d : option direction) (l : option Qc) (a : option label) : delem QR :=
  {| e_type := ty; e_vals := vals; e_dir := d; e_len := l; e_after := a |}.
Definition ex_description : list (delem QR) :=
  [de t_voltage_source [(q_name, JStr (lbl "V")); (q_V, n 12 1)] (Some DUp) None None;
   de t_resistor [(q_name, JStr (lbl "R1")); (q_R, n 10 1)] (Some DRight) None None;
   de t_resistor [(q_name, JStr (lbl "R2")); (q_R, n 20 1); (q_reverse, JBool true)] (Some DDown) None None;
   de t_line [] (Some DLeft) None None;
   de t_ground [] None None None;
   de t_resistor [(q_name, JStr (lbl "R3")); (q_R, n 47 1)] (Some DDown) (Some (qc 1 1)) (Some (lbl "R1"))].
Example ex_decl_builds :
  option_map (map (fun p => (pl_cls QR p, pl_name QR p, pl_start QR p, pl_end QR p)))
    (match build_decl QR (qc 3 1) (pt 0 0) [] ex_description with Ok r => Some r | Err _ => None end)
  = Some [(CVoltageSource, lbl "V", pt 0 0, pt 0 3); (CResistor, lbl "R1", pt 0 3, pt 3 3);
          (CResistor, lbl "R2", pt 3 3, pt 3 0); (CLine, [], pt 3 0, pt 0 0); (CGround, lbl "", pt 0 0, pt 0 0);
          (CResistor, lbl "R3", pt 3 3, pt 3 0)].
Proof. vmr. Qed.
Example ex_equivalent_program :
  option_map (map (fun s => (p_cls QR s, p_dir QR s, p_len QR s, p_at QR s)))
    (match equivalent_program QR (qc 3 1) [] ex_description with Ok r => Some r | Err _ => None end)
  = Some [(CVoltageSource, Some DUp, qc 3 1, None); (CResistor, Some DRight, qc 3 1, None);
          (CResistor, Some DDown, qc 3 1, None); (CLine, Some DLeft, qc 3 1, None); (CGround, None, qc 3 1, None);
          (CResistor, Some DDown, qc 3 1, Some 1%nat)].
Proof. vmr. Qed.
Definition ex_rd : list (placed QR) := match build_decl QR (qc 3 1) (pt 0 0) [] ex_description with Ok r => r | Err _ => [] end.
Example ex_decl_ok : build_decl QR (qc 3 1) (pt 0 0) [] ex_description = Ok ex_rd.
Proof. vmr. Qed.
Example ex_decl_prog_same : exists ss rp, equivalent_program QR (qc 3 1) [] ex_description = Ok ss /\
    build_prog QR (pt 0 0) [] ss = Ok rp /\ map (pview_of QR qpi) ex_rd = map (pview_of QR qpi) rp.
Proof. exact (C15_declarative_from_empty QR qpi (qc 3 1) (pt 0 0) ex_description ex_rd ex_decl_ok). Qed.

(* ================= recorded for the report (translation rule, not the round trip) =================
   ACVoltageSource(phi, deg=True, sin=True): __init__ subtracts pi/2 (radians) from a phase given in DEGREES, the
   translator then converts (phi - pi/2) degrees to radians; the sine reference moves the phase by 1.57 degrees instead of
   90.  The round trip preserves this value. *)
Example ex_deg_sin_mix :
  let s := mk CACVoltageSource [(q_V, n 10 1); (q_w, n 50 1); (q_phi, n 30 1); (q_name, JStr (lbl "S")); (q_deg, JBool true);
                                (q_sin, JBool true)] (pt 0 0) (pt 0 3) in
  phase_of_first [s] = Some (@JNum QR (rad QR qpi (Qcminus (qc 30 1) (halfpi QR qpi)))) /\
  Qc_eq_bool (rad QR qpi (Qcminus (qc 30 1) (halfpi QR qpi))) (Qcminus (rad QR qpi (qc 30 1)) (halfpi QR qpi)) = false.
Proof. cbv zeta. split; vmr. Qed.
