(* C04c — the two zeroing operations superposition is stated through, and the assembled system, are the ones regenerated from the source on this run.
   Statements only; each proof is [exact] the theorem of the same statement in the property file it is listed under. *)
From Coq Require Import List Bool ZArith NArith.
From CC Require Import Theory.Field Theory.Complex Theory.Labels Model.Network Model.Transformers Model.NetworkPrims
  Gen.NetworkGen Theory.NetworkGenThm.
Import ListNotations.
From Coq Require Import String.
From Coq Require Import List Bool ZArith NArith Permutation.
From CC Require Import Theory.Field Theory.Complex Theory.Labels Model.Network Model.Transformers Model.NetworkPrims
  Model.StateSpace Model.Port Model.MatrixPrims Gen.NetworkGen Gen.MatrixGen Theory.Api Theory.NetworkGenThm
  Theory.MatrixGenThm.
Import ListNotations.
From CC Require Import Properties.C16c Properties.C01d.

Theorem C04c_short_circuitify_voltage_sources : forall (K : fops) (n : network K) (keep : list (elem K)),
  py_transformers.short_circuitify_voltage_sources K n keep = short_circuitify_voltage_sources n keep.
Proof. exact C16c_short_circuitify_voltage_sources. Qed.
Print Assumptions C04c_short_circuitify_voltage_sources.

Theorem C04c_open_circuitify_current_sources : forall (K : fops) (n : network K) (keep : list (elem K)),
  py_transformers.open_circuitify_current_sources K n keep = open_circuitify_current_sources n keep.
Proof. exact C16c_open_circuitify_current_sources. Qed.
Print Assumptions C04c_open_circuitify_current_sources.

Theorem C04c_solver_system : forall (K : fops) (KOK : fops_ok K) (n n' : network K), validate n = Ok n' ->
  bind (py_node_analysis.nodal_analysis_coefficient_matrix K n' (py_node_analysis.nodal_analysis_coefficient_matrix__default_node_mapper K)
          (py_node_analysis.nodal_analysis_coefficient_matrix__default_source_mapper K)) (fun A =>
  bind (py_node_analysis.nodal_analysis_constants_vector K n' (py_node_analysis.nodal_analysis_constants_vector__default_node_mapper K)
          (py_node_analysis.nodal_analysis_constants_vector__default_current_source_mapper K)
          (py_node_analysis.nodal_analysis_constants_vector__default_voltage_source_mapper K)) (fun b =>
  match np_linalg_solve A b with Some x => Ok {| s_net := n'; s_x := x |} | None => Err ESingular end))
  = solve_network n.
Proof. exact C01d_solver_system. Qed.
Print Assumptions C04c_solver_system.

