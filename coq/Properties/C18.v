(* C18 — displayed numbers are accurate to the stated precision.
   Statements only; every proof is [exact <lemma>].  Model: Model/Format.v (mirrors Utils.py FloatPrecision, Float3,
   ScientificFloat, ScientificComplex and the prefix tables of SimpleCircuit/Display.py) applied to the exact
   rational value x of the binary64 input.  Reader of the text: Theory/FormatText.v [parse].
     Qpow10 e            = 10^e as a rational (C18_pow10_meaning)
     carry_region_Q x p  = 1 - 10^-p / 2 <= |x| < 1      (the known defect region of the code, for p >= 2)
     sig_exp x p s       = s is the decimal exponent of the p-th significant digit of x
     pvalue r            = sign * (int + frac / 10^nfrac) * 10^(e-extension + prefix exponent) of a parsed text *)
From Coq Require Import List Bool ZArith NArith QArith Qabs Qpower Lia.
From CC Require Import Model.Network Model.Format Theory.FormatThm Theory.FormatText Theory.FormatSig.
Import ListNotations.
Open Scope Z_scope.

Theorem C18_pow10_meaning : forall e : Z, (Qpow10 e == (10 # 1) ^ e)%Q.
Proof. exact Qpow10_Qpower. Qed.
Print Assumptions C18_pow10_meaning.

(* ---- text assembly: for a p-digit mantissa m and exponent e inside the range, the text reads back to exactly
   m * 10^e; the shown exponent is a multiple of three; 1 <= |shown mantissa| <= 1000; the sign is shown. ---- *)
Theorem C18_text_exact : forall (m e p : Z) (up : bool) (t : table) (un : label),
  1 <= p -> 10 ^ (p - 1) <= Z.abs m <= 10 ^ p -> e <= max_exp up t ->
  (up = true -> table_ok t) -> suffix_clean up t un ->
  exists r, parse up t un (float_text m e p up t un) = Some r /\
    p_inf r = false /\ p_neg r = (m <? 0) /\
    (pvalue r == inject_Z m * Qpow10 e)%Q /\
    shown_exponent r mod 3 = 0 /\
    10 ^ p_nfrac r <= shown_mantissa_scaled r <= 1000 * 10 ^ p_nfrac r.
Proof. exact float_text_exact. Qed.
Print Assumptions C18_text_exact.

(* ---- exponent / mantissa: nearest p-digit decimal, outside the defect region ---- *)
Theorem C18_accuracy : forall (x : Q) (p : Z),
  ~ (x == 0)%Q -> 1 <= p -> ~ (2 <= p /\ carry_region_Q x p) ->
  (Qabs (inject_Z (mantissa x p) * Qpow10 (exponent x p) - x) <= Qpow10 (exponent x p) / 2)%Q /\
  10 ^ (p - 1) <= Z.abs (mantissa x p) <= 10 ^ p /\
  ((0 < x)%Q -> 0 < mantissa x p) /\ ((x < 0)%Q -> mantissa x p < 0).
Proof. exact accuracy_full. Qed.
Print Assumptions C18_accuracy.

(* the same with the error measured on the value's own p-th significant digit (the exponent is that digit's,
   or one more when rounding carries into the next decade, and then the mantissa is exactly 10^(p-1)) *)
Theorem C18_accuracy_sig : forall (x : Q) (p : Z),
  ~ (x == 0)%Q -> 1 <= p -> ~ (2 <= p /\ carry_region_Q x p) ->
  exists s, sig_exp x p s /\
    (Qabs (inject_Z (mantissa x p) * Qpow10 (exponent x p) - x) <= Qpow10 s / 2)%Q /\
    (exponent x p = s \/ (exponent x p = s + 1 /\ Z.abs (mantissa x p) = 10 ^ (p - 1))).
Proof. exact accuracy_sig. Qed.
Print Assumptions C18_accuracy_sig.

(* the half-unit bound on mantissa * 10^exponent itself needs no hypothesis at all *)
Theorem C18_nearest : forall (x : Q) (p : Z),
  (Qabs (inject_Z (mantissa x p) * Qpow10 (exponent x p) - x) <= Qpow10 (exponent x p) / 2)%Q.
Proof. exact exponent_mantissa_accurate. Qed.
Print Assumptions C18_nearest.

(* ---- the defect: everywhere in 1 - 10^-p/2 <= |x| < 1 with p >= 2 the exit "rounded_post_decimal == '0'"
   returns exponent 0 and the mantissa has ONE digit instead of p ---- *)
Theorem C18_carry_defect : forall (x : Q) (p : Z), 2 <= p -> carry_region_Q x p ->
  exponent x p = 0 /\ Z.abs (mantissa x p) = 1 /\ ~ (10 ^ (p - 1) <= Z.abs (mantissa x p)).
Proof. exact carry_defect_range. Qed.
Print Assumptions C18_carry_defect.

(* hence the property at full strength (no exclusion) is refuted on the model *)
Definition C18_accuracy_full : Prop := forall x p, ~ (x == 0)%Q -> 1 <= p ->
  (Qabs (inject_Z (mantissa x p) * Qpow10 (exponent x p) - x) <= Qpow10 (exponent x p) / 2)%Q /\
  10 ^ (p - 1) <= Z.abs (mantissa x p) <= 10 ^ p.
Theorem C18_refuted : ~ C18_accuracy_full.
Proof. exact accuracy_unrestricted_false. Qed.
Print Assumptions C18_refuted.

(* ---- value -> text -> value ---- *)
Theorem C18_rendered_accurate : forall (x : Q) (p : Z) (up : bool) (t : table) (un : label),
  ~ (x == 0)%Q -> 1 <= p -> ~ (2 <= p /\ carry_region_Q x p) -> exponent x p <= max_exp up t ->
  (up = true -> table_ok t) -> suffix_clean up t un ->
  exists r s, parse up t un (sci_text x p up t un) = Some r /\
    p_inf r = false /\ (p_neg r = true <-> (x < 0)%Q) /\
    sig_exp x p s /\ (Qabs (pvalue r - x) <= Qpow10 s / 2)%Q /\
    shown_exponent r mod 3 = 0 /\
    10 ^ p_nfrac r <= shown_mantissa_scaled r <= 1000 * 10 ^ p_nfrac r.
Proof. exact sci_text_accurate_sig. Qed.
Print Assumptions C18_rendered_accurate.

(* ---- saturation ---- *)
Theorem C18_saturate : forall (m e p : Z) (up : bool) (t : table) (un : label),
  max_exp up t < e -> float_text m e p up t un = if m >=? 0 then [INF] else [45%N; INF].
Proof. exact float_text_inf. Qed.
Theorem C18_saturate_value : forall (x : Q) (p : Z) (up : bool) (t : table) (un : label),
  ~ (x == 0)%Q -> 1 <= p -> ~ (2 <= p /\ carry_region_Q x p) -> max_exp up t < exponent x p ->
  sci_text x p up t un = if Qneg x then [45%N; INF] else [INF].
Proof. exact sci_text_saturates. Qed.
Print Assumptions C18_saturate_value.

(* ---- complex, Cartesian: which parts are shown, with which sign strings; the magnitudes are rendered by
   sci_text from |re|, |im|, to which C18_rendered_accurate applies ---- *)
Theorem C18_complex_signs : forall (re im : Q) (p : Z) (up : bool) (t : table) (un : label) (compact : bool),
  let TR := sci_text (Qabs re) p up t un in
  let TI := sci_text (Qabs im) p up t un in
  let rsg := if Qneg re then (if compact then [45%N] else [45%N; 32%N]) else [] in
  let isg := if Qneg im then (if compact then [45%N] else [32%N; 45%N; 32%N])
             else (if compact then [43%N] else [32%N; 43%N; 32%N]) in
  complex_text re im p up t un compact =
    if is_zero (Qabs im) p (min_exp up t) then rsg ++ TR
    else if is_zero (Qabs re) p (min_exp up t) then (if Qneg im then isg ++ LJ :: TI else LJ :: TI)
    else rsg ++ TR ++ isg ++ LJ :: TI.
Proof. exact complex_text_signs. Qed.
Theorem C18_Qneg_meaning : forall x : Q, Qneg x = true <-> (x < 0)%Q.
Proof. exact Qneg_spec. Qed.
Print Assumptions C18_complex_signs.

(* ================= non-vacuity and witnesses (vm_compute over concrete values) ================= *)
Definition S (l : list Z) : label := map Z.to_N l.     (* code points *)

(* every prefix table of Display.py / Utils.py meets table_ok *)
Ltac table_ok_tac :=
  split; [discriminate|]; split; [simpl; repeat (apply NoDup_cons; [simpl; intuition discriminate|]); apply NoDup_nil|];
  split; [intros k l H; simpl in H; repeat (destruct H as [H|H]; [inversion H; subst; discriminate|]); contradiction|];
  intros j H1 H2 H3;
  match type of H1 with lmin ?a <= _ <= lmax _ =>
    let lo := eval vm_compute in (lmin a) in let hi := eval vm_compute in (lmax a) in
    change (lmin a) with lo in H1; change (lmax a) with hi in H1 end;
  assert (Hq : j = 3 * (j / 3)) by (pose proof (Z.div_mod j 3 ltac:(lia)); lia);
  simpl; revert H1 H3; rewrite Hq; generalize (j / 3); intros q H1 H3; lia.
Example table_ok_default : table_ok tab_default. Proof. table_ok_tac. Qed.
Example table_ok_umk : table_ok tab_umk. Proof. table_ok_tac. Qed.
Example table_ok_hz : table_ok tab_hz. Proof. table_ok_tac. Qed.
Example table_ok_ohm : table_ok tab_ohm. Proof. table_ok_tac. Qed.
Example table_ok_cap : table_ok tab_cap. Proof. table_ok_tac. Qed.
Example table_ok_ind : table_ok tab_ind. Proof. table_ok_tac. Qed.

Ltac clean_tac := split; [reflexivity|]; intros _ k l H; simpl in H;
  repeat (destruct H as [H|H]; [inversion H; subst; reflexivity|]); contradiction.
Example clean_V : suffix_clean true tab_umk (S [86]). Proof. clean_tac. Qed.                 (* 'V' *)
Example clean_ohm : suffix_clean true tab_ohm (S [937]). Proof. clean_tac. Qed.              (* 'Ω' *)
Example clean_var : suffix_clean true tab_default (S [118; 97; 114]). Proof. clean_tac. Qed. (* 'var' *)
Example clean_F : suffix_clean true tab_cap (S [70]). Proof. clean_tac. Qed.
Example clean_per_s : suffix_clean false [] (S [47; 115]). Proof. split; [reflexivity|discriminate]. Qed.

(* hypotheses of C18_accuracy / C18_rendered_accurate hold for x = -1234.5678, p = 4, 'V', table u/m/k *)
Example ex_in_range :
  ~ ((-12345678 # 10000) == 0)%Q /\ 1 <= 4 /\ ~ (2 <= 4 /\ carry_region_Q (-12345678 # 10000) 4) /\
  exponent (-12345678 # 10000) 4 <= max_exp true tab_umk.
Proof.
  split; [discriminate|]. split; [lia|]. split; [|vm_compute; discriminate].
  intros [_ [_ C]]. vm_compute in C. discriminate C.
Qed.
Example ex_text : sci_text (-12345678 # 10000) 4 true tab_umk (S [86]) = S [45; 49; 46; 50; 51; 53; 107; 86].  (* -1.235kV *)
Proof. vm_compute. reflexivity. Qed.
Example ex_parse : parse true tab_umk (S [86]) (S [45; 49; 46; 50; 51; 53; 107; 86]) =
  Some {| p_inf := false; p_neg := true; p_int := 1; p_frac := 235; p_nfrac := 3; p_eext := 0; p_epre := 3 |}.
Proof. vm_compute. reflexivity. Qed.
(* all hypotheses of C18_rendered_accurate at once *)
Example ex_rendered : exists r s, parse true tab_umk (S [86]) (sci_text (-12345678 # 10000) 4 true tab_umk (S [86])) = Some r /\
    p_inf r = false /\ (p_neg r = true <-> ((-12345678 # 10000) < 0)%Q) /\
    sig_exp (-12345678 # 10000) 4 s /\ (Qabs (pvalue r - (-12345678 # 10000)) <= Qpow10 s / 2)%Q /\
    shown_exponent r mod 3 = 0 /\
    10 ^ p_nfrac r <= shown_mantissa_scaled r <= 1000 * 10 ^ p_nfrac r.
Proof.
  destruct ex_in_range as [H1 [H2 [H3 H4]]].
  exact (C18_rendered_accurate _ 4 true tab_umk (S [86]) H1 H2 H3 H4 (fun _ => table_ok_umk) clean_V).
Qed.
(* below the smallest prefix: e-extension and prefix together: 1.5e-11 -> 15.0e-6uV *)
Example ex_small : sci_text (15 # 1000000000000) 3 true tab_umk (S [86]) = S [49; 53; 46; 48; 101; 45; 54; 117; 86].
Proof. vm_compute. reflexivity. Qed.
(* rounding carry into the next decade below 1: 0.0099996 -> 10.00mV, exponent one above the digit's *)
Example ex_carry_ok : exponent (99996 # 10000000) 4 = -5 /\ mantissa (99996 # 10000000) 4 = 1000 /\
  sci_text (99996 # 10000000) 4 true tab_umk (S [86]) = S [49; 48; 46; 48; 48; 109; 86].
Proof. vm_compute. repeat split. Qed.
(* saturation: exponent 17 > 16 *)
Example ex_inf : sci_text (- 10 ^ 19 # 1) 3 false [] (S [86]) = S [45; 8734].
Proof. vm_compute. reflexivity. Qed.
(* complex: 3 - 4j -> "3.00V-j4.00V" (compact) *)
Example ex_complex : complex_text (3 # 1) (-4 # 1) 3 true tab_umk (S [86]) true =
  S [51; 46; 48; 48; 86; 45; 106; 52; 46; 48; 48; 86].
Proof. vm_compute. reflexivity. Qed.

(* ---- the defect, concretely: print_real(-0.99996, 'V', 4) ---- *)
Example ex_defect_region : 2 <= 4 /\ carry_region_Q (-99996 # 100000) 4.
Proof. split; [lia|]. split; vm_compute; [discriminate|reflexivity]. Qed.
Example ex_defect_values : exponent (-99996 # 100000) 4 = 0 /\ mantissa (-99996 # 100000) 4 = -1.
Proof. vm_compute. split; reflexivity. Qed.
(* text "0.0010kV": the sign is lost and the shown mantissa 0.0010 is below 1 *)
Example ex_defect_text : sci_text (-99996 # 100000) 4 true tab_umk (S [86]) = S [48; 46; 48; 48; 49; 48; 107; 86].
Proof. vm_compute. reflexivity. Qed.
Example ex_defect_parse : parse true tab_umk (S [86]) (S [48; 46; 48; 48; 49; 48; 107; 86]) =
  Some {| p_inf := false; p_neg := false; p_int := 0; p_frac := 10; p_nfrac := 4; p_eext := 0; p_epre := 3 |}.
Proof. vm_compute. reflexivity. Qed.
(* for p = 2, 3 the one-digit mantissa still renders a correct text: -0.9996 -> "-1.00V" *)
Example ex_defect_p3 : sci_text (-9996 # 10000) 3 true tab_umk (S [86]) = S [45; 49; 46; 48; 48; 86].
Proof. vm_compute. reflexivity. Qed.
(* with a table whose largest key is negative the same exit saturates: print_capacitance(0.99996, 4) -> "∞" *)
Example ex_defect_cap : sci_text (99996 # 100000) 4 true tab_cap (S [70]) = S [8734].
Proof. vm_compute. reflexivity. Qed.
