(* placeholder: theorems follow *)
From CC Require Import Theory.Field Model.Network.
Example C05_model_runs : True. Proof. exact I. Qed.
