(* C05 — power conservation (Tellegen) and physically right signs.
   "In every solved circuit the complex powers of all elements sum to zero (ideal sources and passive elements in
    the passive sign convention, linear sources counted as delivered power), a resistor's power is real,
    non-negative and equals |I|^2*R, an inductor's is purely reactive with Q >= 0 and a capacitor's purely reactive
    with Q <= 0.  Reported power equals V*conj(I) for RMS phasors, one half of that for peak phasors, V*I for DC,
    and v(t)*i(t) for time-domain and transient results."
   Statements only; every proof is [exact <lemma>].  Model: Model/Network.v (get_power of Network/solution.py),
   power formulas of Circuit/solution.py in Theory/Tellegen.v. *)
From Coq Require Import List Bool ZArith NArith QArith Qcanon.
From CC Require Import Theory.Field Theory.Complex Theory.Labels Model.Network Theory.Spec Theory.Mna
  Theory.MnaComplete Theory.Api Theory.Tellegen Theory.Ordered Theory.F7.
Import ListNotations.

(* ================= Part 1: conservation, generic in the field ================= *)

(* Tellegen: ANY potentials against ANY flows obeying KCL, through any additive map g (identity, conjugation, ...) *)
Theorem C05_tellegen : forall (K : fops) (KOK : fops_ok K) (bs : list (branch K)) (phi : label -> K) (j : branch K -> K),
  (forall node, kcl_sum bs j node = f0 K) ->
  forall g, additive g -> sumF (fun b => fmul K (bvolt phi b) (g (j b))) bs = f0 K.
Proof. exact tellegen. Qed.
Print Assumptions C05_tellegen.

Theorem C05_conj_additive : forall (K : fops) (KOK : fops_ok K), additive (fconj K).
Proof. exact conj_additive. Qed.

(* [bpower n x b] is exactly what get_power returns for branch b ... *)
Theorem C05_reported_power : forall (K : fops) (KOK : fops_ok K) (n : network K) (WF : wf n) (x : list K) b,
  In b (branches n) -> get_power {| s_net := n; s_x := x |} (bid b) = Ok (bpower n x b).
Proof. exact api_power. Qed.
Print Assumptions C05_reported_power.

(* ... and in every solved circuit the reported complex powers sum to zero, the term of a linear source
   (reported in the generator direction) entering with the sign -1 = delivered power. *)
Theorem C05_balance : forall (K : fops) (KOK : fops_ok K) (n : network K) (x : list K), wf n -> solves n x ->
  sumF (fun b => fmul K (psign b) (bpower n x b)) (branches n) = f0 K.
Proof. exact power_balance. Qed.
Print Assumptions C05_balance.

(* the sign and the power, spelled out *)
Theorem C05_psign_def : forall (K : fops) (b : branch K),
  psign b = if is_linear_source (el b) then fopp K (f1 K) else f1 K.
Proof. reflexivity. Qed.
Theorem C05_bpower_def : forall (K : fops) (n : network K) (x : list K) (b : branch K),
  bpower n x b = fmul K (bvolt (phi_of n x) b) (fconj K (reported n x b)).
Proof. reflexivity. Qed.

(* ================= Part 2: signs, complex numbers over an ordered field ================= *)

Theorem C05_Qc_ordered : ofield_ok Qcops Qcle.
Proof. exact Qc_ofield_ok. Qed.
Print Assumptions C05_Qc_ordered.

(* passive impedance branch (Z = 0, the short circuit, included):  S = Z |I|^2 *)
Theorem C05_impedance_power : forall (R : fops) (ROK : fops_ok R) (le : R -> R -> Prop) (OOK : ofield_ok R le)
  (n : network (Cx R)) (x : list (Cx R)) (b : branch (Cx R)) nm k z,
  wf n -> solves n x -> In b (branches n) -> el b = ZV nm k z (f0 (Cx R)) ->
  bpower n x b = fmul (Cx R) z (ofreal (cxnorm2 R (reported n x b))).
Proof. exact impedance_power. Qed.
Print Assumptions C05_impedance_power.

(* for Z <> 0 this holds of every vector x, solved or not *)
Theorem C05_impedance_power_nz : forall (R : fops) (ROK : fops_ok R) (le : R -> R -> Prop) (OOK : ofield_ok R le)
  (n : network (Cx R)) (x : list (Cx R)) (b : branch (Cx R)) nm k z,
  z <> f0 (Cx R) -> el b = ZV nm k z (f0 (Cx R)) ->
  bpower n x b = fmul (Cx R) z (ofreal (cxnorm2 R (reported n x b))).
Proof. exact impedance_power_nz. Qed.

Theorem C05_resistor : forall (R : fops) (ROK : fops_ok R) (le : R -> R -> Prop) (OOK : ofield_ok R le)
  (n : network (Cx R)) (x : list (Cx R)) (b : branch (Cx R)) nm k r,
  wf n -> solves n x -> In b (branches n) -> el b = ZV nm k (ofreal r) (f0 (Cx R)) -> le (f0 R) r ->
  im (bpower n x b) = f0 R /\ le (f0 R) (re (bpower n x b))
  /\ re (bpower n x b) = fmul R r (cxnorm2 R (reported n x b)).
Proof. exact resistor_power. Qed.
Print Assumptions C05_resistor.

Theorem C05_inductor : forall (R : fops) (ROK : fops_ok R) (le : R -> R -> Prop) (OOK : ofield_ok R le)
  (n : network (Cx R)) (x : list (Cx R)) (b : branch (Cx R)) nm k wl,
  wf n -> solves n x -> In b (branches n) -> el b = ZV nm k (oimag wl) (f0 (Cx R)) -> le (f0 R) wl ->
  re (bpower n x b) = f0 R /\ le (f0 R) (im (bpower n x b))
  /\ im (bpower n x b) = fmul R wl (cxnorm2 R (reported n x b)).
Proof. exact inductor_power. Qed.
Print Assumptions C05_inductor.

(* passive admittance branch:  S = conj(Y) |V|^2  — of every vector x *)
Theorem C05_admittance_power : forall (R : fops) (ROK : fops_ok R) (le : R -> R -> Prop) (OOK : ofield_ok R le)
  (n : network (Cx R)) (x : list (Cx R)) (b : branch (Cx R)) nm k y,
  el b = YI nm k y (f0 (Cx R)) ->
  bpower n x b = fmul (Cx R) (fconj (Cx R) y) (ofreal (cxnorm2 R (bvolt (phi_of n x) b))).
Proof. exact admittance_power. Qed.
Print Assumptions C05_admittance_power.

Theorem C05_capacitor : forall (R : fops) (ROK : fops_ok R) (le : R -> R -> Prop) (OOK : ofield_ok R le)
  (n : network (Cx R)) (x : list (Cx R)) (b : branch (Cx R)) nm k wc,
  el b = YI nm k (oimag wc) (f0 (Cx R)) -> le (f0 R) wc ->
  re (bpower n x b) = f0 R /\ le (im (bpower n x b)) (f0 R)
  /\ im (bpower n x b) = fopp R (fmul R wc (cxnorm2 R (bvolt (phi_of n x) b))).
Proof. exact capacitor_power. Qed.
Print Assumptions C05_capacitor.

Theorem C05_conductance : forall (R : fops) (ROK : fops_ok R) (le : R -> R -> Prop) (OOK : ofield_ok R le)
  (n : network (Cx R)) (x : list (Cx R)) (b : branch (Cx R)) nm k g,
  el b = YI nm k (ofreal g) (f0 (Cx R)) -> le (f0 R) g ->
  im (bpower n x b) = f0 R /\ le (f0 R) (re (bpower n x b))
  /\ re (bpower n x b) = fmul R g (cxnorm2 R (bvolt (phi_of n x) b)).
Proof. exact conductor_power. Qed.
Print Assumptions C05_conductance.

(* ================= Part 3: the solution kinds of Circuit/solution.py ================= *)

Theorem C05_power_defs : forall (K : fops) (half v i : K) (T : Type) (vt it : T -> K) (t : T),
  power_rms v i = fmul K v (fconj K i)
  /\ power_peak half v i = fmul K (fmul K half v) (fconj K i)
  /\ power_dc v i = fmul K v i
  /\ power_td vt it t = fmul K (vt t) (it t).
Proof. intros. repeat split. Qed.

(* get_power of the network solution is the RMS formula applied to the reported voltage and current *)
Theorem C05_bpower_rms : forall (K : fops) (n : network K) (x : list K) (b : branch K),
  bpower n x b = power_rms (bvolt (phi_of n x) b) (reported n x b).
Proof. exact bpower_rms. Qed.

(* 1/2 V conj(I) of peak phasors = V conj(I) of the RMS phasors V/sqrt2, I/sqrt2 *)
Theorem C05_peak_rms : forall (K : fops) (KOK : fops_ok K) (half s2 v i : K),
  fadd K half half = f1 K -> fmul K s2 s2 = fadd K (f1 K) (f1 K) -> fconj K s2 = s2 -> s2 <> f0 K ->
  power_peak half v i = power_rms (fdiv K v s2) (fdiv K i s2).
Proof. exact peak_rms. Qed.
Print Assumptions C05_peak_rms.

Theorem C05_balance_peak : forall (K : fops) (KOK : fops_ok K) (half : K) (n : network K) (x : list K),
  wf n -> solves n x ->
  sumF (fun b => fmul K (psign b) (power_peak half (bvolt (phi_of n x) b) (reported n x b))) (branches n) = f0 K.
Proof. exact power_balance_peak. Qed.
Print Assumptions C05_balance_peak.

Theorem C05_balance_rms : forall (K : fops) (KOK : fops_ok K) (s2 : K) (n : network K) (x : list K),
  fconj K s2 = s2 -> s2 <> f0 K -> wf n -> solves n x ->
  sumF (fun b => fmul K (psign b) (power_rms (fdiv K (bvolt (phi_of n x) b) s2) (fdiv K (reported n x b) s2)))
       (branches n) = f0 K.
Proof. exact power_balance_rms. Qed.
Print Assumptions C05_balance_rms.

(* DC: V*I without conjugation (over any field, the reals in particular) ... *)
Theorem C05_balance_dc : forall (K : fops) (KOK : fops_ok K) (n : network K) (x : list K), wf n -> solves n x ->
  sumF (fun b => fmul K (psign b) (power_dc (bvolt (phi_of n x) b) (reported n x b))) (branches n) = f0 K.
Proof. exact power_balance_dc. Qed.
Print Assumptions C05_balance_dc.

(* ... and, for real V and I, V.real*I.real is the complex power *)
Theorem C05_dc_real : forall (R : fops) (ROK : fops_ok R) (u c : Cx R), im u = f0 R -> im c = f0 R ->
  power_rms u c = ofreal (power_dc (K:=R) (re u) (re c)).
Proof. exact dc_power_real. Qed.
Print Assumptions C05_dc_real.

(* time domain / transient: pointwise products; they balance at every instant whenever the flows obey KCL at
   every instant (passive sign convention throughout) *)
Theorem C05_balance_td : forall (K : fops) (KOK : fops_ok K) (T : Type) (bs : list (branch K))
  (phi : T -> label -> K) (j : T -> branch K -> K),
  (forall t node, kcl_sum bs (j t) node = f0 K) ->
  forall t, sumF (fun b => power_td (fun t => bvolt (phi t) b) (fun t => j t b) t) bs = f0 K.
Proof. exact power_balance_td. Qed.
Print Assumptions C05_balance_td.

(* superposition of harmonics x(t) = Σ_k Re (X_k e_k(t)) of per-harmonic solutions on a common graph *)
Theorem C05_balance_td_harmonics : forall (R : fops) (ROK : fops_ok R) (le : R -> R -> Prop) (OOK : ofield_ok R le)
  (A : Type) (n1 n2 : A -> label) (T H : Type) (e : H -> T -> Cx R)
  (es : list A) (hs : list H) (Phi : H -> label -> Cx R) (J : H -> A -> Cx R),
  (forall k, In k hs -> forall node, gkcl n1 n2 es (J k) node = f0 (Cx R)) ->
  forall t, sumF (fun b => fmul R (td_signal e hs (fun k => gvolt n1 n2 (Phi k) b) t)
                                  (td_signal e hs (fun k => J k b) t)) es = f0 R.
Proof. exact td_power_balance. Qed.
Print Assumptions C05_balance_td_harmonics.

(* ================= non-vacuity: a concrete network over the Gaussian rationals ================= *)
Definition L (z : Z) : label := [Z.to_N z].
Definition ex_net : network CQ :=
  {| zero := L 48;
     branches := [ Build_branch (L 49) (L 48) (voltage_source (L 86) (cq 10 1 0 1) (cq 0 1 0 1));   (* ideal V  *)
                   Build_branch (L 49) (L 50) (resistor (L 82) (ofreal (R:=Qcops) (qc 2 1)));                 (* R = 2    *)
                   Build_branch (L 50) (L 51) (impedance (L 76) (oimag (R:=Qcops) (qc 3 1)));                 (* wL = 3   *)
                   Build_branch (L 51) (L 48) (admittance (L 67) (oimag (R:=Qcops) (qc 1 2)));                (* wC = 1/2 *)
                   Build_branch (L 50) (L 48) (conductor (L 71) (ofreal (R:=Qcops) (qc 1 3)));                (* G = 1/3  *)
                   Build_branch (L 51) (L 48) (voltage_source (L 85) (cq 5 1 1 1) (cq 1 1 0 1));   (* linear V *)
                   Build_branch (L 48) (L 50) (current_source (L 73) (cq 1 1 1 1) (cq 0 1 0 1));   (* ideal I  *)
                   Build_branch (L 50) (L 48) (current_source (L 74) (cq 2 1 0 1) (cq 1 4 0 1)) ]  (* linear I *) |}.

Definition ex_x : list CQ := match solve_network ex_net with Ok s => s_x s | Err _ => [] end.
Definition ex_b (k : nat) : branch CQ := nth k (branches ex_net) (Build_branch [] [] (short_circuit [])).

Example C05_example_wf : wfb ex_net = true.
Proof. vm_compute. reflexivity. Qed.
Example C05_example_solvedb : solvedb ex_net = true.
Proof. vm_compute. reflexivity. Qed.
Example C05_example_solved : wf ex_net /\ solves ex_net ex_x.
Proof. destruct (solvedb_ok CQ_ok ex_net C05_example_wf C05_example_solvedb) as [s [E [W [S _]]]].
  unfold ex_x. rewrite E. split; assumption. Qed.

(* the balance, evaluated: it is zero, with linear sources present (sign -1) and non-zero terms *)
Example C05_example_balance :
  feqb CQ (sumF (fun b => fmul CQ (psign b) (bpower ex_net ex_x b)) (branches ex_net)) (f0 CQ) = true.
Proof. vm_compute. reflexivity. Qed.
Example C05_example_signs : map (fun b => is_linear_source (el b)) (branches ex_net)
  = [false; false; false; false; false; true; false; true].
Proof. vm_compute. reflexivity. Qed.
Example C05_example_nonzero : forallb (fun b => negb (feqb CQ (bpower ex_net ex_x b) (f0 CQ))) (branches ex_net) = true.
Proof. vm_compute. reflexivity. Qed.
(* without the sign convention the sum is NOT zero *)
Example C05_example_unsigned_sum_nonzero :
  feqb CQ (sumF (fun b => bpower ex_net ex_x b) (branches ex_net)) (f0 CQ) = false.
Proof. vm_compute. reflexivity. Qed.
Example C05_example_balance_by_theorem :
  sumF (fun b => fmul CQ (psign b) (bpower ex_net ex_x b)) (branches ex_net) = f0 CQ.
Proof. exact (C05_balance CQ CQ_ok ex_net ex_x (proj1 C05_example_solved) (proj2 C05_example_solved)). Qed.

Example C05_example_le_2 : Qcle 0 (qc 2 1). Proof. vm_compute. discriminate. Qed.
Example C05_example_le_3 : Qcle 0 (qc 3 1). Proof. vm_compute. discriminate. Qed.
Example C05_example_le_12 : Qcle 0 (qc 1 2). Proof. vm_compute. discriminate. Qed.
Example C05_example_le_13 : Qcle 0 (qc 1 3). Proof. vm_compute. discriminate. Qed.

(* the hypotheses of the sign theorems are met by the branches of this network *)
Example C05_example_resistor :
  im (bpower ex_net ex_x (ex_b 1)) = 0%Qc /\ Qcle 0 (re (bpower ex_net ex_x (ex_b 1)))
  /\ re (bpower ex_net ex_x (ex_b 1)) = Qcmult (qc 2 1) (cxnorm2 Qcops (reported ex_net ex_x (ex_b 1))).
Proof. apply (C05_resistor Qcops Qcops_ok Qcle Qc_ofield_ok ex_net ex_x (ex_b 1) (L 82) k_resistor (qc 2 1)
               (proj1 C05_example_solved) (proj2 C05_example_solved)).
  - simpl. tauto.
  - reflexivity.
  - exact C05_example_le_2. Qed.
Example C05_example_inductor :
  re (bpower ex_net ex_x (ex_b 2)) = 0%Qc /\ Qcle 0 (im (bpower ex_net ex_x (ex_b 2)))
  /\ im (bpower ex_net ex_x (ex_b 2)) = Qcmult (qc 3 1) (cxnorm2 Qcops (reported ex_net ex_x (ex_b 2))).
Proof. apply (C05_inductor Qcops Qcops_ok Qcle Qc_ofield_ok ex_net ex_x (ex_b 2) (L 76) k_impedance (qc 3 1)
               (proj1 C05_example_solved) (proj2 C05_example_solved)).
  - simpl. tauto.
  - reflexivity.
  - exact C05_example_le_3. Qed.
Example C05_example_capacitor :
  re (bpower ex_net ex_x (ex_b 3)) = 0%Qc /\ Qcle (im (bpower ex_net ex_x (ex_b 3))) 0
  /\ im (bpower ex_net ex_x (ex_b 3)) = Qcopp (Qcmult (qc 1 2) (cxnorm2 Qcops (bvolt (phi_of ex_net ex_x) (ex_b 3)))).
Proof. apply (C05_capacitor Qcops Qcops_ok Qcle Qc_ofield_ok ex_net ex_x (ex_b 3) (L 67) k_admittance (qc 1 2)).
  - reflexivity.
  - exact C05_example_le_12. Qed.
Example C05_example_conductance :
  im (bpower ex_net ex_x (ex_b 4)) = 0%Qc /\ Qcle 0 (re (bpower ex_net ex_x (ex_b 4)))
  /\ re (bpower ex_net ex_x (ex_b 4)) = Qcmult (qc 1 3) (cxnorm2 Qcops (bvolt (phi_of ex_net ex_x) (ex_b 4))).
Proof. apply (C05_conductance Qcops Qcops_ok Qcle Qc_ofield_ok ex_net ex_x (ex_b 4) (L 71) k_conductor (qc 1 3)).
  - reflexivity.
  - exact C05_example_le_13. Qed.
(* the numbers: P_R = 2|I|^2 > 0, Q_L > 0, Q_C < 0 strictly in this network *)
Example C05_example_strict :
  negb (feqb Qcops (re (bpower ex_net ex_x (ex_b 1))) 0%Qc) && negb (feqb Qcops (im (bpower ex_net ex_x (ex_b 2))) 0%Qc)
  && negb (feqb Qcops (im (bpower ex_net ex_x (ex_b 3))) 0%Qc) = true.
Proof. vm_compute. reflexivity. Qed.

(* peak/RMS.  [half + half = 1] is met in CQ; a square root of 2 does not exist in the Gaussian rationals, so the
   remaining hypotheses are shown satisfiable in the second executable instance F7[i] (Theory/F7.v: 3*3 = 2 mod 7,
   non-trivial conjugation), where a small network is solved too. *)
Example C05_example_half : fadd CQ (cq 1 2 0 1) (cq 1 2 0 1) = f1 CQ.
Proof. apply (Keqb CQ CQ_ok). vm_compute. reflexivity. Qed.
Definition s2_7 : CF7 := (A3, A0).
Definition half_7 : CF7 := (A4, A0).
Example C05_example_sqrt2 :
  fadd CF7 half_7 half_7 = f1 CF7 /\ fmul CF7 s2_7 s2_7 = fadd CF7 (f1 CF7) (f1 CF7)
  /\ fconj CF7 s2_7 = s2_7 /\ s2_7 <> f0 CF7.
Proof. repeat split; discriminate. Qed.
Example C05_example_conj_nontrivial : fconj CF7 (A1, A2) <> (A1, A2).
Proof. discriminate. Qed.
Definition c7 (a b : F7) : CF7 := (a, b).
Definition ex_net7 : network CF7 :=
  {| zero := L 48;
     branches := [ Build_branch (L 49) (L 48) (voltage_source (L 86) (c7 A3 A1) (c7 A0 A0));
                   Build_branch (L 49) (L 50) (resistor (L 82) (c7 A2 A0));
                   Build_branch (L 50) (L 48) (impedance (L 76) (c7 A0 A3));
                   Build_branch (L 50) (L 48) (current_source (L 74) (c7 A2 A5) (c7 A1 A0)) ] |}.
Definition ex_x7 : list CF7 := match solve_network ex_net7 with Ok s => s_x s | Err _ => [] end.
Example C05_example7_solved : wf ex_net7 /\ solves ex_net7 ex_x7.
Proof. assert (W : wfb ex_net7 = true) by (vm_compute; reflexivity).
  assert (Sb : solvedb ex_net7 = true) by (vm_compute; reflexivity).
  destruct (solvedb_ok CF7_ok ex_net7 W Sb) as [s [E [W' [S _]]]].
  unfold ex_x7. rewrite E. split; assumption. Qed.
Example C05_example7_peak_rms : forall b,
  power_peak half_7 (bvolt (phi_of ex_net7 ex_x7) b) (reported ex_net7 ex_x7 b)
  = power_rms (fdiv CF7 (bvolt (phi_of ex_net7 ex_x7) b) s2_7) (fdiv CF7 (reported ex_net7 ex_x7 b) s2_7).
Proof. intros b. destruct C05_example_sqrt2 as [H1 [H2 [H3 H4]]].
  exact (C05_peak_rms CF7 CF7_ok half_7 s2_7 _ _ H1 H2 H3 H4). Qed.
Example C05_example7_balance_rms :
  sumF (fun b => fmul CF7 (psign b) (power_rms (fdiv CF7 (bvolt (phi_of ex_net7 ex_x7) b) s2_7)
                                               (fdiv CF7 (reported ex_net7 ex_x7 b) s2_7))) (branches ex_net7) = f0 CF7.
Proof. destruct C05_example_sqrt2 as [_ [_ [H3 H4]]].
  exact (C05_balance_rms CF7 CF7_ok s2_7 ex_net7 ex_x7 H3 H4 (proj1 C05_example7_solved) (proj2 C05_example7_solved)). Qed.
Example C05_example7_nonzero :
  forallb (fun b => negb (feqb CF7 (bpower ex_net7 ex_x7 b) (f0 CF7))) (branches ex_net7) = true.
Proof. vm_compute. reflexivity. Qed.
Example C05_example_balance_peak :
  feqb CQ (sumF (fun b => fmul CQ (psign b) (power_peak (cq 1 2 0 1) (bvolt (phi_of ex_net ex_x) b) (reported ex_net ex_x b)))
                (branches ex_net)) (f0 CQ) = true.
Proof. vm_compute. reflexivity. Qed.
