(* Properties/C09b.v — C09, the analysed frequency list AT IEEE BINARY64.
   `Model/FreqFloat.v` instantiates the generic model function `frequency_components` (the one C09_list is about) at Coq's
   primitive floats; the harness evaluates that instance with vm_compute and compares it BIT FOR BIT with circuit.py on every
   run (including w_max on and next to rounded multiples of non-representable fundamentals).  The strong statements of C09.v
   (strictly sorted, each frequency once, uniqueness) need the laws of an ordered field and are proved for exact carriers; what
   holds for EVERY carrier — binary64 included, with its -0.0 == 0.0 and its rounded products — is stated here. *)
From Coq Require Import List Bool ZArith PrimFloat.
From CC Require Import Theory.Field Model.Network Model.Circuit Theory.FreqFloatThm Model.FreqFloat.
Import ListNotations.

(* for any carrier and any comparison, floor and conversion functions: nothing is invented, and a contributed frequency is
   listed itself or merged into a listed value that the carrier's == identifies with it *)
Theorem C09_members_any_carrier : forall (R : fops) (leb : R -> R -> bool) (ofZ : Z -> R) (flr : R -> Z)
  (cs : list (comp R)) (wmax : R) (l : list R),
  frequency_components R leb ofZ flr cs wmax = Ok l ->
  (forall w, In w l -> exists c ws, In c cs /\ comp_frequencies R ofZ flr c wmax = Ok ws /\ In w ws)
  /\ (forall c ws w, In c cs -> comp_frequencies R ofZ flr c wmax = Ok ws -> In w ws -> represented R w l).
Proof. exact freq_members_any. Qed.
Print Assumptions C09_members_any_carrier.

(* the binary64 instance *)
Theorem C09_members_binary64 : forall (cs : list (comp Fl)) (wmax : float) (l : list float),
  frequency_components Fl PrimFloat.leb ofZf floorZ cs wmax = Ok l ->
  (forall w, In w l -> exists c ws, In c cs /\ comp_frequencies Fl ofZf floorZ c wmax = Ok ws /\ In w ws)
  /\ (forall c ws w, In c cs -> comp_frequencies Fl ofZf floorZ c wmax = Ok ws -> In w ws ->
        exists w', In w' l /\ (w' = w \/ PrimFloat.eqb w w' = true)).
Proof. exact (freq_members_any Fl PrimFloat.leb ofZf floorZ). Qed.
Print Assumptions C09_members_binary64.

(* the instance computes: third harmonic of 0.1 and a sinusoidal source at 0.3 stay two entries (the recorded finding), and
   np.floor(1.0/0.1) = 10 keeps the harmonic at w_max *)
Example C09_binary64_runs :
  freq_float [(true, Some 0x1.999999999999ap-4%float); (false, Some 0x1.3333333333333p-2%float)] 1%float
  = [0%float; 0x1.999999999999ap-4%float; 0x1.999999999999ap-3%float; 0x1.3333333333333p-2%float;
     0x1.3333333333334p-2%float; 0x1.999999999999ap-2%float; 0.5%float; 0x1.3333333333334p-1%float;
     0x1.6666666666667p-1%float; 0x1.999999999999ap-1%float; 0x1.ccccccccccccdp-1%float; 1%float].
Proof. vm_compute. reflexivity. Qed.
