"""C01 — steady-state solution obeys Kirchhoff's laws and every element law."""
import random

import netgen
import netrun
from common import standard_prologue
from exact import spec_solution

RULE = ('cases = shipped example networks + saved failures, then a sample of the bounded-exhaustive stream (all connected '
        'multigraphs <=3 nodes/<=3 branches x kinds x reference node), then structured random networks (<=8 nodes/<=14 '
        'branches, label pool interleaving kinds, dyadic and decimal values, complex with p=1/2), then small resistive networks whose element '
        'values span ten decades (milli-ohm shunts, mega-ohm dividers, kV next to uA).  Besides the norm-wise comparison every unknown of the nodal '
        'system is judged on its own scale (relative error <= 1e-6 when its componentwise condition number is <= 1e3). distinct = distinct after '
        'canonical relabelling of nodes; non-trivial = well-posed (exact tableau rank) with >=1 source and >=2 non-reference '
        'nodes')

TRUSTED = [
    'Coq 8.16.1 kernel (coqc); no native_compute; vm_compute only inside Example witnesses',
    'OCaml extraction of Model.Run.dispatch with ExtrOcamlBasic only (bool, option, unit, list, prod, sumbool, sumor); '
    'no Extract Constant / Extract Inductive of our own; 60-line hex I/O driver coq/Extract/driver.ml',
    'correspondence harness: generators, exact float->rational conversion (fractions.Fraction), tolerance rule, token codec',
    'numpy.linalg.solve assumed backward stable on non-singular systems; nothing assumed on singular ones; for the componentwise rule: '
    'componentwise backward error of LAPACK gesv below 1e-9 on these small systems (measured <= 1.2e-11)',
    'Python sorted() on str = code-point lexicographic order (modelled by label_leb)',
]


def has_source(case):
    return any(b['ctor'] in ('voltage_source', 'current_source') and (b['args'][0][0] != 0 or b['args'][0][1] != 0)
               for b in case['branches'])


def gen_cases(ctx):
    rng = random.Random(ctx.seed)
    cases = []
    for c in netgen.corpus_networks():
        cases.append(('corpus', c))
    quick = ctx.tier == 'quick'
    ex = list(netgen.small_exhaustive(3, 2)) if quick else None
    if quick:
        pick = rng.sample(ex, min(len(ex), 250))
        ex3 = []
        # a sample of the 3-branch stratum without materialising it
        for k, c in enumerate(netgen.small_exhaustive(3, 3)):
            if len(c['branches']) == 3 and rng.random() < 0.004:
                ex3.append(c)
        cases += [('exhaustive', c) for c in pick + ex3[:250]]
        n_rand = 500
    else:
        for c in netgen.small_exhaustive(3, 3):
            if len(c['branches']) < 3 or rng.random() < 0.15:
                cases.append(('exhaustive', c))
        n_rand = 12000
    for k in range(n_rand):
        big = rng.random() < 0.3
        c = netgen.random_network(rng, max_nodes=8 if big else 5, max_branches=14 if big else 8,
                                  decimal=(not big and rng.random() < 0.3))
        cases.append(('random', c))
    for k in range(300 if quick else 6000):
        cases.append(('wide-spread', wide_spread_network(rng)))
    return cases


WIDE_R = [1e-3, 1e-3, 1.0, 47.0, 1e3, 1e6, 1e7]


def wide_spread_network(rng):
    """small resistive networks whose element values span ten decades (milli-ohm shunts next to mega-ohm dividers, kilovolts next
    to micro-amps): legitimate unknowns of very different magnitude share one solution vector"""
    nn = rng.randint(2, 4)
    nodes = [str(i) for i in range(nn)] if rng.random() < 0.5 else rng.sample(['0', '1', '2', 'a', 'b', 'x', '10', '9'], nn)
    order = list(nodes)
    rng.shuffle(order)
    edges = [(order[i], order[rng.randrange(i)]) for i in range(1, nn)]
    for _ in range(rng.randint(1, 3)):
        edges.append(tuple(rng.sample(nodes, 2)))
    rng.shuffle(edges)
    brs = []
    nsrc = rng.choice([1, 1, 2])
    for k, (a, b) in enumerate(edges):
        if k < nsrc:
            if rng.random() < 0.5:
                brs.append({'id': f'Vs{k}', 'n1': a, 'n2': b, 'ctor': 'voltage_source', 'args': [[rng.choice([10.0, 1e3, 12.0]), 0.0], [0.0, 0.0]]})
            else:
                brs.append({'id': f'Is{k}', 'n1': a, 'n2': b, 'ctor': 'current_source', 'args': [[rng.choice([5.0, 1e-6, 1e-3]), 0.0], [0.0, 0.0]]})
        elif rng.random() < 0.15:
            brs.append({'id': f'G{k}', 'n1': a, 'n2': b, 'ctor': 'conductor', 'args': [[1.0 / rng.choice(WIDE_R), 0.0]]})
        else:
            brs.append({'id': f'R{k}', 'n1': a, 'n2': b, 'ctor': 'resistor', 'args': [[rng.choice(WIDE_R), 0.0]]})
    rng.shuffle(brs)
    return {'zero': rng.choice(nodes), 'branches': brs}


def componentwise(ctx, case, exact):
    """every unknown of the nodal system (node potential, current of an ideal voltage source) on its OWN scale: entry i of the
    implementation's solution must agree with the exact solution to 1e-6 relative whenever that entry is well conditioned
    componentwise, kappa_i = (|A^-1| |A| |x|)_i / |x_i| <= 1e3 (Skeel).  On the unchanged code the measured error is below
    1.2e-11 * kappa_i (6000 entries over ten decades of element values), so the margin is > 1e4.  Returns list of (key, what)."""
    import numpy as np
    from CircuitCalculator.Network.NodalAnalysis import node_analysis as na
    from CircuitCalculator.Network.NodalAnalysis.bias_point_analysis import nodal_analysis_bias_point_solver
    bad = []
    try:
        net = netgen.impl_network(case)
        sol = nodal_analysis_bias_point_solver(net)
        A = np.array(na.nodal_analysis_coefficient_matrix(net), dtype=complex)
        xs = np.array(sol._solution_vector, dtype=complex)
        names = {}
        for l in net.node_labels:
            if l != net.node_zero_label:
                names[int(sol._node_mapping[l])] = ('phi', l)
        nn = int(sol._node_mapping.N)
        for vid in sol._voltage_source_mapping.keys:
            names[nn + int(sol._voltage_source_mapping[vid])] = ('i', vid)
        Ainv = np.linalg.inv(A)
    except Exception as e:  # noqa: BLE001
        ctx.count(f'componentwise:not-available({type(e).__name__})')
        return bad
    if A.shape[0] != len(xs) or len(names) != len(xs) or not np.all(np.isfinite(Ainv)):
        ctx.count('componentwise:not-available(shape)')
        return bad
    kap = np.abs(Ainv) @ (np.abs(A) @ np.abs(xs))
    for k, (kind, name) in names.items():
        want = complex(exact['phi'][name]) if kind == 'phi' else complex(exact['i'][name])
        if want == 0:
            continue
        ki = float(kap[k]) / abs(want)
        if not ki <= 1e3:
            ctx.count('componentwise:entry-ill-conditioned(skipped)')
            continue
        ctx.count('componentwise:entries-judged')
        got = complex(sol.get_potential(name)) if kind == 'phi' else complex(sol.get_current(name))
        rel = abs(got - want) / abs(want)
        ctx.extra['componentwise_max_rel_err'] = max(ctx.extra.get('componentwise_max_rel_err', 0.0), rel)
        if rel > 1e-6:
            what = ('potential of node' if kind == 'phi' else 'current of voltage source')
            bad.append(('C01:small-quantity-wrong', f'{what} {name!r}: implementation {got}, exact {want} (relative error {rel:.3g}; this unknown is '
                        f'well conditioned on its own scale, kappa = {ki:.3g}; largest unknown {np.max(np.abs(xs)):.3g})'))
            break
    return bad


def oracle(case, impl, exact, cond):
    """the property evaluated on the implementation's own outputs.  Returns list of (key, what)."""
    bad = []
    if exact is None:
        return bad        # property quantifies over well-posed networks only
    if 'exc' in impl:
        bad.append((f'C01:raises-{impl["exc"]}-on-well-posed-network',
                    f'well-posed network raises {impl["exc"]} instead of being solved'))
        return bad
    if cond > 1e8:
        return bad
    sv, si, sp = netrun.scales(exact, case)
    tol = max(1e-9, cond * 2e-14)
    nonzero = any(abs(complex(x)) > 0 for x in exact['phi'].values()) or any(abs(complex(x)) > 0 for x in exact['j'].values())
    if impl.get('zero_fallback') and nonzero and any(abs(complex(x)) > 0 for x in exact['phi'].values()):
        bad.append(('C01:zero-fallback-on-well-posed-network', 'solver fell back to the all-zero vector on a well-posed network'))
        return bad
    for n, x in exact['phi'].items():
        if n in impl['phi'] and not netrun.compare_numbers(impl['phi'][n], x, sv, tol):
            bad.append(('C01:wrong-potential', f'potential of node {n!r}: impl {impl["phi"][n]} exact {complex(x)}'))
            break
    for b in case['branches']:
        i = b['id']
        if not netrun.compare_numbers(impl['v'][i], exact['v'][i], sv, tol):
            bad.append(('C01:wrong-voltage', f'voltage of {i!r}: impl {impl["v"][i]} exact {complex(exact["v"][i])}'))
            break
        if not netrun.compare_numbers(impl['i'][i], exact['i'][i], si, tol):
            bad.append(('C01:wrong-current', f'current of {i!r} ({b["ctor"]}): impl {impl["i"][i]} exact {complex(exact["i"][i])}'))
            break
    # direct residual checks on the implementation's outputs (independent of the exact solution)
    gnd = case['zero']
    if abs(impl['phi'].get(gnd, 0)) != 0:
        bad.append(('C01:reference-potential-nonzero', 'reference node potential is not 0'))
    nodes = {b['n1'] for b in case['branches']} | {b['n2'] for b in case['branches']}
    for n in nodes:
        tot = 0
        for b in case['branches']:
            lin = exact['laws'][b['id']][3]
            j = -impl['i'][b['id']] if lin else impl['i'][b['id']]
            if b['n1'] == n:
                tot += j
            if b['n2'] == n:
                tot -= j
        if abs(tot) > tol * si * max(4, len(case['branches'])):
            bad.append(('C01:kcl-residual', f'KCL residual {tot} at node {n!r}'))
            break
    for b in case['branches']:
        if b['n1'] in impl['phi'] and b['n2'] in impl['phi']:
            if abs(impl['v'][b['id']] - (impl['phi'][b['n1']] - impl['phi'][b['n2']])) > tol * sv:
                bad.append(('C01:voltage-not-potential-difference', f'v({b["id"]}) != phi1-phi2'))
                break
    return bad


def correspond(case, impl, model, exact, cond):
    """model vs implementation.  Returns list of descriptions of disagreements."""
    dis = []
    if 'exc' in model and model['exc'] == 'Singular':
        if 'exc' in impl:
            dis.append(f'model: singular; impl raised {impl["exc"]}')
        return dis
    if 'exc' in impl or 'exc' in model:
        if impl.get('exc') != model.get('exc'):
            dis.append(f'exception class: impl {impl.get("exc")} model {model.get("exc")}')
        return dis
    if cond > 1e8 or exact is None:
        return dis
    sv, si, sp = netrun.scales(exact, case)
    tol = max(1e-9, cond * 2e-14)
    if set(impl['phi']) != set(model['phi']):
        dis.append(f'node sets differ: {sorted(impl["phi"])} vs {sorted(model["phi"])}')
        return dis
    for n, r in model['phi'].items():
        if r[0] != 'ok' or not netrun.compare_numbers(impl['phi'][n], netrun.cq_to_c(r[1]), sv, tol):
            dis.append(f'potential {n!r}: impl {impl["phi"][n]} model {r}')
            return dis
    for b in case['branches']:
        i = b['id']
        for q, sc in (('v', sv), ('i', si), ('p', sp)):
            r = model[q][i]
            if r[0] != 'ok' or not netrun.compare_numbers(impl[q][i], netrun.cq_to_c(r[1]), sc, tol * (4 if q == 'p' else 1)):
                dis.append(f'{q}({i!r}) [{b["ctor"]}]: impl {impl[q][i]} model {r}')
                return dis
    return dis


def examine(ctx, tagged):
    cases = [c for _, c in tagged]
    impls = [netrun.impl_solve(c) for c in cases]
    models = netrun.model_solve(cases)
    for (origin, case), impl, model in zip(tagged, impls, models):
        ctx.evaluations += 1
        ctx.count('stream:' + origin)
        exact = spec_solution(case)
        cond = netrun.mna_cond(case) if exact is not None else float('inf')
        sh = netgen.shape(case)
        ctx.count(f'nodes:{sh["nodes"]}')
        ctx.count(f'branches:{min(sh["branches"], 15)}')
        for k in sh['kinds']:
            ctx.count('kind:' + k)
        if any(b['args'] and any(a[1] != 0 for a in b['args']) for b in case['branches']):
            ctx.count('complex-valued')
        gnd_brs = [b for b in case['branches'] if case['zero'] in (b['n1'], b['n2'])]
        if gnd_brs and all(b['ctor'] == 'voltage_source' and b['args'][1] == [0.0, 0.0] for b in gnd_brs):
            ctx.count('reference-node-on-ideal-voltage-sources-only')
        if exact is None:
            ctx.count('ill-posed(excluded from numeric comparison)')
        elif cond > 1e8:
            ctx.count('ill-conditioned(skipped)')
        else:
            ctx.count('well-posed')
            nonref = sh['nodes'] - 1
            if has_source(case) and nonref >= 2:
                ctx.nontriv(netgen.canon(case))
        # exact well-posedness must agree between tableau (harness) and MNA model (Coq)
        model_ok = 'exc' not in model
        if exact is not None and model.get('exc') == 'Singular':
            ctx.disagreements.append(case)
            ctx.violation('correspondence:C01-wellposedness', 'model MNA singular but tableau well-posed',
                          {'network': case}, kind='obligation')
        if exact is None and model_ok and case['branches'] and len({b['id'] for b in case['branches']}) == len(case['branches']):
            ctx.disagreements.append(case)
            ctx.violation('correspondence:C01-wellposedness', 'model MNA solvable but tableau singular',
                          {'network': case}, kind='obligation')
        dis = correspond(case, impl, model, exact, cond)
        if dis:
            ctx.disagreements.append(case)
            ctx.violation('correspondence:C01-solve', 'model and implementation disagree: ' + dis[0],
                          {'network': case, 'disagreement': dis, 'impl': impl}, kind='obligation')
        found = oracle(case, impl, exact, cond)
        if exact is not None and 'exc' not in impl:
            found = found + componentwise(ctx, case, exact)
        for key, what in found:
            def pred(c, key=key):
                e = spec_solution(c)
                if e is None:
                    return False
                i2 = netrun.impl_solve(c)
                r = oracle(c, i2, e, netrun.mna_cond(c))
                if 'exc' not in i2 and key == 'C01:small-quantity-wrong':
                    r = r + componentwise(ctx, c, e)
                return any(k == key for k, _ in r)
            small = netrun.shrink(case, pred)
            ctx.violation(key, what, {'network': small, 'minimised_from_branches': len(case['branches'])})
        ctx.sample({'network': case, 'impl': {k: str(v)[:200] for k, v in impl.items()}}, cap=3)


def run(ctx):
    ctx.trusted = TRUSTED
    ctx.partial = []
    ctx.assumptions = ['LAPACK backward stability', 'floating-point inputs are compared through their exact rational values']
    ok = standard_prologue(ctx)
    if ok:
        examine(ctx, gen_cases(ctx))
    return RULE


def replay(ctx, obj):
    ctx.trusted = TRUSTED
    ok = standard_prologue(ctx)
    if ok:
        examine(ctx, [('replay', obj['case']['network'])])
    return RULE
