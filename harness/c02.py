"""C02 — DC/AC phasor analysis of component circuits is exact at every frequency."""
import math
import random

import c07
import circgen
import circrun
import netrun
from common import standard_prologue
from exact import spec_solution

RULE = ('cases = (circuit, w, mode): structured random RLC(+G/Z/Y/lamp/load) circuits with DC, sinusoidal, complex and periodic '
        'sources (<=5 nodes, <=8 components, label pool interleaving kinds), analysis frequencies {0, each source frequency, '
        'source +/- resolution*(1 -/+ 1e-6), harmonics of periodic sources, unrelated}, peak and RMS modes, plus DCSolution.  '
        'Checked: (i) model (Coq, extracted: transform_circuit -> MNA -> get_*) vs ComplexSolution/DCSolution, every node and '
        'component; (ii) an independent exact phasor tableau built by the harness from the component list (jwL, 1/(jwC), '
        'A*cis(phi) iff within resolution, else short/open) vs the implementation; RMS = peak/sqrt2; DC = real part of w=0.  '
        'distinct = distinct (canonical circuit, w, mode); non-trivial = well-posed, >=1 active source at w, >=2 non-reference nodes')

TRUSTED = c07.TRUSTED + ['numpy.linalg.solve assumed backward stable on non-singular systems',
                         'np.sqrt(2) handed to the model as an exact rational (the theorem assumes sqrt2*sqrt2 = 2)']
RES = 1e-3


def compare(case, w, peak, impl, ref, cond, what, scale_ref=None):
    """impl numbers vs reference dict (phi, v, i as complex/Fraction-based), tolerance by conditioning.  scale_ref: the solution whose
    magnitudes set the scales (DC: the COMPLEX solution whose real parts are reported — with complex impedances in a DC analysis the real
    part can be many decades below the magnitude the solver worked with)"""
    bad = []
    sr = scale_ref or ref
    sv = max([abs(complex(x)) for x in sr['phi'].values()] + [1e-300])
    si = max([abs(complex(x)) for x in sr['i'].values()] + [0.0])
    ymax = 1.0
    for b in ref['branches']:
        form, p, s, _ = ref['laws'][b['id']]
        pm = abs(complex(p))
        if form == 'V' and pm == 0:
            sv = max(sv, abs(complex(ref['j'][b['id']])))
        elif form == 'I':
            ymax = max(ymax, pm)
        elif pm > 0:
            ymax = max(ymax, 1 / pm)
    si = max(si, sv * ymax)
    tol = max(1e-9, cond * 4e-14)
    k = 1.0 if peak else 1 / math.sqrt(2)
    for n, x in ref['phi'].items():
        if n in impl['phi'] and abs(impl['phi'][n] - k * complex(x)) > tol * sv:
            bad.append((f'{what}:wrong-potential', f'potential {n!r} at w={w} peak={peak}: impl {impl["phi"][n]} exact {k * complex(x)}'))
            return bad
    for b in ref['branches']:
        i = b['id']
        if i not in impl['v']:
            bad.append((f'{what}:component-missing', f'{i!r} missing from the solution'))
            return bad
        if abs(impl['v'][i] - k * complex(ref['v'][i])) > tol * sv:
            bad.append((f'{what}:wrong-voltage', f'voltage {i!r} at w={w} peak={peak}: impl {impl["v"][i]} exact {k * complex(ref["v"][i])}'))
            return bad
        if abs(impl['i'][i] - k * complex(ref['i'][i])) > tol * si:
            bad.append((f'{what}:wrong-current', f'current {i!r} at w={w} peak={peak}: impl {impl["i"][i]} exact {k * complex(ref["i"][i])}'))
            return bad
        pref = complex(ref['v'][i]) * complex(ref['i'][i]).conjugate() / 2     # average complex power in either mode
        if abs(impl['p'][i] - pref) > 8 * tol * sv * si:
            bad.append((f'{what}:wrong-power', f'power {i!r} at w={w} peak={peak}: impl {impl["p"][i]} exact {pref}'))
            return bad
    return bad


def examine(ctx, jobs):
    """jobs: (origin, case, w, peak)  — w None means DCSolution"""
    cjobs, cidx, djobs, didx, impls = [], [], [], [], []
    for k, (origin, case, w, peak) in enumerate(jobs):
        if w is None:
            impl, comps = circrun.impl_dc(case)
            if comps is not None:
                djobs.append((case, comps))
                didx.append(k)
        else:
            impl, comps = circrun.impl_complex(case, w, peak)
            if comps is not None:
                cjobs.append((case, comps, w, peak))
                cidx.append(k)
        impls.append(impl)
    models = dict(zip(cidx, circrun.model_complex(cjobs)))
    models.update(zip(didx, circrun.model_dc(djobs)))
    for k, (origin, case, w, peak) in enumerate(jobs):
        impl, model = impls[k], models.get(k)
        ctx.evaluations += 1
        ctx.count('stream:' + origin)
        ctx.count('mode:' + ('dc' if w is None else 'peak' if peak else 'rms'))
        weff = 0.0 if w is None else w
        exp = circgen.expected_network(case, weff, RES)
        exact = spec_solution(exp)
        cond = netrun.mna_cond(exp) if exact is not None else float('inf')
        if exact is None:
            ctx.count('ill-posed(excluded from numeric comparison)')
        elif cond > 1e8:
            ctx.count('ill-conditioned(skipped)')
        else:
            ctx.count('well-posed')
        # ---- correspondence
        if model is not None:
            d = None
            if 'exc' in model and model['exc'] == 'Singular':
                if exact is not None:
                    d = 'model: singular MNA system, declarative tableau well-posed'
            elif ('exc' in impl) != ('exc' in model):
                if not (exact is None and 'exc' not in impl):       # LAPACK does not reliably flag singular systems
                    d = f'impl {impl.get("exc", "returned")} vs model {model.get("exc", "returned")}'
            elif 'exc' in impl:
                if impl['exc'] != model['exc']:
                    d = f'exception class: impl {impl["exc"]} model {model["exc"]}'
            elif exact is not None and cond <= 1e8:
                sv, si, sp = netrun.scales(exact, exp)
                tol = max(1e-9, cond * 4e-14)
                for n, r in model['phi'].items():
                    mv = netrun.cq_to_c(r[1]) if w is not None else float(r[1])
                    if r[0] != 'ok' or n not in impl['phi'] or abs(impl['phi'][n] - mv) > tol * sv:
                        d = f'potential {n!r}: impl {impl["phi"].get(n)} model {r}'
                        break
                if d is None:
                    for i in model['v']:
                        for q, sc in (('v', sv), ('i', si), ('p', sp * 8)):
                            r = model[q][i]
                            mv = (netrun.cq_to_c(r[1]) if w is not None else float(r[1])) if r[0] == 'ok' else None
                            if mv is None or i not in impl[q] or abs(impl[q][i] - mv) > tol * sc:
                                d = f'{q}({i!r}): impl {impl[q].get(i)} model {r}'
                                break
                        if d:
                            break
            if d:
                ctx.disagreements.append((case, w))
                ctx.violation('correspondence:C02-solution', f'model and implementation disagree (w={w}, peak={peak}): {d}',
                              {'circuit': case, 'w': w, 'peak': peak, 'disagreement': d}, kind='obligation')
        # ---- oracle: the property on the implementation's outputs
        bad = []
        if exact is not None and cond <= 1e8:
            if 'exc' in impl:
                if impl.get('stage') != 'construct':
                    bad.append((f'C02:raises-{impl["exc"]}', f'well-posed circuit at w={w}: {impl["exc"]} {impl.get("msg", "")}'))
            else:
                ref = dict(exact)
                ref['branches'] = exp['branches']
                if w is None:
                    ref = dict(ref)
                    dci = {'phi': {n: complex(v) for n, v in impl['phi'].items()}, 'v': impl['v'], 'i': impl['i'],
                           'p': {i: impl['v'][i] * impl['i'][i] / 2 for i in impl['v']}}
                    ref2 = {'phi': {n: complex(x).real for n, x in ref['phi'].items()},
                            'v': {i: complex(x).real for i, x in ref['v'].items()},
                            'i': {i: complex(x).real for i, x in ref['i'].items()},
                            'j': ref['j'], 'laws': ref['laws'], 'branches': ref['branches']}
                    bad += compare(case, 0.0, True, dci, ref2, cond, 'C02:dc', scale_ref=ref)
                    for i in impl['v']:
                        if abs(impl['p'][i] - impl['v'][i] * impl['i'][i]) > 1e-9 * max(1.0, abs(impl['p'][i])):
                            bad.append(('C02:dc-power-not-v-times-i', f'{i!r}'))
                            break
                else:
                    bad += compare(case, w, peak, impl, ref, cond, 'C02')
        for key, what in bad:
            def pred(cc, key=key):
                return key in keys_of(cc, w, peak)
            small = c07.shrink_circuit(case, pred)
            ctx.violation(key, what, {'circuit': small, 'w': w, 'peak': peak})
        nodes = {x for c in case['components'] for x in c['nodes']}
        if exact is not None and cond <= 1e8 and len(nodes) >= 3 and \
                any(b['ctor'] in ('voltage_source', 'current_source') for b in exp['branches']):
            ctx.nontriv([[(c['kind'], c['nodes'], sorted(c['params'].items(), key=str)) for c in case['components']], w, peak])
        ctx.sample({'circuit': case, 'w': w, 'peak': peak, 'impl': str(impl)[:300]}, cap=3)


def keys_of(case, w, peak):
    """oracle keys for a single case (used by the shrinker)"""
    sub = type('S', (), {})()
    sub.keys = []

    class Tmp:
        pass
    import common
    c = common.Ctx('C02', 'quick', 0)
    c.violation = lambda key, what, replay, kind='input': sub.keys.append(key)
    _orig = c07.shrink_circuit
    try:
        c07.shrink_circuit = lambda cs, pred: cs
        examine(c, [('shrink', case, w, peak)])
    finally:
        c07.shrink_circuit = _orig
    return sub.keys


def gen_jobs(ctx):
    rng = random.Random(ctx.seed + 2)
    quick = ctx.tier == 'quick'
    jobs = []
    for _ in range(220 if quick else 5000):
        case = circgen.random_circuit(rng)
        fs = c07.freqs_for(case, rng)
        for w in rng.sample(fs, min(len(fs), 2 if quick else 4)):
            jobs.append(('random', case, w, rng.random() < 0.5))
        if rng.random() < 0.5:
            jobs.append(('random-dc', case, None, True))
    # a sinusoidal source whose own frequency is 0 (the constructor's default) keeps its phase: at w = 0 it contributes A*exp(j*phi)
    for _ in range(25 if quick else 500):
        case = circgen.random_circuit(rng)
        srcs = [c for c in case['components'] if c['kind'] in ('ac_voltage_source', 'ac_current_source')]
        if not srcs:
            continue
        for c in rng.sample(srcs, min(len(srcs), 2)):
            c['params']['w'] = 0.0
            if c['params']['phi'] == 0.0:
                c['params']['phi'] = rng.choice([0.5, -1.0, 2.5])
        jobs.append(('zero-frequency-sinusoidal-source', case, 0.0, rng.random() < 0.5))
        jobs.append(('zero-frequency-sinusoidal-source', case, rng.choice([7.0, 5e-4, 1.0]), True))
        jobs.append(('zero-frequency-sinusoidal-source', case, None, True))
    return jobs


def run(ctx):
    ctx.trusted = TRUSTED
    ctx.assumptions = ['LAPACK backward stability', 'lossy sources follow the library\'s documented polarity convention (shipped example 14)']
    if standard_prologue(ctx):
        examine(ctx, gen_jobs(ctx))
    return RULE


def replay(ctx, obj):
    ctx.trusted = TRUSTED
    if standard_prologue(ctx):
        c = obj['case']
        examine(ctx, [('replay', c['circuit'], c['w'], c.get('peak', True))])
    return RULE
