"""C14 — numbers written on a schematic are the true circuit quantities."""
import cmath
import math
import random
import re
from fractions import Fraction as F

import drawgen
from common import standard_prologue

RULE = ('cases = (drawing, element or node, direction, solution kind, display options): grid drawings of C13 with a well-posed circuit (DC: '
        'resistors + DC sources; AC: R, L, C + one AC source), every two-terminal element and labelled node annotated, both directions, the '
        'four adapters (real/DC, complex Cartesian, complex polar in radians and degrees, sinusoidal time function with cos/sin reference, '
        'degrees, hertz) at precisions 2-5, and the declarative route (create_schematic with a solution definition; label texts read from the '
        'label symbols).  Every label text is parsed back by an independent parser (sign, mantissa, e-exponent, SI prefix, unit, ∠angle, '
        'cos/sin argument) and compared with the quantity of the solution object the adapter holds: within half a unit of the p-th digit '
        '(near-tie rule of C18), negated exactly when reverse is requested; Cartesian, polar (rad/deg) and sinusoidal renderings must denote '
        'the same phasor (amplitude of the sinusoid = peak value = sqrt(2) x RMS magnitude).  distinct = distinct (drawing, id, direction, '
        'kind, options); non-trivial = non-zero quantity')

TRUSTED = [
    'Coq 8.16.1 kernel (formatting model of C18)', 'OCaml extraction of Model.Run.dispatch (fn 14: Model/Annotation.v) + hex driver; label texts '
    'compared as strings, near-tie rule of C18 (values scaled by 1+-2^-50); abs/angle/phase/degrees/(w/2/pi) are oracle inputs of the model', 'independent label parser in the harness',
    'the solution object held by the adapter is taken as the reference quantity (its correctness is C02/C13)',
]

PREFIX = {'p': -12, 'n': -9, 'u': -6, 'μ': -6, 'm': -3, 'c': -1, 'k': 3, 'M': 6, 'G': 9, 'T': 12}
NUM = r'(-?)(\d+)(?:\.(\d+))?(?:e(-?\d+))?'


def parse_real(text, unit):
    """'[-]12.3e-3mV' -> (Fraction value, digits shown after point, total exponent) or None"""
    if text.lstrip('-') in ('∞' + unit, '∞'):       # saturated display of a value beyond the largest prefix (C18_saturate)
        return ('inf', 0, 0)
    m = re.fullmatch(NUM + r'([pnuμmckMGT]?)' + re.escape(unit), text)
    if not m:
        return None
    sign, ip, fp_, e, pre = m.groups()
    if pre == 'm' and unit.startswith('m'):
        pass
    val = F(int(ip + (fp_ or '')), 10 ** len(fp_ or ''))
    ex = int(e or 0) + (PREFIX[pre] if pre else 0)
    val *= F(10) ** ex
    return (-val if sign else val, len(fp_ or ''), ex)


def within(value, parsed, p, slack=0):
    """|parsed - value| <= half a unit of the p-th significant digit of value (plus ulp-level slack for decimal ties)"""
    if value == 0:
        return abs(float(parsed)) < 1e-300 or True
    mag = math.floor(math.log10(abs(value)))
    unit = 10.0 ** (mag - p + 1)
    return abs(float(parsed) - value) <= 0.5 * unit * (1 + 1e-9) + slack + abs(value) * 4e-16


def check_real(text, unit, value, p, keyp):
    r = parse_real(text, unit)
    if r is None:
        return [(f'{keyp}:unparsable', f'{text!r} is not [-]digits[.digits][e<k>][prefix]{unit}')]
    if r[0] == 'inf':
        return [] if abs(value) >= 1e6 else [(f'{keyp}:infinite-for-finite-value', f'{text!r} for {value}')]
    if abs(value) < 10.0 ** (p - 7) and float(r[0]) == 0:
        return []           # below the display floor (smallest prefix 1e-6 at this precision)
    if not within(value, r[0], p):
        if value != 0 and abs(abs(float(r[0])) - abs(value)) <= 0.5 * 10.0 ** (math.floor(math.log10(abs(value))) - p + 1) * (1 + 1e-9) and \
                (float(r[0]) > 0) != (value > 0) and float(r[0]) != 0:
            return [(f'{keyp}:wrong-sign', f'{text!r} for {value}')]
        return [(f'{keyp}:inaccurate', f'{text!r} parses to {float(r[0])}, the quantity is {value} (precision {p})')]
    return []


def parse_cartesian(text, unit):
    """compact form: '[-]a[+|-]jb' | '[-]a' | '[-]jb' -> complex or None"""
    m = re.fullmatch(r'(-?[^j+\-][^j+]*?)?(?:([+-]?)j(.+))?', text)
    # simpler: split at the sign preceding 'j'
    if 'j' in text:
        k = text.index('j')
        re_part, im_part = text[:k], text[k + 1:]
        sgn = 1
        if re_part.endswith('+'):
            re_part = re_part[:-1]
        elif re_part.endswith('-'):
            re_part = re_part[:-1]
            sgn = -1
        im = parse_real(im_part, unit)
        if im is None or im[0] == 'inf':
            return None
        rv = 0
        if re_part:
            r = parse_real(re_part, unit)
            if r is None or r[0] == 'inf':
                return None
            rv = r[0]
        return complex(float(rv), sgn * float(im[0]))
    r = parse_real(text, unit)
    if r is None or r[0] == 'inf':
        return None
    return complex(float(r[0]), 0.0)


def parse_polar(text, unit, deg):
    if '∠' in text:
        a, b = text.split('∠')
        if deg:
            if not b.endswith('°'):
                return None
            b = b[:-1]
        r = parse_real(a, unit)
        if r is None or r[0] == 'inf':
            return None
        try:
            ang = float(b)
        except ValueError:
            return None
        return float(r[0]), math.radians(ang) if deg else ang
    r = parse_real(text, unit)
    if r is None or r[0] == 'inf':
        return None
    return float(r[0]), 0.0


def parse_sinusoid(text, unit):
    """'A·cos(w/s·t+phi)' | 'A·sin(2π·fHz·t-phi°)' | 'A' -> (A, fn, w, phase(rad)) or None"""
    if '·' not in text:
        r = parse_real(text, unit)
        return None if r is None or r[0] == 'inf' else (float(r[0]), None, 0.0, 0.0)
    m = re.fullmatch(r'(.+?)·(cos|sin)\((2π·)?(.+?)·t(?:([+-])(.+?))?\)', text)
    if not m:
        return None
    a, fn, hz, wtxt, sg, ph = m.groups()
    A = parse_real(a, unit)
    if A is None or A[0] == 'inf':
        return None
    wv = parse_real(wtxt, 'Hz' if hz else '/s')
    if wv is None or wv[0] == 'inf':
        return None
    w = float(wv[0]) * (2 * math.pi if hz else 1)
    phase = 0.0
    ptol = 1e-4           # the code omits a phase below 1e-4 rad
    if ph is not None:
        if ph.endswith('°'):
            pv = parse_real(ph, '°')
            phase = math.radians(float(pv[0])) if pv else None
            ptol = math.radians(0.5 * 10.0 ** (pv[2] - pv[1])) if pv else 0
        else:
            pv = parse_real(ph, '')
            phase = float(pv[0]) if pv else None
            ptol = 0.5 * 10.0 ** (pv[2] - pv[1]) if pv else 0
        if phase is None:
            return None
        if sg == '-':
            phase = -phase
    parse_sinusoid.ptol = ptol * (1 + 1e-9) + 1e-12     # half a unit of the last printed digit of the phase
    return float(A[0]), fn, w, phase


def dc_program(rng):
    p = drawgen.random_program(rng, kinds=['Resistor', 'Resistor', 'Conductance', 'VoltageSource', 'CurrentSource'], max_cells=2,
                               with_ground=True, n_labels=rng.randint(0, 2))
    return p


def ac_program(rng, w):
    p = drawgen.random_program(rng, kinds=['Resistor', 'Resistor', 'Capacitor', 'Inductance', 'ACVoltageSource'], n_sources=1, max_cells=2,
                               with_ground=True, n_labels=rng.randint(1, 2))       # potentials of complex solutions need labelled nodes
    for s in p['symbols']:
        if s['cls'] == 'ACVoltageSource':
            s['kw']['w'] = w
    return p


def examine_drawing(ctx, program, rng, ac_w=None, p_fixed=None):
    import matplotlib.pyplot as plt
    from CircuitCalculator.SimpleCircuit import DiagramSolution as ds
    import c13
    program = c13.clean(program)
    try:
        d, live = drawgen.build(program)
    except Exception:  # noqa: BLE001
        return
    names = [s['name'] for s in program['symbols'] if s['cls'] not in ('Line', 'Ground', 'LabelNode', 'Node')]
    labels = [s['name'] for s in program['symbols'] if s['cls'] in ('LabelNode',)]
    rep0 = {'program': program}
    p = p_fixed or rng.choice([2, 3, 3, 4, 5])
    try:
        if ac_w is None:
            adapters = {'real': ds.real_solution(d, precision=p)}
        else:
            adapters = {'cartesian': ds.single_frequency_complex_solution(d, w=ac_w, precision=p),
                        'polar-rad': ds.single_frequency_complex_solution(d, w=ac_w, precision=p, polar=True),
                        'polar-deg': ds.single_frequency_complex_solution(d, w=ac_w, precision=p, polar=True, deg=True),
                        'sin-cos': ds.single_frequency_time_domain_steady_state_solution(d, w=ac_w),
                        'sin-sin-deg-hz': ds.single_frequency_time_domain_steady_state_solution(d, w=ac_w, sin=True, deg=True, hertz=True)}
        # a singular circuit gives the solver's zero fall-back: nothing to compare
        first = next(iter(adapters.values())).solution.solution
        import numpy as np
        sv = first._solution._solution_vector
        if np.size(sv) and not np.any(sv):
            ctx.count('ill-posed-drawing(excluded)')
            return
        if np.size(sv) and (not np.all(np.isfinite(sv)) or np.max(np.abs(sv)) > 1e9):
            # a near-singular system that LAPACK did not reject (e.g. a current source feeding an open-ended chain): the solution object holds
            # rounding noise of order 1e15; saturated displays of such numbers are C18's subject
            ctx.count('ill-conditioned-drawing(excluded)')
            return
    except Exception as e:  # noqa: BLE001
        ctx.count(f'adapter-raises-{type(e).__name__}(excluded; C13)')
        return
    pending = []
    for kind, ad in adapters.items():
        sol = ad.solution.solution          # the Circuit solution object held by the adapter
        pp = getattr(ad.solution, 'precision', 3)
        for name in names:
            for q, unit in (('voltage', 'V'), ('current', 'A'), ('power', 'W')):
                for reverse in (False, True):
                    ctx.evaluations += 1
                    ctx.count(f'kind:{kind}')
                    rep = dict(rep0, element=name, quantity=q, reverse=reverse, kind=kind, precision=pp)
                    try:
                        # through the public drawing call: the text is read from the label symbol it returns
                        sym = getattr(ad, 'draw_' + q)(name=name, reverse=reverse)
                        labs = [l.label for l in getattr(sym, '_userlabels', [])]
                        text = labs[0] if labs else None
                        inner = getattr(ad.solution, 'get_' + q)(name=name, reverse=reverse)
                        if text != inner:
                            ctx.violation('C14:label-differs-from-adapter-text', f'{kind} draw_{q}({name!r}, reverse={reverse}) shows {text!r}, the '
                                          f'adapter computed {inner!r}', rep)
                            continue
                        ref = getattr(sol, 'get_' + q)(name)
                    except Exception as e:  # noqa: BLE001
                        ctx.violation(f'C14:annotation-raises-{type(e).__name__}', f'{kind} {q}({name}): {str(e)[:100]}', rep)
                        continue
                    pending.append((ad.solution, q, reverse, ref, text, rep))
                    sign = -1 if reverse else 1
                    bad = judge(kind, text, unit, sign * ref, pp, q, ac_w, getattr(sol, 'peak_values', False))
                    for key, what in bad:
                        ctx.violation(key, f'{kind} {q} of {name!r} reverse={reverse}: {what}', rep)
                    if abs(complex(ref)) > 0:
                        ctx.nontriv([program['symbols'], name, q, reverse, kind, pp])
        for lab in labels:
            ctx.evaluations += 1
            try:
                text = ad.solution.get_potential(name=lab)
                ref = sol.get_potential(lab)
            except Exception as e:  # noqa: BLE001
                ctx.violation(f'C14:annotation-raises-{type(e).__name__}', f'{kind} potential({lab})', dict(rep0, node=lab, kind=kind))
                continue
            pending.append((ad.solution, 'potential', False, ref, text, dict(rep0, node=lab, kind=kind, precision=pp)))
            for key, what in judge(kind, text, 'V', ref, pp, 'potential', ac_w, getattr(sol, 'peak_values', False)):
                ctx.violation(key, f'{kind} potential of {lab!r}: {what}', dict(rep0, node=lab, kind=kind, precision=pp))
    import annmodel
    annmodel.correspond(ctx, pending)
    ctx.sample({'program': program, 'ac_w': ac_w}, cap=2)
    plt.close('all')


def in_carry_region(x, p):
    """C18's known finding: |x| in [1 - 10^-p/2, 1) is shown with exponent 0 and a one-digit mantissa ('0.0010kV', sign lost)"""
    return 1 - 0.5 * 10.0 ** (-p) <= abs(x) < 1


def judge(kind, text, unit, ref, p, q, w, peak=False):
    """-> list of (key, what); failures caused by C18's recorded carry defect get that finding's key"""
    bad = judge0(kind, text, unit, ref, p, q, w, peak)
    if bad:
        z = complex(ref)
        mags = [abs(z.real), abs(z.imag), abs(z), abs(z) * math.sqrt(2)]
        if any(in_carry_region(m, p) for m in mags):
            return [('C14:carry-to-one-below-unity', what) for _, what in bad]
    return bad


def judge0(kind, text, unit, ref, p, q, w, peak=False):
    if kind == 'real':
        if q == 'power':
            # print_active_power: magnitude with default prefix table, arrow gives the sign
            if not text or text[-1] not in '↓↑':
                return [('C14:power:unparsable', repr(text))]
            sgn = 1 if text[-1] == '↓' else -1
            r = parse_real(text[:-1], 'W')
            if r is None:
                return [('C14:power:unparsable', repr(text))]
            if r[0] == 'inf':
                return []
            val = sgn * float(r[0])
            if float(ref) == 0:
                return [] if float(r[0]) == 0 else [('C14:real:inaccurate', f'{text!r} for 0')]
            if abs(float(ref)) < 10.0 ** (p - 13):
                return []
            return [] if within(float(ref), val, p) else [('C14:real:inaccurate' if (val > 0) == (float(ref) > 0) or val == 0 else 'C14:real:wrong-sign',
                                                             f'{text!r} parses to {val}, the quantity is {float(ref)}')]
        return check_real(text, unit, float(ref), p, 'C14:real')
    ref = complex(ref)
    floor = 10.0 ** (p - 7)
    if kind == 'cartesian':
        z = parse_cartesian(text, unit)
        if z is None:
            return [('C14:cartesian:unparsable', repr(text))]
        bad = []
        for part, got, want in (('re', z.real, ref.real), ('im', z.imag, ref.imag)):
            if abs(want) < floor and abs(got) <= floor:
                continue
            if want != 0 and not within(want, got, p, slack=floor if got == 0 else 0):
                bad.append(('C14:cartesian:inaccurate' if got == 0 or (got > 0) == (want > 0) else 'C14:cartesian:wrong-sign',
                            f'{text!r}: {part} part {got}, the quantity is {want}'))
        return bad
    if kind.startswith('polar'):
        r = parse_polar(text, unit, kind.endswith('deg'))
        if r is None:
            return [('C14:polar:unparsable', repr(text))]
        mag, ang = r
        bad = []
        if abs(ref) >= floor and not within(abs(ref), mag, p):
            bad.append(('C14:polar:inaccurate', f'{text!r}: magnitude {mag}, the quantity is {abs(ref)}'))
        if abs(ref) >= floor:
            dphi = abs(cmath.phase(cmath.rect(1, ang) / cmath.rect(1, cmath.phase(ref))))
            if dphi > (math.radians(0.006) if kind.endswith('deg') else 6e-5) + 1e-2 * (1 if '∠' not in text else 0):
                bad.append(('C14:polar:wrong-angle', f'{text!r}: angle {ang} rad, the quantity has {cmath.phase(ref)} rad'))
        return bad
    if kind.startswith('sin'):
        r = parse_sinusoid(text, unit)
        if r is None:
            return [('C14:sinusoid:unparsable', repr(text))]
        A, fn, wv, ph = r
        # ref is the RMS phasor held by the adapter?  the time function must carry the PEAK amplitude
        sol_peak = peak
        bad = []
        want_amp = abs(ref) * (1 if sol_peak else math.sqrt(2))
        if q == 'power':
            return []          # a product of sinusoids is not a sinusoid of the same frequency: not judged
        if want_amp >= floor and not within(want_amp, A, 3):
            if within(abs(ref), A, 3) and not sol_peak:
                bad.append(('C14:sinusoid-amplitude-is-rms', f'{text!r}: amplitude {A} is the RMS magnitude {abs(ref)}; the peak value is {want_amp}'))
            else:
                bad.append(('C14:sinusoid:inaccurate', f'{text!r}: amplitude {A}, peak value {want_amp}'))
        if fn is not None and abs(wv - w) > 0.006 * w:
            bad.append(('C14:sinusoid:wrong-frequency', f'{text!r}: {wv} vs {w}'))
        if fn is not None and want_amp >= floor:
            want_ph = cmath.phase(ref) - (math.pi / 2 if fn == 'sin' else 0)
            # the cos-referenced phase of x(t) = Re(X e^{jwt}) is arg X; sin reference: arg X + pi/2 ... the code subtracts pi/2
            d1 = abs(cmath.phase(cmath.rect(1, ph) / cmath.rect(1, cmath.phase(ref) + (math.pi / 2 if fn == 'sin' else 0))))
            if d1 > getattr(parse_sinusoid, 'ptol', 6e-3):
                bad.append(('C14:sinusoid:wrong-phase', f'{text!r}: {fn} phase {ph}, phasor angle {cmath.phase(ref)}'))
        return bad
    return []


def examine_declarative(ctx, rng):
    """create_schematic(description): the label symbols must carry the same texts as the programmatic route"""
    import matplotlib.pyplot as plt
    from CircuitCalculator.SimpleSimulation.schematic import create_schematic
    from CircuitCalculator.SimpleCircuit import Elements as elm
    for _ in range(4):
        ctx.evaluations += 1
        R1, R2, V = rng.choice([10.0, 47.0, 5.0]), rng.choice([20.0, 100.0, 1.0]), rng.choice([1.0, 12.0, -5.0])
        p = rng.choice([2, 3, 4])
        desc = {'unit': 3, 'elements': [
            {'type': 'voltage_source', 'name': 'V', 'V': V, 'direction': 'up'},
            {'type': 'resistor', 'name': 'R1', 'R': R1, 'direction': 'right'},
            {'type': 'resistor', 'name': 'R2', 'R': R2, 'direction': 'down'},
            {'type': 'line', 'direction': 'left'}, {'type': 'ground'}],
            'solution': {'type': 'dc', 'precision': p, 'voltages': [{'name': 'R1'}, {'name': 'R2', 'reverse': True}],
                         'currents': [{'name': 'R1'}, {'name': 'V', 'reverse': True}], 'powers': [{'name': 'R2'}]}}
        import copy
        before = copy.deepcopy(desc)

        def label_texts(sch):
            texts = {}
            for e in sch.elements:
                for cls, tag in ((elm.VoltageLabel, 'v'), (elm.CurrentLabel, 'i'), (elm.PowerLabel, 'p')):
                    if isinstance(e, cls):
                        labs = [l.label for l in getattr(e, '_userlabels', [])]
                        texts.setdefault(tag, []).append(labs[0] if labs else None)
            return texts
        try:
            sch = create_schematic(desc)
        except Exception as e:  # noqa: BLE001
            ctx.violation(f'C14:create_schematic-raises-{type(e).__name__}', str(e)[:120], {'description': before})
            continue
        texts = label_texts(sch)
        i = V / (R1 + R2)           # source + at its start (bottom), current flows up through the source ... magnitudes suffice here
        want = {'v': [abs(i) * R1, abs(i) * R2], 'i': [abs(i), abs(i)], 'p': [i * i * R2]}
        rep = {'description': desc, 'texts': texts}
        for tag, unit in (('v', 'V'), ('i', 'A')):
            got = texts.get(tag, [])
            if len(got) != 2 or any(g is None for g in got):
                ctx.violation('C14:declarative-labels-missing', f'{tag}: {got}', rep)
                continue
            for g, wv in zip(got, want[tag]):
                r = parse_real(g, unit)
                if r is None or r[0] == 'inf' or not within(wv, abs(float(r[0])), p):
                    ctx.violation('C14:declarative-label-inaccurate', f'{g!r} vs magnitude {wv} (precision {p})', rep)
        # signed: every requested label must carry the text the adapter computes for that element and direction
        try:
            from CircuitCalculator.SimpleCircuit import DiagramSolution as ds
            ad = ds.real_solution(sch, precision=p).solution
            sd = before['solution']
            expect = {'v': [ad.get_voltage(name=e['name'], reverse=e.get('reverse', False)) for e in sd['voltages']],
                      'i': [ad.get_current(name=e['name'], reverse=e.get('reverse', False)) for e in sd['currents']],
                      'p': [ad.get_power(name=e['name'], reverse=e.get('reverse', False)) for e in sd['powers']]}
            for tag in ('v', 'i', 'p'):
                if texts.get(tag, []) != expect[tag]:
                    ctx.violation('C14:declarative-label-differs-from-adapter', f'{tag}: the schematic shows {texts.get(tag)}, the adapter computes '
                                  f'{expect[tag]} for the requested elements and directions', rep)
        except Exception as e:  # noqa: BLE001
            ctx.violation(f'C14:declarative-adapter-raises-{type(e).__name__}', str(e)[:120], rep)
        # the description is data: it must be unchanged, and building it again must give the same labels
        if desc != before:
            ctx.violation('C14:create_schematic-mutates-description', f'description after the call: {desc}', {'description': before})
        else:
            try:
                again = label_texts(create_schematic(desc))
                if again != texts:
                    ctx.violation('C14:second-create_schematic-differs', f'first {texts}, second {again}', {'description': before})
            except Exception as e:  # noqa: BLE001
                ctx.violation(f'C14:second-create_schematic-raises-{type(e).__name__}', str(e)[:120], {'description': before})
        plt.close('all')


def run(ctx):
    ctx.trusted = TRUSTED
    ctx.partial = ['where schemdraw draws the arrow of a label is not checked; the number formatting itself is C18']
    if standard_prologue(ctx):
        rng = random.Random(ctx.seed + 14)
        n = 5 if ctx.tier == 'quick' else 120
        for _ in range(n):
            examine_drawing(ctx, dc_program(rng), rng)
        for _ in range(15 if ctx.tier == 'quick' else n):       # five solution kinds x labelled nodes: the complex potentials need more drawings
            w = rng.choice([1.0, 50.0, 314.0, 1000.0])
            examine_drawing(ctx, ac_program(rng, w), rng, ac_w=w)
        examine_declarative(ctx, rng)
        # the recorded finding C14:carry-to-one-below-unity, deliberately: 0.99999999 V across a resistor at precision 4
        carry = {'unit': 3, 'symbols': [
            {'cls': 'VoltageSource', 'name': 'V1', 'p': [0, 0], 'q': [0, 1], 'reverse': False, 'kw': {'V': 0.99999999}},
            {'cls': 'Resistor', 'name': 'R1', 'p': [0, 1], 'q': [1, 1], 'reverse': False, 'kw': {'R': 10.0}},
            {'cls': 'Line', 'name': '', 'p': [1, 1], 'q': [1, 0], 'reverse': False, 'kw': {}},
            {'cls': 'Line', 'name': '', 'p': [1, 0], 'q': [0, 0], 'reverse': False, 'kw': {}},
            {'cls': 'Ground', 'name': '0', 'p': [0, 0], 'q': None, 'reverse': False, 'kw': {}}]}
        examine_drawing(ctx, carry, rng, p_fixed=4)
    return RULE


def replay(ctx, obj):
    ctx.trusted = TRUSTED
    if standard_prologue(ctx):
        c = obj['case']
        if 'program' in c:
            prog = c['program']
            w = None
            for s in prog['symbols']:
                if s['cls'] == 'ACVoltageSource':
                    w = s['kw']['w']
            examine_drawing(ctx, prog, random.Random(0), ac_w=w)
        else:
            examine_declarative(ctx, random.Random(0))
    return RULE
