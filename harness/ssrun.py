"""State-space layer (C10, C11, C12): RLC + ideal-source circuit generator, exact non-degeneracy test, independent
phasor oracle for the transfer function, implementation drivers."""
import copy
import random
from fractions import Fraction as F

import numpy as np

import circgen
import circrun
import netgen
from exact import spec_solution

R_VALUES = [1.0, 2.0, 5.0, 10.0, 47.0, 100.0, 0.5]
R_PROBE = [2.2e8, 1e9, 4.7e10]      # probe-style giga-ohm resistors (used only where the comparison is on the element's own scale)
C_VALUES = [1e-3, 2.2e-3, 0.01, 0.5, 1.0, 4.7e-4, 1e-9, 4.7e-10, 1e-12, 4.7e-13]
L_VALUES = [1e-2, 0.1, 0.5, 1.0, 2.0, 3.3e-2, 1e-9, 1e-12]

# names chosen so that sorted order interleaves kinds: capacitors/inductors before and after sources, 'A' < 'Is' < 'L1' < 'Vs'
NAMES = {'R': ['R1', 'R2', 'Ra', 'r', 'R10', 'Rz'], 'C': ['C1', 'C2', 'Ca', 'Cb', 'c', 'Z'], 'L': ['L1', 'L2', 'A', 'La', 'l1', 'W'],
         'V': ['Vs', 'V1', 'E1', 'Uq', 'Vin', 'B'], 'I': ['Is', 'I1', 'J1', 'Iq', 'Z9', 'a']}


def gen_circuit(rng, max_nodes=4):
    nn = rng.randint(2, max_nodes)
    nodes = [str(i) for i in range(nn)] if rng.random() < 0.5 else rng.sample(['0', '1', '2', 'a', 'b', 'gnd', 'x', 'N', '10', '9'], nn)
    order = list(nodes)
    rng.shuffle(order)
    edges = [(order[i], order[rng.randrange(i)]) for i in range(1, nn)]
    for _ in range(rng.randint(1, 4)):
        edges.append(tuple(rng.sample(nodes, 2)))
    edges = [(a, b) if rng.random() < 0.5 else (b, a) for a, b in edges]
    rng.shuffle(edges)
    kinds = []
    nsrc = rng.randint(1, 2)
    pool = ['R', 'R', 'R', 'C', 'L', 'C', 'L']
    for k in range(len(edges)):
        kinds.append(rng.choice(['V', 'I']) if k < nsrc else rng.choice(pool))
    rng.shuffle(kinds)
    used = set()
    comps = []
    for (a, b), kd in zip(edges, kinds):
        name = rng.choice([n for n in NAMES[kd] if n not in used] or [f'{kd}{len(used)}'])
        used.add(name)
        if kd == 'R':
            comps.append({'kind': 'resistor', 'id': name, 'nodes': [a, b], 'params': {'R': rng.choice(R_VALUES)}})
        elif kd == 'C':
            comps.append({'kind': 'capacitor', 'id': name, 'nodes': [a, b], 'params': {'C': rng.choice(C_VALUES)}})
        elif kd == 'L':
            comps.append({'kind': 'inductance', 'id': name, 'nodes': [a, b], 'params': {'L': rng.choice(L_VALUES)}})
        elif kd == 'V':
            comps.append({'kind': 'dc_voltage_source', 'id': name, 'nodes': [a, b], 'params': {'V': 1.0, 'R': 0.0}})
        else:
            comps.append({'kind': 'dc_current_source', 'id': name, 'nodes': [a, b], 'params': {'I': 1.0, 'G': 0.0}})
    if rng.random() < 0.8:
        comps.insert(rng.randrange(len(comps) + 1), {'kind': 'ground', 'id': 'gnd', 'nodes': [rng.choice(nodes)], 'params': {}})
    return {'components': comps}


def sources_of(case):
    return [c['id'] for c in case['components'] if c['kind'] in ('dc_voltage_source', 'dc_current_source')]


def phasor_network(case, w, active=None, amplitudes=None):
    """network case at angular frequency w (exact rational) with the ideal sources carrying the given amplitudes
    (default: unit amplitude on `active`, zero elsewhere)"""
    brs = []
    for c in case['components']:
        if c['kind'] == 'ground':
            continue
        p = c['params']
        b = {'id': c['id'], 'n1': c['nodes'][0], 'n2': c['nodes'][1]}
        if c['kind'] == 'resistor':
            b.update(ctor='resistor', args_exact=[(F(p['R']), F(0))])
        elif c['kind'] == 'capacitor':
            b.update(ctor='admittance', args_exact=[(F(0), F(w) * F(p['C']))])
        elif c['kind'] == 'inductance':
            b.update(ctor='impedance', args_exact=[(F(0), F(w) * F(p['L']))])
        else:
            amp = (amplitudes or {}).get(c['id'], 1 if c['id'] == active else 0)
            ctor = 'voltage_source' if c['kind'] == 'dc_voltage_source' else 'current_source'
            b.update(ctor=ctor, args_exact=[(F(amp), F(0)), (F(0), F(0))])
        b['args'] = [[float(x[0]), float(x[1])] for x in b['args_exact']]
        brs.append(b)
    return {'zero': circgen.expected_ground(case), 'branches': brs}


def nondegenerate(case):
    """exact: (i) capacitors as ideal voltage sources and inductors as ideal current sources leave a uniquely solvable
    resistive network (no C/V loop, no L/I cutset: full-degree characteristic polynomial); (ii) the DC network
    (capacitors open, inductors shorted) is uniquely solvable (no natural frequency at s = 0)."""
    brs = []
    for c in case['components']:
        if c['kind'] == 'ground':
            continue
        b = {'id': c['id'], 'n1': c['nodes'][0], 'n2': c['nodes'][1]}
        if c['kind'] == 'resistor':
            b.update(ctor='resistor', args=[[c['params']['R'], 0.0]])
        elif c['kind'] in ('capacitor', 'dc_voltage_source'):
            b.update(ctor='voltage_source', args=[[1.0, 0.0], [0.0, 0.0]])
        else:
            b.update(ctor='current_source', args=[[1.0, 0.0], [0.0, 0.0]])
        brs.append(b)
    z = circgen.expected_ground(case)
    if spec_solution({'zero': z, 'branches': brs}) is None:
        return False
    return spec_solution(phasor_network(case, 0)) is not None


def impl_model(case):
    """-> dict with A,B,C,D (outputs: potentials of all nodes, voltages and currents of all elements), sources, labels"""
    circuit, comps = circrun.build_impl(case)
    from CircuitCalculator.Circuit.state_space_model import state_space_model
    from CircuitCalculator.Circuit.circuit import transform_circuit
    from CircuitCalculator.Network.NodalAnalysis.state_space_model import nodal_state_space_model
    net = transform_circuit(circuit, w=0)
    nodes = list(net.node_labels)
    ids = [b.id for b in net.branches]
    cvals = {c.id: float(c.value['C']) for c in circuit.components if c.type == 'capacitor'}
    lvals = {c.id: float(c.value['L']) for c in circuit.components if c.type == 'inductance'}
    nssm = nodal_state_space_model(network=net, c_values=cvals, l_values=lvals)
    ssm = state_space_model(circuit, potential_nodes=nodes, voltage_ids=ids, current_ids=ids)
    return {'A': np.array(ssm.A, dtype=float), 'B': np.array(ssm.B, dtype=float), 'C': np.array(ssm.C, dtype=float),
            'D': np.array(ssm.D, dtype=float), 'sources': list(nssm.sources), 'nodes': nodes, 'ids': ids,
            'c_ids': list(cvals), 'l_ids': list(lvals), 'cvals': cvals, 'lvals': lvals, 'circuit': circuit}


def transfer(m, w):
    n = m['A'].shape[0]
    if n == 0:
        return m['D'].astype(complex)
    return m['C'] @ np.linalg.solve(1j * w * np.eye(n) - m['A'], m['B']) + m['D']


def sweep(case):
    """frequencies across all time constants"""
    taus = []
    rs = [c['params']['R'] for c in case['components'] if c['kind'] == 'resistor'] or [1.0]
    for c in case['components']:
        if c['kind'] == 'capacitor':
            taus += [r * c['params']['C'] for r in rs]
        if c['kind'] == 'inductance':
            taus += [c['params']['L'] / r for r in rs]
    ls = [c['params']['L'] for c in case['components'] if c['kind'] == 'inductance']
    cs = [c['params']['C'] for c in case['components'] if c['kind'] == 'capacitor']
    for l in ls:
        for c in cs:
            taus.append((l * c) ** 0.5)
    ws = {0.0}
    for t in taus[:8]:
        ws |= {0.5 / t, 1.0 / t, 3.0 / t}
    ws |= {0.25, 16.0}
    return sorted(float(np.float32(w)) for w in ws)       # few mantissa bits: cheap exact arithmetic


def shrink(case, pred, max_steps=60):
    cur = copy.deepcopy(case)
    steps, changed = 0, True
    while changed and steps < max_steps:
        changed = False
        for k in range(len(cur['components'])):
            cand = copy.deepcopy(cur)
            del cand['components'][k]
            steps += 1
            try:
                if cand['components'] and pred(cand):
                    cur, changed = cand, True
                    break
            except Exception:  # noqa: BLE001
                pass
    return cur
