"""C07 — every component becomes exactly one faithful network branch."""
import copy
import random

import circgen
import circrun
import netgen
import trfrun
from common import standard_prologue
from exact import law_of, CQ

RULE = ('cases = (circuit, w, w_resolution): (i) every component kind the component module can construct, alone with a '
        'resistor and in every list position of a 4-component circuit, at the frequencies {0, own frequency, own +/- '
        'resolution*(1 -/+ 1e-6), own +/- 2*resolution, harmonics n*w0 of periodic sources, unrelated}; boundary values R = 0, '
        'G = 0, w = 0; with and without a ground component, ground at any position; (ii) structured random circuits (<=5 '
        'nodes, label pool interleaving kinds).  For each case: model (Coq, extracted) vs transform_circuit exactly (ids, '
        'terminal order, class, type string; values to 1e-10), and an independent declarative reading of the component list '
        '(harness) vs the implementation (count, order, terminals, law p/s per branch, reference node).  distinct = distinct '
        '(kinds, values, w); non-trivial = contains a source and >= 2 components')

TRUSTED = [
    'Coq 8.16.1 kernel; extraction (ExtrOcamlBasic only) + hex driver',
    'translator tools/gen_tables.py (component constructors, transformers table, value keys) — fail-closed, Python ast',
    'np.cos/np.sin/np.round/np.floor as oracles: the values numpy returns for the phases occurring in the case are handed '
    'to the model as exact rationals; harmonic amplitudes/phases of periodic sources from independent textbook formulas in '
    'harness/circgen.py (their identity with periodic_functions.py is C08)',
    'correspondence harness (generators, codec, comparison)',
]

RES = 1e-3


def freqs_for(case, rng, RES=1e-3):
    ws = set()
    for c in case['components']:
        p = c['params']
        if c['kind'] in ('ac_voltage_source', 'ac_current_source'):
            w0 = p['w']
            ws |= {w0, w0 + RES * (1 - 1e-6), w0 + RES * (1 + 1e-6), max(w0 - RES * (1 - 1e-6), 0.0), w0 + 2 * RES}
        elif c['kind'] in ('periodic_voltage_source', 'periodic_current_source'):
            w0 = p['w']
            for n in (0, 1, 2, 3, rng.randint(4, 9)):
                ws |= {n * w0, n * w0 + RES * (1 - 1e-4), n * w0 + RES * (1 + 1e-4)}
                if n >= 1 and n * w0 > 2 * RES:
                    ws |= {n * w0 - RES * (1 - 1e-4), n * w0 - RES * (1 + 1e-4)}      # just below a harmonic (inside / outside)
            ws.add(1.5 * w0)
            ws.add(2.5 * w0)
    ws |= {0.0, RES * (1 - 1e-6), RES * (1 + 1e-6), 7.0, 12345.678}
    return sorted(ws)


def kind_cases(rng, quick):
    """(i) each kind alone and in every list position"""
    out = []
    kinds = [k for k in circgen.KINDS if k != 'ground']
    for kind in kinds:
        for rep in range(2 if quick else 6):
            c = circgen.mk_component(rng, kind, 'X', 'a', 'b')
            if rep == 0:
                for key in ('R', 'G'):
                    if key in c['params'] and kind not in ('resistor', 'conductance'):
                        c['params'][key] = 0.0
            filler = [circgen.mk_component(rng, 'resistor', 'R1', 'b', 'c'), circgen.mk_component(rng, 'dc_voltage_source', 'V1', 'c', 'a'),
                      circgen.mk_component(rng, 'capacitor', 'C1', 'a', 'c')]
            for pos in range(4):
                comps = filler[:pos] + [c] + filler[pos:]
                for g in (None, 0, len(comps)):
                    cc = copy.deepcopy(comps)
                    if g is not None:
                        cc.insert(g, {'kind': 'ground', 'id': 'gnd', 'nodes': [rng.choice(['a', 'b', 'c'])], 'params': {}})
                    out.append({'components': cc})
                    if quick and g is None:
                        break
            out.append({'components': [c, circgen.mk_component(rng, 'resistor', 'R1', 'a', 'b')]})
    return out


def compare_expected(case, w, impl, res=RES):
    """independent declarative reading vs implementation network.  Returns list of (key, what)."""
    bad = []
    comps = [c for c in case['components'] if c['kind'] != 'ground']
    touched = {x for c in comps for x in c['nodes']}
    if 'exc' in impl and impl['exc'] == 'FloatingGroundNode' and circgen.expected_ground(case) not in touched:
        return bad        # reference node on no element: rejection is the required behaviour (C19)
    if 'exc' in impl:
        bad.append((f'C07:{impl.get("stage", "transform")}-raises-{impl["exc"]}',
                    f'valid circuit: {impl.get("stage")} raised {impl["exc"]}: {impl.get("msg", "")}'))
        return bad
    net = impl['net']
    exp = circgen.expected_network(case, w, res)
    if net['zero'] != exp['zero']:
        bad.append(('C07:wrong-reference-node', f'reference {net["zero"]!r}, expected {exp["zero"]!r}'))
    ids_i = [b['id'] for b in net['branches']]
    ids_e = [b['id'] for b in exp['branches']]
    if ids_i != ids_e:
        missing = [i for i in ids_e if i not in ids_i]
        if missing:
            kinds = sorted({c['kind'] for c in comps if c['id'] in missing})
            bad.append(('C07:component-dropped:' + ','.join(kinds), f'components {missing} ({kinds}) have no branch'))
        elif len(ids_i) != len(set(ids_i)) or len(ids_i) > len(ids_e):
            bad.append(('C07:component-duplicated', f'branch ids {ids_i} vs components {ids_e}'))
        else:
            bad.append(('C07:branch-order', f'branch ids {ids_i} vs components {ids_e}'))
        return bad
    for c, bi, be in zip(comps, net['branches'], exp['branches']):
        if (bi['n1'], bi['n2']) != (be['n1'], be['n2']):
            bad.append(('C07:wrong-terminals:' + c['kind'], f'{c["id"]}: terminals {(bi["n1"], bi["n2"])} expected {(be["n1"], be["n2"])}'))
            continue
        fi, pi, si, _ = law_of(bi)
        fe, pe, se, _ = law_of(be)
        # compare as (Y or Z form, immittance, source term); an ideal branch has p = 0 in either form
        def close(a, b):
            a, b = complex(a), complex(b)
            return abs(a - b) <= 1e-9 * max(1.0, abs(a), abs(b))
        if fi != fe:
            # the same law can be written in both forms when p != 0: convert the expected one
            if not pe.iszero() and not pi.iszero():
                if fe == 'V':      # v - p j = s  ->  j - (1/p) v = -s/p
                    pe, se, fe = CQ(1) / pe, (CQ(0) - se) / pe, 'I'
                else:
                    pe, se, fe = CQ(1) / pe, (CQ(0) - se) / pe, 'V'
        if fi != fe or not close(pi, pe) or not close(si, se):
            bad.append(('C07:wrong-branch-law:' + c['kind'],
                        f'{c["id"]} ({c["kind"]}, {c["params"]}) at w={w}: branch law {fi} p={complex(pi)} s={complex(si)}; '
                        f'the component prescribes {fe} p={complex(pe)} s={complex(se)}'))
    return bad


def examine(ctx, jobs):
    """jobs: list of (origin, case, w) or (origin, case, w, res, via_list)"""
    jobs = [j if len(j) == 5 else (j[0], j[1], j[2], RES, False) for j in jobs]
    impls, mjobs, idx = [], [], []
    for k, (origin, case, w, res, via) in enumerate(jobs):
        impl, comps = circrun.impl_transform(case, w, res, via)
        impls.append(impl)
        if comps is None:
            try:
                comps = circrun.placeholder_comps(case)
            except Exception:  # noqa: BLE001 - a component constructor refused: C19's business
                comps = None
        if comps is not None:
            mjobs.append((case, comps, w, res))
            idx.append(k)
    models = dict(zip(idx, circrun.model_transform(mjobs)))
    for k, (origin, case, w, res, via) in enumerate(jobs):
        impl = impls[k]
        ctx.evaluations += 1
        ctx.count('stream:' + origin)
        ctx.count('impl:' + (impl.get('exc') or 'returned'))
        ctx.count('resolution:' + ('default' if res == RES else 'other'))
        ctx.count('entry:' + ('transform(list)' if via else 'transform_circuit'))
        for c in case['components']:
            ctx.count('kind:' + c['kind'])
        if k in models:
            d = trfrun.compare_networks(impl, models[k])
            if d:
                ctx.disagreements.append((case, w))
                ctx.violation('correspondence:C07-transform_circuit', f'model and implementation disagree at w={w}, resolution={res}: {d}',
                              {'circuit': case, 'w': w, 'res': res, 'via_list': via, 'disagreement': d}, kind='obligation')
        for key, what in compare_expected(case, w, impl, res):
            def pred(cc, key=key):
                i2, _ = circrun.impl_transform(cc, w, res, via)
                return any(k2 == key for k2, _ in compare_expected(cc, w, i2, res))
            small = shrink_circuit(case, pred)
            ctx.violation(key, what, {'circuit': small, 'w': w, 'res': res, 'via_list': via})
        kinds = sorted({c['kind'] for c in case['components']})
        if len(case['components']) >= 2 and any(k_.endswith('source') for k_ in kinds):
            ctx.nontriv([[(c['kind'], c['nodes'], sorted(c['params'].items(), key=str)) for c in case['components']], w, res])
        ctx.sample({'circuit': case, 'w': w, 'res': res, 'impl': str(impl)[:300]}, cap=3)


def shrink_circuit(case, pred, max_steps=60):
    cur = copy.deepcopy(case)
    steps = 0
    changed = True
    while changed and steps < max_steps:
        changed = False
        for k in range(len(cur['components'])):
            cand = copy.deepcopy(cur)
            del cand['components'][k]
            steps += 1
            try:
                if cand['components'] and pred(cand):
                    cur = cand
                    changed = True
                    break
            except Exception:  # noqa: BLE001
                pass
    return cur


def gen_jobs(ctx):
    rng = random.Random(ctx.seed + 7)
    quick = ctx.tier == 'quick'
    jobs = []
    for case in kind_cases(rng, quick):
        fs = freqs_for(case, rng)
        for w in (rng.sample(fs, min(len(fs), 3 if quick else 8))):
            jobs.append(('kind-position', case, w))
    for _ in range(150 if quick else 4000):
        case = circgen.random_circuit(rng)
        fs = freqs_for(case, rng)
        for w in rng.sample(fs, min(len(fs), 2 if quick else 4)):
            jobs.append(('random', case, w))
        # other frequency resolutions, through both entry points (dyadic resolutions keep the float subtraction exact)
        res = rng.choice([0.5, 0.25, 2.0 ** -20, 0.125, 2.0])
        w0s = [c['params']['w'] for c in case['components'] if c['kind'].startswith('periodic')]
        if any(w0 <= 8 * res for w0 in w0s):
            res = 2.0 ** -20      # a resolution above w0/2 makes every frequency "a harmonic"; rounding ties of w/w0 are not modelled
        fs = freqs_for(case, rng, res)
        for w in rng.sample(fs, min(len(fs), 2 if quick else 4)):
            jobs.append(('random-resolution', case, w, res, rng.random() < 0.6))
    # resolution 0 is a resolution too: a source is then active at exactly its own frequency and nowhere else (dc sources at w = 0 only);
    # frequencies a dyadic 2^-12 / 2^-11 away (inside the DEFAULT window) must see a short / open circuit.  Periodic sources are left out
    # of this stream (whether n*w0 computed in binary64 is "exactly a harmonic" is a rounding question the rational model does not ask).
    for _ in range(25 if quick else 500):
        case = circgen.random_circuit(rng)
        if any(c['kind'].startswith('periodic') for c in case['components']):
            continue
        owns = sorted({float(c['params']['w']) for c in case['components'] if c['kind'] in ('ac_voltage_source', 'ac_current_source')} | {0.0})
        for w0 in owns[:3]:
            for w in (w0, w0 + 2.0 ** -12, max(w0 - 2.0 ** -11, 0.0) if w0 else 2.0 ** -14):
                jobs.append(('zero-resolution', case, w, 0.0, rng.random() < 0.5))
    # a sinusoidal source with own frequency 0 (the constructor default) keeps amplitude AND phase at w = 0
    for _ in range(15 if quick else 300):
        case = circgen.random_circuit(rng)
        srcs = [c for c in case['components'] if c['kind'] in ('ac_voltage_source', 'ac_current_source')]
        for c in srcs[:2]:
            c['params']['w'] = 0.0
            if c['params']['phi'] == 0.0:
                c['params']['phi'] = rng.choice([0.5, -1.0, 2.5])
        if srcs:
            jobs += [('zero-frequency-sinusoidal-source', case, 0.0), ('zero-frequency-sinusoidal-source', case, 2.0 ** -11)]
    # sources far above 1 rad/s: the activity window is ABSOLUTE (|w - w_s| <= resolution), whatever the magnitude of w
    for _ in range(20 if quick else 400):
        case = circgen.random_circuit(rng)
        big = rng.choice([1e6, 3e7, 2.5e5, 1e9])
        srcs = [c for c in case['components'] if c['kind'] in ('ac_voltage_source', 'ac_current_source')]
        if not srcs:
            continue
        srcs[0]['params']['w'] = big
        for k in (2.0, 5.0, 40.0, -3.0, 0.5):
            w = big + k * RES
            if w != big and abs(abs(w - big) - RES) > 1e-6 * RES:         # stay off the boundary itself (float subtraction at this magnitude)
                jobs.append(('high-frequency', case, w))
    return jobs


def run(ctx):
    ctx.trusted = TRUSTED
    ctx.assumptions = ['finite parameter values (infinite resistance of an open switch is exercised by C13)',
                       'frequencies at least 1e-6*resolution away from the activity boundary (float subtraction is exact there)']
    if standard_prologue(ctx):
        examine(ctx, gen_jobs(ctx))
    return RULE


def replay(ctx, obj):
    ctx.trusted = TRUSTED
    if standard_prologue(ctx):
        c = obj['case']
        examine(ctx, [('replay', c['circuit'], c['w'], c.get('res', RES), c.get('via_list', False))])
    return RULE
