"""Shared machinery of every check: environment pinning, Coq build + extraction, model runner,
token codec, verdict/evidence/replay writing, known findings."""
import fcntl
import hashlib
import json
import os
import re
import subprocess
import sys
import time
from fractions import Fraction

VERIF = os.path.dirname(os.path.dirname(os.path.abspath(__file__)))
COQ = os.path.join(VERIF, 'coq')
REPO = os.environ.get('VERIF_REPO', '/repo')
SRC = os.path.join(REPO, 'src')
REPLAYS = os.path.join(VERIF, 'replays')
EVIDENCE = os.path.join(VERIF, 'evidence')

WHITELIST_AXIOMS = {
    # declared by the Coq standard library; named in the trusted base (DESIGN §4)
    'ClassicalDedekindReals.sig_not_dec', 'ClassicalDedekindReals.sig_forall_dec',
    'FunctionalExtensionality.functional_extensionality_dep', 'Classical_Prop.classic',
    'Eqdep.Eq_rect_eq.eq_rect_eq', 'JMeq.JMeq_eq', 'ProofIrrelevance.proof_irrelevance',
    'ClassicalEpsilon.constructive_indefinite_description',
    'PropExtensionality.propositional_extensionality',
}


def pin_environment():
    """Every check must exercise /repo/src, not the unrelated wheel in site-packages (DESIGN F1)."""
    if sys.path[0:1] != [SRC]:
        sys.path.insert(0, SRC)
    os.environ.setdefault('MPLBACKEND', 'Agg')
    import warnings
    warnings.filterwarnings('ignore')
    import CircuitCalculator
    f = os.path.abspath(CircuitCalculator.__file__)
    if not f.startswith(SRC + os.sep):
        print(f'FATAL: CircuitCalculator imported from {f}, not {SRC}')
        sys.exit(2)


# ------------------------------------------------------------------ build
def sh(cmd, timeout, cwd=None):
    p = subprocess.run(cmd, shell=True, cwd=cwd, stdout=subprocess.PIPE, stderr=subprocess.STDOUT,
                       timeout=timeout, text=True)
    return p.returncode, p.stdout


class BuildError(Exception):
    def __init__(self, what, log):
        super().__init__(what)
        self.what = what
        self.log = log


def build(jobs=16):
    """Regenerate Gen/*.v from the repository (translator), then full .vo build, extraction, OCaml runner.  Serialised by a file
    lock so concurrent checks share one build.  Degrades instead of stopping: a translator module that refuses the source poisons
    its own output file; when `make` fails, everything that can still be built is built (`make -k`) and the compiled files of every
    target that is NOT up to date (the failed files and all their dependents, from a dry run) are deleted, so that nothing is ever
    checked against a stale model.  Returns what is broken; the caller decides what that means for its property."""
    os.makedirs(os.path.join(COQ, 'Gen'), exist_ok=True)
    with open(os.path.join(VERIF, '.build.lock'), 'w') as lk:
        fcntl.flock(lk, fcntl.LOCK_EX)
        t0 = time.time()
        info = {'translator': None, 'make': None, 'stale': [], 'runner_ok': True}
        rc, out = sh(f'/venv/bin/python {VERIF}/tools/py2v.py', 120, cwd=VERIF)
        info['runner_from_last_good_tables'] = False
        if rc != 0:
            info['translator'] = out[-3000:]
            tables, last = os.path.join(COQ, 'Gen', 'Tables.v'), os.path.join(COQ, 'Gen', 'Tables.lastgood')
            if 'gen_tables' in out and os.path.exists(last) and os.path.exists(os.path.join(COQ, 'Makefile')):
                # Gen/Tables.v is the one generated file the executable model depends on.  Build the runner against the LAST tables that
                # translated (the model of the code as it was), then put the poisoned file back: every proof over the tables counts as
                # broken, while the correspondence and the search still run — against the previous tables, so a change of behaviour
                # shows up as a concrete disagreement and an equivalent rewrite as none.
                poisoned = open(tables, encoding='utf-8').read()
                try:
                    open(tables, 'w', encoding='utf-8').write(open(last, encoding='utf-8').read())
                    rc2, _ = sh(f'timeout 1500 make -j{jobs} Extract/Extract.vo 2>&1', 1600, cwd=COQ)
                    ex = os.path.join(COQ, 'Extract')
                    if rc2 == 0:
                        rc3, _ = sh('ocamlfind ocamlopt -O3 -w -a model.mli model.ml driver.ml -o runner 2>&1', 300, cwd=ex)
                        info['runner_from_last_good_tables'] = rc3 == 0
                finally:
                    open(tables, 'w', encoding='utf-8').write(poisoned)
        if not os.path.exists(os.path.join(COQ, 'Makefile')) or \
                os.path.getmtime(os.path.join(COQ, '_CoqProject')) > os.path.getmtime(os.path.join(COQ, 'Makefile')):
            rc, out = sh('coq_makefile -f _CoqProject -o Makefile', 60, cwd=COQ)
            if rc != 0:
                raise BuildError('coq_makefile', out)
        rc, out = sh(f'timeout 1500 make -j{jobs} 2>&1', 1600, cwd=COQ)
        if rc != 0:
            info['make'] = out[-3000:]
            sh(f'timeout 1500 make -k -j{jobs} 2>&1', 1600, cwd=COQ)
            _, dry = sh('make -n -k 2>&1', 120, cwd=COQ)
            stale = sorted(set(re.findall(r'COQC\s+(\S+\.v)\b', dry)) | set(re.findall(r'coqc[^\n]*?\s(\S+\.v)\b', dry)))
            info['stale'] = stale
            for v in stale:
                for ext in ('.vo', '.vok', '.vos', '.glob'):
                    try:
                        os.remove(os.path.join(COQ, v[:-2] + ext))
                    except OSError:
                        pass
        ex = os.path.join(COQ, 'Extract')
        runner = os.path.join(ex, 'runner')
        srcs = [os.path.join(ex, f) for f in ('model.ml', 'model.mli', 'driver.ml')]
        if info['runner_from_last_good_tables'] and os.path.exists(runner):
            pass                              # built above against the last tables that translated
        elif 'Extract/Extract.v' in info['stale'] or not all(os.path.exists(s) for s in srcs):
            info['runner_ok'] = False        # the model itself does not build: no correspondence possible
            try:
                os.remove(runner)
            except OSError:
                pass
        elif not os.path.exists(runner) or any(os.path.getmtime(s) > os.path.getmtime(runner) for s in srcs):
            rc, out2 = sh('ocamlfind ocamlopt -O3 -w -a model.mli model.ml driver.ml -o runner 2>&1', 300, cwd=ex)
            if rc != 0:
                raise BuildError('ocamlopt', out2)
        info['build_s'] = round(time.time() - t0, 2)
        return info


_FORBIDDEN = re.compile(r'\b(Admitted|admit|Axiom|Parameter|Conjecture|Abort All)\b|Unset Guard|bypass_check|'
                        r'Admit Obligations|-type-in-type|Unset Universe Checking|Unset Positivity')


def scan_forbidden():
    """grep the whole development for escape hatches; returns list of 'file:line: text'."""
    bad = []
    for root, _, files in os.walk(COQ):
        if os.sep + 'Run' in root:
            continue
        for fn in files:
            if not fn.endswith('.v'):
                continue
            p = os.path.join(root, fn)
            text = open(p, encoding='utf-8').read()
            # blank out (possibly nested, multi-line) comments, keeping line structure
            out, depth, i = [], 0, 0
            while i < len(text):
                if text.startswith('(*', i):
                    depth += 1
                    i += 2
                    continue
                if depth and text.startswith('*)', i):
                    depth -= 1
                    i += 2
                    continue
                out.append(text[i] if (depth == 0 or text[i] == '\n') else ' ')
                i += 1
            for k, line in enumerate(''.join(out).split('\n'), 1):
                if _FORBIDDEN.search(line):
                    bad.append(f'{os.path.relpath(p, COQ)}:{k}: {line.strip()}')
    return bad


def check_property_file(prop):
    """Re-run coqc on Properties/<prop>.v and its continuation files Properties/<prop>[a-z]*.v, capture Print
    Assumptions, count theorems.  Returns dict(obligations, discharged, theorems, axioms, ok, log)."""
    import glob
    files = sorted(glob.glob(os.path.join(COQ, 'Properties', f'{prop}.v')) +
                   glob.glob(os.path.join(COQ, 'Properties', f'{prop}[a-z]*.v')))
    names, axioms, closed, logs, all_ok, discharged = [], set(), 0, [], bool(files), 0
    for path in files:
        src = open(path, encoding='utf-8').read()
        src_nc = re.sub(r'\(\*.*?\*\)', '', src, flags=re.S)
        these = re.findall(r'^\s*(?:Theorem|Lemma|Corollary|Example)\s+([A-Za-z0-9_\']+)', src_nc, flags=re.M)
        rel = os.path.relpath(path, COQ)
        rc, out = sh(f'timeout 900 coqc -Q . CC {rel} 2>&1', 1000, cwd=COQ)
        names += these
        if rc == 0:
            discharged += len(these)
        else:
            all_ok = False
        closed += out.count('Closed under the global context')
        # Print Assumptions lists "Axioms:" followed by "name : type" lines
        for m in re.finditer(r'^([A-Za-z_][A-Za-z0-9_.\']*)\s*:', out, flags=re.M):
            a = m.group(1)
            if a in ('Axioms', 'Warning', 'Error', 'File'):
                continue          # the header of Print Assumptions / coqc diagnostics, not axiom names
            if '.' in a or a[0].isupper() or a in ('classic',):
                axioms.add(a)
        logs.append(out[-1500:])
    foreign = sorted(a for a in axioms if a not in WHITELIST_AXIOMS and not a.startswith(
        ('PrimFloat', 'Uint63', 'FloatOps', 'PrimInt63', 'FloatAxioms', 'SpecFloat')))
    return {
        'obligations': len(names), 'discharged': discharged, 'theorems': names, 'files': [os.path.relpath(f, COQ) for f in files],
        'axioms': sorted(axioms), 'foreign_axioms': foreign, 'closed_count': closed,
        'ok': all_ok and not foreign, 'log': '\n'.join(logs)[-3000:],
    }


def gen_dependencies(files):
    """the Gen/*.v files (rewritten from the repository source by tools/gen_*.py on every run) that the given property files depend on,
    transitively, according to coqdep's dependency file"""
    dep = {}
    try:
        for line in open(os.path.join(COQ, '.Makefile.d'), encoding='utf-8'):
            if '.vo ' not in line.split(':')[0] + ' ' or ':' not in line:
                continue
            lhs, rhs = line.split(':', 1)
            tgt = lhs.split()[0]
            if tgt.endswith('.vo'):
                dep[tgt[:-3]] = [x[:-3] for x in rhs.split() if x.endswith('.vo')]
    except OSError:
        return []
    seen, todo = set(), [f[:-2] for f in files]
    while todo:
        x = todo.pop()
        if x in seen:
            continue
        seen.add(x)
        todo += dep.get(x, [])
    return sorted(x + '.v' for x in seen if x.startswith('Gen/'))


def run_coqchk(prop, files):
    """thorough tier: re-check the compiled property files and everything they depend on with the independent checker;
    -o prints the axioms of the whole context"""
    mods = ' '.join('CC.' + f[:-2].replace('/', '.') for f in files)
    rc, out = sh(f'timeout 3000 coqchk -silent -o -Q . CC {mods} 2>&1', 3100, cwd=COQ)
    axioms = []
    m = re.search(r'\* Axioms:(.*?)\n\s*\n\* ', out, flags=re.S)
    if m:
        axioms = [a.strip() for a in re.findall(r'^\s+([A-Za-z_][A-Za-z0-9_.\']*)', m.group(1), flags=re.M) if a.strip() != '<none>']
    def short(a):
        return a.split('.')[-2] + '.' + a.split('.')[-1] if a.count('.') >= 1 else a
    # coqchk -o lists the axioms (and primitives) of EVERY library in the loaded context, used or not.  Anything under the logical root
    # `Coq.` is declared by the standard library itself (primitive integers / floats and the Uint63 specification axioms come in with
    # Model/FreqFloat.v); the list is written to the evidence.  Only axioms from elsewhere and outside the whitelist are foreign.
    foreign = [a for a in axioms if not a.startswith('Coq.') and not any(a.endswith(w.split('.')[-1]) for w in WHITELIST_AXIOMS)]
    unsafe = [l.strip() for l in out.split('\n') if ('type-in-type' in l or 'unsafe' in l or 'positivity is assumed' in l) and '<none>' not in l]
    return {'ok': rc == 0 and not foreign and not unsafe, 'exit': rc, 'axioms': axioms, 'foreign_axioms': foreign, 'unsafe': unsafe,
            'tail': out[-600:]}


# ------------------------------------------------------------------ token codec (mirrors Model/Codec.v)
def t_label(s):
    cps = [ord(c) for c in s]
    return [len(cps)] + cps


def t_q(x):
    f = Fraction(x)
    return [f.numerator, f.denominator]


def t_c(x):
    x = complex(x)
    return t_q(x.real) + t_q(x.imag)


def t_list(items, enc):
    out = [len(items)]
    for it in items:
        out += enc(it)
    return out


class Toks:
    """reader over a list of ints"""
    def __init__(self, toks):
        self.t = toks
        self.i = 0

    def z(self):
        v = self.t[self.i]
        self.i += 1
        return v

    def label(self):
        n = self.z()
        return ''.join(chr(self.z()) for _ in range(n))

    def q(self):
        n = self.z()
        d = self.z()
        return Fraction(n, d)

    def c(self):
        return (self.q(), self.q())

    def res(self, dec):
        tag = self.z()
        if tag == 0:
            return ('ok', dec())
        return ('err', ERR_NAMES.get(self.z(), 'EOther'))

    def lst(self, dec):
        n = self.z()
        return [dec() for _ in range(n)]

    def done(self):
        return self.i == len(self.t)


ERR_NAMES = {1: 'FloatingGroundNode', 2: 'AmbiguousBranchIDs', 3: 'KeyError', 4: 'Singular', 5: 'ValueError',
             6: 'AttributeError', 7: 'Other', 8: 'MultipleGroundNodes', 9: 'AmbiguousComponentID', 10: 'TypeError',
             11: 'ZeroDivisionError', 12: 'FileFormatError', 13: 'FileExistsError', 14: 'UnknownWavetype',
             15: 'UnidentifiedComponent', 16: 'IncorrectComponentInformation', 17: 'UnknownCircuitComponent', 18: 'IndexError'}


def run_model(lines, shards=16):
    """lines: list of token lists (first token = function id).  Returns list of int lists."""
    runner = os.path.join(COQ, 'Extract', 'runner')
    if not lines:
        return []
    def fmt(v):
        return ('-' + format(-v, 'x')) if v < 0 else format(v, 'x')
    n = len(lines)
    shards = max(1, min(shards, n // 8 or 1))
    chunks = [lines[k::shards] for k in range(shards)]
    procs = []
    for ch in chunks:
        data = '\n'.join(' '.join(fmt(v) for v in ln) for ln in ch) + '\n'
        p = subprocess.Popen(['bash', '-c', f'ulimit -s unlimited 2>/dev/null; exec {runner}'], stdin=subprocess.PIPE,
                             stdout=subprocess.PIPE, text=True)
        procs.append((p, data))
    # feed all, then collect (communicate sequentially is fine: each has its own pipes via threads)
    import threading
    outs = [None] * len(procs)

    def work(k):
        p, data = procs[k]
        o, _ = p.communicate(data)
        outs[k] = o
    th = [threading.Thread(target=work, args=(k,)) for k in range(len(procs))]
    for t in th:
        t.start()
    for t in th:
        t.join()
    res = [None] * n
    for k, o in enumerate(outs):
        rows = o.split('\n')
        idxs = list(range(k, n, shards))
        if len(rows) < len(idxs):
            raise RuntimeError(f'model runner died on shard {k} (rc={procs[k][0].returncode})')
        for j, idx in enumerate(idxs):
            res[idx] = [int(tok, 16) for tok in rows[j].split()]
    return res


# ------------------------------------------------------------------ known findings
def load_known():
    p = os.path.join(VERIF, 'known_findings.json')
    if not os.path.exists(p):
        return []
    return json.load(open(p))


# ------------------------------------------------------------------ check context
class Ctx:
    def __init__(self, prop, tier, seed):
        self.prop = prop
        self.tier = tier
        self.seed = seed
        self.t0 = time.time()
        self.evaluations = 0
        self.nontrivial = set()
        self.samples = []
        self.dist = {}
        self.violations = []      # dicts: kind, key, what, replay(obj)
        self.known_hits = {}
        self.disagreements = []
        self.notes = []
        self.proof = None
        self.extra = {}
        self.partial = []
        self.trusted = []
        self.assumptions = []

    def count(self, key, n=1):
        self.dist[key] = self.dist.get(key, 0) + n

    def nontriv(self, obj):
        self.nontrivial.add(hashlib.sha1(json.dumps(obj, sort_keys=True, default=str).encode()).hexdigest())

    def sample(self, obj, cap=4):
        if len(self.samples) < cap:
            self.samples.append(obj)

    def violation(self, key, what, replay, kind='input'):
        """key: finding class used for known-finding matching; replay: JSON-able object."""
        self.violations.append({'kind': kind, 'key': key, 'what': what, 'replay': replay})

    def finish(self, rule):
        os.makedirs(REPLAYS, exist_ok=True)
        os.makedirs(EVIDENCE, exist_ok=True)
        known = [k for k in load_known() if k.get('property') == self.prop and k.get('kind') == 'finding']
        known_keys = {k['key']: k for k in known}
        real = []
        for v in self.violations:
            if v['key'] in known_keys:
                self.known_hits.setdefault(v['key'], []).append(v)
            else:
                real.append(v)
        for key, hits in self.known_hits.items():
            print(f"KNOWN-FINDING: property={self.prop} {known_keys[key]['what']} (hit {len(hits)}x; e.g. "
                  f"{json.dumps(hits[0]['replay'], default=str)[:200]})")
        # one VIOLATION line per distinct key (first/minimal replay).  A broken obligation (proof or
        # correspondence) is reported through the concrete failing input when the search found one;
        # otherwise it is reported itself, flagged no-failing-input-found.
        by_key = {}
        for v in real:
            by_key.setdefault(v['key'], v)
        inputs = {k: v for k, v in by_key.items() if v['kind'] == 'input'}
        obls = {k: v for k, v in by_key.items() if v['kind'] != 'input'}
        seen = inputs if inputs else obls
        lines = []
        for key, v in seen.items():
            h = hashlib.sha1(json.dumps(v['replay'], sort_keys=True, default=str).encode()).hexdigest()[:10]
            path = os.path.join(REPLAYS, f'{self.prop}_{re.sub(r"[^A-Za-z0-9]+", "_", key)[:60]}_{h}.json')
            with open(path, 'w') as f:
                json.dump({'property': self.prop, 'kind': v['kind'], 'key': key, 'what': v['what'],
                           'seed': self.seed, 'tier': self.tier, 'case': v['replay'],
                           'broken_obligations': [{'key': k, 'what': o['what']} for k, o in obls.items()]},
                          f, indent=1, default=str)
            tail = '' if v['kind'] == 'input' else ' no-failing-input-found'
            lines.append(f'VIOLATION property={self.prop} replay={path}{tail}')
        proof = self.proof or {'obligations': 0, 'discharged': 0, 'theorems': [], 'axioms': []}
        cov = {
            'obligations': proof['obligations'], 'discharged': proof['discharged'],
            'checker_cmd': f'cd {COQ} && make (full .vo build) && coqc -Q . CC ' + ' '.join((self.proof or {}).get('files') or [f'Properties/{self.prop}.v']),
            'regenerated_files_the_property_depends_on': gen_dependencies((self.proof or {}).get('files') or []),
            'trusted_base': self.trusted,
            'theorems': proof.get('theorems', []),
            'axioms_reported_by_Print_Assumptions': proof.get('axioms', []),
            'evaluations': self.evaluations,
            'distinct_nontrivial': len(self.nontrivial),
            'rule': rule,
            'samples': self.samples,
            'input_distribution': self.dist,
            'disagreements_checked': len(self.disagreements),
            'known_findings_hit': {k: len(v) for k, v in self.known_hits.items()},
            'partial': self.partial,
            'exhaustive': False,
        }
        cov.update(self.extra)
        ev = {'property_id': self.prop, 'tier': self.tier, 'seed': self.seed, 'level': 'proof', 'coverage': cov,
              'assumptions': self.assumptions, 'wall_s': round(time.time() - self.t0, 2), 'violations': len(seen)}
        with open(os.path.join(EVIDENCE, f'{self.prop}.json'), 'w') as f:
            json.dump(ev, f, indent=1, default=str)
        for ln in lines:
            print(ln)
        print(f'{self.prop} tier={self.tier} seed={self.seed} evaluations={self.evaluations} '
              f'distinct_nontrivial={len(self.nontrivial)} obligations={proof["obligations"]}/{proof["discharged"]} '
              f'violations={len(seen)} known={len(self.known_hits)} wall={ev["wall_s"]}s')
        return 1 if lines else 0


def standard_prologue(ctx):
    """build + forbidden-scan + property file; records obligation-level violations.  Returns True if the model runner is usable.
    A translator refusal or a broken proof elsewhere in the development is a violation for THIS property exactly when this
    property's own files (Properties/Cxx*.v and what they depend on) or the model runner no longer build; the search for a failing
    input goes on in either case whenever the runner is usable."""
    usable = True
    try:
        info = build()
        ctx.extra['build'] = {k: info[k] for k in ('build_s', 'stale', 'runner_ok', 'runner_from_last_good_tables')}
        if info['translator']:
            ctx.extra['build']['translator'] = info['translator'][-600:]
    except BuildError as e:
        ctx.violation(f'build:{e.what}', f'{e.what} failed: the proof development no longer builds against the current '
                      f'source', {'obligation': e.what, 'log': e.log[-3000:]}, kind='obligation')
        ctx.proof = {'obligations': 1, 'discharged': 0, 'theorems': [], 'axioms': []}
        return False
    if not info['runner_ok']:
        usable = False
        ctx.violation('build:model-runner', 'the executable model (Model/Run.v -> Extract) no longer builds against the current source: '
                      + (info['translator'] or info['make'] or '')[-400:],
                      {'obligation': 'model runner', 'translator': info['translator'], 'make': info['make'], 'stale': info['stale']},
                      kind='obligation')
    bad = scan_forbidden()
    if bad:
        ctx.violation('forbidden-construct', 'escape hatch in the Coq development', {'obligation': 'scan', 'hits': bad},
                      kind='obligation')
    pr = check_property_file(ctx.prop)
    ctx.proof = pr
    if ctx.tier == 'thorough' and pr['ok']:
        ck = run_coqchk(ctx.prop, pr.get('files', []))
        ctx.extra['coqchk'] = ck
        if not ck['ok']:
            ctx.violation('proof:coqchk:' + ctx.prop, 'the independent checker coqchk rejects the compiled property files or reports an axiom outside '
                          'the whitelist', {'obligation': 'coqchk', 'report': ck}, kind='obligation')
    if not pr['ok']:
        why = ''
        if info['translator']:
            why = ' — translator: ' + info['translator'].strip()[-300:]
        elif info['stale']:
            why = ' — no longer compiling: ' + ', '.join(info['stale'][:6])
        ctx.violation('proof:' + ctx.prop, f'Properties/{ctx.prop}*.v no longer check against the current source (or use a non-whitelisted axiom)' + why,
                      {'obligation': f'Properties/{ctx.prop}*.v', 'foreign_axioms': pr['foreign_axioms'], 'log': pr['log'],
                       'translator': info['translator'], 'not_compiling': info['stale'], 'make': (info['make'] or '')[-1500:]},
                      kind='obligation')
    return usable
